(* C11 (rescaling half): replacing the metric by a strictly increasing transform of it leaves
   prototypes, predecessors, assigned labels, conquest order, relevance marks and all predictions
   unchanged and maps the costs by the transform.  Free theorem (Paramcoq) of Model/Sup.v and
   Model/Knn.v, which use weights only through [ltb].  Stated at W = Z, the carrier the model is
   executed at; the general form (two carriers, [f] order-preserving on the values that occur)
   is [rescale_sup_fit_on] below. *)
From Coq Require Import List ZArith.
From OPF Require Import Base.Lists Model.Heap Model.Sup Model.Knn Proofs.Rescale Proofs.RescaleKnn.

Theorem rescale_find_prototypes :
  forall (f : Z -> Z), (forall a b, (a < b)%Z -> (f a < f b)%Z) ->
  forall (top : Z) (n : nat) (w : nat -> nat -> Z) (nd nd' : @nodes Z),
    (n_cost nd' = map f (n_cost nd) /\ n_pred nd' = n_pred nd /\ n_label nd' = n_label nd /\
     n_plabel nd' = n_plabel nd /\ n_status nd' = n_status nd /\ n_relevant nd' = n_relevant nd /\
     n_order nd' = n_order nd) ->
    let r := find_prototypes Z.ltb top n w nd in
    let r' := find_prototypes Z.ltb (f top) n (fun p q => f (w p q)) nd' in
    n_cost r' = map f (n_cost r) /\ n_pred r' = n_pred r /\ n_label r' = n_label r /\
    n_plabel r' = n_plabel r /\ n_status r' = n_status r /\ n_relevant r' = n_relevant r /\
    n_order r' = n_order r.
Proof. exact Rescale.rescale_find_prototypes_Z. Qed.

Theorem rescale_compete :
  forall (f : Z -> Z), (forall a b, (a < b)%Z -> (f a < f b)%Z) ->
  forall (zero top : Z) (semi : bool) (nl n : nat) (w : nat -> nat -> Z) (nd nd' : @nodes Z),
    (n_cost nd' = map f (n_cost nd) /\ n_pred nd' = n_pred nd /\ n_label nd' = n_label nd /\
     n_plabel nd' = n_plabel nd /\ n_status nd' = n_status nd /\ n_relevant nd' = n_relevant nd /\
     n_order nd' = n_order nd) ->
    let r := compete Z.ltb zero top semi nl n w nd in
    let r' := compete Z.ltb (f zero) (f top) semi nl n (fun p q => f (w p q)) nd' in
    n_cost r' = map f (n_cost r) /\ n_pred r' = n_pred r /\ n_label r' = n_label r /\
    n_plabel r' = n_plabel r /\ n_status r' = n_status r /\ n_relevant r' = n_relevant r /\
    n_order r' = n_order r.
Proof. exact Rescale.rescale_compete_Z. Qed.

Theorem rescale_sup_fit :
  forall (f : Z -> Z), (forall a b, (a < b)%Z -> (f a < f b)%Z) ->
  forall (zero top : Z) (labels : list nat) (w : nat -> nat -> Z),
    let r := sup_fit Z.ltb zero top labels w in
    let r' := sup_fit Z.ltb (f zero) (f top) labels (fun p q => f (w p q)) in
    n_cost r' = map f (n_cost r) /\ n_pred r' = n_pred r /\ n_label r' = n_label r /\
    n_plabel r' = n_plabel r /\ n_status r' = n_status r /\ n_relevant r' = n_relevant r /\
    n_order r' = n_order r.
Proof. exact Rescale.rescale_sup_fit_Z. Qed.

Theorem rescale_semi_fit :
  forall (f : Z -> Z), (forall a b, (a < b)%Z -> (f a < f b)%Z) ->
  forall (zero top : Z) (labels : list nat) (nu : nat) (w : nat -> nat -> Z),
    let r := semi_fit Z.ltb zero top labels nu w in
    let r' := semi_fit Z.ltb (f zero) (f top) labels nu (fun p q => f (w p q)) in
    n_cost r' = map f (n_cost r) /\ n_pred r' = n_pred r /\ n_label r' = n_label r /\
    n_plabel r' = n_plabel r /\ n_status r' = n_status r /\ n_relevant r' = n_relevant r /\
    n_order r' = n_order r.
Proof. exact Rescale.rescale_semi_fit_Z. Qed.

(* [ds]: one distance function (query to training node) per query row *)
Theorem rescale_predict :
  forall (f : Z -> Z), (forall a b, (a < b)%Z -> (f a < f b)%Z) ->
  forall (zero : Z) (nd nd' : @nodes Z) (ds : list (nat -> Z)),
    (n_cost nd' = map f (n_cost nd) /\ n_pred nd' = n_pred nd /\ n_label nd' = n_label nd /\
     n_plabel nd' = n_plabel nd /\ n_status nd' = n_status nd /\ n_relevant nd' = n_relevant nd /\
     n_order nd' = n_order nd) ->
    snd (predict_batch Z.ltb (f zero) nd' (map (fun d k => f (d k)) ds))
    = snd (predict_batch Z.ltb zero nd ds) /\
    let r := fst (predict_batch Z.ltb zero nd ds) in
    let r' := fst (predict_batch Z.ltb (f zero) nd' (map (fun d k => f (d k)) ds)) in
    n_cost r' = map f (n_cost r) /\ n_pred r' = n_pred r /\ n_label r' = n_label r /\
    n_plabel r' = n_plabel r /\ n_status r' = n_status r /\ n_relevant r' = n_relevant r /\
    n_order r' = n_order r.
Proof. exact Rescale.rescale_predict_Z. Qed.

(* the whole supervised pipeline *)
Theorem rescale_invariant_predictions :
  forall (f : Z -> Z), (forall a b, (a < b)%Z -> (f a < f b)%Z) ->
  forall (zero top : Z) (labels : list nat) (w : nat -> nat -> Z) (ds : list (nat -> Z)),
    snd (predict_batch Z.ltb (f zero)
           (sup_fit Z.ltb (f zero) (f top) labels (fun p q => f (w p q)))
           (map (fun d k => f (d k)) ds))
    = snd (predict_batch Z.ltb zero (sup_fit Z.ltb zero top labels w) ds).
Proof. exact Rescale.rescale_pipeline_Z. Qed.

(* General form: two carriers; [f] only has to preserve [ltb] on a set [P] of values closed
   under what occurs ([zero], [top], all weights).  The costs of the result stay in [P]. *)
Theorem rescale_sup_fit_on :
  forall (W1 W2 : Type) (P : W1 -> Prop) (f : W1 -> W2)
         (ltb1 : W1 -> W1 -> bool) (ltb2 : W2 -> W2 -> bool),
    (forall a b, P a -> P b -> ltb2 (f a) (f b) = ltb1 a b) ->
    forall (zero top : W1) (labels : list nat) (w : nat -> nat -> W1),
      P zero -> P top -> (forall p q, P (w p q)) ->
      Forall P (n_cost (sup_fit ltb1 zero top labels w)) /\
      sup_fit ltb2 (f zero) (f top) labels (fun p q => f (w p q))
      = mkNodes (map f (n_cost (sup_fit ltb1 zero top labels w)))
                (n_pred (sup_fit ltb1 zero top labels w)) (n_label (sup_fit ltb1 zero top labels w))
                (n_plabel (sup_fit ltb1 zero top labels w)) (n_status (sup_fit ltb1 zero top labels w))
                (n_relevant (sup_fit ltb1 zero top labels w)) (n_order (sup_fit ltb1 zero top labels w)).
Proof. exact (@Rescale.rescale_sup_fit_on). Qed.

(* Corollary used for the Euclidean family (euclidean, average_euclidean, log_euclidean,
   log_squared_euclidean are increasing transforms of squared_euclidean on the non-negative
   numbers, all fixing 0): two metrics with [w2 = f o w1], same [zero], sentinel [top2 = f top1]. *)
Theorem monotone_transform_same_classifier :
  forall (W : Type) (P : W -> Prop) (f : W -> W) (ltb : W -> W -> bool),
    (forall a b, P a -> P b -> ltb (f a) (f b) = ltb a b) ->
    forall (zero top1 top2 : W),
      f zero = zero -> top2 = f top1 -> P zero -> P top1 ->
    forall (labels : list nat) (w1 w2 : nat -> nat -> W),
      (forall p q, P (w1 p q)) -> (forall p q, w2 p q = f (w1 p q)) ->
      let a := sup_fit ltb zero top1 labels w1 in
      let b := sup_fit ltb zero top2 labels w2 in
      n_status b = n_status a /\ n_pred b = n_pred a /\ n_plabel b = n_plabel a /\
      n_label b = n_label a /\ n_order b = n_order a /\ n_relevant b = n_relevant a /\
      n_cost b = map f (n_cost a).
Proof. exact (@Rescale.monotone_transform_fields). Qed.

Theorem monotone_transform_same_predictions :
  forall (W : Type) (P : W -> Prop) (f : W -> W) (ltb : W -> W -> bool),
    (forall a b, P a -> P b -> ltb (f a) (f b) = ltb a b) ->
    forall (zero top1 top2 : W),
      f zero = zero -> top2 = f top1 -> P zero -> P top1 ->
    forall (labels : list nat) (w1 w2 : nat -> nat -> W) (ds1 ds2 : list (nat -> W)),
      (forall p q, P (w1 p q)) -> (forall p q, w2 p q = f (w1 p q)) ->
      Forall2 (fun d1 d2 => forall k, P (d1 k) /\ d2 k = f (d1 k)) ds1 ds2 ->
      snd (predict_batch ltb zero (sup_fit ltb zero top2 labels w2) ds2)
      = snd (predict_batch ltb zero (sup_fit ltb zero top1 labels w1) ds1) /\
      n_relevant (fst (predict_batch ltb zero (sup_fit ltb zero top2 labels w2) ds2))
      = n_relevant (fst (predict_batch ltb zero (sup_fit ltb zero top1 labels w1) ds1)).
Proof. exact (@Rescale.monotone_transform_predict). Qed.

(* KNN layer (order-only part): neighbour scan and create_arcs; [thr] and [one] are compared
   with / stored among the weights, so they are transformed too *)
Theorem rescale_knn_scan :
  forall (f : Z -> Z), (forall a b, (a < b)%Z -> (f a < f b)%Z) ->
  forall (top : Z) (k n : nat) (d : nat -> Z) (skip : option nat) (ns : list nat),
    knn_scan Z.ltb (f top) k n (fun j => f (d j)) skip ns
    = (map f (fst (knn_scan Z.ltb top k n d skip ns)), snd (knn_scan Z.ltb top k n d skip ns)).
Proof. exact RescaleKnn.rescale_knn_scan. Qed.

Theorem rescale_create_arcs :
  forall (f : Z -> Z), (forall a b, (a < b)%Z -> (f a < f b)%Z) ->
  forall (zero top thr one : Z) (k n : nat) (w : nat -> nat -> Z) (g : @knn Z),
    let r := create_arcs Z.ltb zero top thr one k n w g in
    create_arcs Z.ltb (f zero) (f top) (f thr) (f one) k n (fun p q => f (w p q))
      (mkKnn (k_label g) (k_adj g) (map f (k_radius g)) (k_nplat g) (map f (k_dens g)) (map f (k_cost g))
             (k_pred g) (k_root g) (k_plabel g) (k_clabel g) (k_order g) (f (k_gdens g)) (k_nclusters g))
    = (mkKnn (k_label (fst r)) (k_adj (fst r)) (map f (k_radius (fst r))) (k_nplat (fst r))
             (map f (k_dens (fst r))) (map f (k_cost (fst r))) (k_pred (fst r)) (k_root (fst r))
             (k_plabel (fst r)) (k_clabel (fst r)) (k_order (fst r)) (f (k_gdens (fst r)))
             (k_nclusters (fst r)),
       map f (snd r)).
Proof. exact RescaleKnn.rescale_create_arcs. Qed.

(* The library compares with ONE constant FLOAT_MAX whatever the metric: second run with its own
   sentinel [top2] (e.g. [top2 = top1]) instead of [f top1].  Enough: the sentinel compares with
   the transformed weights as it did with the originals.  Each cost is mapped by [f], or is the
   sentinel in both runs. *)
Theorem monotone_transform_same_sentinel :
  forall (W1 W2 : Type) (P : W1 -> Prop) (f : W1 -> W2)
         (ltb1 : W1 -> W1 -> bool) (ltb2 : W2 -> W2 -> bool)
         (zero1 top1 : W1) (zero2 top2 : W2),
    (forall a b, P a -> P b -> ltb2 (f a) (f b) = ltb1 a b) ->
    (forall a, P a -> ltb2 (f a) top2 = ltb1 a top1) ->
    (forall a, P a -> ltb2 top2 (f a) = ltb1 top1 a) ->
    ltb2 top2 top2 = ltb1 top1 top1 ->
    zero2 = f zero1 -> P zero1 ->
    forall (labels : list nat) (w1 : nat -> nat -> W1) (w2 : nat -> nat -> W2),
      (forall p q, P (w1 p q)) -> (forall p q, w2 p q = f (w1 p q)) ->
      let a := sup_fit ltb1 zero1 top1 labels w1 in
      let b := sup_fit ltb2 zero2 top2 labels w2 in
      Forall2 (fun x y => (P x /\ y = f x) \/ (x = top1 /\ y = top2)) (n_cost a) (n_cost b) /\
      n_pred a = n_pred b /\ n_label a = n_label b /\ n_plabel a = n_plabel b /\
      n_status a = n_status b /\ n_relevant a = n_relevant b /\ n_order a = n_order b.
Proof. exact (@Rescale.monotone_transform_sentinel). Qed.

Theorem monotone_transform_same_sentinel_predictions :
  forall (W1 W2 : Type) (P : W1 -> Prop) (f : W1 -> W2)
         (ltb1 : W1 -> W1 -> bool) (ltb2 : W2 -> W2 -> bool)
         (zero1 top1 : W1) (zero2 top2 : W2),
    (forall a b, P a -> P b -> ltb2 (f a) (f b) = ltb1 a b) ->
    (forall a, P a -> ltb2 (f a) top2 = ltb1 a top1) ->
    (forall a, P a -> ltb2 top2 (f a) = ltb1 top1 a) ->
    ltb2 top2 top2 = ltb1 top1 top1 ->
    zero2 = f zero1 -> P zero1 ->
    forall (labels : list nat) (w1 : nat -> nat -> W1) (w2 : nat -> nat -> W2)
           (ds1 : list (nat -> W1)) (ds2 : list (nat -> W2)),
      (forall p q, P (w1 p q)) -> (forall p q, w2 p q = f (w1 p q)) ->
      Forall2 (fun d1 d2 => forall k, P (d1 k) /\ d2 k = f (d1 k)) ds1 ds2 ->
      snd (predict_batch ltb1 zero1 (sup_fit ltb1 zero1 top1 labels w1) ds1)
      = snd (predict_batch ltb2 zero2 (sup_fit ltb2 zero2 top2 labels w2) ds2) /\
      n_relevant (fst (predict_batch ltb1 zero1 (sup_fit ltb1 zero1 top1 labels w1) ds1))
      = n_relevant (fst (predict_batch ltb2 zero2 (sup_fit ltb2 zero2 top2 labels w2) ds2)).
Proof. exact (@Rescale.monotone_transform_sentinel_predict). Qed.
