(* C10 (logic part): pre-computed distances are equivalent to computing the metric on the fly.
   The two branches of every [if self.pre_computed_distance:] are the same algorithm run on two
   weight functions ([w_pre D idx] / [w_dir dist feat], and [d_pre_* ] / [d_dir_*] for queries);
   they read the same numbers as soon as [feat a = data (idx a)], and every algorithm depends on
   its weight function only through its values. *)
From Coq Require Import List.
From OPF Require Import Base.Lists Model.Heap Model.Sup Model.Knn Proofs.WeightsExt Proofs.WeightsExtBounded.

(* 1. what the index arrays must satisfy; no symmetry of [dist] is used *)

Theorem weights_agree :
  forall (F W : Type) (dist : F -> F -> W) (data : nat -> F) (idx : nat -> nat) (feat : nat -> F),
    (forall a, feat a = data (idx a)) ->
    forall p q, (pre_compute dist data) (idx p) (idx q) = dist (feat p) (feat q).
Proof. exact (@WeightsExt.weights_agree). Qed.

(* SupervisedOPF.predict: pre_distances[train.idx][query.idx] vs distance_fn(train, query) *)
Theorem weights_agree_train_query :
  forall (F W : Type) (dist : F -> F -> W) (data : nat -> F) (idx : nat -> nat) (feat : nat -> F),
    (forall a, feat a = data (idx a)) ->
    forall (idxq : nat -> nat) (featq : nat -> F),
    (forall x, featq x = data (idxq x)) ->
    forall x t, (pre_compute dist data) (idx t) (idxq x) = dist (feat t) (featq x).
Proof. exact (@WeightsExt.weights_agree_tq). Qed.

(* KNNSupervisedOPF.predict, UnsupervisedOPF.predict: pre_distances[query.idx][train.idx] vs distance_fn(query, train) *)
Theorem weights_agree_query_train :
  forall (F W : Type) (dist : F -> F -> W) (data : nat -> F) (idx : nat -> nat) (feat : nat -> F),
    (forall a, feat a = data (idx a)) ->
    forall (idxq : nat -> nat) (featq : nat -> F),
    (forall x, featq x = data (idxq x)) ->
    forall x t, (pre_compute dist data) (idxq x) (idx t) = dist (featq x) (feat t).
Proof. exact (@WeightsExt.weights_agree_qt). Qed.

(* 2. extensionality in the weight function (no axiom) *)

Theorem find_prototypes_ext :
  forall (W : Type) (ltb : W -> W -> bool) (top : W) (n : nat) (w w' : nat -> nat -> W) (nd : @nodes W),
    (forall p q, w p q = w' p q) ->
    find_prototypes ltb top n w nd = find_prototypes ltb top n w' nd.
Proof. exact (@WeightsExt.find_prototypes_ext). Qed.

Theorem compete_ext :
  forall (W : Type) (ltb : W -> W -> bool) (zero top : W) (semi : bool) (nl n : nat)
         (w w' : nat -> nat -> W) (nd : @nodes W),
    (forall p q, w p q = w' p q) ->
    compete ltb zero top semi nl n w nd = compete ltb zero top semi nl n w' nd.
Proof. exact (@WeightsExt.compete_ext). Qed.

Theorem sup_fit_ext :
  forall (W : Type) (ltb : W -> W -> bool) (zero top : W) (labels : list nat) (w w' : nat -> nat -> W),
    (forall p q, w p q = w' p q) ->
    sup_fit ltb zero top labels w = sup_fit ltb zero top labels w'.
Proof. exact (@WeightsExt.sup_fit_ext). Qed.

Theorem semi_fit_ext :
  forall (W : Type) (ltb : W -> W -> bool) (zero top : W) (labels : list nat) (nu : nat)
         (w w' : nat -> nat -> W),
    (forall p q, w p q = w' p q) ->
    semi_fit ltb zero top labels nu w = semi_fit ltb zero top labels nu w'.
Proof. exact (@WeightsExt.semi_fit_ext). Qed.

Theorem predict_one_ext :
  forall (W : Type) (ltb : W -> W -> bool) (zero : W) (nd : @nodes W) (d d' : nat -> W),
    (forall k, d k = d' k) -> predict_one ltb zero nd d = predict_one ltb zero nd d'.
Proof. exact (@WeightsExt.predict_one_ext). Qed.

Theorem predict_batch_ext :
  forall (W : Type) (ltb : W -> W -> bool) (zero : W) (nd : @nodes W) (ds ds' : list (nat -> W)),
    Forall2 (fun d d' => forall k, d k = d' k) ds ds' ->
    predict_batch ltb zero nd ds = predict_batch ltb zero nd ds'.
Proof. exact (@WeightsExt.predict_batch_ext). Qed.

Theorem knn_scan_ext :
  forall (W : Type) (ltb : W -> W -> bool) (top : W) (k n : nat) (d d' : nat -> W)
         (skip : option nat) (ns : list nat),
    (forall j, d j = d' j) -> knn_scan ltb top k n d skip ns = knn_scan ltb top k n d' skip ns.
Proof. exact (@WeightsExt.knn_scan_ext). Qed.

Theorem create_arcs_ext :
  forall (W : Type) (ltb : W -> W -> bool) (zero top thr one : W) (k n : nat)
         (w w' : nat -> nat -> W) (g : @knn W),
    (forall p q, w p q = w' p q) ->
    create_arcs ltb zero top thr one k n w g = create_arcs ltb zero top thr one k n w' g.
Proof. exact (@WeightsExt.create_arcs_ext). Qed.

(* 3. the pre-computed branch and the direct branch give the same model and the same predictions *)

Theorem C10_supervised :
  forall (F W : Type) (ltb : W -> W -> bool) (zero top : W) (dist : F -> F -> W) (data : nat -> F)
         (idx : nat -> nat) (feat : nat -> F),
    (forall a, feat a = data (idx a)) ->
    forall (idxq : nat -> nat) (featq : nat -> F),
    (forall x, featq x = data (idxq x)) ->
    forall (labels : list nat) (m : nat),
      sup_fit ltb zero top labels (fun p q => (pre_compute dist data) (idx p) (idx q))
      = sup_fit ltb zero top labels (fun p q => dist (feat p) (feat q)) /\
      predict_batch ltb zero
        (sup_fit ltb zero top labels (fun p q => (pre_compute dist data) (idx p) (idx q)))
        (map (fun x t => (pre_compute dist data) (idx t) (idxq x)) (seq 0 m))
      = predict_batch ltb zero
          (sup_fit ltb zero top labels (fun p q => dist (feat p) (feat q)))
          (map (fun x t => dist (feat t) (featq x)) (seq 0 m)).
Proof. exact (@WeightsExt.C10_supervised_full). Qed.

(* [feat]/[idx] number the labeled nodes first, then the unlabeled ones; the hypothesis on the
   unlabeled range is the data-layout condition of finding F8 *)
Theorem C10_semi :
  forall (F W : Type) (ltb : W -> W -> bool) (zero top : W) (dist : F -> F -> W) (data : nat -> F)
         (idx : nat -> nat) (feat : nat -> F),
    (forall a, feat a = data (idx a)) ->
    forall (idxq : nat -> nat) (featq : nat -> F),
    (forall x, featq x = data (idxq x)) ->
    forall (labels : list nat) (nu m : nat),
      semi_fit ltb zero top labels nu (fun p q => (pre_compute dist data) (idx p) (idx q))
      = semi_fit ltb zero top labels nu (fun p q => dist (feat p) (feat q)) /\
      predict_batch ltb zero
        (semi_fit ltb zero top labels nu (fun p q => (pre_compute dist data) (idx p) (idx q)))
        (map (fun x t => (pre_compute dist data) (idx t) (idxq x)) (seq 0 m))
      = predict_batch ltb zero
          (semi_fit ltb zero top labels nu (fun p q => dist (feat p) (feat q)))
          (map (fun x t => dist (feat t) (featq x)) (seq 0 m)).
Proof. exact (@WeightsExt.C10_semi_full). Qed.

Theorem C10_knn_arcs :
  forall (F W : Type) (ltb : W -> W -> bool) (zero top : W) (dist : F -> F -> W) (data : nat -> F)
         (idx : nat -> nat) (feat : nat -> F),
    (forall a, feat a = data (idx a)) ->
    forall (thr one : W) (k n : nat) (g : @knn W),
      create_arcs ltb zero top thr one k n (fun p q => (pre_compute dist data) (idx p) (idx q)) g
      = create_arcs ltb zero top thr one k n (fun p q => dist (feat p) (feat q)) g.
Proof. exact (@WeightsExt.C10_knn_arcs). Qed.

(* the neighbour scan of both KNN predicts, query [x] *)
Theorem C10_knn_scan :
  forall (F W : Type) (ltb : W -> W -> bool) (top : W) (dist : F -> F -> W) (data : nat -> F)
         (idx : nat -> nat) (feat : nat -> F),
    (forall a, feat a = data (idx a)) ->
    forall (idxq : nat -> nat) (featq : nat -> F),
    (forall x, featq x = data (idxq x)) ->
    forall (k n x : nat) (skip : option nat) (ns : list nat),
      knn_scan ltb top k n (fun t => (pre_compute dist data) (idxq x) (idx t)) skip ns
      = knn_scan ltb top k n (fun t => dist (featq x) (feat t)) skip ns.
Proof. exact (@WeightsExt.C10_knn_scan). Qed.

(* 4. Sharper form: only the node numbers below the subgraph size are ever read, so the
   hypotheses concern the index ARRAYS ([a < n] training nodes, [x < m] queries) only.
   (By hand: needs the invariant that the heap array holds node numbers.) *)

Theorem find_prototypes_ext_bounded :
  forall (W : Type) (ltb : W -> W -> bool) (top : W) (n : nat) (w w' : nat -> nat -> W),
    (forall p q, p < n -> q < n -> w p q = w' p q) ->
    forall nd : @nodes W, find_prototypes ltb top n w nd = find_prototypes ltb top n w' nd.
Proof. exact (@WeightsExtBounded.find_prototypes_ext_bounded). Qed.

Theorem compete_ext_bounded :
  forall (W : Type) (ltb : W -> W -> bool) (zero top : W) (semi : bool) (nl n : nat)
         (w w' : nat -> nat -> W) (nd : @nodes W),
    (forall p q, p < n -> q < n -> w p q = w' p q) ->
    compete ltb zero top semi nl n w nd = compete ltb zero top semi nl n w' nd.
Proof. exact (@WeightsExtBounded.compete_ext_bounded). Qed.

Theorem sup_fit_ext_bounded :
  forall (W : Type) (ltb : W -> W -> bool) (zero top : W) (labels : list nat) (w w' : nat -> nat -> W),
    (forall p q, p < length labels -> q < length labels -> w p q = w' p q) ->
    sup_fit ltb zero top labels w = sup_fit ltb zero top labels w' /\
    Forall (fun k => k < length labels) (n_order (sup_fit ltb zero top labels w)).
Proof. exact (@WeightsExtBounded.sup_fit_ext_bounded). Qed.

Theorem semi_fit_ext_bounded :
  forall (W : Type) (ltb : W -> W -> bool) (zero top : W) (labels : list nat) (nu : nat)
         (w w' : nat -> nat -> W),
    (forall p q, p < length labels + nu -> q < length labels + nu -> w p q = w' p q) ->
    semi_fit ltb zero top labels nu w = semi_fit ltb zero top labels nu w' /\
    Forall (fun k => k < length labels + nu) (n_order (semi_fit ltb zero top labels nu w)).
Proof. exact (@WeightsExtBounded.semi_fit_ext_bounded). Qed.

Theorem predict_batch_ext_bounded :
  forall (W : Type) (ltb : W -> W -> bool) (zero : W) (n : nat) (nd : @nodes W)
         (ds ds' : list (nat -> W)),
    0 < n -> Forall (fun k => k < n) (n_order nd) ->
    Forall2 (fun d d' => forall k, k < n -> d k = d' k) ds ds' ->
    predict_batch ltb zero nd ds = predict_batch ltb zero nd ds'.
Proof. exact (@WeightsExtBounded.predict_batch_ext_bounded). Qed.

Theorem knn_scan_ext_bounded :
  forall (W : Type) (ltb : W -> W -> bool) (top : W) (k n : nat) (d d' : nat -> W)
         (skip : option nat) (ns : list nat),
    (forall j, j < n -> d j = d' j) ->
    knn_scan ltb top k n d skip ns = knn_scan ltb top k n d' skip ns.
Proof. exact (@WeightsExtBounded.knn_scan_ext_bounded). Qed.

Theorem create_arcs_ext_bounded :
  forall (W : Type) (ltb : W -> W -> bool) (zero top thr one : W) (k n : nat)
         (w w' : nat -> nat -> W) (g : @knn W),
    (forall p q, p < n -> q < n -> w p q = w' p q) ->
    create_arcs ltb zero top thr one k n w g = create_arcs ltb zero top thr one k n w' g.
Proof. exact (@WeightsExtBounded.create_arcs_ext_bounded). Qed.

Theorem C10_supervised_bounded :
  forall (F W : Type) (ltb : W -> W -> bool) (zero top : W) (dist : F -> F -> W) (data : nat -> F)
         (n m : nat) (idx idxq : nat -> nat) (feat featq : nat -> F),
    (forall a, a < n -> feat a = data (idx a)) ->
    (forall x, x < m -> featq x = data (idxq x)) ->
    forall labels : list nat,
      length labels = n -> 0 < n ->
      sup_fit ltb zero top labels (fun p q => (pre_compute dist data) (idx p) (idx q))
      = sup_fit ltb zero top labels (fun p q => dist (feat p) (feat q)) /\
      predict_batch ltb zero
        (sup_fit ltb zero top labels (fun p q => (pre_compute dist data) (idx p) (idx q)))
        (map (fun x t => (pre_compute dist data) (idx t) (idxq x)) (seq 0 m))
      = predict_batch ltb zero
          (sup_fit ltb zero top labels (fun p q => dist (feat p) (feat q)))
          (map (fun x t => dist (feat t) (featq x)) (seq 0 m)).
Proof. exact (@WeightsExtBounded.C10_supervised_bounded). Qed.

Theorem C10_semi_bounded :
  forall (F W : Type) (ltb : W -> W -> bool) (zero top : W) (dist : F -> F -> W) (data : nat -> F)
         (n m : nat) (idx idxq : nat -> nat) (feat featq : nat -> F),
    (forall a, a < n -> feat a = data (idx a)) ->
    (forall x, x < m -> featq x = data (idxq x)) ->
    forall (labels : list nat) (nu : nat),
      length labels + nu = n -> 0 < n ->
      semi_fit ltb zero top labels nu (fun p q => (pre_compute dist data) (idx p) (idx q))
      = semi_fit ltb zero top labels nu (fun p q => dist (feat p) (feat q)) /\
      predict_batch ltb zero
        (semi_fit ltb zero top labels nu (fun p q => (pre_compute dist data) (idx p) (idx q)))
        (map (fun x t => (pre_compute dist data) (idx t) (idxq x)) (seq 0 m))
      = predict_batch ltb zero
          (semi_fit ltb zero top labels nu (fun p q => dist (feat p) (feat q)))
          (map (fun x t => dist (feat t) (featq x)) (seq 0 m)).
Proof. exact (@WeightsExtBounded.C10_semi_bounded). Qed.

Theorem C10_knn_arcs_bounded :
  forall (F W : Type) (ltb : W -> W -> bool) (zero top : W) (dist : F -> F -> W) (data : nat -> F)
         (n : nat) (idx : nat -> nat) (feat : nat -> F),
    (forall a, a < n -> feat a = data (idx a)) ->
    forall (thr one : W) (k : nat) (g : @knn W),
      create_arcs ltb zero top thr one k n (fun p q => (pre_compute dist data) (idx p) (idx q)) g
      = create_arcs ltb zero top thr one k n (fun p q => dist (feat p) (feat q)) g.
Proof. exact (@WeightsExtBounded.C10_knn_arcs_bounded). Qed.

Theorem C10_knn_scan_bounded :
  forall (F W : Type) (ltb : W -> W -> bool) (top : W) (dist : F -> F -> W) (data : nat -> F)
         (n m : nat) (idx idxq : nat -> nat) (feat featq : nat -> F),
    (forall a, a < n -> feat a = data (idx a)) ->
    (forall x, x < m -> featq x = data (idxq x)) ->
    forall (k x : nat) (skip : option nat) (ns : list nat),
      x < m ->
      knn_scan ltb top k n (fun t => (pre_compute dist data) (idxq x) (idx t)) skip ns
      = knn_scan ltb top k n (fun t => dist (featq x) (feat t)) skip ns.
Proof. exact (@WeightsExtBounded.C10_knn_scan_bounded). Qed.
