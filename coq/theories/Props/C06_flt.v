(* C06, binary64 evaluator (Model/MetricFlt.v): definitional facts computed on the regenerated tables.

   [metric_flt m x y : option float] evaluates the regenerated term of a `def *_distance` on Coq's primitive floats, node by
   node as [metric_rnd] (Model/MetricRnd.v) does over the reals; harness/c06_flt.py compares it BIT FOR BIT with the real
   registered functions for every identifier of [fragment_keys].  The refinement to [metric_rnd rnd64] is
   Props/C06_flt_refine.v. *)
From Coq Require Import String List Floats.
From OPF Require Import Model.MetricIR Gen.Metrics_gen Gen.ConstsFlt_gen Model.MetricEval Model.MetricFlt Model.RunMetricFlt
     Proofs.MetricFltBase.
Import ListNotations.
Open Scope string_scope.

(* the registered identifiers without log / exp anywhere in their call tree (36 of 47) *)
Theorem C06_flt_fragment :
  fragment_keys =
    ["additive_symmetric"; "average_euclidean"; "bray_curtis"; "canberra"; "chebyshev"; "chi_squared"; "chord"; "clark";
     "cosine"; "dice"; "divergence"; "euclidean"; "gower"; "hamming"; "hassanat"; "hellinger"; "jaccard"; "kulczynski";
     "manhattan"; "matusita"; "max_symmetric"; "mean_censored_euclidean"; "min_symmetric"; "neyman"; "non_intersection";
     "pearson"; "sangvi"; "soergel"; "squared"; "squared_chord"; "squared_euclidean"; "statistic"; "vicis_symmetric1";
     "vicis_symmetric2"; "vicis_symmetric3"; "vicis_wave_hedges"].
Proof. exact flt_fragment. Qed.

(* the function names outside the fragment: log or exp in the body or in a callee; [metric_flt] is None on them *)
Theorem C06_flt_outside :
  outside_fragment_names =
    ["bhattacharyya_distance"; "gaussian_distance"; "jeffreys_distance"; "jensen_distance"; "jensen_shannon_distance";
     "k_divergence_distance"; "kullback_leibler_distance"; "log_euclidean_distance"; "log_squared_euclidean_distance";
     "lorentzian_distance"; "topsoe_distance"].
Proof. exact flt_outside. Qed.

(* on one concrete pair of vectors every term inside the fragment evaluates and every term outside does not *)
Theorem C06_flt_defined_iff_fragment :
  forallb (fun km => match metric_flt (snd km) [1%float; 2%float] [3%float; 0.5%float] with
                     | None => negb (in_fragment (snd km)) | Some _ => in_fragment (snd km) end) all_metrics_ir = true.
Proof. exact flt_outside_none. Qed.

(* concrete evaluations (non-vacuity of the evaluator): exact results, the decorator's shift, a scalar division by zero
   behind the shift (numba raises: None), overflow (unchecked: infinity; checked: None) *)
Theorem C06_flt_examples :
  metric_flt ir_euclidean [0%float; 3%float] [4%float; 0%float] = Some 5%float /\
  metric_flt ir_chi_squared [1%float; 2%float] [3%float; 0.5%float] = Some 0x1.e666666666666p-1%float /\
  metric_flt ir_chi_squared [0%float] [0%float] = Some 0%float /\
  metric_flt ir_bray_curtis [(- cf_EPSILON)%float] [(- cf_EPSILON)%float] = None /\
  metric_flt ir_squared_euclidean [0x1p+600%float] [0%float] = Some infinity /\
  metric_fltc ir_squared_euclidean [0x1p+600%float] [0%float] = None /\
  metric_fltc ir_chi_squared [1%float; 2%float] [3%float; 0.5%float] = Some 0x1.e666666666666p-1%float.
Proof. exact flt_examples. Qed.
