(* C02: "The prototypes selected by supervised (and semi-supervised) training are precisely
   the endpoints of those arcs of some minimum spanning tree of the complete labelled
   training graph that join samples of different classes; when all pairwise distances are
   distinct the tree, and hence the prototype set, is unique.  Every class present
   contributes at least one prototype, and every prototype keeps cost 0 and its own label
   after training."  (The last clause, after training, belongs to C01.)

   Model: [find_prototypes] of Model/Sup.v (= SupervisedOPF._find_prototypes), executed at
   W := Z, on the fresh subgraph [nodes_init zero labels].  "Minimum spanning tree" is
   stated in its order-only (bottleneck / minimax) form, which is meaningful on the
   IEEE-order encoding of floats; vocabulary in Spec/Paths.v and Spec/Trees.v. *)
From OPF Require Import Proofs.HeapPrelude Base.Lists Model.Heap Model.Sup Spec.Paths Spec.Trees
  Proofs.PrimGraph Proofs.PrimWeight Proofs.PrimMain.

(* The predecessor map left by the pass is a spanning tree rooted at node 0: every other
   node has a parent that was removed from the heap before it ([ord] is the removal
   order), hence following [pred] from any node reaches 0. *)
Theorem C02_prim_spanning_tree :
  forall (zero top : Z) (n : nat) (w : nat -> nat -> Z) (labels : list nat),
    1 <= n -> length labels = n ->
    (forall p q, p < n -> q < n -> p <> q -> (w p q < top)%Z) ->
    let nd := find_prototypes Z.ltb top n w (nodes_init zero labels) in
    let pred := fun q => nth q (n_pred nd) None in
    pred 0 = None /\
    (exists ord, Permutation ord (seq 0 n) /\
       forall q, 0 < q < n -> exists p, pred q = Some p /\ p < n /\ before ord p q) /\
    (forall q, q < n -> root_of pred q 0).
Proof. exact init_prim_spanning_tree. Qed.

(* Any two nodes are joined by a (simple) path of tree arcs. *)
Theorem C02_prim_tree_connected :
  forall (zero top : Z) (n : nat) (w : nat -> nat -> Z) (labels : list nat),
    1 <= n -> length labels = n ->
    (forall p q, p < n -> q < n -> p <> q -> (w p q < top)%Z) ->
    let nd := find_prototypes Z.ltb top n w (nodes_init zero labels) in
    let pred := fun q => nth q (n_pred nd) None in
    forall u v, u < n -> v < n -> exists tp, tree_path_rel n pred u v tp.
Proof. exact init_prim_tree_connected. Qed.

(* Minimum spanning tree, order-only form: every tree path is a minimax path of the
   complete graph ([m] is the value of a path without arcs, any number). *)
Theorem C02_prim_minimax_tree :
  forall (zero top : Z) (n : nat) (w : nat -> nat -> Z) (labels : list nat),
    1 <= n -> length labels = n ->
    (forall p q, p < n -> q < n -> p <> q -> (w p q < top)%Z) ->
    (forall p q, p < n -> q < n -> w p q = w q p) ->
    let nd := find_prototypes Z.ltb top n w (nodes_init zero labels) in
    let pred := fun q => nth q (n_pred nd) None in
    forall (m : Z) u v tp pi,
      tree_path_rel n pred u v tp -> path_from_to n u v pi ->
      (pathmax w m tp <= pathmax w m pi)%Z.
Proof. exact init_prim_minimax_tree. Qed.

(* Cycle property: no arc on the tree path between u and v is heavier than the arc (u, v). *)
Theorem C02_prim_cycle_optimal :
  forall (zero top : Z) (n : nat) (w : nat -> nat -> Z) (labels : list nat),
    1 <= n -> length labels = n ->
    (forall p q, p < n -> q < n -> p <> q -> (w p q < top)%Z) ->
    (forall p q, p < n -> q < n -> w p q = w q p) ->
    let nd := find_prototypes Z.ltb top n w (nodes_init zero labels) in
    let pred := fun q => nth q (n_pred nd) None in
    forall u v tp, u < n -> v < n -> tree_path_rel n pred u v tp ->
    forall a b, arc_on tp a b -> (w a b <= w u v)%Z.
Proof. exact init_prim_cycle_optimal. Qed.

(* The prototypes are exactly the endpoints of the class-crossing tree arcs. *)
Theorem C02_prototypes_exact :
  forall (zero top : Z) (n : nat) (w : nat -> nat -> Z) (labels : list nat),
    1 <= n -> length labels = n ->
    (forall p q, p < n -> q < n -> p <> q -> (w p q < top)%Z) ->
    let nd := find_prototypes Z.ltb top n w (nodes_init zero labels) in
    let pred := fun q => nth q (n_pred nd) None in
    forall q, q < n ->
      (nth q (n_status nd) false = true <->
       exists r, (pred q = Some r \/ pred r = Some q) /\ r < n /\
                 nth q labels 0 <> nth r labels 0).
Proof. exact init_prototypes_exact. Qed.

(* Every class present contributes a prototype (as soon as two classes are present). *)
Theorem C02_every_class_has_prototype :
  forall (zero top : Z) (n : nat) (w : nat -> nat -> Z) (labels : list nat),
    1 <= n -> length labels = n ->
    (forall p q, p < n -> q < n -> p <> q -> (w p q < top)%Z) ->
    let nd := find_prototypes Z.ltb top n w (nodes_init zero labels) in
    (exists a b, a < n /\ b < n /\ nth a labels 0 <> nth b labels 0) ->
    forall q, q < n ->
      exists s, s < n /\ nth s (n_status nd) false = true /\ nth s labels 0 = nth q labels 0.
Proof. exact init_every_class_has_prototype. Qed.

Theorem C02_prototypes_nonempty :
  forall (zero top : Z) (n : nat) (w : nat -> nat -> Z) (labels : list nat),
    1 <= n -> length labels = n ->
    (forall p q, p < n -> q < n -> p <> q -> (w p q < top)%Z) ->
    let nd := find_prototypes Z.ltb top n w (nodes_init zero labels) in
    (exists a b, a < n /\ b < n /\ nth a labels 0 <> nth b labels 0) ->
    exists s, s < n /\ nth s (n_status nd) false = true.
Proof. exact init_prototypes_nonempty. Qed.

(* The predecessor map is a rooted spanning tree in the sense of Spec/Trees.v, so that the
   two theorems about arbitrary spanning trees below apply to it. *)
Theorem C02_prim_spanning_parent_map :
  forall (zero top : Z) (n : nat) (w : nat -> nat -> Z) (labels : list nat),
    1 <= n -> length labels = n ->
    (forall p q, p < n -> q < n -> p <> q -> (w p q < top)%Z) ->
    let nd := find_prototypes Z.ltb top n w (nodes_init zero labels) in
    spanning_parent_map n (fun q => nth q (n_pred nd) None).
Proof. exact init_prim_spanning_parent_map. Qed.

(* Uniqueness over abstract spanning trees (parent maps rooted anywhere): with pairwise
   distinct weights, two spanning trees whose tree paths are minimax paths have the same
   arcs. *)
Theorem C02_cycle_optimal_unique :
  forall (n : nat) (w : nat -> nat -> Z) (pred1 pred2 : nat -> option nat),
    distinct_weights n w ->
    spanning_parent_map n pred1 -> minimax_paths n w (tree_arc pred1) ->
    spanning_parent_map n pred2 -> minimax_paths n w (tree_arc pred2) ->
    forall u v, u < n -> v < n -> u <> v -> (tree_arc pred1 u v <-> tree_arc pred2 u v).
Proof. exact cycle_optimal_unique. Qed.

(* Minimum total weight (integer weights): a spanning tree whose tree paths are minimax
   paths weighs no more than any spanning tree; in particular the tree of the pass. *)
Theorem C02_cycle_optimal_is_minimum :
  forall (n : nat) (w : nat -> nat -> Z) (predT predS : nat -> option nat),
    (forall p q, p < n -> q < n -> w p q = w q p) ->
    spanning_parent_map n predT -> minimax_paths n w (tree_arc predT) ->
    spanning_parent_map n predS ->
    (tree_weight n w predT <= tree_weight n w predS)%Z.
Proof. exact cycle_optimal_is_minimum. Qed.

Theorem C02_prim_minimum_weight :
  forall (zero top : Z) (n : nat) (w : nat -> nat -> Z) (labels : list nat),
    1 <= n -> length labels = n ->
    (forall p q, p < n -> q < n -> p <> q -> (w p q < top)%Z) ->
    (forall p q, p < n -> q < n -> w p q = w q p) ->
    let nd := find_prototypes Z.ltb top n w (nodes_init zero labels) in
    forall predS, spanning_parent_map n predS ->
      (tree_weight n w (fun q => nth q (n_pred nd) None) <= tree_weight n w predS)%Z.
Proof. exact init_prim_minimum_weight. Qed.

(* Uniqueness, most general form: with pairwise distinct weights, two connected arc
   relations on 0..n-1 all of whose simple paths are minimax paths have the same arcs. *)
Theorem C02_minimax_arcs_unique :
  forall (n : nat) (w : nat -> nat -> Z),
    distinct_weights n w ->
    forall R1 R2 : nat -> nat -> Prop,
    connected_by n R1 -> minimax_paths n w R1 ->
    connected_by n R2 -> minimax_paths n w R2 ->
    forall u v, u < n -> v < n -> u <> v -> (R1 u v <-> R2 u v).
Proof. exact minimax_arcs_unique. Qed.

(* Uniqueness, as used downstream: with pairwise distinct weights the tree arcs, and hence
   the prototypes, are characterised by the weights and labels alone (no reference to the
   algorithm, the start node or the sample order). *)
Theorem C02_prim_tree_characterised :
  forall (zero top : Z) (n : nat) (w : nat -> nat -> Z) (labels : list nat),
    1 <= n -> length labels = n ->
    (forall p q, p < n -> q < n -> p <> q -> (w p q < top)%Z) ->
    (forall p q, p < n -> q < n -> w p q = w q p) ->
    distinct_weights n w ->
    let nd := find_prototypes Z.ltb top n w (nodes_init zero labels) in
    let pred := fun q => nth q (n_pred nd) None in
    forall u v, u < n -> v < n -> u <> v ->
      (tree_arc pred u v <-> sole_minimax_arc n w u v).
Proof. exact init_prim_tree_characterised. Qed.

Theorem C02_prototypes_characterised :
  forall (zero top : Z) (n : nat) (w : nat -> nat -> Z) (labels : list nat),
    1 <= n -> length labels = n ->
    (forall p q, p < n -> q < n -> p <> q -> (w p q < top)%Z) ->
    (forall p q, p < n -> q < n -> w p q = w q p) ->
    distinct_weights n w ->
    let nd := find_prototypes Z.ltb top n w (nodes_init zero labels) in
    forall q, q < n ->
      (nth q (n_status nd) false = true <->
       exists r, r < n /\ nth q labels 0 <> nth r labels 0 /\ sole_minimax_arc n w q r).
Proof. exact init_prototypes_characterised. Qed.

(* Frame facts needed by the competition proof (C01). *)
Theorem C02_find_prototypes_lengths :
  forall (zero top : Z) (n : nat) (w : nat -> nat -> Z) (labels : list nat),
    1 <= n -> length labels = n ->
    (forall p q, p < n -> q < n -> p <> q -> (w p q < top)%Z) ->
    let nd := find_prototypes Z.ltb top n w (nodes_init zero labels) in
    length (n_cost nd) = n /\ length (n_pred nd) = n /\ length (n_status nd) = n /\
    n_label nd = labels /\ n_plabel nd = repeat 0 n /\
    n_relevant nd = repeat false n /\ n_order nd = [].
Proof. exact init_find_prototypes_lengths. Qed.
