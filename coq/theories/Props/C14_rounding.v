(* C14 (arithmetic part) at the FLOAT level: the query density of both KNN predicts ([query_density] of
   Model/Pdf.v, reached through [query_densx] of Model/KnnPredict.v) instantiated at [RndOps rnd]
   (Base/NumOpsRnd.v), for every rounding function of the class [rounding] (Model/MetricRnd.v).

       s = rnd ((e_0 (+) ... (+) e_{k-1}) / k)                              (+) = rounded addition
       q = rnd (rnd (rnd (999 * rnd (s - mn)) / rnd (rnd (mx - mn) + eps)) + 1)

   Weakly monotone in the query's unmapped value s (so in every term e_l); with rnd 1 = 1: s = min |-> 1,
   s >= min |-> q >= 1.  Against the training map of Props/C12_rounding.v, the documented differences:
   the mean is over k instead of k + 1 ([C14_rnd_query_mean_vs_pdf]), and the divisor has `+ EPSILON`:
   on equal unmapped values the query gets AT MOST the training density (idempotence), EXACTLY the
   training density whenever the rounded addition absorbs EPSILON (binary64: max - min >= 2^-13). *)
From Coq Require Import Reals List ZArith.
From OPF Require Import Base.NumOps Base.NumOpsRnd Model.Pdf Model.KnnPredict Model.MetricRnd Proofs.PdfBase
  Proofs.PdfRndBase Proofs.PdfRnd Proofs.PdfRndQuery Proofs.PdfRndExample.
Import ListNotations.
Local Open Scope R_scope.

(* the query's unmapped value *)
Theorem C14_rnd_query_mean (rnd : R -> R) (k : nat) (e : nat -> R) :
  qmean rnd k e = rnd (fsum (RndOps rnd) (map e (seq 0 k)) / IZR (Z.of_nat k)).
Proof. exact eq_refl. Qed.

(* what predict evaluates: the density handed to the arg-max scan *)
Theorem C14_rnd_query_densx (rnd : R -> R) (fmax eps mn mx : R) (E : R -> R) (k : nat) (ds : list R) (ns : list nat) :
  query_densx (RndOps rnd) fmax eps 1000 E mn mx k ds ns =
  query_density (RndOps rnd) 1000 eps mn mx k (fun l => E (nth l ds fmax)).
Proof. exact eq_refl. Qed.

Theorem C14_rnd_query_density_props (rnd : R -> R) (eps mn mx : R) (k : nat) (e e' : nat -> R) :
  rounding rnd ->
  0 < eps -> mn <= mx ->
  let s := qmean rnd k e in
  let s' := qmean rnd k e' in
  let q := query_density (RndOps rnd) 1000 eps mn mx k e in
  let q' := query_density (RndOps rnd) 1000 eps mn mx k e' in
  q = rnd (rnd (rnd (999 * rnd (s - mn)) / rnd (rnd (mx - mn) + eps)) + 1) /\
  0 < rnd (rnd (mx - mn) + eps) /\
  (s <= s' -> q <= q') /\ (s = s' -> q = q') /\ (q < q' -> s < s') /\
  ((1 <= k)%nat -> (forall l, (l < k)%nat -> e l <= e' l) -> q <= q') /\
  (rnd 1 = 1 -> (s = mn -> q = 1) /\ (mn <= s -> 1 <= q) /\ (s <= mn -> q <= 1)).
Proof. exact (fun RND => query_density_rnd_props rnd RND eps mn mx k e e'). Qed.

(* "divides by k, not k + 1" *)
Theorem C14_rnd_query_mean_vs_pdf (rnd : R -> R) (k : nat) (e : nat -> R) :
  rounding rnd -> (1 <= k)%nat -> (forall l, (l < k)%nat -> 0 <= e l) ->
  pdf_value (RndOps rnd) k e <= qmean rnd k e.
Proof. exact (fun RND => pdfv_le_qmean rnd RND k e). Qed.

(* against the range recorded by calculate_pdf and the training densities *)
Theorem C14_rnd_query_density_of_fit (rnd : R -> R) (fmax : R) (n k : nat) (gdens : R) (e : nat -> nat -> R)
    (c mn mx : R) (dc : list (R * R)) (eps : R) (kq : nat) (eq : nat -> R) :
  rounding rnd ->
  (1 <= n)%nat ->
  calculate_pdf (RndOps rnd) fmax 1000 n k gdens e = (c, mn, mx, dc) ->
  0 < eps ->
  let p := fun i => pdf_value (RndOps rnd) k (e i) in
  let dens := fun i => fst (nth i dc (0, 0)) in
  let s := qmean rnd kq eq in
  let q := query_density (RndOps rnd) 1000 eps mn mx kq eq in
  0 < rnd (rnd (mx - mn) + eps) /\
  (rnd_idem rnd -> mn <> mx -> forall i, (i < n)%nat -> s = p i -> q <= dens i) /\
  (rnd (rnd (mx - mn) + eps) = rnd (mx - mn) -> mn <> mx ->
     forall i, (i < n)%nat -> s = p i -> q = dens i) /\
  (rnd (rnd (mx - mn) + eps) = rnd (mx - mn) -> mn <> mx ->
     forall i, (i < n)%nat -> (p i <= s -> dens i <= q) /\ (s <= p i -> q <= dens i)) /\
  (rnd 1 = 1 -> (mn <= s -> 1 <= q) /\ (s <= mn -> q <= 1) /\ (s = mn -> q = 1)).
Proof. exact (fun RND => query_density_rnd_of_fit rnd RND fmax n k gdens e c mn mx dc eps kq eq). Qed.

(* the two maps on one unmapped value v: same numerator, divisors rnd (mx - mn) and rnd (rnd (mx - mn) + eps) *)
Theorem C14_rnd_training_vs_query_map (rnd : R -> R) (eps mn mx v : R) :
  rounding rnd -> rnd_idem rnd -> 0 <= eps -> mn < mx ->
  rnd (mx - mn) <= rnd (rnd (mx - mn) + eps) /\
  (mn <= v -> qmap rnd eps mn mx v <= dmap rnd mn mx v) /\
  (v <= mn -> dmap rnd mn mx v <= qmap rnd eps mn mx v) /\
  (rnd (rnd (mx - mn) + eps) = rnd (mx - mn) -> qmap rnd eps mn mx v = dmap rnd mn mx v).
Proof.
  exact (fun RND HI He Hm =>
    conj (qmap_den_ge rnd RND eps mn mx HI He)
   (conj (qmap_le_dmap rnd RND eps mn mx v HI He Hm)
   (conj (qmap_ge_dmap rnd RND eps mn mx v HI He Hm)
         (qmap_eq_dmap rnd eps mn mx v)))).
Qed.

(* non-vacuity: a query against the fit of Props/C12_rounding.v's example under the plateau rounding rH,
   EPSILON read as 1/1024 (not absorbed) *)
Theorem C14_rnd_example :
  rounding rH /\ rH 1 = 1 /\
  1 <= query_density (RndOps rH) 1000 (1 / 1024) (1 / 8) (203 / 625) 1 (ex3_e 1).
Proof. exact (conj (proj1 rH_admissible) (conj (proj1 (proj2 rH_admissible)) ex3_query_rH)). Qed.
