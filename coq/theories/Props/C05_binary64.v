(* Heap.dad's float division is exact (removes the assumption "Heap.dad's float division is exact (i < 2^53)"
   listed by the C05 evidence).

   /repo/opfython/core/heap.py:   def dad(self, i): return int((i - 1) / 2)
   i is a Python int; [(i - 1) / 2] is Python's TRUE division of two ints, returning a binary64 number;
   [int(.)] truncates toward zero.  Model/Heap.v models the result as the natural-number division
   [dad i = (i - 1) / 2] (with [dad 0 = 0]: int(-0.5) = 0).

   [fdad i := PrimFloat.div (float_ofZ (i - 1)) (float_ofZ 2)] (Model/Binary64Dad.v; [float_ofZ] from
   Base/NumOps.v) is the expression on Coq's primitive binary64 numbers with both ints converted first.
   For every 0 <= i <= 2^53:
     - the quotient is a finite float whose real value is EXACTLY (i - 1) / 2: both conversions are exact
       (|i - 1| <= 2^53) and the quotient is a dyadic number with a numerator below 2^53 in magnitude and
       exponent -1, so the correctly rounded division does not round;
     - truncation toward zero of that value (Flocq's [Ztrunc]) is [dad i], including i = 0 (-1/2 |-> 0).
   [f2r], [ffin]: Model/Binary64.v (value of a primitive float; is_finite).

   THE REMAINING MODELLING STEP.  CPython's int / int (long_true_divide) returns the correctly rounded binary64
   value of the EXACT rational quotient; it does not convert the operands first.  For |i - 1| <= 2^53 the
   two coincide: both conversions are exact, so dividing the converted floats (IEEE division: the correctly
   rounded value of the exact quotient of the operands' values) is the correctly rounded value of the same exact
   quotient.  That identification - and that [int(float)] is truncation toward zero - is not proved here (there is no
   model of CPython's big-integer division in this development); everything downstream of it is.

   THE BOUNDARY ([C05_binary64_dad_limit]).  2^53 + 1 is not a binary64 number: at i = 2^53 + 2 the conversion of
   i - 1 is inexact for the first time (float_ofZ (2^53 + 1) = 2^53, ties to even) and the float quotient 2^52 is not
   (i - 1) / 2 = 2^52 + 1/2 - its truncation is still dad i.  The first index at which the float expression returns
   a WRONG parent is i = 2^53 + 4 (i - 1 = 2^53 + 3 converts to 2^53 + 4; quotient 2^52 + 2; dad i = 2^52 + 1).
   (CPython's correctly rounded quotient behaves the same at these two indices: (2^53+1)/2 and (2^53+3)/2 are
   ties and round to the even neighbours 2^52 and 2^52 + 2; checked against /venv/bin/python.)  A heap of 2^53
   entries is far outside anything the library can allocate, so the model's [dad] is the code's on every reachable
   input.

   Assumptions reported: those of the operation bridge (the standard library's FloatAxioms / Uint63 specifications of the
   primitives, through Flocq) and the classical reals. *)
From Coq Require Import Reals ZArith Floats.
From Flocq Require Import Core.Raux.
From OPF Require Import Base.NumOps Model.Heap Model.Binary64 Model.Binary64Dad Proofs.Binary64Dad.
Open Scope R_scope.

Theorem C05_binary64_fdad_def :
  forall i, fdad i = PrimFloat.div (float_ofZ (i - 1)) (float_ofZ 2).
Proof. exact (fun i => eq_refl). Qed.

(* the headline: finite, exact, and its truncation is the model's dad *)
Theorem C05_binary64_dad_exact :
  forall i : Z, (0 <= i <= 2 ^ 53)%Z ->
    ffin (fdad i) = true /\
    f2r (fdad i) = (IZR i - 1) / 2 /\
    Ztrunc (f2r (fdad i)) = Z.of_nat (dad (Z.to_nat i)).
Proof. exact fdad_correct. Qed.

(* the arithmetic core, for every i >= 0 (no size bound): int of the exact quotient is the model's dad *)
Theorem C05_binary64_dad_trunc :
  forall i : Z, (0 <= i)%Z -> Ztrunc ((IZR i - 1) / 2) = Z.of_nat (dad (Z.to_nat i)).
Proof. exact dad_trunc. Qed.

(* the same for natural numbers, as the model is indexed *)
Theorem C05_binary64_dad_exact_nat :
  forall n : nat, (Z.of_nat n <= 2 ^ 53)%Z ->
    ffin (fdad (Z.of_nat n)) = true /\
    f2r (fdad (Z.of_nat n)) = (INR n - 1) / 2 /\
    Ztrunc (f2r (fdad (Z.of_nat n))) = Z.of_nat (dad n).
Proof. exact fdad_correct_nat. Qed.

(* the boundary *)
Theorem C05_binary64_dad_limit :
  f2r (float_ofZ ((2 ^ 53 + 2) - 1)) <> IZR ((2 ^ 53 + 2) - 1) /\
  f2r (fdad (2 ^ 53 + 2)) <> (IZR (2 ^ 53 + 2) - 1) / 2 /\
  Ztrunc (f2r (fdad (2 ^ 53 + 2))) = Z.of_nat (dad (Z.to_nat (2 ^ 53 + 2))) /\
  Ztrunc (f2r (fdad (2 ^ 53 + 4))) = (2 ^ 52 + 2)%Z /\
  Z.of_nat (dad (Z.to_nat (2 ^ 53 + 4))) = (2 ^ 52 + 1)%Z.
Proof. exact fdad_limit. Qed.

(* non-vacuity: i = 7 |-> 3, i = 0 |-> 0, i = 2^53 |-> 2^52 - 1 *)
Theorem C05_binary64_dad_nonvacuous :
  fdad 7 = float_ofZ 3 /\ Ztrunc (f2r (fdad 7)) = 3%Z /\ dad 7 = 3%nat /\
  fdad 0 = PrimFloat.opp (PrimFloat.div (float_ofZ 1) (float_ofZ 2)) /\ Ztrunc (f2r (fdad 0)) = 0%Z /\ dad 0 = 0%nat /\
  Ztrunc (f2r (fdad (2 ^ 53))) = (2 ^ 52 - 1)%Z.
Proof. exact fdad_examples. Qed.
