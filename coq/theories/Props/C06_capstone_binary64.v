(* C06 capstone at binary64: the float the library computes is within the proved relative bound of the published closed form.

   [metric_fltc m x y = Some f]: the checked PrimFloat evaluator of the regenerated metric term (Model/MetricFlt.v; bit-exact
   against DISTANCES[name](x, y) on every run of harness/c06_flt.py) returns the finite float [f], every intermediate float
   being finite (no overflow).  [f2r] is the real value of a float, [u64] = 2^-53, [sp_<name>] the closed form of
   Spec/MetricSpec.v evaluated in exact real arithmetic on the real values of the entries.

   The chain: Props/C06_flt_refine.v (floats -> rounded reals at rnd64, binary64 WITH gradual underflow), an agreement lemma
   rnd64 -> rnd64x (binary64 without underflow; Proofs/C06CapstoneBinary64.v), Props/C06_binary64.v (the rounding table at
   rnd64x).  manhattan, chebyshev, hamming use only + - fabs amax and an exact count: sums and differences of binary64 numbers
   are exact when tiny, in both formats, so NO underflow condition is needed. *)
From Coq Require Import Reals ZArith List Floats.
From OPF Require Import Spec.MetricSpec Model.MetricIR Gen.Metrics_gen Model.MetricRnd Proofs.RdepthWitness Model.Binary64
     Model.MetricFlt Proofs.Binary64Agree Proofs.C06CapstoneBinary64.
Import ListNotations.
Open Scope R_scope.

Theorem C06_capstone_manhattan : forall (x y : list PrimFloat.float) (f : PrimFloat.float),
  Forall (fun a => ffin a = true) x -> Forall (fun a => ffin a = true) y -> length x = length y -> (1 <= length x)%nat ->
  (Z.of_nat (length x) <= 2 ^ 53)%Z ->
  metric_fltc ir_manhattan x y = Some f ->
  Rabs (f2r f - sp_manhattan (map f2r x) (map f2r y))
  <= ((1 + u64) ^ (length x) - 1) * sp_manhattan (map f2r x) (map f2r y).
Proof. exact capstone_manhattan. Qed.

Theorem C06_capstone_chebyshev : forall (x y : list PrimFloat.float) (f : PrimFloat.float),
  Forall (fun a => ffin a = true) x -> Forall (fun a => ffin a = true) y -> length x = length y -> (1 <= length x)%nat ->
  (Z.of_nat (length x) <= 2 ^ 53)%Z ->
  metric_fltc ir_chebyshev x y = Some f ->
  Rabs (f2r f - sp_chebyshev (map f2r x) (map f2r y))
  <= ((1 + u64) ^ 1 - 1) * sp_chebyshev (map f2r x) (map f2r y).
Proof. exact capstone_chebyshev. Qed.

Theorem C06_capstone_hamming : forall (x y : list PrimFloat.float) (f : PrimFloat.float),
  Forall (fun a => ffin a = true) x -> Forall (fun a => ffin a = true) y -> length x = length y -> (1 <= length x)%nat ->
  (Z.of_nat (length x) <= 2 ^ 53)%Z ->
  metric_fltc ir_hamming x y = Some f ->
  Rabs (f2r f - sp_hamming (map f2r x) (map f2r y))
  <= ((1 + u64) ^ 0 - 1) * sp_hamming (map f2r x) (map f2r y).
Proof. exact capstone_hamming. Qed.

(* ... that is, the count is exact *)
Theorem C06_capstone_hamming_exact : forall (x y : list PrimFloat.float) (f : PrimFloat.float),
  Forall (fun a => ffin a = true) x -> Forall (fun a => ffin a = true) y -> length x = length y -> (1 <= length x)%nat ->
  (Z.of_nat (length x) <= 2 ^ 53)%Z ->
  metric_fltc ir_hamming x y = Some f ->
  f2r f = sp_hamming (map f2r x) (map f2r y).
Proof. exact capstone_hamming_exact. Qed.

(* non-vacuity: one pair of finite vectors of length 3 on which all three checked evaluators are defined *)
Theorem C06_capstone_nonvacuous_nocond :
  exists (x y : list PrimFloat.float) (f1 f2 f3 : PrimFloat.float),
    Forall (fun a => ffin a = true) x /\ Forall (fun a => ffin a = true) y /\ length x = length y /\ length x = 3%nat
    /\ (Z.of_nat (length x) <= 2 ^ 53)%Z
    /\ metric_fltc ir_manhattan x y = Some f1 /\ metric_fltc ir_chebyshev x y = Some f2
    /\ metric_fltc ir_hamming x y = Some f3.
Proof. exact capstone_nonvacuous_nocond. Qed.

(* ---------------- identifiers with roundings that can underflow ----------------
   [normal64 t] (Proofs/Binary64Agree.v) := t = 0 \/ / 2 ^ 1022 <= Rabs t: the EXACT real argument [t] of a rounding is zero
   or in the normal range, so that rounding with and without gradual underflow agree.  It is asked only of the operations
   that can underflow inexactly: the division by the length (gower), the product by 1/2 (non_intersection), each square
   (squared_euclidean, euclidean).  The side conditions are written on the rounded-real intermediate values, which ARE the
   values of the intermediate floats (C06_flt_refine): [rsum rnd64 (map2 (fun a b => Rabs (rnd64 (a - b))) X Y)] is the
   value of the float `np.sum(np.fabs(x - y))`, [rnd64 (a - b)] that of an entry of `x - y`.
   The sums, the differences and the final square root need no condition (the square root of a binary64 number is 0 or
   >= 2^-537).  Without the condition the bound is FALSE in general: an underflowing square is rounded to 0 or to a multiple
   of 2^-1074 with unbounded relative error. *)
Theorem C06_capstone_gower : forall (x y : list PrimFloat.float) (f : PrimFloat.float),
  Forall (fun a => ffin a = true) x -> Forall (fun a => ffin a = true) y -> length x = length y -> (1 <= length x)%nat ->
  (Z.of_nat (length x) <= 2 ^ 53)%Z ->
  metric_fltc ir_gower x y = Some f ->
  normal64 (rsum rnd64 (map2 (fun a b => Rabs (rnd64 (a - b))) (map f2r x) (map f2r y)) / len (map f2r x)) ->
  Rabs (f2r f - sp_gower (map f2r x) (map f2r y))
  <= ((1 + u64) ^ (length x + 1) - 1) * sp_gower (map f2r x) (map f2r y).
Proof. exact capstone_gower. Qed.

Theorem C06_capstone_non_intersection : forall (x y : list PrimFloat.float) (f : PrimFloat.float),
  Forall (fun a => ffin a = true) x -> Forall (fun a => ffin a = true) y -> length x = length y -> (1 <= length x)%nat ->
  (Z.of_nat (length x) <= 2 ^ 53)%Z ->
  metric_fltc ir_non_intersection x y = Some f ->
  normal64 (/ 2 * rsum rnd64 (map2 (fun a b => Rabs (rnd64 (a - b))) (map f2r x) (map f2r y))) ->
  Rabs (f2r f - sp_non_intersection (map f2r x) (map f2r y))
  <= ((1 + u64) ^ (length x + 1) - 1) * sp_non_intersection (map f2r x) (map f2r y).
Proof. exact capstone_non_intersection. Qed.

Theorem C06_capstone_squared_euclidean : forall (x y : list PrimFloat.float) (f : PrimFloat.float),
  Forall (fun a => ffin a = true) x -> Forall (fun a => ffin a = true) y -> length x = length y -> (1 <= length x)%nat ->
  (Z.of_nat (length x) <= 2 ^ 53)%Z ->
  metric_fltc ir_squared_euclidean x y = Some f ->
  Forall (fun d => normal64 (d ^ 2)) (map2 (fun a b => rnd64 (a - b)) (map f2r x) (map f2r y)) ->
  Rabs (f2r f - sp_squared_euclidean (map f2r x) (map f2r y))
  <= ((1 + u64) ^ (length x + 2) - 1) * sp_squared_euclidean (map f2r x) (map f2r y).
Proof. exact capstone_squared_euclidean. Qed.

Theorem C06_capstone_euclidean : forall (x y : list PrimFloat.float) (f : PrimFloat.float),
  Forall (fun a => ffin a = true) x -> Forall (fun a => ffin a = true) y -> length x = length y -> (1 <= length x)%nat ->
  (Z.of_nat (length x) <= 2 ^ 53)%Z ->
  metric_fltc ir_euclidean x y = Some f ->
  Forall (fun d => normal64 (d ^ 2)) (map2 (fun a b => rnd64 (a - b)) (map f2r x) (map f2r y)) ->
  Rabs (f2r f - sp_euclidean (map f2r x) (map f2r y))
  <= ((1 + u64) ^ ((length x + 3) / 2 + 1) - 1) * sp_euclidean (map f2r x) (map f2r y).
Proof. exact capstone_euclidean. Qed.

(* the meaning of the side condition, and of the agreement it buys *)
Theorem C06_capstone_normal64 : forall t : R,
  normal64 t <-> (t = 0 \/ / 2 ^ 1022 <= Rabs t).
Proof. exact (fun t => conj (fun H => H) (fun H => H)). Qed.

Theorem C06_capstone_normal64_agree : forall t : R, normal64 t -> rnd64 t = rnd64x t.
Proof. exact agree64_normal. Qed.

(* non-vacuity: x = [0; 3], y = [4; 1]: all four checked evaluators are defined and all side conditions hold *)
Theorem C06_capstone_nonvacuous_cond :
  exists (x y : list PrimFloat.float) (f1 f2 f3 f4 : PrimFloat.float),
    Forall (fun a => ffin a = true) x /\ Forall (fun a => ffin a = true) y /\ length x = length y /\ length x = 2%nat
    /\ (Z.of_nat (length x) <= 2 ^ 53)%Z
    /\ metric_fltc ir_gower x y = Some f1 /\ metric_fltc ir_non_intersection x y = Some f2
    /\ metric_fltc ir_squared_euclidean x y = Some f3 /\ metric_fltc ir_euclidean x y = Some f4
    /\ normal64 (rsum rnd64 (map2 (fun a b => Rabs (rnd64 (a - b))) (map f2r x) (map f2r y)) / len (map f2r x))
    /\ normal64 (/ 2 * rsum rnd64 (map2 (fun a b => Rabs (rnd64 (a - b))) (map f2r x) (map f2r y)))
    /\ Forall (fun d => normal64 (d ^ 2)) (map2 (fun a b => rnd64 (a - b)) (map f2r x) (map f2r y)).
Proof. exact capstone_nonvacuous_cond. Qed.

(* average_euclidean: the sibling call to squared_euclidean (its squares), then the division by the length; the final
   square root of a binary64 number never underflows *)
Theorem C06_capstone_average_euclidean : forall (x y : list PrimFloat.float) (f : PrimFloat.float),
  Forall (fun a => ffin a = true) x -> Forall (fun a => ffin a = true) y -> length x = length y -> (1 <= length x)%nat ->
  (Z.of_nat (length x) <= 2 ^ 53)%Z ->
  metric_fltc ir_average_euclidean x y = Some f ->
  Forall (fun d => normal64 (d ^ 2)) (map2 (fun a b => rnd64 (a - b)) (map f2r x) (map f2r y)) ->
  normal64 (rsum rnd64 (map2 (fun a b => rnd64 (rnd64 (a - b) ^ 2)) (map f2r x) (map f2r y)) / len (map f2r x)) ->
  Rabs (f2r f - sp_average_euclidean (map f2r x) (map f2r y))
  <= ((1 + u64) ^ ((length x + 4) / 2 + 1) - 1) * sp_average_euclidean (map f2r x) (map f2r y).
Proof. exact capstone_average_euclidean. Qed.

Theorem C06_capstone_nonvacuous_average :
  exists (x y : list PrimFloat.float) (f : PrimFloat.float),
    Forall (fun a => ffin a = true) x /\ Forall (fun a => ffin a = true) y /\ length x = length y /\ length x = 2%nat
    /\ (Z.of_nat (length x) <= 2 ^ 53)%Z
    /\ metric_fltc ir_average_euclidean x y = Some f
    /\ Forall (fun d => normal64 (d ^ 2)) (map2 (fun a b => rnd64 (a - b)) (map f2r x) (map f2r y))
    /\ normal64 (rsum rnd64 (map2 (fun a b => rnd64 (rnd64 (a - b) ^ 2)) (map f2r x) (map f2r y)) / len (map f2r x)).
Proof. exact capstone_nonvacuous_average. Qed.

(* ---------------- observable side condition ----------------
   Where the only rounding that can underflow is the LAST one (gower, non_intersection), "the returned float is above the
   smallest normal number 2^-1022" implies the side condition: a result above 2^-1022 was not produced by an underflowing
   rounding (rnd64 is monotone and fixes 2^-1022). *)
Theorem C06_capstone_result_above_minnormal : forall t : R, / 2 ^ 1022 < Rabs (rnd64 t) -> normal64 t.
Proof. exact rnd64_gt_normal. Qed.

Theorem C06_capstone_gower_observable : forall (x y : list PrimFloat.float) (f : PrimFloat.float),
  Forall (fun a => ffin a = true) x -> Forall (fun a => ffin a = true) y -> length x = length y -> (1 <= length x)%nat ->
  (Z.of_nat (length x) <= 2 ^ 53)%Z ->
  metric_fltc ir_gower x y = Some f ->
  / 2 ^ 1022 < f2r f ->
  Rabs (f2r f - sp_gower (map f2r x) (map f2r y))
  <= ((1 + u64) ^ (length x + 1) - 1) * sp_gower (map f2r x) (map f2r y).
Proof. exact capstone_gower_observable. Qed.

Theorem C06_capstone_non_intersection_observable : forall (x y : list PrimFloat.float) (f : PrimFloat.float),
  Forall (fun a => ffin a = true) x -> Forall (fun a => ffin a = true) y -> length x = length y -> (1 <= length x)%nat ->
  (Z.of_nat (length x) <= 2 ^ 53)%Z ->
  metric_fltc ir_non_intersection x y = Some f ->
  / 2 ^ 1022 < f2r f ->
  Rabs (f2r f - sp_non_intersection (map f2r x) (map f2r y))
  <= ((1 + u64) ^ (length x + 1) - 1) * sp_non_intersection (map f2r x) (map f2r y).
Proof. exact capstone_non_intersection_observable. Qed.

Theorem C06_capstone_nonvacuous_observable :
  exists (x y : list PrimFloat.float) (f1 f2 : PrimFloat.float),
    Forall (fun a => ffin a = true) x /\ Forall (fun a => ffin a = true) y /\ length x = length y /\ length x = 2%nat
    /\ (Z.of_nat (length x) <= 2 ^ 53)%Z
    /\ metric_fltc ir_gower x y = Some f1 /\ / 2 ^ 1022 < f2r f1
    /\ metric_fltc ir_non_intersection x y = Some f2 /\ / 2 ^ 1022 < f2r f2.
Proof. exact capstone_nonvacuous_observable. Qed.

(* the side condition cannot be dropped: x = [2^-600], y = [0] - all floats finite, the square underflows to 0, the computed
   squared_euclidean is 0 while the closed form is 2^-1200 > 0 *)
Theorem C06_capstone_squared_euclidean_refuted_without_condition :
  exists (x y : list PrimFloat.float) (f : PrimFloat.float),
    Forall (fun a => ffin a = true) x /\ Forall (fun a => ffin a = true) y /\ length x = length y /\ (1 <= length x)%nat
    /\ (Z.of_nat (length x) <= 2 ^ 53)%Z
    /\ metric_fltc ir_squared_euclidean x y = Some f
    /\ ~ Rabs (f2r f - sp_squared_euclidean (map f2r x) (map f2r y))
         <= ((1 + u64) ^ (length x + 2) - 1) * sp_squared_euclidean (map f2r x) (map f2r y).
Proof. exact capstone_squared_euclidean_refuted_without_condition. Qed.

(* a data-level sufficient condition for the squares: [d] is the value of an entry of the float vector `x - y`; if it is 0
   or at least 2^-511 in magnitude, its square does not underflow *)
Theorem C06_capstone_square_normal : forall d : R, d = 0 \/ / 2 ^ 511 <= Rabs d -> normal64 (d ^ 2).
Proof. exact normal64_sq. Qed.
