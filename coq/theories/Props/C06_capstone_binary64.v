(* C06 capstone at binary64: the float the library computes is within the proved relative bound of the published closed form.

   [metric_fltc m x y = Some f]: the checked PrimFloat evaluator of the regenerated metric term (Model/MetricFlt.v; bit-exact
   against DISTANCES[name](x, y) on every run of harness/c06_flt.py) returns the finite float [f], every intermediate float
   being finite (no overflow).  [f2r] is the real value of a float, [u64] = 2^-53, [sp_<name>] the closed form of
   Spec/MetricSpec.v evaluated in exact real arithmetic on the real values of the entries.

   The chain: Props/C06_flt_refine.v (floats -> rounded reals at rnd64, binary64 WITH gradual underflow), an agreement lemma
   rnd64 -> rnd64x (binary64 without underflow; Proofs/C06CapstoneBinary64.v), Props/C06_binary64.v (the rounding table at
   rnd64x).  manhattan, chebyshev, hamming use only + - fabs amax and an exact count: sums and differences of binary64 numbers
   are exact when tiny, in both formats, so NO underflow condition is needed. *)
From Coq Require Import Reals ZArith List Floats.
From OPF Require Import Spec.MetricSpec Model.MetricIR Gen.Metrics_gen Model.MetricRnd Proofs.RdepthWitness Model.Binary64
     Model.MetricFlt Proofs.Binary64Agree Proofs.C06CapstoneBinary64.
Import ListNotations.
Open Scope R_scope.

Theorem C06_capstone_manhattan : forall (x y : list PrimFloat.float) (f : PrimFloat.float),
  Forall (fun a => ffin a = true) x -> Forall (fun a => ffin a = true) y -> length x = length y -> (1 <= length x)%nat ->
  (Z.of_nat (length x) <= 2 ^ 53)%Z ->
  metric_fltc ir_manhattan x y = Some f ->
  Rabs (f2r f - sp_manhattan (map f2r x) (map f2r y))
  <= ((1 + u64) ^ (length x) - 1) * sp_manhattan (map f2r x) (map f2r y).
Proof. exact capstone_manhattan. Qed.

Theorem C06_capstone_chebyshev : forall (x y : list PrimFloat.float) (f : PrimFloat.float),
  Forall (fun a => ffin a = true) x -> Forall (fun a => ffin a = true) y -> length x = length y -> (1 <= length x)%nat ->
  (Z.of_nat (length x) <= 2 ^ 53)%Z ->
  metric_fltc ir_chebyshev x y = Some f ->
  Rabs (f2r f - sp_chebyshev (map f2r x) (map f2r y))
  <= ((1 + u64) ^ 1 - 1) * sp_chebyshev (map f2r x) (map f2r y).
Proof. exact capstone_chebyshev. Qed.

Theorem C06_capstone_hamming : forall (x y : list PrimFloat.float) (f : PrimFloat.float),
  Forall (fun a => ffin a = true) x -> Forall (fun a => ffin a = true) y -> length x = length y -> (1 <= length x)%nat ->
  (Z.of_nat (length x) <= 2 ^ 53)%Z ->
  metric_fltc ir_hamming x y = Some f ->
  Rabs (f2r f - sp_hamming (map f2r x) (map f2r y))
  <= ((1 + u64) ^ 0 - 1) * sp_hamming (map f2r x) (map f2r y).
Proof. exact capstone_hamming. Qed.

(* ... that is, the count is exact *)
Theorem C06_capstone_hamming_exact : forall (x y : list PrimFloat.float) (f : PrimFloat.float),
  Forall (fun a => ffin a = true) x -> Forall (fun a => ffin a = true) y -> length x = length y -> (1 <= length x)%nat ->
  (Z.of_nat (length x) <= 2 ^ 53)%Z ->
  metric_fltc ir_hamming x y = Some f ->
  f2r f = sp_hamming (map f2r x) (map f2r y).
Proof. exact capstone_hamming_exact. Qed.

(* non-vacuity: one pair of finite vectors of length 3 on which all three checked evaluators are defined *)
Theorem C06_capstone_nonvacuous_nocond :
  exists (x y : list PrimFloat.float) (f1 f2 f3 : PrimFloat.float),
    Forall (fun a => ffin a = true) x /\ Forall (fun a => ffin a = true) y /\ length x = length y /\ length x = 3%nat
    /\ (Z.of_nat (length x) <= 2 ^ 53)%Z
    /\ metric_fltc ir_manhattan x y = Some f1 /\ metric_fltc ir_chebyshev x y = Some f2
    /\ metric_fltc ir_hamming x y = Some f3.
Proof. exact capstone_nonvacuous_nocond. Qed.
