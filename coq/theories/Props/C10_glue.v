(* C10 (glue part).  Props/C10_logic.v proves that the pre-computed and the direct branch agree
   under the hypothesis [feat a = data (idx a)].  Here: that hypothesis holds for the subgraphs the
   library builds from the outputs of [split_with_index] with their index arrays (training and
   test/query), what it means without index arrays, and the composed statement.
   Second part: the range of [get_distances(normalize=True)]. *)
From Coq Require Import List Permutation Reals.
From OPF Require Import Model.Stream Model.Build Model.Heap Model.Sup Model.Knn
     Proofs.WeightsExt Proofs.BuildGlue Proofs.NormalizeRange.
Import ListNotations.

(* ---------- 1. nodes built with an index array ---------- *)

(* [X = data[I]] (what split_with_index returns next to [I]): node [a] of Subgraph(X, Y, I) has
   [a.features = data[a.idx]] and [a.idx] is a row of the distance file *)
Theorem build_agrees_with_data :
  forall (Row : Type) (d : Row) (data X : list Row) (I : list nat),
    X = gather d data I -> Forall (fun i => i < length data) I ->
    forall a, In a (build X (Some I)) -> fst a < length data /\ snd a = nth (fst a) data d.
Proof. exact (@BuildGlue.build_agrees_with_data). Qed.

(* no index array: [idx] is the position, the file must be the distance matrix of [X] itself *)
Theorem build_no_index_agrees :
  forall (Row : Type) (d : Row) (X : list Row),
    forall a, In a (build X None) -> fst a < length X /\ snd a = nth (fst a) X d.
Proof. exact (@BuildGlue.build_no_index_agrees). Qed.

(* both halves of split_with_index, [perm] a permutation of [0..N-1], any [h] *)
Theorem split_build_agrees :
  forall (Row : Type) (d : Row) (data : list Row) (perm : list nat) (h : nat),
    Permutation perm (seq 0 (length data)) ->
    let '(X1, X2, I1, I2) := split_with_index_rows d perm h data in
    (forall a, In a (build X1 (Some I1)) -> fst a < length data /\ snd a = nth (fst a) data d) /\
    (forall a, In a (build X2 (Some I2)) -> fst a < length data /\ snd a = nth (fst a) data d).
Proof. exact (@BuildGlue.split_build_agrees). Qed.

(* [split_with_index_rows] is [Stream.split_with_index] without the label outputs *)
Theorem split_rows_is_split :
  forall (Row B : Type) (d : Row) (dY : B) (perm : list nat) (h : nat) (X : list Row) (Y : list B),
    split_with_index_rows d perm h X =
    (let '(X1, X2, _, _, I1, I2) := split_with_index d dY perm h X Y in (X1, X2, I1, I2)).
Proof. exact (@BuildGlue.split_rows_is_split). Qed.

(* ---------- 2. SemiSupervisedOPF.fit ---------- *)

Theorem semi_build_agrees :
  forall (Row : Type) (d : Row) (data Xl Xu : list Row) (Il Iu : list nat),
    Xl = gather d data Il -> Xu = gather d data Iu ->
    forall a, In a (semi_build Xl (Some Il) Xu (Some Iu)) -> snd a = nth (fst a) data d.
Proof. exact (@BuildGlue.semi_build_agrees). Qed.

(* I_unlabeled = None: unlabeled node [i] gets idx [n_labeled + i]; the hypothesis on those nodes
   is equivalent to the layout condition on the file's dataset (finding F8) *)
Theorem unlabeled_default_layout_iff :
  forall (Row : Type) (d : Row) (data Xu : list Row) (nl : nat),
    (forall a, In a (unlabeled_nodes nl Xu None) -> snd a = nth (fst a) data d) <->
    (forall i, i < length Xu -> nth (nl + i) data d = nth i Xu d).
Proof. exact (@BuildGlue.unlabeled_default_layout_iff). Qed.

Theorem semi_build_default_layout :
  forall (Row : Type) (d : Row) (data Xl Xu : list Row) (Il : option (list nat)),
    (forall a, In a (build Xl Il) -> snd a = nth (fst a) data d) ->
    (forall i, i < length Xu -> nth (length Xl + i) data d = nth i Xu d) ->
    forall a, In a (semi_build Xl Il Xu None) -> snd a = nth (fst a) data d.
Proof. exact (@BuildGlue.semi_build_default_layout). Qed.

Theorem semi_build_default_layout_indexed :
  forall (Row : Type) (d : Row) (data Xl Xu : list Row) (Il : list nat),
    Xl = gather d data Il ->
    (forall i, i < length Xu -> nth (length Xl + i) data d = nth i Xu d) ->
    forall a, In a (semi_build Xl (Some Il) Xu None) -> snd a = nth (fst a) data d.
Proof. exact (@BuildGlue.semi_build_default_layout_indexed). Qed.

Theorem semi_build_no_index :
  forall (Row : Type) (d : Row) (Xl Xu : list Row),
    forall a, In a (semi_build Xl None Xu None) -> snd a = nth (fst a) (Xl ++ Xu) d.
Proof. exact (@BuildGlue.semi_build_no_index). Qed.

(* ---------- 3. from node lists to the functions [idx], [feat] of C10_logic ---------- *)

Theorem nodes_agree_nth :
  forall (Row : Type) (d : Row) (dataf : nat -> Row) (nodes : list (nat * Row)),
    (forall a, In a nodes -> snd a = dataf (fst a)) ->
    forall a, a < length nodes -> node_feat d nodes a = dataf (node_idx nodes a).
Proof. exact (@BuildGlue.nodes_agree_nth). Qed.

(* ---------- 4. composition ---------- *)

Theorem C10_supervised_nodes :
  forall (F W : Type) (ltb : W -> W -> bool) (zero top : W) (dist : F -> F -> W) (dF : F)
         (data : list F) (train test : list (nat * F)) (labels : list nat),
    (forall a, In a train -> snd a = nth (fst a) data dF) ->
    (forall a, In a test -> snd a = nth (fst a) data dF) ->
    length labels = length train -> 0 < length train ->
    let D := pre_compute dist (fun i => nth i data dF) in
    let idx := node_idx train in let feat := node_feat dF train in
    let idxq := node_idx test in let featq := node_feat dF test in
    sup_fit ltb zero top labels (fun p q => D (idx p) (idx q))
    = sup_fit ltb zero top labels (fun p q => dist (feat p) (feat q)) /\
    predict_batch ltb zero (sup_fit ltb zero top labels (fun p q => D (idx p) (idx q)))
                  (map (fun x t => D (idx t) (idxq x)) (seq 0 (length test)))
    = predict_batch ltb zero (sup_fit ltb zero top labels (fun p q => dist (feat p) (feat q)))
                    (map (fun x t => dist (feat t) (featq x)) (seq 0 (length test))).
Proof. exact (@BuildGlue.C10_supervised_nodes). Qed.

(* split the dataset, train on the first part (with I_1), predict the second part (with I_2),
   distances read from the file pre-computed on the whole dataset: same model, same predictions
   as computing the metric from the features *)
Theorem C10_supervised_split :
  forall (F W : Type) (ltb : W -> W -> bool) (zero top : W) (dist : F -> F -> W) (dF : F)
         (data : list F) (Y : list nat) (perm : list nat) (h : nat),
    Permutation perm (seq 0 (length data)) -> length Y = length data -> 0 < h <= length data ->
    let '(X1, X2, Y1, Y2, I1, I2) := split_with_index dF 0 perm h data Y in
    let train := build X1 (Some I1) in
    let test := build X2 (Some I2) in
    let D := pre_compute dist (fun i => nth i data dF) in
    let idx := node_idx train in let feat := node_feat dF train in
    let idxq := node_idx test in let featq := node_feat dF test in
    (length train = h /\ length test = length data - h) /\
    sup_fit ltb zero top Y1 (fun p q => D (idx p) (idx q))
    = sup_fit ltb zero top Y1 (fun p q => dist (feat p) (feat q)) /\
    predict_batch ltb zero (sup_fit ltb zero top Y1 (fun p q => D (idx p) (idx q)))
                  (map (fun x t => D (idx t) (idxq x)) (seq 0 (length test)))
    = predict_batch ltb zero (sup_fit ltb zero top Y1 (fun p q => dist (feat p) (feat q)))
                    (map (fun x t => dist (feat t) (featq x)) (seq 0 (length test))).
Proof. exact (@BuildGlue.C10_supervised_split). Qed.

(* the same without assuming that [perm] is a permutation *)
Theorem C10_supervised_split_gen :
  forall (F W : Type) (ltb : W -> W -> bool) (zero top : W) (dist : F -> F -> W) (dF : F)
         (data : list F) (Y : list nat) (perm : list nat) (h : nat),
    0 < h -> 0 < length perm ->
    let '(X1, X2, Y1, Y2, I1, I2) := split_with_index dF 0 perm h data Y in
    let train := build X1 (Some I1) in
    let test := build X2 (Some I2) in
    let D := pre_compute dist (fun i => nth i data dF) in
    let idx := node_idx train in let feat := node_feat dF train in
    let idxq := node_idx test in let featq := node_feat dF test in
    sup_fit ltb zero top Y1 (fun p q => D (idx p) (idx q))
    = sup_fit ltb zero top Y1 (fun p q => dist (feat p) (feat q)) /\
    predict_batch ltb zero (sup_fit ltb zero top Y1 (fun p q => D (idx p) (idx q)))
                  (map (fun x t => D (idx t) (idxq x)) (seq 0 (length test)))
    = predict_batch ltb zero (sup_fit ltb zero top Y1 (fun p q => dist (feat p) (feat q)))
                    (map (fun x t => dist (feat t) (featq x)) (seq 0 (length test))).
Proof. exact (@BuildGlue.C10_supervised_split_gen). Qed.

Theorem C10_semi_nodes :
  forall (F W : Type) (ltb : W -> W -> bool) (zero top : W) (dist : F -> F -> W) (dF : F)
         (data : list F) (nodes test : list (nat * F)) (labels : list nat) (nu : nat),
    (forall a, In a nodes -> snd a = nth (fst a) data dF) ->
    (forall a, In a test -> snd a = nth (fst a) data dF) ->
    length labels + nu = length nodes -> 0 < length nodes ->
    let D := pre_compute dist (fun i => nth i data dF) in
    let idx := node_idx nodes in let feat := node_feat dF nodes in
    let idxq := node_idx test in let featq := node_feat dF test in
    semi_fit ltb zero top labels nu (fun p q => D (idx p) (idx q))
    = semi_fit ltb zero top labels nu (fun p q => dist (feat p) (feat q)) /\
    predict_batch ltb zero (semi_fit ltb zero top labels nu (fun p q => D (idx p) (idx q)))
                  (map (fun x t => D (idx t) (idxq x)) (seq 0 (length test)))
    = predict_batch ltb zero (semi_fit ltb zero top labels nu (fun p q => dist (feat p) (feat q)))
                    (map (fun x t => dist (feat t) (featq x)) (seq 0 (length test))).
Proof. exact (@BuildGlue.C10_semi_nodes). Qed.

Theorem C10_knn_arcs_nodes :
  forall (F W : Type) (ltb : W -> W -> bool) (zero top : W) (dist : F -> F -> W) (dF : F)
         (data : list F) (nodes : list (nat * F)) (thr one : W) (k : nat) (g : @knn W),
    (forall a, In a nodes -> snd a = nth (fst a) data dF) ->
    let D := pre_compute dist (fun i => nth i data dF) in
    create_arcs ltb zero top thr one k (length nodes)
                (fun p q => D (node_idx nodes p) (node_idx nodes q)) g
    = create_arcs ltb zero top thr one k (length nodes)
                  (fun p q => dist (node_feat dF nodes p) (node_feat dF nodes q)) g.
Proof. exact (@BuildGlue.C10_knn_arcs_nodes). Qed.

(* ---------- 5. get_distances(normalize=True) ---------- *)

Local Open Scope R_scope.

Theorem lmin_attained_bound :
  forall l : list R, l <> [] -> In (lmin l) l /\ forall v, In v l -> lmin l <= v.
Proof. exact NormalizeRange.lmin_attained_bound. Qed.

Theorem lmax_attained_bound :
  forall l : list R, l <> [] -> In (lmax_l l) l /\ forall v, In v l -> v <= lmax_l l.
Proof. exact NormalizeRange.lmax_attained_bound. Qed.

(* [l]: the matrix as a flat list; [lmin l < lmax_l l] implies [l <> []] *)
Theorem normalize_range :
  forall l : list R,
    lmin l < lmax_l l ->
    let f := fun v => (v - lmin l) / (lmax_l l - lmin l) in
    (forall y, In y (map f l) -> 0 <= y <= 1) /\
    In (lmin l) l /\ In (lmax_l l) l /\
    In 0 (map f l) /\ In 1 (map f l) /\
    (forall v, f v = 0 <-> v = lmin l) /\
    (forall v, f v = 1 <-> v = lmax_l l) /\
    (forall u v, u < v <-> f u < f v) /\
    (forall i j, (i < length l)%nat -> (j < length l)%nat ->
       (nth i l 0 < nth j l 0 <-> nth i (map f l) 0 < nth j (map f l) 0)).
Proof. exact NormalizeRange.normalize_range. Qed.

Theorem normalize_matrix_flat :
  forall M : list (list R), concat (normalize_matrix M) = normalize_flat (concat M).
Proof. exact NormalizeRange.normalize_matrix_flat. Qed.

Theorem normalize_matrix_range :
  forall M : list (list R),
    lmin (concat M) < lmax_l (concat M) ->
    (forall row y, In row (normalize_matrix M) -> In y row -> 0 <= y <= 1) /\
    (exists row, In row (normalize_matrix M) /\ In 0 row) /\
    (exists row, In row (normalize_matrix M) /\ In 1 row).
Proof. exact NormalizeRange.normalize_matrix_range. Qed.
