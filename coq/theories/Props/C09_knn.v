From Coq Require Import List Arith ZArith.
From OPF Require Import Model.Knn Proofs.KnnBatch.
Import ListNotations.

(* C09, KNN part (KNNSupervisedOPF.predict / UnsupervisedOPF.predict).  [knn_predict_batch] threads the
   [neighbours_idx] scratch array, which the code allocates once per predict call and never resets, from
   one query to the next; [knn_predict_one] is the same query run on a fresh array.  A query is its
   distance function (training sample -> distance); [densx_of ds ns] is the query density computed from
   the scan result, which in the code reads ns[l] only for slots l < k with ds[l] <> FLOAT_MAX. *)

(* The batch result is the pointwise map of the single-query prediction. *)
Theorem C09_knn_predict_pointwise :
  forall (zero top bot : Z) (g : @knn Z) (k n : nat) (densx_of : list Z -> list nat -> Z) (qs : list (nat -> Z)),
    (forall dist, In dist qs -> forall j, j < n -> (dist j < top)%Z) ->
    (forall ds ns ns', length ds = S k -> length ns = S k -> length ns' = S k ->
       (forall l, l < k -> nth l ds top <> top -> nth l ns 0 = nth l ns' 0) ->
       densx_of ds ns = densx_of ds ns') ->
    knn_predict_batch Z.ltb zero top bot g k n densx_of qs
    = map (knn_predict_one Z.ltb zero top bot g k n densx_of) qs.
Proof. exact knn_batch_pointwise. Qed.

(* The same under the other natural reading of "depends only on the reported slots". *)
Theorem C09_knn_predict_pointwise_firstn :
  forall (zero top bot : Z) (g : @knn Z) (k n : nat) (densx_of : list Z -> list nat -> Z) (qs : list (nat -> Z)),
    (forall dist, In dist qs -> forall j, j < n -> (dist j < top)%Z) ->
    (forall ds ns ns', firstn (Nat.min k n) ns = firstn (Nat.min k n) ns' -> densx_of ds ns = densx_of ds ns') ->
    knn_predict_batch Z.ltb zero top bot g k n densx_of qs
    = map (knn_predict_one Z.ltb zero top bot g k n densx_of) qs.
Proof. exact knn_batch_pointwise_firstn. Qed.

(* Position i of the batch result is the single-query prediction of the i-th query ... *)
Theorem C09_knn_predict_nth :
  forall (zero top bot : Z) (g : @knn Z) (k n : nat) (densx_of : list Z -> list nat -> Z) (qs : list (nat -> Z)),
    (forall dist, In dist qs -> forall j, j < n -> (dist j < top)%Z) ->
    (forall ds ns ns', length ds = S k -> length ns = S k -> length ns' = S k ->
       (forall l, l < k -> nth l ds top <> top -> nth l ns 0 = nth l ns' 0) ->
       densx_of ds ns = densx_of ds ns') ->
    length (knn_predict_batch Z.ltb zero top bot g k n densx_of qs) = length qs /\
    forall i d0, i < length qs ->
      nth i (knn_predict_batch Z.ltb zero top bot g k n densx_of qs) None
      = knn_predict_one Z.ltb zero top bot g k n densx_of (nth i qs d0).
Proof. exact knn_batch_nth. Qed.

(* ... hence a sample (= its distances to the n training samples) gets the same answer at any position i of
   any batch qs as at any position i' of any other batch qs': position, the other queries and their order
   are irrelevant. *)
Theorem C09_knn_position_free :
  forall (zero top bot : Z) (g : @knn Z) (k n : nat) (densx_of : list Z -> list nat -> Z)
         (qs qs' : list (nat -> Z)) (i i' : nat) (d0 : nat -> Z),
    (forall dist, In dist qs -> forall j, j < n -> (dist j < top)%Z) ->
    (forall dist, In dist qs' -> forall j, j < n -> (dist j < top)%Z) ->
    (forall ds ns ns', length ds = S k -> length ns = S k -> length ns' = S k ->
       (forall l, l < k -> nth l ds top <> top -> nth l ns 0 = nth l ns' 0) ->
       densx_of ds ns = densx_of ds ns') ->
    i < length qs -> i' < length qs' ->
    (forall j, j < n -> nth i qs d0 j = nth i' qs' d0 j) ->
    nth i (knn_predict_batch Z.ltb zero top bot g k n densx_of qs) None
    = nth i' (knn_predict_batch Z.ltb zero top bot g k n densx_of qs') None.
Proof. exact knn_position_free. Qed.

(* A single-query prediction reads the query's distances to the n training samples only (any weight type). *)
Theorem C09_knn_predict_one_reads :
  forall (W : Type) (ltb : W -> W -> bool) (zero top bot : W) (g : @knn W) (k n : nat)
         (densx_of : list W -> list nat -> W) (dist dist' : nat -> W),
    (forall j, j < n -> dist j = dist' j) ->
    knn_predict_one ltb zero top bot g k n densx_of dist = knn_predict_one ltb zero top bot g k n densx_of dist'.
Proof. exact (@knn_predict_one_ext). Qed.

(* Ingredient, any weight type: the distance array after a scan does not depend on the stale neighbours_idx. *)
Theorem C09_knn_scan_distances_fresh :
  forall (W : Type) (ltb : W -> W -> bool) (top : W) (k n : nat) (dist : nat -> W) (skip : option nat)
         (ns0 ns0' : list nat),
    fst (knn_scan ltb top k n dist skip ns0) = fst (knn_scan ltb top k n dist skip ns0').
Proof. exact (@knn_scan_fst_indep). Qed.

Print Assumptions C09_knn_predict_pointwise.
Print Assumptions C09_knn_predict_pointwise_firstn.
Print Assumptions C09_knn_position_free.
