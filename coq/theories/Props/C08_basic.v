(* C08 (basic axioms): symmetry, non-negativity, zero self-distance of the closed forms.
   Generated text (statements copied verbatim from Proofs/Metric{Sym,NotSym,Nonneg,Analytic}.v). *)
From Coq Require Import Reals List.
From OPF Require Import Spec.MetricSpec Proofs.MetricAxioms.

Theorem C08_sym_additive_symmetric : (forall x y, length x = length y -> sp_additive_symmetric x y = sp_additive_symmetric y x)%R.
Proof. exact sym_additive_symmetric. Qed.

Theorem C08_sym_average_euclidean : (forall x y, length x = length y -> sp_average_euclidean x y = sp_average_euclidean y x)%R.
Proof. exact sym_average_euclidean. Qed.

Theorem C08_sym_bhattacharyya : (forall x y, length x = length y -> sp_bhattacharyya x y = sp_bhattacharyya y x)%R.
Proof. exact sym_bhattacharyya. Qed.

Theorem C08_sym_bray_curtis : (forall x y, length x = length y -> sp_bray_curtis x y = sp_bray_curtis y x)%R.
Proof. exact sym_bray_curtis. Qed.

Theorem C08_sym_canberra : (forall x y, length x = length y -> sp_canberra x y = sp_canberra y x)%R.
Proof. exact sym_canberra. Qed.

Theorem C08_sym_chebyshev : (forall x y, length x = length y -> sp_chebyshev x y = sp_chebyshev y x)%R.
Proof. exact sym_chebyshev. Qed.

Theorem C08_sym_chi_squared : (forall x y, length x = length y -> sp_chi_squared x y = sp_chi_squared y x)%R.
Proof. exact sym_chi_squared. Qed.

Theorem C08_sym_chord : (forall x y, length x = length y -> sp_chord x y = sp_chord y x)%R.
Proof. exact sym_chord. Qed.

Theorem C08_sym_clark : (forall x y, length x = length y -> sp_clark x y = sp_clark y x)%R.
Proof. exact sym_clark. Qed.

Theorem C08_sym_cosine : (forall x y, length x = length y -> sp_cosine x y = sp_cosine y x)%R.
Proof. exact sym_cosine. Qed.

Theorem C08_sym_dice : (forall x y, length x = length y -> sp_dice x y = sp_dice y x)%R.
Proof. exact sym_dice. Qed.

Theorem C08_sym_divergence : (forall x y, length x = length y -> sp_divergence x y = sp_divergence y x)%R.
Proof. exact sym_divergence. Qed.

Theorem C08_sym_euclidean : (forall x y, length x = length y -> sp_euclidean x y = sp_euclidean y x)%R.
Proof. exact sym_euclidean. Qed.

Theorem C08_sym_gaussian : (forall g x y, length x = length y -> sp_gaussian g x y = sp_gaussian g y x)%R.
Proof. exact sym_gaussian. Qed.

Theorem C08_sym_gower : (forall x y, length x = length y -> sp_gower x y = sp_gower y x)%R.
Proof. exact sym_gower. Qed.

Theorem C08_sym_hamming : (forall x y, length x = length y -> sp_hamming x y = sp_hamming y x)%R.
Proof. exact sym_hamming. Qed.

Theorem C08_sym_hassanat : (forall x y, length x = length y -> sp_hassanat x y = sp_hassanat y x)%R.
Proof. exact sym_hassanat. Qed.

Theorem C08_sym_hellinger : (forall x y, length x = length y -> sp_hellinger x y = sp_hellinger y x)%R.
Proof. exact sym_hellinger. Qed.

Theorem C08_sym_jaccard : (forall x y, length x = length y -> sp_jaccard x y = sp_jaccard y x)%R.
Proof. exact sym_jaccard. Qed.

Theorem C08_sym_jeffreys : (forall x y, length x = length y -> sp_jeffreys x y = sp_jeffreys y x)%R.
Proof. exact sym_jeffreys. Qed.

Theorem C08_sym_jensen : (forall x y, length x = length y -> sp_jensen x y = sp_jensen y x)%R.
Proof. exact sym_jensen. Qed.

Theorem C08_sym_jensen_shannon : (forall x y, length x = length y -> sp_jensen_shannon x y = sp_jensen_shannon y x)%R.
Proof. exact sym_jensen_shannon. Qed.

Theorem C08_sym_kulczynski : (forall x y, length x = length y -> sp_kulczynski x y = sp_kulczynski y x)%R.
Proof. exact sym_kulczynski. Qed.

Theorem C08_sym_log_euclidean : (forall x y, length x = length y -> sp_log_euclidean x y = sp_log_euclidean y x)%R.
Proof. exact sym_log_euclidean. Qed.

Theorem C08_sym_log_squared_euclidean : (forall x y, length x = length y -> sp_log_squared_euclidean x y = sp_log_squared_euclidean y x)%R.
Proof. exact sym_log_squared_euclidean. Qed.

Theorem C08_sym_lorentzian : (forall x y, length x = length y -> sp_lorentzian x y = sp_lorentzian y x)%R.
Proof. exact sym_lorentzian. Qed.

Theorem C08_sym_manhattan : (forall x y, length x = length y -> sp_manhattan x y = sp_manhattan y x)%R.
Proof. exact sym_manhattan. Qed.

Theorem C08_sym_matusita : (forall x y, length x = length y -> sp_matusita x y = sp_matusita y x)%R.
Proof. exact sym_matusita. Qed.

Theorem C08_sym_max_symmetric : (forall x y, length x = length y -> sp_max_symmetric x y = sp_max_symmetric y x)%R.
Proof. exact sym_max_symmetric. Qed.

Theorem C08_sym_mean_censored_euclidean : (forall x y, length x = length y -> sp_mean_censored_euclidean x y = sp_mean_censored_euclidean y x)%R.
Proof. exact sym_mean_censored_euclidean. Qed.

Theorem C08_sym_min_symmetric : (forall x y, length x = length y -> sp_min_symmetric x y = sp_min_symmetric y x)%R.
Proof. exact sym_min_symmetric. Qed.

Theorem C08_sym_non_intersection : (forall x y, length x = length y -> sp_non_intersection x y = sp_non_intersection y x)%R.
Proof. exact sym_non_intersection. Qed.

Theorem C08_sym_sangvi : (forall x y, length x = length y -> sp_sangvi x y = sp_sangvi y x)%R.
Proof. exact sym_sangvi. Qed.

Theorem C08_sym_soergel : (forall x y, length x = length y -> sp_soergel x y = sp_soergel y x)%R.
Proof. exact sym_soergel. Qed.

Theorem C08_sym_squared : (forall x y, length x = length y -> sp_squared x y = sp_squared y x)%R.
Proof. exact sym_squared. Qed.

Theorem C08_sym_squared_chord : (forall x y, length x = length y -> sp_squared_chord x y = sp_squared_chord y x)%R.
Proof. exact sym_squared_chord. Qed.

Theorem C08_sym_squared_euclidean : (forall x y, length x = length y -> sp_squared_euclidean x y = sp_squared_euclidean y x)%R.
Proof. exact sym_squared_euclidean. Qed.

Theorem C08_sym_topsoe : (forall x y, length x = length y -> sp_topsoe x y = sp_topsoe y x)%R.
Proof. exact sym_topsoe. Qed.

Theorem C08_sym_vicis_symmetric1 : (forall x y, length x = length y -> sp_vicis_symmetric1 x y = sp_vicis_symmetric1 y x)%R.
Proof. exact sym_vicis_symmetric1. Qed.

Theorem C08_sym_vicis_symmetric2 : (forall x y, length x = length y -> sp_vicis_symmetric2 x y = sp_vicis_symmetric2 y x)%R.
Proof. exact sym_vicis_symmetric2. Qed.

Theorem C08_sym_vicis_symmetric3 : (forall x y, length x = length y -> sp_vicis_symmetric3 x y = sp_vicis_symmetric3 y x)%R.
Proof. exact sym_vicis_symmetric3. Qed.

Theorem C08_sym_vicis_wave_hedges : (forall x y, length x = length y -> sp_vicis_wave_hedges x y = sp_vicis_wave_hedges y x)%R.
Proof. exact sym_vicis_wave_hedges. Qed.

Theorem C08_not_sym_k_divergence : (exists x y, length x = length y /\ all_pos x /\ all_pos y /\ sum x = 1 /\ sum y = 1 /\ sp_k_divergence x y <> sp_k_divergence y x)%R.
Proof. exact not_sym_k_divergence. Qed.

Theorem C08_not_sym_kullback_leibler : (exists x y, length x = length y /\ all_pos x /\ all_pos y /\ sum x = 1 /\ sum y = 1 /\ sp_kullback_leibler x y <> sp_kullback_leibler y x)%R.
Proof. exact not_sym_kullback_leibler. Qed.

Theorem C08_not_sym_neyman : (exists x y, length x = length y /\ all_pos x /\ all_pos y /\ sp_neyman x y <> sp_neyman y x)%R.
Proof. exact not_sym_neyman. Qed.

Theorem C08_not_sym_pearson : (exists x y, length x = length y /\ all_pos x /\ all_pos y /\ sp_pearson x y <> sp_pearson y x)%R.
Proof. exact not_sym_pearson. Qed.

Theorem C08_not_sym_statistic : (exists x y, length x = length y /\ all_pos x /\ all_pos y /\ sp_statistic x y <> sp_statistic y x)%R.
Proof. exact not_sym_statistic. Qed.

Theorem C08_nonneg_additive_symmetric : (forall x y, length x = length y -> (1 <= length x)%nat -> all_pos x -> all_pos y -> 0 <= sp_additive_symmetric x y)%R.
Proof. exact nonneg_additive_symmetric. Qed.

Theorem C08_nonneg_average_euclidean : (forall x y, length x = length y -> (1 <= length x)%nat -> 0 <= sp_average_euclidean x y)%R.
Proof. exact nonneg_average_euclidean. Qed.

Theorem C08_nonneg_bhattacharyya : (forall x y, length x = length y -> (1 <= length x)%nat -> all_pos x -> all_pos y -> sum x = 1 -> sum y = 1 -> 0 <= sp_bhattacharyya x y)%R.
Proof. exact nonneg_bhattacharyya. Qed.

Theorem C08_nonneg_bray_curtis : (forall x y, length x = length y -> (1 <= length x)%nat -> all_pos x -> all_pos y -> 0 <= sp_bray_curtis x y)%R.
Proof. exact nonneg_bray_curtis. Qed.

Theorem C08_nonneg_canberra : (forall x y, length x = length y -> (1 <= length x)%nat -> 0 <= sp_canberra x y)%R.
Proof. exact nonneg_canberra. Qed.

Theorem C08_nonneg_chebyshev : (forall x y, length x = length y -> (1 <= length x)%nat -> 0 <= sp_chebyshev x y)%R.
Proof. exact nonneg_chebyshev. Qed.

Theorem C08_nonneg_chi_squared : (forall x y, length x = length y -> (1 <= length x)%nat -> all_pos x -> all_pos y -> 0 <= sp_chi_squared x y)%R.
Proof. exact nonneg_chi_squared. Qed.

Theorem C08_nonneg_chord : (forall x y, length x = length y -> (1 <= length x)%nat -> 0 <= sp_chord x y)%R.
Proof. exact nonneg_chord. Qed.

Theorem C08_nonneg_clark : (forall x y, length x = length y -> (1 <= length x)%nat -> 0 <= sp_clark x y)%R.
Proof. exact nonneg_clark. Qed.

Theorem C08_nonneg_cosine : (forall x y, length x = length y -> (1 <= length x)%nat -> 0 <= sp_cosine x y)%R.
Proof. exact nonneg_cosine. Qed.

Theorem C08_nonneg_dice : (forall x y, length x = length y -> (1 <= length x)%nat -> 0 <= sp_dice x y)%R.
Proof. exact nonneg_dice. Qed.

Theorem C08_nonneg_divergence : (forall x y, length x = length y -> (1 <= length x)%nat -> all_pos x -> all_pos y -> 0 <= sp_divergence x y)%R.
Proof. exact nonneg_divergence. Qed.

Theorem C08_nonneg_euclidean : (forall x y, length x = length y -> (1 <= length x)%nat -> 0 <= sp_euclidean x y)%R.
Proof. exact nonneg_euclidean. Qed.

Theorem C08_nonneg_gower : (forall x y, length x = length y -> (1 <= length x)%nat -> 0 <= sp_gower x y)%R.
Proof. exact nonneg_gower. Qed.

Theorem C08_nonneg_hamming : (forall x y, length x = length y -> (1 <= length x)%nat -> 0 <= sp_hamming x y)%R.
Proof. exact nonneg_hamming. Qed.

Theorem C08_nonneg_hassanat : (forall x y, length x = length y -> (1 <= length x)%nat -> 0 <= sp_hassanat x y)%R.
Proof. exact nonneg_hassanat. Qed.

Theorem C08_nonneg_hellinger : (forall x y, length x = length y -> (1 <= length x)%nat -> 0 <= sp_hellinger x y)%R.
Proof. exact nonneg_hellinger. Qed.

Theorem C08_nonneg_jaccard : (forall x y, length x = length y -> (1 <= length x)%nat -> 0 <= sp_jaccard x y)%R.
Proof. exact nonneg_jaccard. Qed.

Theorem C08_nonneg_jeffreys : (forall x y, length x = length y -> (1 <= length x)%nat -> all_pos x -> all_pos y -> 0 <= sp_jeffreys x y)%R.
Proof. exact nonneg_jeffreys. Qed.

Theorem C08_nonneg_jensen : (forall x y, length x = length y -> (1 <= length x)%nat -> all_pos x -> all_pos y -> 0 <= sp_jensen x y)%R.
Proof. exact nonneg_jensen. Qed.

Theorem C08_nonneg_jensen_shannon : (forall x y, length x = length y -> (1 <= length x)%nat -> all_pos x -> all_pos y -> 0 <= sp_jensen_shannon x y)%R.
Proof. exact nonneg_jensen_shannon. Qed.

Theorem C08_nonneg_k_divergence : (forall x y, length x = length y -> (1 <= length x)%nat -> all_pos x -> all_pos y -> sum x = sum y -> 0 <= sp_k_divergence x y)%R.
Proof. exact nonneg_k_divergence. Qed.

Theorem C08_nonneg_kulczynski : (forall x y, length x = length y -> (1 <= length x)%nat -> all_pos x -> all_pos y -> 0 <= sp_kulczynski x y)%R.
Proof. exact nonneg_kulczynski. Qed.

Theorem C08_nonneg_kullback_leibler : (forall x y, length x = length y -> (1 <= length x)%nat -> all_pos x -> all_pos y -> sum x = sum y -> 0 <= sp_kullback_leibler x y)%R.
Proof. exact nonneg_kullback_leibler. Qed.

Theorem C08_nonneg_log_euclidean : (forall x y, length x = length y -> (1 <= length x)%nat -> 0 <= sp_log_euclidean x y)%R.
Proof. exact nonneg_log_euclidean. Qed.

Theorem C08_nonneg_log_squared_euclidean : (forall x y, length x = length y -> (1 <= length x)%nat -> 0 <= sp_log_squared_euclidean x y)%R.
Proof. exact nonneg_log_squared_euclidean. Qed.

Theorem C08_nonneg_lorentzian : (forall x y, length x = length y -> (1 <= length x)%nat -> 0 <= sp_lorentzian x y)%R.
Proof. exact nonneg_lorentzian. Qed.

Theorem C08_nonneg_manhattan : (forall x y, length x = length y -> (1 <= length x)%nat -> 0 <= sp_manhattan x y)%R.
Proof. exact nonneg_manhattan. Qed.

Theorem C08_nonneg_matusita : (forall x y, length x = length y -> (1 <= length x)%nat -> 0 <= sp_matusita x y)%R.
Proof. exact nonneg_matusita. Qed.

Theorem C08_nonneg_max_symmetric : (forall x y, length x = length y -> (1 <= length x)%nat -> all_pos x -> all_pos y -> 0 <= sp_max_symmetric x y)%R.
Proof. exact nonneg_max_symmetric. Qed.

Theorem C08_nonneg_mean_censored_euclidean : (forall x y, length x = length y -> (1 <= length x)%nat -> 0 <= sp_mean_censored_euclidean x y)%R.
Proof. exact nonneg_mean_censored_euclidean. Qed.

Theorem C08_nonneg_min_symmetric : (forall x y, length x = length y -> (1 <= length x)%nat -> all_pos x -> all_pos y -> 0 <= sp_min_symmetric x y)%R.
Proof. exact nonneg_min_symmetric. Qed.

Theorem C08_nonneg_neyman : (forall x y, length x = length y -> (1 <= length x)%nat -> all_pos x -> all_pos y -> 0 <= sp_neyman x y)%R.
Proof. exact nonneg_neyman. Qed.

Theorem C08_nonneg_non_intersection : (forall x y, length x = length y -> (1 <= length x)%nat -> 0 <= sp_non_intersection x y)%R.
Proof. exact nonneg_non_intersection. Qed.

Theorem C08_nonneg_pearson : (forall x y, length x = length y -> (1 <= length x)%nat -> all_pos x -> all_pos y -> 0 <= sp_pearson x y)%R.
Proof. exact nonneg_pearson. Qed.

Theorem C08_nonneg_sangvi : (forall x y, length x = length y -> (1 <= length x)%nat -> all_pos x -> all_pos y -> 0 <= sp_sangvi x y)%R.
Proof. exact nonneg_sangvi. Qed.

Theorem C08_nonneg_soergel : (forall x y, length x = length y -> (1 <= length x)%nat -> all_pos x -> all_pos y -> 0 <= sp_soergel x y)%R.
Proof. exact nonneg_soergel. Qed.

Theorem C08_nonneg_squared : (forall x y, length x = length y -> (1 <= length x)%nat -> all_pos x -> all_pos y -> 0 <= sp_squared x y)%R.
Proof. exact nonneg_squared. Qed.

Theorem C08_nonneg_squared_chord : (forall x y, length x = length y -> (1 <= length x)%nat -> 0 <= sp_squared_chord x y)%R.
Proof. exact nonneg_squared_chord. Qed.

Theorem C08_nonneg_squared_euclidean : (forall x y, length x = length y -> (1 <= length x)%nat -> 0 <= sp_squared_euclidean x y)%R.
Proof. exact nonneg_squared_euclidean. Qed.

Theorem C08_nonneg_topsoe : (forall x y, length x = length y -> (1 <= length x)%nat -> all_pos x -> all_pos y -> 0 <= sp_topsoe x y)%R.
Proof. exact nonneg_topsoe. Qed.

Theorem C08_nonneg_vicis_symmetric1 : (forall x y, length x = length y -> (1 <= length x)%nat -> all_pos x -> all_pos y -> 0 <= sp_vicis_symmetric1 x y)%R.
Proof. exact nonneg_vicis_symmetric1. Qed.

Theorem C08_nonneg_vicis_symmetric2 : (forall x y, length x = length y -> (1 <= length x)%nat -> all_pos x -> all_pos y -> 0 <= sp_vicis_symmetric2 x y)%R.
Proof. exact nonneg_vicis_symmetric2. Qed.

Theorem C08_nonneg_vicis_symmetric3 : (forall x y, length x = length y -> (1 <= length x)%nat -> all_pos x -> all_pos y -> 0 <= sp_vicis_symmetric3 x y)%R.
Proof. exact nonneg_vicis_symmetric3. Qed.

Theorem C08_nonneg_vicis_wave_hedges : (forall x y, length x = length y -> (1 <= length x)%nat -> all_pos x -> all_pos y -> 0 <= sp_vicis_wave_hedges x y)%R.
Proof. exact nonneg_vicis_wave_hedges. Qed.

Theorem C08_zero_self_additive_symmetric : (forall x, (1 <= length x)%nat -> sp_additive_symmetric x x = 0)%R.
Proof. exact zero_self_additive_symmetric. Qed.

Theorem C08_zero_self_average_euclidean : (forall x, (1 <= length x)%nat -> sp_average_euclidean x x = 0)%R.
Proof. exact zero_self_average_euclidean. Qed.

Theorem C08_zero_self_bhattacharyya : (forall x, (1 <= length x)%nat -> all_pos x -> sum x = 1 -> sp_bhattacharyya x x = 0)%R.
Proof. exact zero_self_bhattacharyya. Qed.

Theorem C08_zero_self_bray_curtis : (forall x, (1 <= length x)%nat -> sp_bray_curtis x x = 0)%R.
Proof. exact zero_self_bray_curtis. Qed.

Theorem C08_zero_self_canberra : (forall x, (1 <= length x)%nat -> sp_canberra x x = 0)%R.
Proof. exact zero_self_canberra. Qed.

Theorem C08_zero_self_chebyshev : (forall x, (1 <= length x)%nat -> sp_chebyshev x x = 0)%R.
Proof. exact zero_self_chebyshev. Qed.

Theorem C08_zero_self_chi_squared : (forall x, (1 <= length x)%nat -> sp_chi_squared x x = 0)%R.
Proof. exact zero_self_chi_squared. Qed.

Theorem C08_zero_self_chord : (forall x, (1 <= length x)%nat -> all_pos x -> sp_chord x x = 0)%R.
Proof. exact zero_self_chord. Qed.

Theorem C08_zero_self_clark : (forall x, (1 <= length x)%nat -> sp_clark x x = 0)%R.
Proof. exact zero_self_clark. Qed.

Theorem C08_zero_self_cosine : (forall x, (1 <= length x)%nat -> all_pos x -> sp_cosine x x = 0)%R.
Proof. exact zero_self_cosine. Qed.

Theorem C08_zero_self_dice : (forall x, (1 <= length x)%nat -> all_pos x -> sp_dice x x = 0)%R.
Proof. exact zero_self_dice. Qed.

Theorem C08_zero_self_divergence : (forall x, (1 <= length x)%nat -> sp_divergence x x = 0)%R.
Proof. exact zero_self_divergence. Qed.

Theorem C08_zero_self_euclidean : (forall x, (1 <= length x)%nat -> sp_euclidean x x = 0)%R.
Proof. exact zero_self_euclidean. Qed.

Theorem C08_zero_self_gower : (forall x, (1 <= length x)%nat -> sp_gower x x = 0)%R.
Proof. exact zero_self_gower. Qed.

Theorem C08_zero_self_hamming : (forall x, (1 <= length x)%nat -> sp_hamming x x = 0)%R.
Proof. exact zero_self_hamming. Qed.

Theorem C08_zero_self_hassanat : (forall x, (1 <= length x)%nat -> sp_hassanat x x = 0)%R.
Proof. exact zero_self_hassanat. Qed.

Theorem C08_zero_self_hellinger : (forall x, (1 <= length x)%nat -> sp_hellinger x x = 0)%R.
Proof. exact zero_self_hellinger. Qed.

Theorem C08_zero_self_jaccard : (forall x, (1 <= length x)%nat -> sp_jaccard x x = 0)%R.
Proof. exact zero_self_jaccard. Qed.

Theorem C08_zero_self_jeffreys : (forall x, (1 <= length x)%nat -> sp_jeffreys x x = 0)%R.
Proof. exact zero_self_jeffreys. Qed.

Theorem C08_zero_self_jensen : (forall x, (1 <= length x)%nat -> sp_jensen x x = 0)%R.
Proof. exact zero_self_jensen. Qed.

Theorem C08_zero_self_jensen_shannon : (forall x, (1 <= length x)%nat -> sp_jensen_shannon x x = 0)%R.
Proof. exact zero_self_jensen_shannon. Qed.

Theorem C08_zero_self_k_divergence : (forall x, (1 <= length x)%nat -> sp_k_divergence x x = 0)%R.
Proof. exact zero_self_k_divergence. Qed.

Theorem C08_zero_self_kulczynski : (forall x, (1 <= length x)%nat -> sp_kulczynski x x = 0)%R.
Proof. exact zero_self_kulczynski. Qed.

Theorem C08_zero_self_kullback_leibler : (forall x, (1 <= length x)%nat -> sp_kullback_leibler x x = 0)%R.
Proof. exact zero_self_kullback_leibler. Qed.

Theorem C08_zero_self_log_euclidean : (forall x, (1 <= length x)%nat -> sp_log_euclidean x x = 0)%R.
Proof. exact zero_self_log_euclidean. Qed.

Theorem C08_zero_self_log_squared_euclidean : (forall x, (1 <= length x)%nat -> sp_log_squared_euclidean x x = 0)%R.
Proof. exact zero_self_log_squared_euclidean. Qed.

Theorem C08_zero_self_lorentzian : (forall x, (1 <= length x)%nat -> sp_lorentzian x x = 0)%R.
Proof. exact zero_self_lorentzian. Qed.

Theorem C08_zero_self_manhattan : (forall x, (1 <= length x)%nat -> sp_manhattan x x = 0)%R.
Proof. exact zero_self_manhattan. Qed.

Theorem C08_zero_self_matusita : (forall x, (1 <= length x)%nat -> sp_matusita x x = 0)%R.
Proof. exact zero_self_matusita. Qed.

Theorem C08_zero_self_max_symmetric : (forall x, (1 <= length x)%nat -> sp_max_symmetric x x = 0)%R.
Proof. exact zero_self_max_symmetric. Qed.

Theorem C08_zero_self_mean_censored_euclidean : (forall x, (1 <= length x)%nat -> sp_mean_censored_euclidean x x = 0)%R.
Proof. exact zero_self_mean_censored_euclidean. Qed.

Theorem C08_zero_self_min_symmetric : (forall x, (1 <= length x)%nat -> sp_min_symmetric x x = 0)%R.
Proof. exact zero_self_min_symmetric. Qed.

Theorem C08_zero_self_neyman : (forall x, (1 <= length x)%nat -> sp_neyman x x = 0)%R.
Proof. exact zero_self_neyman. Qed.

Theorem C08_zero_self_non_intersection : (forall x, (1 <= length x)%nat -> sp_non_intersection x x = 0)%R.
Proof. exact zero_self_non_intersection. Qed.

Theorem C08_zero_self_pearson : (forall x, (1 <= length x)%nat -> sp_pearson x x = 0)%R.
Proof. exact zero_self_pearson. Qed.

Theorem C08_zero_self_sangvi : (forall x, (1 <= length x)%nat -> sp_sangvi x x = 0)%R.
Proof. exact zero_self_sangvi. Qed.

Theorem C08_zero_self_soergel : (forall x, (1 <= length x)%nat -> sp_soergel x x = 0)%R.
Proof. exact zero_self_soergel. Qed.

Theorem C08_zero_self_squared : (forall x, (1 <= length x)%nat -> sp_squared x x = 0)%R.
Proof. exact zero_self_squared. Qed.

Theorem C08_zero_self_squared_chord : (forall x, (1 <= length x)%nat -> sp_squared_chord x x = 0)%R.
Proof. exact zero_self_squared_chord. Qed.

Theorem C08_zero_self_squared_euclidean : (forall x, (1 <= length x)%nat -> sp_squared_euclidean x x = 0)%R.
Proof. exact zero_self_squared_euclidean. Qed.

Theorem C08_zero_self_topsoe : (forall x, (1 <= length x)%nat -> sp_topsoe x x = 0)%R.
Proof. exact zero_self_topsoe. Qed.

Theorem C08_zero_self_vicis_symmetric1 : (forall x, (1 <= length x)%nat -> sp_vicis_symmetric1 x x = 0)%R.
Proof. exact zero_self_vicis_symmetric1. Qed.

Theorem C08_zero_self_vicis_symmetric2 : (forall x, (1 <= length x)%nat -> sp_vicis_symmetric2 x x = 0)%R.
Proof. exact zero_self_vicis_symmetric2. Qed.

Theorem C08_zero_self_vicis_symmetric3 : (forall x, (1 <= length x)%nat -> sp_vicis_symmetric3 x x = 0)%R.
Proof. exact zero_self_vicis_symmetric3. Qed.

Theorem C08_zero_self_vicis_wave_hedges : (forall x, (1 <= length x)%nat -> sp_vicis_wave_hedges x x = 0)%R.
Proof. exact zero_self_vicis_wave_hedges. Qed.

Theorem C08_bhattacharyya_needs_unit_sum : (exists x, all_pos x /\ sp_bhattacharyya x x < 0)%R.
Proof. exact bhattacharyya_needs_unit_sum. Qed.

Theorem C08_gaussian_le_1 : (forall g x y, 0 <= g -> sp_gaussian g x y <= 1)%R.
Proof. exact gaussian_le_1. Qed.

Theorem C08_gaussian_pos : (forall g x y, 0 < sp_gaussian g x y)%R.
Proof. exact gaussian_pos. Qed.

Theorem C08_gaussian_self : (forall g x, sp_gaussian g x x = 1)%R.
Proof. exact gaussian_self. Qed.
