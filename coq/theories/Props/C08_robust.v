(* C08 (robustness part): the 47 distance functions never take the square root of a negative number,
   the logarithm of a non-positive number or divide by zero on their domains, WHATEVER the rounding does.

   [metric_rnd rnd m x y] (Model/MetricRnd.v) evaluates the generated term [m] with [rnd] applied after
   every arithmetic operation (each partial sum of np.sum included; the decorator's `+ EPSILON` too)
   and is [None] exactly when such an undefined operation is met.  [rounding rnd] is the rounding model:
   monotone, rnd 0 = 0, strict sign preserved (no underflow to 0; overflow outside the model).
   [robust_check c m] is the sign-class abstract interpreter; the class [c] is the class of the user's
   vectors (real -> Any, nonneg -> NonNeg, pos/prob -> Pos: harness/axiom_table.py).

   Covered: 44 of 47 by the generic checker, on the table's domain (the decorated ones even on
   non-negative user vectors).  NOT covered on the table's domain:
     jaccard                  (divisor is a rounded subtraction; C08_robust_jaccard_model_limit)
     mean_censored_euclidean  (real domain: divides by count_nonzero(x + y != 0), which can be 0;
                               C08_robust_mean_censored_refuted; covered on non-negative vectors)
     hassanat                 (real domain: 1 + max + |min| can round to 0;
                               C08_robust_hassanat_model_limit; covered on non-negative vectors) *)
From Coq Require Import Reals QArith String List Bool.
From OPF Require Import Spec.MetricSpec Model.MetricIR Gen.Metrics_gen Model.MetricRnd
     Proofs.RobustSign Proofs.RobustSignTable Proofs.RobustSignNeg.
Import ListNotations.
Open Scope string_scope.
Open Scope R_scope.

Theorem C08_robust_sound :
  forall (c : cls) (m : metric_ir),
    robust_check c m = true ->
    forall rnd, rounding rnd ->
    forall x y, length x = length y -> (1 <= length x)%nat ->
                Forall (in_cls c) x -> Forall (in_cls c) y ->
    metric_rnd rnd m x y <> None
    /\ exists c' r, robust_class c m = Some c' /\ metric_rnd rnd m x y = Some r /\ in_cls c' r.
Proof. exact robust_check_sound. Qed.

Theorem C08_robust_defined :
  forallb robust_check_name
    [("additive_symmetric_distance", Pos);
     ("average_euclidean_distance", Any);
     ("bhattacharyya_distance", Pos);
     ("bray_curtis_distance", Pos);
     ("canberra_distance", Pos);
     ("chebyshev_distance", Any);
     ("chi_squared_distance", Pos);
     ("chord_distance", Pos);
     ("clark_distance", Pos);
     ("cosine_distance", Pos);
     ("dice_distance", Pos);
     ("divergence_distance", Pos);
     ("euclidean_distance", Any);
     ("gaussian_distance", Any);
     ("gower_distance", Any);
     ("hamming_distance", Any);
     ("hellinger_distance", NonNeg);
     ("jeffreys_distance", Pos);
     ("jensen_distance", Pos);
     ("jensen_shannon_distance", Pos);
     ("k_divergence_distance", Pos);
     ("kulczynski_distance", Pos);
     ("kullback_leibler_distance", Pos);
     ("log_euclidean_distance", Any);
     ("log_squared_euclidean_distance", Any);
     ("lorentzian_distance", Any);
     ("manhattan_distance", Any);
     ("matusita_distance", NonNeg);
     ("max_symmetric_distance", Pos);
     ("min_symmetric_distance", Pos);
     ("neyman_distance", Pos);
     ("non_intersection_distance", Any);
     ("pearson_distance", Pos);
     ("sangvi_distance", Pos);
     ("soergel_distance", Pos);
     ("squared_distance", Pos);
     ("squared_chord_distance", NonNeg);
     ("squared_euclidean_distance", Any);
     ("statistic_distance", Pos);
     ("topsoe_distance", Pos);
     ("vicis_symmetric1_distance", Pos);
     ("vicis_symmetric2_distance", Pos);
     ("vicis_symmetric3_distance", Pos);
     ("vicis_wave_hedges_distance", Pos)] = true
  /\ forallb robust_check_name
    [("additive_symmetric_distance", NonNeg);
     ("average_euclidean_distance", Any);
     ("bhattacharyya_distance", NonNeg);
     ("bray_curtis_distance", NonNeg);
     ("canberra_distance", NonNeg);
     ("chebyshev_distance", Any);
     ("chi_squared_distance", NonNeg);
     ("chord_distance", NonNeg);
     ("clark_distance", NonNeg);
     ("cosine_distance", NonNeg);
     ("dice_distance", NonNeg);
     ("divergence_distance", NonNeg);
     ("euclidean_distance", Any);
     ("gaussian_distance", Any);
     ("gower_distance", Any);
     ("hamming_distance", Any);
     ("hellinger_distance", NonNeg);
     ("jeffreys_distance", NonNeg);
     ("jensen_distance", NonNeg);
     ("jensen_shannon_distance", NonNeg);
     ("k_divergence_distance", NonNeg);
     ("kulczynski_distance", NonNeg);
     ("kullback_leibler_distance", NonNeg);
     ("log_euclidean_distance", Any);
     ("log_squared_euclidean_distance", Any);
     ("lorentzian_distance", Any);
     ("manhattan_distance", Any);
     ("matusita_distance", NonNeg);
     ("max_symmetric_distance", NonNeg);
     ("min_symmetric_distance", NonNeg);
     ("neyman_distance", NonNeg);
     ("non_intersection_distance", Any);
     ("pearson_distance", NonNeg);
     ("sangvi_distance", NonNeg);
     ("soergel_distance", NonNeg);
     ("squared_distance", NonNeg);
     ("squared_chord_distance", NonNeg);
     ("squared_euclidean_distance", Any);
     ("statistic_distance", NonNeg);
     ("topsoe_distance", NonNeg);
     ("vicis_symmetric1_distance", NonNeg);
     ("vicis_symmetric2_distance", NonNeg);
     ("vicis_symmetric3_distance", NonNeg);
     ("vicis_wave_hedges_distance", NonNeg)] = true
  /\ (forall rnd, rounding rnd -> forall x y, length x = length y -> (1 <= length x)%nat -> all_nonneg x -> all_nonneg y -> metric_rnd rnd ir_additive_symmetric x y <> None)
  /\ (forall rnd, rounding rnd -> forall x y, length x = length y -> (1 <= length x)%nat -> metric_rnd rnd ir_average_euclidean x y <> None)
  /\ (forall rnd, rounding rnd -> forall x y, length x = length y -> (1 <= length x)%nat -> all_nonneg x -> all_nonneg y -> metric_rnd rnd ir_bhattacharyya x y <> None)
  /\ (forall rnd, rounding rnd -> forall x y, length x = length y -> (1 <= length x)%nat -> all_nonneg x -> all_nonneg y -> metric_rnd rnd ir_bray_curtis x y <> None)
  /\ (forall rnd, rounding rnd -> forall x y, length x = length y -> (1 <= length x)%nat -> all_nonneg x -> all_nonneg y -> metric_rnd rnd ir_canberra x y <> None)
  /\ (forall rnd, rounding rnd -> forall x y, length x = length y -> (1 <= length x)%nat -> metric_rnd rnd ir_chebyshev x y <> None)
  /\ (forall rnd, rounding rnd -> forall x y, length x = length y -> (1 <= length x)%nat -> all_nonneg x -> all_nonneg y -> metric_rnd rnd ir_chi_squared x y <> None)
  /\ (forall rnd, rounding rnd -> forall x y, length x = length y -> (1 <= length x)%nat -> all_nonneg x -> all_nonneg y -> metric_rnd rnd ir_chord x y <> None)
  /\ (forall rnd, rounding rnd -> forall x y, length x = length y -> (1 <= length x)%nat -> all_nonneg x -> all_nonneg y -> metric_rnd rnd ir_clark x y <> None)
  /\ (forall rnd, rounding rnd -> forall x y, length x = length y -> (1 <= length x)%nat -> all_nonneg x -> all_nonneg y -> metric_rnd rnd ir_cosine x y <> None)
  /\ (forall rnd, rounding rnd -> forall x y, length x = length y -> (1 <= length x)%nat -> all_nonneg x -> all_nonneg y -> metric_rnd rnd ir_dice x y <> None)
  /\ (forall rnd, rounding rnd -> forall x y, length x = length y -> (1 <= length x)%nat -> all_nonneg x -> all_nonneg y -> metric_rnd rnd ir_divergence x y <> None)
  /\ (forall rnd, rounding rnd -> forall x y, length x = length y -> (1 <= length x)%nat -> metric_rnd rnd ir_euclidean x y <> None)
  /\ (forall rnd, rounding rnd -> forall x y, length x = length y -> (1 <= length x)%nat -> metric_rnd rnd ir_gaussian x y <> None)
  /\ (forall rnd, rounding rnd -> forall x y, length x = length y -> (1 <= length x)%nat -> metric_rnd rnd ir_gower x y <> None)
  /\ (forall rnd, rounding rnd -> forall x y, length x = length y -> (1 <= length x)%nat -> metric_rnd rnd ir_hamming x y <> None)
  /\ (forall rnd, rounding rnd -> forall x y, length x = length y -> (1 <= length x)%nat -> all_nonneg x -> all_nonneg y -> metric_rnd rnd ir_hellinger x y <> None)
  /\ (forall rnd, rounding rnd -> forall x y, length x = length y -> (1 <= length x)%nat -> all_nonneg x -> all_nonneg y -> metric_rnd rnd ir_jeffreys x y <> None)
  /\ (forall rnd, rounding rnd -> forall x y, length x = length y -> (1 <= length x)%nat -> all_nonneg x -> all_nonneg y -> metric_rnd rnd ir_jensen x y <> None)
  /\ (forall rnd, rounding rnd -> forall x y, length x = length y -> (1 <= length x)%nat -> all_nonneg x -> all_nonneg y -> metric_rnd rnd ir_jensen_shannon x y <> None)
  /\ (forall rnd, rounding rnd -> forall x y, length x = length y -> (1 <= length x)%nat -> all_nonneg x -> all_nonneg y -> metric_rnd rnd ir_k_divergence x y <> None)
  /\ (forall rnd, rounding rnd -> forall x y, length x = length y -> (1 <= length x)%nat -> all_nonneg x -> all_nonneg y -> metric_rnd rnd ir_kulczynski x y <> None)
  /\ (forall rnd, rounding rnd -> forall x y, length x = length y -> (1 <= length x)%nat -> all_nonneg x -> all_nonneg y -> metric_rnd rnd ir_kullback_leibler x y <> None)
  /\ (forall rnd, rounding rnd -> forall x y, length x = length y -> (1 <= length x)%nat -> metric_rnd rnd ir_log_euclidean x y <> None)
  /\ (forall rnd, rounding rnd -> forall x y, length x = length y -> (1 <= length x)%nat -> metric_rnd rnd ir_log_squared_euclidean x y <> None)
  /\ (forall rnd, rounding rnd -> forall x y, length x = length y -> (1 <= length x)%nat -> metric_rnd rnd ir_lorentzian x y <> None)
  /\ (forall rnd, rounding rnd -> forall x y, length x = length y -> (1 <= length x)%nat -> metric_rnd rnd ir_manhattan x y <> None)
  /\ (forall rnd, rounding rnd -> forall x y, length x = length y -> (1 <= length x)%nat -> all_nonneg x -> all_nonneg y -> metric_rnd rnd ir_matusita x y <> None)
  /\ (forall rnd, rounding rnd -> forall x y, length x = length y -> (1 <= length x)%nat -> all_nonneg x -> all_nonneg y -> metric_rnd rnd ir_max_symmetric x y <> None)
  /\ (forall rnd, rounding rnd -> forall x y, length x = length y -> (1 <= length x)%nat -> all_nonneg x -> all_nonneg y -> metric_rnd rnd ir_min_symmetric x y <> None)
  /\ (forall rnd, rounding rnd -> forall x y, length x = length y -> (1 <= length x)%nat -> all_nonneg x -> all_nonneg y -> metric_rnd rnd ir_neyman x y <> None)
  /\ (forall rnd, rounding rnd -> forall x y, length x = length y -> (1 <= length x)%nat -> metric_rnd rnd ir_non_intersection x y <> None)
  /\ (forall rnd, rounding rnd -> forall x y, length x = length y -> (1 <= length x)%nat -> all_nonneg x -> all_nonneg y -> metric_rnd rnd ir_pearson x y <> None)
  /\ (forall rnd, rounding rnd -> forall x y, length x = length y -> (1 <= length x)%nat -> all_nonneg x -> all_nonneg y -> metric_rnd rnd ir_sangvi x y <> None)
  /\ (forall rnd, rounding rnd -> forall x y, length x = length y -> (1 <= length x)%nat -> all_nonneg x -> all_nonneg y -> metric_rnd rnd ir_soergel x y <> None)
  /\ (forall rnd, rounding rnd -> forall x y, length x = length y -> (1 <= length x)%nat -> all_nonneg x -> all_nonneg y -> metric_rnd rnd ir_squared x y <> None)
  /\ (forall rnd, rounding rnd -> forall x y, length x = length y -> (1 <= length x)%nat -> all_nonneg x -> all_nonneg y -> metric_rnd rnd ir_squared_chord x y <> None)
  /\ (forall rnd, rounding rnd -> forall x y, length x = length y -> (1 <= length x)%nat -> metric_rnd rnd ir_squared_euclidean x y <> None)
  /\ (forall rnd, rounding rnd -> forall x y, length x = length y -> (1 <= length x)%nat -> all_nonneg x -> all_nonneg y -> metric_rnd rnd ir_statistic x y <> None)
  /\ (forall rnd, rounding rnd -> forall x y, length x = length y -> (1 <= length x)%nat -> all_nonneg x -> all_nonneg y -> metric_rnd rnd ir_topsoe x y <> None)
  /\ (forall rnd, rounding rnd -> forall x y, length x = length y -> (1 <= length x)%nat -> all_nonneg x -> all_nonneg y -> metric_rnd rnd ir_vicis_symmetric1 x y <> None)
  /\ (forall rnd, rounding rnd -> forall x y, length x = length y -> (1 <= length x)%nat -> all_nonneg x -> all_nonneg y -> metric_rnd rnd ir_vicis_symmetric2 x y <> None)
  /\ (forall rnd, rounding rnd -> forall x y, length x = length y -> (1 <= length x)%nat -> all_nonneg x -> all_nonneg y -> metric_rnd rnd ir_vicis_symmetric3 x y <> None)
  /\ (forall rnd, rounding rnd -> forall x y, length x = length y -> (1 <= length x)%nat -> all_nonneg x -> all_nonneg y -> metric_rnd rnd ir_vicis_wave_hedges x y <> None).
Proof. exact (conj robust_defined_all (conj robust_defined_all_user robust_sound_all)). Qed.

(* negative control: the pre-fix chord body sqrt (2 - 2 * r) is rejected; the clamped one is accepted;
   and an admissible rounding makes the pre-fix body take the square root of a negative number *)
Example C08_robust_chord_control :
  robust_check Pos
    {| m_name := "chord_distance"; m_avoid_zero := true; m_njit := true;
       m_params := [("x", None); ("y", None)];
       m_body :=
         SPowC (SBin BSub (SConstQ (2 # 1))
                  (SBin BMul (SConstQ (2 # 1))
                     (SBin BDiv (SSum (VBin BMul VX VY))
                        (SBin BMul (SPowC (SSum (VPowC VX PTwo)) PHalf)
                                   (SPowC (SSum (VPowC VY PTwo)) PHalf))))) PHalf |} = false
  /\ robust_check Pos ir_chord = true
  /\ exists rnd, rounding rnd /\ all_pos [3] /\
       metric_rnd rnd
         {| m_name := "chord_distance"; m_avoid_zero := true; m_njit := true;
            m_params := [("x", None); ("y", None)];
            m_body :=
              SPowC (SBin BSub (SConstQ (2 # 1))
                       (SBin BMul (SConstQ (2 # 1))
                          (SBin BDiv (SSum (VBin BMul VX VY))
                             (SBin BMul (SPowC (SSum (VPowC VX PTwo)) PHalf)
                                        (SPowC (SSum (VPowC VY PTwo)) PHalf))))) PHalf |} [3] [3] = None.
Proof.
  exact (conj (proj1 old_chord_rejected)
              (conj robust_defined_tbl_chord (ex_intro _ rndP old_chord_refuted))).
Qed.

(* the three entries of the table that the generic checker rejects *)
Theorem C08_robust_rejected :
  map robust_check_name
      [("hassanat_distance", Any); ("jaccard_distance", Pos); ("mean_censored_euclidean_distance", Any)]
  = [false; false; false].
Proof. exact robust_rejected. Qed.

(* mean_censored_euclidean on the real domain divides by zero already in exact arithmetic *)
Theorem C08_robust_mean_censored_refuted :
  rounding (fun a : R => a)
  /\ metric_rnd (fun a : R => a) ir_mean_censored_euclidean [0] [- (2 * EPSILON)] = None.
Proof. exact mean_censored_refuted. Qed.

(* ... and is defined on non-negative user vectors (checker with the count rule) *)
Theorem C08_robust_mean_censored_nonneg :
  robust_check_cnt NonNeg ir_mean_censored_euclidean = true
  /\ (forall rnd, rounding rnd -> forall x y, length x = length y -> (1 <= length x)%nat ->
       all_nonneg x -> all_nonneg y -> metric_rnd rnd ir_mean_censored_euclidean x y <> None).
Proof. exact (conj robust_defined_cnt_mean_censored_euclidean robust_sound_mean_censored_euclidean_nonneg). Qed.

(* hassanat: defined on non-negative user vectors; on the real domain the rounding model does not
   determine the sign of 1 + max + |min| *)
Theorem C08_robust_hassanat_nonneg :
  robust_check NonNeg ir_hassanat = true
  /\ (forall rnd, rounding rnd -> forall x y, length x = length y -> (1 <= length x)%nat ->
       all_nonneg x -> all_nonneg y -> metric_rnd rnd ir_hassanat x y <> None).
Proof. exact (conj robust_defined_hassanat_nonneg robust_sound_hassanat_nonneg). Qed.

Theorem C08_robust_hassanat_model_limit :
  exists rnd, rounding rnd /\ metric_rnd rnd ir_hassanat [- 1 - EPSILON] [- 1 - EPSILON] = None.
Proof. exact hassanat_model_limit. Qed.

(* jaccard: not sign-provable under an arbitrary monotone sign-preserving rounding *)
Theorem C08_robust_jaccard_model_limit :
  exists rnd, rounding rnd /\ all_pos [1] /\ metric_rnd rnd ir_jaccard [1] [1] = None.
Proof. exact jaccard_model_limit. Qed.
