From Coq Require Import List Arith ZArith.
From OPF Require Import Model.Knn Proofs.KnnSort Proofs.KnnBatch.
Import ListNotations.

(* C14, composition of [C14_knn_predict_neighbours] and [C14_knn_pick_argmax] for one query of
   KNNSupervisedOPF.predict / UnsupervisedOPF.predict ([knn_predict_one], fresh neighbours_idx; by
   C09_knn_predict_pointwise this is also every entry of a batch).
   With N = the first k elements of the stable insertion sort by distance of ALL training samples 0..n-1
   (= the min k n nearest w.r.t. the (distance, index) order: NoDup, sorted, and every sample left out is
   lexicographically larger than every one kept), which is what the scan reports in slots 0..min k n - 1,
   and densx = the query density computed from the scan result:
   the label source is N[r] for the FIRST rank r maximising min (cost N[r]) densx over N.
   (k >= 1 and n >= 1 make N non-empty, so a neighbour is always picked.) *)
Theorem C14_knn_predict_rule :
  forall (zero top bot : Z) (g : @knn Z) (k n : nat) (densx_of : list Z -> list nat -> Z) (dist : nat -> Z),
    1 <= k -> 1 <= n ->
    (forall j, j < n -> (dist j < top)%Z) ->
    forall ds ns, knn_scan Z.ltb top k n dist None (repeat 0 (S k)) = (ds, ns) ->
    let densx := densx_of ds ns in
    let val j := Z.min (nth j (k_cost g) zero) densx in
    (forall j, j < n -> (bot < val j)%Z) ->
    let N := firstn k (isort dist (seq 0 n)) in
    length N = Nat.min k n /\
    firstn (Nat.min k n) ns = N /\ firstn (Nat.min k n) ds = map dist N /\
    NoDup N /\ (forall j, In j N -> j < n) /\
    (forall a b, a < b -> b < length N ->
       (dist (nth a N 0%nat) < dist (nth b N 0%nat))%Z \/
       (dist (nth a N 0) = dist (nth b N 0) /\ nth a N 0 < nth b N 0)) /\
    (forall j, j < n -> ~ In j N -> forall a, In a N -> (dist a < dist j)%Z \/ (dist a = dist j /\ a < j)) /\
    exists r, r < length N /\
      knn_predict_one Z.ltb zero top bot g k n densx_of dist = Some (nth r N 0) /\
      (forall r', r' < length N -> (val (nth r' N 0%nat) <= val (nth r N 0%nat))%Z) /\
      (forall r', r' < r -> (val (nth r' N 0%nat) < val (nth r N 0%nat))%Z).
Proof. exact knn_predict_rule. Qed.

Print Assumptions C14_knn_predict_rule.
