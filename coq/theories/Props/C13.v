(* C13: "After KNN-supervised or unsupervised training, predecessor links form a forest over
   all training samples in which every sample reaches exactly one root, its recorded root is
   that root, and its cluster identifier (unsupervised) or assigned label (KNN-supervised)
   equals the root's. Roots have cost equal to their density, every other sample was a graph
   neighbour of its predecessor and has cost min(cost(predecessor), own density) strictly
   above its density minus 1, and no sample's density exceeds its root's by 1 or more. The
   reported number of clusters equals the number of roots, whose identifiers are
   0..n_clusters-1, and label propagation gives every sample the true label of its root."

   Models (Model/Knn.v, executed at W := Z, ltb := Z.ltb):
     [clustering_sup force g]  = KNNSupervisedOPF._clustering(force_prototype)
     [clustering_unsup k g]    = UnsupervisedOPF._clustering(k)
     [propagate_labels g]      = UnsupervisedOPF.propagate_labels
   on a graph [g] with [n] nodes whose per-node arrays have length [n], whose adjacency entries
   are node indices, and whose initial cost lies strictly below the density
   ("density minus 1" is the relation cost = density - 1 of the numeric layer; it is needed
   only for the density-gap theorems).  [zero], [top], [bot] stand for 0.0, FLOAT_MAX,
   -FLOAT_MAX; [bot] only matters for force_prototype = True, where it must lie below every
   initial cost.  "Graph neighbour" = member of the adjacency list the loop iterates over
   (after the plateau step; unsupervised: its first n_plateaus + k entries).
   [before ord p q]: p was removed from the heap before q ([ord] = the part of idx_nodes
   appended by the call, a permutation of 0..n-1). *)
From OPF Require Import Proofs.HeapPrelude Base.Lists Model.Heap Model.Knn Spec.Paths Spec.Trees
  Proofs.ClusterMain.

(* ---------------- KNN-supervised ---------------- *)

(* every sample is removed exactly once *)
Theorem C13_sup_order :
  forall (zero top bot : Z) (force : bool) (g : @knn Z) (n : nat),
    length (k_label g) = n -> length (k_cost g) = n -> length (k_pred g) = n ->
    length (k_root g) = n -> length (k_plabel g) = n -> length (k_clabel g) = n ->
    (forall p q, In q (nth p (k_adj g) []) -> q < n) ->
    (forall i, i < n -> (nth i (k_cost g) zero < nth i (k_dens g) zero)%Z) ->
    (force = true -> forall i, i < n -> (bot < nth i (k_cost g) zero)%Z) ->
    let g' := clustering_sup Z.ltb zero top bot force g in
    exists ord, k_order g' = k_order g ++ ord /\ Permutation ord (seq 0 n).
Proof. exact clustering_sup_order. Qed.

(* local shape: roots and links *)
Theorem C13_sup_links :
  forall (zero top bot : Z) (force : bool) (g : @knn Z) (n : nat),
    length (k_label g) = n -> length (k_cost g) = n -> length (k_pred g) = n ->
    length (k_root g) = n -> length (k_plabel g) = n -> length (k_clabel g) = n ->
    (forall p q, In q (nth p (k_adj g) []) -> q < n) ->
    (forall i, i < n -> (nth i (k_cost g) zero < nth i (k_dens g) zero)%Z) ->
    (force = true -> forall i, i < n -> (bot < nth i (k_cost g) zero)%Z) ->
    let g' := clustering_sup Z.ltb zero top bot force g in
    let pred := fun q => nth q (k_pred g') None in
    let root := fun q => nth q (k_root g') 0 in
    let cost := fun q => nth q (k_cost g') zero in
    let plabel := fun q => nth q (k_plabel g') 0 in
    let dens := fun q => nth q (k_dens g) zero in
    let cost0 := fun q => nth q (k_cost g) zero in
    let label := fun q => nth q (k_label g) 0 in
    k_label g' = k_label g /\ k_dens g' = k_dens g /\
    k_adj g' = plateau_sup Z.ltb zero n (k_dens g) (k_adj g) /\
    exists ord, k_order g' = k_order g ++ ord /\ Permutation ord (seq 0 n) /\
      forall q, q < n ->
        match pred q with
        | None => root q = q /\ cost q = dens q /\ plabel q = label q
        | Some p => p < n /\ before ord p q /\ In q (nth p (k_adj g') []) /\
                    root q = root p /\ cost q = Z.min (cost p) (dens q) /\
                    (cost0 q < cost q)%Z /\ plabel q = plabel p /\
                    (force = true -> label p = label q)
        end.
Proof. exact clustering_sup_links. Qed.

(* the forest: every sample reaches exactly one root, in fewer than n steps *)
Theorem C13_sup_forest :
  forall (zero top bot : Z) (force : bool) (g : @knn Z) (n : nat),
    length (k_label g) = n -> length (k_cost g) = n -> length (k_pred g) = n ->
    length (k_root g) = n -> length (k_plabel g) = n -> length (k_clabel g) = n ->
    (forall p q, In q (nth p (k_adj g) []) -> q < n) ->
    (forall i, i < n -> (nth i (k_cost g) zero < nth i (k_dens g) zero)%Z) ->
    (force = true -> forall i, i < n -> (bot < nth i (k_cost g) zero)%Z) ->
    let g' := clustering_sup Z.ltb zero top bot force g in
    let pred := fun q => nth q (k_pred g') None in
    let root := fun q => nth q (k_root g') 0 in
    let cost := fun q => nth q (k_cost g') zero in
    let plabel := fun q => nth q (k_plabel g') 0 in
    let dens := fun q => nth q (k_dens g) zero in
    let cost0 := fun q => nth q (k_cost g) zero in
    let label := fun q => nth q (k_label g) 0 in
    forall q, q < n ->
      exists r k, k < n /\ r < n /\ reaches pred q r k /\ pred r = None /\
        (forall r', root_of pred q r' -> r' = r) /\
        root q = r /\ (cost q <= cost r)%Z /\ cost r = dens r /\ (cost0 q < dens r)%Z /\
        plabel q = plabel r /\ plabel r = label r /\
        (force = true -> label q = label r).
Proof. exact clustering_sup_forest. Qed.

Theorem C13_sup_density_gap :
  forall (zero top bot : Z) (force : bool) (g : @knn Z) (n : nat),
    length (k_label g) = n -> length (k_cost g) = n -> length (k_pred g) = n ->
    length (k_root g) = n -> length (k_plabel g) = n -> length (k_clabel g) = n ->
    (forall p q, In q (nth p (k_adj g) []) -> q < n) ->
    (forall i, i < n -> (nth i (k_cost g) zero < nth i (k_dens g) zero)%Z) ->
    (force = true -> forall i, i < n -> (bot < nth i (k_cost g) zero)%Z) ->
    let g' := clustering_sup Z.ltb zero top bot force g in
    let root := fun q => nth q (k_root g') 0 in
    let dens := fun q => nth q (k_dens g) zero in
    (forall q, q < n -> nth q (k_cost g) zero = (dens q - 1)%Z) ->
    forall q, q < n -> (dens q < dens (root q) + 1)%Z.
Proof. exact clustering_sup_density_gap. Qed.

(* ---------------- unsupervised ---------------- *)

Theorem C13_unsup_order :
  forall (zero top bot : Z) (k : nat) (g : @knn Z) (n : nat),
    length (k_label g) = n -> length (k_cost g) = n -> length (k_pred g) = n ->
    length (k_root g) = n -> length (k_plabel g) = n -> length (k_clabel g) = n ->
    (forall p q, In q (nth p (k_adj g) []) -> q < n) ->
    (forall i, i < n -> (nth i (k_cost g) zero < nth i (k_dens g) zero)%Z) ->
    let g' := clustering_unsup Z.ltb zero top bot k g in
    exists ord, k_order g' = k_order g ++ ord /\ Permutation ord (seq 0 n).
Proof. exact clustering_unsup_order. Qed.

Theorem C13_unsup_links :
  forall (zero top bot : Z) (k : nat) (g : @knn Z) (n : nat),
    length (k_label g) = n -> length (k_cost g) = n -> length (k_pred g) = n ->
    length (k_root g) = n -> length (k_plabel g) = n -> length (k_clabel g) = n ->
    (forall p q, In q (nth p (k_adj g) []) -> q < n) ->
    (forall i, i < n -> (nth i (k_cost g) zero < nth i (k_dens g) zero)%Z) ->
    let g' := clustering_unsup Z.ltb zero top bot k g in
    let pred := fun q => nth q (k_pred g') None in
    let root := fun q => nth q (k_root g') 0 in
    let cost := fun q => nth q (k_cost g') zero in
    let clabel := fun q => nth q (k_clabel g') 0 in
    let dens := fun q => nth q (k_dens g) zero in
    let cost0 := fun q => nth q (k_cost g) zero in
    k_label g' = k_label g /\ k_dens g' = k_dens g /\
    (k_adj g', k_nplat g') = plateau_unsup Z.ltb zero k n (k_dens g) (k_adj g) (k_nplat g) /\
    exists ord, k_order g' = k_order g ++ ord /\ Permutation ord (seq 0 n) /\
      forall q, q < n ->
        match pred q with
        | None => root q = q /\ cost q = dens q
        | Some p => p < n /\ before ord p q /\
                    In q (firstn (nth p (k_nplat g') 0 + k) (nth p (k_adj g') [])) /\
                    root q = root p /\ cost q = Z.min (cost p) (dens q) /\
                    (cost0 q < cost q)%Z /\ clabel q = clabel p
        end.
Proof. exact clustering_unsup_links. Qed.

Theorem C13_unsup_forest :
  forall (zero top bot : Z) (k : nat) (g : @knn Z) (n : nat),
    length (k_label g) = n -> length (k_cost g) = n -> length (k_pred g) = n ->
    length (k_root g) = n -> length (k_plabel g) = n -> length (k_clabel g) = n ->
    (forall p q, In q (nth p (k_adj g) []) -> q < n) ->
    (forall i, i < n -> (nth i (k_cost g) zero < nth i (k_dens g) zero)%Z) ->
    let g' := clustering_unsup Z.ltb zero top bot k g in
    let pred := fun q => nth q (k_pred g') None in
    let root := fun q => nth q (k_root g') 0 in
    let cost := fun q => nth q (k_cost g') zero in
    let clabel := fun q => nth q (k_clabel g') 0 in
    let dens := fun q => nth q (k_dens g) zero in
    let cost0 := fun q => nth q (k_cost g) zero in
    forall q, q < n ->
      exists r j, j < n /\ r < n /\ reaches pred q r j /\ pred r = None /\
        (forall r', root_of pred q r' -> r' = r) /\
        root q = r /\ (cost q <= cost r)%Z /\ cost r = dens r /\ (cost0 q < dens r)%Z /\
        clabel q = clabel r.
Proof. exact clustering_unsup_forest. Qed.

Theorem C13_unsup_density_gap :
  forall (zero top bot : Z) (k : nat) (g : @knn Z) (n : nat),
    length (k_label g) = n -> length (k_cost g) = n -> length (k_pred g) = n ->
    length (k_root g) = n -> length (k_plabel g) = n -> length (k_clabel g) = n ->
    (forall p q, In q (nth p (k_adj g) []) -> q < n) ->
    (forall i, i < n -> (nth i (k_cost g) zero < nth i (k_dens g) zero)%Z) ->
    let g' := clustering_unsup Z.ltb zero top bot k g in
    let root := fun q => nth q (k_root g') 0 in
    let dens := fun q => nth q (k_dens g) zero in
    (forall q, q < n -> nth q (k_cost g) zero = (dens q - 1)%Z) ->
    forall q, q < n -> (dens q < dens (root q) + 1)%Z.
Proof. exact clustering_unsup_density_gap. Qed.

(* n_clusters = number of roots; the i-th root in removal order has identifier i; root
   identifiers are pairwise distinct and are exactly 0..n_clusters-1; every sample's
   identifier is below n_clusters *)
Theorem C13_unsup_ids :
  forall (zero top bot : Z) (k : nat) (g : @knn Z) (n : nat),
    length (k_label g) = n -> length (k_cost g) = n -> length (k_pred g) = n ->
    length (k_root g) = n -> length (k_plabel g) = n -> length (k_clabel g) = n ->
    (forall p q, In q (nth p (k_adj g) []) -> q < n) ->
    (forall i, i < n -> (nth i (k_cost g) zero < nth i (k_dens g) zero)%Z) ->
    let g' := clustering_unsup Z.ltb zero top bot k g in
    let pred := fun q => nth q (k_pred g') None in
    let clabel := fun q => nth q (k_clabel g') 0 in
    let isroot := fun q => match pred q with None => true | Some _ => false end in
    k_nclusters g' = length (filter isroot (seq 0 n)) /\
    (exists ord, k_order g' = k_order g ++ ord /\ Permutation ord (seq 0 n) /\
       length (filter isroot ord) = k_nclusters g' /\
       forall i, i < k_nclusters g' -> clabel (nth i (filter isroot ord) 0) = i) /\
    (forall r, r < n -> pred r = None -> clabel r < k_nclusters g') /\
    (forall r r', r < n -> r' < n -> pred r = None -> pred r' = None ->
       clabel r = clabel r' -> r = r') /\
    (forall i, i < k_nclusters g' -> exists r, r < n /\ pred r = None /\ clabel r = i) /\
    (forall q, q < n -> clabel q < k_nclusters g').
Proof. exact clustering_unsup_ids. Qed.

(* ---------------- label propagation ---------------- *)

Theorem C13_propagate_labels_spec :
  forall g : @knn Z,
    k_plabel (propagate_labels g) =
      map (fun i => nth (nth i (k_root g) 0) (k_label g) 0) (seq 0 (length (k_label g))) /\
    k_root (propagate_labels g) = k_root g /\ k_pred (propagate_labels g) = k_pred g /\
    k_label (propagate_labels g) = k_label g.
Proof. exact propagate_labels_spec. Qed.

Theorem C13_propagate_labels_root :
  forall (zero top bot : Z) (k : nat) (g : @knn Z) (n : nat),
    length (k_label g) = n -> length (k_cost g) = n -> length (k_pred g) = n ->
    length (k_root g) = n -> length (k_plabel g) = n -> length (k_clabel g) = n ->
    (forall p q, In q (nth p (k_adj g) []) -> q < n) ->
    (forall i, i < n -> (nth i (k_cost g) zero < nth i (k_dens g) zero)%Z) ->
    let g' := clustering_unsup Z.ltb zero top bot k g in
    let pred := fun q => nth q (k_pred g') None in
    forall q, q < n ->
      exists r, r < n /\ root_of pred q r /\ (forall r', root_of pred q r' -> r' = r) /\
        nth q (k_plabel (propagate_labels g')) 0 = nth r (k_label g) 0.
Proof. exact propagate_labels_root. Qed.
