(* Capstone of C15 (with C02, C03, C06, C08): semi-supervised Optimum-Path Forest training and
   prediction over the REAL numbers, with the arc weights computed by the metric code terms
   regenerated from opfython/math/distance.py.

   Composition of finished developments (nothing new is proved about the algorithm or the metrics;
   see Proofs/CapstoneSemi.v):
   (a) Gen/Metrics_gen.v ir_<name> + Props/C06.v closed forms + Props/C08_code.v axioms of the code
       terms on the user's domain (through the table of Proofs/CapstoneInstances.v);
   (b) Props/C15_anyorder.v (competition over labeled + unlabeled samples), Props/C02_anyorder.v
       (Prim over the labeled samples), Props/C03_anyorder.v (prediction scan): any weight type with
       a strict total order;
   (c) W := R, ltb := Rltb (C01_capstone_order_R, C01_capstone_wmax_is_Rmax,
       C01_capstone_pathmax_unfold in Props/C01_capstone.v).

   Reading the statements.
     labels                  true labels of the nl labeled rows (rows 0 .. nl-1)
     nu                      number of unlabeled rows (rows nl .. nl+nu-1; SemiSupervisedOPF.fit
                             appends them to the labeled ones)
     feat p                  row p of the concatenated matrix, a [list R]
     semi_fit Rltb 0 fmax labels nu w   SemiSupervisedOPF.fit with pairwise distances [w]
     predict_one Rltb 0 nd d            the prediction scan for one query at distances [d]
   Comparisons are written with [<=], [<] and [Rmax] on R.  [pathmaxW Rltb w 0 pi] is the largest
   arc weight along [pi].  Rounding is out of scope as in C06/C08.  Every hypothesis of the
   instances is about the DATA: row lengths, (decorated metrics) non-negative entries, two classes
   among the labeled rows, every distance below fmax. *)
From Coq Require Import Reals String List Arith Bool Permutation.
From OPF Require Import Base.Lists Base.TotalOrder Base.NumOps Model.Heap Model.Sup Spec.Paths Spec.Trees.
From OPF Require Import Spec.MetricSpec Model.MetricIR Gen.Metrics_gen Model.MetricEval Proofs.FitBase.
From OPF Require Import Proofs.Capstone Proofs.CapstoneInstances Proofs.CapstoneSemi Proofs.CapstoneSemiExample.
From OPF Require Import Props.C01_capstone.
Import ListNotations.
Open Scope R_scope.

(* ---------- the conclusions at W := R (the abbreviations of this file) ---------- *)

(* [nd] is an optimum-path forest of the complete graph on ALL nl + nu labeled and unlabeled nodes
   with arc weights [w], rooted at prototypes that are labeled nodes.  In order: array lengths; the
   conquest order is a permutation of all nodes (every labeled and unlabeled node is conquered),
   sorted by cost; prototypes are LABELED nodes, roots of cost 0 keeping their own label; every
   other node has an earlier-conquered predecessor, cost = max(cost of predecessor, arc weight) and
   the predecessor's predicted label; following predecessors ends, in fewer than nl + nu steps, in a
   prototype whose TRUE label is the predicted label (and, for an unlabeled node, the label) of the
   node; the recorded cost is <= the largest arc of EVERY path from EVERY prototype through the
   graph of all nl + nu nodes, and is attained by one; labeled nodes keep their own label; every
   class present among the labeled nodes owns a prototype. *)
Definition semi_optimum_path_forest_R (nl nu : nat) (w : nat -> nat -> R) (labels : list nat)
           (nd : @nodes R) : Prop :=
  let n := (nl + nu)%nat in
  let cost q := nth q (n_cost nd) 0 in
  let pred q := nth q (n_pred nd) None in
  let plabel q := nth q (n_plabel nd) 0%nat in
  let label q := nth q (n_label nd) 0%nat in
  let isproto q := nth q (n_status nd) false = true in
  (length (n_cost nd) = n /\ length (n_pred nd) = n /\ length (n_plabel nd) = n /\
   length (n_label nd) = n) /\
  Permutation (n_order nd) (seq 0 n) /\
  (forall i j, (i < j)%nat -> (j < n)%nat ->
     cost (nth i (n_order nd) 0%nat) <= cost (nth j (n_order nd) 0%nat)) /\
  (forall q, isproto q ->
     (q < nl)%nat /\ pred q = None /\ cost q = 0 /\ plabel q = nth q labels 0%nat /\
     label q = nth q labels 0%nat) /\
  (forall q, (q < n)%nat -> ~ isproto q ->
     exists p, pred q = Some p /\ (p < n)%nat /\ p <> q /\
       cost q = Rmax (cost p) (w p q) /\ plabel q = plabel p /\
       FitBase.before (n_order nd) p q) /\
  (forall q, (q < n)%nat ->
     exists r k, (r < nl)%nat /\ isproto r /\ reaches pred q r k /\ pred r = None /\
       (k < n)%nat /\ plabel q = nth r labels 0%nat /\
       ((nl <= q)%nat -> label q = nth r labels 0%nat)) /\
  (forall q s pi, (q < n)%nat -> isproto s -> path_from_to n s q pi ->
     cost q <= pathmaxW Rltb w 0 pi) /\
  (forall q, (q < n)%nat -> exists s pi, isproto s /\ path_from_to n s q pi /\
     pathmaxW Rltb w 0 pi = cost q) /\
  (forall q, (q < nl)%nat -> label q = nth q labels 0%nat) /\
  (forall q, (q < nl)%nat -> exists s, (s < nl)%nat /\ isproto s /\
     nth s labels 0%nat = nth q labels 0%nat).

(* the prototypes are EXACTLY the endpoints of the class-crossing arcs of the Prim tree [mst] of the
   labeled subgraph ([mst] is a spanning parent map of the labeled nodes rooted at node 0; no
   unlabeled node is ever a prototype); with symmetric weights between labeled nodes every tree
   path is a minimax path of the labeled subgraph, i.e. [mst] is a minimum spanning tree of it *)
Definition semi_prototypes_by_mst_R (nl : nat) (w : nat -> nat -> R) (labels : list nat)
           (mst : nat -> option nat) (nd : @nodes R) : Prop :=
  (spanning_parent_map nl mst /\
   (forall q, nth q (n_status nd) false = true <->
      (q < nl)%nat /\
      exists r, (mst q = Some r \/ mst r = Some q) /\ (r < nl)%nat /\
                nth q labels 0%nat <> nth r labels 0%nat)) /\
  (forall (m : R) u v tp pi, tree_path_rel nl mst u v tp -> path_from_to nl u v pi ->
     pathmaxW Rltb w m tp <= pathmaxW Rltb w m pi).

(* [predict_one] with query distances [d] returns the predicted label of the node [t] that is the
   FIRST, in conquest order, to minimise max(cost, distance) over ALL [n] nodes of the table *)
Definition predicts_first_argmin (n : nat) (nd : @nodes R) (d : nat -> R) : Prop :=
  let val q := Rmax (nth q (n_cost nd) 0) (d q) in
  exists t i, (t < n)%nat /\
    predict_one Rltb 0 nd d = (nth t (n_plabel nd) 0%nat, Some t) /\
    (forall s, (s < n)%nat -> val t <= val s) /\
    (i < n)%nat /\ nth i (n_order nd) 0%nat = t /\
    (forall i', (i' < i)%nat -> val t < val (nth i' (n_order nd) 0%nat)).

(* ---------- arbitrary real weights: C15 + C02 + C03 at W := R ---------- *)

(* Hypotheses: non-negative weights below fmax off the diagonal over all nl + nu nodes; two classes
   among the labeled nodes.  Symmetry (between labeled nodes) is needed for the minimum-spanning-
   tree clause only. *)
Theorem C15_capstone_semi_fit_R :
  forall (labels : list nat) (nu : nat) (w : nat -> nat -> R) (fmax : R),
  let nl := length labels in
  let n := (nl + nu)%nat in
  0 < fmax ->
  (forall p q, (p < n)%nat -> (q < n)%nat -> p <> q -> 0 <= w p q < fmax) ->
  (exists a b, (a < nl)%nat /\ (b < nl)%nat /\ nth a labels 0%nat <> nth b labels 0%nat) ->
  let nd := semi_fit Rltb 0 fmax labels nu w in
  let mst q := nth q (n_pred (find_prototypes Rltb fmax nl w (nodes_init 0 labels))) None in
  semi_optimum_path_forest_R nl nu w labels nd /\
  ((forall p q, (p < nl)%nat -> (q < nl)%nat -> w p q = w q p) ->
   semi_prototypes_by_mst_R nl w labels mst nd) /\
  (spanning_parent_map nl mst /\
   forall q, nth q (n_status nd) false = true <->
     (q < nl)%nat /\
     exists r, (mst q = Some r \/ mst r = Some q) /\ (r < nl)%nat /\
               nth q labels 0%nat <> nth r labels 0%nat) /\
  forall d : nat -> R, predicts_first_argmin n nd d.
Proof.
  exact (fun labels nu w fmax Hpos Hr Hcls =>
           conj (semi_fit_R_forest labels nu w fmax Hpos Hr Hcls)
             (conj (fun Hsym => conj (semi_fit_R_prototypes labels nu w fmax Hpos Hr Hcls)
                                     (semi_fit_R_minimax labels nu w fmax Hpos Hr Hcls Hsym))
                (conj (semi_fit_R_prototypes labels nu w fmax Hpos Hr Hcls)
                      (semi_fit_R_predict labels nu w fmax Hpos Hr Hcls)))).
Qed.

(* ---------- any metric code term, any feature table ---------- *)

(* Hypotheses on [w p q := metric_value m (feat p) (feat q)] over the nl + nu rows only: symmetric,
   non-negative, below fmax; two classes among the labeled rows.  Every query row [x] receives the
   label carried by the first node, labeled or unlabeled, minimising max(cost, distance to x). *)
Theorem C15_capstone_semi_metric :
  forall (m : metric_ir) (feat : nat -> list R) (labels : list nat) (nu : nat) (fmax : R),
  let nl := length labels in
  let n := (nl + nu)%nat in
  let w p q := metric_value m (feat p) (feat q) in
  (forall p q, (p < n)%nat -> (q < n)%nat -> w p q = w q p) ->
  (forall p q, (p < n)%nat -> (q < n)%nat -> p <> q -> 0 <= w p q) ->
  (forall p q, (p < n)%nat -> (q < n)%nat -> p <> q -> w p q < fmax) ->
  0 < fmax ->
  (exists a b, (a < nl)%nat /\ (b < nl)%nat /\ nth a labels 0%nat <> nth b labels 0%nat) ->
  let nd := semi_fit Rltb 0 fmax labels nu w in
  let mst q := nth q (n_pred (find_prototypes Rltb fmax nl w (nodes_init 0 labels))) None in
  semi_optimum_path_forest_R nl nu w labels nd /\
  semi_prototypes_by_mst_R nl w labels mst nd /\
  forall x : list R, predicts_first_argmin n nd (fun k => metric_value m (feat k) x).
Proof. exact semi_fit_metric_opf. Qed.

(* ---------- every symmetric, non-negative identifier (the 41 of C01_capstone_all_metrics) ---------- *)

Theorem C15_capstone_all_metrics :
  forall (m : metric_ir) (dom : list R -> Prop) (cf : list R -> list R -> R),
    In (m, dom, cf) [
           (ir_additive_symmetric, all_nonneg, (fun x y : list R => sp_additive_symmetric (shift x) (shift y)));
           (ir_average_euclidean, (fun _ : list R => True), sp_average_euclidean);
           (ir_bhattacharyya, (fun x : list R => all_nonneg x /\ sum (shift x) = 1), (fun x y : list R => sp_bhattacharyya (shift x) (shift y)));
           (ir_bray_curtis, all_nonneg, (fun x y : list R => sp_bray_curtis (shift x) (shift y)));
           (ir_canberra, all_nonneg, (fun x y : list R => sp_canberra (shift x) (shift y)));
           (ir_chebyshev, (fun _ : list R => True), sp_chebyshev);
           (ir_chi_squared, all_nonneg, (fun x y : list R => sp_chi_squared (shift x) (shift y)));
           (ir_chord, all_nonneg, (fun x y : list R => sp_chord (shift x) (shift y)));
           (ir_clark, all_nonneg, (fun x y : list R => sp_clark (shift x) (shift y)));
           (ir_cosine, all_nonneg, (fun x y : list R => sp_cosine (shift x) (shift y)));
           (ir_dice, all_nonneg, (fun x y : list R => sp_dice (shift x) (shift y)));
           (ir_divergence, all_nonneg, (fun x y : list R => sp_divergence (shift x) (shift y)));
           (ir_euclidean, (fun _ : list R => True), sp_euclidean);
           (ir_gower, (fun _ : list R => True), sp_gower);
           (ir_hamming, (fun _ : list R => True), sp_hamming);
           (ir_hassanat, (fun _ : list R => True), (fun x y : list R => sp_hassanat (shift x) (shift y)));
           (ir_hellinger, all_nonneg, sp_hellinger);
           (ir_jaccard, all_nonneg, (fun x y : list R => sp_jaccard (shift x) (shift y)));
           (ir_jeffreys, all_nonneg, (fun x y : list R => sp_jeffreys (shift x) (shift y)));
           (ir_jensen, all_nonneg, (fun x y : list R => sp_jensen (shift x) (shift y)));
           (ir_jensen_shannon, all_nonneg, (fun x y : list R => sp_jensen_shannon (shift x) (shift y)));
           (ir_kulczynski, all_nonneg, (fun x y : list R => sp_kulczynski (shift x) (shift y)));
           (ir_log_euclidean, (fun _ : list R => True), sp_log_euclidean);
           (ir_log_squared_euclidean, (fun _ : list R => True), sp_log_squared_euclidean);
           (ir_lorentzian, (fun _ : list R => True), sp_lorentzian);
           (ir_manhattan, (fun _ : list R => True), sp_manhattan);
           (ir_matusita, all_nonneg, sp_matusita);
           (ir_max_symmetric, all_nonneg, (fun x y : list R => sp_max_symmetric (shift x) (shift y)));
           (ir_mean_censored_euclidean, all_nonneg, (fun x y : list R => sp_mean_censored_euclidean (shift x) (shift y)));
           (ir_min_symmetric, all_nonneg, (fun x y : list R => sp_min_symmetric (shift x) (shift y)));
           (ir_non_intersection, (fun _ : list R => True), sp_non_intersection);
           (ir_sangvi, all_nonneg, (fun x y : list R => sp_sangvi (shift x) (shift y)));
           (ir_soergel, all_nonneg, (fun x y : list R => sp_soergel (shift x) (shift y)));
           (ir_squared, all_nonneg, (fun x y : list R => sp_squared (shift x) (shift y)));
           (ir_squared_chord, all_nonneg, sp_squared_chord);
           (ir_squared_euclidean, (fun _ : list R => True), sp_squared_euclidean);
           (ir_topsoe, all_nonneg, (fun x y : list R => sp_topsoe (shift x) (shift y)));
           (ir_vicis_symmetric1, all_nonneg, (fun x y : list R => sp_vicis_symmetric1 (shift x) (shift y)));
           (ir_vicis_symmetric2, all_nonneg, (fun x y : list R => sp_vicis_symmetric2 (shift x) (shift y)));
           (ir_vicis_symmetric3, all_nonneg, (fun x y : list R => sp_vicis_symmetric3 (shift x) (shift y)));
           (ir_vicis_wave_hedges, all_nonneg, (fun x y : list R => sp_vicis_wave_hedges (shift x) (shift y))) ] ->
    forall (feat : nat -> list R) (labels : list nat) (nu dim : nat) (fmax : R),
    let nl := length labels in
    let n := (nl + nu)%nat in
    let w p q := metric_value m (feat p) (feat q) in
    (1 <= dim)%nat -> (forall p, (p < n)%nat -> length (feat p) = dim) ->
    (forall p, (p < n)%nat -> dom (feat p)) ->
    (exists a b, (a < nl)%nat /\ (b < nl)%nat /\ nth a labels 0%nat <> nth b labels 0%nat) ->
    (forall p q, (p < n)%nat -> (q < n)%nat -> p <> q -> w p q < fmax) -> 0 < fmax ->
    let nd := semi_fit Rltb 0 fmax labels nu w in
    let mst q := nth q (n_pred (find_prototypes Rltb fmax nl w (nodes_init 0 labels))) None in
    semi_optimum_path_forest_R nl nu w labels nd /\
    semi_prototypes_by_mst_R nl w labels mst nd /\
    forall x : list R, predicts_first_argmin n nd (fun k => metric_value m (feat k) x).
Proof. exact cap_semi_all_code. Qed.

(* training on the published closed form [cf] (C06; shift = + EPSILON entrywise for the decorated
   metrics) yields the same record as training on the code term *)
Theorem C15_capstone_all_metrics_closed_form :
  forall (m : metric_ir) (dom : list R -> Prop) (cf : list R -> list R -> R),
    In (m, dom, cf) [
           (ir_additive_symmetric, all_nonneg, (fun x y : list R => sp_additive_symmetric (shift x) (shift y)));
           (ir_average_euclidean, (fun _ : list R => True), sp_average_euclidean);
           (ir_bhattacharyya, (fun x : list R => all_nonneg x /\ sum (shift x) = 1), (fun x y : list R => sp_bhattacharyya (shift x) (shift y)));
           (ir_bray_curtis, all_nonneg, (fun x y : list R => sp_bray_curtis (shift x) (shift y)));
           (ir_canberra, all_nonneg, (fun x y : list R => sp_canberra (shift x) (shift y)));
           (ir_chebyshev, (fun _ : list R => True), sp_chebyshev);
           (ir_chi_squared, all_nonneg, (fun x y : list R => sp_chi_squared (shift x) (shift y)));
           (ir_chord, all_nonneg, (fun x y : list R => sp_chord (shift x) (shift y)));
           (ir_clark, all_nonneg, (fun x y : list R => sp_clark (shift x) (shift y)));
           (ir_cosine, all_nonneg, (fun x y : list R => sp_cosine (shift x) (shift y)));
           (ir_dice, all_nonneg, (fun x y : list R => sp_dice (shift x) (shift y)));
           (ir_divergence, all_nonneg, (fun x y : list R => sp_divergence (shift x) (shift y)));
           (ir_euclidean, (fun _ : list R => True), sp_euclidean);
           (ir_gower, (fun _ : list R => True), sp_gower);
           (ir_hamming, (fun _ : list R => True), sp_hamming);
           (ir_hassanat, (fun _ : list R => True), (fun x y : list R => sp_hassanat (shift x) (shift y)));
           (ir_hellinger, all_nonneg, sp_hellinger);
           (ir_jaccard, all_nonneg, (fun x y : list R => sp_jaccard (shift x) (shift y)));
           (ir_jeffreys, all_nonneg, (fun x y : list R => sp_jeffreys (shift x) (shift y)));
           (ir_jensen, all_nonneg, (fun x y : list R => sp_jensen (shift x) (shift y)));
           (ir_jensen_shannon, all_nonneg, (fun x y : list R => sp_jensen_shannon (shift x) (shift y)));
           (ir_kulczynski, all_nonneg, (fun x y : list R => sp_kulczynski (shift x) (shift y)));
           (ir_log_euclidean, (fun _ : list R => True), sp_log_euclidean);
           (ir_log_squared_euclidean, (fun _ : list R => True), sp_log_squared_euclidean);
           (ir_lorentzian, (fun _ : list R => True), sp_lorentzian);
           (ir_manhattan, (fun _ : list R => True), sp_manhattan);
           (ir_matusita, all_nonneg, sp_matusita);
           (ir_max_symmetric, all_nonneg, (fun x y : list R => sp_max_symmetric (shift x) (shift y)));
           (ir_mean_censored_euclidean, all_nonneg, (fun x y : list R => sp_mean_censored_euclidean (shift x) (shift y)));
           (ir_min_symmetric, all_nonneg, (fun x y : list R => sp_min_symmetric (shift x) (shift y)));
           (ir_non_intersection, (fun _ : list R => True), sp_non_intersection);
           (ir_sangvi, all_nonneg, (fun x y : list R => sp_sangvi (shift x) (shift y)));
           (ir_soergel, all_nonneg, (fun x y : list R => sp_soergel (shift x) (shift y)));
           (ir_squared, all_nonneg, (fun x y : list R => sp_squared (shift x) (shift y)));
           (ir_squared_chord, all_nonneg, sp_squared_chord);
           (ir_squared_euclidean, (fun _ : list R => True), sp_squared_euclidean);
           (ir_topsoe, all_nonneg, (fun x y : list R => sp_topsoe (shift x) (shift y)));
           (ir_vicis_symmetric1, all_nonneg, (fun x y : list R => sp_vicis_symmetric1 (shift x) (shift y)));
           (ir_vicis_symmetric2, all_nonneg, (fun x y : list R => sp_vicis_symmetric2 (shift x) (shift y)));
           (ir_vicis_symmetric3, all_nonneg, (fun x y : list R => sp_vicis_symmetric3 (shift x) (shift y)));
           (ir_vicis_wave_hedges, all_nonneg, (fun x y : list R => sp_vicis_wave_hedges (shift x) (shift y))) ] ->
    forall (feat : nat -> list R) (labels : list nat) (nu dim : nat) (fmax : R),
    let nl := length labels in
    let n := (nl + nu)%nat in
    (1 <= dim)%nat -> (forall p, (p < n)%nat -> length (feat p) = dim) ->
    semi_fit Rltb 0 fmax labels nu (fun p q => cf (feat p) (feat q))
    = semi_fit Rltb 0 fmax labels nu (fun p q => metric_value m (feat p) (feat q)).
Proof. exact cap_semi_all_closed. Qed.

(* ---------- no unlabeled rows ---------- *)

(* With nu = 0 the record IS the supervised one (C15_semi_empty_is_supervised), so every statement
   of Props/C01_capstone.v applies verbatim; spelled out for the forest and the prediction of
   C01_capstone_sup_fit_R. *)
Theorem C15_capstone_empty_unlabeled :
  forall (labels : list nat) (w : nat -> nat -> R) (fmax : R),
  let n := length labels in
  semi_fit Rltb 0 fmax labels 0 w = sup_fit Rltb 0 fmax labels w /\
  (0 < fmax ->
   (forall p q, (p < n)%nat -> (q < n)%nat -> p <> q -> 0 <= w p q < fmax) ->
   (exists a b, (a < n)%nat /\ (b < n)%nat /\ nth a labels 0%nat <> nth b labels 0%nat) ->
   let nd := semi_fit Rltb 0 fmax labels 0 w in
   optimum_path_forest_R n w labels nd /\
   forall d : nat -> R,
     exists t, (t < n)%nat /\
       predict_one Rltb 0 nd d = (nth t (n_plabel nd) 0%nat, Some t) /\
       forall s, (s < n)%nat -> Rmax (nth t (n_cost nd) 0) (d t) <= Rmax (nth s (n_cost nd) 0) (d s)).
Proof. exact semi_empty_capstone. Qed.

(* ---------- non-vacuity: labeled rows 0, 1, 3 (classes 0 0 1), unlabeled rows 1/2, 5/2, manhattan ---------- *)
(* conversion hint only (no logical content): never unfold the training run while the kernel compares the two
   spellings of the statement (without it this file takes 8 minutes instead of 2 seconds) *)
Local Strategy opaque [semi_fit find_prototypes predict_one metric_value].


Theorem C15_capstone_example_premises :
  let feat p := nth p [[0]; [1]; [3]; [1/2]; [5/2]] [] in
  let labels := [0; 0; 1]%nat in
  let nl := length labels in
  let n := (nl + 2)%nat in
  let w p q := metric_value ir_manhattan (feat p) (feat q) in
  In (ir_manhattan, (fun _ : list R => True), sp_manhattan) capstone_metrics /\
  (1 <= 1)%nat /\ (forall p, (p < n)%nat -> length (feat p) = 1%nat) /\
  (forall p, (p < n)%nat -> (fun _ : list R => True) (feat p)) /\
  (exists a b, (a < nl)%nat /\ (b < nl)%nat /\ nth a labels 0%nat <> nth b labels 0%nat) /\
  (forall p q, (p < n)%nat -> (q < n)%nat -> p <> q -> 0 < w p q < 100) /\
  0 < 100.
Proof. exact sx_premises. Qed.

Theorem C15_capstone_example_result :
  let feat p := nth p [[0]; [1]; [3]; [1/2]; [5/2]] [] in
  let labels := [0; 0; 1]%nat in
  let nl := length labels in
  let n := (nl + 2)%nat in
  let w p q := metric_value ir_manhattan (feat p) (feat q) in
  let nd := semi_fit Rltb 0 100 labels 2 w in
  let mst q := nth q (n_pred (find_prototypes Rltb 100 nl w (nodes_init 0 labels))) None in
  semi_optimum_path_forest_R nl 2 w labels nd /\
  semi_prototypes_by_mst_R nl w labels mst nd /\
  forall x : list R, predicts_first_argmin n nd (fun k => metric_value ir_manhattan (feat k) x).
Proof. exact sx_result. Qed.

(* the run itself, computed through the rescaling theorem (C11) from the run on the doubled
   integer distances: the labeled row 0 is conquered through the unlabeled row 1/2 (predecessor 3,
   cost 1/2 instead of 1), the unlabeled rows receive the labels 0 and 1 of their root prototypes *)
Theorem C15_capstone_example_run :
  let feat p := nth p [[0]; [1]; [3]; [1/2]; [5/2]] [] in
  semi_fit Rltb 0 100 [0; 0; 1]%nat 2 (fun p q => metric_value ir_manhattan (feat p) (feat q)) =
  mkNodes [1/2; 0; 0; 1/2; 1/2] [Some 3; None; None; Some 1; Some 2]%nat [0; 0; 1; 0; 1]%nat
          [0; 0; 1; 0; 1]%nat [false; true; true; false; false]
          [false; false; false; false; false] [1; 2; 3; 4; 0]%nat.
Proof. exact sx_run. Qed.

(* a query row [2] is won by the unlabeled row 5/2 and receives its label 1 *)
Theorem C15_capstone_example_query :
  let feat p := nth p [[0]; [1]; [3]; [1/2]; [5/2]] [] in
  let nd := semi_fit Rltb 0 100 [0; 0; 1]%nat 2
              (fun p q => metric_value ir_manhattan (feat p) (feat q)) in
  predict_one Rltb 0 nd (fun k => metric_value ir_manhattan (feat k) [2]) = (1%nat, Some 4%nat).
Proof. exact sx_query. Qed.
