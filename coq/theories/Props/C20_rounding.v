(* C20, "up to rounding", quantified: opf_accuracy as the float code evaluates it.

   /repo/opfython/math/general.py, opf_accuracy:
       errors[:, 1] /= counts;  errors[:, 0] /= np.nansum(counts) - counts
       errors = np.nansum(errors, axis=1);  accuracy = 1 - np.sum(errors) / (2 * n_class)

   WHICH DEFINITION.  Two transcriptions of this expression are generic in the numeric record of Base/NumOps.v:
   [accuracy_F] (Model/KnnLearn.v; run bit-for-bit against the library at FOps by C16) and [opf_accuracy_ops]
   (Model/LearnFullFloat.v; the same expression with zipw instead of nth, run by C17; equal to [accuracy_F] for every
   numeric record when K < 8: [C20_rounding_same_as_learn_model]).  The theorems below are about
   [accuracy_F (RndOps rnd)]: the reals with [rnd] after every + - * / (Base/NumOpsRnd.v), INCLUDING numpy's pairwise
   np.sum for every number of classes K (plain loop from 0. below 8 entries, eight accumulators + balanced
   combination up to 128, recursive halving above) - Proofs/NpSumRel.v is an induction principle over that
   summation order, so no restriction to K < 8 and no left-fold idealisation is needed.  For K < 8 the model is
   literally the clean left-fold expression [accuracy_rnd] of Model/AccuracyRnd.v ([C20_rounding_small_K]).

   THE EXACT VALUE.  [acc_exact labels preds = 1 - acc_x], [acc_x = acc_E / (2K)],
   [acc_E = sum_{c<K} (FP_c / (N - n_c) + FN_c / n_c)] (Model/AccuracyRnd.v, counting vocabulary of Model/Measures.v).
   It IS Model/Measures.v's rational opf_accuracy read as a real, and [accuracy_F] at the exact reals
   ([C20_rounding_exact_value]).

   THE ROUNDING MODEL.  [rnd_rel u rnd] with 0 <= u < 1 (Model/MetricRdepth.v: the standard model, every rounded
   result is exact * (1 + d), |d| <= u; nothing else is assumed - not monotone, not idempotent).  Results:
   (a) every per-class term is ONE rounded division of two exact integers ([C20_rounding_terms]);
   (b) |A_fl - A| <= ((1+u)^(K+4) - 1) * x + u * A  <=  (1+u)^(K+4) - 1   with x = acc_x = E/(2K), A = 1 - x
       ([C20_rounding_error], [C20_rounding_error_abs]).  k = K + 4: term 1, row 2, np.sum of K rows <= K + 2 (K < 8:
       the loop starts from 0., K additions; K >= 8: at most K - 1 on any path), division K + 3, and the final
       subtraction.  Because 1 - x' is a rounded subtraction of an already rounded x', the bound is ABSOLUTE:
       the x-part carries the K+4 roundings, the result A carries one; against |A| alone no bound holds
       (A = 0 with A_fl < 0 in [C20_rounding_nonneg_refuted]).
   (c) all predictions correct -> A_fl = rnd 1, hence A_fl = 1 as soon as [rnd 1 = 1] ([C20_rounding_all_correct]);
       only [rnd_rel] (which gives rnd 0 = 0) is used.
   (d) some prediction wrong and (2KN + K + 3) u < 1 -> A_fl < 1 ([C20_rounding_wrong_lt_one]).  No monotonicity is
       needed: a wrong prediction puts FN_l/n_l >= 1/N into E, so x >= 1/(2KN), the computed x' >= (1-u)^(K+3) x
       > u/(1+u), and (1 - x')(1 + u) < 1.  The threshold is (2KN + K + 3) u < 1 rather than 2KN u < 1 because
       the lower bound on x' loses the factor (1-u)^(K+3) >= 1 - (K+3)u; at binary64 it reads 2KN + K + 3 < 2^53.
   (c)+(d): with rnd 1 = 1, A_fl = 1 <-> every prediction correct ([C20_rounding_one_iff]).
   (e) in exact arithmetic 0 <= A <= 1.  In the standard model only  -((1+u)^(K+4) - 1) <= A_fl <= 1 + u
       ([C20_rounding_range]) and A_fl >= 0 is FALSE ([C20_rounding_nonneg_refuted]: two classes, both predictions
       wrong, rnd t = t (1+u): computed error rate > 1).  For a MONOTONE rounding that fixes the integers 0..2K
       (binary64 does) 0 <= A_fl <= 1 holds ([C20_rounding_range_monotone]).
   Non-vacuity ([C20_rounding_nonvacuous]): u = 2^-53, rnd = rnd_up u (Proofs/RdepthWitness.v, not the identity),
   labels [0;0;1;1], preds [0;1;1;1]: A = 3/4, A_fl computed in closed form, A_fl < A. *)
From Coq Require Import Reals QArith Qreals List Arith.
From OPF Require Model.Measures Model.LearnFullFloat Proofs.AccuracyOpsAgree.
From OPF Require Import Model.MetricRdepth Model.KnnLearn Model.AccuracyRnd Proofs.RdepthWitness
     Proofs.AccuracyRounding Proofs.AccuracyExactQ Base.NumOpsRnd Base.NumOps.
Import ListNotations.
Open Scope R_scope.

(* ---------------- the exact value ---------------- *)
Theorem C20_rounding_exact_value : forall labels preds : list nat,
  acc_exact labels preds = Q2R (Measures.opf_accuracy labels preds) /\
  accuracy_F ROps labels preds = acc_exact labels preds /\
  acc_exact labels preds = 1 - acc_x labels preds /\
  acc_x labels preds = acc_E labels preds / INR (2 * Measures.n_class labels) /\
  acc_E labels preds
  = MetricSpec.sum (map (fun c => INR (Measures.FP c labels preds) / INR (length labels - Measures.count c labels)
                                  + INR (Measures.FN c labels preds) / INR (Measures.count c labels))
                        (seq 0 (Measures.n_class labels))).
Proof. exact acc_exact_facts. Qed.

Theorem C20_rounding_exact_range : forall labels preds : list nat,
  length labels = length preds ->
  0 <= acc_x labels preds <= 1 /\ 0 <= acc_exact labels preds <= 1.
Proof. exact acc_exact_ranges. Qed.

(* ---------------- the model, unfolded ---------------- *)
Theorem C20_rounding_model : forall (rnd : R -> R) (labels preds : list nat),
  accuracy_F (RndOps rnd) labels preds
  = rnd (1 - rnd (np_sum (RndOps rnd)
                    (map (fun c => rnd (rnd (INR (Measures.FP c labels preds) / INR (length labels - Measures.count c labels))
                                        + rnd (INR (Measures.FN c labels preds) / INR (Measures.count c labels))))
                         (seq 0 (Measures.n_class labels)))
                  / INR (2 * Measures.n_class labels))).
Proof. exact accuracy_F_RndOps. Qed.

Theorem C20_rounding_small_K : forall (rnd : R -> R) (labels preds : list nat),
  (Measures.n_class labels < 8)%nat ->
  accuracy_F (RndOps rnd) labels preds = accuracy_rnd rnd labels preds.
Proof. exact accuracy_F_rnd_small. Qed.

(* the other NumOps-generic transcription (Model/LearnFullFloat.v, the learn loop of C17) is the same function for
   every interpretation of the numeric record below 8 classes, so everything here also speaks about it there *)
Theorem C20_rounding_same_as_learn_model : forall (F : Type) (O : NumOps F) (labels preds : list nat),
  (Measures.n_class labels < 8)%nat ->
  LearnFullFloat.opf_accuracy_ops O labels preds = accuracy_F O labels preds.
Proof. exact (@AccuracyOpsAgree.opf_accuracy_ops_accuracy_F). Qed.

(* ---------------- (a) ---------------- *)
Theorem C20_rounding_terms : forall u rnd, 0 <= u < 1 -> rnd_rel u rnd ->
  forall (labels preds : list nat) (c : nat), length labels = length preds ->
    (exists d, Rabs d <= u /\ rnd (acc_fp labels preds c) = acc_fp labels preds c * (1 + d)) /\
    (exists d, Rabs d <= u /\ rnd (acc_fn labels preds c) = acc_fn labels preds c * (1 + d)) /\
    (1 - u) * acc_fp labels preds c <= rnd (acc_fp labels preds c) <= (1 + u) * acc_fp labels preds c /\
    (1 - u) * acc_fn labels preds c <= rnd (acc_fn labels preds c) <= (1 + u) * acc_fn labels preds c /\
    0 <= acc_fp labels preds c <= 1 /\ 0 <= acc_fn labels preds c <= 1.
Proof. exact accuracy_terms. Qed.

(* ---------------- (b) ---------------- *)
Theorem C20_rounding_error : forall u rnd, 0 <= u < 1 -> rnd_rel u rnd ->
  forall labels preds : list nat, length labels = length preds ->
    Rabs (accuracy_F (RndOps rnd) labels preds - acc_exact labels preds)
      <= ((1 + u) ^ (Measures.n_class labels + 4) - 1) * acc_x labels preds + u * acc_exact labels preds.
Proof. exact accuracy_error. Qed.

Theorem C20_rounding_error_abs : forall u rnd, 0 <= u < 1 -> rnd_rel u rnd ->
  forall labels preds : list nat, length labels = length preds ->
    Rabs (accuracy_F (RndOps rnd) labels preds - acc_exact labels preds)
      <= (1 + u) ^ (Measures.n_class labels + 4) - 1.
Proof. exact accuracy_error_abs. Qed.

(* the computed error rate x' = rnd (np.sum(errors) / (2K)) is K + 3 roundings deep, relatively *)
Theorem C20_rounding_error_rate : forall u rnd, 0 <= u < 1 -> rnd_rel u rnd ->
  forall labels preds : list nat, length labels = length preds ->
    accuracy_F (RndOps rnd) labels preds = rnd (1 - acc_q rnd labels preds) /\
    within u (Measures.n_class labels + 3) (acc_x labels preds) (acc_q rnd labels preds).
Proof. exact accuracy_error_rate. Qed.

(* ---------------- (c) ---------------- *)
Theorem C20_rounding_all_correct : forall u rnd, 0 <= u < 1 -> rnd_rel u rnd ->
  forall labels : list nat,
    accuracy_F (RndOps rnd) labels labels = rnd 1 /\
    (rnd 1 = 1 -> accuracy_F (RndOps rnd) labels labels = 1).
Proof. exact accuracy_all_correct_both. Qed.

(* ---------------- (d) ---------------- *)
Theorem C20_rounding_wrong_lt_one : forall u rnd, 0 <= u < 1 -> rnd_rel u rnd ->
  forall labels preds : list nat, length labels = length preds -> preds <> labels ->
    INR (2 * Measures.n_class labels * length labels + Measures.n_class labels + 3) * u < 1 ->
    accuracy_F (RndOps rnd) labels preds < 1.
Proof. exact accuracy_wrong_lt_one. Qed.

Theorem C20_rounding_one_iff : forall u rnd, 0 <= u < 1 -> rnd_rel u rnd -> rnd 1 = 1 ->
  forall labels preds : list nat, length labels = length preds ->
    INR (2 * Measures.n_class labels * length labels + Measures.n_class labels + 3) * u < 1 ->
    (accuracy_F (RndOps rnd) labels preds = 1 <-> preds = labels).
Proof. exact accuracy_one_iff_std. Qed.

(* ---------------- (e) ---------------- *)
Theorem C20_rounding_range : forall u rnd, 0 <= u < 1 -> rnd_rel u rnd ->
  forall labels preds : list nat, length labels = length preds ->
    - ((1 + u) ^ (Measures.n_class labels + 4) - 1) <= accuracy_F (RndOps rnd) labels preds <= 1 + u.
Proof. exact accuracy_range. Qed.

Theorem C20_rounding_nonneg_refuted : forall u, 0 < u < 1 ->
  exists rnd labels preds, rnd_rel u rnd /\ Measures.c20_domain labels preds /\
    acc_exact labels preds = 0 /\ accuracy_F (RndOps rnd) labels preds < 0.
Proof. exact accuracy_nonneg_refuted. Qed.

Theorem C20_rounding_range_monotone : forall (rnd : R -> R) (labels preds : list nat),
  length labels = length preds ->
  (forall a b, a <= b -> rnd a <= rnd b) ->
  (forall m, (m <= 2 * Measures.n_class labels)%nat -> rnd (INR m) = INR m) ->
  0 <= accuracy_F (RndOps rnd) labels preds <= 1.
Proof. exact accuracy_range_mono. Qed.

(* ---------------- non-vacuity ---------------- *)
Theorem C20_rounding_nonvacuous :
  0 <= u64 < 1 /\ rnd_rel u64 (rnd_up u64) /\ rnd_up u64 1 <> 1 /\
  Measures.c20_domain [0; 0; 1; 1]%nat [0; 1; 1; 1]%nat /\ Measures.n_class [0; 0; 1; 1]%nat = 2%nat /\
  [0; 1; 1; 1]%nat <> [0; 0; 1; 1]%nat /\
  INR (2 * Measures.n_class [0; 0; 1; 1]%nat * length [0; 0; 1; 1]%nat + Measures.n_class [0; 0; 1; 1]%nat + 3) * u64 < 1 /\
  acc_exact [0; 0; 1; 1]%nat [0; 1; 1; 1]%nat = 3 / 4 /\
  accuracy_F (RndOps (rnd_up u64)) [0; 0; 1; 1]%nat [0; 1; 1; 1]%nat
    = (1 - ((1 + u64) ^ 3 / 2 + (1 + u64) ^ 2 / 2) * (1 + u64) / 4 * (1 + u64)) * (1 + u64) /\
  accuracy_F (RndOps (rnd_up u64)) [0; 0; 1; 1]%nat [0; 1; 1; 1]%nat < acc_exact [0; 0; 1; 1]%nat [0; 1; 1; 1]%nat.
Proof. exact accuracy_rounding_nonvacuous. Qed.
