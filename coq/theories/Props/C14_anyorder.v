(* C14, order-only part, for an ARBITRARY weight type [W] whose comparison [ltb] is a strict total
   order (Base/TotalOrder.v).  Statements of Props/C14_order.v and Props/C14_compose.v with
   a <= b  written  ltb b a = false,  a < b  written  ltb a b = true  and Z.min replaced by the
   model's own [wmin ltb] (Model/Knn.v); [isortW] is the stable insertion sort by (distance, index)
   at W (Proofs/Lift2Knn.v, unfolding equations in Props/C12_anyorder.v).

   The neighbour theorems are the case skip = None of C12_knn_scan_spec_anyorder; the arg-max is
   lifted from W := Z by the abstraction theorem of Proofs/ParamKnn.v ([rescale_knn_pick_on]) and
   the rank embedding of Proofs/OrderEmbed.v; C14_knn_predict_rule_anyorder is composed from the
   two at W, so the query-density function [densx_of] is an ARBITRARY function
   list W -> list nat -> W (Proofs/Lift2Predict.v).  Not lifted: Props/C14_density.v (arithmetic). *)
From Coq Require Import List Arith.
From OPF Require Import Base.TotalOrder Model.Knn Proofs.KnnSort Proofs.Lift2Knn Proofs.Lift2Predict.
Import ListNotations.

Theorem C14_knn_predict_neighbours_anyorder :
  forall (W : Type) (ltb : W -> W -> bool),
    strict_total_order ltb ->
    forall (top : W) (k n : nat) (dist : nat -> W) (ns0 : list nat),
    k < length ns0 ->
    (forall j, j < n -> ltb (dist j) top = true) ->
    forall ds ns, knn_scan ltb top k n dist None ns0 = (ds, ns) ->
    let m := Nat.min k n in
    (forall l, l < m -> nth l ns 0 < n /\ nth l ds top = dist (nth l ns 0) /\
                        ltb (nth l ds top) top = true) /\
    (forall l, m <= l -> l < k -> nth l ds top = top) /\
    NoDup (firstn m ns) /\
    (forall a b, a < b -> b < m ->
       ltb (dist (nth a ns 0)) (dist (nth b ns 0)) = true \/
       (dist (nth a ns 0) = dist (nth b ns 0) /\ nth a ns 0 < nth b ns 0)) /\
    (forall j, j < n -> ~ In j (firstn m ns) -> forall l, l < m ->
       ltb (dist (nth l ns 0)) (dist j) = true \/ (dist (nth l ns 0) = dist j /\ nth l ns 0 < j)).
Proof. exact (@knn_predict_neighbours_anyorder). Qed.

Theorem C14_knn_predict_neighbours_sorted_anyorder :
  forall (W : Type) (ltb : W -> W -> bool),
    strict_total_order ltb ->
    forall (top : W) (k n : nat) (dist : nat -> W) (ns0 : list nat),
    k < length ns0 ->
    (forall j, j < n -> ltb (dist j) top = true) ->
    forall ds ns, knn_scan ltb top k n dist None ns0 = (ds, ns) ->
    firstn (Nat.min k n) ns = firstn k (isortW ltb dist (seq 0 n)) /\
    firstn (Nat.min k n) ds = map dist (firstn k (isortW ltb dist (seq 0 n))).
Proof. exact (@knn_predict_neighbours_isort_anyorder). Qed.

(* Arg-max: the label source is the neighbour in the FIRST non-empty slot l < k maximising
   min (cost neighbour) (density x) over the non-empty slots; nothing is picked iff all k slots are empty. *)
Theorem C14_knn_pick_argmax_anyorder :
  forall (W : Type) (ltb : W -> W -> bool),
    strict_total_order ltb ->
    forall (zero top bot : W) (g : @knn W) (k : nat) (densx : W) (ds : list W) (ns : list nat),
    let val l := wmin ltb (nth (nth l ns 0) (k_cost g) zero) densx in
    (forall l, l < k -> nth l ds top <> top -> ltb bot (val l) = true) ->
    ((forall l, l < k -> nth l ds top = top) /\ knn_pick ltb zero top bot g k densx ds ns = None) \/
    (exists l, l < k /\ nth l ds top <> top /\
       knn_pick ltb zero top bot g k densx ds ns = Some (nth l ns 0) /\
       (forall l', l' < k -> nth l' ds top <> top -> ltb (val l) (val l') = false) /\
       (forall l', l' < l -> nth l' ds top <> top -> ltb (val l') (val l) = true)).
Proof. exact (@knn_pick_argmax_anyorder). Qed.

Theorem C14_knn_pick_none_iff_anyorder :
  forall (W : Type) (ltb : W -> W -> bool),
    strict_total_order ltb ->
    forall (zero top bot : W) (g : @knn W) (k : nat) (densx : W) (ds : list W) (ns : list nat),
    (forall l, l < k -> nth l ds top <> top ->
       ltb bot (wmin ltb (nth (nth l ns 0) (k_cost g) zero) densx) = true) ->
    (knn_pick ltb zero top bot g k densx ds ns = None <-> forall l, l < k -> nth l ds top = top).
Proof. exact (@knn_pick_none_iff_anyorder). Qed.

(* One query of KNNSupervisedOPF.predict / UnsupervisedOPF.predict: with N = the first k elements of
   the stable insertion sort by distance of all training samples and densx = the query density computed
   (by any function) from the scan result, the label source is N[r] for the FIRST rank r maximising
   min (cost N[r]) densx over N. *)
Theorem C14_knn_predict_rule_anyorder :
  forall (W : Type) (ltb : W -> W -> bool),
    strict_total_order ltb ->
    forall (zero top bot : W) (g : @knn W) (k n : nat) (densx_of : list W -> list nat -> W)
           (dist : nat -> W),
    1 <= k -> 1 <= n ->
    (forall j, j < n -> ltb (dist j) top = true) ->
    forall ds ns, knn_scan ltb top k n dist None (repeat 0 (S k)) = (ds, ns) ->
    let densx := densx_of ds ns in
    let val j := wmin ltb (nth j (k_cost g) zero) densx in
    (forall j, j < n -> ltb bot (val j) = true) ->
    let N := firstn k (isortW ltb dist (seq 0 n)) in
    length N = Nat.min k n /\
    firstn (Nat.min k n) ns = N /\ firstn (Nat.min k n) ds = map dist N /\
    NoDup N /\ (forall j, In j N -> j < n) /\
    (forall a b, a < b -> b < length N ->
       ltb (dist (nth a N 0)) (dist (nth b N 0)) = true \/
       (dist (nth a N 0) = dist (nth b N 0) /\ nth a N 0 < nth b N 0)) /\
    (forall j, j < n -> ~ In j N -> forall a, In a N ->
       ltb (dist a) (dist j) = true \/ (dist a = dist j /\ a < j)) /\
    exists r, r < length N /\
      knn_predict_one ltb zero top bot g k n densx_of dist = Some (nth r N 0) /\
      (forall r', r' < length N -> ltb (val (nth r N 0)) (val (nth r' N 0)) = false) /\
      (forall r', r' < r -> ltb (val (nth r' N 0)) (val (nth r N 0)) = true).
Proof. exact (@knn_predict_rule_anyorder). Qed.

(* non-vacuity at W := nat: six training samples with costs 1,7,3,9,9,2, query distances
   5,2,9,5,2,7, k = 3, query density 8 *)
Theorem C14_anyorder_example_premises :
  strict_total_order Nat.ltb /\
  (forall j, j < 6 -> Nat.ltb (pkn_dist j) 1000 = true) /\
  (forall j, j < 6 -> Nat.ltb 0 (wmin Nat.ltb (nth j (k_cost pkn_g) 0) 8) = true).
Proof. exact pkn_premises. Qed.

Theorem C14_anyorder_example_result :
  knn_scan Nat.ltb 1000 3 6 pkn_dist None (repeat 0 4) = ([2; 2; 5; 7], [1; 4; 0; 5]) /\
  firstn 3 (isortW Nat.ltb pkn_dist (seq 0 6)) = [1; 4; 0] /\
  knn_pick Nat.ltb 0 1000 0 pkn_g 3 8 [2; 2; 5; 7] [1; 4; 0; 5] = Some 4 /\
  knn_predict_one Nat.ltb 0 1000 0 pkn_g 3 6 (fun _ _ => 8) pkn_dist = Some 4.
Proof. exact pkn_result. Qed.
