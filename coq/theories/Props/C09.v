(* C09: see Props/C09_sup.v (supervised / semi-supervised: predict_batch is pointwise) and
   Props/C09_knn.v (KNN predicts are functions of the query's distances alone). *)
From OPF Require Import Model.Sup Model.Knn.
