From Coq Require Import List Arith ZArith.
From OPF Require Import Base.Lists Model.Knn Proofs.KnnSort Proofs.KnnScan Proofs.KnnArcs Proofs.KnnExample.
Import ListNotations.

(* The (k+1)-slot insertion scan over the candidates 0..n-1 minus [skip], for any distances below [top] and any
   k (also k larger than the number of candidates): with m = min k (#candidates), slots 0..m-1 hold m distinct
   candidates together with their distances, sorted by distance and, among equal distances, by index; every
   candidate left out is lexicographically (distance, index) larger than every one kept; slots m..k-1 are empty
   ([top]); and the slots are the first k elements of the stable insertion sort of the candidates.
   (Slot k is scratch space and is not specified - see [C12_knn_scan_slot_k_refuted].) *)
Theorem C12_knn_scan_spec :
  forall (top : Z) (k n : nat) (dist : nat -> Z) (skip : option nat) (ns0 : list nat),
    k < length ns0 ->
    (forall j, j < n -> skip <> Some j -> (dist j < top)%Z) ->
    forall ds ns, knn_scan Z.ltb top k n dist skip ns0 = (ds, ns) ->
    let m := Nat.min k (match skip with Some i => if i <? n then n - 1 else n | None => n end) in
    length ds = S k /\ length ns = length ns0 /\
    (forall l, l < m -> nth l ns 0 < n /\ skip <> Some (nth l ns 0) /\
                        nth l ds top = dist (nth l ns 0) /\ (nth l ds top < top)%Z) /\
    (forall l, m <= l -> l < k -> nth l ds top = top) /\
    NoDup (firstn m ns) /\
    (forall a b, a < b -> b < m ->
       (dist (nth a ns 0%nat) < dist (nth b ns 0%nat))%Z \/
       (dist (nth a ns 0) = dist (nth b ns 0) /\ nth a ns 0 < nth b ns 0)) /\
    (forall j, j < n -> skip <> Some j -> ~ In j (firstn m ns) ->
       forall l, l < m -> (dist (nth l ns 0%nat) < dist j)%Z \/ (dist (nth l ns 0) = dist j /\ nth l ns 0 < j)) /\
    firstn m ns = firstn k (isort dist (cands skip n)) /\
    firstn m ds = map dist (firstn k (isort dist (cands skip n))).
Proof. exact knn_scan_spec. Qed.

Theorem C12_cands_In :
  forall (skip : option nat) (n j : nat), In j (cands skip n) <-> j < n /\ skip <> Some j.
Proof. exact cands_In. Qed.

Theorem C12_knn_scan_slot_k_refuted :
  exists (top : Z) (k n : nat) (dist : nat -> Z) (skip : option nat) (ns0 : list nat),
    k < length ns0 /\ (forall j, j < n -> skip <> Some j -> (dist j < top)%Z) /\
    let '(ds, ns) := knn_scan Z.ltb top k n dist skip ns0 in
    exists j, j < n /\ skip <> Some j /\ ~ In j (firstn (S k) ns) /\ (dist j < nth k ds top)%Z.
Proof. exact knn_scan_slot_k_refuted. Qed.

(* Arc creation on a fresh subgraph (empty adjacency lists, density 0), weights in [zero, top), any k, any n,
   duplicates and ties allowed. *)
Theorem C12_arcs_exact :
  forall (zero top thr one : Z) (k n : nat) (w : nat -> nat -> Z) (labels : list nat),
    length labels = n ->
    (forall i j, i < n -> j < n -> i <> j -> (zero <= w i j < top)%Z) ->
    forall g' maxd, create_arcs Z.ltb zero top thr one k n w (knn_init zero labels) = (g', maxd) ->
    let adj i := nth i (k_adj g') [] in
    let dl i l := nth l (map (w i) (adj i)) zero in        (* l-th distance of node i, zero beyond its list *)
    let rad i := nth i (k_radius g') zero in
    let M := fold_right Z.max zero (map rad (seq 0 n)) in
    (forall i, i < n ->
       length (adj i) = Nat.min k (n - 1) /\ NoDup (adj i) /\ ~ In i (adj i) /\ (forall j, In j (adj i) -> j < n) /\
       (forall a b, a <= b -> b < length (adj i) -> (w i (nth a (adj i) 0%nat) <= w i (nth b (adj i) 0%nat))%Z) /\
       (forall j, j < n -> j <> i -> ~ In j (adj i) -> forall a, In a (adj i) -> (w i a <= w i j)%Z) /\
       (forall j, j < n -> j <> i -> ~ In j (adj i) -> (rad i <= w i j)%Z) /\
       rad i = last (map (w i) (adj i)) zero /\ (n = 1 -> rad i = zero)) /\
    length maxd = k /\
    (forall l, nth l maxd zero = fold_right Z.max zero (map (fun i => dl i l) (seq 0 n))) /\
    k_gdens g' = (if Z.ltb M thr then one else M).
Proof. exact arcs_exact. Qed.

(* The same maxima stated as suprema: maxd[l] bounds and is attained by an l-th distance (l < min k (n-1)), is zero
   for larger l; the density bound is the largest radius, replaced by [one] iff that is below [thr]. *)
Theorem C12_arcs_maxima :
  forall (zero top thr one : Z) (k n : nat) (w : nat -> nat -> Z) (labels : list nat),
    length labels = n ->
    (forall i j, i < n -> j < n -> i <> j -> (zero <= w i j < top)%Z) ->
    forall g' maxd, create_arcs Z.ltb zero top thr one k n w (knn_init zero labels) = (g', maxd) ->
    let dl i l := nth l (map (w i) (nth i (k_adj g') [])) zero in
    let rad i := nth i (k_radius g') zero in
    (forall l, l < Nat.min k (n - 1) ->
       (forall i, i < n -> (dl i l <= nth l maxd zero)%Z) /\ (exists i, i < n /\ nth l maxd zero = dl i l)) /\
    (forall l, Nat.min k (n - 1) <= l -> nth l maxd zero = zero) /\
    (exists M, (forall i, i < n -> (rad i <= M)%Z) /\ ((exists i, i < n /\ M = rad i) \/ (n = 0 /\ M = zero)) /\
               k_gdens g' = if Z.ltb M thr then one else M).
Proof. exact arcs_maxima. Qed.

(* Tie order: each adjacency list is the first k elements of the stable insertion sort by distance of the other
   samples - among equal distances the smaller index comes first and is preferred at the cut-off. *)
Theorem C12_arcs_tie_order :
  forall (zero top thr one : Z) (k n : nat) (w : nat -> nat -> Z) (labels : list nat),
    length labels = n ->
    (forall i j, i < n -> j < n -> i <> j -> (zero <= w i j < top)%Z) ->
    forall g' maxd, create_arcs Z.ltb zero top thr one k n w (knn_init zero labels) = (g', maxd) ->
    forall i, i < n ->
    let adj := nth i (k_adj g') [] in
    adj = firstn k (isort (w i) (filter (fun j => negb (j =? i)) (seq 0 n))) /\
    (forall a b, a < b -> b < length adj ->
       (w i (nth a adj 0%nat) < w i (nth b adj 0%nat))%Z \/
       (w i (nth a adj 0) = w i (nth b adj 0) /\ nth a adj 0 < nth b adj 0)) /\
    (forall j, j < n -> j <> i -> ~ In j adj -> forall a, In a adj ->
       (w i a < w i j)%Z \/ (w i a = w i j /\ a < j)).
Proof. exact arcs_tie_order. Qed.

(* Any starting subgraph with n nodes, whatever density bound an earlier call left in it: the new arcs [nbrs k n w i]
   are PREPENDED to the existing lists, the density bound is the TRUE maximum of the new radii (the method resets it
   first - before the fix 67b9676 of /repo it was only raised, see DESIGN.md 6/F12), radii / n_plateaus are reset,
   the rest is untouched. *)
Theorem C12_arcs_general :
  forall (zero top thr one : Z) (k n : nat) (w : nat -> nat -> Z) (g : @knn Z),
    length (k_adj g) = n -> length (k_radius g) = n ->
    (forall i j, i < n -> j < n -> i <> j -> (zero <= w i j < top)%Z) ->
    forall g' maxd, create_arcs Z.ltb zero top thr one k n w g = (g', maxd) ->
    let N := nbrs k n w in
    let rad i := last (map (w i) (N i)) zero in
    let M := fold_right Z.max zero (map rad (seq 0 n)) in
    length (k_adj g') = n /\ length (k_radius g') = n /\
    (forall i, i < n -> nth i (k_adj g') [] = N i ++ nth i (k_adj g) []) /\
    (forall i, i < n -> nth i (k_radius g') zero = rad i) /\
    (forall i, i < n -> nth i (k_nplat g') 0 = 0) /\
    k_gdens g' = (if Z.ltb M thr then one else M) /\
    length maxd = k /\
    (forall l, nth l maxd zero = fold_right Z.max zero (map (fun i => nth l (map (w i) (N i)) zero) (seq 0 n))) /\
    k_label g' = k_label g /\ k_dens g' = k_dens g /\ k_cost g' = k_cost g /\ k_pred g' = k_pred g /\
    k_root g' = k_root g /\ k_plabel g' = k_plabel g /\ k_clabel g' = k_clabel g /\ k_order g' = k_order g /\
    k_nclusters g' = k_nclusters g.
Proof. exact arcs_general. Qed.

(* ... where the prepended list [nbrs k n w i] is characterised by: *)
Theorem C12_nbrs_props :
  forall (k n : nat) (w : nat -> nat -> Z) (i : nat), i < n ->
    let N := nbrs k n w i in
    length N = Nat.min k (n - 1) /\ NoDup N /\ ~ In i N /\ (forall j, In j N -> j < n) /\
    (forall a b, a < b -> b < length N ->
       (w i (nth a N 0%nat) < w i (nth b N 0%nat))%Z \/ (w i (nth a N 0) = w i (nth b N 0) /\ nth a N 0 < nth b N 0)) /\
    (forall j, j < n -> j <> i -> ~ In j N -> forall a, In a N ->
       (w i a < w i j)%Z \/ (w i a = w i j /\ a < j)).
Proof. exact nbrs_props. Qed.

(* Examples: 3x3 lattice with squared Euclidean distances (ties everywhere), k = 3; the weights satisfy the hypotheses *)
Theorem C12_lat_w_ok : forall i j, i < 9 -> j < 9 -> i <> j -> (0 <= lat_w i j < lat_top)%Z.
Proof. exact lat_w_ok. Qed.

Theorem C12_lat_arcs :
  create_arcs Z.ltb 0%Z lat_top 1%Z 1%Z 3 9 lat_w (knn_init 0%Z (repeat 0 9)) = (lat_g', [1; 1; 2]%Z).
Proof. exact lat_arcs. Qed.

(* three identical samples, k = 5 > n - 1: density bound falls back to [one] = 100000 *)
Theorem C12_dup_arcs :
  create_arcs Z.ltb 0%Z lat_top 1%Z 100000%Z 5 3 (fun _ _ => 0%Z) (knn_init 0%Z (repeat 0 3))
  = (mkKnn [0; 0; 0] [[1; 2]; [0; 2]; [0; 1]] [0; 0; 0]%Z [0; 0; 0] [0; 0; 0]%Z [0; 0; 0]%Z [None; None; None]
           [0; 0; 0] [0; 0; 0] [0; 0; 0] [] 100000%Z 0,
     [0; 0; 0; 0; 0]%Z).
Proof. exact dup_arcs. Qed.

Print Assumptions C12_knn_scan_spec.
Print Assumptions C12_arcs_exact.
Print Assumptions C12_arcs_maxima.
Print Assumptions C12_arcs_tie_order.
Print Assumptions C12_arcs_general.
Print Assumptions C12_lat_arcs.
