(* C10: see Props/C10_logic.v *)
From OPF Require Import Model.Sup Model.Knn.
