From Coq Require Import ZArith List Permutation.
From OPF Require Import Base.Lists Base.TotalOrder Model.Sup Proofs.FitExample Proofs.LiftPredict
  Proofs.LiftInst.
Import ListNotations.

(* C03 for an ARBITRARY weight type [W] whose comparison [ltb] is a strict total order
   (Base/TotalOrder.v): supervised / semi-supervised prediction equals the exhaustive minimum of
   max(cost, distance).  Statements of Props/C03.v with  a <= b  written  ltb b a = false,
   a < b  written  ltb a b = true  and Z.max replaced by the model's [wmax ltb].  Derived from the
   theorems at W := Z (Proofs/LiftPredict.v). *)

Theorem C03_predict_is_argmin_anyorder :
  forall (W : Type) (ltb : W -> W -> bool),
    strict_total_order ltb ->
    forall (zero : W) (nd : @nodes W) (d : nat -> W),
    let n := length (n_cost nd) in
    let cost q := nth q (n_cost nd) zero in
    let val q := wmax ltb (cost q) (d q) in
    let plabel q := nth q (n_plabel nd) 0%nat in
    (1 <= n)%nat ->
    Permutation (n_order nd) (seq 0 n) ->
    (forall i j, (i < j)%nat -> (j < n)%nat ->
       ltb (cost (nth j (n_order nd) 0%nat)) (cost (nth i (n_order nd) 0%nat)) = false) ->
    exists t i,
      (t < n)%nat /\
      predict_one ltb zero nd d = (plabel t, Some t) /\
      (forall s, (s < n)%nat -> ltb (val s) (val t) = false) /\
      (i < n)%nat /\ nth i (n_order nd) 0%nat = t /\
      (forall i', (i' < i)%nat -> ltb (val t) (val (nth i' (n_order nd) 0%nat)) = true).
Proof. exact (@predict_is_argmin_anyorder). Qed.

Theorem C03_predict_label_is_argmin_anyorder :
  forall (W : Type) (ltb : W -> W -> bool),
    strict_total_order ltb ->
    forall (zero : W) (nd : @nodes W) (d : nat -> W),
    let n := length (n_cost nd) in
    let cost q := nth q (n_cost nd) zero in
    let val q := wmax ltb (cost q) (d q) in
    (1 <= n)%nat ->
    Permutation (n_order nd) (seq 0 n) ->
    (forall i j, (i < j)%nat -> (j < n)%nat ->
       ltb (cost (nth j (n_order nd) 0%nat)) (cost (nth i (n_order nd) 0%nat)) = false) ->
    exists t, (t < n)%nat /\
      fst (predict_one ltb zero nd d) = nth t (n_plabel nd) 0%nat /\
      snd (predict_one ltb zero nd d) = Some t /\
      forall s, (s < n)%nat -> ltb (val s) (val t) = false.
Proof. exact (@predict_label_is_argmin_anyorder). Qed.

(* training then prediction: on the forest computed by SupervisedOPF.fit the two premises on
   the conquest order hold (C01_sup_fit_anyorder), so every query is classified by a minimiser
   of max(cost, distance) over all training samples *)
Theorem C03_sup_fit_predict_anyorder :
  forall (W : Type) (ltb : W -> W -> bool),
    strict_total_order ltb ->
    forall (zero top : W) (labels : list nat) (w : nat -> nat -> W) (d : nat -> W),
    let n := length labels in
    let fp := find_prototypes ltb top n w (nodes_init zero labels) in
    let nd := sup_fit ltb zero top labels w in
    let val q := wmax ltb (nth q (n_cost nd) zero) (d q) in
    ltb zero top = true ->
    (forall p q, (p < n)%nat -> (q < n)%nat -> p <> q ->
       ltb (w p q) zero = false /\ ltb (w p q) top = true) ->
    (exists s, (s < n)%nat /\ nth s (n_status fp) false = true) ->
    exists t, (t < n)%nat /\
      predict_one ltb zero nd d = (nth t (n_plabel nd) 0%nat, Some t) /\
      forall s, (s < n)%nat -> ltb (val s) (val t) = false.
Proof. exact (@sup_fit_predict_anyorder). Qed.

(* non-vacuity at W := nat: the equidistant query of C03_example_equidistant on the forest of
   C01_anyorder_example_result; samples 2 and 3 both offer the minimum 1, sample 2 wins *)
Theorem C03_anyorder_example :
  let nd := sup_fit Nat.ltb 0%nat 1000%nat ex_labels exn_w in
  let d k := nth k [5; 3; 1; 1; 4]%nat 0%nat in
  predict_one Nat.ltb 0%nat nd d = (0%nat, Some 2%nat) /\
  map (fun q => wmax Nat.ltb (nth q (n_cost nd) 0%nat) (d q)) (seq 0 5) = [5; 3; 1; 1; 4]%nat.
Proof. exact exn_predict. Qed.
