(* C04 (supervised half) for an ARBITRARY weight type [W] whose comparison [ltb] is a strict total
   order (Base/TotalOrder.v).  Statements of Props/C04.v with  a < b  written  ltb a b = true  and
   [tie_free] stated at W ([tie_freeW], spelled out in C04_tie_freeW_def: symmetric, pairwise
   distinct on unordered pairs of distinct samples, strictly between [zero] and [top]).  Derived
   from the theorems at W := Z by the abstraction theorems of Proofs/ParamSup.v ([param_sup_fit],
   [param_predict_one]) and the rank embedding of Proofs/OrderEmbed.v, which is injective on the
   weights and therefore preserves tie-freeness (Proofs/Lift2Resub.v). *)
From Coq Require Import List Arith.
From OPF Require Import Base.Lists Base.TotalOrder Model.Heap Model.Sup Proofs.ResubExample
  Proofs.Lift2Resub.
Import ListNotations.

(* the hypothesis, spelled out *)
Theorem C04_tie_freeW_def :
  forall (W : Type) (ltb : W -> W -> bool) (n : nat) (w : nat -> nat -> W) (zero top : W),
    tie_freeW ltb n w zero top <->
    (forall p q, p < n -> q < n -> w p q = w q p) /\
    (forall a b c d, a < n -> b < n -> c < n -> d < n -> a <> b -> c <> d ->
       w a b = w c d -> (a = c /\ b = d) \/ (a = d /\ b = c)) /\
    (forall p q, p < n -> q < n -> p <> q -> ltb zero (w p q) = true /\ ltb (w p q) top = true).
Proof. exact (fun W ltb n w zero top => conj (fun H => H) (fun H => H)). Qed.

(* Every training sample is assigned its own label. *)
Theorem C04_sup_train_labels_own_anyorder :
  forall (W : Type) (ltb : W -> W -> bool),
    strict_total_order ltb ->
    forall (zero top : W) (n : nat) (w : nat -> nat -> W) (labels : list nat),
    length labels = n -> tie_freeW ltb n w zero top ->
    (exists a b, a < n /\ b < n /\ nth a labels 0 <> nth b labels 0) ->
    let nd := sup_fit ltb zero top labels w in
    forall q, q < n -> nth q (n_plabel nd) 0 = nth q labels 0.
Proof. exact (@sup_train_labels_own_anyorder). Qed.

(* The reason: every sample is reached from a prototype strictly below its distance to any
   sample of another class, so no arc of the forest joins two classes. *)
Theorem C04_sup_cost_below_other_class_anyorder :
  forall (W : Type) (ltb : W -> W -> bool),
    strict_total_order ltb ->
    forall (zero top : W) (n : nat) (w : nat -> nat -> W) (labels : list nat),
    length labels = n -> tie_freeW ltb n w zero top ->
    (exists a b, a < n /\ b < n /\ nth a labels 0 <> nth b labels 0) ->
    let nd := sup_fit ltb zero top labels w in
    forall a b, a < n -> b < n -> nth a labels 0 <> nth b labels 0 ->
      ltb (nth b (n_cost nd) zero) (w a b) = true.
Proof. exact (@sup_cost_lt_cross_anyorder). Qed.

Theorem C04_sup_forest_arcs_within_class_anyorder :
  forall (W : Type) (ltb : W -> W -> bool),
    strict_total_order ltb ->
    forall (zero top : W) (n : nat) (w : nat -> nat -> W) (labels : list nat),
    length labels = n -> tie_freeW ltb n w zero top ->
    (exists a b, a < n /\ b < n /\ nth a labels 0 <> nth b labels 0) ->
    let nd := sup_fit ltb zero top labels w in
    forall q p, q < n -> nth q (n_pred nd) None = Some p -> nth p labels 0 = nth q labels 0.
Proof. exact (@sup_link_same_label_anyorder). Qed.

(* Predicting training row t - distances [d s = w s t] to the other samples and self-distance
   [zero] - returns t's label. *)
Theorem C04_sup_predict_train_exact_anyorder :
  forall (W : Type) (ltb : W -> W -> bool),
    strict_total_order ltb ->
    forall (zero top : W) (n : nat) (w : nat -> nat -> W) (labels : list nat),
    length labels = n -> tie_freeW ltb n w zero top ->
    (exists a b, a < n /\ b < n /\ nth a labels 0 <> nth b labels 0) ->
    let nd := sup_fit ltb zero top labels w in
    forall (t : nat) (d : nat -> W), t < n ->
      d t = zero -> (forall s, s < n -> s <> t -> d s = w s t) ->
      fst (predict_one ltb zero nd d) = nth t labels 0.
Proof. exact (@sup_predict_train_exact_anyorder). Qed.

(* The whole training set as one batch: zero resubstitution error. *)
Theorem C04_sup_predict_train_batch_exact_anyorder :
  forall (W : Type) (ltb : W -> W -> bool),
    strict_total_order ltb ->
    forall (zero top : W) (n : nat) (w : nat -> nat -> W) (labels : list nat),
    length labels = n -> tie_freeW ltb n w zero top ->
    (exists a b, a < n /\ b < n /\ nth a labels 0 <> nth b labels 0) ->
    let nd := sup_fit ltb zero top labels w in
    snd (predict_batch ltb zero nd
           (map (fun t => fun s => if Nat.eqb s t then zero else w s t) (seq 0 n))) = labels.
Proof. exact (@sup_predict_train_batch_exact_anyorder). Qed.

(* non-vacuity at W := nat: the five points 0, 2, 6, 14, 30 of C04_example_premises, classes
   0 0 0 1 1, weights (gaps) read as naturals *)
Theorem C04_anyorder_example_premises :
  strict_total_order Nat.ltb /\ tie_freeW Nat.ltb 5 rxn_w 0 1000 /\ length rx_labels = 5 /\
  (exists a b, a < 5 /\ b < 5 /\ nth a rx_labels 0 <> nth b rx_labels 0).
Proof. exact rxn_premises. Qed.

Theorem C04_anyorder_example_result :
  sup_fit Nat.ltb 0 1000 rx_labels rxn_w
  = mkNodes [4; 4; 0; 0; 16] [Some 1; Some 2; None; None; Some 3] [0; 0; 0; 1; 1]
            [0; 0; 0; 1; 1] [false; false; true; true; false]
            [false; false; false; false; false] [2; 3; 1; 0; 4] /\
  snd (predict_batch Nat.ltb 0 (sup_fit Nat.ltb 0 1000 rx_labels rxn_w)
         (map (train_rowW 0 rxn_w) (seq 0 5))) = rx_labels.
Proof. exact rxn_result. Qed.
