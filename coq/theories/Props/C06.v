(* Property C06.  Every distance identifier accepted by the models resolves, through the registry
   and through each model's `distance` option, to a function whose value on any two equal-length
   vectors equals the metric's closed-form definition (over the reals; "up to floating-point
   rounding" is the gap between the real-number evaluator and numpy, see DESIGN section 8), for
   every vector length.  The accepted identifiers and the registry keys are the same set.

   resolve k          = the term generated from the function DISTANCES[k] of opfython/math/distance.py
                        (registry: key -> function name; definitions: function name -> term)
   metric_value m x y = its value over the reals, `@d.avoid_zero_division` included, extra
                        parameters at their defaults (the way every model calls `distance_fn(x, y)`)
   sp_<k>             = the closed form, Spec/MetricSpec.v;  shift v = v + EPSILON entrywise
   47 identifiers, 48 conjuncts (gaussian: at its default gamma = 1 and for every gamma). *)
From Coq Require Import Reals String List Permutation.
From OPF Require Import Spec.MetricSpec Model.MetricIR Gen.Metrics_gen Gen.Registry_gen Model.MetricEval
     Proofs.ClosedForms Proofs.Resolved Proofs.RegistryOk.

Theorem C06_closed_forms :
  ((exists m, resolve "additive_symmetric"%string = Some m /\
     forall x y : list R, length x = length y -> metric_value m x y = sp_additive_symmetric (shift x) (shift y))
  /\ (exists m, resolve "average_euclidean"%string = Some m /\
     forall x y : list R, length x = length y -> metric_value m x y = sp_average_euclidean x y)
  /\ (exists m, resolve "bhattacharyya"%string = Some m /\
     forall x y : list R, length x = length y -> metric_value m x y = sp_bhattacharyya (shift x) (shift y))
  /\ (exists m, resolve "bray_curtis"%string = Some m /\
     forall x y : list R, length x = length y -> metric_value m x y = sp_bray_curtis (shift x) (shift y))
  /\ (exists m, resolve "canberra"%string = Some m /\
     forall x y : list R, length x = length y -> metric_value m x y = sp_canberra (shift x) (shift y))
  /\ (exists m, resolve "chebyshev"%string = Some m /\
     forall x y : list R, length x = length y -> metric_value m x y = sp_chebyshev x y)
  /\ (exists m, resolve "chi_squared"%string = Some m /\
     forall x y : list R, length x = length y -> metric_value m x y = sp_chi_squared (shift x) (shift y))
  /\ (exists m, resolve "chord"%string = Some m /\
     forall x y : list R, length x = length y -> metric_value m x y = sp_chord (shift x) (shift y))
  /\ (exists m, resolve "clark"%string = Some m /\
     forall x y : list R, length x = length y -> metric_value m x y = sp_clark (shift x) (shift y))
  /\ (exists m, resolve "cosine"%string = Some m /\
     forall x y : list R, length x = length y -> metric_value m x y = sp_cosine (shift x) (shift y))
  /\ (exists m, resolve "dice"%string = Some m /\
     forall x y : list R, length x = length y -> metric_value m x y = sp_dice (shift x) (shift y))
  /\ (exists m, resolve "divergence"%string = Some m /\
     forall x y : list R, length x = length y -> metric_value m x y = sp_divergence (shift x) (shift y))
  /\ (exists m, resolve "euclidean"%string = Some m /\
     forall x y : list R, length x = length y -> metric_value m x y = sp_euclidean x y)
  /\ (exists m, resolve "gaussian"%string = Some m /\
     forall x y : list R, length x = length y -> metric_value m x y = sp_gaussian 1 x y)
  /\ (exists m, resolve "gaussian"%string = Some m /\
     forall (g : R) (x y : list R), length x = length y ->
       metric_value_with (fun _ => g) m x y = sp_gaussian g x y)
  /\ (exists m, resolve "gower"%string = Some m /\
     forall x y : list R, length x = length y -> metric_value m x y = sp_gower x y)
  /\ (exists m, resolve "hamming"%string = Some m /\
     forall x y : list R, length x = length y -> metric_value m x y = sp_hamming x y)
  /\ (exists m, resolve "hassanat"%string = Some m /\
     forall x y : list R, length x = length y -> metric_value m x y = sp_hassanat (shift x) (shift y))
  /\ (exists m, resolve "hellinger"%string = Some m /\
     forall x y : list R, length x = length y -> metric_value m x y = sp_hellinger x y)
  /\ (exists m, resolve "jaccard"%string = Some m /\
     forall x y : list R, length x = length y -> metric_value m x y = sp_jaccard (shift x) (shift y))
  /\ (exists m, resolve "jeffreys"%string = Some m /\
     forall x y : list R, length x = length y -> metric_value m x y = sp_jeffreys (shift x) (shift y))
  /\ (exists m, resolve "jensen"%string = Some m /\
     forall x y : list R, length x = length y -> metric_value m x y = sp_jensen (shift x) (shift y))
  /\ (exists m, resolve "jensen_shannon"%string = Some m /\
     forall x y : list R, length x = length y -> metric_value m x y = sp_jensen_shannon (shift x) (shift y))
  /\ (exists m, resolve "k_divergence"%string = Some m /\
     forall x y : list R, length x = length y -> metric_value m x y = sp_k_divergence (shift x) (shift y))
  /\ (exists m, resolve "kulczynski"%string = Some m /\
     forall x y : list R, length x = length y -> metric_value m x y = sp_kulczynski (shift x) (shift y))
  /\ (exists m, resolve "kullback_leibler"%string = Some m /\
     forall x y : list R, length x = length y -> metric_value m x y = sp_kullback_leibler (shift x) (shift y))
  /\ (exists m, resolve "log_euclidean"%string = Some m /\
     forall x y : list R, length x = length y -> metric_value m x y = sp_log_euclidean x y)
  /\ (exists m, resolve "log_squared_euclidean"%string = Some m /\
     forall x y : list R, length x = length y -> metric_value m x y = sp_log_squared_euclidean x y)
  /\ (exists m, resolve "lorentzian"%string = Some m /\
     forall x y : list R, length x = length y -> metric_value m x y = sp_lorentzian x y)
  /\ (exists m, resolve "manhattan"%string = Some m /\
     forall x y : list R, length x = length y -> metric_value m x y = sp_manhattan x y)
  /\ (exists m, resolve "matusita"%string = Some m /\
     forall x y : list R, length x = length y -> metric_value m x y = sp_matusita x y)
  /\ (exists m, resolve "max_symmetric"%string = Some m /\
     forall x y : list R, length x = length y -> metric_value m x y = sp_max_symmetric (shift x) (shift y))
  /\ (exists m, resolve "mean_censored_euclidean"%string = Some m /\
     forall x y : list R, length x = length y -> metric_value m x y = sp_mean_censored_euclidean (shift x) (shift y))
  /\ (exists m, resolve "min_symmetric"%string = Some m /\
     forall x y : list R, length x = length y -> metric_value m x y = sp_min_symmetric (shift x) (shift y))
  /\ (exists m, resolve "neyman"%string = Some m /\
     forall x y : list R, length x = length y -> metric_value m x y = sp_neyman (shift x) (shift y))
  /\ (exists m, resolve "non_intersection"%string = Some m /\
     forall x y : list R, length x = length y -> metric_value m x y = sp_non_intersection x y)
  /\ (exists m, resolve "pearson"%string = Some m /\
     forall x y : list R, length x = length y -> metric_value m x y = sp_pearson (shift x) (shift y))
  /\ (exists m, resolve "sangvi"%string = Some m /\
     forall x y : list R, length x = length y -> metric_value m x y = sp_sangvi (shift x) (shift y))
  /\ (exists m, resolve "soergel"%string = Some m /\
     forall x y : list R, length x = length y -> metric_value m x y = sp_soergel (shift x) (shift y))
  /\ (exists m, resolve "squared"%string = Some m /\
     forall x y : list R, length x = length y -> metric_value m x y = sp_squared (shift x) (shift y))
  /\ (exists m, resolve "squared_chord"%string = Some m /\
     forall x y : list R, length x = length y -> metric_value m x y = sp_squared_chord x y)
  /\ (exists m, resolve "squared_euclidean"%string = Some m /\
     forall x y : list R, length x = length y -> metric_value m x y = sp_squared_euclidean x y)
  /\ (exists m, resolve "statistic"%string = Some m /\
     forall x y : list R, length x = length y -> metric_value m x y = sp_statistic (shift x) (shift y))
  /\ (exists m, resolve "topsoe"%string = Some m /\
     forall x y : list R, length x = length y -> metric_value m x y = sp_topsoe (shift x) (shift y))
  /\ (exists m, resolve "vicis_symmetric1"%string = Some m /\
     forall x y : list R, length x = length y -> metric_value m x y = sp_vicis_symmetric1 (shift x) (shift y))
  /\ (exists m, resolve "vicis_symmetric2"%string = Some m /\
     forall x y : list R, length x = length y -> metric_value m x y = sp_vicis_symmetric2 (shift x) (shift y))
  /\ (exists m, resolve "vicis_symmetric3"%string = Some m /\
     forall x y : list R, length x = length y -> metric_value m x y = sp_vicis_symmetric3 (shift x) (shift y))
  /\ (exists m, resolve "vicis_wave_hedges"%string = Some m /\
     forall x y : list R, length x = length y -> metric_value m x y = sp_vicis_wave_hedges (shift x) (shift y)))%R.
Proof. exact closed_forms_all. Qed.

Theorem C06_registry_eq_whitelist :
  Permutation (map fst registry) whitelist
  /\ NoDup whitelist
  /\ length registry = 47%nat
  /\ (forall k f, In (k, f) registry ->
        f = (k ++ "_distance")%string
        /\ exists m, lookup_ir f all_metrics_ir = Some m /\ m_name m = f).
Proof. exact registry_eq_whitelist. Qed.

Theorem C06_accepted_iff_registered :
  forall k : string, In k whitelist <-> In k (map fst registry).
Proof. exact accepted_iff_registered. Qed.

Theorem C06_lookup_plumbing :
  init_lookup_ok = true
  /\ map fst ctor_forwards
     = ("KNNSupervisedOPF" :: "SemiSupervisedOPF" :: "SupervisedOPF" :: "UnsupervisedOPF" :: nil)%string
  /\ Forall (fun cb => snd cb = true) ctor_forwards.
Proof. exact lookup_plumbing. Qed.
