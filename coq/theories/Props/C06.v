(* Property C06.  Every distance identifier accepted by the models resolves, through the registry
   and through each model's `distance` option, to a function whose value on any two equal-length
   vectors equals the metric's closed-form definition (over the reals; "up to floating-point
   rounding" is the gap between the real-number evaluator and numpy, see DESIGN section 8), for
   every vector length.  The accepted identifiers and the registry keys are the same set.

   resolve k          = the term generated from the function DISTANCES[k] of opfython/math/distance.py
   metric_value m x y = its value over the reals, `@d.avoid_zero_division` included
   sp_<k>             = the closed form, Spec/MetricSpec.v;  shift v = v + EPSILON entrywise *)
From Coq Require Import Reals String List Permutation.
From OPF Require Import Spec.MetricSpec Model.MetricIR Gen.Metrics_gen Gen.Registry_gen Model.MetricEval
     Proofs.ClosedForms Proofs.Resolved Proofs.RegistryOk.

Theorem C06_closed_form_additive_symmetric :
  exists m, resolve "additive_symmetric"%string = Some m /\
    forall x y : list R, length x = length y -> metric_value m x y = sp_additive_symmetric (shift x) (shift y).
Proof. exact resolved_additive_symmetric. Qed.

Theorem C06_closed_form_average_euclidean :
  exists m, resolve "average_euclidean"%string = Some m /\
    forall x y : list R, length x = length y -> metric_value m x y = sp_average_euclidean x y.
Proof. exact resolved_average_euclidean. Qed.

Theorem C06_closed_form_bhattacharyya :
  exists m, resolve "bhattacharyya"%string = Some m /\
    forall x y : list R, length x = length y -> metric_value m x y = sp_bhattacharyya (shift x) (shift y).
Proof. exact resolved_bhattacharyya. Qed.

Theorem C06_closed_form_bray_curtis :
  exists m, resolve "bray_curtis"%string = Some m /\
    forall x y : list R, length x = length y -> metric_value m x y = sp_bray_curtis (shift x) (shift y).
Proof. exact resolved_bray_curtis. Qed.

Theorem C06_closed_form_canberra :
  exists m, resolve "canberra"%string = Some m /\
    forall x y : list R, length x = length y -> metric_value m x y = sp_canberra (shift x) (shift y).
Proof. exact resolved_canberra. Qed.

Theorem C06_closed_form_chebyshev :
  exists m, resolve "chebyshev"%string = Some m /\
    forall x y : list R, length x = length y -> metric_value m x y = sp_chebyshev x y.
Proof. exact resolved_chebyshev. Qed.

Theorem C06_closed_form_chi_squared :
  exists m, resolve "chi_squared"%string = Some m /\
    forall x y : list R, length x = length y -> metric_value m x y = sp_chi_squared (shift x) (shift y).
Proof. exact resolved_chi_squared. Qed.

Theorem C06_closed_form_chord :
  exists m, resolve "chord"%string = Some m /\
    forall x y : list R, length x = length y -> metric_value m x y = sp_chord (shift x) (shift y).
Proof. exact resolved_chord. Qed.

Theorem C06_closed_form_clark :
  exists m, resolve "clark"%string = Some m /\
    forall x y : list R, length x = length y -> metric_value m x y = sp_clark (shift x) (shift y).
Proof. exact resolved_clark. Qed.

Theorem C06_closed_form_cosine :
  exists m, resolve "cosine"%string = Some m /\
    forall x y : list R, length x = length y -> metric_value m x y = sp_cosine (shift x) (shift y).
Proof. exact resolved_cosine. Qed.

Theorem C06_closed_form_dice :
  exists m, resolve "dice"%string = Some m /\
    forall x y : list R, length x = length y -> metric_value m x y = sp_dice (shift x) (shift y).
Proof. exact resolved_dice. Qed.

Theorem C06_closed_form_divergence :
  exists m, resolve "divergence"%string = Some m /\
    forall x y : list R, length x = length y -> metric_value m x y = sp_divergence (shift x) (shift y).
Proof. exact resolved_divergence. Qed.

Theorem C06_closed_form_euclidean :
  exists m, resolve "euclidean"%string = Some m /\
    forall x y : list R, length x = length y -> metric_value m x y = sp_euclidean x y.
Proof. exact resolved_euclidean. Qed.

Theorem C06_closed_form_gaussian :
  exists m, resolve "gaussian"%string = Some m /\
    forall x y : list R, length x = length y -> metric_value m x y = sp_gaussian 1%R x y.
Proof. exact resolved_gaussian. Qed.

Theorem C06_closed_form_gaussian_any_gamma :
  exists m, resolve "gaussian"%string = Some m /\
    forall (g : R) (x y : list R), length x = length y ->
      metric_value_with (fun _ => g) m x y = sp_gaussian g x y.
Proof. exact resolved_gaussian_gamma. Qed.

Theorem C06_closed_form_gower :
  exists m, resolve "gower"%string = Some m /\
    forall x y : list R, length x = length y -> metric_value m x y = sp_gower x y.
Proof. exact resolved_gower. Qed.

Theorem C06_closed_form_hamming :
  exists m, resolve "hamming"%string = Some m /\
    forall x y : list R, length x = length y -> metric_value m x y = sp_hamming x y.
Proof. exact resolved_hamming. Qed.

Theorem C06_closed_form_hassanat :
  exists m, resolve "hassanat"%string = Some m /\
    forall x y : list R, length x = length y -> metric_value m x y = sp_hassanat (shift x) (shift y).
Proof. exact resolved_hassanat. Qed.

Theorem C06_closed_form_hellinger :
  exists m, resolve "hellinger"%string = Some m /\
    forall x y : list R, length x = length y -> metric_value m x y = sp_hellinger x y.
Proof. exact resolved_hellinger. Qed.

Theorem C06_closed_form_jaccard :
  exists m, resolve "jaccard"%string = Some m /\
    forall x y : list R, length x = length y -> metric_value m x y = sp_jaccard (shift x) (shift y).
Proof. exact resolved_jaccard. Qed.

Theorem C06_closed_form_jeffreys :
  exists m, resolve "jeffreys"%string = Some m /\
    forall x y : list R, length x = length y -> metric_value m x y = sp_jeffreys (shift x) (shift y).
Proof. exact resolved_jeffreys. Qed.

Theorem C06_closed_form_jensen :
  exists m, resolve "jensen"%string = Some m /\
    forall x y : list R, length x = length y -> metric_value m x y = sp_jensen (shift x) (shift y).
Proof. exact resolved_jensen. Qed.

Theorem C06_closed_form_jensen_shannon :
  exists m, resolve "jensen_shannon"%string = Some m /\
    forall x y : list R, length x = length y -> metric_value m x y = sp_jensen_shannon (shift x) (shift y).
Proof. exact resolved_jensen_shannon. Qed.

Theorem C06_closed_form_k_divergence :
  exists m, resolve "k_divergence"%string = Some m /\
    forall x y : list R, length x = length y -> metric_value m x y = sp_k_divergence (shift x) (shift y).
Proof. exact resolved_k_divergence. Qed.

Theorem C06_closed_form_kulczynski :
  exists m, resolve "kulczynski"%string = Some m /\
    forall x y : list R, length x = length y -> metric_value m x y = sp_kulczynski (shift x) (shift y).
Proof. exact resolved_kulczynski. Qed.

Theorem C06_closed_form_kullback_leibler :
  exists m, resolve "kullback_leibler"%string = Some m /\
    forall x y : list R, length x = length y -> metric_value m x y = sp_kullback_leibler (shift x) (shift y).
Proof. exact resolved_kullback_leibler. Qed.

Theorem C06_closed_form_log_euclidean :
  exists m, resolve "log_euclidean"%string = Some m /\
    forall x y : list R, length x = length y -> metric_value m x y = sp_log_euclidean x y.
Proof. exact resolved_log_euclidean. Qed.

Theorem C06_closed_form_log_squared_euclidean :
  exists m, resolve "log_squared_euclidean"%string = Some m /\
    forall x y : list R, length x = length y -> metric_value m x y = sp_log_squared_euclidean x y.
Proof. exact resolved_log_squared_euclidean. Qed.

Theorem C06_closed_form_lorentzian :
  exists m, resolve "lorentzian"%string = Some m /\
    forall x y : list R, length x = length y -> metric_value m x y = sp_lorentzian x y.
Proof. exact resolved_lorentzian. Qed.

Theorem C06_closed_form_manhattan :
  exists m, resolve "manhattan"%string = Some m /\
    forall x y : list R, length x = length y -> metric_value m x y = sp_manhattan x y.
Proof. exact resolved_manhattan. Qed.

Theorem C06_closed_form_matusita :
  exists m, resolve "matusita"%string = Some m /\
    forall x y : list R, length x = length y -> metric_value m x y = sp_matusita x y.
Proof. exact resolved_matusita. Qed.

Theorem C06_closed_form_max_symmetric :
  exists m, resolve "max_symmetric"%string = Some m /\
    forall x y : list R, length x = length y -> metric_value m x y = sp_max_symmetric (shift x) (shift y).
Proof. exact resolved_max_symmetric. Qed.

Theorem C06_closed_form_mean_censored_euclidean :
  exists m, resolve "mean_censored_euclidean"%string = Some m /\
    forall x y : list R, length x = length y -> metric_value m x y = sp_mean_censored_euclidean (shift x) (shift y).
Proof. exact resolved_mean_censored_euclidean. Qed.

Theorem C06_closed_form_min_symmetric :
  exists m, resolve "min_symmetric"%string = Some m /\
    forall x y : list R, length x = length y -> metric_value m x y = sp_min_symmetric (shift x) (shift y).
Proof. exact resolved_min_symmetric. Qed.

Theorem C06_closed_form_neyman :
  exists m, resolve "neyman"%string = Some m /\
    forall x y : list R, length x = length y -> metric_value m x y = sp_neyman (shift x) (shift y).
Proof. exact resolved_neyman. Qed.

Theorem C06_closed_form_non_intersection :
  exists m, resolve "non_intersection"%string = Some m /\
    forall x y : list R, length x = length y -> metric_value m x y = sp_non_intersection x y.
Proof. exact resolved_non_intersection. Qed.

Theorem C06_closed_form_pearson :
  exists m, resolve "pearson"%string = Some m /\
    forall x y : list R, length x = length y -> metric_value m x y = sp_pearson (shift x) (shift y).
Proof. exact resolved_pearson. Qed.

Theorem C06_closed_form_sangvi :
  exists m, resolve "sangvi"%string = Some m /\
    forall x y : list R, length x = length y -> metric_value m x y = sp_sangvi (shift x) (shift y).
Proof. exact resolved_sangvi. Qed.

Theorem C06_closed_form_soergel :
  exists m, resolve "soergel"%string = Some m /\
    forall x y : list R, length x = length y -> metric_value m x y = sp_soergel (shift x) (shift y).
Proof. exact resolved_soergel. Qed.

Theorem C06_closed_form_squared :
  exists m, resolve "squared"%string = Some m /\
    forall x y : list R, length x = length y -> metric_value m x y = sp_squared (shift x) (shift y).
Proof. exact resolved_squared. Qed.

Theorem C06_closed_form_squared_chord :
  exists m, resolve "squared_chord"%string = Some m /\
    forall x y : list R, length x = length y -> metric_value m x y = sp_squared_chord x y.
Proof. exact resolved_squared_chord. Qed.

Theorem C06_closed_form_squared_euclidean :
  exists m, resolve "squared_euclidean"%string = Some m /\
    forall x y : list R, length x = length y -> metric_value m x y = sp_squared_euclidean x y.
Proof. exact resolved_squared_euclidean. Qed.

Theorem C06_closed_form_statistic :
  exists m, resolve "statistic"%string = Some m /\
    forall x y : list R, length x = length y -> metric_value m x y = sp_statistic (shift x) (shift y).
Proof. exact resolved_statistic. Qed.

Theorem C06_closed_form_topsoe :
  exists m, resolve "topsoe"%string = Some m /\
    forall x y : list R, length x = length y -> metric_value m x y = sp_topsoe (shift x) (shift y).
Proof. exact resolved_topsoe. Qed.

Theorem C06_closed_form_vicis_symmetric1 :
  exists m, resolve "vicis_symmetric1"%string = Some m /\
    forall x y : list R, length x = length y -> metric_value m x y = sp_vicis_symmetric1 (shift x) (shift y).
Proof. exact resolved_vicis_symmetric1. Qed.

Theorem C06_closed_form_vicis_symmetric2 :
  exists m, resolve "vicis_symmetric2"%string = Some m /\
    forall x y : list R, length x = length y -> metric_value m x y = sp_vicis_symmetric2 (shift x) (shift y).
Proof. exact resolved_vicis_symmetric2. Qed.

Theorem C06_closed_form_vicis_symmetric3 :
  exists m, resolve "vicis_symmetric3"%string = Some m /\
    forall x y : list R, length x = length y -> metric_value m x y = sp_vicis_symmetric3 (shift x) (shift y).
Proof. exact resolved_vicis_symmetric3. Qed.

Theorem C06_closed_form_vicis_wave_hedges :
  exists m, resolve "vicis_wave_hedges"%string = Some m /\
    forall x y : list R, length x = length y -> metric_value m x y = sp_vicis_wave_hedges (shift x) (shift y).
Proof. exact resolved_vicis_wave_hedges. Qed.

Theorem C06_registry_eq_whitelist :
  Permutation (map fst registry) whitelist
  /\ NoDup whitelist
  /\ length registry = 47%nat
  /\ (forall k f, In (k, f) registry ->
        f = (k ++ "_distance")%string
        /\ exists m, lookup_ir f all_metrics_ir = Some m /\ m_name m = f).
Proof. exact registry_eq_whitelist. Qed.

Theorem C06_accepted_iff_registered :
  forall k : string, In k whitelist <-> In k (map fst registry).
Proof. exact accepted_iff_registered. Qed.

Theorem C06_lookup_plumbing :
  init_lookup_ok = true
  /\ map fst ctor_forwards
     = ("KNNSupervisedOPF" :: "SemiSupervisedOPF" :: "SupervisedOPF" :: "UnsupervisedOPF" :: nil)%string
  /\ Forall (fun cb => snd cb = true) ctor_forwards.
Proof. exact lookup_plumbing. Qed.
