(* C12, order-only part, for an ARBITRARY weight type [W] whose comparison [ltb] is a strict total
   order (Base/TotalOrder.v).  Statements of Props/C12_arcs.v (C12_knn_scan_spec, C12_arcs_exact)
   with  a <= b  written  ltb b a = false,  a < b  written  ltb a b = true  and Z.max replaced by
   the model's own [wmaxk ltb] (Model/Knn.v).  Derived from the theorems at W := Z by the
   abstraction theorems of Proofs/ParamKnn.v ([rescale_knn_scan_on], [rescale_create_arcs_on])
   and the rank embedding of Proofs/OrderEmbed.v (Proofs/Lift2Knn.v).

   The stable insertion sort by (distance, index) is defined at W in Proofs/Lift2Knn.v ([insW],
   [isortW]: [ins], [isort] of Proofs/KnnSort.v with Z.ltb replaced by ltb; unfolding equations
   below).  The lifted scan theorem keeps both forms of the Z statement: the "slots are ordered /
   every left-out candidate is larger" clauses and the equation with the prefix of [isortW].
   Not lifted: the pdf half of C12 (Props/C12_pdf.v) is arithmetic, not order-only. *)
From Coq Require Import List Arith.
From OPF Require Import Base.Lists Base.TotalOrder Model.Knn Proofs.KnnSort Proofs.Lift2Knn.
Import ListNotations.

(* [insW j l] inserts [j] behind every element whose distance is not above that of [j];
   [isortW] inserts the candidates one after the other into the empty list *)
Theorem C12_isortW_unfold :
  forall (W : Type) (ltb : W -> W -> bool) (dist : nat -> W),
    (forall j, insW ltb dist j [] = [j]) /\
    (forall j y t, insW ltb dist j (y :: t)
                   = if ltb (dist j) (dist y) then j :: y :: t else y :: insW ltb dist j t) /\
    (forall C, isortW ltb dist C = fold_left (fun S j => insW ltb dist j S) C []).
Proof. exact (fun W ltb dist => conj (fun j => eq_refl) (conj (fun j y t => eq_refl) (fun C => eq_refl))). Qed.

Theorem C12_knn_scan_spec_anyorder :
  forall (W : Type) (ltb : W -> W -> bool),
    strict_total_order ltb ->
    forall (top : W) (k n : nat) (dist : nat -> W) (skip : option nat) (ns0 : list nat),
    k < length ns0 ->
    (forall j, j < n -> skip <> Some j -> ltb (dist j) top = true) ->
    forall ds ns, knn_scan ltb top k n dist skip ns0 = (ds, ns) ->
    let m := Nat.min k (match skip with Some i => if i <? n then n - 1 else n | None => n end) in
    length ds = S k /\ length ns = length ns0 /\
    (forall l, l < m -> nth l ns 0 < n /\ skip <> Some (nth l ns 0) /\
                        nth l ds top = dist (nth l ns 0) /\ ltb (nth l ds top) top = true) /\
    (forall l, m <= l -> l < k -> nth l ds top = top) /\
    NoDup (firstn m ns) /\
    (forall a b, a < b -> b < m ->
       ltb (dist (nth a ns 0)) (dist (nth b ns 0)) = true \/
       (dist (nth a ns 0) = dist (nth b ns 0) /\ nth a ns 0 < nth b ns 0)) /\
    (forall j, j < n -> skip <> Some j -> ~ In j (firstn m ns) ->
       forall l, l < m -> ltb (dist (nth l ns 0)) (dist j) = true \/
                          (dist (nth l ns 0) = dist j /\ nth l ns 0 < j)) /\
    firstn m ns = firstn k (isortW ltb dist (cands skip n)) /\
    firstn m ds = map dist (firstn k (isortW ltb dist (cands skip n))).
Proof. exact (@knn_scan_spec_anyorder). Qed.

(* Arc creation on a fresh subgraph (empty adjacency lists, density 0), weights in [zero, top), any k,
   any n, duplicates and ties allowed; [thr] and [one] are arbitrary elements of W. *)
Theorem C12_arcs_exact_anyorder :
  forall (W : Type) (ltb : W -> W -> bool),
    strict_total_order ltb ->
    forall (zero top thr one : W) (k n : nat) (w : nat -> nat -> W) (labels : list nat),
    length labels = n ->
    (forall i j, i < n -> j < n -> i <> j -> ltb (w i j) zero = false /\ ltb (w i j) top = true) ->
    forall g' maxd, create_arcs ltb zero top thr one k n w (knn_init zero labels) = (g', maxd) ->
    let adj i := nth i (k_adj g') [] in
    let dl i l := nth l (map (w i) (adj i)) zero in        (* l-th distance of node i, zero beyond its list *)
    let rad i := nth i (k_radius g') zero in
    let M := fold_right (wmaxk ltb) zero (map rad (seq 0 n)) in
    (forall i, i < n ->
       length (adj i) = Nat.min k (n - 1) /\ NoDup (adj i) /\ ~ In i (adj i) /\
       (forall j, In j (adj i) -> j < n) /\
       (forall a b, a <= b -> b < length (adj i) ->
          ltb (w i (nth b (adj i) 0)) (w i (nth a (adj i) 0)) = false) /\
       (forall j, j < n -> j <> i -> ~ In j (adj i) -> forall a, In a (adj i) ->
          ltb (w i j) (w i a) = false) /\
       (forall j, j < n -> j <> i -> ~ In j (adj i) -> ltb (w i j) (rad i) = false) /\
       rad i = last (map (w i) (adj i)) zero /\ (n = 1 -> rad i = zero)) /\
    length maxd = k /\
    (forall l, nth l maxd zero = fold_right (wmaxk ltb) zero (map (fun i => dl i l) (seq 0 n))) /\
    k_gdens g' = (if ltb M thr then one else M).
Proof. exact (@arcs_exact_anyorder). Qed.

(* non-vacuity at W := nat: the 3x3 lattice of C12_lat_arcs, weights read as naturals, k = 3 *)
Theorem C12_anyorder_example_premises :
  strict_total_order Nat.ltb /\
  (forall i j, i < 9 -> j < 9 -> i <> j ->
     Nat.ltb (latn_w i j) 0 = false /\ Nat.ltb (latn_w i j) 1000 = true).
Proof. exact latn_premises. Qed.

Theorem C12_anyorder_example_arcs :
  create_arcs Nat.ltb 0 1000 1 1 3 9 latn_w (knn_init 0 (repeat 0 9))
  = (mkKnn (repeat 0 9)
       [[1; 3; 4]; [0; 2; 4]; [1; 5; 4]; [0; 4; 6]; [1; 3; 5]; [2; 4; 8]; [3; 7; 4]; [4; 6; 8]; [5; 7; 4]]
       [2; 1; 2; 1; 1; 1; 2; 1; 2]
       (repeat 0 9) (repeat 0 9) (repeat 0 9) (repeat None 9) (repeat 0 9) (repeat 0 9) (repeat 0 9) []
       2 0,
     [1; 1; 2]).
Proof. exact latn_arcs. Qed.

Theorem C12_anyorder_example_scan :
  knn_scan Nat.ltb 1000 3 9 (latn_w 4) (Some 4) [0; 0; 0; 0] = ([1; 1; 1; 2], [1; 3; 5; 8]) /\
  firstn 3 (isortW Nat.ltb (latn_w 4) (cands (Some 4) 9)) = [1; 3; 5].
Proof. exact latn_scan_4. Qed.
