(* C19 - a saved and re-loaded model behaves identically to the original.
   The theorems are conditional on pickle's round trip (Section hypothesis [roundtrip], discharged by
   nothing in Coq: it is exercised by the correspondence on every run). *)
From Coq Require Import String List Bool.
From OPF Require Import Model.Persist Model.Effects Gen.Attrs_gen Gen.Stores_gen Proofs.PersistProofs Proofs.PersistGen.
Import ListNotations.
Open Scope string_scope.

Theorem C19_load_save_same_kind :
  forall (V file : Type) (enc : dict V -> file) (dec : file -> option (dict V)),
    (forall m, dec (enc m) = Some m) ->
    forall fresh m : dict V,
      (forall k, In k (keys V fresh) -> In k (keys V m)) ->
      exists m', load V file dec fresh (fst (save V file enc m)) = Some m' /\
                 forall k, get V m' k = get V m k.
Proof. exact load_save_same_kind. Qed.

Theorem C19_save_leaves_original :
  forall (V file : Type) (enc : dict V -> file) (m : dict V), snd (save V file enc m) = m.
Proof. exact save_leaves_original. Qed.

Theorem C19_loaded_model_predicts_identically :
  forall (V file In_ Out_ : Type) (enc : dict V -> file) (dec : file -> option (dict V)),
    (forall m, dec (enc m) = Some m) ->
    forall (predict_of_state : (string -> option V) -> In_ -> Out_) (fresh m : dict V),
      (forall k, In k (keys V fresh) -> In k (keys V m)) ->
      exists m', load V file dec fresh (fst (save V file enc m)) = Some m' /\
        forall x, (forall f g, (forall k, f k = g k) -> predict_of_state f x = predict_of_state g x) ->
        predict V In_ Out_ predict_of_state m' x = predict V In_ Out_ predict_of_state m x.
Proof. exact loaded_model_predicts_identically. Qed.

Theorem C19_save_load_shape : save_body_ok = true /\ load_body_ok = true.
Proof. exact save_load_shape. Qed.

Theorem C19_ctor_attrs_wellformed :
  forallb (fun ka => nodupb (snd ka) &&
                     forallb (fun a => string_in a (snd ka))
                             ["subgraph"; "distance"; "distance_fn"; "pre_computed_distance"; "pre_distances"])
          ctor_attrs = true
  /\ map fst ctor_attrs = ["SupervisedOPF"; "SemiSupervisedOPF"; "KNNSupervisedOPF"; "UnsupervisedOPF"].
Proof. exact ctor_attrs_wellformed. Qed.

Theorem C19_no_delete_sites : forallb (fun s => negb (String.eqb (s_kind s) "del")) stores = true.
Proof. exact no_delete_sites. Qed.
