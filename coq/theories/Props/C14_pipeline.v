(* C14 end to end, over the real numbers: KNNSupervisedOPF.predict and UnsupervisedOPF.predict for one
   query ON TOP OF the final training stage (Props/C13_pipeline.v), as the single term

       knn_query ROps fmax eps 1000 E (g', (c, mn, mx)) k dq            (Model/KnnPredict.v)

   where (g', (c, mn, mx)) is the result of [knn_sup_final] / [unsup_final] (Model/KnnFit.v) at [ROps].
   Composition of
     - Props/C14_anyorder.v (scan over ALL training samples, arg-max) at W := R, ltb := Rltb,
     - Props/C14_density.v (arithmetic of the query density),
     - Props/C13_pipeline.v (what training leaves in the graph: costs, labels, roots, cluster ids, min, max).
   No hypothesis is left about the fitted graph; all hypotheses are about the data and the constants:

     fmax, eps       c.FLOAT_MAX, c.EPSILON with 1 <= fmax, 0 < eps, 999 <= eps * fmax
                     (the library has 1e-20 * 1.8e308; needed so that no query density reaches -FLOAT_MAX)
     k, labels       best_k with 1 <= k <= n (unsupervised: k <= n - 1), the n training labels
     d i j           training distances, 0 <= d i j < fmax off the diagonal
     e i j           the training terms exp(-d i j / constant): ANY table with entries in [0, 1]
     dq j            distance between the query and training sample j, 0 <= dq j < fmax
     E               x |-> exp(-x / constant): ANY function with values in [0, 1] on x >= 0
                     (C14_pipeline_exp_term: exp(-x/c) is one for c > 0); the term of slot l is E(distances[l])

   [k_nearest_R dq n k N]: N lists the k nearest of ALL n training samples by (distance, index), nearest
   first - none is skipped, whatever the position of the query in its batch (see also Props/C09_pipeline.v).
   It determines N (C14_pipeline_k_nearest_unique).  The query's unmapped density divides by k (training
   divides by k + 1, Props/C13_pipeline.v).  The query density lies in [1, 1000) when the unmapped density
   lies within the training range [mn, mx]; an arbitrary query may fall outside (clauses for both sides). *)
From Coq Require Import Reals List Permutation.
From OPF Require Import Base.Lists Base.NumOps Base.TotalOrder Model.Heap Model.Knn Model.Pdf Model.KnnFit
  Model.KnnPredict Proofs.PdfBase Proofs.Lift2Knn Proofs.KnnPipeline Proofs.KnnPipelineExample
  Proofs.KnnPredictPipeline Proofs.KnnPredictPipelineMain Proofs.KnnPredictPipelineExample
  Proofs.KnnPipelineConstant Proofs.KnnLinkExample.
Import ListNotations.
Local Open Scope R_scope.

(* ---------- the abbreviations of this file ---------- *)

Definition k_nearest_R (dq : nat -> R) (n k : nat) (N : list nat) : Prop :=
  length N = k /\ NoDup N /\ (forall j, In j N -> (j < n)%nat) /\
  (forall a b, (a < b)%nat -> (b < k)%nat ->
     dq (nth a N 0%nat) < dq (nth b N 0%nat) \/
     (dq (nth a N 0%nat) = dq (nth b N 0%nat) /\ (nth a N 0%nat < nth b N 0%nat)%nat)) /\
  (forall j, (j < n)%nat -> ~ In j N -> forall a, In a N ->
     dq a < dq j \/ (dq a = dq j /\ (a < j)%nat)).

(* The prediction rule for one query against a graph [g] with recorded density range [mn, mx]:
   N = the k nearest; pdfq = (sum of their exp terms) / k; qd = 1 + 999 (pdfq - mn) / (mx - mn + eps) is
   what the code computes from the scan result; the answer is the FIRST entry of N (nearest first)
   maximising min(cost, qd). *)
Definition knn_prediction_rule (fmax eps : R) (k n : nat) (E : R -> R) (mn mx : R) (g : @knn R)
           (dq : nat -> R) (answer : option nat) : Prop :=
  let N := firstn k (isortW Rltb dq (seq 0 n)) in
  let pdfq := Rsum_upto k (fun l => E (dq (nth l N 0%nat))) / INR k in
  let qd := 1 + 999 * (pdfq - mn) / (mx - mn + eps) in
  let val s := Rmin (nth s (k_cost g) 0) qd in
  k_nearest_R dq n k N /\
  (0 <= pdfq <= 1 /\ 0 <= mn /\ mn <= mx /\ mx < 1 /\ 0 < mx - mn + eps /\ - fmax < qd /\
   (mn <= pdfq <= mx -> 1 <= qd < 1000) /\ (pdfq < mn -> qd < 1) /\
   (mx < pdfq -> 999 * (mx - mn) / (mx - mn + eps) + 1 < qd)) /\
  (forall ds ns, knn_scan Rltb fmax k n dq None (repeat 0%nat (S k)) = (ds, ns) ->
     firstn k ns = N /\ firstn k ds = map dq N /\
     query_densx ROps fmax eps 1000 E mn mx k ds ns = qd) /\
  exists r, (r < k)%nat /\ answer = Some (nth r N 0%nat) /\
    (forall r', (r' < k)%nat -> val (nth r' N 0%nat) <= val (nth r N 0%nat)) /\
    (forall r', (r' < r)%nat -> val (nth r' N 0%nat) < val (nth r N 0%nat)).

(* ---------- ingredients ---------- *)

Theorem C14_pipeline_k_nearest_unique :
  forall (dq : nat -> R) (n k : nat) (N N' : list nat),
    k_nearest_R dq n k N -> k_nearest_R dq n k N' -> N = N'.
Proof. exact k_nearest_unique. Qed.

Theorem C14_pipeline_query_density_unfold :
  forall (fmax eps : R) (E : R -> R) (mn mx : R) (k : nat) (ds : list R) (ns : list nat),
    query_densx ROps fmax eps 1000 E mn mx k ds ns
    = query_density ROps 1000 eps mn mx k (fun l => E (nth l ds fmax)).
Proof. exact (fun fmax eps E mn mx k ds ns => eq_refl). Qed.

Theorem C14_pipeline_exp_term :
  forall c : R, 0 < c -> forall x, 0 <= x -> 0 <= exp (- x / c) <= 1.
Proof. exact exp_term_01. Qed.

(* the query density stays above -FLOAT_MAX: the hypothesis of C14_knn_pick_argmax is derived *)
Theorem C14_pipeline_density_above_bot :
  forall (eps mn mx fmax s : R),
    0 < eps -> mn <= mx -> 0 <= s -> mn < 1 -> 0 < fmax -> 999 <= eps * fmax ->
    1 - fmax < 1 + 999 * (s - mn) / (mx - mn + eps).
Proof. exact (fun eps mn mx fmax s He Hm => qd_above_bot eps mn mx fmax He Hm s). Qed.

(* one query against ANY graph whose costs lie above -FLOAT_MAX, any recorded range 0 <= mn <= mx < 1 *)
Theorem C14_pipeline_any_graph :
  forall (fmax eps : R) (k n : nat) (E : R -> R) (mn mx : R) (g : @knn R) (dq : nat -> R),
    (1 <= k)%nat -> (k <= n)%nat -> 0 < fmax ->
    (forall j, (j < n)%nat -> 0 <= dq j < fmax) ->
    (forall x, 0 <= x -> 0 <= E x <= 1) ->
    0 < eps -> 999 <= eps * fmax -> 0 <= mn -> mn <= mx -> mx < 1 ->
    (forall j, (j < n)%nat -> - fmax < nth j (k_cost g) 0) ->
    knn_prediction_rule fmax eps k n E mn mx g dq
      (knn_predict_one Rltb 0 fmax (fbot ROps fmax) g k n (query_densx ROps fmax eps 1000 E mn mx k) dq).
Proof. exact query_rule_from_core. Qed.

(* ---------- KNNSupervisedOPF: fit, then predict one query ---------- *)

(* ... and the label handed to the caller is the TRUE label of the selected training sample
   (last conjunct of C13_knn_sup_final_forest: training leaves every sample its own label) *)
Theorem C14_knn_sup_predict_rule :
  forall (fmax thr one gdens0 eps : R) (k : nat) (labels : list nat) (d e : nat -> nat -> R) (E : R -> R),
    let n := length labels in
    (1 <= k)%nat -> (k <= n)%nat -> 1 <= fmax ->
    (forall i j, (i < n)%nat -> (j < n)%nat -> i <> j -> 0 <= d i j < fmax) ->
    (forall i j, (i < n)%nat -> (j < n)%nat -> 0 <= e i j <= 1) ->
    0 < eps -> 999 <= eps * fmax ->
    (forall x, 0 <= x -> 0 <= E x <= 1) ->
    forall (g' : @knn R) (c mn mx : R),
    knn_sup_final ROps fmax thr one 1000 k labels gdens0 d e = (g', (c, mn, mx)) ->
    forall dq : nat -> R, (forall j, (j < n)%nat -> 0 <= dq j < fmax) ->
    let answer := knn_query ROps fmax eps 1000 E (g', (c, mn, mx)) k dq in
    knn_prediction_rule fmax eps k n E mn mx g' dq answer /\
    exists s, answer = Some s /\ (s < n)%nat /\ label_of g' answer = nth s labels 0%nat.
Proof. exact knn_sup_query_rule. Qed.

(* ---------- UnsupervisedOPF: fit, propagate_labels, then predict one query ---------- *)

(* [propagate_labels] does not change the selection (it rewrites predicted labels only); the predicted
   label is the true label of the ROOT of the selected sample's tree, the cluster id is that of the
   selected sample = that of its root, one of 0 .. n_clusters - 1 *)
Theorem C14_unsup_predict_rule :
  forall (fmax thr one gdens0 eps : R) (k : nat) (labels : list nat) (d e : nat -> nat -> R) (E : R -> R),
    let n := length labels in
    (1 <= k)%nat -> (k <= n)%nat -> 1 <= fmax ->
    (forall i j, (i < n)%nat -> (j < n)%nat -> i <> j -> 0 <= d i j < fmax) ->
    (forall i j, (i < n)%nat -> (j < n)%nat -> 0 <= e i j <= 1) ->
    0 < eps -> 999 <= eps * fmax ->
    (forall x, 0 <= x -> 0 <= E x <= 1) ->
    forall (g' : @knn R) (c mn mx : R),
    (k <= n - 1)%nat ->
    unsup_final ROps fmax thr one 1000 k labels gdens0 d e = (g', (c, mn, mx)) ->
    forall dq : nat -> R, (forall j, (j < n)%nat -> 0 <= dq j < fmax) ->
    let answer := knn_query ROps fmax eps 1000 E (g', (c, mn, mx)) k dq in
    let g'' := propagate_labels g' in
    knn_prediction_rule fmax eps k n E mn mx g' dq answer /\
    knn_query ROps fmax eps 1000 E (with_propagated_labels (g', (c, mn, mx))) k dq = answer /\
    exists s, answer = Some s /\ (s < n)%nat /\
      let r := nth s (k_root g') 0%nat in
      (r < n)%nat /\ nth r (k_pred g') None = None /\
      label_of g'' answer = nth r labels 0%nat /\
      cluster_of g'' answer = nth s (k_clabel g') 0%nat /\
      nth s (k_clabel g') 0%nat = nth r (k_clabel g') 0%nat /\
      (nth s (k_clabel g') 0%nat < k_nclusters g')%nat.
Proof. exact unsup_query_rule. Qed.

(* ---------- the same with the actual terms E x = exp(-x / constant) ---------- *)

(* [c] is the constant recorded by training (2 * density / 9, C12_pdf); its positivity is the one
   hypothesis here that is about a training output (it holds as soon as 0 < thr and 0 < one:
   create_arcs leaves density >= thr or = one; not re-derived in this file).  The unmapped query
   density then reads  (sum over the k nearest s of exp(-dq s / c)) / k. *)
Theorem C14_knn_sup_predict_rule_exp :
  forall (fmax thr one gdens0 eps : R) (k : nat) (labels : list nat) (d e : nat -> nat -> R),
    let n := length labels in
    (1 <= k)%nat -> (k <= n)%nat -> 1 <= fmax ->
    (forall i j, (i < n)%nat -> (j < n)%nat -> i <> j -> 0 <= d i j < fmax) ->
    (forall i j, (i < n)%nat -> (j < n)%nat -> 0 <= e i j <= 1) ->
    0 < eps -> 999 <= eps * fmax ->
    forall (g' : @knn R) (c mn mx : R),
    knn_sup_final ROps fmax thr one 1000 k labels gdens0 d e = (g', (c, mn, mx)) ->
    0 < c ->
    forall dq : nat -> R, (forall j, (j < n)%nat -> 0 <= dq j < fmax) ->
    let E := fun x => exp (- x / c) in
    let answer := knn_query ROps fmax eps 1000 E (g', (c, mn, mx)) k dq in
    knn_prediction_rule fmax eps k n E mn mx g' dq answer /\
    exists s, answer = Some s /\ (s < n)%nat /\ label_of g' answer = nth s labels 0%nat.
Proof. exact knn_sup_query_rule_exp. Qed.

Theorem C14_unsup_predict_rule_exp :
  forall (fmax thr one gdens0 eps : R) (k : nat) (labels : list nat) (d e : nat -> nat -> R),
    let n := length labels in
    (1 <= k)%nat -> (k <= n)%nat -> 1 <= fmax ->
    (forall i j, (i < n)%nat -> (j < n)%nat -> i <> j -> 0 <= d i j < fmax) ->
    (forall i j, (i < n)%nat -> (j < n)%nat -> 0 <= e i j <= 1) ->
    0 < eps -> 999 <= eps * fmax ->
    forall (g' : @knn R) (c mn mx : R),
    (k <= n - 1)%nat ->
    unsup_final ROps fmax thr one 1000 k labels gdens0 d e = (g', (c, mn, mx)) ->
    0 < c ->
    forall dq : nat -> R, (forall j, (j < n)%nat -> 0 <= dq j < fmax) ->
    let E := fun x => exp (- x / c) in
    let answer := knn_query ROps fmax eps 1000 E (g', (c, mn, mx)) k dq in
    let g'' := propagate_labels g' in
    knn_prediction_rule fmax eps k n E mn mx g' dq answer /\
    knn_query ROps fmax eps 1000 E (with_propagated_labels (g', (c, mn, mx))) k dq = answer /\
    exists s, answer = Some s /\ (s < n)%nat /\
      let r := nth s (k_root g') 0%nat in
      (r < n)%nat /\ nth r (k_pred g') None = None /\
      label_of g'' answer = nth r labels 0%nat /\
      cluster_of g'' answer = nth s (k_clabel g') 0%nat /\
      nth s (k_clabel g') 0%nat = nth r (k_clabel g') 0%nat /\
      (nth s (k_clabel g') 0%nat < k_nclusters g')%nat.
Proof. exact unsup_query_rule_exp. Qed.

(* ---------- non-vacuity: the three rational samples of C13_pipeline_example_data, k = 1,
   FLOAT_MAX read as 10^6, EPSILON as 1/1000, E x = max(0, 1 - x/2), query at distances 1/4, 3/4, 7/4 ---------- *)

Theorem C14_pipeline_example_data :
  exq_fmax = 1000000 /\ exq_eps = 1 / 1000 /\ (forall x, exq_E x = Rmax 0 (1 - x / 2)) /\
  (forall j, exq_dq j = nth j [1/4; 3/4; 7/4] 0).
Proof. exact (conj eq_refl (conj eq_refl (conj (fun x => eq_refl) (fun j => eq_refl)))). Qed.

Theorem C14_pipeline_example_premises :
  (1 <= 1)%nat /\ (1 <= length exr_labels)%nat /\ (1 <= length exr_labels - 1)%nat /\
  1 <= exq_fmax /\
  (forall i j, (i < 3)%nat -> (j < 3)%nat -> i <> j -> 0 <= exr_d i j < exq_fmax) /\
  (forall i j, (i < 3)%nat -> (j < 3)%nat -> 0 <= exr_e i j <= 1) /\
  0 < exq_eps /\ 999 <= exq_eps * exq_fmax /\
  (forall x, 0 <= x -> 0 <= exq_E x <= 1) /\
  (forall j, (j < 3)%nat -> 0 <= exq_dq j < exq_fmax) /\
  (forall i j, (i < 3)%nat -> (j < 3)%nat -> i <> j -> exr_e i j = exq_E (exr_d i j)).
Proof. exact exq_premises. Qed.

(* with k = 1 the theorems determine the answer: the nearest sample 0, whose label is 0; a batch
   containing the query twice returns that answer at both positions *)
Theorem C14_pipeline_example_sup :
  exists (g' : @knn R) (c mn mx : R),
    knn_sup_final ROps exq_fmax (1/100000) 1 1000 1 exr_labels 0 exr_d exr_e = (g', (c, mn, mx)) /\
    let answer := knn_query ROps exq_fmax exq_eps 1000 exq_E (g', (c, mn, mx)) 1 exq_dq in
    knn_prediction_rule exq_fmax exq_eps 1 3 exq_E mn mx g' exq_dq answer /\
    answer = Some 0%nat /\ label_of g' answer = 0%nat /\
    knn_query_batch ROps exq_fmax exq_eps 1000 exq_E (g', (c, mn, mx)) 1 [exq_dq; exr_d 1; exq_dq]
    = [Some 0%nat; knn_query ROps exq_fmax exq_eps 1000 exq_E (g', (c, mn, mx)) 1 (exr_d 1); Some 0%nat].
Proof. exact exq_sup. Qed.

Theorem C14_pipeline_example_unsup :
  exists (g' : @knn R) (c mn mx : R),
    unsup_final ROps exq_fmax (1/100000) 1 1000 1 exr_labels 0 exr_d exr_e = (g', (c, mn, mx)) /\
    let answer := knn_query ROps exq_fmax exq_eps 1000 exq_E (g', (c, mn, mx)) 1 exq_dq in
    let g'' := propagate_labels g' in
    let r := nth 0%nat (k_root g') 0%nat in
    knn_prediction_rule exq_fmax exq_eps 1 3 exq_E mn mx g' exq_dq answer /\
    answer = Some 0%nat /\
    knn_query ROps exq_fmax exq_eps 1000 exq_E (with_propagated_labels (g', (c, mn, mx))) 1 exq_dq = answer /\
    (r < 3)%nat /\ nth r (k_pred g') None = None /\
    label_of g'' answer = nth r exr_labels 0%nat /\
    cluster_of g'' answer = nth r (k_clabel g') 0%nat /\
    (cluster_of g'' answer < k_nclusters g')%nat.
Proof. exact exq_unsup. Qed.

(* ---------- the [_exp] corollaries with NO hypothesis about a training output ----------

   create_arcs ends with `if self.density < 0.00001: self.density = 1`, so the density bound it leaves is
   [one] or at least [thr], whatever the distances are; calculate_pdf records constant = 2 * density / 9.
   With 0 < thr and 0 < one (the library: 0.00001 and 1) the constant is positive, x |-> exp(-x/c) takes
   values in (0, 1] on x >= 0, and the hypothesis [0 < c] of the two theorems above is discharged. *)

Theorem C14_pipeline_density_bound_floor :
  forall (zero fmax thr one : R) (k n : nat) (w : nat -> nat -> R) (g : @knn R),
    let g1 := fst (create_arcs Rltb zero fmax thr one k n w g) in
    k_gdens g1 = one \/ thr <= k_gdens g1.
Proof. exact create_arcs_gdens_floor. Qed.

Theorem C14_pipeline_knn_sup_constant :
  forall (fmax thr one gdens0 : R) (maxd : BinNums.Z) (k : nat) (labels : list nat) (d e : nat -> nat -> R)
         (g' : @knn R) (c mn mx : R),
    knn_sup_final ROps fmax thr one maxd k labels gdens0 d e = (g', (c, mn, mx)) ->
    (exists gd, c = 2 * gd / 9 /\ (gd = one \/ thr <= gd)) /\ (0 < thr -> 0 < one -> 0 < c).
Proof.
  exact (fun fmax thr one gdens0 maxd k labels d e g' c mn mx H =>
           conj (knn_sup_final_constant_value fmax thr one gdens0 maxd k labels d e g' c mn mx H)
                (fun Ht Ho => knn_sup_final_constant_pos fmax thr one gdens0 maxd k labels d e g' c mn mx Ht Ho H)).
Qed.

Theorem C14_pipeline_unsup_constant :
  forall (fmax thr one gdens0 : R) (maxd : BinNums.Z) (k : nat) (labels : list nat) (d e : nat -> nat -> R)
         (g' : @knn R) (c mn mx : R),
    unsup_final ROps fmax thr one maxd k labels gdens0 d e = (g', (c, mn, mx)) ->
    (exists gd, c = 2 * gd / 9 /\ (gd = one \/ thr <= gd)) /\ (0 < thr -> 0 < one -> 0 < c).
Proof.
  exact (fun fmax thr one gdens0 maxd k labels d e g' c mn mx H =>
           conj (unsup_final_constant_value fmax thr one gdens0 maxd k labels d e g' c mn mx H)
                (fun Ht Ho => unsup_final_constant_pos fmax thr one gdens0 maxd k labels d e g' c mn mx Ht Ho H)).
Qed.

Theorem C14_knn_sup_predict_rule_exp_closed :
  forall (fmax thr one gdens0 eps : R) (k : nat) (labels : list nat) (d e : nat -> nat -> R),
    let n := length labels in
    (1 <= k)%nat -> (k <= n)%nat -> 1 <= fmax -> 0 < thr -> 0 < one ->
    (forall i j, (i < n)%nat -> (j < n)%nat -> i <> j -> 0 <= d i j < fmax) ->
    (forall i j, (i < n)%nat -> (j < n)%nat -> 0 <= e i j <= 1) ->
    0 < eps -> 999 <= eps * fmax ->
    forall (g' : @knn R) (c mn mx : R),
    knn_sup_final ROps fmax thr one 1000 k labels gdens0 d e = (g', (c, mn, mx)) ->
    forall dq : nat -> R, (forall j, (j < n)%nat -> 0 <= dq j < fmax) ->
    let E := fun x => exp (- x / c) in
    let answer := knn_query ROps fmax eps 1000 E (g', (c, mn, mx)) k dq in
    0 < c /\
    (forall x, 0 <= x -> 0 < E x <= 1) /\
    knn_prediction_rule fmax eps k n E mn mx g' dq answer /\
    exists s, answer = Some s /\ (s < n)%nat /\ label_of g' answer = nth s labels 0%nat.
Proof. exact knn_sup_query_rule_exp_closed. Qed.

Theorem C14_unsup_predict_rule_exp_closed :
  forall (fmax thr one gdens0 eps : R) (k : nat) (labels : list nat) (d e : nat -> nat -> R),
    let n := length labels in
    (1 <= k)%nat -> (k <= n)%nat -> 1 <= fmax -> 0 < thr -> 0 < one ->
    (forall i j, (i < n)%nat -> (j < n)%nat -> i <> j -> 0 <= d i j < fmax) ->
    (forall i j, (i < n)%nat -> (j < n)%nat -> 0 <= e i j <= 1) ->
    0 < eps -> 999 <= eps * fmax ->
    forall (g' : @knn R) (c mn mx : R),
    (k <= n - 1)%nat ->
    unsup_final ROps fmax thr one 1000 k labels gdens0 d e = (g', (c, mn, mx)) ->
    forall dq : nat -> R, (forall j, (j < n)%nat -> 0 <= dq j < fmax) ->
    let E := fun x => exp (- x / c) in
    let answer := knn_query ROps fmax eps 1000 E (g', (c, mn, mx)) k dq in
    let g'' := propagate_labels g' in
    0 < c /\
    (forall x, 0 <= x -> 0 < E x <= 1) /\
    knn_prediction_rule fmax eps k n E mn mx g' dq answer /\
    knn_query ROps fmax eps 1000 E (with_propagated_labels (g', (c, mn, mx))) k dq = answer /\
    exists s, answer = Some s /\ (s < n)%nat /\
      let r := nth s (k_root g') 0%nat in
      (r < n)%nat /\ nth r (k_pred g') None = None /\
      label_of g'' answer = nth r labels 0%nat /\
      cluster_of g'' answer = nth s (k_clabel g') 0%nat /\
      nth s (k_clabel g') 0%nat = nth r (k_clabel g') 0%nat /\
      (nth s (k_clabel g') 0%nat < k_nclusters g')%nat.
Proof. exact unsup_query_rule_exp_closed. Qed.

(* non-vacuity of the closed corollaries: the example data above with thr = 1/100000, one = 1 and the REAL
   exp terms of the query; the recorded constant is 2/9 of a bound that is 1 or >= 1/100000 *)
Theorem C14_pipeline_example_sup_exp_closed :
  0 < 1 / 100000 /\ 0 < 1 /\
  exists (g' : @knn R) (c mn mx : R),
    knn_sup_final ROps exq_fmax (1/100000) 1 1000 1 exr_labels 0 exr_d exr_e = (g', (c, mn, mx)) /\
    let E := fun x => exp (- x / c) in
    let answer := knn_query ROps exq_fmax exq_eps 1000 E (g', (c, mn, mx)) 1 exq_dq in
    0 < c /\ (exists gd, c = 2 * gd / 9 /\ (gd = 1 \/ 1 / 100000 <= gd)) /\
    knn_prediction_rule exq_fmax exq_eps 1 3 E mn mx g' exq_dq answer /\
    answer = Some 0%nat /\ label_of g' answer = 0%nat.
Proof. exact (conj (proj1 exl_thr_one) (conj (proj2 exl_thr_one) exl_sup_exp_closed)). Qed.

Theorem C14_pipeline_example_unsup_exp_closed :
  exists (g' : @knn R) (c mn mx : R),
    unsup_final ROps exq_fmax (1/100000) 1 1000 1 exr_labels 0 exr_d exr_e = (g', (c, mn, mx)) /\
    let E := fun x => exp (- x / c) in
    let answer := knn_query ROps exq_fmax exq_eps 1000 E (g', (c, mn, mx)) 1 exq_dq in
    0 < c /\ (exists gd, c = 2 * gd / 9 /\ (gd = 1 \/ 1 / 100000 <= gd)) /\
    knn_prediction_rule exq_fmax exq_eps 1 3 E mn mx g' exq_dq answer /\
    answer = Some 0%nat /\
    knn_query ROps exq_fmax exq_eps 1000 E (with_propagated_labels (g', (c, mn, mx))) 1 exq_dq = answer.
Proof. exact exl_unsup_exp_closed. Qed.
