(* C16 for an ARBITRARY weight type [W] whose comparison [ltb] is a strict total order
   (Base/TotalOrder.v).  Statements of Props/C16.v with  a <= b  written  ltb b a = false  and
   a < b  written  ltb a b = true.  Derived from the theorems at W := Z by the rank embedding of
   Proofs/OrderEmbed.v and a hand-written relational lemma for the two folds (Proofs/Lift2Select.v).
   Not lifted: C16_cut_select_argmin_fun (its auxiliary function [cut_evaluated] is defined at Z). *)
From Coq Require Import List Arith.
From OPF Require Import Base.TotalOrder Model.Knn Proofs.Lift2Select.
Import ListNotations.

(* KNNSupervisedOPF._learn: the kept k (1-based position in the list of validation accuracies of
   k = 1..max_k) is the smallest one attaining the maximum accuracy. *)
Theorem C16_knn_select_argmax_anyorder :
  forall (W : Type) (ltb : W -> W -> bool),
    strict_total_order ltb ->
    forall (zero : W) (accs : list W),
    accs <> [] -> (forall a, In a accs -> ltb a zero = false) ->
    exists i, knn_select ltb zero accs = Some (S i) /\ i < length accs /\
      (forall j, j < length accs -> ltb (nth i accs zero) (nth j accs zero) = false) /\
      (forall j, j < i -> ltb (nth j accs zero) (nth i accs zero) = true).
Proof. exact (@knn_select_argmax_anyorder). Qed.

(* no candidate beats the initial max_acc = 0: the initial best_k = 1 is kept *)
Theorem C16_knn_select_all_zero_anyorder :
  forall (W : Type) (ltb : W -> W -> bool),
    strict_total_order ltb ->
    forall (zero : W) (accs : list W),
    (forall a, In a accs -> ltb zero a = false) -> knn_select ltb zero accs = Some 1.
Proof. exact (@knn_select_all_zero_anyorder). Qed.

(* UnsupervisedOPF._best_minimum_cut: [e] candidates are evaluated (up to and including the first cut
   that is exactly zero, all of them if there is none); the kept k = min_k + i is the smallest one
   attaining the minimum cut among the evaluated candidates. *)
Theorem C16_cut_select_argmin_anyorder :
  forall (W : Type) (ltb : W -> W -> bool),
    strict_total_order ltb ->
    forall (zero top : W) (min_k : nat) (cuts : list W),
    cuts <> [] -> (forall c, In c cuts -> ltb c zero = false /\ ltb c top = true) ->
    exists e i, cut_select ltb zero top min_k cuts = (Some (min_k + i), e) /\
      1 <= e <= length cuts /\
      (forall j, S j < e -> nth j cuts zero <> zero) /\
      (e = length cuts \/ nth (e - 1) cuts zero = zero) /\
      i < e /\
      (forall j, j < e -> ltb (nth j cuts zero) (nth i cuts zero) = false) /\
      (forall j, j < i -> ltb (nth i cuts zero) (nth j cuts zero) = true).
Proof. exact (@cut_select_argmin_anyorder). Qed.

(* non-vacuity at W := nat (the lists of C16_knn_select_ex_tie, C16_cut_select_ex_tie,
   C16_cut_select_ex_early_zero) *)
Theorem C16_anyorder_knn_select_ex_tie : knn_select Nat.ltb 0 [3; 7; 5; 7; 2] = Some 2.
Proof. exact knn_select_exn_tie. Qed.

Theorem C16_anyorder_cut_select_ex_tie : cut_select Nat.ltb 0 1000 3 [9; 4; 6; 4; 8] = (Some 4, 5).
Proof. exact cut_select_exn_tie. Qed.

Theorem C16_anyorder_cut_select_ex_early_zero :
  cut_select Nat.ltb 0 1000 2 [5; 3; 0; 0; 1] = (Some 4, 3).
Proof. exact cut_select_exn_early_zero. Qed.
