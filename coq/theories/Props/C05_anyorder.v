From OPF Require Import Proofs.HeapPrelude Base.Lists Base.TotalOrder Model.Heap Proofs.HeapInv Proofs.HeapHist.
From OPF Require Import Proofs.LiftInst Proofs.WeakOrder Proofs.ParamHeap Proofs.HeapLift Proofs.HeapLiftExample.

(* C05 for an ARBITRARY cost type [W] whose comparison [ltb] is a strict total order
   (Base/TotalOrder.v: irreflexive, transitive, and two incomparable elements are equal).

   Model/Heap.v is polymorphic in the cost type.  The statements are those of Props/C05.v with
   [Z.ltb] replaced by [ltb]; the invariant [InvW ltb], the abstract priority queue [pqW W] /
   [pq_stepW ltb top] / [pq_runW ltb top], validity [valid_opW ltb top] / [valid_histW ltb top] and
   the insertion bookkeeping [ins_ofW] / [insertedW ltb top] (Proofs/HeapLift.v) are the text of
   [Inv], [pq], [pq_step], [pq_run], [valid_op], [valid_hist], [ins_of], [inserted] with that one
   replacement ([C05_anyorder_recovers_Z]).  They are derived from the theorems at W := Z by the
   abstraction theorem of the heap step (Proofs/ParamHeap.v) and the rank embedding of
   Proofs/OrderEmbed.v; no property of W beyond the three order laws is used.

   Antisymmetry is not needed: the second half of the file states the same theorems for a STRICT
   WEAK order on a set [P] of admissible costs (Proofs/WeakOrder.v: irreflexive, transitive,
   "not below" transitive, all on P) containing the sentinel and every cost carried by the
   history ([ops_in P ops]).  "The abstract queue keeps / updates its cost table" is read off the
   model ([C05_step_cost_table]: the sift loops never write the cost array) instead of being pulled
   back through the rank map, which is not injective for a weak order.  The instance that matters:
   binary64 costs other than NaN under PrimFloat.ltb, -0 and +0 left distinct
   (Props/C05_float_order.v). *)

Theorem C05_inv_reachable_anyorder :
  forall (W : Type) (ltb : W -> W -> bool),
    strict_total_order ltb ->
    forall (top : W) (size : nat) (pol : policy) (ops : list (@op W)),
      valid_histW ltb top (h_init top size pol) ops ->
      let h := fst (run ltb top (h_init top size pol) ops) in
      InvW ltb h /\ hsize h = size /\ hpol h = pol.
Proof. exact (@hist_inv_W). Qed.

Theorem C05_inv_init_anyorder :
  forall (W : Type) (ltb : W -> W -> bool),
    strict_total_order ltb ->
    forall (top : W) (size : nat) (pol : policy), InvW ltb (h_init top size pol).
Proof. exact (@inv_init_W). Qed.

Theorem C05_inv_step_anyorder :
  forall (W : Type) (ltb : W -> W -> bool),
    strict_total_order ltb ->
    forall (top : W) (h : heap W) (o : @op W),
      InvW ltb h -> valid_opW ltb top h o ->
      InvW ltb (fst (step ltb top h o)) /\
      hsize (fst (step ltb top h o)) = hsize h /\ hpol (fst (step ltb top h o)) = hpol h.
Proof. exact (@step_inv_W). Qed.

Theorem C05_remove_extremal_anyorder :
  forall (W : Type) (ltb : W -> W -> bool),
    strict_total_order ltb ->
    forall (top : W) (size : nat) (pol : policy) (ops : list (@op W)),
      valid_histW ltb top (h_init top size pol) ops ->
      let h := fst (run ltb top (h_init top size pol) ops) in
      match step ltb top h ORem with
      | (h', RElem p) =>
          In p (queued h) /\
          (forall q, In q (queued h) ->
             better ltb pol (nth q (hcost h) top) (nth p (hcost h) top) = false) /\
          Permutation (queued h) (p :: queued h') /\ hcost h' = hcost h
      | (h', RFalse) => queued h = [] /\ h' = h
      | _ => False
      end.
Proof. exact (@hist_remove_extremal_W). Qed.

Theorem C05_histories_refine_pq_anyorder :
  forall (W : Type) (ltb : W -> W -> bool),
    strict_total_order ltb ->
    forall (top : W) (size : nat) (pol : policy) (ops : list (@op W)),
      valid_histW ltb top (h_init top size pol) ops ->
      pq_runW ltb top size pol (absW (h_init top size pol)) ops
              (snd (run ltb top (h_init top size pol) ops))
              (absW (fst (run ltb top (h_init top size pol) ops))).
Proof. exact (@histories_refine_pq_W). Qed.

Theorem C05_step_refines_pq_anyorder :
  forall (W : Type) (ltb : W -> W -> bool),
    strict_total_order ltb ->
    forall (top : W) (h : heap W) (o : @op W),
      InvW ltb h -> valid_opW ltb top h o ->
      let '(h', r) := step ltb top h o in
      InvW ltb h' /\ hsize h' = hsize h /\ hpol h' = hpol h /\
      pq_stepW ltb top (hsize h) (hpol h) (absW h) o r (absW h') /\
      Permutation (queued h ++ ins_ofW h o r) (rem_of r ++ queued h').
Proof. exact (@step_spec_W). Qed.

Theorem C05_conservation_anyorder :
  forall (W : Type) (ltb : W -> W -> bool),
    strict_total_order ltb ->
    forall (top : W) (size : nat) (pol : policy) (ops : list (@op W)),
      valid_histW ltb top (h_init top size pol) ops ->
      Permutation (insertedW ltb top (h_init top size pol) ops)
                  (removed (snd (run ltb top (h_init top size pol) ops))
                   ++ queued (fst (run ltb top (h_init top size pol) ops))).
Proof. exact (@conservation_W). Qed.

(* holds in every state and for every comparison (no order law, no validity needed) *)
Theorem C05_failures_leave_state_anyorder :
  forall (W : Type) (ltb : W -> W -> bool) (top : W) (h : heap W),
      (forall p, snd (step ltb top h (OIns p)) = RBool (negb (is_full h))) /\
      (forall p, is_full h = true -> step ltb top h (OIns p) = (h, RBool false)) /\
      (is_empty h = true -> step ltb top h ORem = (h, RFalse)) /\
      (forall p c, nth p (hcolor h) White = White -> is_full h = true ->
                   step ltb top h (OUpd p c) = (set_cost h p c, RUnit)).
Proof. exact (@failures_leave_state_any_W). Qed.

Theorem C05_empty_full_truthful_anyorder :
  forall (W : Type) (ltb : W -> W -> bool),
    strict_total_order ltb ->
    forall (top : W) (size : nat) (pol : policy) (ops : list (@op W)),
      valid_histW ltb top (h_init top size pol) ops ->
      let h := fst (run ltb top (h_init top size pol) ops) in
      (exists b, step ltb top h OIsEmpty = (h, RBool b) /\ (b = true <-> queued h = [])) /\
      (exists b, step ltb top h OIsFull = (h, RBool b) /\
                 (b = true <-> length (queued h) = size)).
Proof. exact (@hist_empty_full_truthful_W). Qed.

(* prefixes: no order law needed *)
Theorem C05_valid_prefix_anyorder :
  forall (W : Type) (ltb : W -> W -> bool) (top : W) (ops1 ops2 : list (@op W)) (h : heap W),
    valid_histW ltb top h (ops1 ++ ops2) <->
    valid_histW ltb top h ops1 /\ valid_histW ltb top (fst (run ltb top h ops1)) ops2.
Proof. exact (@valid_hist_app_W). Qed.

Theorem C05_run_prefix_anyorder :
  forall (W : Type) (ltb : W -> W -> bool) (top : W) (ops1 ops2 : list (@op W)) (h : heap W),
    run ltb top h (ops1 ++ ops2) =
      (fst (run ltb top (fst (run ltb top h ops1)) ops2),
       snd (run ltb top h ops1) ++ snd (run ltb top (fst (run ltb top h ops1)) ops2)).
Proof. exact (@run_app_W). Qed.

(* the boolean validity checker used for concrete histories is sound *)
Theorem C05_valid_histb_sound_anyorder :
  forall (W : Type) (ltb : W -> W -> bool) (top : W) (ops : list (@op W)) (h : heap W),
    valid_histbW ltb top h ops = true -> valid_histW ltb top h ops.
Proof. exact (@valid_histbW_sound). Qed.

(* ---------- strict weak orders on a set P of admissible costs ---------- *)

(* the cost array after one operation: written by [update] at the updated element only *)
Theorem C05_step_cost_table :
  forall (W : Type) (ltb : W -> W -> bool) (top : W) (h : heap W) (o : @op W),
    hcost (fst (step ltb top h o)) =
    match o with OUpd p c => upd (hcost h) p c | _ => hcost h end.
Proof. exact (@step_hcost). Qed.

Theorem C05_inv_reachable_weak_order :
  forall (W : Type) (P : W -> Prop) (ltb : W -> W -> bool),
    strict_weak_order_on P ltb ->
    forall (top : W), P top ->
    forall (size : nat) (pol : policy) (ops : list (@op W)),
      ops_in P ops -> valid_histW ltb top (h_init top size pol) ops ->
      let h := fst (run ltb top (h_init top size pol) ops) in
      InvW ltb h /\ hsize h = size /\ hpol h = pol.
Proof. exact (@hist_inv_Ww). Qed.

Theorem C05_step_refines_pq_weak_order :
  forall (W : Type) (P : W -> Prop) (ltb : W -> W -> bool),
    strict_weak_order_on P ltb ->
    forall (top : W), P top ->
    forall (h : heap W) (o : @op W),
      Forall P (hcost h) -> Forall P (op_costs o) ->
      InvW ltb h -> valid_opW ltb top h o ->
      let '(h', r) := step ltb top h o in
      InvW ltb h' /\ hsize h' = hsize h /\ hpol h' = hpol h /\
      pq_stepW ltb top (hsize h) (hpol h) (absW h) o r (absW h') /\
      Permutation (queued h ++ ins_ofW h o r) (rem_of r ++ queued h').
Proof. exact (@step_spec_Ww). Qed.

Theorem C05_remove_extremal_weak_order :
  forall (W : Type) (P : W -> Prop) (ltb : W -> W -> bool),
    strict_weak_order_on P ltb ->
    forall (top : W), P top ->
    forall (size : nat) (pol : policy) (ops : list (@op W)),
      ops_in P ops -> valid_histW ltb top (h_init top size pol) ops ->
      let h := fst (run ltb top (h_init top size pol) ops) in
      match step ltb top h ORem with
      | (h', RElem p) =>
          In p (queued h) /\
          (forall q, In q (queued h) ->
             better ltb pol (nth q (hcost h) top) (nth p (hcost h) top) = false) /\
          Permutation (queued h) (p :: queued h') /\ hcost h' = hcost h
      | (h', RFalse) => queued h = [] /\ h' = h
      | _ => False
      end.
Proof. exact (@hist_remove_extremal_Ww). Qed.

Theorem C05_histories_refine_pq_weak_order :
  forall (W : Type) (P : W -> Prop) (ltb : W -> W -> bool),
    strict_weak_order_on P ltb ->
    forall (top : W), P top ->
    forall (size : nat) (pol : policy) (ops : list (@op W)),
      ops_in P ops -> valid_histW ltb top (h_init top size pol) ops ->
      pq_runW ltb top size pol (absW (h_init top size pol)) ops
              (snd (run ltb top (h_init top size pol) ops))
              (absW (fst (run ltb top (h_init top size pol) ops))).
Proof. exact (@histories_refine_pq_Ww). Qed.

Theorem C05_conservation_weak_order :
  forall (W : Type) (P : W -> Prop) (ltb : W -> W -> bool),
    strict_weak_order_on P ltb ->
    forall (top : W), P top ->
    forall (size : nat) (pol : policy) (ops : list (@op W)),
      ops_in P ops -> valid_histW ltb top (h_init top size pol) ops ->
      Permutation (insertedW ltb top (h_init top size pol) ops)
                  (removed (snd (run ltb top (h_init top size pol) ops))
                   ++ queued (fst (run ltb top (h_init top size pol) ops))).
Proof. exact (@conservation_Ww). Qed.

Theorem C05_empty_full_truthful_weak_order :
  forall (W : Type) (P : W -> Prop) (ltb : W -> W -> bool),
    strict_weak_order_on P ltb ->
    forall (top : W), P top ->
    forall (size : nat) (pol : policy) (ops : list (@op W)),
      ops_in P ops -> valid_histW ltb top (h_init top size pol) ops ->
      let h := fst (run ltb top (h_init top size pol) ops) in
      (exists b, step ltb top h OIsEmpty = (h, RBool b) /\ (b = true <-> queued h = [])) /\
      (exists b, step ltb top h OIsFull = (h, RBool b) /\
                 (b = true <-> length (queued h) = size)).
Proof. exact (@hist_empty_full_truthful_Ww). Qed.

(* a strict total order is a strict weak order on the whole carrier: the first half of this file
   is the instance P := everything of the second *)
Theorem C05_total_order_is_weak_order :
  forall (W : Type) (ltb : W -> W -> bool),
    strict_total_order ltb -> strict_weak_order_on (fun _ => True) ltb.
Proof. exact (@total_is_weak). Qed.

(* the abstraction theorem used for the transfer: a coding [f] that preserves and reflects the
   comparison on P carries the run over to the coded costs - same outputs, same arrays *)
Theorem C05_run_rescaled :
  forall (W1 W2 : Type) (P : W1 -> Prop) (f : W1 -> W2)
         (ltb1 : W1 -> W1 -> bool) (ltb2 : W2 -> W2 -> bool),
    (forall a b, P a -> P b -> ltb2 (f a) (f b) = ltb1 a b) ->
    forall (top : W1) (ops : list (@op W1)) (h : heap W1),
      P top -> Forall P (hcost h) -> ops_in P ops ->
      Forall P (hcost (fst (run ltb1 top h ops))) /\
      run ltb2 (f top) (map_heap f h) (map (map_op f) ops)
      = (map_heap f (fst (run ltb1 top h ops)), snd (run ltb1 top h ops)).
Proof. exact (@rescale_run_on). Qed.

(* ---------- at W := Z the generic vocabulary is that of Props/C05.v ---------- *)

Theorem C05_anyorder_recovers_Z :
  (forall h : heap Z, InvW Z.ltb h <-> Inv h) /\
  (forall (top : Z) (h : heap Z) (o : @op Z), valid_opW Z.ltb top h o <-> valid_op top h o) /\
  (forall (top : Z) (size : nat) (pol : policy) (a : pqW Z) (o : @op Z) (r : out) (a' : pqW Z),
     pq_stepW Z.ltb top size pol a o r a' <->
     pq_step top size pol (mkPQ (pqw_elems a) (pqw_cost a) (pqw_color a)) o r
             (mkPQ (pqw_elems a') (pqw_cost a') (pqw_color a'))) /\
  (forall (h : heap Z) (o : @op Z) (r : out), ins_ofW h o r = ins_of h o r).
Proof. exact (conj InvW_Z (conj valid_opW_Z (conj pq_stepW_Z ins_ofW_Z))). Qed.

(* ---------- non-vacuity at W := nat ---------- *)

(* capacity 3, minimum policy, 16 operations: elements 0 and 1 tie at cost 5 for the first removal;
   1, 0 and 2 all tie at cost 5 for the last three; the Black element 0 is re-inserted and updated *)
Theorem C05_anyorder_example_premises :
  strict_total_order Nat.ltb /\
  valid_histW Nat.ltb 1000%nat (h_init 1000%nat 3 PMin) exn_ops /\
  exn_ops = [OIsEmpty; OUpd 0 5%nat; OUpd 1 5%nat; OIns 2; OIsFull; ORem; OUpd 2 5%nat; OUpd 1 5%nat;
             OIns 0; OIsFull; ORem; ORem; OUpd 0 7%nat; ORem; ORem; OIsEmpty].
Proof. exact (conj nat_order (conj exn_valid eq_refl)). Qed.

Theorem C05_anyorder_example_result :
  snd (run Nat.ltb 1000%nat (h_init 1000%nat 3 PMin) exn_ops) =
    [RBool true; RUnit; RUnit; RBool true; RBool true; RElem 0; RUnit; RUnit; RBool true;
     RBool true; RElem 1; RElem 0; RUnit; RElem 2; RFalse; RBool true]
  /\ queued (fst (run Nat.ltb 1000%nat (h_init 1000%nat 3 PMin) exn_ops)) = []
  /\ insertedW Nat.ltb 1000%nat (h_init 1000%nat 3 PMin) exn_ops = [0; 1; 2; 0]%nat.
Proof. exact exn_outputs. Qed.

(* capacity 4, maximum policy, sentinel 0: three elements tie at 4, a fourth is raised to 4 later *)
Theorem C05_anyorder_example_max :
  valid_histW Nat.ltb 0%nat (h_init 0%nat 4 PMax) exx_ops /\
  exx_ops = [OUpd 0 4%nat; OUpd 1 4%nat; OUpd 2 2%nat; OUpd 3 4%nat; OUpd 2 3%nat; OIsFull;
             ORem; ORem; OUpd 2 4%nat; ORem; ORem; ORem] /\
  snd (run Nat.ltb 0%nat (h_init 0%nat 4 PMax) exx_ops) =
    [RUnit; RUnit; RUnit; RUnit; RUnit; RBool true; RElem 0; RElem 3; RUnit; RElem 1; RElem 2; RFalse].
Proof. exact (conj exx_valid (conj eq_refl exx_outputs)). Qed.
