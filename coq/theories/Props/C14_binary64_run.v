(* C14 (arithmetic part), the link between the two float-level layers: the query density of both KNN predicts
   ([query_density] of Model/Pdf.v) RUN on Coq's primitive binary64 floats ([FOps]) REFINES the same kernel over the
   reals with the binary64 rounding [rnd64] after every `+ - * /` ([RndOps rnd64]; Model/Binary64.v).

   For k >= 1 finite exp-terms with values in [0, 1], k <= 2^53, finite min <= max in [0, 1] (what calculate_pdf
   records on such terms: C12_binary64_minmax_unit_terms) and a finite EPSILON in [2^-1000, 1] (the library's is 1e-20):
   the float returned is FINITE and its real value is the RndOps rnd64 result on the real values.  No overflow: the mean
   lies in [0, 1], the numerator in [-999, 999], the divisor is at least EPSILON (EPSILON is a binary64 number and
   rounding is monotone), so the quotient is below 999 * 2^1000.
   Axioms: the standard library's FloatAxioms, through Flocq's IEEE754/PrimFloat.v. *)
From Coq Require Import Reals List ZArith Floats.
From OPF Require Import Base.NumOps Base.NumOpsRnd Model.Pdf Model.Binary64 Proofs.Binary64Pdf
  Proofs.Binary64PdfExample.
Import ListNotations.
Local Open Scope R_scope.

Theorem C14_binary64_run_query_density (eps mn mx : PrimFloat.float) (k : nat) (e : nat -> PrimFloat.float) :
  (1 <= k)%nat -> (Z.of_nat k <= 2 ^ 53)%Z ->
  (forall l, (l < k)%nat -> ffin (e l) = true /\ 0 <= f2r (e l) <= 1) ->
  ffin mn = true -> ffin mx = true -> ffin eps = true ->
  0 <= f2r mn -> f2r mn <= f2r mx -> f2r mx <= 1 ->
  / 2 ^ 1000 <= f2r eps <= 1 ->
  ffin (query_density FOps 1000 eps mn mx k e) = true /\
  f2r (query_density FOps 1000 eps mn mx k e)
  = query_density (RndOps rnd64) 1000 (f2r eps) (f2r mn) (f2r mx) k (fun l => f2r (e l)).
Proof. exact (query_density_refines eps mn mx k e). Qed.

(* non-vacuity: EPSILON = the binary64 number nearest to 1e-20, range [0.125, 0.375], one term 0.25: the hypotheses hold, the
   PrimFloat run returns 500.5, which is therefore the RndOps rnd64 value *)
Theorem C14_binary64_run_example :
  (1 <= 1)%nat /\ (Z.of_nat 1 <= 2 ^ 53)%Z /\
  (forall l, (l < 1)%nat -> ffin (exf_e 0 l) = true /\ 0 <= f2r (exf_e 0 l) <= 1) /\
  ffin 0.125%float = true /\ ffin 0.375%float = true /\ ffin 0x1.79ca10c924223p-67%float = true /\
  0 <= f2r 0.125%float /\ f2r 0.125%float <= f2r 0.375%float /\ f2r 0.375%float <= 1 /\
  / 2 ^ 1000 <= f2r 0x1.79ca10c924223p-67%float <= 1 /\
  query_density FOps 1000 0x1.79ca10c924223p-67%float 0.125%float 0.375%float 1 (exf_e 0) = 500.5%float /\
  ffin 500.5%float = true /\
  f2r 500.5%float
  = query_density (RndOps rnd64) 1000 (f2r 0x1.79ca10c924223p-67%float) (f2r 0.125%float) (f2r 0.375%float) 1
      (fun l => f2r (exf_e 0 l)).
Proof. exact exf_query. Qed.
