(* C06, quantitative part: "equals the closed form up to floating-point rounding" with explicit bounds.

   THE MODEL.  [rnd_rel u rnd]  :=  forall t, exists d, |d| <= u /\ rnd t = t (1 + d)        (Model/MetricRdepth.v)
   is the standard model of floating-point arithmetic; binary64 round-to-nearest satisfies it with
   u = 2^-53 as long as no intermediate result underflows into the subnormal range or overflows: both are
   OUTSIDE the model (reals, relative accuracy at every magnitude).  Nothing else is assumed about [rnd].
   [metric_rnd rnd m x y : option R] (Model/MetricRnd.v) evaluates the regenerated term [m] with [rnd] after
   every arithmetic node: + - * / sqrt ** 2 ** 0.5 and every partial sum of np.sum (a LEFT FOLD starting at
   the first entry); fabs, unary minus, np.amax, minimum, maximum, count_nonzero, shape[0], literals are exact.

   A. SUMS OF NON-NEGATIVE ROUNDED TERMS  [C06_rounding_sum_bounds / _terms / _closed]: n values >= 0 summed by the rounded left fold
      are within (1-u)^(n-1) .. (1+u)^(n-1) of their exact sum; terms known to k roundings give k + n - 1;
      closed forms (1+u)^k - 1, never linearised, so there is no side condition like k u < 1.
   B. THE ANALYSIS  [rdepth m n : option nat]  (rounding depth of the body of [m] on vectors of length n; the
      rules are listed at the top of Model/MetricRdepth.v).  [C06_rounding_sound]: if it returns Some k then,
      for every rounding of the model and all vectors of length n >= 1, the rounded evaluation is DEFINED and
      |fl - exact| <= ((1+u)^k - 1) |exact|.  Definedness needs only [rnd_rel] (it preserves strict sign and 0:
      [C06_rounding_model_sign]); under the hypotheses of C08_robust it is also [C08_robust_sound].
      [C06_rounding_table]: k(n) for the 8 identifiers inside the fragment, for EVERY n >= 1, by computation
      on the regenerated terms (re-run on every source edit); [C06_rounding_outside]: the other 39 return None.
      [C06_rounding_<name>]: the same against the closed form sp_<name>, two-sided.

        squared_euclidean   n + 2            (each term: subtraction, SQUARED, + the square's own rounding = 3;
                                              the sum n - 1.  n + 1 is false: C06_rounding_squared_euclidean_sharp)
        manhattan           n                (subtraction 1, fabs exact, sum n - 1)
        euclidean           (n+3)/2 + 1      (the square root halves the depth n + 2, rounded up; + its own rounding)
        average_euclidean   (n+4)/2 + 1      (division by the exact length: n + 3; then the square root)
        chebyshev           1                (subtraction; fabs and amax exact)
        hamming             0                (exact: C06_rounding_hamming_exact)
        gower               n + 1            (manhattan / exact length)
        non_intersection    n + 1            (0.5 * manhattan; the model rounds the product)

      Outside, on purpose: squared_chord / matusita / hellinger subtract ROUNDED square roots, and no bound
      ((1+u)^k - 1) * exact holds for any k ([C06_rounding_squared_chord_refuted]; binary64:
      squared_chord([1.], [1. + 2^-52]) = 0.0); lorentzian, log_euclidean, log_squared_euclidean, gaussian (log
      / exp turn a relative error into an absolute one); the 32 decorated bodies (their `+ EPSILON` is a rounded
      addition in this model, so the first subtraction of the body cancels rounded operands).
   D. NON-VACUITY  [C06_rounding_nonvacuous]: u = 2^-53, rnd t = t (1 + u) (not the identity), x = [3; 0],
      y = [0; 4]: squared_euclidean = 25 (1+u)^4 and euclidean = 5 (1+u)^3, the bounds hold with equality. *)
From Coq Require Import Reals String List.
From OPF Require Import Spec.MetricSpec Model.MetricIR Gen.Metrics_gen Model.MetricRnd Model.MetricEval
     Model.MetricRdepth Proofs.RoundingBounds Proofs.RdepthSound Proofs.RdepthTable Proofs.RdepthWitness.
Import ListNotations.
Open Scope string_scope.
Open Scope R_scope.

(* ---------------- the model ---------------- *)
Theorem C06_rounding_model_sign :
  forall u rnd, 0 <= u < 1 -> rnd_rel u rnd ->
    rnd 0 = 0 /\ (forall t, 0 < t -> 0 < rnd t) /\ (forall t, t < 0 -> rnd t < 0).
Proof. exact rnd_rel_sign. Qed.

(* ---------------- A. sums of non-negative terms ---------------- *)
Theorem C06_rounding_sum_bounds :
  forall u rnd, 0 <= u < 1 -> rnd_rel u rnd ->
  forall l, Forall (fun t => 0 <= t) l ->
    (1 - u) ^ (Nat.pred (length l)) * sum l <= rsum rnd l <= (1 + u) ^ (Nat.pred (length l)) * sum l.
Proof. exact rsum_bounds_std. Qed.

Theorem C06_rounding_sum_terms :
  forall u rnd, 0 <= u < 1 -> rnd_rel u rnd ->
  forall e e' l l', 0 <= e -> 0 <= e' <= 1 ->
    Forall2 (fun t t' => 0 <= t /\ (1 - e') * t <= t' <= (1 + e) * t) l l' ->
    (1 - e') * (1 - u) ^ (Nat.pred (length l)) * sum l
      <= rsum rnd l'
      <= (1 + e) * (1 + u) ^ (Nat.pred (length l)) * sum l.
Proof. exact rsum_terms_bounds_std. Qed.

Theorem C06_rounding_sum_closed :
  forall u rnd, 0 <= u < 1 -> rnd_rel u rnd ->
  forall k l l',
    Forall2 (fun t t' => 0 <= t /\ (1 - u) ^ k * t <= t' <= (1 + u) ^ k * t) l l' ->
    (1 - u) ^ (k + Nat.pred (length l)) * sum l <= rsum rnd l' <= (1 + u) ^ (k + Nat.pred (length l)) * sum l
    /\ Rabs (rsum rnd l' - sum l) <= ((1 + u) ^ (k + Nat.pred (length l)) - 1) * sum l.
Proof. exact rsum_terms_closed_std. Qed.

(* ---------------- B. the analysis ---------------- *)
Theorem C06_rounding_sound :
  forall (m : metric_ir) (n k : nat),
    rdepth m n = Some k ->
    forall u rnd, 0 <= u < 1 -> rnd_rel u rnd ->
    forall x y, length x = n -> length y = n -> (1 <= n)%nat ->
    exists fl, metric_rnd rnd m x y = Some fl
               /\ within u k (metric_value m x y) fl
               /\ Rabs (fl - metric_value m x y) <= ((1 + u) ^ k - 1) * Rabs (metric_value m x y).
Proof. exact rdepth_sound. Qed.

Theorem C06_rounding_table :
  forall n, (1 <= n)%nat ->
       rdepth_name "squared_euclidean_distance" n = Some (n + 2)%nat
    /\ rdepth_name "manhattan_distance" n = Some n
    /\ rdepth_name "euclidean_distance" n = Some ((n + 3) / 2 + 1)%nat
    /\ rdepth_name "average_euclidean_distance" n = Some ((n + 4) / 2 + 1)%nat
    /\ rdepth_name "chebyshev_distance" n = Some 1%nat
    /\ rdepth_name "hamming_distance" n = Some 0%nat
    /\ rdepth_name "gower_distance" n = Some (n + 1)%nat
    /\ rdepth_name "non_intersection_distance" n = Some (n + 1)%nat.
Proof. exact rd_table. Qed.

Theorem C06_rounding_outside :
  forall n,
    forallb (fun f => match rdepth_name f n with None => true | Some _ => false end)
      ["additive_symmetric_distance"; "bhattacharyya_distance"; "bray_curtis_distance"; "canberra_distance";
       "chi_squared_distance"; "chord_distance"; "clark_distance"; "cosine_distance"; "dice_distance";
       "divergence_distance"; "gaussian_distance"; "hassanat_distance"; "hellinger_distance"; "jaccard_distance";
       "jeffreys_distance"; "jensen_distance"; "jensen_shannon_distance"; "k_divergence_distance";
       "kulczynski_distance"; "kullback_leibler_distance"; "log_euclidean_distance";
       "log_squared_euclidean_distance"; "lorentzian_distance"; "matusita_distance"; "max_symmetric_distance";
       "mean_censored_euclidean_distance"; "min_symmetric_distance"; "neyman_distance"; "pearson_distance";
       "sangvi_distance"; "soergel_distance"; "squared_distance"; "squared_chord_distance"; "statistic_distance";
       "topsoe_distance"; "vicis_symmetric1_distance"; "vicis_symmetric2_distance"; "vicis_symmetric3_distance";
       "vicis_wave_hedges_distance"] = true.
Proof. exact rd_outside. Qed.

(* ---------------- the instances, against the closed forms ---------------- *)
Theorem C06_rounding_squared_euclidean :
  forall u rnd, 0 <= u < 1 -> rnd_rel u rnd ->
  forall x y, length x = length y -> (1 <= length x)%nat ->
  exists fl, metric_rnd rnd ir_squared_euclidean x y = Some fl
    /\ (1 - u) ^ (length x + 2) * sp_squared_euclidean x y <= fl <= (1 + u) ^ (length x + 2) * sp_squared_euclidean x y
    /\ Rabs (fl - sp_squared_euclidean x y) <= ((1 + u) ^ (length x + 2) - 1) * sp_squared_euclidean x y.
Proof. exact rounding_squared_euclidean. Qed.

Theorem C06_rounding_manhattan :
  forall u rnd, 0 <= u < 1 -> rnd_rel u rnd ->
  forall x y, length x = length y -> (1 <= length x)%nat ->
  exists fl, metric_rnd rnd ir_manhattan x y = Some fl
    /\ (1 - u) ^ (length x) * sp_manhattan x y <= fl <= (1 + u) ^ (length x) * sp_manhattan x y
    /\ Rabs (fl - sp_manhattan x y) <= ((1 + u) ^ (length x) - 1) * sp_manhattan x y.
Proof. exact rounding_manhattan. Qed.

Theorem C06_rounding_euclidean :
  forall u rnd, 0 <= u < 1 -> rnd_rel u rnd ->
  forall x y, length x = length y -> (1 <= length x)%nat ->
  exists fl, metric_rnd rnd ir_euclidean x y = Some fl
    /\ (1 - u) ^ ((length x + 3) / 2 + 1) * sp_euclidean x y <= fl <= (1 + u) ^ ((length x + 3) / 2 + 1) * sp_euclidean x y
    /\ Rabs (fl - sp_euclidean x y) <= ((1 + u) ^ ((length x + 3) / 2 + 1) - 1) * sp_euclidean x y.
Proof. exact rounding_euclidean. Qed.

Theorem C06_rounding_average_euclidean :
  forall u rnd, 0 <= u < 1 -> rnd_rel u rnd ->
  forall x y, length x = length y -> (1 <= length x)%nat ->
  exists fl, metric_rnd rnd ir_average_euclidean x y = Some fl
    /\ (1 - u) ^ ((length x + 4) / 2 + 1) * sp_average_euclidean x y <= fl
         <= (1 + u) ^ ((length x + 4) / 2 + 1) * sp_average_euclidean x y
    /\ Rabs (fl - sp_average_euclidean x y) <= ((1 + u) ^ ((length x + 4) / 2 + 1) - 1) * sp_average_euclidean x y.
Proof. exact rounding_average_euclidean. Qed.

Theorem C06_rounding_chebyshev :
  forall u rnd, 0 <= u < 1 -> rnd_rel u rnd ->
  forall x y, length x = length y -> (1 <= length x)%nat ->
  exists fl, metric_rnd rnd ir_chebyshev x y = Some fl
    /\ (1 - u) ^ 1 * sp_chebyshev x y <= fl <= (1 + u) ^ 1 * sp_chebyshev x y
    /\ Rabs (fl - sp_chebyshev x y) <= ((1 + u) ^ 1 - 1) * sp_chebyshev x y.
Proof. exact rounding_chebyshev. Qed.

Theorem C06_rounding_hamming :
  forall u rnd, 0 <= u < 1 -> rnd_rel u rnd ->
  forall x y, length x = length y -> (1 <= length x)%nat ->
  exists fl, metric_rnd rnd ir_hamming x y = Some fl
    /\ (1 - u) ^ 0 * sp_hamming x y <= fl <= (1 + u) ^ 0 * sp_hamming x y
    /\ Rabs (fl - sp_hamming x y) <= ((1 + u) ^ 0 - 1) * sp_hamming x y.
Proof. exact rounding_hamming. Qed.

Theorem C06_rounding_hamming_exact :
  forall u rnd x y, 0 <= u < 1 -> rnd_rel u rnd -> length x = length y -> (1 <= length x)%nat ->
    metric_rnd rnd ir_hamming x y = Some (sp_hamming x y).
Proof. exact rounding_hamming_exact. Qed.

Theorem C06_rounding_gower :
  forall u rnd, 0 <= u < 1 -> rnd_rel u rnd ->
  forall x y, length x = length y -> (1 <= length x)%nat ->
  exists fl, metric_rnd rnd ir_gower x y = Some fl
    /\ (1 - u) ^ (length x + 1) * sp_gower x y <= fl <= (1 + u) ^ (length x + 1) * sp_gower x y
    /\ Rabs (fl - sp_gower x y) <= ((1 + u) ^ (length x + 1) - 1) * sp_gower x y.
Proof. exact rounding_gower. Qed.

Theorem C06_rounding_non_intersection :
  forall u rnd, 0 <= u < 1 -> rnd_rel u rnd ->
  forall x y, length x = length y -> (1 <= length x)%nat ->
  exists fl, metric_rnd rnd ir_non_intersection x y = Some fl
    /\ (1 - u) ^ (length x + 1) * sp_non_intersection x y <= fl <= (1 + u) ^ (length x + 1) * sp_non_intersection x y
    /\ Rabs (fl - sp_non_intersection x y) <= ((1 + u) ^ (length x + 1) - 1) * sp_non_intersection x y.
Proof. exact rounding_non_intersection. Qed.

(* ---------------- D. non-vacuity, sharpness, limits ---------------- *)
Theorem C06_rounding_nonvacuous :
  0 < u64 < 1 /\ rnd_rel u64 (rnd_up u64) /\ rnd_up u64 1 <> 1
  /\ metric_rnd (rnd_up u64) ir_squared_euclidean [3; 0] [0; 4] = Some (25 * (1 + u64) ^ 4)
  /\ sp_squared_euclidean [3; 0] [0; 4] = 25
  /\ Rabs (25 * (1 + u64) ^ 4 - 25) = ((1 + u64) ^ (2 + 2) - 1) * 25
  /\ metric_rnd (rnd_up u64) ir_euclidean [3; 0] [0; 4] = Some (5 * (1 + u64) ^ 3)
  /\ sp_euclidean [3; 0] [0; 4] = 5
  /\ Rabs (5 * (1 + u64) ^ 3 - 5) = ((1 + u64) ^ ((2 + 3) / 2 + 1) - 1) * 5.
Proof. exact rounding_nonvacuous. Qed.

Theorem C06_rounding_squared_euclidean_sharp :
  forall u, 0 < u < 1 ->
  exists rnd x y fl,
    rnd_rel u rnd /\ length x = 2%nat /\ length y = 2%nat
    /\ metric_rnd rnd ir_squared_euclidean x y = Some fl
    /\ fl - sp_squared_euclidean x y = ((1 + u) ^ (2 + 2) - 1) * sp_squared_euclidean x y
    /\ ((1 + u) ^ (2 + 1) - 1) * sp_squared_euclidean x y < Rabs (fl - sp_squared_euclidean x y).
Proof. exact squared_euclidean_exponent_sharp. Qed.

Theorem C06_rounding_squared_chord_refuted :
  forall u k, 0 < u < 1 ->
  exists rnd x y fl,
    rnd_rel u rnd /\ all_nonneg x /\ all_nonneg y /\ length x = length y
    /\ metric_rnd rnd ir_squared_chord x y = Some fl
    /\ 0 < sp_squared_chord x y
    /\ ((1 + u) ^ k - 1) * sp_squared_chord x y < Rabs (fl - sp_squared_chord x y).
Proof. exact squared_chord_no_relative_bound. Qed.
