(* C02 for an ARBITRARY weight type [W] whose comparison [ltb] is a strict total order
   (Base/TotalOrder.v).  Statements of Props/C02.v with  a <= b  written  ltb b a = false,
   a < b  written  ltb a b = true,  and [pathmax] replaced by [pathmaxW ltb]
   (Base/TotalOrder.v).  Derived from the theorems at W := Z (Proofs/LiftPrim.v).
   Not lifted: the statements about the TOTAL weight of a tree (C02_cycle_optimal_is_minimum,
   C02_prim_minimum_weight), which need addition, and the two uniqueness theorems about abstract
   arc relations (C02_cycle_optimal_unique, C02_minimax_arcs_unique), which do not mention the
   algorithm. *)
From OPF Require Import Proofs.FitBase Proofs.FitExample.
From OPF Require Import Proofs.HeapPrelude Base.Lists Base.TotalOrder Model.Heap Model.Sup Spec.Paths
  Spec.Trees Proofs.LiftPrim Proofs.LiftInst.

Theorem C02_prim_spanning_tree_anyorder :
  forall (W : Type) (ltb : W -> W -> bool),
    strict_total_order ltb ->
    forall (zero top : W) (n : nat) (w : nat -> nat -> W) (labels : list nat),
    1 <= n -> length labels = n ->
    (forall p q, p < n -> q < n -> p <> q -> ltb (w p q) top = true) ->
    let nd := find_prototypes ltb top n w (nodes_init zero labels) in
    let pred := fun q => nth q (n_pred nd) None in
    pred 0 = None /\
    (exists ord, Permutation ord (seq 0 n) /\
       forall q, 0 < q < n -> exists p, pred q = Some p /\ p < n /\ before ord p q) /\
    (forall q, q < n -> root_of pred q 0).
Proof. exact (@prim_spanning_tree_anyorder). Qed.

Theorem C02_prim_tree_connected_anyorder :
  forall (W : Type) (ltb : W -> W -> bool),
    strict_total_order ltb ->
    forall (zero top : W) (n : nat) (w : nat -> nat -> W) (labels : list nat),
    1 <= n -> length labels = n ->
    (forall p q, p < n -> q < n -> p <> q -> ltb (w p q) top = true) ->
    let nd := find_prototypes ltb top n w (nodes_init zero labels) in
    let pred := fun q => nth q (n_pred nd) None in
    forall u v, u < n -> v < n -> exists tp, tree_path_rel n pred u v tp.
Proof. exact (@prim_tree_connected_anyorder). Qed.

(* Minimum spanning tree, order-only form: every tree path is a minimax path of the complete
   graph ([m] is the value of a path without arcs, any element of W). *)
Theorem C02_prim_minimax_tree_anyorder :
  forall (W : Type) (ltb : W -> W -> bool),
    strict_total_order ltb ->
    forall (zero top : W) (n : nat) (w : nat -> nat -> W) (labels : list nat),
    1 <= n -> length labels = n ->
    (forall p q, p < n -> q < n -> p <> q -> ltb (w p q) top = true) ->
    (forall p q, p < n -> q < n -> w p q = w q p) ->
    let nd := find_prototypes ltb top n w (nodes_init zero labels) in
    let pred := fun q => nth q (n_pred nd) None in
    forall (m : W) u v tp pi,
      tree_path_rel n pred u v tp -> path_from_to n u v pi ->
      ltb (pathmaxW ltb w m pi) (pathmaxW ltb w m tp) = false.
Proof. exact (@prim_minimax_tree_anyorder). Qed.

(* Cycle property: no arc on the tree path between u and v is heavier than the arc (u, v). *)
Theorem C02_prim_cycle_optimal_anyorder :
  forall (W : Type) (ltb : W -> W -> bool),
    strict_total_order ltb ->
    forall (zero top : W) (n : nat) (w : nat -> nat -> W) (labels : list nat),
    1 <= n -> length labels = n ->
    (forall p q, p < n -> q < n -> p <> q -> ltb (w p q) top = true) ->
    (forall p q, p < n -> q < n -> w p q = w q p) ->
    let nd := find_prototypes ltb top n w (nodes_init zero labels) in
    let pred := fun q => nth q (n_pred nd) None in
    forall u v tp, u < n -> v < n -> tree_path_rel n pred u v tp ->
    forall a b, arc_on tp a b -> ltb (w u v) (w a b) = false.
Proof. exact (@prim_cycle_optimal_anyorder). Qed.

(* The prototypes are exactly the endpoints of the class-crossing tree arcs. *)
Theorem C02_prototypes_exact_anyorder :
  forall (W : Type) (ltb : W -> W -> bool),
    strict_total_order ltb ->
    forall (zero top : W) (n : nat) (w : nat -> nat -> W) (labels : list nat),
    1 <= n -> length labels = n ->
    (forall p q, p < n -> q < n -> p <> q -> ltb (w p q) top = true) ->
    let nd := find_prototypes ltb top n w (nodes_init zero labels) in
    let pred := fun q => nth q (n_pred nd) None in
    forall q, q < n ->
      (nth q (n_status nd) false = true <->
       exists r, (pred q = Some r \/ pred r = Some q) /\ r < n /\
                 nth q labels 0 <> nth r labels 0).
Proof. exact (@prototypes_exact_anyorder). Qed.

Theorem C02_every_class_has_prototype_anyorder :
  forall (W : Type) (ltb : W -> W -> bool),
    strict_total_order ltb ->
    forall (zero top : W) (n : nat) (w : nat -> nat -> W) (labels : list nat),
    1 <= n -> length labels = n ->
    (forall p q, p < n -> q < n -> p <> q -> ltb (w p q) top = true) ->
    let nd := find_prototypes ltb top n w (nodes_init zero labels) in
    (exists a b, a < n /\ b < n /\ nth a labels 0 <> nth b labels 0) ->
    forall q, q < n ->
      exists s, s < n /\ nth s (n_status nd) false = true /\ nth s labels 0 = nth q labels 0.
Proof. exact (@every_class_has_prototype_anyorder). Qed.

Theorem C02_prototypes_nonempty_anyorder :
  forall (W : Type) (ltb : W -> W -> bool),
    strict_total_order ltb ->
    forall (zero top : W) (n : nat) (w : nat -> nat -> W) (labels : list nat),
    1 <= n -> length labels = n ->
    (forall p q, p < n -> q < n -> p <> q -> ltb (w p q) top = true) ->
    let nd := find_prototypes ltb top n w (nodes_init zero labels) in
    (exists a b, a < n /\ b < n /\ nth a labels 0 <> nth b labels 0) ->
    exists s, s < n /\ nth s (n_status nd) false = true.
Proof. exact (@prototypes_nonempty_anyorder). Qed.

Theorem C02_prim_spanning_parent_map_anyorder :
  forall (W : Type) (ltb : W -> W -> bool),
    strict_total_order ltb ->
    forall (zero top : W) (n : nat) (w : nat -> nat -> W) (labels : list nat),
    1 <= n -> length labels = n ->
    (forall p q, p < n -> q < n -> p <> q -> ltb (w p q) top = true) ->
    let nd := find_prototypes ltb top n w (nodes_init zero labels) in
    spanning_parent_map n (fun q => nth q (n_pred nd) None).
Proof. exact (@prim_spanning_parent_map_anyorder). Qed.

(* Uniqueness: with pairwise distinct weights the tree arcs, and hence the prototypes, are
   characterised by the weights and labels alone: (u, v) is a tree arc iff every other simple
   path from u to v traverses a strictly heavier arc. *)
Theorem C02_prim_tree_characterised_anyorder :
  forall (W : Type) (ltb : W -> W -> bool),
    strict_total_order ltb ->
    forall (zero top : W) (n : nat) (w : nat -> nat -> W) (labels : list nat),
    1 <= n -> length labels = n ->
    (forall p q, p < n -> q < n -> p <> q -> ltb (w p q) top = true) ->
    (forall p q, p < n -> q < n -> w p q = w q p) ->
    (forall a b c d, a < n -> b < n -> c < n -> d < n -> a <> b -> c <> d ->
       w a b = w c d -> (a = c /\ b = d) \/ (a = d /\ b = c)) ->
    let nd := find_prototypes ltb top n w (nodes_init zero labels) in
    let pred := fun q => nth q (n_pred nd) None in
    forall u v, u < n -> v < n -> u <> v ->
      (tree_arc pred u v <->
       forall pi, path_from_to n u v pi -> NoDup pi -> pi <> [u; v] ->
         exists a b, arc_on pi a b /\ ltb (w u v) (w a b) = true).
Proof. exact (@prim_tree_characterised_anyorder). Qed.

Theorem C02_prototypes_characterised_anyorder :
  forall (W : Type) (ltb : W -> W -> bool),
    strict_total_order ltb ->
    forall (zero top : W) (n : nat) (w : nat -> nat -> W) (labels : list nat),
    1 <= n -> length labels = n ->
    (forall p q, p < n -> q < n -> p <> q -> ltb (w p q) top = true) ->
    (forall p q, p < n -> q < n -> w p q = w q p) ->
    (forall a b c d, a < n -> b < n -> c < n -> d < n -> a <> b -> c <> d ->
       w a b = w c d -> (a = c /\ b = d) \/ (a = d /\ b = c)) ->
    let nd := find_prototypes ltb top n w (nodes_init zero labels) in
    forall q, q < n ->
      (nth q (n_status nd) false = true <->
       exists r, r < n /\ nth q labels 0 <> nth r labels 0 /\
         forall pi, path_from_to n q r pi -> NoDup pi -> pi <> [q; r] ->
           exists a b, arc_on pi a b /\ ltb (w q r) (w a b) = true).
Proof. exact (@prototypes_characterised_anyorder). Qed.

Theorem C02_find_prototypes_lengths_anyorder :
  forall (W : Type) (ltb : W -> W -> bool),
    strict_total_order ltb ->
    forall (zero top : W) (n : nat) (w : nat -> nat -> W) (labels : list nat),
    1 <= n -> length labels = n ->
    (forall p q, p < n -> q < n -> p <> q -> ltb (w p q) top = true) ->
    let nd := find_prototypes ltb top n w (nodes_init zero labels) in
    length (n_cost nd) = n /\ length (n_pred nd) = n /\ length (n_status nd) = n /\
    n_label nd = labels /\ n_plabel nd = repeat 0 n /\
    n_relevant nd = repeat false n /\ n_order nd = [].
Proof. exact (@find_prototypes_lengths_anyorder). Qed.

(* C02 feeds C01: when two classes are present, SupervisedOPF.fit computes an optimum-path
   forest (conclusion of C01_sup_fit_anyorder; [before] here is Proofs.FitBase.before, by
   positions) *)
Theorem C02_two_classes_give_forest_anyorder :
  forall (W : Type) (ltb : W -> W -> bool),
    strict_total_order ltb ->
    forall (zero top : W) (labels : list nat) (w : nat -> nat -> W),
    let n := length labels in
    let fp := find_prototypes ltb top n w (nodes_init zero labels) in
    let isproto q := nth q (n_status fp) false = true in
    ltb zero top = true ->
    (forall p q, p < n -> q < n -> p <> q ->
       ltb (w p q) zero = false /\ ltb (w p q) top = true) ->
    (exists a b, a < n /\ b < n /\ nth a labels 0 <> nth b labels 0) ->
    let nd := sup_fit ltb zero top labels w in
    let cost q := nth q (n_cost nd) zero in
    let pred q := nth q (n_pred nd) None in
    let plabel q := nth q (n_plabel nd) 0 in
    (Permutation (n_order nd) (seq 0 n) /\
     (forall i j, i < j -> j < n ->
        ltb (cost (nth j (n_order nd) 0)) (cost (nth i (n_order nd) 0)) = false) /\
     (forall q, q < n -> isproto q ->
        pred q = None /\ cost q = zero /\ plabel q = nth q labels 0) /\
     (forall q, q < n -> ~ isproto q ->
        exists p, pred q = Some p /\ p < n /\ p <> q /\
          cost q = wmax ltb (cost p) (w p q) /\ plabel q = plabel p /\
          FitBase.before (n_order nd) p q) /\
     (forall q, q < n ->
        exists r k, r < n /\ isproto r /\ reaches pred q r k /\ pred r = None /\
          k < n /\ plabel q = nth r labels 0) /\
     (forall q s pi, q < n -> s < n -> isproto s -> path_from_to n s q pi ->
        ltb (pathmaxW ltb w zero pi) (cost q) = false) /\
     (forall q, q < n -> exists s pi, s < n /\ isproto s /\ path_from_to n s q pi /\
        pathmaxW ltb w zero pi = cost q)) /\
    n_status nd = n_status fp /\ n_label nd = labels.
Proof. exact (@sup_fit_anyorder_two_classes). Qed.

(* non-vacuity at W := nat (the samples of C01_anyorder_example_result) *)
Theorem C02_anyorder_example :
  n_status (find_prototypes Nat.ltb 1000 5 exn_w (nodes_init 0 ex_labels))
  = [false; false; true; true; false] /\
  n_pred (find_prototypes Nat.ltb 1000 5 exn_w (nodes_init 0 ex_labels))
  = [None; Some 0; Some 1; Some 2; Some 3].
Proof. exact exn_prototypes. Qed.
