(* C12 (arithmetic half) at IEEE-754 binary64: calculate_pdf / eliminate_maxima_height of Model/Pdf.v at
   [RndOps rnd64x] -- the reals with the binary64 round-to-nearest-even rounding (no underflow; Model/Binary64.v)
   after every `+ - * /`, exact comparisons and integer literals -- with every hypothesis on the rounding function
   of Props/C12_rounding.v DISCHARGED (Proofs/Binary64.v): rounding, rnd 1 = 1, idempotence, rnd x <= 2 x,
   integers up to 2^53 representable.  The statements keep hypotheses on the data only.

   New with respect to the abstract layer: the conditional clauses become unconditional --
   1 <= density <= 7994, 0 <= cost < density, every density is a binary64 number, min |-> exactly 1 -- and
   "terms in [0, 1], k <= 2^53" alone give min/max attained with 0 <= min <= max <= 1.
   What stays a limit of the format: the density map is weakly (not strictly) monotone, and the upper bound is 7994,
   not MAX_DENSITY (see C12_rnd_strict_order_model_limit, C12_rnd_cost_lt_density_model_limit for the abstract
   counter-models; whether binary64 itself attains them is not decided here). *)
From Coq Require Import Reals List ZArith.
From OPF Require Import Base.NumOps Base.NumOpsRnd Model.Pdf Model.MetricRnd Proofs.PdfBase
  Proofs.PdfRndBase Proofs.PdfRnd Proofs.PdfRndExample Model.Binary64 Proofs.Binary64 Proofs.Binary64Knn.
Import ListNotations.
Local Open Scope R_scope.

(* one computed pdf value, and its bounds *)
Theorem C12_binary64_pdf_value (k : nat) (e : nat -> R) :
  pdf_value (RndOps rnd64x) k e =
  rnd64x (fold_left (fun a b => rnd64x (a + b)) (map e (seq 0 k)) 0 / IZR (Z.of_nat (S k))).
Proof. exact (pdf_value_RndOps rnd64x k e). Qed.

Theorem C12_binary64_pdf_value_bounds (k : nat) (e e' : nat -> R) :
  ((forall l, (l < k)%nat -> 0 <= e l) -> 0 <= pdf_value (RndOps rnd64x) k e) /\
  ((forall l, (l < k)%nat -> e l <= e' l) -> pdf_value (RndOps rnd64x) k e <= pdf_value (RndOps rnd64x) k e') /\
  ((Z.of_nat k <= 2 ^ 53)%Z -> (forall l, (l < k)%nat -> e l <= 1) -> pdf_value (RndOps rnd64x) k e <= 1).
Proof. exact (b64_pdf_value_bounds k e e'). Qed.

(* calculate_pdf, everything in one statement; no hypothesis on the rounding is left *)
Theorem C12_binary64_calculate_pdf (fmax : R) (n k : nat) (gdens : R) (e : nat -> nat -> R)
    (c mn mx : R) (dc : list (R * R)) :
  (1 <= n)%nat ->
  calculate_pdf (RndOps rnd64x) fmax 1000 n k gdens e = (c, mn, mx, dc) ->
  let p := fun i => pdf_value (RndOps rnd64x) k (e i) in
  let dens := fun i => fst (nth i dc (0, 0)) in
  let cost := fun i => snd (nth i dc (0, 0)) in
  c = rnd64x (rnd64x (2 * gdens) / 9) /\
  length dc = n /\
  (forall i, (i < n)%nat -> mn <= p i <= mx) /\ mn <= mx /\
  ((forall i, (i < n)%nat -> rnd64x (0 - fmax) <= p i <= fmax) ->
     (exists i, (i < n)%nat /\ mn = p i) /\ (exists i, (i < n)%nat /\ mx = p i) /\
     (mn = mx <-> forall i j, (i < n)%nat -> (j < n)%nat -> p i = p j)) /\
  (forall i, (forall l, (l < k)%nat -> 0 <= e i l) -> 0 <= p i) /\
  (mn <> mx -> forall i, (i < n)%nat ->
     dens i = rnd64x (rnd64x (rnd64x (999 * rnd64x (p i - mn)) / rnd64x (mx - mn)) + 1) /\
     cost i = rnd64x (dens i - 1) /\ rnd64x (dens i) = dens i) /\
  (mn = mx -> forall i, (i < n)%nat -> dens i = 1000 /\ cost i = 999) /\
  (forall i j, (i < n)%nat -> (j < n)%nat ->
     (p i <= p j -> dens i <= dens j) /\ (p i = p j -> dens i = dens j) /\ (dens i < dens j -> p i < p j)) /\
  (forall i, (i < n)%nat -> p i = mx -> forall j, (j < n)%nat -> dens j <= dens i) /\
  (forall i, (i < n)%nat -> 1 <= dens i <= 7994 /\ 0 <= cost i < dens i) /\
  (mn <> mx -> forall i, (i < n)%nat -> p i = mn -> dens i = 1 /\ cost i = 0).
Proof. exact (b64_calculate_pdf fmax n k gdens e c mn mx dc). Qed.

(* hypotheses on the data only: terms in [0, 1] (they are exp(-d/c) values), FLOAT_MAX >= 1, k <= 2^53 *)
Theorem C12_binary64_minmax_unit_terms (fmax : R) (n k : nat) (gdens : R) (e : nat -> nat -> R)
    (c mn mx : R) (dc : list (R * R)) :
  (Z.of_nat k <= 2 ^ 53)%Z -> (1 <= n)%nat -> 1 <= fmax ->
  (forall i l, (i < n)%nat -> (l < k)%nat -> 0 <= e i l <= 1) ->
  calculate_pdf (RndOps rnd64x) fmax 1000 n k gdens e = (c, mn, mx, dc) ->
  (exists i, (i < n)%nat /\ mn = pdf_value (RndOps rnd64x) k (e i)) /\
  (exists i, (i < n)%nat /\ mx = pdf_value (RndOps rnd64x) k (e i)) /\
  0 <= mn /\ mn <= mx /\ mx <= 1.
Proof. exact (b64_minmax_unit_terms fmax n k gdens e c mn mx dc). Qed.

(* eliminate_maxima_height *)
Theorem C12_binary64_eliminate (h : R) (dens cost : list R) :
  (0 < h -> eliminate_maxima (RndOps rnd64x) h dens cost = map (fun d => Rmax (rnd64x (d - h)) 0) dens) /\
  (h <= 0 -> eliminate_maxima (RndOps rnd64x) h dens cost = cost) /\
  (0 < h -> forall d, 0 < d -> rnd64x d = d ->
     0 <= Rmax (rnd64x (d - h)) 0 <= d /\ (Rmax (rnd64x (d - h)) 0 < d <-> rnd64x (d - h) <> d)).
Proof. exact (b64_eliminate h dens cost). Qed.

(* ---------- non-vacuity ---------- *)

(* a run computed in binary64 arithmetic: two samples, k = 1, terms 1/4 and 3/4, density bound 9/2 *)
Theorem C12_binary64_example_run :
  (forall i l, ex2_e i l = match i with 0%nat => 1 / 4 | _ => 3 / 4 end) /\
  calculate_pdf (RndOps rnd64x) 10 1000 2 1 (9 / 2) ex2_e = (1, 1 / 8, 3 / 8, [(1, 0); (1000, 999)]).
Proof. exact (conj (fun i l => eq_refl) ex2_run). Qed.

(* the general theorems on terms that are not binary64 numbers (1001/4000, 406/625; Props/C12_rounding.v's data) *)
Theorem C12_binary64_example_instantiated :
  exists c mn mx dc,
    calculate_pdf (RndOps rnd64x) 10 1000 3 1 45 ex3_e = (c, mn, mx, dc) /\
    (forall i l, (i < 3)%nat -> (l < 1)%nat -> 0 <= ex3_e i l <= 1) /\
    (exists i, (i < 3)%nat /\ mn = pdf_value (RndOps rnd64x) 1 (ex3_e i)) /\
    (exists i, (i < 3)%nat /\ mx = pdf_value (RndOps rnd64x) 1 (ex3_e i)) /\
    0 <= mn /\ mn <= mx /\ mx <= 1 /\
    (forall i, (i < 3)%nat -> 1 <= fst (nth i dc (0, 0)) <= 7994 /\
                              0 <= snd (nth i dc (0, 0)) < fst (nth i dc (0, 0))).
Proof. exact ex3_b64. Qed.
