(* Capstone of C01-C04, C06, C08: supervised Optimum-Path Forest training and prediction over
   the REAL numbers with the arc weights computed by the metric code terms regenerated from
   opfython/math/distance.py.

   Composition of three finished developments (nothing new is proved about the algorithm or the
   metrics; see Proofs/Capstone.v):
   (a) Gen/Metrics_gen.v  ir_<name>  +  Props/C06.v closed forms  +  Props/C08_code.v axioms of the
       code terms on the user's domain (symmetry, non-negativity, zero self-distance);
   (b) Props/C01_anyorder.v, C02_anyorder.v, C03_anyorder.v, C04_anyorder.v: [sup_fit] computes an
       optimum-path forest, [predict_one] an exhaustive arg-min, for ANY weight type with a strict
       total order;
   (c) W := R, ltb := Rltb (Base/NumOps.v) is such an order (C01_capstone_order_R).

   Reading the statements.
     feat p                 row p of the training matrix, a [list R]; rows 0..n-1 have [dim] >= 1 entries
     metric_value ir_k x y  the real-number value of DISTANCES[k](x, y), decorator included (C06)
     sup_fit Rltb 0 fmax labels w   SupervisedOPF.fit with pairwise distances [w], c.FLOAT_MAX = fmax
     predict_one Rltb 0 nd d        the prediction scan for one query at distances [d] from the samples
   Comparisons are written with [<=], [<] and [Rmax] on R (the model's own [wmax Rltb] IS [Rmax]:
   C01_capstone_wmax_is_Rmax).  [pathmaxW Rltb w 0 pi] is the largest arc weight along [pi]
   (C01_capstone_pathmax_unfold).  Rounding is out of scope here as in C06/C08: these are the
   real-number semantics of the code terms.

   In the instances every hypothesis is about the DATA: row lengths, (for decorated metrics)
   non-negative entries, two classes present, every distance below fmax.  Symmetry and
   non-negativity of the weights come from C08_code.  *)
From Coq Require Import Reals String List Arith Bool Permutation.
From OPF Require Import Base.Lists Base.TotalOrder Base.NumOps Model.Heap Model.Sup Spec.Paths Spec.Trees.
From OPF Require Import Spec.MetricSpec Model.MetricIR Gen.Metrics_gen Model.MetricEval Proofs.FitBase.
From OPF Require Import Proofs.Capstone Proofs.CapstoneInstances Proofs.CapstoneExample.
Import ListNotations.
Open Scope R_scope.

(* ---------- (c) the reals as a weight type ---------- *)

Theorem C01_capstone_order_R : strict_total_order Rltb.
Proof. exact Rltb_strict_total_order. Qed.

Theorem C01_capstone_Rltb_spec :
  forall a b : R, (Rltb a b = true <-> a < b) /\ (Rltb a b = false <-> b <= a).
Proof. exact (fun a b => conj (Rltb_true a b) (Rltb_false a b)). Qed.

Theorem C01_capstone_wmax_is_Rmax : forall a b : R, wmax Rltb a b = Rmax a b.
Proof. exact wmax_Rltb. Qed.

Theorem C01_capstone_pathmax_unfold :
  forall w : nat -> nat -> R,
    pathmaxW Rltb w 0 [] = 0 /\
    (forall a, pathmaxW Rltb w 0 [a] = 0) /\
    (forall a b t, pathmaxW Rltb w 0 (a :: b :: t) = Rmax (w a b) (pathmaxW Rltb w 0 (b :: t))).
Proof. exact pathmaxW_Rltb_unfold. Qed.

(* ---------- the conclusion of C01 at W := R (the one abbreviation of this file) ---------- *)

(* [nd] is an optimum-path forest of the complete graph on 0..n-1 with arc weights [w], rooted at
   its prototypes, labelled from [labels].  In order: array lengths and untouched true labels;
   the conquest order is a permutation of the nodes, sorted by cost; prototypes are roots of cost 0
   with their own label; every other node has an earlier-conquered predecessor, cost
   = max(cost of predecessor, arc weight), and the predecessor's label; following predecessors
   ends, in fewer than n steps, in a prototype whose label is the one assigned; the recorded cost
   is <= the largest arc of EVERY path from EVERY prototype, and is attained by one; every class
   present owns a prototype. *)
Definition optimum_path_forest_R (n : nat) (w : nat -> nat -> R) (labels : list nat)
           (nd : @nodes R) : Prop :=
  let cost q := nth q (n_cost nd) 0 in
  let pred q := nth q (n_pred nd) None in
  let plabel q := nth q (n_plabel nd) 0%nat in
  let isproto q := nth q (n_status nd) false = true in
  (length (n_cost nd) = n /\ length (n_pred nd) = n /\ length (n_plabel nd) = n /\
   n_label nd = labels) /\
  Permutation (n_order nd) (seq 0 n) /\
  (forall i j, (i < j)%nat -> (j < n)%nat ->
     cost (nth i (n_order nd) 0%nat) <= cost (nth j (n_order nd) 0%nat)) /\
  (forall q, (q < n)%nat -> isproto q ->
     pred q = None /\ cost q = 0 /\ plabel q = nth q labels 0%nat) /\
  (forall q, (q < n)%nat -> ~ isproto q ->
     exists p, pred q = Some p /\ (p < n)%nat /\ p <> q /\
       cost q = Rmax (cost p) (w p q) /\ plabel q = plabel p /\
       FitBase.before (n_order nd) p q) /\
  (forall q, (q < n)%nat ->
     exists r k, (r < n)%nat /\ isproto r /\ reaches pred q r k /\ pred r = None /\
       (k < n)%nat /\ plabel q = nth r labels 0%nat) /\
  (forall q s pi, (q < n)%nat -> (s < n)%nat -> isproto s -> path_from_to n s q pi ->
     cost q <= pathmaxW Rltb w 0 pi) /\
  (forall q, (q < n)%nat -> exists s pi, (s < n)%nat /\ isproto s /\ path_from_to n s q pi /\
     pathmaxW Rltb w 0 pi = cost q) /\
  (forall q, (q < n)%nat -> exists s, (s < n)%nat /\ isproto s /\
     nth s labels 0%nat = nth q labels 0%nat).

(* ---------- generic capstone: any metric code term, any feature table ---------- *)

(* Hypotheses on the weights [w p q := metric_value m (feat p) (feat q)] only: symmetric,
   non-negative, below fmax; two classes present.  Conclusions: optimum-path forest; the prototypes
   are the endpoints of the class-crossing arcs of a minimum (minimax) spanning tree [mst]
   (the only place where symmetry is used); every query [x] receives the label carried by a
   training sample minimising max(cost, distance to x) over ALL training samples. *)
Theorem C01_capstone_sup_fit_metric_opf :
  forall (m : metric_ir) (feat : nat -> list R) (labels : list nat) (fmax : R),
  let n := length labels in
  let w p q := metric_value m (feat p) (feat q) in
  (forall p q, (p < n)%nat -> (q < n)%nat -> w p q = w q p) ->
  (forall p q, (p < n)%nat -> (q < n)%nat -> p <> q -> 0 <= w p q) ->
  (forall p q, (p < n)%nat -> (q < n)%nat -> p <> q -> w p q < fmax) ->
  0 < fmax ->
  (exists a b, (a < n)%nat /\ (b < n)%nat /\ nth a labels 0%nat <> nth b labels 0%nat) ->
  let nd := sup_fit Rltb 0 fmax labels w in
  let mst q := nth q (n_pred (find_prototypes Rltb fmax n w (nodes_init 0 labels))) None in
  optimum_path_forest_R n w labels nd /\
  (spanning_parent_map n mst /\
   (forall (m0 : R) u v tp pi, tree_path_rel n mst u v tp -> path_from_to n u v pi ->
      pathmaxW Rltb w m0 tp <= pathmaxW Rltb w m0 pi) /\
   (forall q, (q < n)%nat ->
      (nth q (n_status nd) false = true <->
       exists r, (mst q = Some r \/ mst r = Some q) /\ (r < n)%nat /\
                 nth q labels 0%nat <> nth r labels 0%nat))) /\
  forall x : list R,
    let d k := metric_value m (feat k) x in
    exists t, (t < n)%nat /\
      predict_one Rltb 0 nd d = (nth t (n_plabel nd) 0%nat, Some t) /\
      forall s, (s < n)%nat -> Rmax (nth t (n_cost nd) 0) (d t) <= Rmax (nth s (n_cost nd) 0) (d s).
Proof. exact sup_fit_metric_opf. Qed.

(* the same for arbitrary real weights (no metric): C01 + C03 at W := R *)
Theorem C01_capstone_sup_fit_R :
  forall (labels : list nat) (w : nat -> nat -> R) (fmax : R),
  let n := length labels in
  0 < fmax ->
  (forall p q, (p < n)%nat -> (q < n)%nat -> p <> q -> 0 <= w p q < fmax) ->
  (exists a b, (a < n)%nat /\ (b < n)%nat /\ nth a labels 0%nat <> nth b labels 0%nat) ->
  let nd := sup_fit Rltb 0 fmax labels w in
  optimum_path_forest_R n w labels nd /\
  forall d : nat -> R,
    exists t, (t < n)%nat /\
      predict_one Rltb 0 nd d = (nth t (n_plabel nd) 0%nat, Some t) /\
      forall s, (s < n)%nat -> Rmax (nth t (n_cost nd) 0) (d t) <= Rmax (nth s (n_cost nd) 0) (d s).
Proof.
  exact (fun labels w fmax Hpos Hr Hcls =>
           conj (sup_fit_R_forest labels w fmax Hpos Hr Hcls)
                (sup_fit_R_predict labels w fmax Hpos Hr Hcls)).
Qed.

(* C04 at W := R: tie-free weights (symmetric, positive and pairwise distinct off the diagonal) *)
Theorem C04_capstone_sup_fit_R :
  forall (labels : list nat) (w : nat -> nat -> R) (fmax : R),
  let n := length labels in
  (forall p q, (p < n)%nat -> (q < n)%nat -> w p q = w q p) ->
  (forall p q, (p < n)%nat -> (q < n)%nat -> p <> q -> 0 < w p q < fmax) ->
  (forall a b c d, (a < n)%nat -> (b < n)%nat -> (c < n)%nat -> (d < n)%nat -> a <> b -> c <> d ->
     w a b = w c d -> (a = c /\ b = d) \/ (a = d /\ b = c)) ->
  (exists a b, (a < n)%nat /\ (b < n)%nat /\ nth a labels 0%nat <> nth b labels 0%nat) ->
  let nd := sup_fit Rltb 0 fmax labels w in
  (forall q, (q < n)%nat -> nth q (n_plabel nd) 0%nat = nth q labels 0%nat) /\
  (forall (t : nat) (d : nat -> R), (t < n)%nat -> d t = 0 ->
     (forall s, (s < n)%nat -> s <> t -> d s = w s t) ->
     fst (predict_one Rltb 0 nd d) = nth t labels 0%nat).
Proof. exact sup_fit_R_tie_free. Qed.

(* ---------- instances: hypotheses about the data only ---------- *)
(* For each identifier:
     C01_capstone_<k>              weights = the code term's values
     C01_capstone_<k>_closed_form  weights written with the closed form sp_<k> of Spec/MetricSpec.v
                                   (shift v = v + EPSILON entrywise for the decorated metrics)
     C01_capstone_<k>_same_forest  the two trainings are the same forest
     C04_capstone_<k>              tie-free data: own labels, training rows classified correctly
   sp_log_squared_euclidean x y = 100000 * ln (sum_i (x_i - y_i)^2 + 1). *)

(* ----- euclidean ----- *)
Theorem C01_capstone_euclidean :
  forall (feat : nat -> list R) (labels : list nat) (dim : nat) (fmax : R),
    let n := length labels in
    let w p q := metric_value ir_euclidean (feat p) (feat q) in
    (1 <= dim)%nat -> (forall p, (p < n)%nat -> length (feat p) = dim) ->
    (exists a b, (a < n)%nat /\ (b < n)%nat /\ nth a labels 0%nat <> nth b labels 0%nat) ->
    (forall p q, (p < n)%nat -> (q < n)%nat -> p <> q -> w p q < fmax) -> 0 < fmax ->
    let nd := sup_fit Rltb 0 fmax labels w in
    optimum_path_forest_R n w labels nd /\
    forall x : list R,
      let d k := metric_value ir_euclidean (feat k) x in
      exists t, (t < n)%nat /\
        predict_one Rltb 0 nd d = (nth t (n_plabel nd) 0%nat, Some t) /\
        forall s, (s < n)%nat -> Rmax (nth t (n_cost nd) 0) (d t) <= Rmax (nth s (n_cost nd) 0) (d s).
Proof. exact cap_code_euclidean. Qed.

Theorem C01_capstone_euclidean_closed_form :
  forall (feat : nat -> list R) (labels : list nat) (dim : nat) (fmax : R),
    let n := length labels in
    let w p q := sp_euclidean (feat p) (feat q) in
    (1 <= dim)%nat -> (forall p, (p < n)%nat -> length (feat p) = dim) ->
    (exists a b, (a < n)%nat /\ (b < n)%nat /\ nth a labels 0%nat <> nth b labels 0%nat) ->
    (forall p q, (p < n)%nat -> (q < n)%nat -> p <> q -> w p q < fmax) -> 0 < fmax ->
    let nd := sup_fit Rltb 0 fmax labels w in
    optimum_path_forest_R n w labels nd /\
    forall x : list R,
      let d k := sp_euclidean (feat k) x in
      exists t, (t < n)%nat /\
        predict_one Rltb 0 nd d = (nth t (n_plabel nd) 0%nat, Some t) /\
        forall s, (s < n)%nat -> Rmax (nth t (n_cost nd) 0) (d t) <= Rmax (nth s (n_cost nd) 0) (d s).
Proof. exact cap_closed_euclidean. Qed.

Theorem C01_capstone_euclidean_same_forest :
  forall (feat : nat -> list R) (labels : list nat) (dim : nat) (fmax : R),
    let n := length labels in
    (1 <= dim)%nat -> (forall p, (p < n)%nat -> length (feat p) = dim) ->
    sup_fit Rltb 0 fmax labels (fun p q => metric_value ir_euclidean (feat p) (feat q))
    = sup_fit Rltb 0 fmax labels (fun p q => sp_euclidean (feat p) (feat q)).
Proof. exact cap_same_euclidean. Qed.

Theorem C04_capstone_euclidean :
  forall (feat : nat -> list R) (labels : list nat) (dim : nat) (fmax : R),
    let n := length labels in
    let w p q := metric_value ir_euclidean (feat p) (feat q) in
    (1 <= dim)%nat -> (forall p, (p < n)%nat -> length (feat p) = dim) ->
    (exists a b, (a < n)%nat /\ (b < n)%nat /\ nth a labels 0%nat <> nth b labels 0%nat) ->
    (forall p q, (p < n)%nat -> (q < n)%nat -> p <> q -> 0 < w p q < fmax) ->
    (forall a b c d, (a < n)%nat -> (b < n)%nat -> (c < n)%nat -> (d < n)%nat -> a <> b -> c <> d ->
       w a b = w c d -> (a = c /\ b = d) \/ (a = d /\ b = c)) ->
    let nd := sup_fit Rltb 0 fmax labels w in
    (forall q, (q < n)%nat -> nth q (n_plabel nd) 0%nat = nth q labels 0%nat) /\
    (forall t, (t < n)%nat ->
       fst (predict_one Rltb 0 nd (fun k => metric_value ir_euclidean (feat k) (feat t))) = nth t labels 0%nat).
Proof. exact cap_tiefree_euclidean. Qed.

(* ----- squared_euclidean ----- *)
Theorem C01_capstone_squared_euclidean :
  forall (feat : nat -> list R) (labels : list nat) (dim : nat) (fmax : R),
    let n := length labels in
    let w p q := metric_value ir_squared_euclidean (feat p) (feat q) in
    (1 <= dim)%nat -> (forall p, (p < n)%nat -> length (feat p) = dim) ->
    (exists a b, (a < n)%nat /\ (b < n)%nat /\ nth a labels 0%nat <> nth b labels 0%nat) ->
    (forall p q, (p < n)%nat -> (q < n)%nat -> p <> q -> w p q < fmax) -> 0 < fmax ->
    let nd := sup_fit Rltb 0 fmax labels w in
    optimum_path_forest_R n w labels nd /\
    forall x : list R,
      let d k := metric_value ir_squared_euclidean (feat k) x in
      exists t, (t < n)%nat /\
        predict_one Rltb 0 nd d = (nth t (n_plabel nd) 0%nat, Some t) /\
        forall s, (s < n)%nat -> Rmax (nth t (n_cost nd) 0) (d t) <= Rmax (nth s (n_cost nd) 0) (d s).
Proof. exact cap_code_squared_euclidean. Qed.

Theorem C01_capstone_squared_euclidean_closed_form :
  forall (feat : nat -> list R) (labels : list nat) (dim : nat) (fmax : R),
    let n := length labels in
    let w p q := sp_squared_euclidean (feat p) (feat q) in
    (1 <= dim)%nat -> (forall p, (p < n)%nat -> length (feat p) = dim) ->
    (exists a b, (a < n)%nat /\ (b < n)%nat /\ nth a labels 0%nat <> nth b labels 0%nat) ->
    (forall p q, (p < n)%nat -> (q < n)%nat -> p <> q -> w p q < fmax) -> 0 < fmax ->
    let nd := sup_fit Rltb 0 fmax labels w in
    optimum_path_forest_R n w labels nd /\
    forall x : list R,
      let d k := sp_squared_euclidean (feat k) x in
      exists t, (t < n)%nat /\
        predict_one Rltb 0 nd d = (nth t (n_plabel nd) 0%nat, Some t) /\
        forall s, (s < n)%nat -> Rmax (nth t (n_cost nd) 0) (d t) <= Rmax (nth s (n_cost nd) 0) (d s).
Proof. exact cap_closed_squared_euclidean. Qed.

Theorem C01_capstone_squared_euclidean_same_forest :
  forall (feat : nat -> list R) (labels : list nat) (dim : nat) (fmax : R),
    let n := length labels in
    (1 <= dim)%nat -> (forall p, (p < n)%nat -> length (feat p) = dim) ->
    sup_fit Rltb 0 fmax labels (fun p q => metric_value ir_squared_euclidean (feat p) (feat q))
    = sup_fit Rltb 0 fmax labels (fun p q => sp_squared_euclidean (feat p) (feat q)).
Proof. exact cap_same_squared_euclidean. Qed.

Theorem C04_capstone_squared_euclidean :
  forall (feat : nat -> list R) (labels : list nat) (dim : nat) (fmax : R),
    let n := length labels in
    let w p q := metric_value ir_squared_euclidean (feat p) (feat q) in
    (1 <= dim)%nat -> (forall p, (p < n)%nat -> length (feat p) = dim) ->
    (exists a b, (a < n)%nat /\ (b < n)%nat /\ nth a labels 0%nat <> nth b labels 0%nat) ->
    (forall p q, (p < n)%nat -> (q < n)%nat -> p <> q -> 0 < w p q < fmax) ->
    (forall a b c d, (a < n)%nat -> (b < n)%nat -> (c < n)%nat -> (d < n)%nat -> a <> b -> c <> d ->
       w a b = w c d -> (a = c /\ b = d) \/ (a = d /\ b = c)) ->
    let nd := sup_fit Rltb 0 fmax labels w in
    (forall q, (q < n)%nat -> nth q (n_plabel nd) 0%nat = nth q labels 0%nat) /\
    (forall t, (t < n)%nat ->
       fst (predict_one Rltb 0 nd (fun k => metric_value ir_squared_euclidean (feat k) (feat t))) = nth t labels 0%nat).
Proof. exact cap_tiefree_squared_euclidean. Qed.

(* ----- manhattan ----- *)
Theorem C01_capstone_manhattan :
  forall (feat : nat -> list R) (labels : list nat) (dim : nat) (fmax : R),
    let n := length labels in
    let w p q := metric_value ir_manhattan (feat p) (feat q) in
    (1 <= dim)%nat -> (forall p, (p < n)%nat -> length (feat p) = dim) ->
    (exists a b, (a < n)%nat /\ (b < n)%nat /\ nth a labels 0%nat <> nth b labels 0%nat) ->
    (forall p q, (p < n)%nat -> (q < n)%nat -> p <> q -> w p q < fmax) -> 0 < fmax ->
    let nd := sup_fit Rltb 0 fmax labels w in
    optimum_path_forest_R n w labels nd /\
    forall x : list R,
      let d k := metric_value ir_manhattan (feat k) x in
      exists t, (t < n)%nat /\
        predict_one Rltb 0 nd d = (nth t (n_plabel nd) 0%nat, Some t) /\
        forall s, (s < n)%nat -> Rmax (nth t (n_cost nd) 0) (d t) <= Rmax (nth s (n_cost nd) 0) (d s).
Proof. exact cap_code_manhattan. Qed.

Theorem C01_capstone_manhattan_closed_form :
  forall (feat : nat -> list R) (labels : list nat) (dim : nat) (fmax : R),
    let n := length labels in
    let w p q := sp_manhattan (feat p) (feat q) in
    (1 <= dim)%nat -> (forall p, (p < n)%nat -> length (feat p) = dim) ->
    (exists a b, (a < n)%nat /\ (b < n)%nat /\ nth a labels 0%nat <> nth b labels 0%nat) ->
    (forall p q, (p < n)%nat -> (q < n)%nat -> p <> q -> w p q < fmax) -> 0 < fmax ->
    let nd := sup_fit Rltb 0 fmax labels w in
    optimum_path_forest_R n w labels nd /\
    forall x : list R,
      let d k := sp_manhattan (feat k) x in
      exists t, (t < n)%nat /\
        predict_one Rltb 0 nd d = (nth t (n_plabel nd) 0%nat, Some t) /\
        forall s, (s < n)%nat -> Rmax (nth t (n_cost nd) 0) (d t) <= Rmax (nth s (n_cost nd) 0) (d s).
Proof. exact cap_closed_manhattan. Qed.

Theorem C01_capstone_manhattan_same_forest :
  forall (feat : nat -> list R) (labels : list nat) (dim : nat) (fmax : R),
    let n := length labels in
    (1 <= dim)%nat -> (forall p, (p < n)%nat -> length (feat p) = dim) ->
    sup_fit Rltb 0 fmax labels (fun p q => metric_value ir_manhattan (feat p) (feat q))
    = sup_fit Rltb 0 fmax labels (fun p q => sp_manhattan (feat p) (feat q)).
Proof. exact cap_same_manhattan. Qed.

Theorem C04_capstone_manhattan :
  forall (feat : nat -> list R) (labels : list nat) (dim : nat) (fmax : R),
    let n := length labels in
    let w p q := metric_value ir_manhattan (feat p) (feat q) in
    (1 <= dim)%nat -> (forall p, (p < n)%nat -> length (feat p) = dim) ->
    (exists a b, (a < n)%nat /\ (b < n)%nat /\ nth a labels 0%nat <> nth b labels 0%nat) ->
    (forall p q, (p < n)%nat -> (q < n)%nat -> p <> q -> 0 < w p q < fmax) ->
    (forall a b c d, (a < n)%nat -> (b < n)%nat -> (c < n)%nat -> (d < n)%nat -> a <> b -> c <> d ->
       w a b = w c d -> (a = c /\ b = d) \/ (a = d /\ b = c)) ->
    let nd := sup_fit Rltb 0 fmax labels w in
    (forall q, (q < n)%nat -> nth q (n_plabel nd) 0%nat = nth q labels 0%nat) /\
    (forall t, (t < n)%nat ->
       fst (predict_one Rltb 0 nd (fun k => metric_value ir_manhattan (feat k) (feat t))) = nth t labels 0%nat).
Proof. exact cap_tiefree_manhattan. Qed.

(* ----- log_squared_euclidean (the library default) ----- *)
Theorem C01_capstone_log_squared_euclidean :
  forall (feat : nat -> list R) (labels : list nat) (dim : nat) (fmax : R),
    let n := length labels in
    let w p q := metric_value ir_log_squared_euclidean (feat p) (feat q) in
    (1 <= dim)%nat -> (forall p, (p < n)%nat -> length (feat p) = dim) ->
    (exists a b, (a < n)%nat /\ (b < n)%nat /\ nth a labels 0%nat <> nth b labels 0%nat) ->
    (forall p q, (p < n)%nat -> (q < n)%nat -> p <> q -> w p q < fmax) -> 0 < fmax ->
    let nd := sup_fit Rltb 0 fmax labels w in
    optimum_path_forest_R n w labels nd /\
    forall x : list R,
      let d k := metric_value ir_log_squared_euclidean (feat k) x in
      exists t, (t < n)%nat /\
        predict_one Rltb 0 nd d = (nth t (n_plabel nd) 0%nat, Some t) /\
        forall s, (s < n)%nat -> Rmax (nth t (n_cost nd) 0) (d t) <= Rmax (nth s (n_cost nd) 0) (d s).
Proof. exact cap_code_log_squared_euclidean. Qed.

Theorem C01_capstone_log_squared_euclidean_closed_form :
  forall (feat : nat -> list R) (labels : list nat) (dim : nat) (fmax : R),
    let n := length labels in
    let w p q := sp_log_squared_euclidean (feat p) (feat q) in
    (1 <= dim)%nat -> (forall p, (p < n)%nat -> length (feat p) = dim) ->
    (exists a b, (a < n)%nat /\ (b < n)%nat /\ nth a labels 0%nat <> nth b labels 0%nat) ->
    (forall p q, (p < n)%nat -> (q < n)%nat -> p <> q -> w p q < fmax) -> 0 < fmax ->
    let nd := sup_fit Rltb 0 fmax labels w in
    optimum_path_forest_R n w labels nd /\
    forall x : list R,
      let d k := sp_log_squared_euclidean (feat k) x in
      exists t, (t < n)%nat /\
        predict_one Rltb 0 nd d = (nth t (n_plabel nd) 0%nat, Some t) /\
        forall s, (s < n)%nat -> Rmax (nth t (n_cost nd) 0) (d t) <= Rmax (nth s (n_cost nd) 0) (d s).
Proof. exact cap_closed_log_squared_euclidean. Qed.

Theorem C01_capstone_log_squared_euclidean_same_forest :
  forall (feat : nat -> list R) (labels : list nat) (dim : nat) (fmax : R),
    let n := length labels in
    (1 <= dim)%nat -> (forall p, (p < n)%nat -> length (feat p) = dim) ->
    sup_fit Rltb 0 fmax labels (fun p q => metric_value ir_log_squared_euclidean (feat p) (feat q))
    = sup_fit Rltb 0 fmax labels (fun p q => sp_log_squared_euclidean (feat p) (feat q)).
Proof. exact cap_same_log_squared_euclidean. Qed.

Theorem C04_capstone_log_squared_euclidean :
  forall (feat : nat -> list R) (labels : list nat) (dim : nat) (fmax : R),
    let n := length labels in
    let w p q := metric_value ir_log_squared_euclidean (feat p) (feat q) in
    (1 <= dim)%nat -> (forall p, (p < n)%nat -> length (feat p) = dim) ->
    (exists a b, (a < n)%nat /\ (b < n)%nat /\ nth a labels 0%nat <> nth b labels 0%nat) ->
    (forall p q, (p < n)%nat -> (q < n)%nat -> p <> q -> 0 < w p q < fmax) ->
    (forall a b c d, (a < n)%nat -> (b < n)%nat -> (c < n)%nat -> (d < n)%nat -> a <> b -> c <> d ->
       w a b = w c d -> (a = c /\ b = d) \/ (a = d /\ b = c)) ->
    let nd := sup_fit Rltb 0 fmax labels w in
    (forall q, (q < n)%nat -> nth q (n_plabel nd) 0%nat = nth q labels 0%nat) /\
    (forall t, (t < n)%nat ->
       fst (predict_one Rltb 0 nd (fun k => metric_value ir_log_squared_euclidean (feat k) (feat t))) = nth t labels 0%nat).
Proof. exact cap_tiefree_log_squared_euclidean. Qed.

(* ----- canberra ----- *)
Theorem C01_capstone_canberra :
  forall (feat : nat -> list R) (labels : list nat) (dim : nat) (fmax : R),
    let n := length labels in
    let w p q := metric_value ir_canberra (feat p) (feat q) in
    (1 <= dim)%nat -> (forall p, (p < n)%nat -> length (feat p) = dim) ->
    (forall p, (p < n)%nat -> all_nonneg (feat p)) ->
    (exists a b, (a < n)%nat /\ (b < n)%nat /\ nth a labels 0%nat <> nth b labels 0%nat) ->
    (forall p q, (p < n)%nat -> (q < n)%nat -> p <> q -> w p q < fmax) -> 0 < fmax ->
    let nd := sup_fit Rltb 0 fmax labels w in
    optimum_path_forest_R n w labels nd /\
    forall x : list R,
      let d k := metric_value ir_canberra (feat k) x in
      exists t, (t < n)%nat /\
        predict_one Rltb 0 nd d = (nth t (n_plabel nd) 0%nat, Some t) /\
        forall s, (s < n)%nat -> Rmax (nth t (n_cost nd) 0) (d t) <= Rmax (nth s (n_cost nd) 0) (d s).
Proof. exact cap_code_canberra. Qed.

Theorem C01_capstone_canberra_closed_form :
  forall (feat : nat -> list R) (labels : list nat) (dim : nat) (fmax : R),
    let n := length labels in
    let w p q := sp_canberra (shift (feat p)) (shift (feat q)) in
    (1 <= dim)%nat -> (forall p, (p < n)%nat -> length (feat p) = dim) ->
    (forall p, (p < n)%nat -> all_nonneg (feat p)) ->
    (exists a b, (a < n)%nat /\ (b < n)%nat /\ nth a labels 0%nat <> nth b labels 0%nat) ->
    (forall p q, (p < n)%nat -> (q < n)%nat -> p <> q -> w p q < fmax) -> 0 < fmax ->
    let nd := sup_fit Rltb 0 fmax labels w in
    optimum_path_forest_R n w labels nd /\
    forall x : list R,
      let d k := sp_canberra (shift (feat k)) (shift x) in
      exists t, (t < n)%nat /\
        predict_one Rltb 0 nd d = (nth t (n_plabel nd) 0%nat, Some t) /\
        forall s, (s < n)%nat -> Rmax (nth t (n_cost nd) 0) (d t) <= Rmax (nth s (n_cost nd) 0) (d s).
Proof. exact cap_closed_canberra. Qed.

Theorem C01_capstone_canberra_same_forest :
  forall (feat : nat -> list R) (labels : list nat) (dim : nat) (fmax : R),
    let n := length labels in
    (1 <= dim)%nat -> (forall p, (p < n)%nat -> length (feat p) = dim) ->
    sup_fit Rltb 0 fmax labels (fun p q => metric_value ir_canberra (feat p) (feat q))
    = sup_fit Rltb 0 fmax labels (fun p q => sp_canberra (shift (feat p)) (shift (feat q))).
Proof. exact cap_same_canberra. Qed.

Theorem C04_capstone_canberra :
  forall (feat : nat -> list R) (labels : list nat) (dim : nat) (fmax : R),
    let n := length labels in
    let w p q := metric_value ir_canberra (feat p) (feat q) in
    (1 <= dim)%nat -> (forall p, (p < n)%nat -> length (feat p) = dim) ->
    (forall p, (p < n)%nat -> all_nonneg (feat p)) ->
    (exists a b, (a < n)%nat /\ (b < n)%nat /\ nth a labels 0%nat <> nth b labels 0%nat) ->
    (forall p q, (p < n)%nat -> (q < n)%nat -> p <> q -> 0 < w p q < fmax) ->
    (forall a b c d, (a < n)%nat -> (b < n)%nat -> (c < n)%nat -> (d < n)%nat -> a <> b -> c <> d ->
       w a b = w c d -> (a = c /\ b = d) \/ (a = d /\ b = c)) ->
    let nd := sup_fit Rltb 0 fmax labels w in
    (forall q, (q < n)%nat -> nth q (n_plabel nd) 0%nat = nth q labels 0%nat) /\
    (forall t, (t < n)%nat ->
       fst (predict_one Rltb 0 nd (fun k => metric_value ir_canberra (feat k) (feat t))) = nth t labels 0%nat).
Proof. exact cap_tiefree_canberra. Qed.

(* ----- chi_squared ----- *)
Theorem C01_capstone_chi_squared :
  forall (feat : nat -> list R) (labels : list nat) (dim : nat) (fmax : R),
    let n := length labels in
    let w p q := metric_value ir_chi_squared (feat p) (feat q) in
    (1 <= dim)%nat -> (forall p, (p < n)%nat -> length (feat p) = dim) ->
    (forall p, (p < n)%nat -> all_nonneg (feat p)) ->
    (exists a b, (a < n)%nat /\ (b < n)%nat /\ nth a labels 0%nat <> nth b labels 0%nat) ->
    (forall p q, (p < n)%nat -> (q < n)%nat -> p <> q -> w p q < fmax) -> 0 < fmax ->
    let nd := sup_fit Rltb 0 fmax labels w in
    optimum_path_forest_R n w labels nd /\
    forall x : list R,
      let d k := metric_value ir_chi_squared (feat k) x in
      exists t, (t < n)%nat /\
        predict_one Rltb 0 nd d = (nth t (n_plabel nd) 0%nat, Some t) /\
        forall s, (s < n)%nat -> Rmax (nth t (n_cost nd) 0) (d t) <= Rmax (nth s (n_cost nd) 0) (d s).
Proof. exact cap_code_chi_squared. Qed.

Theorem C01_capstone_chi_squared_closed_form :
  forall (feat : nat -> list R) (labels : list nat) (dim : nat) (fmax : R),
    let n := length labels in
    let w p q := sp_chi_squared (shift (feat p)) (shift (feat q)) in
    (1 <= dim)%nat -> (forall p, (p < n)%nat -> length (feat p) = dim) ->
    (forall p, (p < n)%nat -> all_nonneg (feat p)) ->
    (exists a b, (a < n)%nat /\ (b < n)%nat /\ nth a labels 0%nat <> nth b labels 0%nat) ->
    (forall p q, (p < n)%nat -> (q < n)%nat -> p <> q -> w p q < fmax) -> 0 < fmax ->
    let nd := sup_fit Rltb 0 fmax labels w in
    optimum_path_forest_R n w labels nd /\
    forall x : list R,
      let d k := sp_chi_squared (shift (feat k)) (shift x) in
      exists t, (t < n)%nat /\
        predict_one Rltb 0 nd d = (nth t (n_plabel nd) 0%nat, Some t) /\
        forall s, (s < n)%nat -> Rmax (nth t (n_cost nd) 0) (d t) <= Rmax (nth s (n_cost nd) 0) (d s).
Proof. exact cap_closed_chi_squared. Qed.

Theorem C01_capstone_chi_squared_same_forest :
  forall (feat : nat -> list R) (labels : list nat) (dim : nat) (fmax : R),
    let n := length labels in
    (1 <= dim)%nat -> (forall p, (p < n)%nat -> length (feat p) = dim) ->
    sup_fit Rltb 0 fmax labels (fun p q => metric_value ir_chi_squared (feat p) (feat q))
    = sup_fit Rltb 0 fmax labels (fun p q => sp_chi_squared (shift (feat p)) (shift (feat q))).
Proof. exact cap_same_chi_squared. Qed.

Theorem C04_capstone_chi_squared :
  forall (feat : nat -> list R) (labels : list nat) (dim : nat) (fmax : R),
    let n := length labels in
    let w p q := metric_value ir_chi_squared (feat p) (feat q) in
    (1 <= dim)%nat -> (forall p, (p < n)%nat -> length (feat p) = dim) ->
    (forall p, (p < n)%nat -> all_nonneg (feat p)) ->
    (exists a b, (a < n)%nat /\ (b < n)%nat /\ nth a labels 0%nat <> nth b labels 0%nat) ->
    (forall p q, (p < n)%nat -> (q < n)%nat -> p <> q -> 0 < w p q < fmax) ->
    (forall a b c d, (a < n)%nat -> (b < n)%nat -> (c < n)%nat -> (d < n)%nat -> a <> b -> c <> d ->
       w a b = w c d -> (a = c /\ b = d) \/ (a = d /\ b = c)) ->
    let nd := sup_fit Rltb 0 fmax labels w in
    (forall q, (q < n)%nat -> nth q (n_plabel nd) 0%nat = nth q labels 0%nat) /\
    (forall t, (t < n)%nat ->
       fst (predict_one Rltb 0 nd (fun k => metric_value ir_chi_squared (feat k) (feat t))) = nth t labels 0%nat).
Proof. exact cap_tiefree_chi_squared. Qed.

(* DISTANCES[k] for the six identifiers above is the code term used above (see C06 for all 47) *)
Theorem C01_capstone_identifiers_resolve :
  resolve "euclidean"%string = Some ir_euclidean /\
  resolve "squared_euclidean"%string = Some ir_squared_euclidean /\
  resolve "manhattan"%string = Some ir_manhattan /\
  resolve "log_squared_euclidean"%string = Some ir_log_squared_euclidean /\
  resolve "canberra"%string = Some ir_canberra /\
  resolve "chi_squared"%string = Some ir_chi_squared.
Proof. exact cap_resolve_six. Qed.

(* prototypes of the default metric: endpoints of the class-crossing arcs of a minimum spanning tree *)
Theorem C02_capstone_log_squared_euclidean :
  forall (feat : nat -> list R) (labels : list nat) (dim : nat) (fmax : R),
    let n := length labels in
    let w p q := metric_value ir_log_squared_euclidean (feat p) (feat q) in
    (1 <= dim)%nat -> (forall p, (p < n)%nat -> length (feat p) = dim) ->
    (exists a b, (a < n)%nat /\ (b < n)%nat /\ nth a labels 0%nat <> nth b labels 0%nat) ->
    (forall p q, (p < n)%nat -> (q < n)%nat -> p <> q -> w p q < fmax) -> 0 < fmax ->
    let nd := sup_fit Rltb 0 fmax labels w in
    let mst q := nth q (n_pred (find_prototypes Rltb fmax n w (nodes_init 0 labels))) None in
    spanning_parent_map n mst /\
    (forall (m : R) u v tp pi, tree_path_rel n mst u v tp -> path_from_to n u v pi ->
       pathmaxW Rltb w m tp <= pathmaxW Rltb w m pi) /\
    (forall q, (q < n)%nat ->
       (nth q (n_status nd) false = true <->
        exists r, (mst q = Some r \/ mst r = Some q) /\ (r < n)%nat /\
                  nth q labels 0%nat <> nth r labels 0%nat)).
Proof. exact cap_protos_log_squared_euclidean. Qed.

(* ---------- every symmetric, non-negative identifier (41 of the 47) ---------- *)

Theorem C01_capstone_all_metrics :
  forall (m : metric_ir) (dom : list R -> Prop) (cf : list R -> list R -> R),
    In (m, dom, cf) [
           (ir_additive_symmetric, all_nonneg, (fun x y : list R => sp_additive_symmetric (shift x) (shift y)));
           (ir_average_euclidean, (fun _ : list R => True), sp_average_euclidean);
           (ir_bhattacharyya, (fun x : list R => all_nonneg x /\ sum (shift x) = 1), (fun x y : list R => sp_bhattacharyya (shift x) (shift y)));
           (ir_bray_curtis, all_nonneg, (fun x y : list R => sp_bray_curtis (shift x) (shift y)));
           (ir_canberra, all_nonneg, (fun x y : list R => sp_canberra (shift x) (shift y)));
           (ir_chebyshev, (fun _ : list R => True), sp_chebyshev);
           (ir_chi_squared, all_nonneg, (fun x y : list R => sp_chi_squared (shift x) (shift y)));
           (ir_chord, all_nonneg, (fun x y : list R => sp_chord (shift x) (shift y)));
           (ir_clark, all_nonneg, (fun x y : list R => sp_clark (shift x) (shift y)));
           (ir_cosine, all_nonneg, (fun x y : list R => sp_cosine (shift x) (shift y)));
           (ir_dice, all_nonneg, (fun x y : list R => sp_dice (shift x) (shift y)));
           (ir_divergence, all_nonneg, (fun x y : list R => sp_divergence (shift x) (shift y)));
           (ir_euclidean, (fun _ : list R => True), sp_euclidean);
           (ir_gower, (fun _ : list R => True), sp_gower);
           (ir_hamming, (fun _ : list R => True), sp_hamming);
           (ir_hassanat, (fun _ : list R => True), (fun x y : list R => sp_hassanat (shift x) (shift y)));
           (ir_hellinger, all_nonneg, sp_hellinger);
           (ir_jaccard, all_nonneg, (fun x y : list R => sp_jaccard (shift x) (shift y)));
           (ir_jeffreys, all_nonneg, (fun x y : list R => sp_jeffreys (shift x) (shift y)));
           (ir_jensen, all_nonneg, (fun x y : list R => sp_jensen (shift x) (shift y)));
           (ir_jensen_shannon, all_nonneg, (fun x y : list R => sp_jensen_shannon (shift x) (shift y)));
           (ir_kulczynski, all_nonneg, (fun x y : list R => sp_kulczynski (shift x) (shift y)));
           (ir_log_euclidean, (fun _ : list R => True), sp_log_euclidean);
           (ir_log_squared_euclidean, (fun _ : list R => True), sp_log_squared_euclidean);
           (ir_lorentzian, (fun _ : list R => True), sp_lorentzian);
           (ir_manhattan, (fun _ : list R => True), sp_manhattan);
           (ir_matusita, all_nonneg, sp_matusita);
           (ir_max_symmetric, all_nonneg, (fun x y : list R => sp_max_symmetric (shift x) (shift y)));
           (ir_mean_censored_euclidean, all_nonneg, (fun x y : list R => sp_mean_censored_euclidean (shift x) (shift y)));
           (ir_min_symmetric, all_nonneg, (fun x y : list R => sp_min_symmetric (shift x) (shift y)));
           (ir_non_intersection, (fun _ : list R => True), sp_non_intersection);
           (ir_sangvi, all_nonneg, (fun x y : list R => sp_sangvi (shift x) (shift y)));
           (ir_soergel, all_nonneg, (fun x y : list R => sp_soergel (shift x) (shift y)));
           (ir_squared, all_nonneg, (fun x y : list R => sp_squared (shift x) (shift y)));
           (ir_squared_chord, all_nonneg, sp_squared_chord);
           (ir_squared_euclidean, (fun _ : list R => True), sp_squared_euclidean);
           (ir_topsoe, all_nonneg, (fun x y : list R => sp_topsoe (shift x) (shift y)));
           (ir_vicis_symmetric1, all_nonneg, (fun x y : list R => sp_vicis_symmetric1 (shift x) (shift y)));
           (ir_vicis_symmetric2, all_nonneg, (fun x y : list R => sp_vicis_symmetric2 (shift x) (shift y)));
           (ir_vicis_symmetric3, all_nonneg, (fun x y : list R => sp_vicis_symmetric3 (shift x) (shift y)));
           (ir_vicis_wave_hedges, all_nonneg, (fun x y : list R => sp_vicis_wave_hedges (shift x) (shift y))) ] ->
    forall (feat : nat -> list R) (labels : list nat) (dim : nat) (fmax : R),
    let n := length labels in
    let w p q := metric_value m (feat p) (feat q) in
    (1 <= dim)%nat -> (forall p, (p < n)%nat -> length (feat p) = dim) ->
    (forall p, (p < n)%nat -> dom (feat p)) ->
    (exists a b, (a < n)%nat /\ (b < n)%nat /\ nth a labels 0%nat <> nth b labels 0%nat) ->
    (forall p q, (p < n)%nat -> (q < n)%nat -> p <> q -> w p q < fmax) -> 0 < fmax ->
    let nd := sup_fit Rltb 0 fmax labels w in
    optimum_path_forest_R n w labels nd /\
    forall x : list R,
      let d k := metric_value m (feat k) x in
      exists t, (t < n)%nat /\
        predict_one Rltb 0 nd d = (nth t (n_plabel nd) 0%nat, Some t) /\
        forall s, (s < n)%nat -> Rmax (nth t (n_cost nd) 0) (d t) <= Rmax (nth s (n_cost nd) 0) (d s).
Proof. exact cap_all_code. Qed.

Theorem C01_capstone_all_metrics_closed_form :
  forall (m : metric_ir) (dom : list R -> Prop) (cf : list R -> list R -> R),
    In (m, dom, cf) [
           (ir_additive_symmetric, all_nonneg, (fun x y : list R => sp_additive_symmetric (shift x) (shift y)));
           (ir_average_euclidean, (fun _ : list R => True), sp_average_euclidean);
           (ir_bhattacharyya, (fun x : list R => all_nonneg x /\ sum (shift x) = 1), (fun x y : list R => sp_bhattacharyya (shift x) (shift y)));
           (ir_bray_curtis, all_nonneg, (fun x y : list R => sp_bray_curtis (shift x) (shift y)));
           (ir_canberra, all_nonneg, (fun x y : list R => sp_canberra (shift x) (shift y)));
           (ir_chebyshev, (fun _ : list R => True), sp_chebyshev);
           (ir_chi_squared, all_nonneg, (fun x y : list R => sp_chi_squared (shift x) (shift y)));
           (ir_chord, all_nonneg, (fun x y : list R => sp_chord (shift x) (shift y)));
           (ir_clark, all_nonneg, (fun x y : list R => sp_clark (shift x) (shift y)));
           (ir_cosine, all_nonneg, (fun x y : list R => sp_cosine (shift x) (shift y)));
           (ir_dice, all_nonneg, (fun x y : list R => sp_dice (shift x) (shift y)));
           (ir_divergence, all_nonneg, (fun x y : list R => sp_divergence (shift x) (shift y)));
           (ir_euclidean, (fun _ : list R => True), sp_euclidean);
           (ir_gower, (fun _ : list R => True), sp_gower);
           (ir_hamming, (fun _ : list R => True), sp_hamming);
           (ir_hassanat, (fun _ : list R => True), (fun x y : list R => sp_hassanat (shift x) (shift y)));
           (ir_hellinger, all_nonneg, sp_hellinger);
           (ir_jaccard, all_nonneg, (fun x y : list R => sp_jaccard (shift x) (shift y)));
           (ir_jeffreys, all_nonneg, (fun x y : list R => sp_jeffreys (shift x) (shift y)));
           (ir_jensen, all_nonneg, (fun x y : list R => sp_jensen (shift x) (shift y)));
           (ir_jensen_shannon, all_nonneg, (fun x y : list R => sp_jensen_shannon (shift x) (shift y)));
           (ir_kulczynski, all_nonneg, (fun x y : list R => sp_kulczynski (shift x) (shift y)));
           (ir_log_euclidean, (fun _ : list R => True), sp_log_euclidean);
           (ir_log_squared_euclidean, (fun _ : list R => True), sp_log_squared_euclidean);
           (ir_lorentzian, (fun _ : list R => True), sp_lorentzian);
           (ir_manhattan, (fun _ : list R => True), sp_manhattan);
           (ir_matusita, all_nonneg, sp_matusita);
           (ir_max_symmetric, all_nonneg, (fun x y : list R => sp_max_symmetric (shift x) (shift y)));
           (ir_mean_censored_euclidean, all_nonneg, (fun x y : list R => sp_mean_censored_euclidean (shift x) (shift y)));
           (ir_min_symmetric, all_nonneg, (fun x y : list R => sp_min_symmetric (shift x) (shift y)));
           (ir_non_intersection, (fun _ : list R => True), sp_non_intersection);
           (ir_sangvi, all_nonneg, (fun x y : list R => sp_sangvi (shift x) (shift y)));
           (ir_soergel, all_nonneg, (fun x y : list R => sp_soergel (shift x) (shift y)));
           (ir_squared, all_nonneg, (fun x y : list R => sp_squared (shift x) (shift y)));
           (ir_squared_chord, all_nonneg, sp_squared_chord);
           (ir_squared_euclidean, (fun _ : list R => True), sp_squared_euclidean);
           (ir_topsoe, all_nonneg, (fun x y : list R => sp_topsoe (shift x) (shift y)));
           (ir_vicis_symmetric1, all_nonneg, (fun x y : list R => sp_vicis_symmetric1 (shift x) (shift y)));
           (ir_vicis_symmetric2, all_nonneg, (fun x y : list R => sp_vicis_symmetric2 (shift x) (shift y)));
           (ir_vicis_symmetric3, all_nonneg, (fun x y : list R => sp_vicis_symmetric3 (shift x) (shift y)));
           (ir_vicis_wave_hedges, all_nonneg, (fun x y : list R => sp_vicis_wave_hedges (shift x) (shift y))) ] ->
    forall (feat : nat -> list R) (labels : list nat) (dim : nat) (fmax : R),
    let n := length labels in
    let w p q := cf (feat p) (feat q) in
    (1 <= dim)%nat -> (forall p, (p < n)%nat -> length (feat p) = dim) ->
    (forall p, (p < n)%nat -> dom (feat p)) ->
    (exists a b, (a < n)%nat /\ (b < n)%nat /\ nth a labels 0%nat <> nth b labels 0%nat) ->
    (forall p q, (p < n)%nat -> (q < n)%nat -> p <> q -> w p q < fmax) -> 0 < fmax ->
    let nd := sup_fit Rltb 0 fmax labels w in
    nd = sup_fit Rltb 0 fmax labels (fun p q => metric_value m (feat p) (feat q)) /\
    optimum_path_forest_R n w labels nd /\
    forall x : list R,
      let d k := cf (feat k) x in
      exists t, (t < n)%nat /\
        predict_one Rltb 0 nd d = (nth t (n_plabel nd) 0%nat, Some t) /\
        forall s, (s < n)%nat -> Rmax (nth t (n_cost nd) 0) (d t) <= Rmax (nth s (n_cost nd) 0) (d s).
Proof. exact cap_all_closed. Qed.

Theorem C04_capstone_all_metrics :
  forall (m : metric_ir) (dom : list R -> Prop) (cf : list R -> list R -> R),
    In (m, dom, cf) [
           (ir_additive_symmetric, all_nonneg, (fun x y : list R => sp_additive_symmetric (shift x) (shift y)));
           (ir_average_euclidean, (fun _ : list R => True), sp_average_euclidean);
           (ir_bhattacharyya, (fun x : list R => all_nonneg x /\ sum (shift x) = 1), (fun x y : list R => sp_bhattacharyya (shift x) (shift y)));
           (ir_bray_curtis, all_nonneg, (fun x y : list R => sp_bray_curtis (shift x) (shift y)));
           (ir_canberra, all_nonneg, (fun x y : list R => sp_canberra (shift x) (shift y)));
           (ir_chebyshev, (fun _ : list R => True), sp_chebyshev);
           (ir_chi_squared, all_nonneg, (fun x y : list R => sp_chi_squared (shift x) (shift y)));
           (ir_chord, all_nonneg, (fun x y : list R => sp_chord (shift x) (shift y)));
           (ir_clark, all_nonneg, (fun x y : list R => sp_clark (shift x) (shift y)));
           (ir_cosine, all_nonneg, (fun x y : list R => sp_cosine (shift x) (shift y)));
           (ir_dice, all_nonneg, (fun x y : list R => sp_dice (shift x) (shift y)));
           (ir_divergence, all_nonneg, (fun x y : list R => sp_divergence (shift x) (shift y)));
           (ir_euclidean, (fun _ : list R => True), sp_euclidean);
           (ir_gower, (fun _ : list R => True), sp_gower);
           (ir_hamming, (fun _ : list R => True), sp_hamming);
           (ir_hassanat, (fun _ : list R => True), (fun x y : list R => sp_hassanat (shift x) (shift y)));
           (ir_hellinger, all_nonneg, sp_hellinger);
           (ir_jaccard, all_nonneg, (fun x y : list R => sp_jaccard (shift x) (shift y)));
           (ir_jeffreys, all_nonneg, (fun x y : list R => sp_jeffreys (shift x) (shift y)));
           (ir_jensen, all_nonneg, (fun x y : list R => sp_jensen (shift x) (shift y)));
           (ir_jensen_shannon, all_nonneg, (fun x y : list R => sp_jensen_shannon (shift x) (shift y)));
           (ir_kulczynski, all_nonneg, (fun x y : list R => sp_kulczynski (shift x) (shift y)));
           (ir_log_euclidean, (fun _ : list R => True), sp_log_euclidean);
           (ir_log_squared_euclidean, (fun _ : list R => True), sp_log_squared_euclidean);
           (ir_lorentzian, (fun _ : list R => True), sp_lorentzian);
           (ir_manhattan, (fun _ : list R => True), sp_manhattan);
           (ir_matusita, all_nonneg, sp_matusita);
           (ir_max_symmetric, all_nonneg, (fun x y : list R => sp_max_symmetric (shift x) (shift y)));
           (ir_mean_censored_euclidean, all_nonneg, (fun x y : list R => sp_mean_censored_euclidean (shift x) (shift y)));
           (ir_min_symmetric, all_nonneg, (fun x y : list R => sp_min_symmetric (shift x) (shift y)));
           (ir_non_intersection, (fun _ : list R => True), sp_non_intersection);
           (ir_sangvi, all_nonneg, (fun x y : list R => sp_sangvi (shift x) (shift y)));
           (ir_soergel, all_nonneg, (fun x y : list R => sp_soergel (shift x) (shift y)));
           (ir_squared, all_nonneg, (fun x y : list R => sp_squared (shift x) (shift y)));
           (ir_squared_chord, all_nonneg, sp_squared_chord);
           (ir_squared_euclidean, (fun _ : list R => True), sp_squared_euclidean);
           (ir_topsoe, all_nonneg, (fun x y : list R => sp_topsoe (shift x) (shift y)));
           (ir_vicis_symmetric1, all_nonneg, (fun x y : list R => sp_vicis_symmetric1 (shift x) (shift y)));
           (ir_vicis_symmetric2, all_nonneg, (fun x y : list R => sp_vicis_symmetric2 (shift x) (shift y)));
           (ir_vicis_symmetric3, all_nonneg, (fun x y : list R => sp_vicis_symmetric3 (shift x) (shift y)));
           (ir_vicis_wave_hedges, all_nonneg, (fun x y : list R => sp_vicis_wave_hedges (shift x) (shift y))) ] ->
    forall (feat : nat -> list R) (labels : list nat) (dim : nat) (fmax : R),
    let n := length labels in
    let w p q := metric_value m (feat p) (feat q) in
    (1 <= dim)%nat -> (forall p, (p < n)%nat -> length (feat p) = dim) ->
    (forall p, (p < n)%nat -> dom (feat p)) ->
    (exists a b, (a < n)%nat /\ (b < n)%nat /\ nth a labels 0%nat <> nth b labels 0%nat) ->
    (forall p q, (p < n)%nat -> (q < n)%nat -> p <> q -> 0 < w p q < fmax) ->
    (forall a b c d, (a < n)%nat -> (b < n)%nat -> (c < n)%nat -> (d < n)%nat -> a <> b -> c <> d ->
       w a b = w c d -> (a = c /\ b = d) \/ (a = d /\ b = c)) ->
    let nd := sup_fit Rltb 0 fmax labels w in
    (forall q, (q < n)%nat -> nth q (n_plabel nd) 0%nat = nth q labels 0%nat) /\
    (forall t, (t < n)%nat ->
       fst (predict_one Rltb 0 nd (fun k => metric_value m (feat k) (feat t))) = nth t labels 0%nat).
Proof. exact cap_all_tiefree. Qed.
(* ---------- non-vacuity: three samples 0, 1, 3 on the line, classes 0 0 1, manhattan ---------- *)

Theorem C01_capstone_example_premises :
  let feat p := nth p [[0]; [1]; [3]] [] in
  let labels := [0; 0; 1]%nat in
  let n := length labels in
  let w p q := metric_value ir_manhattan (feat p) (feat q) in
  (1 <= 1)%nat /\ (forall p, (p < n)%nat -> length (feat p) = 1%nat) /\
  (exists a b, (a < n)%nat /\ (b < n)%nat /\ nth a labels 0%nat <> nth b labels 0%nat) /\
  (forall p q, (p < n)%nat -> (q < n)%nat -> p <> q -> 0 < w p q < 100) /\
  (forall a b c d, (a < n)%nat -> (b < n)%nat -> (c < n)%nat -> (d < n)%nat -> a <> b -> c <> d ->
     w a b = w c d -> (a = c /\ b = d) \/ (a = d /\ b = c)) /\
  0 < 100.
Proof. exact cx_premises. Qed.

Theorem C01_capstone_example_result :
  let feat p := nth p [[0]; [1]; [3]] [] in
  let labels := [0; 0; 1]%nat in
  let n := length labels in
  let w p q := metric_value ir_manhattan (feat p) (feat q) in
  let nd := sup_fit Rltb 0 100 labels w in
  optimum_path_forest_R n w labels nd /\
  (forall q, (q < n)%nat -> nth q (n_plabel nd) 0%nat = nth q labels 0%nat) /\
  (forall t, (t < n)%nat ->
     fst (predict_one Rltb 0 nd (fun k => metric_value ir_manhattan (feat k) (feat t)))
     = nth t labels 0%nat).
Proof. exact cx_result. Qed.
