From Coq Require Import ZArith List.
From OPF Require Import Base.Lists Model.Sup Proofs.Predict.
Import ListNotations.

(* C09, supervised / semi-supervised part - a prediction depends only on the fitted model and
   the sample itself.  [ds]: one distance function (training sample -> distance) per batch row. *)

(* The labels of a batch are the pointwise map of the single-sample scan over the ORIGINAL
   model: position in the batch, the other rows and duplicates are irrelevant; the batch leaves
   cost, predecessor, labels, status and conquest order of the model untouched (only the
   relevance flags change). *)
Theorem C09_sup_predict_pointwise :
  forall (zero : Z) (nd : @nodes Z) (ds : list (nat -> Z)),
    snd (predict_batch Z.ltb zero nd ds) = map (fun d => fst (predict_one Z.ltb zero nd d)) ds /\
    let nd' := fst (predict_batch Z.ltb zero nd ds) in
    n_cost nd' = n_cost nd /\ n_pred nd' = n_pred nd /\ n_label nd' = n_label nd /\
    n_plabel nd' = n_plabel nd /\ n_status nd' = n_status nd /\ n_order nd' = n_order nd.
Proof. exact (sup_predict_pointwise_gen Z.ltb). Qed.

(* the single-sample scan reads only cost, predicted label and conquest order *)
Theorem C09_sup_predict_one_reads :
  forall (zero : Z) (nd1 nd2 : @nodes Z) (d : nat -> Z),
    n_cost nd1 = n_cost nd2 -> n_plabel nd1 = n_plabel nd2 -> n_order nd1 = n_order nd2 ->
    predict_one Z.ltb zero nd1 d = predict_one Z.ltb zero nd2 d.
Proof. exact (predict_one_fields Z.ltb). Qed.

(* earlier predict calls are irrelevant: after any batch the model predicts as before *)
Theorem C09_sup_predict_after_predict :
  forall (zero : Z) (nd : @nodes Z) (ds1 ds2 : list (nat -> Z)),
    snd (predict_batch Z.ltb zero (fst (predict_batch Z.ltb zero nd ds1)) ds2) =
    snd (predict_batch Z.ltb zero nd ds2).
Proof. exact (sup_predict_after_predict_gen Z.ltb). Qed.

(* the same statements for an arbitrary ordered weight type *)
Theorem C09_sup_predict_pointwise_any_weight :
  forall (W : Type) (ltb : W -> W -> bool) (zero : W) (nd : @nodes W) (ds : list (nat -> W)),
    snd (predict_batch ltb zero nd ds) = map (fun d => fst (predict_one ltb zero nd d)) ds /\
    let nd' := fst (predict_batch ltb zero nd ds) in
    n_cost nd' = n_cost nd /\ n_pred nd' = n_pred nd /\ n_label nd' = n_label nd /\
    n_plabel nd' = n_plabel nd /\ n_status nd' = n_status nd /\ n_order nd' = n_order nd.
Proof. exact (@sup_predict_pointwise_gen). Qed.
