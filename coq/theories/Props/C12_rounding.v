(* C12 (arithmetic half) at the FLOAT level: calculate_pdf of Model/Pdf.v instantiated at
   [RndOps rnd] (Base/NumOpsRnd.v) -- the reals with [rnd] applied after every `+ - * /`, comparisons
   and integer literals exact -- for EVERY rounding function of the class [rounding]
   (Model/MetricRnd.v: monotone, rnd 0 = 0, strict sign kept).  Extra hypotheses are named where used:
       rnd 1 = 1            the literal 1 is representable,
       rnd_idem rnd         rnd (rnd t) = rnd t (stored values are representable),
       rnd x <= 2 x (x>=0)  relative error below 1,
       integers 0..M fixed  small integers are representable.
   Round-to-nearest binary64 has all of them on its normal range.

   [p i] = pdf_value (RndOps rnd) k (e i) are the COMPUTED unmapped values (rounded sum, rounded division),
   [fst (nth i dc (0,0))] / [snd ...] the computed density / initial cost of sample i,
   [e i l] the term exp(-distance/constant) of sample i and neighbour rank l (an arbitrary real here).

   What survives from Props/C12_pdf.v: min/max recorded and attained, min |-> exactly 1, every density >= 1,
   flat case exactly MAX_DENSITY, the order of the densities never contradicts the order of the unmapped
   values.  What does not: the map is only WEAKLY order preserving ([C12_rnd_strict_order_model_limit]),
   max |-> MAX_DENSITY and cost < density are not theorems of the rounding model
   ([C12_rnd_cost_lt_density_model_limit]); the latter holds exactly when density - 1 is not rounded
   back up to density ([C12_rnd_cost_lt_density_iff]), e.g. when small integers are representable. *)
From Coq Require Import Reals List ZArith.
From OPF Require Import Base.NumOps Base.NumOpsRnd Model.Pdf Model.MetricRnd Proofs.PdfBase
  Proofs.PdfRndBase Proofs.PdfRnd Proofs.PdfRndExample.
Import ListNotations.
Local Open Scope R_scope.

(* ---------- the interpretation ---------- *)

Theorem C12_rnd_ops (rnd : R -> R) (a b : R) (z : Z) :
  nadd (RndOps rnd) a b = rnd (a + b) /\ nsub (RndOps rnd) a b = rnd (a - b) /\
  nmul (RndOps rnd) a b = rnd (a * b) /\ ndiv (RndOps rnd) a b = rnd (a / b) /\
  nltb (RndOps rnd) a b = Rltb a b /\ neqb (RndOps rnd) a b = Reqb a b /\
  nofZ (RndOps rnd) z = IZR z.
Proof.
  exact (conj (RndOps_add rnd a b) (conj (RndOps_sub rnd a b) (conj (RndOps_mul rnd a b)
        (conj (RndOps_div rnd a b) (conj (RndOps_ltb rnd a b) (conj (RndOps_eqb rnd a b) (RndOps_ofZ rnd z))))))).
Qed.

(* no rounding = the exact interpretation of Props/C12_pdf.v; and it is an admissible rounding *)
Theorem C12_rnd_identity_is_exact :
  RndOps (fun t => t) = ROps /\ rounding (fun t => t) /\ rnd_idem (fun t => t).
Proof. exact (conj RndOps_id_ROps (conj id_rounding id_idem)). Qed.

(* one computed pdf value: running sum with one rounding per addition, then a rounded division *)
Theorem C12_rnd_pdf_value (rnd : R -> R) (k : nat) (e : nat -> R) :
  pdf_value (RndOps rnd) k e =
  rnd (fold_left (fun a b => rnd (a + b)) (map e (seq 0 k)) 0 / IZR (Z.of_nat (S k))).
Proof. exact (pdf_value_RndOps rnd k e). Qed.

Theorem C12_rnd_pdf_value_bounds (rnd : R -> R) (k : nat) (e e' : nat -> R) :
  rounding rnd ->
  ((forall l, (l < k)%nat -> 0 <= e l) -> 0 <= pdf_value (RndOps rnd) k e) /\
  ((forall l, (l < k)%nat -> e l <= e' l) -> pdf_value (RndOps rnd) k e <= pdf_value (RndOps rnd) k e') /\
  (rnd 1 = 1 -> (forall z, (0 <= z <= Z.of_nat k)%Z -> rnd (IZR z) = IZR z) ->
   (forall l, (l < k)%nat -> e l <= 1) -> pdf_value (RndOps rnd) k e <= 1).
Proof.
  exact (fun RND => conj (pdfv_nonneg rnd RND k e) (conj (pdfv_mono rnd RND k e e') (pdfv_le_1 rnd RND k e))).
Qed.

(* ---------- calculate_pdf, everything in one statement ---------- *)

Theorem C12_rnd_calculate_pdf (rnd : R -> R) (fmax : R) (n k : nat) (gdens : R) (e : nat -> nat -> R)
    (c mn mx : R) (dc : list (R * R)) :
  rounding rnd ->
  (1 <= n)%nat ->
  calculate_pdf (RndOps rnd) fmax 1000 n k gdens e = (c, mn, mx, dc) ->
  let p := fun i => pdf_value (RndOps rnd) k (e i) in
  let dens := fun i => fst (nth i dc (0, 0)) in
  let cost := fun i => snd (nth i dc (0, 0)) in
  c = rnd (rnd (2 * gdens) / 9) /\
  length dc = n /\
  (forall i, (i < n)%nat -> mn <= p i <= mx) /\ mn <= mx /\
  ((forall i, (i < n)%nat -> rnd (0 - fmax) <= p i <= fmax) ->
     (exists i, (i < n)%nat /\ mn = p i) /\ (exists i, (i < n)%nat /\ mx = p i) /\
     (mn = mx <-> forall i j, (i < n)%nat -> (j < n)%nat -> p i = p j)) /\
  (forall i, (forall l, (l < k)%nat -> 0 <= e i l) -> 0 <= p i) /\
  (mn <> mx -> forall i, (i < n)%nat ->
     dens i = rnd (rnd (rnd (999 * rnd (p i - mn)) / rnd (mx - mn)) + 1) /\ cost i = rnd (dens i - 1)) /\
  (mn = mx -> forall i, (i < n)%nat -> dens i = 1000 /\ cost i = 999) /\
  (forall i j, (i < n)%nat -> (j < n)%nat ->
     (p i <= p j -> dens i <= dens j) /\ (p i = p j -> dens i = dens j) /\ (dens i < dens j -> p i < p j)) /\
  (forall i, (i < n)%nat -> p i = mx -> forall j, (j < n)%nat -> dens j <= dens i) /\
  (rnd 1 = 1 ->
     (forall i, (i < n)%nat -> 1 <= dens i /\ 0 <= cost i) /\
     (mn <> mx -> forall i, (i < n)%nat -> p i = mn -> dens i = 1 /\ cost i = 0)) /\
  (rnd_idem rnd ->
     (forall i, (i < n)%nat -> cost i <= dens i) /\
     (mn <> mx -> forall i, (i < n)%nat ->
        rnd (dens i) = dens i /\ (cost i < dens i <-> rnd (dens i - 1) <> dens i))).
Proof. exact (calculate_pdf_rnd_summary rnd fmax n k gdens e c mn mx dc). Qed.

(* ---------- the clauses one by one, each with exactly the hypotheses it uses ---------- *)

(* recorded min / max: bounds unconditionally (comparisons are exact), attained when the sentinels
   FLOAT_MAX and 0 - FLOAT_MAX bound the values *)
Theorem C12_rnd_minmax (rnd : R -> R) (fmax : R) (n k : nat) (gdens : R) (e : nat -> nat -> R)
    (c mn mx : R) (dc : list (R * R)) :
  calculate_pdf (RndOps rnd) fmax 1000 n k gdens e = (c, mn, mx, dc) ->
  (forall i, (i < n)%nat -> mn <= pdf_value (RndOps rnd) k (e i) <= mx) /\
  ((1 <= n)%nat ->
   (forall i, (i < n)%nat -> rnd (0 - fmax) <= pdf_value (RndOps rnd) k (e i) <= fmax) ->
   (exists i, (i < n)%nat /\ mn = pdf_value (RndOps rnd) k (e i)) /\
   (exists i, (i < n)%nat /\ mx = pdf_value (RndOps rnd) k (e i))).
Proof.
  exact (fun H => conj (fun i Hi => conj (rnd_min_lower rnd fmax n k gdens e c mn mx dc H i Hi)
                                         (rnd_max_upper rnd fmax n k gdens e c mn mx dc H i Hi))
                       (fun Hn Hb => conj (rnd_min_attained rnd fmax n k gdens e c mn mx dc H Hn Hb)
                                          (rnd_max_attained rnd fmax n k gdens e c mn mx dc H Hn Hb))).
Qed.

(* with terms >= 0 and FLOAT_MAX >= 0 the lower sentinel needs no hypothesis *)
Theorem C12_rnd_sentinels_of_nonneg (rnd : R -> R) (fmax : R) (n k : nat) (e : nat -> nat -> R) :
  rounding rnd -> 0 <= fmax ->
  (forall i l, (i < n)%nat -> (l < k)%nat -> 0 <= e i l) ->
  (forall i, (i < n)%nat -> pdf_value (RndOps rnd) k (e i) <= fmax) ->
  forall i, (i < n)%nat -> rnd (0 - fmax) <= pdf_value (RndOps rnd) k (e i) <= fmax.
Proof. exact (fun RND => rnd_bounds_of_nonneg rnd RND fmax n k e). Qed.

(* hypotheses on the data only: terms in [0, 1], FLOAT_MAX >= 1; the counts 0..k and 1 representable *)
Theorem C12_rnd_minmax_unit_terms (rnd : R -> R) (fmax : R) (n k : nat) (gdens : R) (e : nat -> nat -> R)
    (c mn mx : R) (dc : list (R * R)) :
  rounding rnd -> rnd 1 = 1 ->
  (forall z, (0 <= z <= Z.of_nat k)%Z -> rnd (IZR z) = IZR z) ->
  (1 <= n)%nat -> 1 <= fmax ->
  (forall i l, (i < n)%nat -> (l < k)%nat -> 0 <= e i l <= 1) ->
  calculate_pdf (RndOps rnd) fmax 1000 n k gdens e = (c, mn, mx, dc) ->
  (exists i, (i < n)%nat /\ mn = pdf_value (RndOps rnd) k (e i)) /\
  (exists i, (i < n)%nat /\ mx = pdf_value (RndOps rnd) k (e i)) /\
  0 <= mn /\ mn <= mx /\ mx <= 1.
Proof. exact (rnd_minmax_unit_terms rnd fmax n k gdens e c mn mx dc). Qed.

(* the float code cannot invert two samples, it can only merge them *)
Theorem C12_rnd_density_weakly_monotone (rnd : R -> R) (fmax : R) (n k : nat) (gdens : R)
    (e : nat -> nat -> R) (c mn mx : R) (dc : list (R * R)) :
  rounding rnd ->
  calculate_pdf (RndOps rnd) fmax 1000 n k gdens e = (c, mn, mx, dc) ->
  forall i j, (i < n)%nat -> (j < n)%nat ->
  pdf_value (RndOps rnd) k (e i) <= pdf_value (RndOps rnd) k (e j) ->
  fst (nth i dc (0, 0)) <= fst (nth j dc (0, 0)).
Proof. exact (fun RND H => rnd_density_mono rnd RND fmax n k gdens e c mn mx dc H). Qed.

Theorem C12_rnd_density_never_inverts (rnd : R -> R) (fmax : R) (n k : nat) (gdens : R)
    (e : nat -> nat -> R) (c mn mx : R) (dc : list (R * R)) :
  rounding rnd ->
  calculate_pdf (RndOps rnd) fmax 1000 n k gdens e = (c, mn, mx, dc) ->
  forall i j, (i < n)%nat -> (j < n)%nat ->
  fst (nth i dc (0, 0)) < fst (nth j dc (0, 0)) ->
  pdf_value (RndOps rnd) k (e i) < pdf_value (RndOps rnd) k (e j).
Proof. exact (fun RND H => rnd_density_lt_inv rnd RND fmax n k gdens e c mn mx dc H). Qed.

(* min |-> exactly 1, everything >= 1, max |-> the largest density, flat |-> exactly MAX_DENSITY *)
Theorem C12_rnd_density_range (rnd : R -> R) (fmax : R) (n k : nat) (gdens : R)
    (e : nat -> nat -> R) (c mn mx : R) (dc : list (R * R)) :
  rounding rnd ->
  calculate_pdf (RndOps rnd) fmax 1000 n k gdens e = (c, mn, mx, dc) ->
  forall i, (i < n)%nat ->
  (rnd 1 = 1 -> 1 <= fst (nth i dc (0, 0))) /\
  (rnd 1 = 1 -> mn <> mx -> pdf_value (RndOps rnd) k (e i) = mn -> fst (nth i dc (0, 0)) = 1) /\
  (pdf_value (RndOps rnd) k (e i) = mx -> forall j, (j < n)%nat -> fst (nth j dc (0, 0)) <= fst (nth i dc (0, 0))) /\
  (mn = mx -> fst (nth i dc (0, 0)) = 1000 /\ snd (nth i dc (0, 0)) = 999) /\
  ((forall x, 0 <= x -> rnd x <= 2 * x) -> fst (nth i dc (0, 0)) <= 7994).
Proof.
  exact (fun RND H i Hi =>
    conj (fun H1 => rnd_density_ge_1 rnd RND fmax n k gdens e c mn mx dc H i H1 Hi)
   (conj (fun H1 Hne => rnd_density_min_to_1 rnd RND fmax n k gdens e c mn mx dc H i H1 Hne Hi)
   (conj (rnd_density_max_largest rnd RND fmax n k gdens e c mn mx dc H i Hi)
   (conj (fun He => rnd_density_flat rnd fmax n k gdens e c mn mx dc H i He Hi)
         (fun HR => rnd_density_upper rnd RND fmax n k gdens e c mn mx dc H i HR Hi))))).
Qed.

(* cost_i = rnd (dens_i - 1) <= dens_i *)
Theorem C12_rnd_cost_le_density (rnd : R -> R) (fmax : R) (n k : nat) (gdens : R)
    (e : nat -> nat -> R) (c mn mx : R) (dc : list (R * R)) :
  rounding rnd -> rnd_idem rnd ->
  calculate_pdf (RndOps rnd) fmax 1000 n k gdens e = (c, mn, mx, dc) ->
  forall i, (i < n)%nat ->
  (mn <> mx -> snd (nth i dc (0, 0)) = rnd (fst (nth i dc (0, 0)) - 1)) /\
  snd (nth i dc (0, 0)) <= fst (nth i dc (0, 0)).
Proof.
  exact (fun RND HI H i Hi =>
    conj (fun Hne => proj2 (rnd_density_tree rnd fmax n k gdens e c mn mx dc H i Hne Hi))
         (rnd_cost_le_density rnd RND fmax n k gdens e c mn mx dc H i HI Hi)).
Qed.

(* the hypothesis [cost0 i < dens i] of the clustering theorems (C13): the strongest statement *)
Theorem C12_rnd_cost_lt_density_iff (rnd : R -> R) (fmax : R) (n k : nat) (gdens : R)
    (e : nat -> nat -> R) (c mn mx : R) (dc : list (R * R)) :
  rounding rnd -> rnd_idem rnd ->
  calculate_pdf (RndOps rnd) fmax 1000 n k gdens e = (c, mn, mx, dc) ->
  forall i, (i < n)%nat ->
  (mn = mx -> snd (nth i dc (0, 0)) < fst (nth i dc (0, 0))) /\
  (mn <> mx ->
   (snd (nth i dc (0, 0)) < fst (nth i dc (0, 0)) <-> rnd (fst (nth i dc (0, 0)) - 1) <> fst (nth i dc (0, 0)))).
Proof.
  exact (fun RND HI H i Hi =>
    conj (fun He => rnd_cost_lt_density_grid rnd RND fmax n k gdens e c mn mx dc H i Hi
                      (fun Hne => False_ind _ (Hne He)))
         (fun Hne => rnd_cost_lt_density_iff rnd RND fmax n k gdens e c mn mx dc H i HI Hne Hi)).
Qed.

(* sufficient: a representable value in [dens - 1, dens), e.g. an integer *)
Theorem C12_rnd_cost_lt_density_grid (rnd : R -> R) (fmax : R) (n k : nat) (gdens : R)
    (e : nat -> nat -> R) (c mn mx : R) (dc : list (R * R)) :
  rounding rnd ->
  calculate_pdf (RndOps rnd) fmax 1000 n k gdens e = (c, mn, mx, dc) ->
  forall i, (i < n)%nat ->
  ((mn <> mx -> exists f, rnd f = f /\ fst (nth i dc (0, 0)) - 1 <= f < fst (nth i dc (0, 0))) ->
   snd (nth i dc (0, 0)) < fst (nth i dc (0, 0))) /\
  (forall M : Z, rnd 1 = 1 -> (forall z, (0 <= z <= M)%Z -> rnd (IZR z) = IZR z) ->
   fst (nth i dc (0, 0)) <= IZR M + 1 -> snd (nth i dc (0, 0)) < fst (nth i dc (0, 0))).
Proof.
  exact (fun RND H i Hi =>
    conj (rnd_cost_lt_density_grid rnd RND fmax n k gdens e c mn mx dc H i Hi)
         (fun M H1 HZ => rnd_cost_lt_density_integers rnd RND fmax n k gdens e c mn mx dc H M i H1 HZ Hi)).
Qed.

(* hypotheses on the rounding function only (all true of binary64) *)
Theorem C12_rnd_cost_lt_density (rnd : R -> R) (fmax : R) (n k : nat) (gdens : R)
    (e : nat -> nat -> R) (c mn mx : R) (dc : list (R * R)) :
  rounding rnd -> rnd 1 = 1 ->
  (forall z, (0 <= z <= 7993)%Z -> rnd (IZR z) = IZR z) ->
  (forall x, 0 <= x -> rnd x <= 2 * x) ->
  calculate_pdf (RndOps rnd) fmax 1000 n k gdens e = (c, mn, mx, dc) ->
  forall i, (i < n)%nat -> snd (nth i dc (0, 0)) < fst (nth i dc (0, 0)).
Proof.
  exact (fun RND H1 HZ HR H i Hi => rnd_cost_lt_density rnd RND fmax n k gdens e c mn mx dc H i H1 HZ HR Hi).
Qed.

(* eliminate_maxima_height: cost := max(density - h, 0) with the subtraction rounded *)
Theorem C12_rnd_eliminate (rnd : R -> R) (h : R) (dens cost : list R) :
  (0 < h -> eliminate_maxima (RndOps rnd) h dens cost = map (fun d => Rmax (rnd (d - h)) 0) dens) /\
  (h <= 0 -> eliminate_maxima (RndOps rnd) h dens cost = cost) /\
  (rounding rnd -> 0 < h -> forall d, 0 < d -> rnd d = d ->
     0 <= Rmax (rnd (d - h)) 0 <= d /\ (Rmax (rnd (d - h)) 0 < d <-> rnd (d - h) <> d)).
Proof.
  exact (conj (proj1 (eliminate_rnd_spec rnd h dens cost))
        (conj (proj2 (eliminate_rnd_spec rnd h dens cost))
              (fun RND Hh d Hd Hf => eliminate_rnd_bounds rnd h d RND Hh Hd Hf))).
Qed.

(* ---------- limits of the rounding model (negative controls) ---------- *)

(* an admissible rounding merges two distinct unmapped values: "weakly" cannot be improved *)
Theorem C12_rnd_strict_order_model_limit :
  exists rnd, rounding rnd /\ rnd 1 = 1 /\ rnd_idem rnd /\
    exists c mn mx dc,
      calculate_pdf (RndOps rnd) 10 1000 3 1 45 ex3_e = (c, mn, mx, dc) /\ mn < mx /\
      pdf_value (RndOps rnd) 1 (ex3_e 0) < pdf_value (RndOps rnd) 1 (ex3_e 1) /\
      fst (nth 0 dc (0, 0)) = fst (nth 1 dc (0, 0)).
Proof. exact density_strict_mono_model_limit. Qed.

(* an admissible rounding makes the initial cost of the densest sample EQUAL to its density, and that
   density larger than MAX_DENSITY *)
Theorem C12_rnd_cost_lt_density_model_limit :
  exists rnd, rounding rnd /\ rnd 1 = 1 /\ rnd_idem rnd /\ (forall x, 0 <= x -> rnd x <= 2 * x) /\
    exists c mn mx dc,
      calculate_pdf (RndOps rnd) 10 1000 3 1 45 ex3_e = (c, mn, mx, dc) /\ mn < mx /\
      (forall i l, 0 <= ex3_e i l <= 1) /\
      pdf_value (RndOps rnd) 1 (ex3_e 2) = mx /\
      snd (nth 2 dc (0, 0)) = fst (nth 2 dc (0, 0)) /\
      1000 < fst (nth 2 dc (0, 0)).
Proof. exact cost_lt_density_model_limit. Qed.

(* ---------- non-vacuity ---------- *)

(* the instance and the plateau roundings ([a, b] |-> c, identity elsewhere) *)
Theorem C12_rnd_example_data :
  (forall i l, ex3_e i l = match i with 0%nat => 1 / 4 | 1%nat => 1001 / 4000 | _ => 406 / 625 end) /\
  (forall t, rH t = if Rle_dec (3 / 2) t then (if Rle_dec t (7 / 4) then 3 / 2 else t) else t) /\
  (forall t, rM t = if Rle_dec 1 t then (if Rle_dec t 4 then 1 else t) else t) /\
  (forall t, rU t = if Rle_dec (1999 / 2) t then (if Rle_dec t (2001 / 2) then 2001 / 2 else t) else t).
Proof. exact (conj (fun i l => eq_refl) (conj (fun t => eq_refl) (conj (fun t => eq_refl) (fun t => eq_refl)))). Qed.

(* rH satisfies every hypothesis used in this file *)
Theorem C12_rnd_example_rounding :
  rounding rH /\ rH 1 = 1 /\ rnd_idem rH /\ rH 1000 = 1000 /\
  (forall z, rH (IZR z) = IZR z) /\ (forall x, 0 <= x -> rH x <= 2 * x).
Proof. exact rH_admissible. Qed.

(* exact run, and the three rounded runs: rH moves the middle density 13/8 to 3/2, rM merges the two smallest,
   rU lifts the largest above MAX_DENSITY with cost = density *)
Theorem C12_rnd_example_runs :
  calculate_pdf (RndOps (fun t => t)) 10 1000 3 1 45 ex3_e =
    (10, 1 / 8, 203 / 625, [(1, 0); (13 / 8, 5 / 8); (1000, 999)]) /\
  calculate_pdf (RndOps rH) 10 1000 3 1 45 ex3_e =
    (10, 1 / 8, 203 / 625, [(1, 0); (3 / 2, 1 / 2); (1000, 999)]) /\
  calculate_pdf (RndOps rM) 10 1000 3 1 45 ex3_e =
    (10, 1 / 8, 203 / 625, [(1, 0); (1, 0); (1000, 999)]) /\
  calculate_pdf (RndOps rU) 10 1000 3 1 45 ex3_e =
    (10, 1 / 8, 203 / 625, [(1, 0); (13 / 8, 5 / 8); (2001 / 2, 2001 / 2)]).
Proof. exact (conj ex3_id (conj ex3_rH (conj ex3_rM ex3_rU))). Qed.

(* the general theorems instantiated at the rH run *)
Theorem C12_rnd_example_instantiated :
  let dc := [(1, 0); (3 / 2, 1 / 2); (1000, 999)] in
  (forall i j, (i < 3)%nat -> (j < 3)%nat ->
     pdf_value (RndOps rH) 1 (ex3_e i) <= pdf_value (RndOps rH) 1 (ex3_e j) ->
     fst (nth i dc (0, 0)) <= fst (nth j dc (0, 0))) /\
  (forall i, (i < 3)%nat -> snd (nth i dc (0, 0)) < fst (nth i dc (0, 0))).
Proof. exact ex3_rH_summary. Qed.

(* the data-only min/max clause and the elimination step, instantiated under rH *)
Theorem C12_rnd_example_minmax_eliminate :
  ((exists i, (i < 3)%nat /\ 1 / 8 = pdf_value (RndOps rH) 1 (ex3_e i)) /\
   (exists i, (i < 3)%nat /\ 203 / 625 = pdf_value (RndOps rH) 1 (ex3_e i)) /\
   0 <= 1 / 8 /\ 1 / 8 <= 203 / 625 /\ 203 / 625 <= 1) /\
  eliminate_maxima (RndOps rH) (3 / 8) [1; 2; 1000] [0; 1; 999] = [5 / 8; 3 / 2; 7997 / 8].
Proof. exact (conj ex3_rH_minmax ex3_eliminate_rH). Qed.
