From Coq Require Import Reals List.
From OPF Require Import Spec.MetricSpec Proofs.EuclidFamily.
Import ListNotations.
Local Open Scope R_scope.

(* C11, Euclidean family over the reals: squared_euclidean, euclidean, average_euclidean, log_euclidean and
   log_squared_euclidean (Spec/MetricSpec.v) induce the same order on pairs of vectors, which is the
   hypothesis of the rescaling theorem (Props/C11_rescale.v). *)

(* each member is a fixed transform of sq = squared_euclidean x y >= 0 *)
Theorem C11_euclid_family_forms : forall x y : list R,
  let sq := sp_squared_euclidean x y in
  0 <= sq /\
  sp_euclidean x y = sqrt sq /\
  sp_average_euclidean x y = sqrt (sq / len x) /\
  sp_log_euclidean x y = MAX_ARC_WEIGHT * ln (sqrt sq + 1) /\
  sp_log_squared_euclidean x y = MAX_ARC_WEIGHT * ln (sq + 1).
Proof. exact euclid_family_forms. Qed.

(* each transform is strictly increasing on [0, oo) and maps 0 to 0 *)
Theorem C11_euclid_family_monotone :
  MAX_ARC_WEIGHT = 100000 /\
  ((forall a b, 0 <= a < b -> sqrt a < sqrt b) /\ sqrt 0 = 0) /\
  (forall N, 0 < N -> (forall a b, 0 <= a < b -> sqrt (a / N) < sqrt (b / N)) /\ sqrt (0 / N) = 0) /\
  ((forall a b, 0 <= a < b -> MAX_ARC_WEIGHT * ln (sqrt a + 1) < MAX_ARC_WEIGHT * ln (sqrt b + 1)) /\
   MAX_ARC_WEIGHT * ln (sqrt 0 + 1) = 0) /\
  ((forall a b, 0 <= a < b -> MAX_ARC_WEIGHT * ln (a + 1) < MAX_ARC_WEIGHT * ln (b + 1)) /\
   MAX_ARC_WEIGHT * ln (0 + 1) = 0).
Proof. exact euclid_family_monotone. Qed.

(* hence the same strict order and the same ties on pairs of vectors (for average_euclidean the two left
   vectors must have the same length N >= 1, since the transform divides by N = len x) *)
Theorem C11_euclid_family_order : forall x y x' y' : list R,
  let s := sp_squared_euclidean x y in
  let s' := sp_squared_euclidean x' y' in
  ((s < s' <-> sp_euclidean x y < sp_euclidean x' y') /\
   (s = s' <-> sp_euclidean x y = sp_euclidean x' y')) /\
  (length x = length x' -> (1 <= length x)%nat ->
   (s < s' <-> sp_average_euclidean x y < sp_average_euclidean x' y') /\
   (s = s' <-> sp_average_euclidean x y = sp_average_euclidean x' y')) /\
  ((s < s' <-> sp_log_euclidean x y < sp_log_euclidean x' y') /\
   (s = s' <-> sp_log_euclidean x y = sp_log_euclidean x' y')) /\
  ((s < s' <-> sp_log_squared_euclidean x y < sp_log_squared_euclidean x' y') /\
   (s = s' <-> sp_log_squared_euclidean x y = sp_log_squared_euclidean x' y')).
Proof. exact euclid_family_order. Qed.

Print Assumptions C11_euclid_family_forms.
Print Assumptions C11_euclid_family_monotone.
Print Assumptions C11_euclid_family_order.
