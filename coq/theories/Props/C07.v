(* C07 - no call modifies caller data; results depend only on argument values.
   Theorems about the regenerated decorator program (Gen/Decorator_gen.v) and the regenerated
   store-site table (Gen/Stores_gen.v). *)
From Coq Require Import String List QArith.
From OPF Require Import Model.Consts Model.Effects Gen.Decorator_gen Gen.Stores_gen Proofs.EffectsFrame Proofs.EffectsC07.
Import ListNotations.

(* the wrapper of every decorated metric performs no in-place addition *)
Theorem C07_decorator_no_inplace : no_augadd decorator_body = true.
Proof. exact decorator_no_inplace. Qed.

(* calling a decorated metric leaves every buffer the caller owns unchanged, whatever the constants,
   the metric body and the argument references are *)
Theorem C07_metric_call_pure :
  forall (cval : cname -> Q) (callee : list buffer -> Q) (st : store) (args : list nat),
    firstn (length st) (fst (call_metric cval callee decorator_params decorator_body st args)) = st.
Proof. exact metric_call_pure. Qed.

(* the value returned depends only on the contents of the argument buffers: two stores (e.g. before and
   after any history of other calls) in which the arguments have equal contents give equal values *)
Theorem C07_metric_value_history_free :
  forall (cval : cname -> Q) (callee : list buffer -> Q) (st1 st2 : store) (a1 a2 : list nat),
    length a1 = length decorator_params -> length a2 = length decorator_params ->
    Forall (fun r => (r < length st1)%nat) a1 -> Forall (fun r => (r < length st2)%nat) a2 ->
    map (fun r => nth r st1 nil) a1 = map (fun r => nth r st2 nil) a2 ->
    snd (call_metric cval callee decorator_params decorator_body st1 a1) =
    snd (call_metric cval callee decorator_params decorator_body st2 a2).
Proof. exact metric_value_history_free. Qed.

(* no store site in the code reachable from fit/predict (and in the decorator) has a caller-owned root *)
Theorem C07_fit_predict_store_free :
  forallb (fun s => negb (is_caller_store s)) stores = true.
Proof. exact fit_predict_store_free. Qed.
