(* C14 (arithmetic part) at IEEE-754 binary64: the query density of both KNN predicts ([query_density] of
   Model/Pdf.v) at [RndOps rnd64x] (reals with the binary64 round-to-nearest-even rounding, no underflow, after every
   `+ - * /`), i.e. the theorems of Props/C14_rounding.v with the hypotheses on the rounding function
   (rounding, rnd 1 = 1, idempotence) DISCHARGED by Proofs/Binary64.v.

       s = rnd64x ((e_0 (+) ... (+) e_{k-1}) / k)
       q = rnd64x (rnd64x (rnd64x (999 * rnd64x (s - mn)) / rnd64x (rnd64x (mx - mn) + eps)) + 1)

   Weakly monotone in s (so in every term); s = min |-> exactly 1, s >= min |-> q >= 1.  Against the training
   densities: at most the training density on equal unmapped values, equal whenever the addition absorbs EPSILON. *)
From Coq Require Import Reals List ZArith.
From OPF Require Import Base.NumOps Base.NumOpsRnd Model.Pdf Model.KnnPredict Model.MetricRnd Proofs.PdfBase
  Proofs.PdfRndBase Proofs.PdfRnd Proofs.PdfRndQuery Proofs.PdfRndExample
  Model.Binary64 Proofs.Binary64 Proofs.Binary64Knn.
Import ListNotations.
Local Open Scope R_scope.

Theorem C14_binary64_query_density_props (eps mn mx : R) (k : nat) (e e' : nat -> R) :
  0 < eps -> mn <= mx ->
  let s := qmean rnd64x k e in
  let s' := qmean rnd64x k e' in
  let q := query_density (RndOps rnd64x) 1000 eps mn mx k e in
  let q' := query_density (RndOps rnd64x) 1000 eps mn mx k e' in
  q = rnd64x (rnd64x (rnd64x (999 * rnd64x (s - mn)) / rnd64x (rnd64x (mx - mn) + eps)) + 1) /\
  0 < rnd64x (rnd64x (mx - mn) + eps) /\
  (s <= s' -> q <= q') /\ (s = s' -> q = q') /\ (q < q' -> s < s') /\
  ((1 <= k)%nat -> (forall l, (l < k)%nat -> e l <= e' l) -> q <= q') /\
  (s = mn -> q = 1) /\ (mn <= s -> 1 <= q) /\ (s <= mn -> q <= 1).
Proof. exact (b64_query_density_props eps mn mx k e e'). Qed.

(* "divides by k, not k + 1" *)
Theorem C14_binary64_query_mean_vs_pdf (k : nat) (e : nat -> R) :
  (1 <= k)%nat -> (forall l, (l < k)%nat -> 0 <= e l) ->
  pdf_value (RndOps rnd64x) k e <= qmean rnd64x k e.
Proof. exact (b64_query_mean_vs_pdf k e). Qed.

(* against the range recorded by calculate_pdf and the training densities *)
Theorem C14_binary64_query_density_of_fit (fmax : R) (n k : nat) (gdens : R) (e : nat -> nat -> R)
    (c mn mx : R) (dc : list (R * R)) (eps : R) (kq : nat) (eq : nat -> R) :
  (1 <= n)%nat ->
  calculate_pdf (RndOps rnd64x) fmax 1000 n k gdens e = (c, mn, mx, dc) ->
  0 < eps ->
  let p := fun i => pdf_value (RndOps rnd64x) k (e i) in
  let dens := fun i => fst (nth i dc (0, 0)) in
  let s := qmean rnd64x kq eq in
  let q := query_density (RndOps rnd64x) 1000 eps mn mx kq eq in
  0 < rnd64x (rnd64x (mx - mn) + eps) /\
  (mn <> mx -> forall i, (i < n)%nat -> s = p i -> q <= dens i) /\
  (rnd64x (rnd64x (mx - mn) + eps) = rnd64x (mx - mn) -> mn <> mx ->
     forall i, (i < n)%nat -> (s = p i -> q = dens i) /\ (p i <= s -> dens i <= q) /\ (s <= p i -> q <= dens i)) /\
  (mn <= s -> 1 <= q) /\ (s <= mn -> q <= 1) /\ (s = mn -> q = 1).
Proof. exact (b64_query_density_of_fit fmax n k gdens e c mn mx dc eps kq eq). Qed.

(* the two maps on one unmapped value v *)
Theorem C14_binary64_training_vs_query_map (eps mn mx v : R) :
  0 <= eps -> mn < mx ->
  rnd64x (mx - mn) <= rnd64x (rnd64x (mx - mn) + eps) /\
  (mn <= v -> qmap rnd64x eps mn mx v <= dmap rnd64x mn mx v) /\
  (v <= mn -> dmap rnd64x mn mx v <= qmap rnd64x eps mn mx v) /\
  (rnd64x (rnd64x (mx - mn) + eps) = rnd64x (mx - mn) -> qmap rnd64x eps mn mx v = dmap rnd64x mn mx v).
Proof. exact (b64_training_vs_query_map eps mn mx v). Qed.

(* non-vacuity: a query with the non-representable term 1001/4000 against the range [1/8, 203/625] of
   Props/C12_rounding.v's example, EPSILON read as 1/1024 *)
Theorem C14_binary64_example :
  ex3_e 1 0 = 1001 / 4000 /\
  1 <= query_density (RndOps rnd64x) 1000 (1 / 1024) (1 / 8) (203 / 625) 1 (ex3_e 1).
Proof. exact (conj eq_refl ex3_query_b64). Qed.
