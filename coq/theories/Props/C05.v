(* placeholder until the heap proofs land *)
From OPF Require Import Model.Heap.
