From OPF Require Import Proofs.HeapPrelude Base.Lists Model.Heap Proofs.HeapInv Proofs.HeapHist.

Theorem C05_inv_reachable :
  forall (top : Z) (size : nat) (pol : policy) (ops : list (@op Z)),
    valid_hist top (h_init top size pol) ops ->
    let h := fst (run Z.ltb top (h_init top size pol) ops) in
    Inv h /\ hsize h = size /\ hpol h = pol.
Proof. exact hist_inv. Qed.

Theorem C05_inv_step :
  forall (top : Z) (h : heap Z) (o : @op Z),
    Inv h -> valid_op top h o ->
    Inv (fst (step Z.ltb top h o)) /\
    hsize (fst (step Z.ltb top h o)) = hsize h /\ hpol (fst (step Z.ltb top h o)) = hpol h.
Proof. exact step_inv. Qed.

Theorem C05_remove_extremal :
  forall (top : Z) (size : nat) (pol : policy) (ops : list (@op Z)),
    valid_hist top (h_init top size pol) ops ->
    let h := fst (run Z.ltb top (h_init top size pol) ops) in
    match step Z.ltb top h ORem with
    | (h', RElem p) =>
        In p (queued h) /\
        (forall q, In q (queued h) ->
           better Z.ltb pol (nth q (hcost h) top) (nth p (hcost h) top) = false) /\
        Permutation (queued h) (p :: queued h') /\ hcost h' = hcost h
    | (h', RFalse) => queued h = [] /\ h' = h
    | _ => False
    end.
Proof. exact hist_remove_extremal. Qed.

Theorem C05_histories_refine_pq :
  forall (top : Z) (size : nat) (pol : policy) (ops : list (@op Z)),
    valid_hist top (h_init top size pol) ops ->
    pq_run top size pol (abs (h_init top size pol)) ops
           (snd (run Z.ltb top (h_init top size pol) ops))
           (abs (fst (run Z.ltb top (h_init top size pol) ops))).
Proof. exact histories_refine_pq. Qed.

Theorem C05_step_refines_pq :
  forall (top : Z) (h : heap Z) (o : @op Z),
    Inv h -> valid_op top h o ->
    let '(h', r) := step Z.ltb top h o in
    Inv h' /\ hsize h' = hsize h /\ hpol h' = hpol h /\
    pq_step top (hsize h) (hpol h) (abs h) o r (abs h') /\
    Permutation (queued h ++ ins_of h o r) (rem_of r ++ queued h').
Proof. exact step_spec. Qed.

Theorem C05_conservation :
  forall (top : Z) (size : nat) (pol : policy) (ops : list (@op Z)),
    valid_hist top (h_init top size pol) ops ->
    Permutation (inserted top (h_init top size pol) ops)
                (removed (snd (run Z.ltb top (h_init top size pol) ops))
                 ++ queued (fst (run Z.ltb top (h_init top size pol) ops))).
Proof. exact conservation. Qed.

Theorem C05_failures_leave_state :
  forall (top : Z) (size : nat) (pol : policy) (ops : list (@op Z)),
    valid_hist top (h_init top size pol) ops ->
    let h := fst (run Z.ltb top (h_init top size pol) ops) in
    (forall p, snd (step Z.ltb top h (OIns p)) = RBool (negb (is_full h))) /\
    (forall p, is_full h = true -> step Z.ltb top h (OIns p) = (h, RBool false)) /\
    (is_empty h = true -> step Z.ltb top h ORem = (h, RFalse)) /\
    (forall p c, nth p (hcolor h) White = White -> is_full h = true ->
                 step Z.ltb top h (OUpd p c) = (set_cost h p c, RUnit)).
Proof. exact hist_failures_leave_state. Qed.

Theorem C05_empty_full_truthful :
  forall (top : Z) (size : nat) (pol : policy) (ops : list (@op Z)),
    valid_hist top (h_init top size pol) ops ->
    let h := fst (run Z.ltb top (h_init top size pol) ops) in
    (exists b, step Z.ltb top h OIsEmpty = (h, RBool b) /\ (b = true <-> queued h = [])) /\
    (exists b, step Z.ltb top h OIsFull = (h, RBool b) /\
               (b = true <-> length (queued h) = size)).
Proof. exact hist_empty_full_truthful. Qed.

Theorem C05_valid_prefix :
  forall (top : Z) (ops1 ops2 : list (@op Z)) (h : heap Z),
    valid_hist top h (ops1 ++ ops2) <->
    valid_hist top h ops1 /\ valid_hist top (fst (run Z.ltb top h ops1)) ops2.
Proof. exact valid_hist_app. Qed.

Theorem C05_run_prefix :
  forall (top : Z) (ops1 ops2 : list (@op Z)) (h : heap Z),
    run Z.ltb top h (ops1 ++ ops2) =
      (fst (run Z.ltb top (fst (run Z.ltb top h ops1)) ops2),
       snd (run Z.ltb top h ops1) ++ snd (run Z.ltb top (fst (run Z.ltb top h ops1)) ops2)).
Proof. exact run_app. Qed.
