(* C06, refinement: the binary64 evaluator [metric_flt] (Model/MetricFlt.v; bit-exact against the real registered functions,
   harness/c06_flt.py) refines the rounded-real evaluator [metric_rnd] (Model/MetricRnd.v) at [rnd64].

   "Every intermediate result finite" is the CHECKED evaluator [metric_fltc]: [metric_flt] with None as soon as a produced
   float (arithmetic result, literal, constant, partial sum, entry shifted by the decorator) is not finite.  Finiteness of
   the result of a primitive operation on finite operands excludes overflow, so the result is [rnd64] of the exact real
   result (Flocq's B*_correct through Proofs/Binary64Ops.v); nothing is assumed about the magnitude of the data.

   CONSTANTS.  [metric_rnd] hard-wires the exact rationals of Gen/Consts_gen.v; the decorator `x = x + c.EPSILON` adds the
   DOUBLE of 1e-20, which is not 1/10^20 (C06_flt_epsilon).  [metric_rnd_shift eps rnd] is [metric_rnd rnd] with the
   decorator's addend [cvalR c] replaced by [eps c] and nothing else changed (C06_flt_shift_is_metric_rnd: at [eps = cvalR]
   it IS [metric_rnd]); the refinement is stated at [eps = cvalD], the real values of the doubles.  For the metrics that never
   reach the decorator ([plain_metric]: 15 function names, C06_flt_plain_names) the refinement is to [metric_rnd rnd64] itself.
   [consts_exactS (m_body m)]: the named constants occurring in the BODY have exactly representable values (true for every
   regenerated body: C06_flt_refine_table needs no such hypothesis).
   [Z.of_nat (length x) <= 2^53]: `x.shape[0]` and `count_nonzero` are converted to binary64 exactly. *)
From Coq Require Import Reals ZArith QArith String List Floats.
From OPF Require Import Model.Consts Gen.Consts_gen Gen.ConstsFlt_gen Model.MetricIR Gen.Metrics_gen Model.MetricRnd Model.Binary64
     Model.MetricFlt Model.MetricFltRefine Proofs.MetricFltRefine.
Import ListNotations.
Open Scope string_scope.

(* the headline: any metric term whose body mentions only exactly representable named constants *)
Theorem C06_flt_refine : forall (m : metric_ir) (x y : list PrimFloat.float) (f : PrimFloat.float),
  consts_exactS (m_body m) = true ->
  Forall (fun a => ffin a = true) x -> Forall (fun a => ffin a = true) y -> length x = length y ->
  (Z.of_nat (length x) <= 2 ^ 53)%Z ->
  metric_fltc m x y = Some f ->
  ffin f = true /\ metric_rnd_shift cvalD rnd64 m (map f2r x) (map f2r y) = Some (f2r f).
Proof. exact metric_fltc_refines. Qed.

(* ... every regenerated metric term qualifies *)
Theorem C06_flt_refine_table : forall (m : metric_ir) (x y : list PrimFloat.float) (f : PrimFloat.float),
  In m (map snd all_metrics_ir) ->
  Forall (fun a => ffin a = true) x -> Forall (fun a => ffin a = true) y -> length x = length y ->
  (Z.of_nat (length x) <= 2 ^ 53)%Z ->
  metric_fltc m x y = Some f ->
  ffin f = true /\ metric_rnd_shift cvalD rnd64 m (map f2r x) (map f2r y) = Some (f2r f).
Proof. exact metric_fltc_refines_table. Qed.

(* ... and for the metrics that never reach the decorator the target is metric_rnd rnd64 itself *)
Theorem C06_flt_refine_plain : forall (m : metric_ir) (x y : list PrimFloat.float) (f : PrimFloat.float),
  plain_metric m = true -> consts_exactS (m_body m) = true ->
  Forall (fun a => ffin a = true) x -> Forall (fun a => ffin a = true) y -> length x = length y ->
  (Z.of_nat (length x) <= 2 ^ 53)%Z ->
  metric_fltc m x y = Some f ->
  ffin f = true /\ metric_rnd rnd64 m (map f2r x) (map f2r y) = Some (f2r f).
Proof. exact metric_fltc_refines_plain. Qed.

Theorem C06_flt_plain_names :
  plain_names = ["average_euclidean_distance"; "chebyshev_distance"; "euclidean_distance"; "gaussian_distance";
                 "gower_distance"; "hamming_distance"; "hellinger_distance"; "log_euclidean_distance";
                 "log_squared_euclidean_distance"; "lorentzian_distance"; "manhattan_distance"; "matusita_distance";
                 "non_intersection_distance"; "squared_chord_distance"; "squared_euclidean_distance"].
Proof. exact plain_names_gen. Qed.

(* the checked evaluator is the unchecked (bit-exact) one wherever it is defined *)
Theorem C06_flt_checked_is_flt : forall (m : metric_ir) (x y : list PrimFloat.float) (f : PrimFloat.float),
  metric_fltc m x y = Some f -> metric_flt m x y = Some f.
Proof. exact metric_fltc_flt. Qed.

(* metric_rnd_shift is metric_rnd with one parameter more *)
Theorem C06_flt_shift_is_metric_rnd : forall (rnd : R -> R) (m : metric_ir) (x y : list R),
  metric_rnd_shift cvalR rnd m x y = metric_rnd rnd m x y.
Proof. exact metric_rnd_shift_cvalR. Qed.

Theorem C06_flt_shift_plain : forall (eps : cname -> R) (rnd : R -> R) (m : metric_ir) (x y : list R),
  plain_metric m = true -> metric_rnd_shift eps rnd m x y = metric_rnd rnd m x y.
Proof. exact metric_rnd_shift_plain. Qed.

(* why the parameter: the double of EPSILON is not the rational EPSILON (MAX_ARC_WEIGHT = 100000 is exact) *)
Theorem C06_flt_epsilon :
  cvalF CEpsilon = Some cf_EPSILON /\ cvalD CEpsilon = f2r cf_EPSILON /\ cvalD CEpsilon <> cvalR CEpsilon
  /\ const_exact CEpsilon = false /\ const_exact CMaxArcWeight = true.
Proof. exact epsilon_double_inexact. Qed.

(* the exactness check means what it says *)
Theorem C06_flt_exact_check : forall (f : PrimFloat.float) (q : Q),
  flt_is_Q f q = true -> ffin f = true /\ f2r f = Q2R q.
Proof. exact MetricFltOps.flt_is_Q_sound. Qed.

(* non-vacuity: a decorated table entry on finite vectors of length 2 where the checked evaluator is defined *)
Theorem C06_flt_refine_nonvacuous :
  exists m x y f,
    In m (map snd all_metrics_ir) /\ m_avoid_zero m = true /\ Forall (fun a => ffin a = true) x /\ Forall (fun a => ffin a = true) y
    /\ length x = length y /\ length x = 2%nat /\ (Z.of_nat (length x) <= 2 ^ 53)%Z /\ metric_fltc m x y = Some f.
Proof. exact refine_nonvacuous. Qed.

(* ... and an undecorated one with a sibling call, where the conclusion is about metric_rnd rnd64 itself *)
Theorem C06_flt_refine_plain_nonvacuous :
  exists m x y f,
    plain_metric m = true /\ consts_exactS (m_body m) = true /\ Forall (fun a => ffin a = true) x /\ Forall (fun a => ffin a = true) y
    /\ length x = length y /\ length x = 2%nat /\ (Z.of_nat (length x) <= 2 ^ 53)%Z /\ metric_fltc m x y = Some f
    /\ metric_rnd rnd64 m (map f2r x) (map f2r y) = Some (f2r f).
Proof. exact refine_plain_nonvacuous. Qed.
