From Coq Require Import ZArith QArith List Arith Bool Permutation.
From OPF Require Import Base.Lists Base.TotalOrder Model.Heap Model.Sup Model.Learn Model.Measures Model.LearnFull
                        Spec.Paths.
From OPF Require Import Proofs.FitBase Proofs.Learn Proofs.LearnFull Proofs.LearnFullOpf Proofs.LearnFullExample.
Import ListNotations.
Local Open Scope nat_scope.

(* C17, closed loop.  Model/LearnFull.v: [learn_full] / [prune_full] CALL the models of fit
   (sup_fit), predict (predict_batch with its relevance marks) and opf_accuracy; rows are ids into a
   universe of points with distances [w : nat -> nat -> W]; the only input besides the caller's
   arrays is the stream of random draws.  [QAcc]: accuracies are exact rationals (Model/Measures.v)
   and the two comparisons of the loop are decided on the rationals.  The theorems below tie this
   model to Model/Learn.v (whose theorems, Props/C17.v, then transfer) and compose it with C01 / C02
   (the classifier left in the object is an optimum-path forest) and with C17_relevant_exact
   (pruning keeps exactly the samples on root paths of conquerors). *)

(* ---------------------------------------------------------------------------------------- *)
(* learn_full refines Model/Learn.learn                                                     *)

(* The closed loop equals Model/Learn.learn applied to the iteration records computed from its
   own fits: [its_of tr] turns every iteration [it] of the trace into the record
   (rank of its accuracy among the accuracies of the run, its error positions, the prototype
   flags of its fit, its stop flag). *)
Theorem C17_learn_full_refines :
  forall (W : Type) (ltb : W -> W -> bool) (zero top : W) (w : nat -> nat -> W)
         (n_iterations : nat) (draws : list nat) (st : lstate nat),
    let r := learn_full ltb zero top w QAcc n_iterations draws st in
    fr_res r = learn (its_of (fr_trace r)) n_iterations draws st.
Proof. exact (@learn_full_refines). Qed.

(* ... where the i-th record really is what fit / predict / opf_accuracy give on the caller's
   arrays as they stand after the exchanges of iterations 0..i-1 ([state_at], Proofs/Learn.v),
   and the integer codes order the accuracies exactly as the rationals do. *)
Theorem C17_learn_full_records :
  forall (W : Type) (ltb : W -> W -> bool) (zero top : W) (w : nat -> nat -> W)
         (n_iterations : nat) (draws : list nat) (st : lstate nat),
    let r := learn_full ltb zero top w QAcc n_iterations draws st in
    let tr := fr_trace r in
    let code a := qrank (trace_accs tr) a in
    (forall i it, nth_error tr i = Some it ->
       let s := state_at (its_of tr) i draws st in
       let fitted := fit_on ltb zero top w (l_Xt s) (l_Yt s) in
       let pass := predict_on ltb zero w (l_Xt s) fitted (l_Xv s) in
       it = iterate ltb zero top w QAcc (prev_at 0%Q tr i) s /\
       fi_nodes it = fst pass /\ fi_preds it = snd pass /\
       fi_acc it = opf_accuracy (l_Yv s) (snd pass) /\
       nth_error (its_of tr) i =
         Some (mkIter (code (fi_acc it)) (fi_errs it) (n_status (fi_nodes it)) (fi_small it))) /\
    (forall it it', In it tr -> In it' tr ->
       ((code (fi_acc it') < code (fi_acc it))%Z <-> (fi_acc it' < fi_acc it)%Q)).
Proof. exact (@learn_full_records). Qed.

(* the same refinement for ANY accuracy domain (e.g. the binary64 instance FAcc of
   Model/LearnFullFloat.v, which is what the real code computes), given integer codes that order
   the accuracies of the run as the domain's own [>] does *)
Theorem C17_learn_full_refines_any_accuracy :
  forall (W A : Type) (ltb : W -> W -> bool) (zero top : W) (w : nat -> nat -> W) (ao : acc_ops A)
         (rk : A -> Z) (n_iterations : nat) (draws : list nat) (st : lstate nat),
    let r := learn_full ltb zero top w ao n_iterations draws st in
    (forall it it', In it (fr_trace r) -> In it' (fr_trace r) ->
       Z.ltb (rk (fi_acc it')) (rk (fi_acc it)) = ao_gt ao (fi_acc it) (fi_acc it')) ->
    fr_res r = learn (map (enc_iter rk) (fr_trace r)) n_iterations draws st.
Proof. exact (@learn_full_refines_gen). Qed.

(* such codes exist whenever the domain's [>] is a strict weak order on the accuracies of the run
   (irreflexive, transitive, and "not >" transitive: the rationals, non-NaN doubles, ...):
   [grank gt l a] = number of values of l strictly below a *)
Theorem C17_learn_full_refines_weak_order :
  forall (W A : Type) (ltb : W -> W -> bool) (zero top : W) (w : nat -> nat -> W) (ao : acc_ops A)
         (n_iterations : nat) (draws : list nat) (st : lstate nat),
    let r := learn_full ltb zero top w ao n_iterations draws st in
    let accs := map (@fi_acc W A) (fr_trace r) in
    let gt := ao_gt ao in
    ((forall a, In a accs -> gt a a = false) /\
     (forall a b c, In a accs -> In b accs -> In c accs -> gt a b = true -> gt b c = true -> gt a c = true) /\
     (forall a b c, In a accs -> In b accs -> In c accs -> gt a b = false -> gt b c = false -> gt a c = false)) ->
    fr_res r = learn (map (enc_iter (grank gt accs)) (fr_trace r)) n_iterations draws st.
Proof. exact (@learn_full_refines_weak_order). Qed.

(* ---------------------------------------------------------------------------------------- *)
(* transferred corollaries                                                                  *)

(* conservation of the (row id, label) multiset over both sets, sizes unchanged - for any draws and
   whatever the accuracy domain decides (C17_learn_conserves) *)
Theorem C17_learn_full_conserves :
  forall (W : Type) (ltb : W -> W -> bool) (zero top : W) (w : nat -> nat -> W) (A : Type) (ao : acc_ops A)
         (n_iterations : nat) (draws : list nat) (st : lstate nat),
    length (l_Xt st) = length (l_Yt st) -> length (l_Xv st) = length (l_Yv st) ->
    let st' := r_state (fr_res (learn_full ltb zero top w ao n_iterations draws st)) in
    Permutation (combine (l_Xt st' ++ l_Xv st') (l_Yt st' ++ l_Yv st'))
                (combine (l_Xt st ++ l_Xv st) (l_Yt st ++ l_Yv st)) /\
    length (l_Xt st') = length (l_Xt st) /\ length (l_Yt st') = length (l_Yt st) /\
    length (l_Xv st') = length (l_Xv st) /\ length (l_Yv st') = length (l_Yv st).
Proof. exact (@learn_full_conserves). Qed.

(* between 1 and n_iterations iterations are run (the fuel of the model is never binding), and the
   classifier kept is that of the FIRST iteration attaining the maximal exact accuracy among those
   run (C17_learn_keeps_best) *)
Theorem C17_learn_full_keeps_best :
  forall (W : Type) (ltb : W -> W -> bool) (zero top : W) (w : nat -> nat -> W)
         (n_iterations : nat) (draws : list nat) (st : lstate nat),
    1 <= n_iterations ->
    let r := learn_full ltb zero top w QAcc n_iterations draws st in
    let b := r_best (fr_res r) in
    r_iters (fr_res r) = length (fr_trace r) /\ 1 <= length (fr_trace r) <= n_iterations /\
    exists itb, nth_error (fr_trace r) b = Some itb /\
      (forall i it, nth_error (fr_trace r) i = Some it -> (fi_acc it <= fi_acc itb)%Q) /\
      (forall i it, i < b -> nth_error (fr_trace r) i = Some it -> (fi_acc it < fi_acc itb)%Q).
Proof. exact (@learn_full_keeps_best). Qed.

(* snapshot = training set of that iteration, i.e. the caller's training arrays as they stood when
   iteration r_best started; the subgraph left in the object is fit on it followed by the
   validation pass of that iteration (C17_learn_snapshot) *)
Theorem C17_learn_full_snapshot :
  forall (W : Type) (ltb : W -> W -> bool) (zero top : W) (w : nat -> nat -> W)
         (n_iterations : nat) (draws : list nat) (st : lstate nat),
    1 <= n_iterations ->
    let r := learn_full ltb zero top w QAcc n_iterations draws st in
    let sb := state_at (its_of (fr_trace r)) (r_best (fr_res r)) draws st in
    r_snap (fr_res r) = (l_Xt sb, l_Yt sb) /\
    fr_nodes r = fst (predict_on ltb zero w (l_Xt sb)
                                 (fit_on ltb zero top w (l_Xt sb) (l_Yt sb)) (l_Xv sb)).
Proof. exact (@learn_full_snapshot). Qed.

(* the last two statements for ANY accuracy domain (in particular binary64, Model/LearnFullFloat.v),
   in terms of the domain's own [>] (ao_gt a b = "a > b"): no iteration run beats the kept one, the
   kept one beats every earlier one; [rk] is any integer coding of the accuracies of the run that
   orders them as [>] does - it exists as soon as [>] is a strict weak order on those values *)
Theorem C17_learn_full_keeps_best_any_accuracy :
  forall (W : Type) (ltb : W -> W -> bool) (zero top : W) (w : nat -> nat -> W)
         (A : Type) (ao : acc_ops A) (rk : A -> Z)
         (n_iterations : nat) (draws : list nat) (st : lstate nat),
    1 <= n_iterations ->
    let r := learn_full ltb zero top w ao n_iterations draws st in
    (forall it it', In it (fr_trace r) -> In it' (fr_trace r) ->
       Z.ltb (rk (fi_acc it')) (rk (fi_acc it)) = ao_gt ao (fi_acc it) (fi_acc it')) ->
    let b := r_best (fr_res r) in
    r_iters (fr_res r) = length (fr_trace r) /\ 1 <= length (fr_trace r) <= n_iterations /\
    exists itb, nth_error (fr_trace r) b = Some itb /\
      (forall i it, nth_error (fr_trace r) i = Some it -> ao_gt ao (fi_acc it) (fi_acc itb) = false) /\
      (forall i it, i < b -> nth_error (fr_trace r) i = Some it -> ao_gt ao (fi_acc itb) (fi_acc it) = true).
Proof. exact (@learn_full_keeps_best_gen). Qed.

Theorem C17_learn_full_snapshot_any_accuracy :
  forall (W : Type) (ltb : W -> W -> bool) (zero top : W) (w : nat -> nat -> W)
         (A : Type) (ao : acc_ops A) (rk : A -> Z)
         (n_iterations : nat) (draws : list nat) (st : lstate nat),
    1 <= n_iterations ->
    let r := learn_full ltb zero top w ao n_iterations draws st in
    let sb := state_at (map (enc_iter rk) (fr_trace r)) (r_best (fr_res r)) draws st in
    r_snap (fr_res r) = (l_Xt sb, l_Yt sb) /\
    fr_nodes r = fst (predict_on ltb zero w (l_Xt sb)
                                 (fit_on ltb zero top w (l_Xt sb) (l_Yt sb)) (l_Xv sb)).
Proof. exact (@learn_full_snapshot_gen). Qed.

(* ---------------------------------------------------------------------------------------- *)
(* the classifier left in the object is an optimum-path forest (C17 with C01 / C02)         *)

(* For any strict total order on the weights (Base/TotalOrder.v; Z, nat, reduced rationals, ...),
   distances within [zero, top) and any accuracy domain: if the snapshot training set contains two
   classes, the object holds [sup_fit] on the snapshot (every field but the relevance flags) and
   that table is an optimum-path forest for the snapshot: the conjuncts of C01_sup_fit_anyorder. *)
Theorem C17_learn_full_classifier_is_opf :
  forall (W : Type) (ltb : W -> W -> bool),
    strict_total_order ltb ->
    forall (zero top : W) (w : nat -> nat -> W),
    ltb zero top = true ->
    (forall a b, ltb (w a b) zero = false /\ ltb (w a b) top = true) ->
    forall (A : Type) (ao : acc_ops A) (n_iterations : nat) (draws : list nat) (st : lstate nat),
    1 <= n_iterations ->
    let r := learn_full ltb zero top w ao n_iterations draws st in
    let X := fst (r_snap (fr_res r)) in
    let Y := snd (r_snap (fr_res r)) in
    let n := length Y in
    let wX p q := w (nth p X 0) (nth q X 0) in
    let nd := fr_nodes r in
    let fitted := sup_fit ltb zero top Y wX in
    let isproto q := nth q (n_status nd) false = true in
    let cost q := nth q (n_cost nd) zero in
    let pred q := nth q (n_pred nd) None in
    let plabel q := nth q (n_plabel nd) 0 in
    (exists a b, a < n /\ b < n /\ nth a Y 0 <> nth b Y 0) ->
    (n_cost nd = n_cost fitted /\ n_pred nd = n_pred fitted /\ n_label nd = n_label fitted /\
     n_plabel nd = n_plabel fitted /\ n_status nd = n_status fitted /\ n_order nd = n_order fitted) /\
    n_label nd = Y /\
    (Permutation (n_order nd) (seq 0 n) /\
     (forall i j, i < j -> j < n ->
        ltb (cost (nth j (n_order nd) 0)) (cost (nth i (n_order nd) 0)) = false) /\
     (forall q, q < n -> isproto q ->
        pred q = None /\ cost q = zero /\ plabel q = nth q Y 0) /\
     (forall q, q < n -> ~ isproto q ->
        exists p, pred q = Some p /\ p < n /\ p <> q /\
          cost q = wmax ltb (cost p) (wX p q) /\ plabel q = plabel p /\ before (n_order nd) p q) /\
     (forall q, q < n ->
        exists r0 k, r0 < n /\ isproto r0 /\ reaches pred q r0 k /\ pred r0 = None /\
          k < n /\ plabel q = nth r0 Y 0) /\
     (forall q s pi, q < n -> s < n -> isproto s -> path_from_to n s q pi ->
        ltb (pathmaxW ltb wX zero pi) (cost q) = false) /\
     (forall q, q < n -> exists s pi, s < n /\ isproto s /\ path_from_to n s q pi /\
        pathmaxW ltb wX zero pi = cost q)).
Proof. exact (@learn_full_classifier_is_opf). Qed.

(* The guard is the real one: fit finds a prototype - its conquest order is non-empty - exactly
   when the training set has two classes.  With a single class the model's [fit_ok] is false: that
   is where the real predict raises IndexError on idx_nodes[0] (checked by the correspondence). *)
Theorem C17_fit_ok_iff_two_classes :
  forall (W : Type) (ltb : W -> W -> bool),
    strict_total_order ltb ->
    forall (zero top : W) (w : nat -> nat -> W),
    ltb zero top = true ->
    (forall a b, ltb (w a b) zero = false /\ ltb (w a b) top = true) ->
    forall X Y : list nat,
    1 <= length Y ->
    (fit_ok (fit_on ltb zero top w X Y) = true <->
     exists a b, a < length Y /\ b < length Y /\ nth a Y 0 <> nth b Y 0).
Proof. exact (@fit_ok_iff_two_classes). Qed.

(* ... and it never has to be assumed about the snapshot: every class present has a prototype
   (C02_every_class_has_prototype) and prototypes are never exchanged, so every iteration - in
   particular the kept one - trains on two classes as soon as the initial training set has two. *)
Theorem C17_learn_full_keeps_two_classes :
  forall (W : Type) (ltb : W -> W -> bool),
    strict_total_order ltb ->
    forall (zero top : W) (w : nat -> nat -> W),
    ltb zero top = true ->
    (forall a b, ltb (w a b) zero = false /\ ltb (w a b) top = true) ->
    forall (A : Type) (ao : acc_ops A) (n_iterations : nat) (draws : list nat) (st : lstate nat),
    (exists a b, a < length (l_Yt st) /\ b < length (l_Yt st) /\ nth a (l_Yt st) 0 <> nth b (l_Yt st) 0) ->
    let r := learn_full ltb zero top w ao n_iterations draws st in
    (forall it, In it (fr_trace r) ->
       exists a b, a < length (fi_Y it) /\ b < length (fi_Y it) /\ nth a (fi_Y it) 0 <> nth b (fi_Y it) 0) /\
    (1 <= n_iterations ->
     let Y := snd (r_snap (fr_res r)) in
     exists a b, a < length Y /\ b < length Y /\ nth a Y 0 <> nth b Y 0).
Proof. exact (@learn_full_keeps_two_classes). Qed.

(* W := Z in the vocabulary of Props/C01.v, the guard discharged from the initial training set *)
Theorem C17_learn_full_classifier_is_opf_Z :
  forall (zero top : Z) (w : nat -> nat -> Z) (A : Type) (ao : acc_ops A)
         (n_iterations : nat) (draws : list nat) (st : lstate nat),
    (zero < top)%Z -> (forall a b, (zero <= w a b < top)%Z) ->
    1 <= n_iterations ->
    (exists a b, a < length (l_Yt st) /\ b < length (l_Yt st) /\ nth a (l_Yt st) 0 <> nth b (l_Yt st) 0) ->
    let r := learn_full Z.ltb zero top w ao n_iterations draws st in
    let X := fst (r_snap (fr_res r)) in
    let Y := snd (r_snap (fr_res r)) in
    let n := length Y in
    let wX p q := w (nth p X 0) (nth q X 0) in
    let nd := fr_nodes r in
    let fitted := sup_fit Z.ltb zero top Y wX in
    let isproto q := nth q (n_status nd) false = true in
    let cost q := nth q (n_cost nd) zero in
    let pred q := nth q (n_pred nd) None in
    let plabel q := nth q (n_plabel nd) 0 in
    (exists a b, a < n /\ b < n /\ nth a Y 0 <> nth b Y 0) /\
    (n_cost nd = n_cost fitted /\ n_pred nd = n_pred fitted /\ n_label nd = n_label fitted /\
     n_plabel nd = n_plabel fitted /\ n_status nd = n_status fitted /\ n_order nd = n_order fitted) /\
    n_label nd = Y /\
    (Permutation (n_order nd) (seq 0 n) /\
     (forall i j, i < j -> j < n ->
        (cost (nth i (n_order nd) 0%nat) <= cost (nth j (n_order nd) 0%nat))%Z) /\
     (forall q, q < n -> isproto q ->
        pred q = None /\ cost q = zero /\ plabel q = nth q Y 0) /\
     (forall q, q < n -> ~ isproto q ->
        exists p, pred q = Some p /\ p < n /\ p <> q /\
          cost q = Z.max (cost p) (wX p q) /\ plabel q = plabel p /\ before (n_order nd) p q) /\
     (forall q, q < n ->
        exists r0 k, r0 < n /\ isproto r0 /\ reaches pred q r0 k /\ pred r0 = None /\
          k < n /\ plabel q = nth r0 Y 0) /\
     (forall q s pi, q < n -> s < n -> isproto s -> path_from_to n s q pi ->
        (cost q <= pathmax wX zero pi)%Z) /\
     (forall q, q < n -> exists s pi, s < n /\ isproto s /\ path_from_to n s q pi /\
        pathmax wX zero pi = cost q)).
Proof. exact (@learn_full_classifier_is_opf_Z). Qed.

(* ---------------------------------------------------------------------------------------- *)
(* prune_full                                                                               *)

(* the closed prune loop is Model/Learn.prune fed with the relevance flags of its own rounds *)
Theorem C17_prune_full_refines :
  forall (W : Type) (ltb : W -> W -> bool) (zero top : W) (w : nat -> nat -> W)
         (n_iterations : nat) (st : lstate nat),
    let rs := prune_rounds ltb zero top w n_iterations (l_Xt st) (l_Yt st) (l_Xv st) in
    let fin := prune_full ltb zero top w n_iterations st in
    length rs = S n_iterations /\
    (pr_X fin, pr_Y fin) =
      prune (map (fun r => n_relevant (pr_nodes r)) (removelast rs)) (l_Xt st) (l_Yt st).
Proof. exact (@prune_full_refines_len). Qed.

(* the final training set is a sub-list (order preserved) of the original (id, label) pairs, hence
   a sub-multiset with every survivor next to its own label (C17_prune_sublist); the classifier left
   in the object is sup_fit on it, followed by the validation pass *)
Theorem C17_prune_full_sublist :
  forall (W : Type) (ltb : W -> W -> bool) (zero top : W) (w : nat -> nat -> W)
         (n_iterations : nat) (st : lstate nat),
    let fin := prune_full ltb zero top w n_iterations st in
    let X' := pr_X fin in
    let Y' := pr_Y fin in
    sublist (combine X' Y') (combine (l_Xt st) (l_Yt st)) /\
    (exists discarded, Permutation (combine X' Y' ++ discarded) (combine (l_Xt st) (l_Yt st))) /\
    sublist X' (l_Xt st) /\ sublist Y' (l_Yt st) /\
    length X' <= length (l_Xt st) /\ length Y' <= length (l_Yt st) /\
    (length (l_Xt st) = length (l_Yt st) -> length X' = length Y') /\
    pr_nodes fin = fst (predict_on ltb zero w X' (fit_on ltb zero top w X' Y') (l_Xv st)) /\
    pr_preds fin = snd (predict_on ltb zero w X' (fit_on ltb zero top w X' Y') (l_Xv st)).
Proof. exact (@prune_full_sublist). Qed.

(* every retained sample was relevant in the preceding round: round i+1 trains on the rows of round
   i whose flag is set, and (round i having two classes, so that its fit is a forest: C01) the flag
   of row t is set exactly when t lies on the predecessor path from the conqueror of some
   validation point to its root (C17_relevant_exact_in_range) *)
Theorem C17_prune_full_retained_relevant :
  forall (W : Type) (ltb : W -> W -> bool),
    strict_total_order ltb ->
    forall (zero top : W) (w : nat -> nat -> W),
    ltb zero top = true ->
    (forall a b, ltb (w a b) zero = false /\ ltb (w a b) top = true) ->
    forall (n_iterations : nat) (st : lstate nat) (i : nat) (r r' : pround W),
    let rounds := prune_rounds ltb zero top w n_iterations (l_Xt st) (l_Yt st) (l_Xv st) in
    nth_error rounds i = Some r -> nth_error rounds (S i) = Some r' ->
    (exists a b, a < length (pr_Y r) /\ b < length (pr_Y r) /\ nth a (pr_Y r) 0 <> nth b (pr_Y r) 0) ->
    let fitted := fit_on ltb zero top w (pr_X r) (pr_Y r) in
    let pred q := nth q (n_pred fitted) None in
    let fl := n_relevant (pr_nodes r) in
    pr_X r' = keep fl (pr_X r) /\ pr_Y r' = keep fl (pr_Y r) /\
    (n_cost (pr_nodes r) = n_cost fitted /\ n_pred (pr_nodes r) = n_pred fitted /\
     n_label (pr_nodes r) = n_label fitted /\ n_plabel (pr_nodes r) = n_plabel fitted /\
     n_status (pr_nodes r) = n_status fitted /\ n_order (pr_nodes r) = n_order fitted) /\
    length fl = length (pr_Y r) /\
    forall t, t < length (pr_Y r) ->
      (nth t fl false = true <->
       exists v, In v (l_Xv st) /\ exists c,
         snd (predict_one ltb zero fitted (fun s => w (nth s (pr_X r) 0) v)) = Some c /\
         exists k, reaches pred c t k).
Proof. exact (@prune_full_retained_relevant). Qed.

(* ---------------------------------------------------------------------------------------- *)
(* non-vacuity: a universe of 7 points, 4 training rows in 2 classes, 3 validation rows      *)

(* the hypotheses of the theorems above hold on it *)
Theorem C17_full_example_premises :
  strict_total_order Z.ltb /\ Z.ltb 0 1000 = true /\
  (forall a b, Z.ltb (exf_w a b) 0 = false /\ Z.ltb (exf_w a b) 1000 = true) /\
  1 <= 3 /\
  (exists a b, a < length (l_Yt exf_st) /\ b < length (l_Yt exf_st) /\
               nth a (l_Yt exf_st) 0 <> nth b (l_Yt exf_st) 0) /\
  length (l_Xt exf_st) = length (l_Yt exf_st) /\ length (l_Xv exf_st) = length (l_Yv exf_st).
Proof. exact exf_premises. Qed.

(* three iterations (accuracies 1/4, 3/4, 3/4); an exchange happens in the first (training row 1 <->
   validation row 1); the second iteration is kept; the arrays end up different from the input *)
Theorem C17_full_example_learn :
  exf_learn = learn_full Z.ltb 0%Z 1000%Z exf_w QAcc 3 exf_draws exf_st /\
  fr_res exf_learn = mkRes 1 3 ([0;5;2;3], [0;1;1;0]) [] (mkL [0;5;2;3] [0;1;1;0] [4;1;6] [0;1;0]) /\
  map (fun it => (fi_X it, fi_preds it, Qred (fi_acc it), fi_errs it, fi_small it)) (fr_trace exf_learn) =
    [ ([0;1;2;3], [0;0;1], (1 # 4)%Q, [1;2], false);
      ([0;5;2;3], [0;1;1], (3 # 4)%Q, [2], false);
      ([0;5;2;3], [0;1;1], (3 # 4)%Q, [2], true) ] /\
  fr_nodes exf_learn =
    mkNodes [0;0;0;2]%Z [None; None; None; Some 0] [0;1;1;0] [0;1;1;0] [true;true;true;false]
            [true;true;true;false] [0;2;1;3] /\
  l_Xt (r_state (fr_res exf_learn)) <> l_Xt exf_st.
Proof. exact (conj exf_learn_def exf_learn_run). Qed.

(* pruning with one iteration discards rows 1 and 3 (on no conqueror's root path) *)
Theorem C17_full_example_prune :
  map (fun r => (pr_X r, pr_Y r, n_relevant (pr_nodes r)))
      (prune_rounds Z.ltb 0%Z 1000%Z exf_w 1 (l_Xt exf_st) (l_Yt exf_st) (l_Xv exf_st)) =
    [ ([0;1;2;3], [0;1;1;0], [true;false;true;false]); ([0;2], [0;1], [true;true]) ] /\
  prune_full Z.ltb 0%Z 1000%Z exf_w 1 exf_st =
    mkPR [0;2] [0;1]
         (mkNodes [0;0]%Z [None; None] [0;1] [0;1] [true;true] [true;true] [0;1]) [0;0;1] /\
  length (pr_X (prune_full Z.ltb 0%Z 1000%Z exf_w 1 exf_st)) < length (l_Xt exf_st).
Proof. exact exf_prune_run. Qed.

Theorem C17_full_example_prune_premises :
  let rounds := prune_rounds Z.ltb 0%Z 1000%Z exf_w 1 (l_Xt exf_st) (l_Yt exf_st) (l_Xv exf_st) in
  exists r r', nth_error rounds 0 = Some r /\ nth_error rounds 1 = Some r' /\
    (exists a b, a < length (pr_Y r) /\ b < length (pr_Y r) /\ nth a (pr_Y r) 0 <> nth b (pr_Y r) 0) /\
    length (pr_X r') < length (pr_X r).
Proof. exact exf_prune_premises. Qed.
