(* C13 end to end, over the real numbers: the final training stage of KNNSupervisedOPF.fit and of
   UnsupervisedOPF.fit,

       destroy_arcs; create_arcs(best_k); calculate_pdf(best_k); _clustering(...)

   as the single terms [knn_sup_final] / [unsup_final] of Model/KnnFit.v instantiated at [ROps]
   (the same terms are run at PrimFloat by the harness).  Composition of
     - C12, order-only part (Props/C12_anyorder.v) at W := R, ltb := Rltb,
     - C12, arithmetic part (Props/C12_pdf.v),
     - C13 for an arbitrary strict total order (Props/C13_anyorder.v) at W := R, ltb := Rltb,
   plus the arithmetic corollaries (density gap; C04, KNN half: every training sample keeps its label).

   [fmax] is c.FLOAT_MAX, [thr] = 0.00001 and [one] = 1 (arbitrary here), [gdens0] the density bound
   left in the subgraph by the k-search (arbitrary here), [d i j] the distance between training samples
   i and j, [e i j] the term exp(-d i j / constant) (an arbitrary function; the clause about the minimum
   and maximum of the unmapped densities needs 0 <= e i j <= 1).  [adj0] is the adjacency produced by
   create_arcs, before the plateau step of the clustering routine extends it.

   Fidelity remark: for k > n - 1 the Python raises IndexError (calculate_pdf reads adjacency[l] for every
   l < k, for both classifiers; the unsupervised plateau step does so too), whereas the model reads a
   default.  No proof below needs k <= n - 1 except the clause "every adjacency list has exactly k
   entries" of the unsupervised theorem. *)
From Coq Require Import Reals List Permutation.
From OPF Require Import Base.Lists Base.NumOps Base.TotalOrder Model.Heap Model.Knn Model.KnnFit
  Spec.Paths Spec.Trees Proofs.PdfBase Proofs.KnnPipeline Proofs.KnnPipelineMain Proofs.KnnPipelineExample.
Import ListNotations.
Local Open Scope R_scope.

Theorem C13_Rltb_strict_total_order : strict_total_order Rltb.
Proof. exact Rltb_order. Qed.

Theorem C13_knn_sup_final_forest :
  forall (fmax thr one gdens0 : R) (k : nat) (labels : list nat) (d e : nat -> nat -> R),
    let n := length labels in
    0 < fmax ->
    (forall i j, (i < n)%nat -> (j < n)%nat -> i <> j -> 0 <= d i j < fmax) ->
    forall (g' : @knn R) (c mn mx : R),
    knn_sup_final ROps fmax thr one 1000 k labels gdens0 d e = (g', (c, mn, mx)) ->
    let pred := fun q => nth q (k_pred g') None in
    let root := fun q => nth q (k_root g') 0%nat in
    let cost := fun q => nth q (k_cost g') 0 in
    let dens := fun q => nth q (k_dens g') 0 in
    let plabel := fun q => nth q (k_plabel g') 0%nat in
    let label := fun q => nth q labels 0%nat in
    let adj := fun q => nth q (k_adj g') [] in
    k_label g' = labels /\
    Permutation (k_order g') (seq 0 n) /\
    (forall q, (q < n)%nat -> 1 <= dens q <= 1000) /\
    (exists adj0 : list (list nat),
       (length adj0 = n /\
        (forall i, (i < n)%nat ->
           let a := nth i adj0 [] in
           length a = Nat.min k (n - 1) /\ NoDup a /\ ~ In i a /\ (forall j, In j a -> (j < n)%nat) /\
           (forall x y, (x <= y)%nat -> (y < length a)%nat -> d i (nth x a 0%nat) <= d i (nth y a 0%nat)) /\
           (forall j, (j < n)%nat -> j <> i -> ~ In j a -> forall x, In x a -> d i x <= d i j)) /\
        let pdf := fun i => Rsum_upto k (fun l => e i (nth l (nth i adj0 []) 0%nat)) / INR (k + 1) in
        (forall i, (i < n)%nat -> mn <= pdf i <= mx) /\
        (mn = mx -> forall i, (i < n)%nat -> dens i = 1000) /\
        (mn < mx -> forall i, (i < n)%nat -> dens i = 1 + 999 * (pdf i - mn) / (mx - mn)) /\
        ((1 <= n)%nat -> 1 <= fmax ->
         (forall i j, (i < n)%nat -> (j < n)%nat -> 0 <= e i j <= 1) ->
         (exists i, (i < n)%nat /\ mn = pdf i) /\ (exists i, (i < n)%nat /\ mx = pdf i) /\
         0 <= mn /\ mn <= mx /\ mx < 1)) /\
       k_adj g' = plateau_sup Rltb 0 n (k_dens g') adj0) /\
    (forall q, (q < n)%nat ->
       match pred q with
       | None => root q = q /\ cost q = dens q /\ plabel q = label q
       | Some p => (p < n)%nat /\ before (k_order g') p q /\ In q (adj p) /\
                   root q = root p /\ cost q = Rmin (cost p) (dens q) /\
                   dens q - 1 < cost q /\ plabel q = plabel p /\ label p = label q
       end) /\
    (forall q, (q < n)%nat ->
       exists r j, (j < n)%nat /\ (r < n)%nat /\ reaches pred q r j /\ pred r = None /\
         (forall r', root_of pred q r' -> r' = r) /\
         root q = r /\ dens q - 1 < cost q /\ cost q <= cost r /\ cost r = dens r /\
         dens q < dens r + 1 /\
         plabel q = label r /\ label q = label r) /\
    (forall q, (q < n)%nat -> plabel q = label q).
Proof. exact knn_sup_final_forest. Qed.

Theorem C13_unsup_final_forest :
  forall (fmax thr one gdens0 : R) (k : nat) (labels : list nat) (d e : nat -> nat -> R),
    let n := length labels in
    (k <= n - 1)%nat ->
    0 < fmax ->
    (forall i j, (i < n)%nat -> (j < n)%nat -> i <> j -> 0 <= d i j < fmax) ->
    forall (g' : @knn R) (c mn mx : R),
    unsup_final ROps fmax thr one 1000 k labels gdens0 d e = (g', (c, mn, mx)) ->
    let pred := fun q => nth q (k_pred g') None in
    let root := fun q => nth q (k_root g') 0%nat in
    let cost := fun q => nth q (k_cost g') 0 in
    let dens := fun q => nth q (k_dens g') 0 in
    let clabel := fun q => nth q (k_clabel g') 0%nat in
    let adj := fun q => nth q (k_adj g') [] in
    let nplat := fun q => nth q (k_nplat g') 0%nat in
    let isroot := fun q => match pred q with None => true | Some _ => false end in
    k_label g' = labels /\
    Permutation (k_order g') (seq 0 n) /\
    (forall q, (q < n)%nat -> 1 <= dens q <= 1000) /\
    (exists adj0 : list (list nat),
       (length adj0 = n /\
        (forall i, (i < n)%nat ->
           let a := nth i adj0 [] in
           length a = Nat.min k (n - 1) /\ NoDup a /\ ~ In i a /\ (forall j, In j a -> (j < n)%nat) /\
           (forall x y, (x <= y)%nat -> (y < length a)%nat -> d i (nth x a 0%nat) <= d i (nth y a 0%nat)) /\
           (forall j, (j < n)%nat -> j <> i -> ~ In j a -> forall x, In x a -> d i x <= d i j)) /\
        let pdf := fun i => Rsum_upto k (fun l => e i (nth l (nth i adj0 []) 0%nat)) / INR (k + 1) in
        (forall i, (i < n)%nat -> mn <= pdf i <= mx) /\
        (mn = mx -> forall i, (i < n)%nat -> dens i = 1000) /\
        (mn < mx -> forall i, (i < n)%nat -> dens i = 1 + 999 * (pdf i - mn) / (mx - mn)) /\
        ((1 <= n)%nat -> 1 <= fmax ->
         (forall i j, (i < n)%nat -> (j < n)%nat -> 0 <= e i j <= 1) ->
         (exists i, (i < n)%nat /\ mn = pdf i) /\ (exists i, (i < n)%nat /\ mx = pdf i) /\
         0 <= mn /\ mn <= mx /\ mx < 1)) /\
       (forall i, (i < n)%nat -> length (nth i adj0 []) = k) /\
       (k_adj g', k_nplat g') = plateau_unsup Rltb 0 k n (k_dens g') adj0 (repeat 0%nat n)) /\
    (forall q, (q < n)%nat ->
       match pred q with
       | None => root q = q /\ cost q = dens q
       | Some p => (p < n)%nat /\ before (k_order g') p q /\ In q (firstn (nplat p + k) (adj p)) /\
                   root q = root p /\ cost q = Rmin (cost p) (dens q) /\
                   dens q - 1 < cost q /\ clabel q = clabel p
       end) /\
    (forall q, (q < n)%nat ->
       exists r j, (j < n)%nat /\ (r < n)%nat /\ reaches pred q r j /\ pred r = None /\
         (forall r', root_of pred q r' -> r' = r) /\
         root q = r /\ dens q - 1 < cost q /\ cost q <= cost r /\ cost r = dens r /\
         dens q < dens r + 1 /\
         clabel q = clabel r) /\
    k_nclusters g' = length (filter isroot (seq 0 n)) /\
    length (filter isroot (k_order g')) = k_nclusters g' /\
    (forall i, (i < k_nclusters g')%nat -> clabel (nth i (filter isroot (k_order g')) 0%nat) = i) /\
    (forall r, (r < n)%nat -> pred r = None -> (clabel r < k_nclusters g')%nat) /\
    (forall r r', (r < n)%nat -> (r' < n)%nat -> pred r = None -> pred r' = None ->
       clabel r = clabel r' -> r = r') /\
    (forall i, (i < k_nclusters g')%nat -> exists r, (r < n)%nat /\ pred r = None /\ clabel r = i) /\
    (forall q, (q < n)%nat -> (clabel q < k_nclusters g')%nat).
Proof. exact unsup_final_forest. Qed.

(* ---------- non-vacuity: three samples, rational data, k = 1, FLOAT_MAX read as 10 ---------- *)

Theorem C13_pipeline_example_data :
  exr_labels = [0; 0; 1]%nat /\
  (forall i j, exr_d i j = nth j (nth i [[0; 1/2; 3/2]; [1/2; 0; 1]; [3/2; 1; 0]] []) 0) /\
  (forall i j, exr_e i j = nth j (nth i [[1; 3/4; 1/4]; [3/4; 1; 1/2]; [1/4; 1/2; 1]] []) 0).
Proof. exact (conj eq_refl (conj (fun i j => eq_refl) (fun i j => eq_refl))). Qed.

Theorem C13_pipeline_example_premises :
  length exr_labels = 3%nat /\ (1 <= 3 - 1)%nat /\ 0 < 10 /\ 1 <= 10 /\
  (forall i j, (i < 3)%nat -> (j < 3)%nat -> i <> j -> 0 <= exr_d i j < 10) /\
  (forall i j, (i < 3)%nat -> (j < 3)%nat -> 0 <= exr_e i j <= 1).
Proof. exact exr_premises. Qed.

Theorem C13_pipeline_example_sup :
  exists (g' : @knn R) (c mn mx : R),
    knn_sup_final ROps 10 (1/100000) 1 1000 1 exr_labels 0 exr_d exr_e = (g', (c, mn, mx)) /\
    Permutation (k_order g') [0; 1; 2]%nat /\
    (forall q, (q < 3)%nat -> nth q (k_plabel g') 0%nat = nth q exr_labels 0%nat) /\
    (forall q, (q < 3)%nat -> 1 <= nth q (k_dens g') 0 <= 1000) /\
    (forall q, (q < 3)%nat ->
       exists r, (r < 3)%nat /\ nth r (k_pred g') None = None /\ nth q (k_root g') 0%nat = r /\
         nth q (k_dens g') 0 < nth r (k_dens g') 0 + 1 /\
         nth q exr_labels 0%nat = nth r exr_labels 0%nat) /\
    0 <= mn /\ mn <= mx /\ mx < 1.
Proof. exact exr_sup. Qed.

Theorem C13_pipeline_example_unsup :
  exists (g' : @knn R) (c mn mx : R),
    unsup_final ROps 10 (1/100000) 1 1000 1 exr_labels 0 exr_d exr_e = (g', (c, mn, mx)) /\
    Permutation (k_order g') [0; 1; 2]%nat /\
    (1 <= k_nclusters g' <= 3)%nat /\
    (forall q, (q < 3)%nat -> (nth q (k_clabel g') 0 < k_nclusters g')%nat) /\
    (forall i, (i < k_nclusters g')%nat ->
       exists r, (r < 3)%nat /\ nth r (k_pred g') None = None /\ nth r (k_clabel g') 0%nat = i) /\
    (forall q, (q < 3)%nat ->
       exists r, (r < 3)%nat /\ nth r (k_pred g') None = None /\ nth q (k_root g') 0%nat = r /\
         nth q (k_dens g') 0 < nth r (k_dens g') 0 + 1 /\
         nth q (k_clabel g') 0%nat = nth r (k_clabel g') 0%nat) /\
    0 <= mn /\ mn <= mx /\ mx < 1.
Proof. exact exr_unsup. Qed.
