From Coq Require Import ZArith List Arith Bool PrimFloat.
From OPF Require Import Base.Lists Model.Heap Model.Sup Model.Learn Model.LearnFull Model.LearnFullFloat.
From OPF Require Import Proofs.LearnFull Proofs.LearnFullExample Proofs.FloatOrder Proofs.FloatRank
  Proofs.FloatRankExample.
Import ListNotations.
Local Open Scope nat_scope.

(* C17, closed loop, binary64 accuracies.

   [C17_learn_full_refines_weak_order] (Props/C17_full.v) assumes that the accuracy domain's [>] is a
   strict weak order on the accuracies of the run.  For [FAcc] (Model/LearnFullFloat.v: numpy's
   evaluation of opf_accuracy in binary64; [acc > max_acc] is [PrimFloat.ltb max_acc acc]) that is a
   theorem about [PrimFloat.ltb] (Proofs/FloatOrder.v) as soon as no accuracy of the run is NaN -
   a decidable condition on the run ([forallb (fun a => negb (is_nan a))]); opf_accuracy is NaN only
   for an empty label array (0/0).  The hypothesis is therefore discharged: the closed loop in
   binary64 IS Model/Learn.learn on the records it computes, with the accuracies coded by their
   counting ranks [grank], or by their IEEE bit patterns [fenc] (harness/common.py: enc).

   Print Assumptions: the primitive float type/operations and FloatAxioms.ltb_spec, eqb_spec
   (and Prim2SF_valid for the [fenc] form). *)

Theorem C17_FAcc_comparison_weak_order :
  forall accs : list float,
    Forall (fun a => is_nan a = false) accs ->
    let gt := ao_gt FAcc in
    (forall a, In a accs -> gt a a = false) /\
    (forall a b c, In a accs -> In b accs -> In c accs -> gt a b = true -> gt b c = true -> gt a c = true) /\
    (forall a b c, In a accs -> In b accs -> In c accs -> gt a b = false -> gt b c = false -> gt a c = false).
Proof. exact FAcc_weak_order. Qed.

Theorem C17_learn_full_refines_float :
  forall (W : Type) (ltb : W -> W -> bool) (zero top : W) (w : nat -> nat -> W)
         (n_iterations : nat) (draws : list nat) (st : lstate nat),
    let r := learn_full ltb zero top w FAcc n_iterations draws st in
    let accs := map (@fi_acc W float) (fr_trace r) in
    Forall (fun a => is_nan a = false) accs ->
    fr_res r = learn (map (enc_iter (grank (ao_gt FAcc) accs)) (fr_trace r)) n_iterations draws st.
Proof. exact (@learn_full_refines_float). Qed.

Theorem C17_learn_full_refines_float_enc :
  forall (W : Type) (ltb : W -> W -> bool) (zero top : W) (w : nat -> nat -> W)
         (n_iterations : nat) (draws : list nat) (st : lstate nat),
    let r := learn_full ltb zero top w FAcc n_iterations draws st in
    let accs := map (@fi_acc W float) (fr_trace r) in
    Forall (fun a => is_nan a = false) accs ->
    fr_res r = learn (map (enc_iter fenc) (fr_trace r)) n_iterations draws st.
Proof. exact (@learn_full_refines_float_enc). Qed.

(* non-vacuity: the 7-point universe of C17_full_example with binary64 accuracies; three iterations
   with accuracies 0.25, 0.75, 0.75 (none NaN), second iteration kept *)
Theorem C17_float_example :
  exfl_learn = learn_full Z.ltb 0%Z 1000%Z exf_w FAcc 3 exf_draws exf_st /\
  Forall (fun a => is_nan a = false) (map (@fi_acc Z float) (fr_trace exfl_learn)) /\
  map (@fi_acc Z float) (fr_trace exfl_learn) = [0.25; 0.75; 0.75]%float /\
  fr_res exfl_learn = mkRes 1 3 ([0;5;2;3], [0;1;1;0]) [] (mkL [0;5;2;3] [0;1;1;0] [4;1;6] [0;1;0]).
Proof. exact (conj exfl_learn_def (conj exfl_learn_accs_nn exfl_learn_accs)). Qed.
