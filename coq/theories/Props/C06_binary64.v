(* IEEE-754 binary64 IS a rounding function of the abstract classes of this development (Flocq 4.1).

   [rnd64]  = round-to-nearest-even onto the binary64 format with gradual underflow, unbounded above
              (Flocq: round radix2 (FLT_exp (-1074) 53) ZnearestE);
   [rnd64x] = the same with no underflow (FLX_exp 53); [u64] = 2^-53 (Proofs/RdepthWitness.v);
   [f2r x]  = the real value of a primitive float (Flocq's B2R o Prim2B; 0 for NaN and infinities),
   [ffin x] = PrimFloat.is_finite x, [fits64 t] = |rnd64 t| < 2^1024 (Model/Binary64.v).

   A. INSTANCE FACTS.  rnd64x is in every class used by the rounding layers: [rounding] (Model/MetricRnd.v),
      [rnd_idem], [rnd 1 = 1], "integers up to 2^53 fixed", [rnd x <= 2 x], [rnd_odd] (Model/MetricSym.v),
      [rnd_rel u64] (Model/MetricRdepth.v) and the C13 gap hypothesis.  The REAL format rnd64 is monotone, odd,
      idempotent, fixes 0, 1 and the integers up to 2^53, keeps the WEAK sign, agrees with rnd64x (hence has
      relative error <= u64) on 2^-1022 <= |t|, and is NOT in the class [rounding]: rnd64 (2^-1076) = 0
      ([C06_binary64_rnd64_not_rounding]).  So every theorem with hypothesis [rounding rnd] speaks about
      binary64 runs in which no non-zero exact result is rounded to zero; theorems that only need [rnd_odd]
      (C08 symmetry) hold for rnd64 unconditionally.
   B. THE OPERATION BRIDGE.  On finite operands whose exact result rounds below 2^1024 in magnitude,
      PrimFloat's + - * / sqrt return a finite float whose value is rnd64 of the exact real result; < and ==
      are the real comparisons of the values; [float_ofZ z] (Base/NumOps.v) is exact for |z| <= 2^53.
      These rest on the standard library's FloatAxioms (the *_spec axioms of the primitives) through Flocq's
      IEEE754/PrimFloat.v, nothing else.
   C. THE C06 BOUNDS AT BINARY64.  [rounding_bound_at] / [rounding_bound_shift_at] (Model/Binary64Metric.v) are
      [rounding_bound] / [rounding_bound_shift] at one (u, rnd); the tables of Props/C06_rounding.v and
      C06_rounding_shift.v hold at u = 2^-53, rnd = rnd64x. *)
From Coq Require Import Reals ZArith String List Floats.
From OPF Require Import Base.NumOps Base.NumOpsRnd Spec.MetricSpec Model.MetricIR Gen.Metrics_gen Model.MetricRnd
     Model.MetricEval Model.MetricSym Model.MetricRdepth Model.MetricRdepthQ Proofs.RdepthWitness
     Model.Binary64 Model.Binary64Metric Proofs.Binary64 Proofs.Binary64Ops Proofs.Binary64Metric
     Proofs.Binary64Knn.
Import ListNotations.
Open Scope string_scope.
Open Scope R_scope.

(* ---------------- the definitions, in the vocabulary of Flocq ---------------- *)
Theorem C06_binary64_defs :
  rnd64 = Generic_fmt.round Zaux.radix2 (FLT.FLT_exp (-1074) 53) Round_NE.ZnearestE /\
  rnd64x = Generic_fmt.round Zaux.radix2 (FLX.FLX_exp 53) Round_NE.ZnearestE /\
  u64 = / 2 ^ 53 /\
  (forall x, f2r x = BinarySingleNaN.B2R (Flocq.IEEE754.PrimFloat.Prim2B x)) /\
  (forall x, ffin x = PrimFloat.is_finite x) /\
  (forall t, fits64 t <-> Rabs (rnd64 t) < 2 ^ 1024).
Proof. exact b64_defs. Qed.

(* ---------------- A. instance facts: rnd64x ---------------- *)
Theorem C06_binary64_rounding : rounding rnd64x.
Proof. exact rnd64x_rounding. Qed.

Theorem C06_binary64_idem : rnd_idem rnd64x.
Proof. exact rnd64x_idem. Qed.

Theorem C06_binary64_one : rnd64x 1 = 1.
Proof. exact rnd64x_one. Qed.

Theorem C06_binary64_odd : rnd_odd rnd64x.
Proof. exact rnd64x_odd. Qed.

Theorem C06_binary64_rel : rnd_rel u64 rnd64x.
Proof. exact rnd64x_rel. Qed.

Theorem C06_binary64_integers : forall z, (Z.abs z <= 2 ^ 53)%Z -> rnd64x (IZR z) = IZR z.
Proof. exact rnd64x_int. Qed.

Theorem C06_binary64_le_double : forall x, 0 <= x -> rnd64x x <= 2 * x.
Proof. exact rnd64x_le_double. Qed.

Theorem C06_binary64_gap : forall t, 1 <= t <= 7994 -> rnd64x t = t -> rnd64x (t - 1) < t.
Proof. exact rnd64x_gap. Qed.

(* exact scaling by powers of two (no underflow/overflow in rnd64x), dyadic numbers with small numerators *)
Theorem C06_binary64_dyadic : forall z (n : nat), (Z.abs z <= 2 ^ 53)%Z -> rnd64x (IZR z / 2 ^ n) = IZR z / 2 ^ n.
Proof. exact rnd64x_dyadic. Qed.

(* ---------------- A. instance facts: the real format rnd64 ---------------- *)
Theorem C06_binary64_rnd64 :
  (forall a b, a <= b -> rnd64 a <= rnd64 b) /\ rnd64 0 = 0 /\ rnd_odd rnd64 /\ rnd_idem rnd64 /\ rnd64 1 = 1 /\
  (forall z, (Z.abs z <= 2 ^ 53)%Z -> rnd64 (IZR z) = IZR z) /\
  (forall a, 0 <= a -> 0 <= rnd64 a) /\ (forall a, a <= 0 -> rnd64 a <= 0).
Proof.
  exact (conj rnd64_mono (conj rnd64_zero (conj rnd64_odd (conj rnd64_idem (conj rnd64_one
        (conj rnd64_int (conj rnd64_nonneg rnd64_nonpos))))))).
Qed.

Theorem C06_binary64_rnd64_normal_range :
  forall t, / 2 ^ 1022 <= Rabs t ->
    rnd64 t = rnd64x t /\ exists d, Rabs d <= u64 /\ rnd64 t = t * (1 + d).
Proof. exact rnd64_normal_range. Qed.

(* the honest negative: gradual underflow ends in 0, strict positivity fails *)
Theorem C06_binary64_rnd64_not_rounding :
  0 < / 2 ^ 1076 /\ rnd64 (/ 2 ^ 1076) = 0 /\ ~ rounding rnd64.
Proof. exact rnd64_not_rounding'. Qed.

(* ---------------- B. the operation bridge PrimFloat <-> rnd64 ---------------- *)
Theorem C06_binary64_add : forall x y : PrimFloat.float,
  ffin x = true -> ffin y = true -> fits64 (f2r x + f2r y) ->
  ffin (x + y)%float = true /\ f2r (x + y)%float = rnd64 (f2r x + f2r y).
Proof. exact f2r_add. Qed.

Theorem C06_binary64_sub : forall x y : PrimFloat.float,
  ffin x = true -> ffin y = true -> fits64 (f2r x - f2r y) ->
  ffin (x - y)%float = true /\ f2r (x - y)%float = rnd64 (f2r x - f2r y).
Proof. exact f2r_sub. Qed.

Theorem C06_binary64_mul : forall x y : PrimFloat.float,
  ffin x = true -> ffin y = true -> fits64 (f2r x * f2r y) ->
  ffin (x * y)%float = true /\ f2r (x * y)%float = rnd64 (f2r x * f2r y).
Proof. exact f2r_mul. Qed.

Theorem C06_binary64_div : forall x y : PrimFloat.float,
  ffin x = true -> ffin y = true -> f2r y <> 0 -> fits64 (f2r x / f2r y) ->
  ffin (x / y)%float = true /\ f2r (x / y)%float = rnd64 (f2r x / f2r y).
Proof. exact f2r_div. Qed.

Theorem C06_binary64_sqrt : forall x : PrimFloat.float,
  ffin x = true -> 0 <= f2r x ->
  ffin (PrimFloat.sqrt x) = true /\ f2r (PrimFloat.sqrt x) = rnd64 (R_sqrt.sqrt (f2r x)).
Proof. exact f2r_sqrt. Qed.

Theorem C06_binary64_opp : forall x : PrimFloat.float,
  ffin (- x)%float = ffin x /\ f2r (- x)%float = - f2r x.
Proof. exact f2r_opp. Qed.

Theorem C06_binary64_compare : forall x y : PrimFloat.float,
  ffin x = true -> ffin y = true ->
  PrimFloat.ltb x y = Rltb (f2r x) (f2r y) /\ PrimFloat.eqb x y = Reqb (f2r x) (f2r y).
Proof. exact f2r_compare. Qed.

Theorem C06_binary64_ofZ : forall z, (Z.abs z <= 2 ^ 53)%Z ->
  ffin (float_ofZ z) = true /\ f2r (float_ofZ z) = IZR z.
Proof. exact f2r_float_ofZ. Qed.

(* the values of floats are representable and below 2^1024: "no overflow" is a condition on the exact result *)
Theorem C06_binary64_values : forall x : PrimFloat.float,
  rnd64 (f2r x) = f2r x /\ Rabs (f2r x) < 2 ^ 1024.
Proof. exact f2r_values. Qed.

(* ---------------- C. the C06 rounding bounds at binary64 ---------------- *)
Theorem C06_binary64_bound_meaning :
  forall (m : metric_ir) (sp : list R -> list R -> R) (k : nat -> nat),
    rounding_bound_at u64 rnd64x m sp k <->
    (forall x y, length x = length y -> (1 <= length x)%nat ->
     exists fl, metric_rnd rnd64x m x y = Some fl
       /\ (1 - u64) ^ k (length x) * sp x y <= fl <= (1 + u64) ^ k (length x) * sp x y
       /\ Rabs (fl - sp x y) <= ((1 + u64) ^ k (length x) - 1) * sp x y).
Proof. exact (fun m sp k => conj (fun H => H) (fun H => H)). Qed.

Theorem C06_binary64_of_rounding_bound :
  forall m sp k, rounding_bound m sp k -> rounding_bound_at u64 rnd64x m sp k.
Proof. exact b64_bound_of. Qed.

Theorem C06_binary64_of_rounding_bound_shift :
  forall c m sp p q, rounding_bound_shift c m sp p q -> rounding_bound_shift_at u64 rnd64x c m sp p q.
Proof. exact b64_bound_shift_of. Qed.

Theorem C06_binary64_rounding_sound :
  forall (m : metric_ir) (n k : nat),
    rdepth m n = Some k ->
    forall x y, length x = n -> length y = n -> (1 <= n)%nat ->
    exists fl, metric_rnd rnd64x m x y = Some fl
               /\ within u64 k (metric_value m x y) fl
               /\ Rabs (fl - metric_value m x y) <= ((1 + u64) ^ k - 1) * Rabs (metric_value m x y).
Proof. exact b64_rdepth_sound. Qed.

Theorem C06_binary64_rounding_table :
     rounding_bound_at u64 rnd64x ir_squared_euclidean sp_squared_euclidean (fun n => (n + 2)%nat)
  /\ rounding_bound_at u64 rnd64x ir_manhattan sp_manhattan (fun n => n)
  /\ rounding_bound_at u64 rnd64x ir_euclidean sp_euclidean (fun n => ((n + 3) / 2 + 1)%nat)
  /\ rounding_bound_at u64 rnd64x ir_average_euclidean sp_average_euclidean (fun n => ((n + 4) / 2 + 1)%nat)
  /\ rounding_bound_at u64 rnd64x ir_chebyshev sp_chebyshev (fun _ => 1%nat)
  /\ rounding_bound_at u64 rnd64x ir_hamming sp_hamming (fun _ => 0%nat)
  /\ rounding_bound_at u64 rnd64x ir_gower sp_gower (fun n => (n + 1)%nat)
  /\ rounding_bound_at u64 rnd64x ir_non_intersection sp_non_intersection (fun n => (n + 1)%nat).
Proof. exact b64_table. Qed.

Theorem C06_binary64_shift_meaning :
  forall (c : cls) (m : metric_ir) (sp : list R -> list R -> R) (p q : nat -> nat),
    rounding_bound_shift_at u64 rnd64x c m sp p q <->
    (forall x y, length x = length y -> (1 <= length x)%nat -> Forall (in_cls c) x -> Forall (in_cls c) y ->
     exists fl, metric_rnd rnd64x m x y = Some fl
       /\ lo_f u64 (p (length x)) (q (length x)) * sp (rshift rnd64x x) (rshift rnd64x y) <= fl
          <= up_f u64 (p (length x)) (q (length x)) * sp (rshift rnd64x x) (rshift rnd64x y)
       /\ Rabs (fl - sp (rshift rnd64x x) (rshift rnd64x y))
          <= (up_f u64 (p (length x)) (q (length x)) - 1) * sp (rshift rnd64x x) (rshift rnd64x y)).
Proof. exact (fun c m sp p q => conj (fun H => H) (fun H => H)). Qed.

Theorem C06_binary64_shift_sound :
  forall (c : cls) (m : metric_ir) (n p q : nat),
    rdepthq_in c m n = Some (p, q) ->
    forall x y, length x = n -> in_dom c x y ->
    exists fl, metric_rnd rnd64x m x y = Some fl
               /\ within2 u64 p q (metric_exact_at rnd64x m x y) fl
               /\ Rabs (fl - metric_exact_at rnd64x m x y)
                  <= (up_f u64 p q - 1) * Rabs (metric_exact_at rnd64x m x y).
Proof. exact b64_rdepthq_sound. Qed.

Theorem C06_binary64_shift_table :
     rounding_bound_shift_at u64 rnd64x NonNeg ir_additive_symmetric sp_additive_symmetric (fun n => (n + 6)%nat) (fun _ => 1%nat)
  /\ rounding_bound_shift_at u64 rnd64x NonNeg ir_bray_curtis sp_bray_curtis (fun n => (n + 1)%nat) (fun n => n)
  /\ rounding_bound_shift_at u64 rnd64x NonNeg ir_canberra sp_canberra (fun n => (n + 1)%nat) (fun _ => 1%nat)
  /\ rounding_bound_shift_at u64 rnd64x NonNeg ir_chi_squared sp_chi_squared (fun n => (n + 4)%nat) (fun _ => 1%nat)
  /\ rounding_bound_shift_at u64 rnd64x NonNeg ir_clark sp_clark (fun n => ((n + 5) / 2 + 1)%nat) (fun _ => 1%nat)
  /\ rounding_bound_shift_at u64 rnd64x NonNeg ir_divergence sp_divergence (fun n => (n + 4)%nat) (fun _ => 3%nat)
  /\ rounding_bound_shift_at u64 rnd64x NonNeg ir_kulczynski sp_kulczynski (fun n => (n + 1)%nat) (fun n => (n - 1)%nat)
  /\ rounding_bound_shift_at u64 rnd64x NonNeg ir_max_symmetric sp_max_symmetric (fun n => (n + 3)%nat) (fun _ => 0%nat)
  /\ rounding_bound_shift_at u64 rnd64x NonNeg ir_mean_censored_euclidean sp_mean_censored_euclidean (fun n => ((n + 4) / 2 + 1)%nat) (fun _ => 0%nat)
  /\ rounding_bound_shift_at u64 rnd64x NonNeg ir_min_symmetric sp_min_symmetric (fun n => (n + 3)%nat) (fun _ => 0%nat)
  /\ rounding_bound_shift_at u64 rnd64x NonNeg ir_neyman sp_neyman (fun n => (n + 3)%nat) (fun _ => 0%nat)
  /\ rounding_bound_shift_at u64 rnd64x NonNeg ir_pearson sp_pearson (fun n => (n + 3)%nat) (fun _ => 0%nat)
  /\ rounding_bound_shift_at u64 rnd64x NonNeg ir_sangvi sp_sangvi (fun n => (n + 4)%nat) (fun _ => 1%nat)
  /\ rounding_bound_shift_at u64 rnd64x NonNeg ir_soergel sp_soergel (fun n => (n + 1)%nat) (fun n => (n - 1)%nat)
  /\ rounding_bound_shift_at u64 rnd64x NonNeg ir_squared sp_squared (fun n => (n + 3)%nat) (fun _ => 1%nat)
  /\ rounding_bound_shift_at u64 rnd64x NonNeg ir_vicis_symmetric1 sp_vicis_symmetric1 (fun n => (n + 3)%nat) (fun _ => 1%nat)
  /\ rounding_bound_shift_at u64 rnd64x NonNeg ir_vicis_symmetric2 sp_vicis_symmetric2 (fun n => (n + 3)%nat) (fun _ => 0%nat)
  /\ rounding_bound_shift_at u64 rnd64x NonNeg ir_vicis_symmetric3 sp_vicis_symmetric3 (fun n => (n + 3)%nat) (fun _ => 0%nat)
  /\ rounding_bound_shift_at u64 rnd64x NonNeg ir_vicis_wave_hedges sp_vicis_wave_hedges (fun n => (n + 1)%nat) (fun _ => 0%nat).
Proof. exact b64_shift_table. Qed.

(* ---------------- non-vacuity ---------------- *)
(* the rounding is not the identity: 1/10 is not a binary64 number, and its rounding has a non-zero relative
   error of at most 2^-53 *)
Theorem C06_binary64_tenth :
  rnd64x (1 / 10) <> 1 / 10 /\ exists d, Rabs d <= u64 /\ rnd64x (1 / 10) = 1 / 10 * (1 + d) /\ d <> 0.
Proof. exact (conj tenth_not_format tenth_rel). Qed.

(* manhattan on a pair with entries that are not binary64 numbers: defined, within (1+u)^2 - 1 of 137/30 *)
Theorem C06_binary64_nonvacuous :
  exists fl, metric_rnd rnd64x ir_manhattan [1 / 10; 2] [3; 1 / 3] = Some fl
    /\ Rabs (fl - sp_manhattan [1 / 10; 2] [3; 1 / 3]) <= ((1 + u64) ^ 2 - 1) * sp_manhattan [1 / 10; 2] [3; 1 / 3]
    /\ sp_manhattan [1 / 10; 2] [3; 1 / 3] = 137 / 30.
Proof. exact b64_bound_nonvacuous. Qed.
