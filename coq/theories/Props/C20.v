(* C20 - evaluation measures match their definitions and stay within bounds.
   Model: Model/Measures.v (transcription of opfython/math/general.py).
   Domain ([c20_domain]): |labels| = |preds|, N >= 1, every class 0..K-1 occurs among the labels
   (K = max label + 1), every prediction < K.  Counting definitions used in the statements:
     pair_count a b = #{i | labels i = a /\ preds i = b}     TP c = pair_count c c
     FP c = #{i | preds i = c /\ labels i <> c}              FN c = #{i | labels i = c /\ preds i <> c}
     count c labels = #{i | labels i = c}  (= n_c). *)
From Coq Require Import List Arith ZArith QArith Reals.
From OPF Require Import Base.Lists Model.Measures Proofs.MeasuresR Proofs.MeasuresC20.
Import ListNotations.

(* the domain is inhabited by a 3-class example with acc = 241/360 and purity = 4/7 *)
Theorem c20_domain_nonvacuous :
  exists labels preds, c20_domain labels preds /\ n_class labels = 3%nat /\
    (opf_accuracy labels preds == 241 # 360)%Q /\ (purity labels preds == 4 # 7)%Q.
Proof. exact c20_domain_inhabited. Qed.

Theorem confusion_counts : forall labels preds : list nat,
  c20_domain labels preds ->
  let C := confusion_matrix labels preds in
  let K := n_class labels in
  length C = K /\
  (forall a, (a < K)%nat -> length (nth a C []) = K) /\
  (forall a b, (a < K)%nat -> (b < K)%nat -> get2 C a b = pair_count a b labels preds) /\
  list_sum (map (@list_sum) C) = length labels.
Proof. exact dom_confusion_counts. Qed.

Theorem accuracy_formula : forall labels preds : list nat,
  c20_domain labels preds ->
  (opf_accuracy labels preds ==
   1 - (1 / qn (2 * n_class labels)) *
       qsum (map (fun c => qn (FP c labels preds) / qn (length labels - count c labels)
                           + qn (FN c labels preds) / qn (count c labels))
                 (seq 0 (n_class labels))))%Q.
Proof. exact dom_accuracy_formula. Qed.

(* the denominators of the formula are positive on the domain (N - n_c = 0 only when K = 1) *)
Theorem accuracy_formula_denominators : forall (labels preds : list nat) (c : nat),
  c20_domain labels preds -> (c < n_class labels)%nat ->
  (0 < count c labels)%nat /\ ((1 < n_class labels)%nat -> (0 < length labels - count c labels)%nat).
Proof. exact dom_denominators. Qed.

Theorem accuracy_bounds : forall labels preds : list nat,
  c20_domain labels preds ->
  (0 <= opf_accuracy labels preds /\ opf_accuracy labels preds <= 1)%Q.
Proof. exact dom_accuracy_bounds. Qed.

Theorem accuracy_one_iff : forall labels preds : list nat,
  c20_domain labels preds ->
  ((opf_accuracy labels preds == 1)%Q <->
   forall i, (i < length labels)%nat -> nth i preds 0%nat = nth i labels 0%nat).
Proof. exact dom_accuracy_one_iff. Qed.

Theorem per_label_is_recall : forall labels preds : list nat,
  c20_domain labels preds ->
  exists r, opf_accuracy_per_label labels preds = Some r /\
            length r = n_class labels /\
            forall c, (c < n_class labels)%nat ->
              (nth c r 0 == qn (TP c labels preds) / qn (count c labels))%Q.
Proof. exact dom_per_label_is_recall. Qed.

Theorem purity_bounds : forall labels preds : list nat,
  c20_domain labels preds ->
  (0 < purity labels preds /\ purity labels preds <= 1)%Q.
Proof. exact dom_purity_bounds. Qed.

Theorem purity_one_iff : forall labels preds : list nat,
  c20_domain labels preds ->
  ((purity labels preds == 1)%Q <->
   forall i j, (i < length labels)%nat -> (j < length labels)%nat ->
               nth i preds 0%nat = nth j preds 0%nat -> nth i labels 0%nat = nth j labels 0%nat).
Proof. exact dom_purity_one_iff. Qed.

(* normalize over the reals: A is a rectangular matrix given as a list of rows *)
Theorem normalize_formula : forall (A : list (list R)) (i j : nat),
  rect A -> (i < length A)%nat -> (j < ncols A)%nat ->
  nth j (nth i (normalize ROps A) []) 0%R
  = ((nth j (nth i A []) 0 - Rmean (col 0 A j)) / Rstd (col 0 A j))%R.
Proof. exact normalize_formula. Qed.

Theorem normalize_column_facts : forall (A : list (list R)) (j : nat),
  rect A -> (j < ncols A)%nat -> nonconstant (col 0%R A j) ->
  (0 < Rstd (col 0 A j))%R /\
  Rmean (col 0%R (normalize ROps A) j) = 0%R /\
  Rsum (map (fun w => w * w)%R (col 0%R (normalize ROps A) j)) = INR (length A).
Proof. exact normalize_column_facts. Qed.

Theorem normalize_nonvacuous :
  exists (A : list (list R)) (j : nat), rect A /\ (j < ncols A)%nat /\ nonconstant (col 0%R A j).
Proof. exact normalize_nonvacuous. Qed.
