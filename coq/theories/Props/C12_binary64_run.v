(* C12, the link between the two float-level layers: the kernels of Model/Pdf.v RUN on Coq's primitive binary64
   floats ([FOps]: the interpretation evaluated by vm_compute and compared bit-for-bit with the Python
   implementation) REFINE the same kernels over the reals with the binary64 rounding [rnd64] (Model/Binary64.v:
   round-to-nearest-even, gradual underflow) after every `+ - * /` ([RndOps rnd64]).

   For finite exp-terms with values in [0, 1], k + 1 <= 2^53, a finite FLOAT_MAX >= 1 and a finite density bound
   whose double does not overflow: every float the FOps run returns is FINITE (no NaN, no infinity) and its real
   value is the corresponding component of the RndOps rnd64 run on the real values of the inputs.  Why nothing
   overflows: partial sums are bounded by the number of terms (integers up to 2^53 are binary64 numbers), unmapped
   values lie in [0, 1], so do min and max, max - min of distinct binary64 numbers does not round to 0
   (Flocq: round_plus_neq_0) and rnd64 t <= 2 t for t >= 0 (0 is a binary64 number), which bounds the scaled
   density by 1999.  Comparisons are exact on finite floats, so min/max and the flat-case test agree.

   [ffin] = PrimFloat.is_finite, [f2r] = real value (Model/Binary64.v); [pairfin p] = both components finite,
   [pair2r p] = (f2r (fst p), f2r (snd p)), [unit_term x] = finite with value in [0, 1] (Proofs/Binary64Pdf.v).
   Axioms: the standard library's FloatAxioms (specification of the primitives), through Flocq's IEEE754/PrimFloat.v.

   FROM rnd64 TO THE CLASS [rounding].  rnd64 is not in the class (it rounds 2^-1076 to 0), rnd64x (no underflow) is, and
   the theorems of Props/C12_binary64.v are about rnd64x.  The two roundings NEVER differ on a sum or difference of
   binary64 numbers, nor on an integer multiple of one ([C12_binary64_agree_ops]: a result below 2^-1022 is a multiple
   of 2^-1074, exact in both formats); they can differ only where a DIVISION has a non-zero exact quotient below
   2^-1022.  Hence [C12_binary64_agree_calculate_pdf]: calculate_pdf at RndOps rnd64 = calculate_pdf at RndOps rnd64x
   unless one of its 2 n + 1 divisions underflows ([normal64 t] := t = 0 \/ 2^-1022 <= |t|), and the capstone
   [C12_binary64_run_float_facts]: under the same condition the FLOATS returned by the PrimFloat run satisfy
   1 <= density <= 7994, 0 <= cost < density (as PrimFloat.ltb), and a strictly smaller density implies a strictly
   smaller unmapped value (as PrimFloat.ltb) -- the statements of Props/C12_binary64.v about the bit-exact run. *)
From Coq Require Import Reals List ZArith Floats.
From OPF Require Import Base.NumOps Base.NumOpsRnd Model.Pdf Proofs.PdfRndBase Model.Binary64 Proofs.Binary64Pdf
  Proofs.Binary64PdfExample Proofs.Binary64Agree Proofs.Binary64AgreeExample.
Import ListNotations.
Local Open Scope R_scope.

Theorem C12_binary64_run_defs :
  (forall p : PrimFloat.float * PrimFloat.float, pairfin p <-> ffin (fst p) = true /\ ffin (snd p) = true) /\
  (forall p : PrimFloat.float * PrimFloat.float, pair2r p = (f2r (fst p), f2r (snd p))) /\
  (forall x : PrimFloat.float, unit_term x <-> ffin x = true /\ 0 <= f2r x <= 1).
Proof.
  exact (conj (fun p => conj (fun H => H) (fun H => H)) (conj (fun p => eq_refl) (fun x => conj (fun H => H) (fun H => H)))).
Qed.

(* one unmapped value: (e_0 + ... + e_{k-1}) / (k + 1) *)
Theorem C12_binary64_run_pdf_value (k : nat) (e : nat -> PrimFloat.float) :
  (Z.of_nat (S k) <= 2 ^ 53)%Z ->
  (forall l, (l < k)%nat -> ffin (e l) = true /\ 0 <= f2r (e l) <= 1) ->
  (ffin (pdf_value FOps k e) = true /\
   f2r (pdf_value FOps k e) = pdf_value (RndOps rnd64) k (fun l => f2r (e l))) /\
  0 <= pdf_value (RndOps rnd64) k (fun l => f2r (e l)) <= 1.
Proof. exact (pdf_value_refines k e). Qed.

(* min / max: only comparisons, so any finite floats *)
Theorem C12_binary64_run_minmax (fmax : PrimFloat.float) (l : list PrimFloat.float) :
  ffin fmax = true -> Forall (fun v => ffin v = true) l ->
  ffin (fst (pdf_minmax FOps fmax l)) = true /\ ffin (snd (pdf_minmax FOps fmax l)) = true /\
  pdf_minmax (RndOps rnd64) (f2r fmax) (map f2r l)
  = (f2r (fst (pdf_minmax FOps fmax l)), f2r (snd (pdf_minmax FOps fmax l))).
Proof. exact (pdf_minmax_refines fmax l). Qed.

(* the affine map onto [1, MAX_DENSITY] and the initial costs *)
Theorem C12_binary64_run_scale (mn mx : PrimFloat.float) (l : list PrimFloat.float) :
  ffin mn = true -> ffin mx = true -> 0 <= f2r mn -> f2r mx <= 1 ->
  Forall (fun v => ffin v = true /\ f2r mn <= f2r v <= f2r mx) l ->
  Forall pairfin (pdf_scale FOps 1000 mn mx l) /\
  map pair2r (pdf_scale FOps 1000 mn mx l) = pdf_scale (RndOps rnd64) 1000 (f2r mn) (f2r mx) (map f2r l).
Proof. exact (pdf_scale_refines mn mx l). Qed.

(* the whole of calculate_pdf *)
Theorem C12_binary64_run_calculate_pdf (fmax gdens : PrimFloat.float) (n k : nat)
    (e : nat -> nat -> PrimFloat.float) (c mn mx : PrimFloat.float) (dc : list (PrimFloat.float * PrimFloat.float)) :
  ffin fmax = true -> 1 <= f2r fmax ->
  ffin gdens = true -> fits64 (2 * f2r gdens) ->
  (Z.of_nat (S k) <= 2 ^ 53)%Z ->
  (forall i l, (i < n)%nat -> (l < k)%nat -> ffin (e i l) = true /\ 0 <= f2r (e i l) <= 1) ->
  calculate_pdf FOps fmax 1000 n k gdens e = (c, mn, mx, dc) ->
  ffin c = true /\ ffin mn = true /\ ffin mx = true /\ Forall pairfin dc /\
  calculate_pdf (RndOps rnd64) (f2r fmax) 1000 n k (f2r gdens) (fun i l => f2r (e i l))
  = (f2r c, f2r mn, f2r mx, map pair2r dc).
Proof. exact (calculate_pdf_refines fmax gdens n k e c mn mx dc). Qed.

(* eliminate_maxima_height: one subtraction per sample, compared with 0 *)
Theorem C12_binary64_run_eliminate (h : PrimFloat.float) (dens cost : list PrimFloat.float) :
  ffin h = true ->
  Forall (fun d => ffin d = true) dens ->
  (forall d, In d dens -> fits64 (f2r d - f2r h)) ->
  Forall (fun d => ffin d = true) cost ->
  Forall (fun d => ffin d = true) (eliminate_maxima FOps h dens cost) /\
  map f2r (eliminate_maxima FOps h dens cost)
  = eliminate_maxima (RndOps rnd64) (f2r h) (map f2r dens) (map f2r cost).
Proof. exact (eliminate_refines h dens cost). Qed.

(* non-vacuity: FLOAT_MAX, density bound 4.5, two samples with the terms 0.25 and 0.75 (k = 1): the hypotheses hold,
   the FOps run is evaluated by the kernel's float unit, the RndOps rnd64 run follows from the theorem *)
Theorem C12_binary64_run_example :
  exf_fmax = 0x1.fffffffffffffp+1023%float /\
  (forall i l, exf_e i l = match i with 0%nat => 0.25%float | _ => 0.75%float end) /\
  ffin exf_fmax = true /\ 1 <= f2r exf_fmax /\ ffin 4.5%float = true /\ fits64 (2 * f2r 4.5%float) /\
  (Z.of_nat 2 <= 2 ^ 53)%Z /\
  (forall i l, (i < 2)%nat -> (l < 1)%nat -> ffin (exf_e i l) = true /\ 0 <= f2r (exf_e i l) <= 1) /\
  calculate_pdf FOps exf_fmax 1000 2 1 4.5%float exf_e
  = (1, 0.125, 0.375, [(1, 0); (1000, 999)])%float /\
  calculate_pdf (RndOps rnd64) (f2r exf_fmax) 1000 2 1 (f2r 4.5%float) (fun i l => f2r (exf_e i l))
  = (f2r 1%float, f2r 0.125%float, f2r 0.375%float,
     [(f2r 1%float, f2r 0%float); (f2r 1000%float, f2r 999%float)]) /\
  f2r 0.125%float = 1 / 8 /\ f2r 1000%float = 1000.
Proof. exact (conj eq_refl (conj (fun i l => eq_refl) exf_run)). Qed.

(* ---------- rnd64 versus rnd64x ---------- *)
Theorem C12_binary64_agree_defs :
  (forall t, fmt64 t <-> rnd64 t = t) /\ (forall t, agree64 t <-> rnd64 t = rnd64x t) /\
  (forall t, normal64 t <-> t = 0 \/ / 2 ^ 1022 <= Rabs t) /\
  fzz = (PrimFloat.zero, PrimFloat.zero) /\
  (forall (x : PrimFloat.float) t, fmt64 (f2r x) /\ fmt64 (rnd64 t)).
Proof.
  exact (conj (fun t => conj (fun H => H) (fun H => H)) (conj (fun t => conj (fun H => H) (fun H => H))
        (conj (fun t => conj (fun H => H) (fun H => H)) (conj eq_refl (fun x t => conj (fmt64_f2r x) (fmt64_rnd64 t)))))).
Qed.

Theorem C12_binary64_agree_ops :
  (forall t, normal64 t -> agree64 t) /\ (forall t, fmt64 t -> agree64 t) /\
  (forall a b, fmt64 a -> fmt64 b -> agree64 (a + b) /\ agree64 (a - b)) /\
  (forall z a, fmt64 a -> agree64 (IZR z * a)).
Proof.
  exact (conj agree64_normal (conj agree64_format
        (conj (fun a b Ha Hb => conj (agree64_add a b Ha Hb) (agree64_sub a b Ha Hb)) agree64_mulZ))).
Qed.

Theorem C12_binary64_agree_calculate_pdf (fmax : R) (n k : nat) (gdens : R) (e : nat -> nat -> R) :
  fmt64 fmax -> fmt64 gdens ->
  (forall i l, (i < n)%nat -> (l < k)%nat -> fmt64 (e i l)) ->
  agree64 (rnd64 (2 * gdens) / 9) ->
  (forall i, (i < n)%nat -> agree64 (PdfRndBase.rsum rnd64 (map (e i) (seq 0 k)) / IZR (Z.of_nat (S k)))) ->
  (forall c mn mx dc, calculate_pdf (RndOps rnd64) fmax 1000 n k gdens e = (c, mn, mx, dc) -> mn <> mx ->
     forall i, (i < n)%nat ->
       agree64 (rnd64 (999 * rnd64 (pdf_value (RndOps rnd64) k (e i) - mn)) / rnd64 (mx - mn))) ->
  calculate_pdf (RndOps rnd64) fmax 1000 n k gdens e = calculate_pdf (RndOps rnd64x) fmax 1000 n k gdens e.
Proof. exact (calculate_pdf_agree fmax n k gdens e). Qed.

(* the capstone: what holds of the floats returned by the PrimFloat run *)
Theorem C12_binary64_run_float_facts (fmax gdens : PrimFloat.float) (n k : nat) (e : nat -> nat -> PrimFloat.float)
    (c mn mx : PrimFloat.float) (dc : list (PrimFloat.float * PrimFloat.float)) :
  ffin fmax = true -> 1 <= f2r fmax ->
  ffin gdens = true -> fits64 (2 * f2r gdens) ->
  (Z.of_nat (S k) <= 2 ^ 53)%Z ->
  (forall i l, (i < n)%nat -> (l < k)%nat -> ffin (e i l) = true /\ 0 <= f2r (e i l) <= 1) ->
  calculate_pdf FOps fmax 1000 n k gdens e = (c, mn, mx, dc) ->
  (* no division underflows: 2 * gdens / 9; each sum / (k + 1); each scaled numerator / (max - min) *)
  normal64 (rnd64 (2 * f2r gdens) / 9) ->
  (forall i, (i < n)%nat ->
     normal64 (PdfRndBase.rsum rnd64 (map (fun l => f2r (e i l)) (seq 0 k)) / IZR (Z.of_nat (S k)))) ->
  (f2r mn <> f2r mx -> forall i, (i < n)%nat ->
     normal64 (rnd64 (999 * rnd64 (f2r (pdf_value FOps k (e i)) - f2r mn)) / rnd64 (f2r mx - f2r mn))) ->
  calculate_pdf (RndOps rnd64x) (f2r fmax) 1000 n k (f2r gdens) (fun i l => f2r (e i l))
  = (f2r c, f2r mn, f2r mx, map pair2r dc) /\
  length dc = n /\
  (forall i, (i < n)%nat ->
     f2r (pdf_value FOps k (e i)) = pdf_value (RndOps rnd64x) k (fun l => f2r (e i l))) /\
  ((1 <= n)%nat -> forall i, (i < n)%nat ->
     1 <= f2r (fst (nth i dc fzz)) <= 7994 /\ 0 <= f2r (snd (nth i dc fzz)) /\
     PrimFloat.ltb (snd (nth i dc fzz)) (fst (nth i dc fzz)) = true) /\
  ((1 <= n)%nat -> forall i j, (i < n)%nat -> (j < n)%nat ->
     PrimFloat.ltb (fst (nth i dc fzz)) (fst (nth j dc fzz)) = true ->
     PrimFloat.ltb (pdf_value FOps k (e i)) (pdf_value FOps k (e j)) = true).
Proof. exact (calculate_pdf_float_facts fmax gdens n k e c mn mx dc). Qed.

(* non-vacuity: the example run above has no underflowing division; the facts hold of the floats it returned *)
Theorem C12_binary64_run_float_facts_example :
  normal64 (rnd64 (2 * f2r 4.5%float) / 9) /\
  (forall i, (i < 2)%nat ->
     normal64 (PdfRndBase.rsum rnd64 (map (fun l => f2r (exf_e i l)) (seq 0 1)) / IZR (Z.of_nat 2))) /\
  (f2r 0.125%float <> f2r 0.375%float -> forall i, (i < 2)%nat ->
     normal64 (rnd64 (999 * rnd64 (f2r (pdf_value FOps 1 (exf_e i)) - f2r 0.125%float))
               / rnd64 (f2r 0.375%float - f2r 0.125%float))) /\
  (forall i, (i < 2)%nat ->
     1 <= f2r (fst (nth i [(1, 0); (1000, 999)]%float fzz)) <= 7994 /\
     0 <= f2r (snd (nth i [(1, 0); (1000, 999)]%float fzz)) /\
     PrimFloat.ltb (snd (nth i [(1, 0); (1000, 999)]%float fzz)) (fst (nth i [(1, 0); (1000, 999)]%float fzz)) = true).
Proof. exact exf_facts. Qed.
