(* C15 for an ARBITRARY weight type [W] whose comparison [ltb] is a strict total order
   (Base/TotalOrder.v).  Statements of Props/C15.v with  a <= b  written  ltb b a = false,
   a < b  written  ltb a b = true,  Z.max replaced by the model's own [wmax ltb] and [pathmax]
   by [pathmaxW ltb] (Base/TotalOrder.v).  Derived from the theorem at W := Z by the abstraction
   theorem of Proofs/ParamSup.v ([param_compete], in the form [rescale_compete_on]) and the rank
   embedding of Proofs/OrderEmbed.v (Proofs/Lift2Semi.v).  C15_semi_empty_is_supervised
   (Props/C15.v) already holds for every [W]. *)
From OPF Require Import Proofs.HeapPrelude Base.Lists Base.TotalOrder Model.Heap Model.Sup Spec.Paths.
From OPF Require Import Proofs.FitBase Proofs.FitExample Proofs.Lift2Semi.

Theorem C15_compete_semi_anyorder :
  forall (W : Type) (ltb : W -> W -> bool),
    strict_total_order ltb ->
    forall (zero top : W) (nl n : nat) (w : nat -> nat -> W) (nd0 : @nodes W),
    let isproto q := nth q (n_status nd0) false = true in
    ltb zero top = true ->
    (forall p q, (p < n)%nat -> (q < n)%nat -> p <> q ->
       ltb (w p q) zero = false /\ ltb (w p q) top = true) ->
    length (n_cost nd0) = n -> length (n_pred nd0) = n -> length (n_label nd0) = n ->
    length (n_plabel nd0) = n -> n_order nd0 = [] ->
    (exists s, (s < n)%nat /\ isproto s) ->
    let nd := compete ltb zero top true nl n w nd0 in
    let cost q := nth q (n_cost nd) zero in
    let pred q := nth q (n_pred nd) None in
    let plabel q := nth q (n_plabel nd) 0%nat in
    let label q := nth q (n_label nd) 0%nat in
    Permutation (n_order nd) (seq 0 n) /\
    (forall i j, (i < j)%nat -> (j < n)%nat ->
       ltb (cost (nth j (n_order nd) 0%nat)) (cost (nth i (n_order nd) 0%nat)) = false) /\
    (* prototypes are never re-conquered: cost zero, own original label kept *)
    (forall q, (q < n)%nat -> isproto q ->
       pred q = None /\ cost q = zero /\ plabel q = nth q (n_label nd0) 0%nat /\
       label q = nth q (n_label nd0) 0%nat) /\
    (forall q, (q < n)%nat -> ~ isproto q ->
       exists p, pred q = Some p /\ (p < n)%nat /\ p <> q /\
         cost q = wmax ltb (cost p) (w p q) /\ plabel q = plabel p /\ before (n_order nd) p q) /\
    (* every node is assigned the ORIGINAL label of the prototype at the root of its path;
       for an unlabeled node this also becomes its label *)
    (forall q, (q < n)%nat ->
       exists r k, (r < n)%nat /\ isproto r /\ reaches pred q r k /\ pred r = None /\
         (k < n)%nat /\ plabel q = nth r (n_label nd0) 0%nat /\
         ((nl <= q)%nat -> label q = nth r (n_label nd0) 0%nat)) /\
    (forall q s pi, (q < n)%nat -> (s < n)%nat -> isproto s -> path_from_to n s q pi ->
       ltb (pathmaxW ltb w zero pi) (cost q) = false) /\
    (forall q, (q < n)%nat -> exists s pi, (s < n)%nat /\ isproto s /\ path_from_to n s q pi /\
       pathmaxW ltb w zero pi = cost q) /\
    (* labeled nodes keep their original label *)
    (forall q, (q < n)%nat -> (q < nl)%nat -> label q = nth q (n_label nd0) 0%nat) /\
    n_status nd = n_status nd0.
Proof. exact (@compete_true_anyorder). Qed.

Theorem C15_semi_optimal_anyorder :
  forall (W : Type) (ltb : W -> W -> bool),
    strict_total_order ltb ->
    forall (zero top : W) (labels : list nat) (nu : nat) (w : nat -> nat -> W),
    let nl := length labels in
    let n := (nl + nu)%nat in
    let fp := find_prototypes ltb top nl w (nodes_init zero labels) in
    let isproto q := (q < nl)%nat /\ nth q (n_status fp) false = true in
    ltb zero top = true ->
    (forall p q, (p < n)%nat -> (q < n)%nat -> p <> q ->
       ltb (w p q) zero = false /\ ltb (w p q) top = true) ->
    (exists s, isproto s) ->
    let nd := semi_fit ltb zero top labels nu w in
    let cost q := nth q (n_cost nd) zero in
    let pred q := nth q (n_pred nd) None in
    let plabel q := nth q (n_plabel nd) 0%nat in
    let label q := nth q (n_label nd) 0%nat in
    (* every labeled and unlabeled sample is conquered, in non-decreasing cost *)
    Permutation (n_order nd) (seq 0 n) /\
    (forall i j, (i < j)%nat -> (j < n)%nat ->
       ltb (cost (nth j (n_order nd) 0%nat)) (cost (nth i (n_order nd) 0%nat)) = false) /\
    (forall q, isproto q ->
       pred q = None /\ cost q = zero /\ plabel q = nth q labels 0%nat /\
       label q = nth q labels 0%nat) /\
    (forall q, (q < n)%nat -> ~ isproto q ->
       exists p, pred q = Some p /\ (p < n)%nat /\ p <> q /\
         cost q = wmax ltb (cost p) (w p q) /\ plabel q = plabel p /\ before (n_order nd) p q) /\
    (* it is assigned the true label of the prototype at the root of its path; for an
       unlabeled sample this also becomes its label *)
    (forall q, (q < n)%nat ->
       exists r k, isproto r /\ reaches pred q r k /\ pred r = None /\ (k < n)%nat /\
         plabel q = nth r labels 0%nat /\ ((nl <= q)%nat -> label q = nth r labels 0%nat)) /\
    (* its cost is the optimum max-arc path cost from the prototypes through all samples *)
    (forall q s pi, (q < n)%nat -> isproto s -> path_from_to n s q pi ->
       ltb (pathmaxW ltb w zero pi) (cost q) = false) /\
    (forall q, (q < n)%nat -> exists s pi, isproto s /\ path_from_to n s q pi /\
       pathmaxW ltb w zero pi = cost q) /\
    (* labeled samples keep their true label *)
    (forall q, (q < nl)%nat -> label q = nth q labels 0%nat) /\
    n_status nd = n_status fp ++ repeat false nu.
Proof. exact (@semi_fit_anyorder). Qed.

(* non-vacuity at W := nat: the 3 labeled + 2 unlabeled samples of C15_example_premises, weights
   read as naturals *)
Theorem C15_anyorder_example_premises :
  strict_total_order Nat.ltb /\
  Nat.ltb 0 1000 = true /\
  (forall p q, (p < length ex2_labels + 2)%nat -> (q < length ex2_labels + 2)%nat -> p <> q ->
     Nat.ltb (ex2n_w p q) 0 = false /\ Nat.ltb (ex2n_w p q) 1000 = true) /\
  (exists s, (s < length ex2_labels)%nat /\
     nth s (n_status (find_prototypes Nat.ltb 1000%nat (length ex2_labels) ex2n_w
                        (nodes_init 0%nat ex2_labels))) false = true).
Proof. exact ex2n_premises. Qed.

Theorem C15_anyorder_example_result :
  semi_fit Nat.ltb 0%nat 1000%nat ex2_labels 2 ex2n_w =
  mkNodes [0; 0; 2; 2; 2]%nat [None; None; Some 0; Some 1; Some 2]%nat [0; 1; 0; 1; 0]%nat
          [0; 1; 0; 1; 0]%nat [true; true; false; false; false]
          [false; false; false; false; false] [0; 1; 2; 3; 4]%nat.
Proof. exact ex2n_semi_fit. Qed.
