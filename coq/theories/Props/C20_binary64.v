(* Props/C20_rounding.v at IEEE-754 binary64: rnd := rnd64x (round to nearest, ties to even, 53 bits, unbounded
   exponent range; Model/Binary64.v), u := u64 = 2^-53 (Proofs/RdepthWitness.v).  Every hypothesis on the rounding is
   discharged by the instance facts of Props/C06_binary64.v (rnd_rel u64, rnd 1 = 1, monotone, integers up to 2^53
   fixed); what remains are conditions on the DATA:
     - length labels = length preds (as many predictions as labels);
     - 2KN + K + 3 < 2^53 for "a wrong prediction gives accuracy < 1";  2K <= 2^53 for 0 <= accuracy <= 1.
   [accuracy_F (RndOps rnd64x)] is the model of Model/KnnLearn.v (numpy's pairwise np.sum for every K) on the reals
   rounded to binary64 after every operation; the integer-to-float conversions are exact (all counters <= N < 2^53).
   No underflow caveat applies in practice: every non-zero intermediate is at least about 1/(2KN).  (rnd64x versus the real format
   rnd64 with gradual underflow: they agree on |t| >= 2^-1022, [C06_binary64_rnd64_normal_range]; the refinement
   PrimFloat -> RndOps rnd64 for this kernel is not proved here - the C16/C17 correspondences run it bit-for-bit.)

   In numbers: K = 10 classes gives |A_fl - A| <= (1 + 2^-53)^14 - 1 < 1.6e-15. *)
From Coq Require Import Reals ZArith List Arith.
From OPF Require Model.Measures.
From OPF Require Import Model.MetricRdepth Model.KnnLearn Model.AccuracyRnd Model.Binary64 Proofs.RdepthWitness
     Proofs.AccuracyBinary64 Base.NumOpsRnd Base.NumOps.
Open Scope R_scope.

Theorem C20_binary64_error : forall labels preds : list nat, length labels = length preds ->
  Rabs (accuracy_F (RndOps rnd64x) labels preds - acc_exact labels preds)
    <= ((1 + u64) ^ (Measures.n_class labels + 4) - 1) * acc_x labels preds + u64 * acc_exact labels preds.
Proof. exact acc64_error. Qed.

Theorem C20_binary64_error_abs : forall labels preds : list nat, length labels = length preds ->
  Rabs (accuracy_F (RndOps rnd64x) labels preds - acc_exact labels preds)
    <= (1 + u64) ^ (Measures.n_class labels + 4) - 1.
Proof. exact acc64_error_abs. Qed.

Theorem C20_binary64_all_correct : forall labels : list nat,
  accuracy_F (RndOps rnd64x) labels labels = 1.
Proof. exact acc64_all_correct. Qed.

Theorem C20_binary64_wrong_lt_one : forall labels preds : list nat,
  length labels = length preds -> preds <> labels ->
  (Z.of_nat (2 * Measures.n_class labels * length labels + Measures.n_class labels + 3) < 2 ^ 53)%Z ->
  accuracy_F (RndOps rnd64x) labels preds < 1.
Proof. exact acc64_wrong. Qed.

Theorem C20_binary64_one_iff : forall labels preds : list nat,
  length labels = length preds ->
  (Z.of_nat (2 * Measures.n_class labels * length labels + Measures.n_class labels + 3) < 2 ^ 53)%Z ->
  (accuracy_F (RndOps rnd64x) labels preds = 1 <-> preds = labels).
Proof. exact acc64_one_iff. Qed.

Theorem C20_binary64_range : forall labels preds : list nat,
  length labels = length preds ->
  (Z.of_nat (2 * Measures.n_class labels) <= 2 ^ 53)%Z ->
  0 <= accuracy_F (RndOps rnd64x) labels preds <= 1.
Proof. exact acc64_range. Qed.

(* non-vacuity: the data hypotheses hold on the 2-class example of Props/C20_rounding.v, and the statements are not
   trivial there: one prediction is wrong, the exact value is 3/4 *)
Theorem C20_binary64_nonvacuous :
  length (0 :: 0 :: 1 :: 1 :: nil)%nat = length (0 :: 1 :: 1 :: 1 :: nil)%nat /\
  (0 :: 1 :: 1 :: 1 :: nil)%nat <> (0 :: 0 :: 1 :: 1 :: nil)%nat /\
  (Z.of_nat (2 * Measures.n_class (0 :: 0 :: 1 :: 1 :: nil)%nat * length (0 :: 0 :: 1 :: 1 :: nil)%nat
             + Measures.n_class (0 :: 0 :: 1 :: 1 :: nil)%nat + 3) < 2 ^ 53)%Z /\
  acc_exact (0 :: 0 :: 1 :: 1 :: nil)%nat (0 :: 1 :: 1 :: 1 :: nil)%nat = 3 / 4 /\
  accuracy_F (RndOps rnd64x) (0 :: 0 :: 1 :: 1 :: nil)%nat (0 :: 1 :: 1 :: 1 :: nil)%nat < 1 /\
  Rabs (accuracy_F (RndOps rnd64x) (0 :: 0 :: 1 :: 1 :: nil)%nat (0 :: 1 :: 1 :: 1 :: nil)%nat - 3 / 4)
    <= (1 + u64) ^ 6 - 1.
Proof. exact acc64_nonvacuous. Qed.
