(* C14: ONE prediction function.  A KNN prediction is spelled three times in the model:

     (a) Model/KnnPredict.knn_query / knn_query_batch      over any NumOps; the term of slot l is E(distances[l])
                                                           for a FUNCTION E (x |-> exp(-x/constant));
                                                           the R-theorems of Props/C14_pipeline.v and
                                                           Props/C09_pipeline.v are about this term at ROps
     (b) Model/RunKnn.run_knn_predict(_batch)              what the harness evaluates at PrimFloat for C14 / C09
                                                           against the real predict(): the terms come from a
                                                           TABLE of numpy's exp values, one entry per training
                                                           node, read as table[neighbours[l]] unless
                                                           distances[l] == FLOAT_MAX (then 0)
     (c) Model/KnnLearn.predict_step / predict_batch       over any NumOps, table form; the prediction used
                                                           inside the whole-fit model of Props/C16_fit.v

   They are the same function "under the obvious correspondence of arguments":

     table = E o distances      E(dq j) = table j  for every training node j < n whose distance is not
                                == FLOAT_MAX, and E sends (everything == ) FLOAT_MAX to 0, as
                                exp(-1.8e308/constant) does in binary64.

   - [C14_link_scan_slots] is the reason: after the (k+1)-slot insertion scan every slot holds either the
     initial FLOAT_MAX or the pair (dist j, j) of one training node j < n - for ANY comparison and ANY initial
     contents of the never-reset scratch array.  So table[neighbours[l]] is the table entry of distances[l].
   - (c) = (a) for every NumOps ([C14_link_predict_batch], [C14_link_predict_step]); over R with the real
     E x = exp(-x/c), for which E(FLOAT_MAX) = 0 is false, the sentinel clause is replaced by the data
     hypotheses of C14_pipeline (k <= n, distances < FLOAT_MAX): [C14_link_predict_batch_R],
     [C14_link_validation_predictions(_exp)] (the shape in which KnnLearn.sup_candidate calls it).
   - (b) = (a) at FOps ([C14_link_run_knn_predict_batch], [C14_link_run_knn_predict]; [..._lookup] takes for E
     the function the batch's own table denotes, leaving "the table is a function of the distance" as the
     only hypothesis), (b) = (c) with no hypothesis at all ([C14_link_run_is_predict_batch]).

   Hence: the term run bit-for-bit against the library at PrimFloat is [knn_query_batch] at FOps, the
   theorems of C14_pipeline / C09_pipeline are about [knn_query_batch] / [knn_query] at ROps - one definition,
   two interpretations (DESIGN.md 3.2), nothing in between.

   Nothing here uses a property of the comparison or of IEEE arithmetic: the NumOps statements are closed
   under the global context; the PrimFloat statements mention the primitive float operations (Print
   Assumptions lists the primitives; no specification lemma of Coq.Floats is used); the R statements use the
   standard reals axioms. *)
From Coq Require Import Reals List Arith ZArith PrimFloat.
From OPF Require Import Base.Lists Base.NumOps Model.Heap Model.Knn Model.Pdf Model.KnnFit Model.KnnPredict
  Model.KnnLearn Model.Run Model.RunKnn Model.KnnLink Proofs.KnnLink Proofs.KnnLinkReal Proofs.KnnLinkExample
  Proofs.KnnPipelineExample Proofs.KnnPredictPipelineExample.
Import ListNotations.
Local Open Scope nat_scope.

(* ---------- the scan, any weight type, no assumption on the comparison ---------- *)

Theorem C14_link_scan_slots :
  forall (W : Type) (ltb : W -> W -> bool) (top : W) (n : nat) (dist : nat -> W)
         (k : nat) (skip : option nat) (ns0 : list nat) (ds : list W) (ns : list nat),
    length ns0 = S k ->
    knn_scan ltb top k n dist skip ns0 = (ds, ns) ->
    length ds = S k /\ length ns = S k /\
    forall l, l < S k -> nth l ds top = top \/ (nth l ns 0 < n /\ nth l ds top = dist (nth l ns 0)).
Proof. exact (@knn_scan_slots). Qed.

(* ---------- (c) = (a), any NumOps ---------- *)

(* a whole predict call of the whole-fit model = the labels of knn_query_batch's answers *)
Theorem C14_link_predict_batch :
  forall (F : Type) (O : NumOps F) (fmax eps : F) (maxd : Z) (E : F -> F)
         (g : @knn F) (c mn mx : F) (k : nat) (qs : list ((nat -> F) * (nat -> F))),
    let n := length (k_label g) in
    neqb O fmax fmax = true ->
    (forall x, neqb O x fmax = true -> E x = fzero O) ->
    (forall q, In q qs -> forall j, j < n -> neqb O (fst q j) fmax = false -> E (fst q j) = snd q j) ->
    predict_batch O fmax eps maxd g k n mn mx qs
    = map (label_of g) (knn_query_batch O fmax eps maxd E (g, (c, mn, mx)) k (map fst qs)).
Proof.
  exact (fun F O fmax eps maxd E g c mn mx k qs H0 H1 H2 =>
           predict_batch_query O fmax eps maxd E g c mn mx k qs
             (fun q Hq => terms_agree_sentinel O fmax E k (length (k_label g)) q (conj H0 H1) (H2 q Hq))).
Qed.

(* one step, from ANY scratch array of the right length (the state threaded through a batch) *)
Theorem C14_link_predict_step :
  forall (F : Type) (O : NumOps F) (fmax eps : F) (maxd : Z) (E : F -> F)
         (g : @knn F) (k n : nat) (mn mx : F) (ns0 : list nat) (out : list (option nat))
         (q : (nat -> F) * (nat -> F)),
    neqb O fmax fmax = true ->
    (forall x, neqb O x fmax = true -> E x = fzero O) ->
    (forall j, j < n -> neqb O (fst q j) fmax = false -> E (fst q j) = snd q j) ->
    length ns0 = S k ->
    let st := knn_predict_step (nltb O) (fzero O) fmax (fbot O fmax) g k n
                               (query_densx O fmax eps maxd E mn mx k) (ns0, out) (fst q) in
    predict_step O fmax eps maxd g k n mn mx (ns0, map (label_of g) out) q
    = (fst st, map (label_of g) (snd st)).
Proof.
  exact (fun F O fmax eps maxd E g k n mn mx ns0 out q H0 H1 H2 L =>
           predict_step_query O fmax eps maxd E g k n mn mx ns0 out q
             (terms_agree_sentinel O fmax E k n q (conj H0 H1) H2) L).
Qed.

(* a batch of one query is the single-query term *)
Theorem C14_link_batch_of_one :
  forall (F : Type) (O : NumOps F) (fmax eps : F) (maxd : Z) (E : F -> F)
         (fit : @knn F * (F * F * F)) (k : nat) (dq : nat -> F),
    knn_query_batch O fmax eps maxd E fit k [dq] = [knn_query O fmax eps maxd E fit k dq].
Proof. exact (@knn_query_batch_one). Qed.

(* ---------- (c) = (a) over R, with the hypotheses of C14_pipeline instead of the sentinel clause ---------- *)

Theorem C14_link_predict_batch_R :
  forall (fmax eps : R) (E : R -> R) (g : @knn R) (c mn mx : R) (k : nat)
         (qs : list ((nat -> R) * (nat -> R))),
    let n := length (k_label g) in
    k <= n ->
    (forall q, In q qs -> forall j, j < n -> (fst q j < fmax)%R /\ snd q j = E (fst q j)) ->
    predict_batch ROps fmax eps 1000 g k n mn mx qs
    = map (fun q => label_of g (knn_query ROps fmax eps 1000 E (g, (c, mn, mx)) k (fst q))) qs.
Proof. exact predict_batch_query_R. Qed.

(* the call made by KnnLearn.sup_candidate: validation row v has distances [nth v dqs] and table [eqt v] *)
Theorem C14_link_validation_predictions :
  forall (fmax eps : R) (E : R -> R) (g : @knn R) (c mn mx : R) (k : nat)
         (dqs : list (nat -> R)) (eqt : nat -> nat -> R) (d0 : nat -> R),
    let n := length (k_label g) in
    k <= n ->
    (forall v j, v < length dqs -> j < n ->
       (nth v dqs d0 j < fmax)%R /\ eqt v j = E (nth v dqs d0 j)) ->
    predict_batch ROps fmax eps 1000 g k n mn mx (combine dqs (map eqt (seq 0 (length dqs))))
    = map (fun dq => label_of g (knn_query ROps fmax eps 1000 E (g, (c, mn, mx)) k dq)) dqs.
Proof. exact validation_predictions_R. Qed.

Theorem C14_link_validation_predictions_exp :
  forall (fmax eps : R) (g : @knn R) (c mn mx : R) (k : nat)
         (dqs : list (nat -> R)) (eqt : nat -> nat -> R) (d0 : nat -> R),
    let n := length (k_label g) in
    k <= n ->
    (forall v j, v < length dqs -> j < n ->
       (nth v dqs d0 j < fmax)%R /\ eqt v j = exp (- nth v dqs d0 j / c)) ->
    predict_batch ROps fmax eps 1000 g k n mn mx (combine dqs (map eqt (seq 0 (length dqs))))
    = map (fun dq => label_of g (knn_query ROps fmax eps 1000 (fun x => exp (- x / c)) (g, (c, mn, mx)) k dq)) dqs.
Proof. exact validation_predictions_exp. Qed.

(* ---------- (b) = (a): the harness entry points ARE knn_query(_batch) at FOps ---------- *)

(* [g] is any graph with the given cost array and n training nodes (the prediction reads nothing else);
   a query is (distances, exp terms), both lists over the training nodes *)
Theorem C14_link_run_knn_predict_batch :
  forall (E : float -> float) (k n : Z) (eps mn mx : float) (g : @knn float) (c : float)
         (qs : list (list float * list float)),
    length (k_label g) = zn n ->
    (forall x, PrimFloat.eqb x fmaxF = true -> E x = 0%float) ->
    (forall q, In q qs -> forall j, j < zn n ->
       PrimFloat.eqb (nth j (fst q) 0%float) fmaxF = false ->
       E (nth j (fst q) 0%float) = nth j (snd q) 0%float) ->
    run_knn_predict_batch k n eps mn mx (k_cost g) qs
    = map sel_code (knn_query_batch FOps fmaxF eps 1000 E (g, (c, mn, mx)) (zn k)
                                    (map (fun q j => nth j (fst q) 0%float) qs)).
Proof. exact run_batch_query. Qed.

Theorem C14_link_run_knn_predict :
  forall (E : float -> float) (k n skip : Z) (eps mn mx : float) (g : @knn float) (c : float)
         (d e : list float),
    (skip < 0)%Z ->
    length (k_label g) = zn n ->
    (forall x, PrimFloat.eqb x fmaxF = true -> E x = 0%float) ->
    (forall j, j < zn n ->
       PrimFloat.eqb (nth j d 0%float) fmaxF = false -> E (nth j d 0%float) = nth j e 0%float) ->
    run_knn_predict k n skip eps mn mx d e (k_cost g)
    = sel_code (knn_query FOps fmaxF eps 1000 E (g, (c, mn, mx)) (zn k) (fun j => nth j d 0%float)).
Proof. exact run_one_query. Qed.

(* E := the function the batch's own table denotes (first entry with an == distance; FLOAT_MAX |-> 0):
   the only hypothesis left is that the table is a function of the distance *)
Theorem C14_link_run_knn_predict_batch_lookup :
  forall (k n : Z) (eps mn mx : float) (g : @knn float) (c : float) (qs : list (list float * list float)),
    length (k_label g) = zn n ->
    (forall q, In q qs -> forall j, j < zn n ->
       PrimFloat.eqb (nth j (fst q) 0%float) fmaxF = false ->
       lookup_E (batch_table qs) (nth j (fst q) 0%float) = nth j (snd q) 0%float) ->
    run_knn_predict_batch k n eps mn mx (k_cost g) qs
    = map sel_code (knn_query_batch FOps fmaxF eps 1000 (lookup_E (batch_table qs)) (g, (c, mn, mx)) (zn k)
                                    (map (fun q j => nth j (fst q) 0%float) qs)).
Proof. exact run_batch_query_lookup. Qed.

(* ---------- (b) = (c), unconditionally ---------- *)

Theorem C14_link_run_is_predict_batch :
  forall (k n : Z) (eps mn mx : float) (g : @knn float) (qs : list (list float * list float)),
    predict_batch FOps fmaxF eps 1000 g (zn k) (zn n) mn mx
                  (map (fun q => (fun j => nth j (fst q) 0%float, fun j => nth j (snd q) 0%float)) qs)
    = map (fun z => label_of g (sel_decode z)) (run_knn_predict_batch k n eps mn mx (k_cost g) qs).
Proof. exact run_batch_predict_batch. Qed.

Theorem C14_link_sel_decode_code :
  forall o : option nat, sel_decode (sel_code o) = o.
Proof. exact sel_decode_code. Qed.

(* ---------- non-vacuity ---------- *)

(* PrimFloat: two queries over three training nodes in the harness's case format; a repeated distance, a
   distance equal to FLOAT_MAX; k = 2 and k = 4 > n (sentinel slots survive the scan) *)
Theorem C14_link_example_float_data :
  fl_cost = [3.5; 2.5; 7.5]%float /\ fl_mn = 0.125%float /\ fl_mx = 0.75%float /\
  fl_qs = [([0.5; 0.25; 1.5], [0.5; 0.75; 0.125]); ([1.5; fmaxF; 0.25], [0.125; 0; 0.75])]%float /\
  k_label fl_g = [0; 1; 0] /\ k_plabel fl_g = [0; 1; 0].
Proof. exact (conj eq_refl (conj eq_refl (conj eq_refl (conj eq_refl (conj eq_refl eq_refl))))). Qed.

Theorem C14_link_example_float_premises :
  length (k_label fl_g) = zn 3 /\ k_cost fl_g = fl_cost /\
  (forall x, PrimFloat.eqb x fmaxF = true -> lookup_E (batch_table fl_qs) x = 0%float) /\
  (forall q, In q fl_qs -> forall j, j < zn 3 ->
     PrimFloat.eqb (nth j (fst q) 0%float) fmaxF = false ->
     lookup_E (batch_table fl_qs) (nth j (fst q) 0%float) = nth j (snd q) 0%float).
Proof. exact fl_premises. Qed.

Theorem C14_link_example_float_k2 :
  run_knn_predict_batch 2 3 fl_eps fl_mn fl_mx fl_cost fl_qs
  = map sel_code (knn_query_batch FOps fmaxF fl_eps 1000 (lookup_E (batch_table fl_qs))
                                  (fl_g, (0%float, fl_mn, fl_mx)) 2 (map fq_dist fl_qs)) /\
  run_knn_predict_batch 2 3 fl_eps fl_mn fl_mx fl_cost fl_qs = [0; 2]%Z /\
  predict_batch FOps fmaxF fl_eps 1000 fl_g 2 3 fl_mn fl_mx (map fq_fun fl_qs) = [0; 0].
Proof. exact fl_link_k2. Qed.

Theorem C14_link_example_float_k4 :
  run_knn_predict_batch 4 3 fl_eps fl_mn fl_mx fl_cost fl_qs
  = map sel_code (knn_query_batch FOps fmaxF fl_eps 1000 (lookup_E (batch_table fl_qs))
                                  (fl_g, (0%float, fl_mn, fl_mx)) 4 (map fq_dist fl_qs)) /\
  run_knn_predict_batch 4 3 fl_eps fl_mn fl_mx fl_cost fl_qs = [2; 2]%Z.
Proof. exact fl_link_k4. Qed.

Theorem C14_link_example_float_one :
  run_knn_predict 2 3 (-1) fl_eps fl_mn fl_mx [0.5; 0.25; 1.5]%float [0.5; 0.75; 0.125]%float fl_cost
  = sel_code (knn_query FOps fmaxF fl_eps 1000 (lookup_E (batch_table fl_qs)) (fl_g, (0%float, fl_mn, fl_mx)) 2
                        (fun j => nth j [0.5; 0.25; 1.5]%float 0%float)) /\
  run_knn_predict 2 3 (-1) fl_eps fl_mn fl_mx [0.5; 0.25; 1.5]%float [0.5; 0.75; 0.125]%float fl_cost = 0%Z.
Proof. exact fl_link_one. Qed.

(* Reals: on the graph fitted from the three rational samples of C13_pipeline_example_data (k = 1), the
   whole-fit model's validation prediction for two validation rows at the distances of
   C14_pipeline_example_data, tables = exq_E o distances: both get label 0, the label of knn_query's answer *)
Theorem C14_link_example_validation :
  exists (g' : @knn R) (c mn mx : R),
    knn_sup_final ROps exq_fmax (1/100000)%R 1%R 1000 1 exr_labels 0%R exr_d exr_e = (g', (c, mn, mx)) /\
    1 <= length (k_label g') /\
    (forall v j, v < length exl_dqs -> j < length (k_label g') ->
       (nth v exl_dqs exq_dq j < exq_fmax)%R /\ exl_eqt v j = exq_E (nth v exl_dqs exq_dq j)) /\
    predict_batch ROps exq_fmax exq_eps 1000 g' 1 (length (k_label g')) mn mx
                  (combine exl_dqs (map exl_eqt (seq 0 (length exl_dqs))))
    = [0; 0].
Proof. exact exl_validation. Qed.
