(* C12 (arithmetic half): "Density estimation takes for each sample the sum of exp(-d/constant)
   over its k neighbours divided by k+1, maps these values affinely onto [1, MAX_DENSITY]
   preserving order (minimum to 1, maximum to MAX_DENSITY, all equal to MAX_DENSITY), sets each
   sample's initial cost to its density minus 1, and records the constant (2/9 of the density
   bound) and the minimum and maximum of the unmapped values, which later predictions use;
   eliminating maxima below a positive height h resets each cost to max(density - h, 0) and a
   non-positive h changes nothing."
   All statements are about Model/Pdf.v instantiated at [ROps] (Coq reals), MAX_DENSITY = 1000;
   [fmax] is c.FLOAT_MAX, [e i l] the term exp(-distance/constant) of node i and neighbour rank l. *)
From Coq Require Import Reals List ZArith.
From OPF Require Import Base.NumOps Model.Pdf Proofs.PdfBase Proofs.PdfReal Proofs.PdfMain.
Import ListNotations.
Local Open Scope R_scope.

Theorem C12_comparisons_reflect (a b : R) :
  (Rltb a b = true <-> a < b) /\ (Reqb a b = true <-> a = b).
Proof. exact (conj (Rltb_true_iff a b) (Reqb_true_iff a b)). Qed.

Theorem C12_fsum (e : nat -> R) (k : nat) :
  fsum ROps (map e (seq 0 k)) = Rsum_upto k e.
Proof. exact (fsum_ROps_seq e k). Qed.

Theorem C12_pdf_constant_spec (fmax : R) (n k : nat) (gdens : R) (e : nat -> nat -> R)
    (c mn mx : R) (dc : list (R * R)) :
  calculate_pdf ROps fmax 1000 n k gdens e = (c, mn, mx, dc) ->
  c = 2 * gdens / 9.
Proof. exact (pdf_constant_spec fmax n k gdens e c mn mx dc). Qed.

Theorem C12_pdf_value_spec (k : nat) (e : nat -> R) :
  pdf_value ROps k e = Rsum_upto k e / INR (k + 1).
Proof. exact (pdf_value_spec k e). Qed.

Theorem C12_pdf_formula (k : nat) (c : R) (d : nat -> R) :
  pdf_value ROps k (fun l => exp (- d l / c)) =
  Rsum_upto k (fun l => exp (- d l / c)) / INR (k + 1).
Proof. exact (pdf_formula k c d). Qed.

(* with exponential terms the FLOAT_MAX hypothesis below holds for every fmax >= 1 *)
Theorem C12_pdf_exp_bounds (k : nat) (c : R) (d : nat -> R) :
  (1 <= k)%nat -> 0 < c -> (forall l, (l < k)%nat -> 0 <= d l) ->
  0 < Rsum_upto k (fun l => exp (- d l / c)) / INR (k + 1) < 1.
Proof. exact (fun Hk Hc Hd => conj (pdf_exp_pos k c d Hk) (pdf_exp_lt_1 k c d Hc Hd)). Qed.

Theorem C12_pdf_minmax_spec (fmax : R) (n k : nat) (gdens : R) (e : nat -> nat -> R)
    (c mn mx : R) (dc : list (R * R)) :
  (1 <= n)%nat ->
  calculate_pdf ROps fmax 1000 n k gdens e = (c, mn, mx, dc) ->
  (forall i, (i < n)%nat -> - fmax <= Rsum_upto k (e i) / INR (k + 1) <= fmax) ->
  (exists i, (i < n)%nat /\ mn = Rsum_upto k (e i) / INR (k + 1)) /\
  (forall i, (i < n)%nat -> mn <= Rsum_upto k (e i) / INR (k + 1)) /\
  (exists i, (i < n)%nat /\ mx = Rsum_upto k (e i) / INR (k + 1)) /\
  (forall i, (i < n)%nat -> Rsum_upto k (e i) / INR (k + 1) <= mx).
Proof. exact (pdf_minmax_spec fmax n k gdens e c mn mx dc). Qed.

Theorem C12_density_affine (fmax : R) (n k : nat) (gdens : R) (e : nat -> nat -> R)
    (c mn mx : R) (dc : list (R * R)) :
  calculate_pdf ROps fmax 1000 n k gdens e = (c, mn, mx, dc) ->
  forall i, mn < mx -> (i < n)%nat ->
  fst (nth i dc (0, 0)) = 1 + (1000 - 1) * (Rsum_upto k (e i) / INR (k + 1) - mn) / (mx - mn) /\
  snd (nth i dc (0, 0)) = fst (nth i dc (0, 0)) - 1.
Proof. exact (density_affine fmax n k gdens e c mn mx dc). Qed.

Theorem C12_density_strict_mono (fmax : R) (n k : nat) (gdens : R) (e : nat -> nat -> R)
    (c mn mx : R) (dc : list (R * R)) :
  calculate_pdf ROps fmax 1000 n k gdens e = (c, mn, mx, dc) ->
  forall i j, mn < mx -> (i < n)%nat -> (j < n)%nat ->
  Rsum_upto k (e i) / INR (k + 1) < Rsum_upto k (e j) / INR (k + 1) ->
  fst (nth i dc (0, 0)) < fst (nth j dc (0, 0)).
Proof. exact (density_strict_mono fmax n k gdens e c mn mx dc). Qed.

Theorem C12_cost_lt_density (fmax : R) (n k : nat) (gdens : R) (e : nat -> nat -> R)
    (c mn mx : R) (dc : list (R * R)) :
  calculate_pdf ROps fmax 1000 n k gdens e = (c, mn, mx, dc) ->
  forall i, (i < n)%nat -> snd (nth i dc (0, 0)) < fst (nth i dc (0, 0)).
Proof. exact (cost_lt_density fmax n k gdens e c mn mx dc). Qed.

(* everything about calculate_pdf in one statement *)
Theorem C12_calculate_pdf (fmax : R) (n k : nat) (gdens : R) (e : nat -> nat -> R)
    (c mn mx : R) (dc : list (R * R)) :
  (1 <= n)%nat ->
  (forall i, (i < n)%nat -> - fmax <= Rsum_upto k (e i) / INR (k + 1) <= fmax) ->
  calculate_pdf ROps fmax 1000 n k gdens e = (c, mn, mx, dc) ->
  let pdf := fun i => Rsum_upto k (e i) / INR (k + 1) in
  let dens := fun i => fst (nth i dc (0, 0)) in
  let cost := fun i => snd (nth i dc (0, 0)) in
  c = 2 * gdens / 9 /\
  (forall i, pdf_value ROps k (e i) = pdf i) /\
  length dc = n /\
  (exists i, (i < n)%nat /\ mn = pdf i) /\ (forall i, (i < n)%nat -> mn <= pdf i) /\
  (exists i, (i < n)%nat /\ mx = pdf i) /\ (forall i, (i < n)%nat -> pdf i <= mx) /\
  mn <= mx /\
  (mn = mx <-> forall i j, (i < n)%nat -> (j < n)%nat -> pdf i = pdf j) /\
  (mn < mx -> forall i, (i < n)%nat ->
     dens i = 1 + (1000 - 1) * (pdf i - mn) / (mx - mn) /\
     (pdf i = mn -> dens i = 1) /\ (pdf i = mx -> dens i = 1000)) /\
  (mn < mx -> forall i j, (i < n)%nat -> (j < n)%nat ->
     (dens i < dens j <-> pdf i < pdf j) /\
     (dens i = dens j <-> pdf i = pdf j) /\
     (dens i <= dens j <-> pdf i <= pdf j)) /\
  (mn = mx -> forall i, (i < n)%nat -> dens i = 1000 /\ cost i = 999) /\
  (forall i, (i < n)%nat -> 1 <= dens i <= 1000 /\ cost i = dens i - 1 /\ cost i < dens i).
Proof. exact (calculate_pdf_summary fmax n k gdens e c mn mx dc). Qed.

Theorem C12_eliminate_spec (h : R) (dens cost : list R) :
  (0 < h -> eliminate_maxima ROps h dens cost = map (fun d => Rmax (d - h) 0) dens) /\
  (h <= 0 -> eliminate_maxima ROps h dens cost = cost).
Proof. exact (eliminate_spec h dens cost). Qed.

(* calculate_pdf followed by eliminate_maxima_height: costs stay in [0, density) *)
Theorem C12_fit_eliminate (fmax : R) (n k : nat) (gdens : R) (e : nat -> nat -> R)
    (c mn mx : R) (dc : list (R * R)) (h : R) (i : nat) :
  (1 <= n)%nat ->
  calculate_pdf ROps fmax 1000 n k gdens e = (c, mn, mx, dc) ->
  (i < n)%nat ->
  let dens := map fst dc in
  let cost := map snd dc in
  let cost' := eliminate_maxima ROps h dens cost in
  nth i dens 0 = fst (nth i dc (0, 0)) /\
  (0 < h -> nth i cost' 0 = Rmax (nth i dens 0 - h) 0 /\ 0 <= nth i cost' 0 < nth i dens 0) /\
  (h <= 0 -> nth i cost' 0 = nth i dens 0 - 1 /\ 0 <= nth i cost' 0 < nth i dens 0).
Proof. exact (fit_eliminate_spec fmax n k gdens e c mn mx dc h i). Qed.
