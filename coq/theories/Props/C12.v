From OPF Require Import Model.Knn Model.Pdf.
