(* C13 end to end at IEEE-754 binary64: the final training stage of KNNSupervisedOPF.fit / UnsupervisedOPF.fit

       destroy_arcs; create_arcs(best_k); calculate_pdf(best_k); _clustering(...)

   as the single terms [knn_sup_final] / [unsup_final] of Model/KnnFit.v at [RndOps rnd64x] (reals with the binary64
   round-to-nearest-even rounding, no underflow, after every `+ - * /`; exact comparisons), i.e. the theorems of
   Props/C13_rounding.v with the five hypotheses on the rounding function

       rounding rnd, rnd 1 = 1, rnd_idem rnd, rnd x <= 2 x on x >= 0, forall t in [1, 7994], rnd t = t -> rnd (t - 1) < t

   DISCHARGED for rnd64x ([C13_binary64_rounding_hyps]; Proofs/Binary64.v from Flocq).  The statements carry
   hypotheses on the data only: FLOAT_MAX > 0, off-diagonal distances in [0, FLOAT_MAX), (unsupervised) k <= n - 1.
   Conclusions are those of Props/C13_rounding.v verbatim: labels, conquest order, links, unique roots, cluster
   identifiers, cost q = Rmin (cost p) (dens q), dens q - 1 < cost q, dens q < dens r + 1, 1 <= dens q <= 7994, the
   density map as the rounded expression tree with weak monotonicity. *)
From Coq Require Import Reals List Permutation ZArith.
From OPF Require Import Base.Lists Base.NumOps Base.NumOpsRnd Base.TotalOrder Model.Heap Model.Knn Model.Pdf
  Model.KnnFit Model.MetricRnd Spec.Paths Spec.Trees Proofs.PdfBase Proofs.KnnPipelineExample
  Proofs.PdfRndBase Proofs.PdfRndExample Proofs.PdfRndPipeline Proofs.PdfRndPipelineExample
  Model.Binary64 Proofs.Binary64 Proofs.Binary64Knn.
Import ListNotations.
Local Open Scope R_scope.

(* every hypothesis of Props/C13_rounding.v on the rounding function, for binary64 *)
Theorem C13_binary64_rounding_hyps :
  rounding rnd64x /\ rnd64x 1 = 1 /\ rnd_idem rnd64x /\ (forall x, 0 <= x -> rnd64x x <= 2 * x) /\
  (forall t, 1 <= t <= 7994 -> rnd64x t = t -> rnd64x (t - 1) < t).
Proof. exact rnd64x_pipeline_hyps. Qed.

(* create_arcs only compares: the binary64-level run builds the same arcs as the exact run *)
Theorem C13_binary64_same_arcs (fmax thr one : R) (k : nat) (labels : list nat) (gdens0 : R)
    (d e : nat -> nat -> R) (g2 : @knn R) (c mn mx : R) :
  arcs_and_pdf (RndOps rnd64x) fmax thr one 1000 k d e (fit_start (RndOps rnd64x) labels gdens0) = (g2, (c, mn, mx)) ->
  exists g2R cR mnR mxR dc,
    arcs_and_pdf ROps fmax thr one 1000 k d e (fit_start ROps labels gdens0) = (g2R, (cR, mnR, mxR)) /\
    calculate_pdf (RndOps rnd64x) fmax 1000 (length labels) k (k_gdens g2R)
                  (fun i l => e i (nth l (nth i (k_adj g2R) []) 0%nat)) = (c, mn, mx, dc) /\
    k_label g2 = k_label g2R /\ k_adj g2 = k_adj g2R /\ k_nplat g2 = k_nplat g2R /\
    k_pred g2 = k_pred g2R /\ k_root g2 = k_root g2R /\ k_plabel g2 = k_plabel g2R /\
    k_clabel g2 = k_clabel g2R /\ k_order g2 = k_order g2R /\
    k_dens g2 = map fst dc /\ k_cost g2 = map snd dc.
Proof. exact (b64_same_arcs fmax thr one k labels gdens0 d e g2 c mn mx). Qed.

Theorem C13_binary64_knn_sup_final_forest :
  forall (fmax thr one gdens0 : R) (k : nat) (labels : list nat) (d e : nat -> nat -> R),
    let n := length labels in
    0 < fmax ->
    (forall i j, (i < n)%nat -> (j < n)%nat -> i <> j -> 0 <= d i j < fmax) ->
    forall (g' : @knn R) (c mn mx : R),
    knn_sup_final (RndOps rnd64x) fmax thr one 1000 k labels gdens0 d e = (g', (c, mn, mx)) ->
    let pred := fun q => nth q (k_pred g') None in
    let root := fun q => nth q (k_root g') 0%nat in
    let cost := fun q => nth q (k_cost g') 0 in
    let dens := fun q => nth q (k_dens g') 0 in
    let plabel := fun q => nth q (k_plabel g') 0%nat in
    let label := fun q => nth q labels 0%nat in
    let adj := fun q => nth q (k_adj g') [] in
    k_label g' = labels /\
    Permutation (k_order g') (seq 0 n) /\
    (forall q, (q < n)%nat -> 1 <= dens q <= 7994) /\
    (exists adj0 : list (list nat),
       (length adj0 = n /\
        (forall i, (i < n)%nat ->
           let a := nth i adj0 [] in
           length a = Nat.min k (n - 1) /\ NoDup a /\ ~ In i a /\ (forall j, In j a -> (j < n)%nat) /\
           (forall x y, (x <= y)%nat -> (y < length a)%nat -> d i (nth x a 0%nat) <= d i (nth y a 0%nat)) /\
           (forall j, (j < n)%nat -> j <> i -> ~ In j a -> forall x, In x a -> d i x <= d i j)) /\
        let p := fun i => pdf_value (RndOps rnd64x) k (fun l => e i (nth l (nth i adj0 []) 0%nat)) in
        (forall i, (i < n)%nat -> mn <= p i <= mx) /\
        (mn = mx -> forall i, (i < n)%nat -> dens i = 1000) /\
        (mn <> mx -> forall i, (i < n)%nat ->
           dens i = rnd64x (rnd64x (rnd64x (999 * rnd64x (p i - mn)) / rnd64x (mx - mn)) + 1)) /\
        (forall i j, (i < n)%nat -> (j < n)%nat ->
           (p i <= p j -> dens i <= dens j) /\ (dens i < dens j -> p i < p j)) /\
        (mn <> mx -> forall i, (i < n)%nat -> p i = mn -> dens i = 1) /\
        ((1 <= n)%nat -> 0 <= fmax ->
         (forall i j, (i < n)%nat -> (j < n)%nat -> 0 <= e i j) ->
         (forall i, (i < n)%nat -> p i <= fmax) ->
         (exists i, (i < n)%nat /\ mn = p i) /\ (exists i, (i < n)%nat /\ mx = p i) /\ 0 <= mn /\ mn <= mx)) /\
       k_adj g' = plateau_sup Rltb 0 n (k_dens g') adj0) /\
    (forall q, (q < n)%nat ->
       match pred q with
       | None => root q = q /\ cost q = dens q /\ plabel q = label q
       | Some p => (p < n)%nat /\ before (k_order g') p q /\ In q (adj p) /\
                   root q = root p /\ cost q = Rmin (cost p) (dens q) /\
                   dens q - 1 < cost q /\ plabel q = plabel p /\ label p = label q
       end) /\
    (forall q, (q < n)%nat ->
       exists r j, (j < n)%nat /\ (r < n)%nat /\ reaches pred q r j /\ pred r = None /\
         (forall r', root_of pred q r' -> r' = r) /\
         root q = r /\ dens q - 1 < cost q /\ cost q <= cost r /\ cost r = dens r /\
         dens q < dens r + 1 /\
         plabel q = label r /\ label q = label r) /\
    (forall q, (q < n)%nat -> plabel q = label q).
Proof. exact b64_knn_sup_final_forest. Qed.

Theorem C13_binary64_unsup_final_forest :
  forall (fmax thr one gdens0 : R) (k : nat) (labels : list nat) (d e : nat -> nat -> R),
    let n := length labels in
    (k <= n - 1)%nat ->
    0 < fmax ->
    (forall i j, (i < n)%nat -> (j < n)%nat -> i <> j -> 0 <= d i j < fmax) ->
    forall (g' : @knn R) (c mn mx : R),
    unsup_final (RndOps rnd64x) fmax thr one 1000 k labels gdens0 d e = (g', (c, mn, mx)) ->
    let pred := fun q => nth q (k_pred g') None in
    let root := fun q => nth q (k_root g') 0%nat in
    let cost := fun q => nth q (k_cost g') 0 in
    let dens := fun q => nth q (k_dens g') 0 in
    let clabel := fun q => nth q (k_clabel g') 0%nat in
    let adj := fun q => nth q (k_adj g') [] in
    let nplat := fun q => nth q (k_nplat g') 0%nat in
    let isroot := fun q => match pred q with None => true | Some _ => false end in
    k_label g' = labels /\
    Permutation (k_order g') (seq 0 n) /\
    (forall q, (q < n)%nat -> 1 <= dens q <= 7994) /\
    (exists adj0 : list (list nat),
       (length adj0 = n /\
        (forall i, (i < n)%nat ->
           let a := nth i adj0 [] in
           length a = Nat.min k (n - 1) /\ NoDup a /\ ~ In i a /\ (forall j, In j a -> (j < n)%nat) /\
           (forall x y, (x <= y)%nat -> (y < length a)%nat -> d i (nth x a 0%nat) <= d i (nth y a 0%nat)) /\
           (forall j, (j < n)%nat -> j <> i -> ~ In j a -> forall x, In x a -> d i x <= d i j)) /\
        let p := fun i => pdf_value (RndOps rnd64x) k (fun l => e i (nth l (nth i adj0 []) 0%nat)) in
        (forall i, (i < n)%nat -> mn <= p i <= mx) /\
        (mn = mx -> forall i, (i < n)%nat -> dens i = 1000) /\
        (mn <> mx -> forall i, (i < n)%nat ->
           dens i = rnd64x (rnd64x (rnd64x (999 * rnd64x (p i - mn)) / rnd64x (mx - mn)) + 1)) /\
        (forall i j, (i < n)%nat -> (j < n)%nat ->
           (p i <= p j -> dens i <= dens j) /\ (dens i < dens j -> p i < p j)) /\
        (mn <> mx -> forall i, (i < n)%nat -> p i = mn -> dens i = 1) /\
        ((1 <= n)%nat -> 0 <= fmax ->
         (forall i j, (i < n)%nat -> (j < n)%nat -> 0 <= e i j) ->
         (forall i, (i < n)%nat -> p i <= fmax) ->
         (exists i, (i < n)%nat /\ mn = p i) /\ (exists i, (i < n)%nat /\ mx = p i) /\ 0 <= mn /\ mn <= mx)) /\
       (forall i, (i < n)%nat -> length (nth i adj0 []) = k) /\
       (k_adj g', k_nplat g') = plateau_unsup Rltb 0 k n (k_dens g') adj0 (repeat 0%nat n)) /\
    (forall q, (q < n)%nat ->
       match pred q with
       | None => root q = q /\ cost q = dens q
       | Some p => (p < n)%nat /\ before (k_order g') p q /\ In q (firstn (nplat p + k) (adj p)) /\
                   root q = root p /\ cost q = Rmin (cost p) (dens q) /\
                   dens q - 1 < cost q /\ clabel q = clabel p
       end) /\
    (forall q, (q < n)%nat ->
       exists r j, (j < n)%nat /\ (r < n)%nat /\ reaches pred q r j /\ pred r = None /\
         (forall r', root_of pred q r' -> r' = r) /\
         root q = r /\ dens q - 1 < cost q /\ cost q <= cost r /\ cost r = dens r /\
         dens q < dens r + 1 /\
         clabel q = clabel r) /\
    k_nclusters g' = length (filter isroot (seq 0 n)) /\
    length (filter isroot (k_order g')) = k_nclusters g' /\
    (forall i, (i < k_nclusters g')%nat -> clabel (nth i (filter isroot (k_order g')) 0%nat) = i) /\
    (forall r, (r < n)%nat -> pred r = None -> (clabel r < k_nclusters g')%nat) /\
    (forall r r', (r < n)%nat -> (r' < n)%nat -> pred r = None -> pred r' = None ->
       clabel r = clabel r' -> r = r') /\
    (forall i, (i < k_nclusters g')%nat -> exists r, (r < n)%nat /\ pred r = None /\ clabel r = i) /\
    (forall q, (q < n)%nat -> (clabel q < k_nclusters g')%nat).
Proof. exact b64_unsup_final_forest. Qed.

(* ---------- non-vacuity: the three-sample data of Props/C13_pipeline.v (labels [0; 0; 1], distances 1/2, 1, 3/2,
   terms 1/4 .. 1) satisfy the hypotheses; the conclusions are obtained from the theorems ---------- *)

Theorem C13_binary64_example_sup :
  exists (g' : @knn R) (c mn mx : R),
    knn_sup_final (RndOps rnd64x) 10 (1/100000) 1 1000 1 exr_labels 0 exr_d exr_e = (g', (c, mn, mx)) /\
    Permutation (k_order g') [0; 1; 2]%nat /\
    (forall q, (q < 3)%nat -> nth q (k_plabel g') 0%nat = nth q exr_labels 0%nat) /\
    (forall q, (q < 3)%nat -> 1 <= nth q (k_dens g') 0 <= 7994) /\
    (forall q, (q < 3)%nat ->
       exists r, (r < 3)%nat /\ nth r (k_pred g') None = None /\ nth q (k_root g') 0%nat = r /\
         nth q (k_dens g') 0 - 1 < nth q (k_cost g') 0 /\
         nth q (k_dens g') 0 < nth r (k_dens g') 0 + 1 /\
         nth q exr_labels 0%nat = nth r exr_labels 0%nat).
Proof. exact exr_sup_b64. Qed.

Theorem C13_binary64_example_unsup :
  exists (g' : @knn R) (c mn mx : R),
    unsup_final (RndOps rnd64x) 10 (1/100000) 1 1000 1 exr_labels 0 exr_d exr_e = (g', (c, mn, mx)) /\
    Permutation (k_order g') [0; 1; 2]%nat /\
    (forall q, (q < 3)%nat -> (nth q (k_clabel g') 0 < k_nclusters g')%nat) /\
    (forall q, (q < 3)%nat ->
       exists r, (r < 3)%nat /\ nth r (k_pred g') None = None /\ nth q (k_root g') 0%nat = r /\
         nth q (k_dens g') 0 - 1 < nth q (k_cost g') 0 /\
         nth q (k_dens g') 0 < nth r (k_dens g') 0 + 1 /\
         nth q (k_clabel g') 0%nat = nth r (k_clabel g') 0%nat).
Proof. exact exr_unsup_b64. Qed.
