From OPF Require Import Proofs.HeapPrelude Base.Lists Model.Heap Model.Sup Spec.Paths.
From OPF Require Import Proofs.FitBase Proofs.FitSup Proofs.FitExample.

(* The competition loop of SupervisedOPF.fit, started from an arbitrary node table [nd0] with
   a non-empty prototype set, computes an optimum-path forest for the max-arc path cost.
   [before l p q] (Proofs/FitBase.v): p occurs strictly before q in l. *)
Theorem C01_compete_optimum_path_forest :
  forall (zero top : Z) (nl n : nat) (w : nat -> nat -> Z) (nd0 : @nodes Z),
    let isproto q := nth q (n_status nd0) false = true in
    (zero < top)%Z ->
    (forall p q, (p < n)%nat -> (q < n)%nat -> p <> q -> (zero <= w p q < top)%Z) ->
    length (n_cost nd0) = n -> length (n_pred nd0) = n -> length (n_label nd0) = n ->
    length (n_plabel nd0) = n -> n_order nd0 = [] ->
    (exists s, (s < n)%nat /\ isproto s) ->
    let nd := compete Z.ltb zero top false nl n w nd0 in
    let cost q := nth q (n_cost nd) zero in
    let pred q := nth q (n_pred nd) None in
    let plabel q := nth q (n_plabel nd) 0%nat in
    (* the conquest order lists every node exactly once, in non-decreasing cost *)
    Permutation (n_order nd) (seq 0 n) /\
    (forall i j, (i < j)%nat -> (j < n)%nat ->
       (cost (nth i (n_order nd) 0%nat) <= cost (nth j (n_order nd) 0%nat))%Z) /\
    (* prototypes are roots with cost zero and their own label *)
    (forall q, (q < n)%nat -> isproto q ->
       pred q = None /\ cost q = zero /\ plabel q = nth q (n_label nd0) 0%nat) /\
    (* every other node has a predecessor conquered earlier, satisfying the link equation *)
    (forall q, (q < n)%nat -> ~ isproto q ->
       exists p, pred q = Some p /\ (p < n)%nat /\ p <> q /\
         cost q = Z.max (cost p) (w p q) /\ plabel q = plabel p /\ before (n_order nd) p q) /\
    (* following predecessors reaches a prototype in fewer than n steps; its label is assigned *)
    (forall q, (q < n)%nat ->
       exists r k, (r < n)%nat /\ isproto r /\ reaches pred q r k /\ pred r = None /\
         (k < n)%nat /\ plabel q = nth r (n_label nd0) 0%nat) /\
    (* the recorded cost is the minimum over all paths from prototypes of the largest arc *)
    (forall q s pi, (q < n)%nat -> (s < n)%nat -> isproto s -> path_from_to n s q pi ->
       (cost q <= pathmax w zero pi)%Z) /\
    (forall q, (q < n)%nat -> exists s pi, (s < n)%nat /\ isproto s /\ path_from_to n s q pi /\
       pathmax w zero pi = cost q) /\
    (* prototype flags and labels are not written *)
    n_status nd = n_status nd0 /\ n_label nd = n_label nd0.
Proof. exact compete_false_opf. Qed.

(* SupervisedOPF.fit = _find_prototypes followed by the competition.  The only assumption on
   _find_prototypes is that it marks at least one prototype (C02: every class present
   contributes one, so two classes suffice). *)
Theorem C01_sup_fit_optimum_path_forest :
  forall (zero top : Z) (labels : list nat) (w : nat -> nat -> Z),
    let n := length labels in
    let fp := find_prototypes Z.ltb top n w (nodes_init zero labels) in
    let isproto q := nth q (n_status fp) false = true in
    (zero < top)%Z ->
    (forall p q, (p < n)%nat -> (q < n)%nat -> p <> q -> (zero <= w p q < top)%Z) ->
    (exists s, (s < n)%nat /\ isproto s) ->
    let nd := sup_fit Z.ltb zero top labels w in
    let cost q := nth q (n_cost nd) zero in
    let pred q := nth q (n_pred nd) None in
    let plabel q := nth q (n_plabel nd) 0%nat in
    Permutation (n_order nd) (seq 0 n) /\
    (forall i j, (i < j)%nat -> (j < n)%nat ->
       (cost (nth i (n_order nd) 0%nat) <= cost (nth j (n_order nd) 0%nat))%Z) /\
    (forall q, (q < n)%nat -> isproto q ->
       pred q = None /\ cost q = zero /\ plabel q = nth q labels 0%nat) /\
    (forall q, (q < n)%nat -> ~ isproto q ->
       exists p, pred q = Some p /\ (p < n)%nat /\ p <> q /\
         cost q = Z.max (cost p) (w p q) /\ plabel q = plabel p /\ before (n_order nd) p q) /\
    (forall q, (q < n)%nat ->
       exists r k, (r < n)%nat /\ isproto r /\ reaches pred q r k /\ pred r = None /\
         (k < n)%nat /\ plabel q = nth r labels 0%nat) /\
    (forall q s pi, (q < n)%nat -> (s < n)%nat -> isproto s -> path_from_to n s q pi ->
       (cost q <= pathmax w zero pi)%Z) /\
    (forall q, (q < n)%nat -> exists s pi, (s < n)%nat /\ isproto s /\ path_from_to n s q pi /\
       pathmax w zero pi = cost q) /\
    n_status nd = n_status fp /\ n_label nd = labels.
Proof. exact sup_fit_opf. Qed.

(* non-vacuity: a 5-sample, 2-class instance with tied weights satisfies the premises *)
Theorem C01_example_premises :
  (0 < 1000)%Z /\
  (forall p q, (p < length ex_labels)%nat -> (q < length ex_labels)%nat -> p <> q ->
     (0 <= ex_w p q < 1000)%Z) /\
  (exists s, (s < length ex_labels)%nat /\
     nth s (n_status (find_prototypes Z.ltb 1000%Z (length ex_labels) ex_w
                        (nodes_init 0%Z ex_labels))) false = true).
Proof. exact ex_premises. Qed.

Theorem C01_example_result :
  sup_fit Z.ltb 0%Z 1000%Z ex_labels ex_w =
  mkNodes [2; 2; 0; 0; 2]%Z [Some 1; Some 2; None; None; Some 3]%nat [0; 0; 0; 1; 1]%nat
          [0; 0; 0; 1; 1]%nat [false; false; true; true; false]
          [false; false; false; false; false] [2; 3; 1; 4; 0]%nat.
Proof. exact ex_sup_fit. Qed.
