From OPF Require Import Proofs.HeapPrelude Base.Lists Base.TotalOrder Model.Heap Model.Sup Spec.Paths.
From OPF Require Import Proofs.FitBase Proofs.FitExample Proofs.OrderEmbed Proofs.LiftSup Proofs.LiftInst.

(* C01 for an ARBITRARY weight type [W] whose comparison [ltb] is a strict total order
   (Base/TotalOrder.v: irreflexive, transitive, and two incomparable elements are equal).
   The statements are those of Props/C01.v with  a <= b  written  ltb b a = false,  Z.max
   replaced by the model's own [wmax ltb] (Model/Sup.v) and [pathmax] by [pathmaxW ltb]
   (Base/TotalOrder.v; [omax] there is [wmax]).  They are derived from the theorems at W := Z by
   the abstraction theorems of Proofs/ParamSup.v and the rank embedding of Proofs/OrderEmbed.v
   (Proofs/LiftSup.v); no property of W beyond the three order laws is used. *)

(* the embedding itself: every finite set of weights embeds order-isomorphically into Z *)
Theorem C01_finite_order_embedding :
  forall (W : Type) (ltb : W -> W -> bool),
    strict_total_order ltb ->
    forall vals : list W, exists f : W -> Z,
      (forall a b, In a vals -> In b vals -> Z.ltb (f a) (f b) = ltb a b) /\
      (forall a b, In a vals -> In b vals -> f a = f b -> a = b) /\
      (forall a b, ltb a b = true -> (f a <= f b)%Z) /\
      (forall a, (0 <= f a <= Z.of_nat (length vals))%Z).
Proof. exact (@finite_order_embedding). Qed.

(* the run on (W, ltb) and the run on (Z, Z.ltb) with rank-encoded weights produce the same
   predecessors, labels, prototype flags and conquest order, and rank-related costs *)
Theorem C01_sup_fit_rank_related :
  forall (W : Type) (ltb : W -> W -> bool),
    strict_total_order ltb ->
    forall (zero top : W) (labels : list nat) (w : nat -> nat -> W),
      let n := length labels in
      let vals := zero :: top :: weight_vals n w in
      let r := rk ltb vals in
      let a := sup_fit ltb zero top labels w in
      let b := sup_fit Z.ltb (r zero) (r top) labels (fun p q => r (w p q)) in
      Forall2 (fun x z => In x vals /\ z = r x) (n_cost a) (n_cost b) /\
      n_pred a = n_pred b /\ n_label a = n_label b /\ n_plabel a = n_plabel b /\
      n_status a = n_status b /\ n_relevant a = n_relevant b /\ n_order a = n_order b.
Proof. exact (@sup_fit_rank_related). Qed.

Theorem C01_compete_anyorder :
  forall (W : Type) (ltb : W -> W -> bool),
    strict_total_order ltb ->
    forall (zero top : W) (nl n : nat) (w : nat -> nat -> W) (nd0 : @nodes W),
    let isproto q := nth q (n_status nd0) false = true in
    ltb zero top = true ->
    (forall p q, (p < n)%nat -> (q < n)%nat -> p <> q ->
       ltb (w p q) zero = false /\ ltb (w p q) top = true) ->
    length (n_cost nd0) = n -> length (n_pred nd0) = n -> length (n_label nd0) = n ->
    length (n_plabel nd0) = n -> n_order nd0 = [] ->
    (exists s, (s < n)%nat /\ isproto s) ->
    let nd := compete ltb zero top false nl n w nd0 in
    let cost q := nth q (n_cost nd) zero in
    let pred q := nth q (n_pred nd) None in
    let plabel q := nth q (n_plabel nd) 0%nat in
    (* the conquest order lists every node exactly once, in non-decreasing cost *)
    (Permutation (n_order nd) (seq 0 n) /\
     (forall i j, (i < j)%nat -> (j < n)%nat ->
        ltb (cost (nth j (n_order nd) 0%nat)) (cost (nth i (n_order nd) 0%nat)) = false) /\
     (* prototypes are roots with cost zero and their own label *)
     (forall q, (q < n)%nat -> isproto q ->
        pred q = None /\ cost q = zero /\ plabel q = nth q (n_label nd0) 0%nat) /\
     (* every other node has a predecessor conquered earlier, satisfying the link equation *)
     (forall q, (q < n)%nat -> ~ isproto q ->
        exists p, pred q = Some p /\ (p < n)%nat /\ p <> q /\
          cost q = wmax ltb (cost p) (w p q) /\ plabel q = plabel p /\ before (n_order nd) p q) /\
     (* following predecessors reaches a prototype in fewer than n steps; its label is assigned *)
     (forall q, (q < n)%nat ->
        exists r k, (r < n)%nat /\ isproto r /\ reaches pred q r k /\ pred r = None /\
          (k < n)%nat /\ plabel q = nth r (n_label nd0) 0%nat) /\
     (* the recorded cost is the minimum over all paths from prototypes of the largest arc *)
     (forall q s pi, (q < n)%nat -> (s < n)%nat -> isproto s -> path_from_to n s q pi ->
        ltb (pathmaxW ltb w zero pi) (cost q) = false) /\
     (forall q, (q < n)%nat -> exists s pi, (s < n)%nat /\ isproto s /\ path_from_to n s q pi /\
        pathmaxW ltb w zero pi = cost q)) /\
    (* prototype flags and labels are not written *)
    n_status nd = n_status nd0 /\ n_label nd = n_label nd0.
Proof. exact (@compete_anyorder). Qed.

Theorem C01_sup_fit_anyorder :
  forall (W : Type) (ltb : W -> W -> bool),
    strict_total_order ltb ->
    forall (zero top : W) (labels : list nat) (w : nat -> nat -> W),
    let n := length labels in
    let fp := find_prototypes ltb top n w (nodes_init zero labels) in
    let isproto q := nth q (n_status fp) false = true in
    ltb zero top = true ->
    (forall p q, (p < n)%nat -> (q < n)%nat -> p <> q ->
       ltb (w p q) zero = false /\ ltb (w p q) top = true) ->
    (exists s, (s < n)%nat /\ isproto s) ->
    let nd := sup_fit ltb zero top labels w in
    let cost q := nth q (n_cost nd) zero in
    let pred q := nth q (n_pred nd) None in
    let plabel q := nth q (n_plabel nd) 0%nat in
    (Permutation (n_order nd) (seq 0 n) /\
     (forall i j, (i < j)%nat -> (j < n)%nat ->
        ltb (cost (nth j (n_order nd) 0%nat)) (cost (nth i (n_order nd) 0%nat)) = false) /\
     (forall q, (q < n)%nat -> isproto q ->
        pred q = None /\ cost q = zero /\ plabel q = nth q labels 0%nat) /\
     (forall q, (q < n)%nat -> ~ isproto q ->
        exists p, pred q = Some p /\ (p < n)%nat /\ p <> q /\
          cost q = wmax ltb (cost p) (w p q) /\ plabel q = plabel p /\ before (n_order nd) p q) /\
     (forall q, (q < n)%nat ->
        exists r k, (r < n)%nat /\ isproto r /\ reaches pred q r k /\ pred r = None /\
          (k < n)%nat /\ plabel q = nth r labels 0%nat) /\
     (forall q s pi, (q < n)%nat -> (s < n)%nat -> isproto s -> path_from_to n s q pi ->
        ltb (pathmaxW ltb w zero pi) (cost q) = false) /\
     (forall q, (q < n)%nat -> exists s pi, (s < n)%nat /\ isproto s /\ path_from_to n s q pi /\
        pathmaxW ltb w zero pi = cost q)) /\
    n_status nd = n_status fp /\ n_label nd = labels.
Proof. exact (@sup_fit_anyorder). Qed.

(* the node arrays keep their length *)
Theorem C01_sup_fit_lengths_anyorder :
  forall (W : Type) (ltb : W -> W -> bool),
    strict_total_order ltb ->
    forall (zero top : W) (labels : list nat) (w : nat -> nat -> W),
    let n := length labels in
    let fp := find_prototypes ltb top n w (nodes_init zero labels) in
    ltb zero top = true ->
    (forall p q, (p < n)%nat -> (q < n)%nat -> p <> q ->
       ltb (w p q) zero = false /\ ltb (w p q) top = true) ->
    (exists s, (s < n)%nat /\ nth s (n_status fp) false = true) ->
    let nd := sup_fit ltb zero top labels w in
    length (n_cost nd) = n /\ length (n_pred nd) = n /\ length (n_label nd) = n /\
    length (n_plabel nd) = n.
Proof. exact (@sup_fit_lengths_anyorder). Qed.

(* [pathmaxW] unfolds like [Spec.Paths.pathmax], with the model's [wmax] *)
Theorem C01_pathmaxW_unfold :
  forall (W : Type) (ltb : W -> W -> bool) (w : nat -> nat -> W) (zero : W),
    pathmaxW ltb w zero [] = zero /\
    (forall a, pathmaxW ltb w zero [a] = zero) /\
    (forall a b t, pathmaxW ltb w zero (a :: b :: t)
                   = wmax ltb (w a b) (pathmaxW ltb w zero (b :: t))).
Proof. exact (fun W ltb w zero => conj eq_refl (conj (fun a => eq_refl) (fun a b t => eq_refl))). Qed.

(* ---------- instances ---------- *)

Theorem C01_order_Z : strict_total_order Z.ltb.
Proof. exact Z_order. Qed.

Theorem C01_order_nat : strict_total_order Nat.ltb.
Proof. exact nat_order. Qed.

(* rationals in lowest terms (Qcanon), [Qcltb a b := if Qclt_le_dec a b then true else false] *)
Theorem C01_order_Qc : strict_total_order Qcltb.
Proof. exact Qc_order. Qed.

(* at W := Z the generic theorem gives back the statement of C01_sup_fit_optimum_path_forest *)
Theorem C01_anyorder_recovers_Z :
  forall (zero top : Z) (labels : list nat) (w : nat -> nat -> Z),
    let n := length labels in
    let fp := find_prototypes Z.ltb top n w (nodes_init zero labels) in
    let isproto q := nth q (n_status fp) false = true in
    (zero < top)%Z ->
    (forall p q, (p < n)%nat -> (q < n)%nat -> p <> q -> (zero <= w p q < top)%Z) ->
    (exists s, (s < n)%nat /\ isproto s) ->
    let nd := sup_fit Z.ltb zero top labels w in
    let cost q := nth q (n_cost nd) zero in
    let pred q := nth q (n_pred nd) None in
    let plabel q := nth q (n_plabel nd) 0%nat in
    Permutation (n_order nd) (seq 0 n) /\
    (forall i j, (i < j)%nat -> (j < n)%nat ->
       (cost (nth i (n_order nd) 0%nat) <= cost (nth j (n_order nd) 0%nat))%Z) /\
    (forall q, (q < n)%nat -> isproto q ->
       pred q = None /\ cost q = zero /\ plabel q = nth q labels 0%nat) /\
    (forall q, (q < n)%nat -> ~ isproto q ->
       exists p, pred q = Some p /\ (p < n)%nat /\ p <> q /\
         cost q = Z.max (cost p) (w p q) /\ plabel q = plabel p /\ before (n_order nd) p q) /\
    (forall q, (q < n)%nat ->
       exists r k, (r < n)%nat /\ isproto r /\ reaches pred q r k /\ pred r = None /\
         (k < n)%nat /\ plabel q = nth r labels 0%nat) /\
    (forall q s pi, (q < n)%nat -> (s < n)%nat -> isproto s -> path_from_to n s q pi ->
       (cost q <= pathmax w zero pi)%Z) /\
    (forall q, (q < n)%nat -> exists s pi, (s < n)%nat /\ isproto s /\ path_from_to n s q pi /\
       pathmax w zero pi = cost q) /\
    n_status nd = n_status fp /\ n_label nd = labels.
Proof. exact sup_fit_opf_from_anyorder. Qed.

(* non-vacuity at W := nat: the five samples of C01_example_premises, weights read as naturals *)
Theorem C01_anyorder_example_premises :
  strict_total_order Nat.ltb /\
  Nat.ltb 0 1000 = true /\
  (forall p q, (p < length ex_labels)%nat -> (q < length ex_labels)%nat -> p <> q ->
     Nat.ltb (exn_w p q) 0 = false /\ Nat.ltb (exn_w p q) 1000 = true) /\
  (exists s, (s < length ex_labels)%nat /\
     nth s (n_status (find_prototypes Nat.ltb 1000%nat (length ex_labels) exn_w
                        (nodes_init 0%nat ex_labels))) false = true).
Proof. exact exn_premises. Qed.

Theorem C01_anyorder_example_result :
  sup_fit Nat.ltb 0%nat 1000%nat ex_labels exn_w =
  mkNodes [2; 2; 0; 0; 2]%nat [Some 1; Some 2; None; None; Some 3]%nat [0; 0; 0; 1; 1]%nat
          [0; 0; 0; 1; 1]%nat [false; false; true; true; false]
          [false; false; false; false; false] [2; 3; 1; 4; 0]%nat.
Proof. exact exn_sup_fit. Qed.
