From OPF Require Import Proofs.HeapPrelude Base.Lists Model.Heap Model.Sup Spec.Paths.
From OPF Require Import Proofs.FitBase Proofs.FitSup Proofs.Semi Proofs.FitExample.

(* The competition loop of SemiSupervisedOPF.fit ([semi = true]: it also writes
   label[q] := predicted_label[q] on every conquest) from an arbitrary node table. *)
Theorem C15_compete_semi_optimum_path_forest :
  forall (zero top : Z) (n : nat) (w : nat -> nat -> Z) (nd0 : @nodes Z),
    let isproto q := nth q (n_status nd0) false = true in
    (zero < top)%Z ->
    (forall p q, (p < n)%nat -> (q < n)%nat -> p <> q -> (zero <= w p q < top)%Z) ->
    length (n_cost nd0) = n -> length (n_pred nd0) = n -> length (n_label nd0) = n ->
    length (n_plabel nd0) = n -> n_order nd0 = [] ->
    (exists s, (s < n)%nat /\ isproto s) ->
    let nd := compete Z.ltb zero top true n w nd0 in
    let cost q := nth q (n_cost nd) zero in
    let pred q := nth q (n_pred nd) None in
    let plabel q := nth q (n_plabel nd) 0%nat in
    let label q := nth q (n_label nd) 0%nat in
    Permutation (n_order nd) (seq 0 n) /\
    (forall i j, (i < j)%nat -> (j < n)%nat ->
       (cost (nth i (n_order nd) 0%nat) <= cost (nth j (n_order nd) 0%nat))%Z) /\
    (* prototypes are never re-conquered: cost zero, own original label kept *)
    (forall q, (q < n)%nat -> isproto q ->
       pred q = None /\ cost q = zero /\ plabel q = nth q (n_label nd0) 0%nat /\
       label q = nth q (n_label nd0) 0%nat) /\
    (forall q, (q < n)%nat -> ~ isproto q ->
       exists p, pred q = Some p /\ (p < n)%nat /\ p <> q /\
         cost q = Z.max (cost p) (w p q) /\ plabel q = plabel p /\ before (n_order nd) p q) /\
    (* every node carries the ORIGINAL label of the prototype at the root of its path *)
    (forall q, (q < n)%nat ->
       exists r k, (r < n)%nat /\ isproto r /\ reaches pred q r k /\ pred r = None /\
         (k < n)%nat /\ plabel q = nth r (n_label nd0) 0%nat /\
         label q = nth r (n_label nd0) 0%nat) /\
    (forall q s pi, (q < n)%nat -> (s < n)%nat -> isproto s -> path_from_to n s q pi ->
       (cost q <= pathmax w zero pi)%Z) /\
    (forall q, (q < n)%nat -> exists s pi, (s < n)%nat /\ isproto s /\ path_from_to n s q pi /\
       pathmax w zero pi = cost q) /\
    n_status nd = n_status nd0.
Proof. exact compete_true_opf. Qed.

(* SemiSupervisedOPF.fit: prototypes from the labeled samples [0, nl) only, competition over
   all nl + nu labeled and unlabeled samples. *)
Theorem C15_semi_optimal :
  forall (zero top : Z) (labels : list nat) (nu : nat) (w : nat -> nat -> Z),
    let nl := length labels in
    let n := (nl + nu)%nat in
    let fp := find_prototypes Z.ltb top nl w (nodes_init zero labels) in
    let isproto q := (q < nl)%nat /\ nth q (n_status fp) false = true in
    (zero < top)%Z ->
    (forall p q, (p < n)%nat -> (q < n)%nat -> p <> q -> (zero <= w p q < top)%Z) ->
    (exists s, isproto s) ->
    let nd := semi_fit Z.ltb zero top labels nu w in
    let cost q := nth q (n_cost nd) zero in
    let pred q := nth q (n_pred nd) None in
    let plabel q := nth q (n_plabel nd) 0%nat in
    let label q := nth q (n_label nd) 0%nat in
    (* every labeled and unlabeled sample is conquered, in non-decreasing cost *)
    Permutation (n_order nd) (seq 0 n) /\
    (forall i j, (i < j)%nat -> (j < n)%nat ->
       (cost (nth i (n_order nd) 0%nat) <= cost (nth j (n_order nd) 0%nat))%Z) /\
    (forall q, isproto q ->
       pred q = None /\ cost q = zero /\ plabel q = nth q labels 0%nat /\
       label q = nth q labels 0%nat) /\
    (forall q, (q < n)%nat -> ~ isproto q ->
       exists p, pred q = Some p /\ (p < n)%nat /\ p <> q /\
         cost q = Z.max (cost p) (w p q) /\ plabel q = plabel p /\ before (n_order nd) p q) /\
    (* it carries the true label of the prototype at the root of its path *)
    (forall q, (q < n)%nat ->
       exists r k, isproto r /\ reaches pred q r k /\ pred r = None /\ (k < n)%nat /\
         plabel q = nth r labels 0%nat /\ label q = nth r labels 0%nat) /\
    (* its cost is the optimum max-arc path cost from the prototypes through all samples *)
    (forall q s pi, (q < n)%nat -> isproto s -> path_from_to n s q pi ->
       (cost q <= pathmax w zero pi)%Z) /\
    (forall q, (q < n)%nat -> exists s pi, isproto s /\ path_from_to n s q pi /\
       pathmax w zero pi = cost q) /\
    n_status nd = n_status fp ++ repeat false nu.
Proof. exact semi_fit_opf. Qed.

(* With an empty unlabeled set, semi-supervised and supervised training agree on every node
   field except [n_label] (any cost type W, any comparison). *)
Theorem C15_semi_empty_is_supervised :
  forall (W : Type) (ltb : W -> W -> bool) (zero top : W) (labels : list nat)
         (w : nat -> nat -> W),
    let a := semi_fit ltb zero top labels 0 w in
    let b := sup_fit ltb zero top labels w in
    n_cost a = n_cost b /\ n_pred a = n_pred b /\ n_plabel a = n_plabel b /\
    n_status a = n_status b /\ n_relevant a = n_relevant b /\ n_order a = n_order b.
Proof. exact (@semi_empty_is_supervised). Qed.

(* ... but NOT on [n_label]: "identical to supervised training" fails for the label field when
   tied weights let a training sample be conquered by a prototype of another class. *)
Theorem C15_semi_empty_label_refuted :
  exists (labels : list nat) (w : nat -> nat -> Z),
    (forall p q, w p q = w q p) /\
    (forall p q, (p < length labels)%nat -> (q < length labels)%nat -> p <> q ->
       (0 <= w p q < 1000)%Z) /\
    n_label (sup_fit Z.ltb 0%Z 1000%Z labels w) = labels /\
    n_label (semi_fit Z.ltb 0%Z 1000%Z labels 0 w) <> labels.
Proof. exact semi_empty_label_differs. Qed.

(* non-vacuity: 3 labeled + 2 unlabeled samples with tied weights *)
Theorem C15_example_premises :
  (0 < 1000)%Z /\
  (forall p q, (p < length ex2_labels + 2)%nat -> (q < length ex2_labels + 2)%nat -> p <> q ->
     (0 <= ex2_w p q < 1000)%Z) /\
  (exists s, (s < length ex2_labels)%nat /\
     nth s (n_status (find_prototypes Z.ltb 1000%Z (length ex2_labels) ex2_w
                        (nodes_init 0%Z ex2_labels))) false = true).
Proof. exact ex_semi_premises. Qed.

Theorem C15_example_result :
  semi_fit Z.ltb 0%Z 1000%Z ex2_labels 2 ex2_w =
  mkNodes [0; 0; 2; 2; 2]%Z [None; None; Some 0; Some 1; Some 2]%nat [0; 1; 0; 1; 0]%nat
          [0; 1; 0; 1; 0]%nat [true; true; false; false; false]
          [false; false; false; false; false] [0; 1; 2; 3; 4]%nat.
Proof. exact ex_semi_fit. Qed.
