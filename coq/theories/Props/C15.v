From OPF Require Import Proofs.HeapPrelude Base.Lists Model.Heap Model.Sup Spec.Paths.
From OPF Require Import Proofs.FitBase Proofs.FitSup Proofs.Semi Proofs.FitExample.

(* The competition loop of SemiSupervisedOPF.fit ([semi = true]: it also writes
   label[q] := predicted_label[q] when an unlabeled node q >= nl is conquered) from an
   arbitrary node table. *)
Theorem C15_compete_semi_optimum_path_forest :
  forall (zero top : Z) (nl n : nat) (w : nat -> nat -> Z) (nd0 : @nodes Z),
    let isproto q := nth q (n_status nd0) false = true in
    (zero < top)%Z ->
    (forall p q, (p < n)%nat -> (q < n)%nat -> p <> q -> (zero <= w p q < top)%Z) ->
    length (n_cost nd0) = n -> length (n_pred nd0) = n -> length (n_label nd0) = n ->
    length (n_plabel nd0) = n -> n_order nd0 = [] ->
    (exists s, (s < n)%nat /\ isproto s) ->
    let nd := compete Z.ltb zero top true nl n w nd0 in
    let cost q := nth q (n_cost nd) zero in
    let pred q := nth q (n_pred nd) None in
    let plabel q := nth q (n_plabel nd) 0%nat in
    let label q := nth q (n_label nd) 0%nat in
    Permutation (n_order nd) (seq 0 n) /\
    (forall i j, (i < j)%nat -> (j < n)%nat ->
       (cost (nth i (n_order nd) 0%nat) <= cost (nth j (n_order nd) 0%nat))%Z) /\
    (* prototypes are never re-conquered: cost zero, own original label kept *)
    (forall q, (q < n)%nat -> isproto q ->
       pred q = None /\ cost q = zero /\ plabel q = nth q (n_label nd0) 0%nat /\
       label q = nth q (n_label nd0) 0%nat) /\
    (forall q, (q < n)%nat -> ~ isproto q ->
       exists p, pred q = Some p /\ (p < n)%nat /\ p <> q /\
         cost q = Z.max (cost p) (w p q) /\ plabel q = plabel p /\ before (n_order nd) p q) /\
    (* every node is assigned the ORIGINAL label of the prototype at the root of its path;
       for an unlabeled node this also becomes its label *)
    (forall q, (q < n)%nat ->
       exists r k, (r < n)%nat /\ isproto r /\ reaches pred q r k /\ pred r = None /\
         (k < n)%nat /\ plabel q = nth r (n_label nd0) 0%nat /\
         ((nl <= q)%nat -> label q = nth r (n_label nd0) 0%nat)) /\
    (forall q s pi, (q < n)%nat -> (s < n)%nat -> isproto s -> path_from_to n s q pi ->
       (cost q <= pathmax w zero pi)%Z) /\
    (forall q, (q < n)%nat -> exists s pi, (s < n)%nat /\ isproto s /\ path_from_to n s q pi /\
       pathmax w zero pi = cost q) /\
    (* labeled nodes keep their original label *)
    (forall q, (q < n)%nat -> (q < nl)%nat -> label q = nth q (n_label nd0) 0%nat) /\
    n_status nd = n_status nd0.
Proof. exact compete_true_opf. Qed.

(* SemiSupervisedOPF.fit: prototypes from the labeled samples [0, nl) only, competition over
   all nl + nu labeled and unlabeled samples. *)
Theorem C15_semi_optimal :
  forall (zero top : Z) (labels : list nat) (nu : nat) (w : nat -> nat -> Z),
    let nl := length labels in
    let n := (nl + nu)%nat in
    let fp := find_prototypes Z.ltb top nl w (nodes_init zero labels) in
    let isproto q := (q < nl)%nat /\ nth q (n_status fp) false = true in
    (zero < top)%Z ->
    (forall p q, (p < n)%nat -> (q < n)%nat -> p <> q -> (zero <= w p q < top)%Z) ->
    (exists s, isproto s) ->
    let nd := semi_fit Z.ltb zero top labels nu w in
    let cost q := nth q (n_cost nd) zero in
    let pred q := nth q (n_pred nd) None in
    let plabel q := nth q (n_plabel nd) 0%nat in
    let label q := nth q (n_label nd) 0%nat in
    (* every labeled and unlabeled sample is conquered, in non-decreasing cost *)
    Permutation (n_order nd) (seq 0 n) /\
    (forall i j, (i < j)%nat -> (j < n)%nat ->
       (cost (nth i (n_order nd) 0%nat) <= cost (nth j (n_order nd) 0%nat))%Z) /\
    (forall q, isproto q ->
       pred q = None /\ cost q = zero /\ plabel q = nth q labels 0%nat /\
       label q = nth q labels 0%nat) /\
    (forall q, (q < n)%nat -> ~ isproto q ->
       exists p, pred q = Some p /\ (p < n)%nat /\ p <> q /\
         cost q = Z.max (cost p) (w p q) /\ plabel q = plabel p /\ before (n_order nd) p q) /\
    (* it is assigned the true label of the prototype at the root of its path; for an
       unlabeled sample this also becomes its label *)
    (forall q, (q < n)%nat ->
       exists r k, isproto r /\ reaches pred q r k /\ pred r = None /\ (k < n)%nat /\
         plabel q = nth r labels 0%nat /\ ((nl <= q)%nat -> label q = nth r labels 0%nat)) /\
    (* its cost is the optimum max-arc path cost from the prototypes through all samples *)
    (forall q s pi, (q < n)%nat -> isproto s -> path_from_to n s q pi ->
       (cost q <= pathmax w zero pi)%Z) /\
    (forall q, (q < n)%nat -> exists s pi, isproto s /\ path_from_to n s q pi /\
       pathmax w zero pi = cost q) /\
    (* labeled samples keep their true label *)
    (forall q, (q < nl)%nat -> label q = nth q labels 0%nat) /\
    n_status nd = n_status fp ++ repeat false nu.
Proof. exact semi_fit_opf. Qed.

(* With an empty unlabeled set the result is identical to supervised training on the labeled
   set: the whole node table, for any cost type W and any comparison. *)
Theorem C15_semi_empty_is_supervised :
  forall (W : Type) (ltb : W -> W -> bool) (zero top : W) (labels : list nat)
         (w : nat -> nat -> W),
    semi_fit ltb zero top labels 0 w = sup_fit ltb zero top labels w.
Proof. exact (@semi_empty_is_supervised). Qed.

(* non-vacuity: 3 labeled + 2 unlabeled samples with tied weights *)
Theorem C15_example_premises :
  (0 < 1000)%Z /\
  (forall p q, (p < length ex2_labels + 2)%nat -> (q < length ex2_labels + 2)%nat -> p <> q ->
     (0 <= ex2_w p q < 1000)%Z) /\
  (exists s, (s < length ex2_labels)%nat /\
     nth s (n_status (find_prototypes Z.ltb 1000%Z (length ex2_labels) ex2_w
                        (nodes_init 0%Z ex2_labels))) false = true).
Proof. exact ex_semi_premises. Qed.

Theorem C15_example_result :
  semi_fit Z.ltb 0%Z 1000%Z ex2_labels 2 ex2_w =
  mkNodes [0; 0; 2; 2; 2]%Z [None; None; Some 0; Some 1; Some 2]%nat [0; 1; 0; 1; 0]%nat
          [0; 1; 0; 1; 0]%nat [true; true; false; false; false]
          [false; false; false; false; false] [0; 1; 2; 3; 4]%nat.
Proof. exact ex_semi_fit. Qed.
