(* C04, KNN-supervised half: "KNN-supervised training assigns every training sample its own
   true label for any data, ties included."  The final clustering of KNNSupervisedOPF.fit is
   [_clustering(force_prototype=True)] = [clustering_sup true] of Model/Knn.v: cross-label
   offers are sent to [bot] = -FLOAT_MAX and are never accepted, so labels only travel along
   same-label links.  No hypothesis on ties or distances: the adjacency lists are arbitrary
   lists of node indices. *)
From OPF Require Import Proofs.HeapPrelude Base.Lists Model.Heap Model.Knn Proofs.ClusterMain.

Theorem C04_knn_train_labels_own :
  forall (zero top bot : Z) (force : bool) (g : @knn Z) (n : nat),
    length (k_label g) = n -> length (k_cost g) = n -> length (k_pred g) = n ->
    length (k_root g) = n -> length (k_plabel g) = n -> length (k_clabel g) = n ->
    (forall p q, In q (nth p (k_adj g) []) -> q < n) ->
    (forall i, i < n -> (nth i (k_cost g) zero < nth i (k_dens g) zero)%Z) ->
    (force = true -> forall i, i < n -> (bot < nth i (k_cost g) zero)%Z) ->
    force = true ->
    let g' := clustering_sup Z.ltb zero top bot force g in
    forall q, q < n -> nth q (k_plabel g') 0 = nth q (k_label g) 0.
Proof. exact knn_train_labels_own. Qed.
