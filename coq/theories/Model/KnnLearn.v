(* The COMPLETE training routines of the two KNN-graph classifiers, k-search included, as single
   executable terms over [NumOps] (definitions only):

     KNNSupervisedOPF.fit   = _learn (candidates k = 1..max_k: create_arcs k; calculate_pdf k; _clustering();
                                       predict(validation set); opf_accuracy; destroy_arcs)
                              ; create_arcs(best_k); calculate_pdf(best_k); _clustering(force_prototype=True)
                              ; destroy_arcs
     UnsupervisedOPF.fit    = _best_minimum_cut (create_arcs(max_k) once; candidates k = min_k..max_k while
                                       min_cut != 0.0: density := max_distances[k-1]; calculate_pdf k;
                                       _clustering(k); _normalized_cut(k))
                              ; destroy_arcs; create_arcs(best_k); calculate_pdf(best_k); _clustering(best_k)

   The graph state ([knn], Model/Knn.v) is threaded through the candidates exactly as the Python object is
   mutated: [k_gdens] (subgraph.density) survives destroy_arcs and is reset by every create_arcs call (and, in
   the unsupervised search, overwritten with max_distances[k-1] before each candidate's calculate_pdf),
   [k_order] (idx_nodes) accumulates over every clustering, densities / costs / predecessors / roots / labels
   of the previous candidate stay in the nodes until they are overwritten, and - unsupervised - the adjacency
   lists keep the plateau insertions of the earlier candidates ([k_nplat] accumulates too), so a later
   candidate reads its "k nearest" from lists shifted by those insertions.

   Criteria are computed INSIDE the model: validation predictions from the distances validation -> training,
   [accuracy_F] = opf_accuracy as the float code evaluates it, [normalized_cut] = _normalized_cut.

   The terms exp(-d / constant) are tables (Coq's PrimFloat has no exp, see Model/Pdf.v): one table per
   calculate_pdf call and one per predict call, indexed by the candidate number (0-based), plus one for the
   final stage.  Run at [FOps] by Model/RunKnnLearn.v, reasoned about at [ROps] in Proofs/KnnLearn*.v. *)
From Coq Require Import List ZArith Bool Arith.
From OPF Require Model.Measures.
From OPF Require Import Base.Lists Base.NumOps Model.Heap Model.Knn Model.Pdf Model.KnnFit.
Import ListNotations.

Section KnnLearn.
  Context {F : Type} (O : NumOps F).
  Variables fmax thr one eps : F.             (* c.FLOAT_MAX, 0.00001, 1, c.EPSILON *)
  Variable maxd : Z.                          (* c.MAX_DENSITY *)

  Notation f0 := (fzero O).
  Notation fb := (fbot O fmax).
  Definition ofnat (x : nat) : F := nofZ O (Z.of_nat x).

  (* ------------------------------------------------------------------------------------------ *)
  (* a. opf_accuracy, float level                                                                 *)
  (* ------------------------------------------------------------------------------------------ *)

  (* np.nansum replaces NaN by 0 before summing; [neqb x x] is false exactly for NaN at FOps and never at ROps *)
  Definition nan_to_zero (x : F) : F := if neqb O x x then x else f0.

  (* numpy's pairwise summation of a contiguous float64 vector (loops_utils.h.src, pairwise_sum):
       n < 8      : res = 0.; for i: res += a[i]
       n <= 128   : eight accumulators r[j] = a[j]; for i = 8; i < n - n%8; i += 8: r[j] += a[i+j];
                    res = ((r0+r1)+(r2+r3)) + ((r4+r5)+(r6+r7)); then the remaining n%8 elements one by one
       otherwise  : n2 = n/2; n2 -= n2 % 8; pairwise(a, n2) + pairwise(a+n2, n-n2) *)
  Definition sum_from (acc : F) (l : list F) : F := fold_left (nadd O) l acc.

  Definition add8 (r a : list F) : list F :=
    map (fun j => nadd O (nth j r f0) (nth j a f0)) (seq 0 8).

  Fixpoint blocks8 (fuel : nat) (r l : list F) : list F * list F :=
    match fuel with
    | 0 => (r, l)
    | S f => if Nat.leb 8 (length l) then blocks8 f (add8 r (firstn 8 l)) (skipn 8 l) else (r, l)
    end.

  Definition sum_block (l : list F) : F :=
    let '(r, rest) := blocks8 (length l) (firstn 8 l) (skipn 8 l) in
    let a j := nth j r f0 in
    sum_from (nadd O (nadd O (nadd O (a 0) (a 1)) (nadd O (a 2) (a 3)))
                     (nadd O (nadd O (a 4) (a 5)) (nadd O (a 6) (a 7)))) rest.

  Fixpoint pairwise_sum (fuel : nat) (l : list F) : F :=
    let n := length l in
    if Nat.ltb n 8 then sum_from f0 l
    else if Nat.leb n 128 then sum_block l
    else match fuel with
         | 0 => sum_block l
         | S f => let h := n / 2 in
                  let n2 := h - h mod 8 in
                  nadd O (pairwise_sum f (firstn n2 l)) (pairwise_sum f (skipn n2 l))
         end.

  Definition np_sum (l : list F) : F := pairwise_sum (length l) l.

  (* opf_accuracy(labels, preds): the error counters are integers (Model/Measures.v: [errors], [bincount],
     [n_class]) converted to floats by the two in-place divisions;
       errors[:, 1] /= counts;  errors[:, 0] /= np.nansum(counts) - counts;  errors = np.nansum(errors, axis=1)
       accuracy = 1 - np.sum(errors) / (2 * n_class)
     A prediction >= n_class makes Python raise IndexError (the model's [upd] ignores it). *)
  Definition accuracy_F (labels preds : list nat) : F :=
    let K := Measures.n_class labels in
    let e := Measures.errors labels preds in
    let counts := Measures.bincount labels in
    let N := list_sum counts in
    let row c :=
      let cnt := nth c counts 0 in
      nadd O (nan_to_zero (ndiv O (ofnat (nth c (fst e) 0)) (ofnat (N - cnt))))
             (nan_to_zero (ndiv O (ofnat (nth c (snd e) 0)) (ofnat cnt))) in
    nsub O (nofZ O 1) (ndiv O (np_sum (map row (seq 0 K))) (ofnat (2 * K))).

  (* ------------------------------------------------------------------------------------------ *)
  (* b. KNNSupervisedOPF.predict on a batch                                                       *)
  (* ------------------------------------------------------------------------------------------ *)

  (* one query: [dq j] distance to training node j, [eq j] = exp(-dq j / constant).  Composition of
     Knn.knn_scan, Pdf.query_density and Knn.knn_pick as in RunKnn.run_knn_predict; a slot still holding
     FLOAT_MAX contributes exp(-FLOAT_MAX/constant) = 0.  The node keeps predicted_label 0 when nothing is picked. *)
  Definition predict_step (g : @knn F) (k n : nat) (mn mx : F)
             (st : list nat * list nat) (q : (nat -> F) * (nat -> F)) : list nat * list nat :=
    let '(ns0, out) := st in
    let '(dq, eq) := q in
    let '(ds, ns) := knn_scan (nltb O) fmax k n dq None ns0 in
    let ee := fun l => if neqb O (nth l ds fmax) fmax then f0 else eq (nth l ns 0) in
    let densx := query_density O maxd eps mn mx k ee in
    (ns, out ++ [match knn_pick (nltb O) f0 fmax fb g k densx ds ns with
                 | Some nb => nth nb (k_plabel g) 0
                 | None => 0
                 end]).

  (* neighbours_idx is allocated once per predict call and threaded through the queries *)
  Definition predict_batch (g : @knn F) (k n : nat) (mn mx : F) (qs : list ((nat -> F) * (nat -> F))) : list nat :=
    snd (fold_left (predict_step g k n mn mx) qs (repeat 0 (S k), [])).

  (* ------------------------------------------------------------------------------------------ *)
  (* c. KNNSupervisedOPF._learn and fit                                                           *)
  (* ------------------------------------------------------------------------------------------ *)

  (* [d i j]: training distances; [dq]: one function per validation row; [vlabels]: validation labels;
     [ep c i j]: exp table of the calculate_pdf call of candidate number c (k = c + 1);
     [eq c v j]: exp table of the predict call of candidate number c, validation row v, training node j *)
  Section Sup.
    Variable d : nat -> nat -> F.
    Variable dq : list (nat -> F).
    Variable vlabels : list nat.
    Variable ep : nat -> nat -> nat -> F.
    Variable eq : nat -> nat -> nat -> F.

    (* one candidate: best_k := k; create_arcs k; calculate_pdf k; _clustering(); predict; accuracy; destroy_arcs *)
    Definition sup_candidate (k : nat) (g : @knn F) : F * @knn F :=
      let n := length (k_label g) in
      let '(g1, (_, mn, mx)) := arcs_and_pdf O fmax thr one maxd k d (ep (k - 1)) g in
      let g2 := clustering_sup (nltb O) f0 fmax fb false g1 in
      let preds := predict_batch g2 k n mn mx (combine dq (map (eq (k - 1)) (seq 0 (length dq)))) in
      (accuracy_F vlabels preds, destroy_arcs g2).

    (* state: graph, accuracies so far, max_acc, best_k *)
    Definition learn_step (st : @knn F * list F * F * nat) (k : nat) : @knn F * list F * F * nat :=
      let '(g, accs, max_acc, best) := st in
      let '(acc, g') := sup_candidate k g in
      if nltb O max_acc acc then (g', accs ++ [acc], acc, k) else (g', accs ++ [acc], max_acc, best).

    (* max_acc = 0.0; best_k = 1; for k in range(1, max_k + 1) *)
    Definition knn_sup_learn (labels : list nat) (max_k : nat) : @knn F * list F * F * nat :=
      fold_left learn_step (seq 1 max_k) (knn_init f0 labels, [], f0, 1).

    (* fit up to (not including) the last destroy_arcs: (accuracies, best_k, graph, (constant, min, max)) *)
    Definition knn_sup_fit_core (labels : list nat) (max_k : nat) (efin : nat -> nat -> F)
      : list F * nat * @knn F * (F * F * F) :=
      let '(g, accs, _, best) := knn_sup_learn labels max_k in
      let '(g2, cmm) := arcs_and_pdf O fmax thr one maxd best d efin g in
      (accs, best, clustering_sup (nltb O) f0 fmax fb true g2, cmm).

    Definition knn_sup_fit (labels : list nat) (max_k : nat) (efin : nat -> nat -> F)
      : list F * nat * @knn F * (F * F * F) :=
      let '(accs, best, g, cmm) := knn_sup_fit_core labels max_k efin in
      (accs, best, destroy_arcs g, cmm).
  End Sup.

  (* ------------------------------------------------------------------------------------------ *)
  (* d. UnsupervisedOPF._normalized_cut, _best_minimum_cut and fit                                *)
  (* ------------------------------------------------------------------------------------------ *)

  (* calculate_pdf(k) on the graph as it is (arcs_and_pdf = create_arcs followed by this) *)
  Definition set_pdf (k : nat) (e : nat -> nat -> F) (g1 : @knn F) : @knn F * (F * F * F) :=
    let n := length (k_label g1) in
    let '(c, mn, mx, dc) := calculate_pdf O fmax maxd n k (k_gdens g1)
                              (fun i l => e i (nth l (nth i (k_adj g1) []) 0)) in
    (mkKnn (k_label g1) (k_adj g1) (k_radius g1) (k_nplat g1) (map fst dc) (map snd dc)
           (k_pred g1) (k_root g1) (k_plabel g1) (k_clabel g1) (k_order g1) (k_gdens g1) (k_nclusters g1),
     (c, mn, mx)).

  (* subgraph.density = v *)
  Definition set_gdens (g : @knn F) (v : F) : @knn F :=
    mkKnn (k_label g) (k_adj g) (k_radius g) (k_nplat g) (k_dens g) (k_cost g) (k_pred g) (k_root g)
          (k_plabel g) (k_clabel g) (k_order g) v (k_nclusters g).

  (* inner loop body of _normalized_cut for the arc i -> j; state (internal_cluster, external_cluster) *)
  Definition cut_arc (d : nat -> nat -> F) (g : @knn F) (i : nat) (st : list F * list F) (j : nat) : list F * list F :=
    let '(int, ext) := st in
    let dist := d i j in
    if nltb O f0 dist then
      let ci := nth i (k_clabel g) 0 in
      let inv := ndiv O (nofZ O 1) dist in
      if Nat.eqb ci (nth j (k_clabel g) 0)
      then (upd int ci (nadd O (nth ci int f0) inv), ext)
      else (int, upd ext ci (nadd O (nth ci ext f0) inv))
    else st.

  Definition cut_sums (k : nat) (d : nat -> nat -> F) (g : @knn F) : list F * list F :=
    let n := length (k_label g) in
    let nc := k_nclusters g in
    fold_left (fun st i => fold_left (cut_arc d g i) (firstn (nth i (k_nplat g) 0 + k) (nth i (k_adj g) [])) st)
              (seq 0 n) (repeat f0 nc, repeat f0 nc).

  Definition cut_term (int ext : list F) (cut : F) (l : nat) : F :=
    let s := nadd O (nth l int f0) (nth l ext f0) in
    if nltb O f0 s then nadd O cut (ndiv O (nth l ext f0) s) else cut.

  Definition normalized_cut (k : nat) (d : nat -> nat -> F) (g : @knn F) : F :=
    let '(int, ext) := cut_sums k d g in
    fold_left (cut_term int ext) (seq 0 (k_nclusters g)) f0.

  Section Unsup.
    Variable d : nat -> nat -> F.
    Variable ep : nat -> nat -> nat -> F.       (* [ep c]: table of the candidate number c (k = min_k + c) *)
    Variable min_k : nat.
    Variable maxdists : list F.                 (* max_distances returned by create_arcs(max_k) *)

    (* the body under [if min_cut != 0.0] *)
    Definition unsup_candidate (k : nat) (g : @knn F) : F * @knn F :=
      let ga := set_gdens g (nth (k - 1) maxdists f0) in
      let '(gb, _) := set_pdf k (ep (k - min_k)) ga in
      let gc := clustering_unsup (nltb O) f0 fmax fb k gb in
      (normalized_cut k d gc, gc).

    (* state: graph, cuts evaluated so far, min_cut, best_k (None = still unbound) *)
    Definition cut_search_step (st : @knn F * list F * F * option nat) (k : nat) : @knn F * list F * F * option nat :=
      let '(g, cuts, min_cut, best) := st in
      if neqb O min_cut f0 then st
      else
        let '(cut, g') := unsup_candidate k g in
        if nltb O cut min_cut then (g', cuts ++ [cut], cut, Some k) else (g', cuts ++ [cut], min_cut, best).
  End Unsup.

  (* _best_minimum_cut up to the end of the candidate loop *)
  Definition unsup_search (d : nat -> nat -> F) (ep : nat -> nat -> nat -> F) (labels : list nat) (min_k max_k : nat)
    : @knn F * list F * F * option nat :=
    let n := length labels in
    let '(g0, maxdists) := create_arcs (nltb O) f0 fmax thr one max_k n d (knn_init f0 labels) in
    fold_left (cut_search_step d ep min_k maxdists) (seq min_k (S max_k - min_k)) (g0, [], fmax, None).

  (* the whole fit: (cuts, best_k, graph, (constant, min, max)); None = best_k unbound (Python: UnboundLocalError) *)
  Definition unsup_fit (d : nat -> nat -> F) (ep : nat -> nat -> nat -> F) (labels : list nat) (min_k max_k : nat)
             (efin : nat -> nat -> F) : option (list F * nat * @knn F * (F * F * F)) :=
    let '(g, cuts, _, best) := unsup_search d ep labels min_k max_k in
    match best with
    | None => None
    | Some bk =>
      let '(g2, cmm) := arcs_and_pdf O fmax thr one maxd bk d efin (destroy_arcs g) in
      Some (cuts, bk, clustering_unsup (nltb O) f0 fmax fb bk g2, cmm)
    end.
End KnnLearn.
