(* The final training stage of KNNSupervisedOPF.fit and UnsupervisedOPF.fit as ONE definition over [NumOps]:

     destroy_arcs; create_arcs(best_k); calculate_pdf(best_k); _clustering(...)

   Weights, densities and costs all live in the numeric carrier [F]; the order-only parts (Model/Knn.v) are
   instantiated at [W := F] with [ltb := nltb O].  Run at [FOps] (PrimFloat) by the harness (Model/RunKnn.v),
   reasoned about at [ROps] (Proofs/KnnPipeline*.v).  The terms [exp(-d/constant)] are supplied as a table
   [e i j] for every ordered pair of nodes (see Model/Pdf.v). *)
From Coq Require Import List ZArith Bool.
From OPF Require Import Base.Lists Base.NumOps Model.Heap Model.Knn Model.Pdf.
Import ListNotations.

Section KnnFit.
  Context {F : Type} (O : NumOps F).
  Variables fmax thr one : F.                 (* c.FLOAT_MAX, 0.00001, 1 *)
  Variable maxd : Z.                          (* c.MAX_DENSITY *)

  Definition fzero : F := nofZ O 0.
  Definition fbot : F := nsub O (nofZ O 0) fmax.   (* -c.FLOAT_MAX *)

  (* the subgraph just before the final arc creation: no arcs, density bound [gdens0] left by the k-search *)
  Definition fit_start (labels : list nat) (gdens0 : F) : @knn F :=
    let n := length labels in
    mkKnn labels (repeat [] n) (repeat fzero n) (repeat 0 n) (repeat fzero n) (repeat fzero n)
          (repeat None n) (repeat 0 n) (repeat 0 n) (repeat 0 n) [] gdens0 0.

  (* create_arcs(k) then calculate_pdf(k): returns the graph with densities/costs set, and (constant, min, max) *)
  Definition arcs_and_pdf (k : nat) (d e : nat -> nat -> F) (g0 : @knn F) : @knn F * (F * F * F) :=
    let n := length (k_label g0) in
    let '(g1, _) := create_arcs (nltb O) fzero fmax thr one k n d g0 in
    let '(c, mn, mx, dc) := calculate_pdf O fmax maxd n k (k_gdens g1)
                              (fun i l => e i (nth l (nth i (k_adj g1) []) 0)) in
    (mkKnn (k_label g1) (k_adj g1) (k_radius g1) (k_nplat g1) (map fst dc) (map snd dc)
           (k_pred g1) (k_root g1) (k_plabel g1) (k_clabel g1) (k_order g1) (k_gdens g1) (k_nclusters g1),
     (c, mn, mx)).

  (* KNNSupervisedOPF.fit after _learn: ... ; _clustering(force_prototype=True) *)
  Definition knn_sup_final (k : nat) (labels : list nat) (gdens0 : F) (d e : nat -> nat -> F) : @knn F * (F * F * F) :=
    let '(g2, cmm) := arcs_and_pdf k d e (fit_start labels gdens0) in
    (clustering_sup (nltb O) fzero fmax fbot true g2, cmm).

  (* UnsupervisedOPF.fit after the k-search: ... ; _clustering(best_k) *)
  Definition unsup_final (k : nat) (labels : list nat) (gdens0 : F) (d e : nat -> nat -> F) : @knn F * (F * F * F) :=
    let '(g2, cmm) := arcs_and_pdf k d e (fit_start labels gdens0) in
    (clustering_unsup (nltb O) fzero fmax fbot k g2, cmm).
End KnnFit.
