(* Entry points for the large-size correspondence cases of the KNN family (harness/large_knn.py).
   Same models as Model/RunKnn.v; only the way the case file hands over the weights differs: a list of rows
   (row lookup, then column lookup: linear per access) instead of one flat list indexed by p * n + q
   (quadratic per access in unary nat), so that graphs of a few hundred nodes stay cheap under vm_compute. *)
From Coq Require Import ZArith List Bool.
From OPF Require Import Base.Lists Base.NumOps Model.Heap Model.Knn Model.Run Model.RunSup Model.RunKnn.
Import ListNotations.
Open Scope Z_scope.

Definition wrows (rows : list (list Z)) (p q : nat) : Z := nth q (nth p rows []) 0.

(* create_arcs on a fresh subgraph of [length rows] nodes; output as run_create_arcs *)
Definition run_create_arcs_rows (zero top thr one : Z) (k : Z) (rows : list (list Z)) : list Z :=
  let nn := length rows in
  let '(g, maxd) := create_arcs Z.ltb zero top thr one (zn k) nn (wrows rows)
                                (knn_init zero (repeat 0%nat nn)) in
  flatten_adj (k_adj g) ++ k_radius g ++ [k_gdens g] ++ maxd.
