(* Heap.dad's expression [int((i - 1) / 2)] on primitive binary64 numbers, before the truncation
   (definition only; Proofs/Binary64Dad.v, Props/C05_binary64.v). *)
From Coq Require Import ZArith Floats.
From OPF Require Import Base.NumOps.

Definition fdad (i : Z) : PrimFloat.float := PrimFloat.div (float_ofZ (i - 1)) (float_ofZ 2).
