(* Vocabulary for Props/C14_link.v: the three spellings of one KNN prediction
     (a) Model/KnnPredict.knn_query(_batch)          - the exp terms are a FUNCTION [E] of the scanned distance,
     (b) Model/RunKnn.run_knn_predict(_batch)        - PrimFloat, the exp terms are a TABLE per training node,
     (c) Model/KnnLearn.predict_step / predict_batch - any NumOps, a table per training node,
   compute the same thing.  Definitions only.

   (b) and (c) share one shape: after the scan, the term of slot l is

        0                      if distances[l] == FLOAT_MAX   (exp(-FLOAT_MAX/constant) underflows to 0)
        table[neighbours[l]]   otherwise

   [table_step] / [table_batch] is that shape over any [NumOps], keeping the selected training node
   (b reports it as an integer code, c reads its predicted label). *)
From Coq Require Import List ZArith Bool PrimFloat.
From OPF Require Import Base.Lists Base.NumOps Model.Heap Model.Knn Model.Pdf Model.KnnFit Model.KnnPredict
  Model.Run Model.RunKnn.
Import ListNotations.
Local Open Scope nat_scope.

Section TableForm.
  Context {F : Type} (O : NumOps F).
  Variables fmax eps : F.
  Variable maxd : Z.

  (* the term of slot [l] read from the table [eq] (indexed by training node) *)
  Definition table_term (ds : list F) (ns : list nat) (eq : nat -> F) (l : nat) : F :=
    if neqb O (nth l ds fmax) fmax then fzero O else eq (nth l ns 0).

  Definition table_step (g : @knn F) (k n : nat) (mn mx : F)
             (st : list nat * list (option nat)) (q : (nat -> F) * (nat -> F)) : list nat * list (option nat) :=
    let '(ns0, out) := st in
    let '(dq, eq) := q in
    let '(ds, ns) := knn_scan (nltb O) fmax k n dq None ns0 in
    (ns, out ++ [knn_pick (nltb O) (fzero O) fmax (fbot O fmax) g k
                          (query_density O maxd eps mn mx k (table_term ds ns eq)) ds ns]).

  Definition table_batch (g : @knn F) (k n : nat) (mn mx : F) (qs : list ((nat -> F) * (nat -> F)))
    : list (option nat) :=
    snd (fold_left (table_step g k n mn mx) qs (repeat 0 (S k), [])).

  (* "the table [eq] is [E] applied to the distances [dq]", sentinel-aware form:
     [E] sends FLOAT_MAX (more precisely everything the carrier's == identifies with it) to 0, and on
     every training node whose distance is not FLOAT_MAX the table entry is E(distance) *)
  Definition table_of (E : F -> F) (n : nat) (q : (nat -> F) * (nat -> F)) : Prop :=
    forall j, j < n -> neqb O (fst q j) fmax = false -> E (fst q j) = snd q j.

  Definition sentinel_to_zero (E : F -> F) : Prop :=
    neqb O fmax fmax = true /\ forall x, neqb O x fmax = true -> E x = fzero O.
End TableForm.

(* ---------- PrimFloat: the harness's case format ---------- *)

(* a query of run_knn_predict_batch: (distances, exp terms), both over the training nodes *)
Definition fq_dist (q : list float * list float) : nat -> float := fun j => nth j (fst q) 0%float.
Definition fq_exp (q : list float * list float) : nat -> float := fun j => nth j (snd q) 0%float.
Definition fq_fun (q : list float * list float) : (nat -> float) * (nat -> float) := (fq_dist q, fq_exp q).

(* the graph run_knn_predict builds around the cost array *)
Definition cost_graph (cost : list float) : @knn float :=
  mkKnn [] [] [] [] [] cost [] [] [] [] [] 0%float 0%nat.

(* the function a finite table denotes: first entry whose distance is == x; FLOAT_MAX |-> 0 *)
Definition lookup_E (tab : list (float * float)) (x : float) : float :=
  if PrimFloat.eqb x fmaxF then 0%float
  else match find (fun p => PrimFloat.eqb (fst p) x) tab with
       | Some p => snd p
       | None => 0%float
       end.

(* all (distance, exp term) pairs of a batch, in order *)
Definition batch_table (qs : list (list float * list float)) : list (float * float) :=
  concat (map (fun q => combine (fst q) (snd q)) qs).

(* decoding of the integer code printed by run_knn_predict *)
Definition sel_decode (z : Z) : option nat := if Z.ltb z 0 then None else Some (zn z).
