(* opf_accuracy over the reals, exact and with a rounding after every arithmetic operation
   (definitions only; Proofs/AccuracyRounding.v, Props/C20_rounding.v, Props/C20_binary64.v).

   /repo/opfython/math/general.py, opf_accuracy:
       errors[:, 1] /= counts;  errors[:, 0] /= np.nansum(counts) - counts
       errors = np.nansum(errors, axis=1);  accuracy = 1 - np.sum(errors) / (2 * n_class)
   With the counting vocabulary of Model/Measures.v (FP c = #{pred = c, label <> c}, FN c = #{label = c, pred <> c},
   n_c = count c labels, N = length labels, K = n_class labels):

     acc_fp c = FP_c / (N - n_c)      acc_fn c = FN_c / n_c          (Coq's x / 0 = 0 at x = 0: the nansum convention)
     acc_E    = sum_c (acc_fp c + acc_fn c)        acc_x = acc_E / (2K)        acc_exact = 1 - acc_x

   [accuracy_rnd rnd] is the same expression with [rnd] after every operation, the K row sums accumulated by the
   plain left-to-right loop starting from 0. that numpy uses below 8 entries.  The float-level model that is run
   against the library is [accuracy_F] (Model/KnnLearn.v, generic in the numeric record, numpy's pairwise
   summation for every K); Proofs/AccuracyRounding.v shows [accuracy_F (RndOps rnd) = accuracy_rnd rnd] when
   K < 8 and proves the theorems for [accuracy_F (RndOps rnd)] itself, for every K. *)
From Coq Require Import Reals List Arith.
From OPF Require Import Spec.MetricSpec Model.Measures.
From OPF Require Import Base.NumOpsRnd Model.KnnLearn.
Import ListNotations.
Local Open Scope R_scope.

Definition acc_fp (labels preds : list nat) (c : nat) : R :=
  INR (FP c labels preds) / INR (length labels - count c labels).
Definition acc_fn (labels preds : list nat) (c : nat) : R :=
  INR (FN c labels preds) / INR (count c labels).

Definition acc_rows (labels preds : list nat) : list R :=
  map (fun c => acc_fp labels preds c + acc_fn labels preds c) (seq 0 (n_class labels)).

Definition acc_E (labels preds : list nat) : R := sum (acc_rows labels preds).
Definition acc_x (labels preds : list nat) : R := acc_E labels preds / INR (2 * n_class labels).
Definition acc_exact (labels preds : list nat) : R := 1 - acc_x labels preds.

Section Rnd.
  Variable rnd : R -> R.

  Definition acc_row_rnd (labels preds : list nat) (c : nat) : R :=
    rnd (rnd (acc_fp labels preds c) + rnd (acc_fn labels preds c)).

  Definition acc_rows_rnd (labels preds : list nat) : list R :=
    map (acc_row_rnd labels preds) (seq 0 (n_class labels)).

  (* the computed error rate rnd (np.sum(errors) / (2K)), numpy's summation order *)
  Definition acc_q (labels preds : list nat) : R :=
    rnd (np_sum (RndOps rnd) (acc_rows_rnd labels preds) / INR (2 * n_class labels)).

  Definition accuracy_rnd (labels preds : list nat) : R :=
    rnd (1 - rnd (fold_left (fun acc e => rnd (acc + e)) (acc_rows_rnd labels preds) 0
                  / INR (2 * n_class labels))).
End Rnd.
