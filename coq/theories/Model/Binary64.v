(* IEEE-754 binary64 as a rounding function on the reals (definitions only; proofs in Proofs/Binary64*.v).

   [rnd64]   round-to-nearest, ties-to-even, onto the binary64 format WITH gradual underflow
             (Flocq's FLT format: 53 bits, minimal exponent -1074) and unbounded above.  It is what every
             finite binary64 operation computes as long as the rounded result stays below 2^1024
             (Proofs/Binary64Ops.v: the bridge to Coq's primitive floats, through Flocq's IEEE754/PrimFloat.v).
   [rnd64x]  the same rounding with unbounded exponent range in BOTH directions (Flocq's FLX format: 53 bits):
             no underflow.  [rnd64 t = rnd64x t] whenever 2^-1022 <= |t|.
   [f2r]     the real value of a primitive float (0 for NaN and the infinities, as in Flocq's [B2R]).
   [ffin]    the float is finite (neither NaN nor an infinity): Coq's [PrimFloat.is_finite].
   The unit roundoff [u64 = / 2 ^ 53] is the existing definition of Proofs/RdepthWitness.v. *)
From Coq Require Import Reals ZArith Floats.
From Flocq Require Import Core.Core IEEE754.BinarySingleNaN IEEE754.PrimFloat.

Definition rnd64 : R -> R := round radix2 (FLT_exp (-1074) 53) ZnearestE.
Definition rnd64x : R -> R := round radix2 (FLX_exp 53) ZnearestE.

Definition f2r (x : PrimFloat.float) : R := B2R (Prim2B x).
Definition ffin (x : PrimFloat.float) : bool := PrimFloat.is_finite x.

(* the rounded result does not overflow: its magnitude stays below 2^1024 *)
Definition fits64 (t : R) : Prop := (Rabs (rnd64 t) < bpow radix2 1024)%R.
