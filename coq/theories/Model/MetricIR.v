(* The metric expression language (DESIGN 3.3): a deep embedding of the straight-line numpy
   bodies of opfython/math/distance.py, and its exact-real evaluator.

   Gen/Metrics_gen.v (regenerated from the source on every run) contains one [metric_ir] per
   `def *_distance`.  Vector expressions are evaluated *pointwise*: [evalV v x y a b] is the entry of
   the vector denoted by [v] at a position where the two arguments hold [a] and [b]; numpy's
   scalar broadcasting is the constructor [VConstS].  A scalar expression sees the whole argument
   lists.  The semantics is the numpy one for equal-length arguments (numpy/numba reject or
   misbehave on unequal lengths; every theorem carries [length x = length y]).

   No proofs here; see Proofs/IRLemmas.v and Proofs/ClosedForms*.v. *)
From Coq Require Import Reals QArith Qreals String List.
From OPF Require Import Model.Consts Model.Effects Spec.MetricSpec Gen.Consts_gen.
Import ListNotations.
Open Scope R_scope.

Inductive binop := BAdd | BSub | BMul | BDiv | BMin | BMax.
Inductive unop := UNeg | UFabs | ULog | UExp | USqrt.
Inductive pconst := PTwo | PHalf.                  (* `** 2`, `** 0.5` *)
Inductive cmpop := CGe | CGt | CLe | CLt.

Inductive vexpr :=
| VX | VY                                          (* the first / second positional parameter *)
| VConstS (s : sexpr)                              (* a scalar broadcast over the vector *)
| VBin (o : binop) (a b : vexpr)
| VUn (o : unop) (a : vexpr)
| VPowC (a : vexpr) (c : pconst)
| VSel (c : cmpop) (l r : vexpr) (a b : vexpr)     (* per index: a where (l c r) holds, else b  (hassanat) *)
with sexpr :=
| SSum (v : vexpr)                                 (* np.sum *)
| SAmax (v : vexpr)                                (* np.amax *)
| SCountNe (a b : vexpr)                           (* np.count_nonzero(a != b) *)
| SLen                                             (* x.shape[0] *)
| SConstQ (q : Q)                                  (* numeric literal, exact *)
| SConstName (n : cname)                           (* c.EPSILON, c.MAX_ARC_WEIGHT *)
| SParam (p : string)                              (* an extra scalar parameter (gaussian's gamma) *)
| SBin (o : binop) (a b : sexpr)
| SUn (o : unop) (a : sexpr)
| SPowC (a : sexpr) (c : pconst)
| SCall (f : string) (a b : vexpr).                (* sibling metric: squared_euclidean_distance(x, y) *)

Record metric_ir := {
  m_name : string;                                 (* the Python function name *)
  m_avoid_zero : bool;                             (* carries @d.avoid_zero_division *)
  m_njit : bool;                                   (* carries @njit(...) *)
  m_params : list (string * option Q);             (* parameters in order, with default values *)
  m_body : sexpr
}.

Definition mtable := list (string * metric_ir).

Fixpoint lookup_ir (f : string) (t : mtable) : option metric_ir :=
  match t with
  | [] => None
  | (k, m) :: r => if String.eqb f k then Some m else lookup_ir f r
  end.

(* ---- constants ---- *)
Definition cvalR (n : cname) : R := match cvalQ n with Some q => Q2R q | None => 0 end.

(* ---- operators over R ---- *)
Definition binR (o : binop) : R -> R -> R :=
  match o with BAdd => Rplus | BSub => Rminus | BMul => Rmult | BDiv => Rdiv | BMin => Rmin | BMax => Rmax end.
Definition unR (o : unop) : R -> R :=
  match o with UNeg => Ropp | UFabs => Rabs | ULog => ln | UExp => exp | USqrt => sqrt end.
Definition powR (c : pconst) (a : R) : R := match c with PTwo => a ^ 2 | PHalf => sqrt a end.
Definition cmpR (c : cmpop) (l r : R) : bool :=
  match c with
  | CGe => if Rle_dec r l then true else false
  | CGt => if Rlt_dec r l then true else false
  | CLe => if Rle_dec l r then true else false
  | CLt => if Rlt_dec l r then true else false
  end.

Section Eval.
  Variable call : string -> list R -> list R -> R.   (* meaning of sibling metrics *)
  Variable pe : string -> R.                         (* values of the extra scalar parameters *)

  Fixpoint evalS (s : sexpr) (x y : list R) {struct s} : R :=
    match s with
    | SSum v => sum (map2 (fun a b => evalV v x y a b) x y)
    | SAmax v => lmax (map2 (fun a b => evalV v x y a b) x y)
    | SCountNe u v =>
        sum (map2 (fun a b => if Rneqb (evalV u x y a b) (evalV v x y a b) then 1 else 0) x y)
    | SLen => len x
    | SConstQ q => Q2R q
    | SConstName n => cvalR n
    | SParam p => pe p
    | SBin o s1 s2 => binR o (evalS s1 x y) (evalS s2 x y)
    | SUn o s1 => unR o (evalS s1 x y)
    | SPowC s1 c => powR c (evalS s1 x y)
    | SCall f u v =>
        call f (map2 (fun a b => evalV u x y a b) x y) (map2 (fun a b => evalV v x y a b) x y)
    end
  with evalV (v : vexpr) (x y : list R) (a b : R) {struct v} : R :=
    match v with
    | VX => a
    | VY => b
    | VConstS s => evalS s x y
    | VBin o v1 v2 => binR o (evalV v1 x y a b) (evalV v2 x y a b)
    | VUn o v1 => unR o (evalV v1 x y a b)
    | VPowC v1 c => powR c (evalV v1 x y a b)
    | VSel c l r v1 v2 =>
        if cmpR c (evalV l x y a b) (evalV r x y a b) then evalV v1 x y a b else evalV v2 x y a b
    end.
End Eval.

(* ---- the decorator, value level (the store level is Model/Effects) ---- *)
Definition venv := list (string * list R).

Fixpoint vlookup (p : string) (e : venv) : option (list R) :=
  match e with
  | [] => None
  | (k, v) :: r => if String.eqb p k then Some v else vlookup p r
  end.

Fixpoint vset (p : string) (v : list R) (e : venv) : venv :=
  match e with
  | [] => []
  | (k, w) :: r => if String.eqb p k then (k, v) :: r else (k, w) :: vset p v r
  end.

Fixpoint vlookups (ps : list string) (e : venv) : option (list (list R)) :=
  match ps with
  | [] => Some []
  | p :: r => match vlookup p e, vlookups r e with
              | Some v, Some vs => Some (v :: vs)
              | _, _ => None
              end
  end.

Definition add_const (c : cname) (v : list R) : list R := map (fun a => a + cvalR c) v.

(* arguments handed to the wrapped function; None = the program does not end in a call *)
Fixpoint dec_run (prog : list dstmt) (e : venv) : option (list (list R)) :=
  match prog with
  | [] => None
  | AugAdd p c :: r | Rebind p c :: r =>
      match vlookup p e with
      | Some v => dec_run r (vset p (add_const c v) e)
      | None => None
      end
  | ReturnCall ps :: _ => vlookups ps e
  end.

Definition dec_apply (params : list string) (prog : list dstmt) (args : list (list R))
  : option (list (list R)) := dec_run prog (combine params args).

(* ---- a whole metric ---- *)
Fixpoint param_default (ps : list (string * option Q)) (p : string) : R :=
  match ps with
  | [] => 0
  | (k, d) :: r => if String.eqb p k then match d with Some q => Q2R q | None => 0 end
                   else param_default r p
  end.

(* the undecorated function, extra parameters given by [pe] *)
Definition eval_body (call : string -> list R -> list R -> R) (pe : string -> R)
           (m : metric_ir) (x y : list R) : R := evalS call pe (m_body m) x y.

(* the module-level name: decorated iff the source carries @d.avoid_zero_division *)
Definition wrap (call : string -> list R -> list R -> R) (dparams : list string) (dprog : list dstmt)
           (pe : string -> R) (m : metric_ir) (x y : list R) : R :=
  if m_avoid_zero m then
    match dec_apply dparams dprog [x; y] with
    | Some [x'; y'] => eval_body call pe m x' y'
    | _ => 0
    end
  else eval_body call pe m x y.

(* sibling calls resolve through the table of all metrics; they are never recursive, the
   fuel only makes the definition structural *)
Fixpoint call_fuel (t : mtable) (dparams : list string) (dprog : list dstmt) (fuel : nat)
         (f : string) (x y : list R) : R :=
  match fuel with
  | O => 0
  | S n => match lookup_ir f t with
           | Some m => wrap (call_fuel t dparams dprog n) dparams dprog (param_default (m_params m)) m x y
           | None => 0
           end
  end.

Definition call_depth : nat := 3.

(* a bare scalar expression over the table (no decorator, no extra parameters) *)
Definition evalR (t : mtable) (dparams : list string) (dprog : list dstmt)
           (s : sexpr) (x y : list R) : R :=
  evalS (call_fuel t dparams dprog call_depth) (fun _ => 0) s x y.

(* the value `DISTANCES[k](x, y)` computes over the reals, extra parameters at [pe] *)
Definition evalR_wrapped_with (t : mtable) (dparams : list string) (dprog : list dstmt)
           (pe : string -> R) (m : metric_ir) (x y : list R) : R :=
  wrap (call_fuel t dparams dprog call_depth) dparams dprog pe m x y.

(* ... extra parameters at their defaults (this is how every model calls `distance_fn(x, y)`) *)
Definition evalR_wrapped (t : mtable) (dparams : list string) (dprog : list dstmt)
           (m : metric_ir) (x y : list R) : R :=
  evalR_wrapped_with t dparams dprog (param_default (m_params m)) m x y.
