(* Rounding depth with quotients and with the decorator: the analysis of Model/MetricRdepth.v extended to
   (a) divisions by ROUNDED divisors and (b) the bodies behind @avoid_zero_division.

   (a) A rounded divisor contributes a factor 1/(1+d), which lies in [1/(1+u), 1/(1-u)] and not in [1-u, 1+u].
       The depth becomes a pair (p, q):   [within2 u p q t t']  :=  t' = t * rho  with

                 (1-u)^p / (1+u)^q   <=   rho   <=   (1+u)^p / (1-u)^q

       ([lo_f] / [up_f]; q = 0 is [within u p] of Model/MetricRdepth.v).  Hence, for t >= 0,
       |t' - t| <= ((1+u)^p / (1-u)^q - 1) t: closed form again, no side condition besides 0 <= u < 1.

   (b) The decorator computes x' = rnd (x + EPSILON) entrywise ([rshift rnd x]) and hands x', y' to the body.
       Relative to the exact-real value at x + EPSILON no relative bound holds in the standard model (the first
       subtraction of the body cancels two rounded operands).  What does hold is a MIXED statement: the computed
       value is [within2] of the exact-real value of the body AT THE COMPUTED ARGUMENTS x', y'
       ([metric_exact_at]).  In binary64 x + 1e-20 = x for |x| >= 1e-4, so for such entries x' is the user's x.
       Sibling calls to decorated functions stay outside (they would shift once more).

   Rules ([rq_bin] ...), with a = (pa, qa), b = (pb, qb):
     a + b, a - b   a, b exact                              (1, 0)
     a + b          a, b >= 0                               (max pa pb + 1, max qa qb)
     a * b                                                  (pa + pb + 1, qa + qb)
     a / b          b of strict sign (exact value <> 0)     (pa + qb + 1, qa + pb)
     a ** 2                                                 (2 pa + 1, 2 qa)
     sqrt a         a >= 0                                  (ceil(pa/2) + 1, ceil(qa/2))
     fabs a, -a                                             (pa, qa)
     minimum, maximum   a, b exact: (0, 0);   a, b >= 0:    (max pa pb, max qa qb)
     np.sum(v)      v >= 0                                  (pv + (n - 1), qv)
     np.amax(v)     v >= 0 or exact                         (pv, qv)
     count_nonzero(a != b)   a, b exact, or b the literal 0 and a of strict sign (the count is the length)  (0, 0)
     f(a, b)        a, b exact, f not decorated             depth of f's body
   log, exp, per-index select: outside.

   No proofs here; soundness is Proofs/RdepthQSound.v. *)
From Coq Require Import Reals QArith String List Bool Arith.
From OPF Require Import Model.Consts Model.Effects Spec.MetricSpec Gen.Consts_gen Model.MetricIR
     Gen.Metrics_gen Gen.Decorator_gen Model.MetricRnd Model.MetricRdepth.
Import ListNotations.
Open Scope R_scope.

Definition up_f (u : R) (p q : nat) : R := (1 + u) ^ p * (/ (1 - u)) ^ q.
Definition lo_f (u : R) (p q : nat) : R := (1 - u) ^ p * (/ (1 + u)) ^ q.

Definition within2 (u : R) (p q : nat) (t t' : R) : Prop :=
  exists rho, t' = t * rho /\ lo_f u p q <= rho <= up_f u p q.

Definition rq := (nat * nat * cls)%type.
Definition rq_p (r : rq) : nat := fst (fst r).
Definition rq_q (r : rq) : nat := snd (fst r).
Definition rq_c (r : rq) : cls := snd r.
Definition rq_exact (r : rq) : bool := (rq_p r =? 0)%nat && (rq_q r =? 0)%nat.
Definition cls_strict (c : cls) : bool := match c with Pos | Neg => true | _ => false end.

Definition rq_bin (o : binop) (a b : rq) : option rq :=
  let '(pa, qa, ca) := a in
  let '(pb, qb, cb) := b in
  let exact2 := rq_exact a && rq_exact b in
  let nonneg2 := cls_nonneg ca && cls_nonneg cb in
  match o with
  | BAdd => if nonneg2 then Some (S (Nat.max pa pb), Nat.max qa qb, cls_add ca cb)
            else if exact2 then Some (1%nat, 0%nat, cls_add ca cb) else None
  | BSub => if exact2 then Some (1%nat, 0%nat, cls_sub ca cb) else None
  | BMul => Some (S (pa + pb), (qa + qb)%nat, cls_mul ca cb)
  | BDiv => match cls_div ca cb with
            | Some c => Some (S (pa + qb), (qa + pb)%nat, c)
            | None => None
            end
  | BMin => if exact2 then Some (0%nat, 0%nat, cls_min ca cb)
            else if nonneg2 then Some (Nat.max pa pb, Nat.max qa qb, cls_min ca cb) else None
  | BMax => if exact2 then Some (0%nat, 0%nat, cls_max ca cb)
            else if nonneg2 then Some (Nat.max pa pb, Nat.max qa qb, cls_max ca cb) else None
  end.

Definition rq_sqrt (a : rq) : option rq :=
  let '(p, q, c) := a in
  match cls_sqrt c with Some c' => Some (S (half_up p), half_up q, c') | None => None end.

Definition rq_un (o : unop) (a : rq) : option rq :=
  match o with
  | UNeg => Some (rq_p a, rq_q a, cls_opp (rq_c a))
  | UFabs => Some (rq_p a, rq_q a, cls_abs (rq_c a))
  | ULog => None
  | UExp => None
  | USqrt => rq_sqrt a
  end.

Definition rq_pow (pc : pconst) (a : rq) : option rq :=
  match pc with
  | PTwo => Some (S (2 * rq_p a), (2 * rq_q a)%nat, cls_abs (rq_c a))
  | PHalf => rq_sqrt a
  end.

Section Depth.
  Variable n : nat.
  Variable callk : string -> cls -> option rq.

  Fixpoint rqS (c : cls) (s : sexpr) {struct s} : option rq :=
    match s with
    | SSum v =>
        match rqV c v with
        | Some (p, q, c') => if cls_nonneg c' then Some ((p + Nat.pred n)%nat, q, c') else None
        | None => None
        end
    | SAmax v =>
        match rqV c v with
        | Some r => if cls_nonneg (rq_c r) || rq_exact r then Some r else None
        | None => None
        end
    | SCountNe a b =>
        match rqV c a, rqV c b with
        | Some ra, Some rb =>
            if rq_exact ra && rq_exact rb then Some (0%nat, 0%nat, NonNeg)
            else if is_zero_const b && cls_strict (rq_c ra) then Some (0%nat, 0%nat, Pos)
            else None
        | _, _ => None
        end
    | SLen => Some (0%nat, 0%nat, Pos)
    | SConstQ q => Some (0%nat, 0%nat, cls_Q q)
    | SConstName nm => Some (0%nat, 0%nat, cls_cname nm)
    | SParam _ => Some (0%nat, 0%nat, Any)
    | SBin o s1 s2 => obind2 (rqS c s1) (rqS c s2) (rq_bin o)
    | SUn o s1 => obind (rqS c s1) (rq_un o)
    | SPowC s1 pc => obind (rqS c s1) (rq_pow pc)
    | SCall f a b =>
        match rqV c a, rqV c b with
        | Some ra, Some rb =>
            if rq_exact ra && rq_exact rb then callk f (cls_join (rq_c ra) (rq_c rb)) else None
        | _, _ => None
        end
    end
  with rqV (c : cls) (v : vexpr) {struct v} : option rq :=
    match v with
    | VX | VY => Some (0%nat, 0%nat, c)
    | VConstS s => rqS c s
    | VBin o v1 v2 => obind2 (rqV c v1) (rqV c v2) (rq_bin o)
    | VUn o v1 => obind (rqV c v1) (rq_un o)
    | VPowC v1 pc => obind (rqV c v1) (rq_pow pc)
    | VSel _ _ _ _ _ => None
    end.
End Depth.

(* a sibling: never decorated *)
Definition wrap_rq_callee (n : nat) (callk : string -> cls -> option rq) (m : metric_ir) (c : cls) : option rq :=
  if m_avoid_zero m then None else rqS n callk c (m_body m).

Fixpoint call_rq (n : nat) (t : mtable) (fuel : nat) (f : string) (c : cls) : option rq :=
  match fuel with
  | O => None
  | S g => match lookup_ir f t with
           | Some m => wrap_rq_callee n (call_rq n t g) m c
           | None => None
           end
  end.

(* the class of x + EPSILON (then rounded) for x of class c *)
Definition shift_cls (c : cls) : cls := cls_add c (cls_cname CEpsilon).

(* the module-level function: a decorated body sees the shifted class *)
Definition rdepthq_gen (t : mtable) (c : cls) (m : metric_ir) (n : nat) : option rq :=
  rqS n (call_rq n t call_depth) (if m_avoid_zero m then shift_cls c else c) (m_body m).

(* ---- at the generated table ---- *)
Definition rdepthq_in (c : cls) (m : metric_ir) (n : nat) : option (nat * nat) :=
  option_map fst (rdepthq_gen all_metrics_ir c m n).

(* by Python function name, user vectors of class [c] *)
Definition rdepthq_name (c : cls) (f : string) (n : nat) : option (nat * nat) :=
  match lookup_ir f all_metrics_ir with
  | Some m => rdepthq_in c m n
  | None => None
  end.

(* ---- the exact-real reference ---- *)
(* what the decorator hands to the body, computed with [rnd] *)
Definition rshift (rnd : R -> R) (x : list R) : list R := map (fun a => rnd (a + EPSILON)) x.

(* the exact-real value of the BODY of [m] (no decorator) at the arguments x y, parameters at their defaults *)
Definition body_value (m : metric_ir) (x y : list R) : R :=
  eval_body (call_fuel all_metrics_ir decorator_params decorator_body call_depth)
            (param_default (m_params m)) m x y.

(* the reference of the mixed statement: the body's exact value at the arguments the rounded run hands to it *)
Definition metric_exact_at (rnd : R -> R) (m : metric_ir) (x y : list R) : R :=
  if m_avoid_zero m then body_value m (rshift rnd x) (rshift rnd y) else body_value m x y.

(* ---- the statement proved for each covered decorated identifier ----
   [sp] the closed form, (p n, q n) the depth, [c] the class of the user's vectors;
   x' = rnd (x + EPSILON), y' = rnd (y + EPSILON) entrywise. *)
Definition rounding_bound_shift (c : cls) (m : metric_ir) (sp : list R -> list R -> R) (p q : nat -> nat) : Prop :=
  forall u rnd, 0 <= u < 1 -> rnd_rel u rnd ->
  forall x y, length x = length y -> (1 <= length x)%nat -> Forall (in_cls c) x -> Forall (in_cls c) y ->
  exists fl, metric_rnd rnd m x y = Some fl
             /\ lo_f u (p (length x)) (q (length x)) * sp (rshift rnd x) (rshift rnd y) <= fl
                <= up_f u (p (length x)) (q (length x)) * sp (rshift rnd x) (rshift rnd y)
             /\ Rabs (fl - sp (rshift rnd x) (rshift rnd y))
                <= (up_f u (p (length x)) (q (length x)) - 1) * sp (rshift rnd x) (rshift rnd y).
