(* Model of opfython/models/supervised.py (_find_prototypes, fit, predict) and
   opfython/models/semi_supervised.py (fit), with Subgraph.mark_nodes.

   Arc weights enter as a function [w : nat -> nat -> W] (covers both the metric branch
   and the pre-computed branch, see C10); everything is order-only (only [ltb] on W).
   Node fields are parallel lists indexed by node number.  [None] is c.NIL. *)
From Coq Require Import List Arith Bool.
From OPF Require Import Base.Lists Model.Heap.
Import ListNotations.

Section Sup.
  Context {W : Type}.
  Variable ltb : W -> W -> bool.
  Variables zero top : W.                 (* 0 and c.FLOAT_MAX *)

  Definition wmax (a b : W) : W := if ltb a b then b else a.   (* np.maximum *)

  Record nodes := mkNodes {
    n_cost : list W;
    n_pred : list (option nat);
    n_label : list nat;
    n_plabel : list nat;            (* predicted_label *)
    n_status : list bool;           (* true = PROTOTYPE *)
    n_relevant : list bool;
    n_order : list nat              (* subgraph.idx_nodes *)
  }.

  (* Subgraph(X, Y): fresh nodes *)
  Definition nodes_init (labels : list nat) : nodes :=
    let n := length labels in
    mkNodes (repeat zero n) (repeat None n) labels (repeat 0 n) (repeat false n) (repeat false n) [].

  Definition hcost_at (h : heap W) (q : nat) : W := nth q (hcost h) top.
  Definition is_black (h : heap W) (q : nat) : bool :=
    match nth q (hcolor h) White with Black => true | _ => false end.

  (* ---------------- _find_prototypes (Prim) ---------------- *)

  Definition prim_relax (w : nat -> nat -> W) (p : nat) (st : heap W * list (option nat)) (q : nat)
    : heap W * list (option nat) :=
    let '(h, pred) := st in
    if negb (is_black h q) && negb (Nat.eqb p q) then
      let weight := w p q in
      if ltb weight (hcost_at h q) then (update ltb top h q weight, upd pred q (Some p))
      else (h, pred)
    else (h, pred).

  Definition mark_proto (status : list bool) (label : list nat) (p : nat) (pr : option nat) : list bool :=
    match pr with
    | None => status
    | Some pd =>
      if negb (Nat.eqb (nth p label 0) (nth pd label 0))
      then upd (upd status p true) pd true
      else status
    end.

  Fixpoint prim_loop (fuel n : nat) (w : nat -> nat -> W) (h : heap W) (nd : nodes) : heap W * nodes :=
    match fuel with
    | 0 => (h, nd)
    | S f =>
      match remove ltb top h with
      | (_, None) => (h, nd)
      | (h1, Some p) =>
        let cost := upd (n_cost nd) p (hcost_at h1 p) in
        let status := mark_proto (n_status nd) (n_label nd) p (nth p (n_pred nd) None) in
        let '(h2, pred) := fold_left (prim_relax w p) (seq 0 n) (h1, n_pred nd) in
        prim_loop f n w h2
          (mkNodes cost pred (n_label nd) (n_plabel nd) status (n_relevant nd) (n_order nd))
      end
    end.

  (* runs Prim over nodes 0..n-1 of [nd] *)
  Definition find_prototypes (n : nat) (w : nat -> nat -> W) (nd : nodes) : nodes :=
    match n with
    | 0 => nd
    | _ =>
      let h0 := h_init top n PMin in
      let nd0 := mkNodes (n_cost nd) (upd (n_pred nd) 0 None) (n_label nd) (n_plabel nd)
                         (n_status nd) (n_relevant nd) (n_order nd) in
      let '(h1, _) := insert ltb top h0 0 in
      snd (prim_loop n n w h1 nd0)
    end.

  (* ---------------- fit: the competition ---------------- *)

  Definition seed_step (st : heap W * nodes) (i : nat) : heap W * nodes :=
    let '(h, nd) := st in
    if nth i (n_status nd) false then
      let nd1 := mkNodes (n_cost nd) (upd (n_pred nd) i None) (n_label nd)
                         (upd (n_plabel nd) i (nth i (n_label nd) 0)) (n_status nd)
                         (n_relevant nd) (n_order nd) in
      (fst (insert ltb top (set_cost h i zero) i), nd1)
    else (set_cost h i top, nd).

  (* [semi = true]: semi_supervised.py additionally writes label[q] := predicted_label[q]
     for the unlabeled nodes [q >= nl] ([nl] = number of labeled nodes) *)
  Definition fit_relax (semi : bool) (nl : nat) (w : nat -> nat -> W) (p : nat) (st : heap W * nodes) (q : nat)
    : heap W * nodes :=
    let '(h, nd) := st in
    if negb (Nat.eqb p q) && ltb (hcost_at h p) (hcost_at h q) then
      let cur := wmax (hcost_at h p) (w p q) in
      if ltb cur (hcost_at h q) then
        let pl := nth p (n_plabel nd) 0 in
        let nd1 := mkNodes (n_cost nd) (upd (n_pred nd) q (Some p))
                           (if semi && Nat.leb nl q then upd (n_label nd) q pl else n_label nd)
                           (upd (n_plabel nd) q pl) (n_status nd) (n_relevant nd) (n_order nd) in
        (update ltb top h q cur, nd1)
      else (h, nd)
    else (h, nd).

  Fixpoint fit_loop (fuel n : nat) (semi : bool) (nl : nat) (w : nat -> nat -> W) (h : heap W) (nd : nodes)
    : heap W * nodes :=
    match fuel with
    | 0 => (h, nd)
    | S f =>
      match remove ltb top h with
      | (_, None) => (h, nd)
      | (h1, Some p) =>
        let nd1 := mkNodes (upd (n_cost nd) p (hcost_at h1 p)) (n_pred nd) (n_label nd) (n_plabel nd)
                           (n_status nd) (n_relevant nd) (n_order nd ++ [p]) in
        let '(h2, nd2) := fold_left (fit_relax semi nl w p) (seq 0 n) (h1, nd1) in
        fit_loop f n semi nl w h2 nd2
      end
    end.

  Definition compete (semi : bool) (nl n : nat) (w : nat -> nat -> W) (nd : nodes) : nodes :=
    let '(h, nd1) := fold_left seed_step (seq 0 n) (h_init top n PMin, nd) in
    snd (fit_loop n n semi nl w h nd1).

  (* SupervisedOPF.fit *)
  Definition sup_fit (labels : list nat) (w : nat -> nat -> W) : nodes :=
    let n := length labels in
    compete false n n w (find_prototypes n w (nodes_init labels)).

  (* SemiSupervisedOPF.fit: [labels] for the labeled prefix, [nu] unlabeled nodes appended with label 0 *)
  Definition append_unlabeled (nd : nodes) (nu : nat) : nodes :=
    mkNodes (n_cost nd ++ repeat zero nu) (n_pred nd ++ repeat None nu) (n_label nd ++ repeat 0 nu)
            (n_plabel nd ++ repeat 0 nu) (n_status nd ++ repeat false nu)
            (n_relevant nd ++ repeat false nu) (n_order nd).

  Definition semi_fit (labels : list nat) (nu : nat) (w : nat -> nat -> W) : nodes :=
    let nl := length labels in
    compete true nl (nl + nu) w (append_unlabeled (find_prototypes nl w (nodes_init labels)) nu).

  (* ---------------- predict ---------------- *)

  (* the scan for one query; [d k] = distance between training node k and the query.
     returns (label, conqueror); the conqueror starts as the first node of the conquest order *)
  Fixpoint scan (fuel : nat) (nd : nodes) (d : nat -> W) (n j : nat) (min_cost : W) (lab : nat)
           (conq : option nat) : nat * option nat :=
    match fuel with
    | 0 => (lab, conq)
    | S f =>
      if Nat.ltb j (n - 1) &&
         ltb (nth (nth (j + 1) (n_order nd) 0) (n_cost nd) zero) min_cost
      then
        let l := nth (j + 1) (n_order nd) 0 in
        let tmp := wmax (nth l (n_cost nd) zero) (d l) in
        if ltb tmp min_cost
        then scan f nd d n (j + 1) tmp (nth l (n_plabel nd) 0) (Some l)
        else scan f nd d n (j + 1) min_cost lab conq
      else (lab, conq)
    end.

  Definition predict_one (nd : nodes) (d : nat -> W) : nat * option nat :=
    let n := length (n_cost nd) in
    let k := nth 0 (n_order nd) 0 in
    scan n nd d n 0 (wmax (nth k (n_cost nd) zero) (d k)) (nth k (n_plabel nd) 0) (Some k).

  (* Subgraph.mark_nodes *)
  Fixpoint mark_nodes (fuel : nat) (pred : list (option nat)) (rel : list bool) (i : nat) : list bool :=
    match fuel with
    | 0 => rel
    | S f =>
      match nth i pred None with
      | Some j => mark_nodes f pred (upd rel i true) j
      | None => upd rel i true
      end
    end.

  Definition predict_step (st : nodes * list nat) (d : nat -> W) : nodes * list nat :=
    let '(nd, out) := st in
    let '(lab, conq) := predict_one nd d in
    let rel := match conq with
               | Some c => mark_nodes (S (length (n_cost nd))) (n_pred nd) (n_relevant nd) c
               | None => n_relevant nd
               end in
    (mkNodes (n_cost nd) (n_pred nd) (n_label nd) (n_plabel nd) (n_status nd) rel (n_order nd),
     out ++ [lab]).

  (* SupervisedOPF.predict on a batch: [ds] = one distance function per query row *)
  Definition predict_batch (nd : nodes) (ds : list (nat -> W)) : nodes * list nat :=
    fold_left predict_step ds (nd, []).
End Sup.
