(* Z-level entry points for the supervised / semi-supervised correspondence cases. *)
From Coq Require Import ZArith List Bool.
From OPF Require Import Base.Lists Model.Heap Model.Sup Model.Run.
Import ListNotations.
Open Scope Z_scope.

Definition wfun (n : nat) (flat : list Z) (p q : nat) : Z := nth (p * n + q)%nat flat 0.

Definition opt_code (o : option nat) : Z := match o with Some k => nz k | None => -1 end.
Definition bool_code (b : bool) : Z := if b then 1 else 0.

Definition dump_nodes (nd : @nodes Z) : list Z :=
  map (fun c => c) (n_cost nd)
  ++ map opt_code (n_pred nd)
  ++ map nz (n_plabel nd)
  ++ map nz (n_label nd)
  ++ map bool_code (n_status nd)
  ++ map bool_code (n_relevant nd)
  ++ map nz (n_order nd).

(* _find_prototypes alone *)
Definition run_prim (zero top : Z) (labels : list Z) (wflat : list Z) : list Z :=
  let n := length labels in
  dump_nodes (find_prototypes Z.ltb top n (wfun n wflat) (nodes_init zero (map zn labels))).

Definition run_sup_fit (zero top : Z) (labels : list Z) (wflat : list Z) : list Z :=
  let n := length labels in
  dump_nodes (sup_fit Z.ltb zero top (map zn labels) (wfun n wflat)).

Definition run_semi_fit (zero top : Z) (labels : list Z) (nu : Z) (wflat : list Z) : list Z :=
  let n := (length labels + zn nu)%nat in
  dump_nodes (semi_fit Z.ltb zero top (map zn labels) (zn nu) (wfun n wflat)).

(* fit then predict a batch; [dflat] is m rows of n distances (training node k -> query i);
   output: predictions ++ relevant flags after the batch *)
Definition run_sup_predict (zero top : Z) (labels : list Z) (wflat : list Z) (m : Z) (dflat : list Z) : list Z :=
  let n := length labels in
  let nd := sup_fit Z.ltb zero top (map zn labels) (wfun n wflat) in
  let ds := map (fun i => fun k => nth (i * n + k)%nat dflat 0) (seq 0 (zn m)) in
  let '(nd', out) := predict_batch Z.ltb zero nd ds in
  map nz out ++ map bool_code (n_relevant nd').

Definition run_semi_predict (zero top : Z) (labels : list Z) (nu : Z) (wflat : list Z) (m : Z) (dflat : list Z) : list Z :=
  let n := (length labels + zn nu)%nat in
  let nd := semi_fit Z.ltb zero top (map zn labels) (zn nu) (wfun n wflat) in
  let ds := map (fun i => fun k => nth (i * n + k)%nat dflat 0) (seq 0 (zn m)) in
  let '(nd', out) := predict_batch Z.ltb zero nd ds in
  map nz out ++ map bool_code (n_relevant nd').
