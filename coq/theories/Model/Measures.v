(* Executable model of opfython/math/general.py:
     confusion_matrix, opf_accuracy, opf_accuracy_per_label, purity, normalize.

   Label / prediction vectors are [list nat] (class ids).  Python's [zip(labels, preds)] is
   [combine labels preds].  [np.zeros((K, K))] is a list of K rows of K zeros; [m[a][b] += 1]
   is [incr2 m a b].  Counting measures are computed over exact rationals [Q].

   Division: numpy computes [0/0 = nan] and the code then sums with [np.nansum], i.e. a 0/0
   term contributes 0.  Coq's [Qdiv x 0 == 0], so the plain [/] of [Q] is that convention.
   A division [x/0] with [x > 0] (numpy: inf) cannot arise when the Python code does not raise:
   [errors[c][1] <= counts[c]] and [errors[c][0] <= N - counts[c]] (see Proofs/MeasuresQ.v,
   [FN_le_n], [FP_le_rest]). *)
From Coq Require Import List Arith ZArith QArith Reals Lia.
From OPF Require Import Base.Lists.
Import ListNotations.
Local Open Scope nat_scope.

(* ------------------------------------------------------------------------------------ *)
(* small vocabulary *)

Definition zipw {A B C} (f : A -> B -> C) (l1 : list A) (l2 : list B) : list C :=
  map (fun ab => f (fst ab) (snd ab)) (combine l1 l2).

Definition qn (n : nat) : Q := inject_Z (Z.of_nat n).
Definition qsum (l : list Q) : Q := fold_right Qplus 0%Q l.

(* [np.max(labels) + 1] *)
Definition n_class (labels : list nat) : nat := S (list_max labels).

(* [l[i] += 1]  (no-op when i is out of range; Python raises IndexError there) *)
Definition incr (l : list nat) (i : nat) : list nat := upd l i (S (nth i l 0)).

(* [m[a][b] += 1] *)
Definition incr2 (m : list (list nat)) (a b : nat) : list (list nat) :=
  upd m a (incr (nth a m []) b).

Definition get2 (m : list (list nat)) (a b : nat) : nat := nth b (nth a m []) 0.

Definition zeros (k : nat) : list nat := repeat 0 k.
Definition zeros2 (r k : nat) : list (list nat) := repeat (zeros k) r.

(* ------------------------------------------------------------------------------------ *)
(* confusion_matrix *)

Definition cm_step (m : list (list nat)) (lp : nat * nat) : list (list nat) :=
  incr2 m (fst lp) (snd lp).

Definition confusion_matrix (labels preds : list nat) : list (list nat) :=
  let K := n_class labels in
  fold_left cm_step (combine labels preds) (zeros2 K K).

(* ------------------------------------------------------------------------------------ *)
(* opf_accuracy *)

(* errors[:, 0] and errors[:, 1] are kept as two columns (e0, e1) *)
Definition acc_step (e : list nat * list nat) (lp : nat * nat) : list nat * list nat :=
  if Nat.eqb (fst lp) (snd lp) then e
  else (incr (fst e) (snd lp), incr (snd e) (fst lp)).

Definition errors (labels preds : list nat) : list nat * list nat :=
  let K := n_class labels in
  fold_left acc_step (combine labels preds) (zeros K, zeros K).

Definition count (c : nat) (l : list nat) : nat := length (filter (Nat.eqb c) l).

(* [np.bincount(labels)] : length max+1, entry c = number of occurrences of c *)
Definition bincount (labels : list nat) : list nat :=
  map (fun c => count c labels) (seq 0 (n_class labels)).

Definition opf_accuracy (labels preds : list nat) : Q :=
  let K := n_class labels in
  let e := errors labels preds in
  let counts := bincount labels in
  let N := list_sum counts in                                       (* np.nansum(counts) *)
  let e1 := zipw (fun x c => (qn x / qn c)%Q) (snd e) counts in         (* errors[:, 1] /= counts *)
  let e0 := zipw (fun x c => (qn x / qn (N - c))%Q) (fst e) counts in   (* errors[:, 0] /= N - counts *)
  let rows := zipw Qplus e0 e1 in                                   (* np.nansum(errors, axis=1) *)
  (1 - qsum rows / qn (2 * K))%Q.

(* ------------------------------------------------------------------------------------ *)
(* opf_accuracy_per_label *)

Definition pl_step (e : list nat) (lp : nat * nat) : list nat :=
  if Nat.eqb (fst lp) (snd lp) then e else incr e (fst lp).

Definition pl_errors (labels preds : list nat) : list nat :=
  fold_left pl_step (combine labels preds) (zeros (n_class labels)).

(* [_, counts = np.unique(labels, return_counts=True)] : counts of the distinct values, ascending *)
Definition unique_counts (labels : list nat) : list nat :=
  filter (fun c => Nat.ltb 0 c) (bincount labels).

(* [errors /= counts] under numpy broadcasting: equal lengths, or a length-1 right operand;
   anything else raises (None). *)
Definition opf_accuracy_per_label (labels preds : list nat) : option (list Q) :=
  let e := pl_errors labels preds in
  let uc := unique_counts labels in
  if Nat.eqb (length uc) (length e) then
    Some (zipw (fun x c => (1 - qn x / qn c)%Q) e uc)
  else match uc with
       | [c] => Some (map (fun x => (1 - qn x / qn c)%Q) e)
       | _ => None
       end.

(* ------------------------------------------------------------------------------------ *)
(* purity *)

Definition col {A} (d : A) (m : list (list A)) (b : nat) : list A := map (fun row => nth b row d) m.

(* [np.sum(np.max(c_matrix, axis=0)) / len(labels)] *)
Definition purity (labels preds : list nat) : Q :=
  let m := confusion_matrix labels preds in
  let K := n_class labels in
  let s := list_sum (map (fun b => list_max (col 0 m b)) (seq 0 K)) in   (* np.sum(np.max(.., axis=0)) *)
  (qn s / qn (length labels))%Q.

(* ------------------------------------------------------------------------------------ *)
(* The definitions the measures are supposed to implement, by counting positions
   (independent of the loops above). *)

Definition cnt (P : nat -> nat -> bool) (labels preds : list nat) : nat :=
  length (filter (fun lp => P (fst lp) (snd lp)) (combine labels preds)).

Definition pair_count (a b : nat) := cnt (fun l p => Nat.eqb l a && Nat.eqb p b).
Definition TP (c : nat) := cnt (fun l p => Nat.eqb l c && Nat.eqb p c).
Definition FP (c : nat) := cnt (fun l p => Nat.eqb p c && negb (Nat.eqb l c)).   (* predicted c, is not c *)
Definition FN (c : nat) := cnt (fun l p => Nat.eqb l c && negb (Nat.eqb p c)).   (* is c, predicted otherwise *)

Definition accuracy_spec (labels preds : list nat) : Q :=
  let K := n_class labels in
  let N := length labels in
  (1 - (1 / qn (2 * K)) *
       qsum (map (fun c => qn (FP c labels preds) / qn (N - count c labels)
                           + qn (FN c labels preds) / qn (count c labels)) (seq 0 K)))%Q.

(* hypotheses of C20 *)
Definition all_present (labels : list nat) : Prop :=
  forall c, c < n_class labels -> In c labels.
Definition in_range (labels preds : list nat) : Prop :=
  forall p, In p preds -> p < n_class labels.

(* the quantifier of C20: equal lengths, N >= 1, every class 0..K-1 among the labels, preds < K *)
Definition c20_domain (labels preds : list nat) : Prop :=
  length labels = length preds /\ 1 <= length labels /\ all_present labels /\ in_range labels preds.

(* ------------------------------------------------------------------------------------ *)
(* normalize, written once over a record of operations (R for the theorems, binary64 for runs) *)

Record NumOps (F : Type) := mkOps {
  nzero : F; nadd : F -> F -> F; nsub : F -> F -> F; nmul : F -> F -> F; ndiv : F -> F -> F;
  nsqrt : F -> F; nofnat : nat -> F }.
Arguments nzero {F}. Arguments nadd {F}. Arguments nsub {F}. Arguments nmul {F}.
Arguments ndiv {F}. Arguments nsqrt {F}. Arguments nofnat {F}.

Section Normalize.
  Context {F : Type} (o : NumOps F).

  (* numpy reduces axis 0 by adding the rows one after the other *)
  Definition nsum (l : list F) : F := fold_left (nadd o) l (nzero o).
  Definition nmean (l : list F) : F := ndiv o (nsum l) (nofnat o (length l)).
  (* np.std: sqrt(mean((x - mean(x))**2)), population form (ddof = 0) *)
  Definition nstd (l : list F) : F :=
    let m := nmean l in
    nsqrt o (ndiv o (nsum (map (fun v => nmul o (nsub o v m) (nsub o v m)) l)) (nofnat o (length l))).

  Definition ncols (a : list (list F)) : nat := length (hd [] a).

  Definition normalize (a : list (list F)) : list (list F) :=
    let js := seq 0 (ncols a) in
    let mean := map (fun j => nmean (col (nzero o) a j)) js in       (* np.mean(array, axis=0) *)
    let std := map (fun j => nstd (col (nzero o) a j)) js in         (* np.std(array, axis=0) *)
    map (fun row => zipw (ndiv o) (zipw (nsub o) row mean) std) a.   (* (array - mean) / std *)
End Normalize.

Definition ROps : NumOps R :=
  mkOps R 0%R Rplus Rminus Rmult Rdiv sqrt INR.

(* the same quantities written directly over R (used in the statements of C20) *)
Definition Rsum (l : list R) : R := fold_right Rplus 0%R l.
Definition Rmean (l : list R) : R := (Rsum l / INR (length l))%R.
Definition Rstd (l : list R) : R :=
  sqrt (Rsum (map (fun v => ((v - Rmean l) * (v - Rmean l))%R) l) / INR (length l)).
