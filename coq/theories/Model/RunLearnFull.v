(* Z-level entry points for the closed-loop learn / prune correspondence (Model/LearnFull.v at
   W := Z, accuracies over Q).  Rows are point ids 0..N-1, [wflat] the N x N matrix of
   rank-encoded distances, row-major: w a b = wflat[a*N + b]. *)
From Coq Require Import ZArith QArith List Bool.
From OPF Require Import Base.Lists Model.Heap Model.Sup Model.Learn Model.Measures Model.Run Model.RunSup
                        Model.LearnFull Model.LearnFullFloat.
Import ListNotations.
Open Scope Z_scope.

Definition nodes_rows (nd : @nodes Z) : list (list Z) :=
  [ n_cost nd; map opt_code (n_pred nd); map nz (n_plabel nd); map nz (n_label nd);
    map bool_code (n_status nd); map bool_code (n_relevant nd); map nz (n_order nd) ].

(* output rows:
     0      [best_t; iterations run; draws left]
     1-4    X_train, Y_train, X_val, Y_val afterwards (ids / labels)
     5-6    ids and labels of the training set of the classifier left in the object
     7-13   its node table: cost, pred, predicted label, label, status, relevant, conquest order
     14-15  numerators / denominators of the exact accuracy of every iteration run
     16     per iteration: 1 iff the stop test |acc - prev| < 0.0001 held (on the rationals)
     17     per iteration: 1 iff fit found a prototype (else the real predict raises IndexError)
     18     per iteration: 1 iff every prediction is <= max(Y_val) (else the real opf_accuracy raises) *)
Definition run_learn_full_gen {A : Type} (ao : acc_ops A) (frac : A -> Z * Z) (zero top : Z) (N : Z)
           (wflat : list Z) (n_iterations : Z) (Xt Yt Xv Yv : list Z) (draws : list Z) : list (list Z) :=
  let w := wfun (zn N) wflat in
  let r := learn_full Z.ltb zero top w ao (zn n_iterations) (map zn draws)
                      (mkL (map zn Xt) (map zn Yt) (map zn Xv) (map zn Yv)) in
  let res := fr_res r in
  let st := r_state res in
  [ [nz (r_best res); nz (r_iters res); nz (length (r_draws res))];
    map nz (l_Xt st); map nz (l_Yt st); map nz (l_Xv st); map nz (l_Yv st);
    map nz (fst (r_snap res)); map nz (snd (r_snap res)) ]
  ++ nodes_rows (fr_nodes r)
  ++ [ map (fun it => fst (frac (fi_acc it))) (fr_trace r);
       map (fun it => snd (frac (fi_acc it))) (fr_trace r);
       map (fun it => bool_code (fi_small it)) (fr_trace r);
       map (fun it => bool_code (fit_ok (fi_nodes it))) (fr_trace r);
       map (fun it => bool_code (acc_ok (fi_Yv it) (fi_preds it))) (fr_trace r) ].

(* accuracies exact, comparisons on the rationals *)
Definition run_learn_full :=
  run_learn_full_gen QAcc (fun q => (Qnum (Qred q), Zpos (Qden (Qred q)))).

(* accuracies and comparisons in binary64 as numpy evaluates them; rows 14-15 give every
   accuracy as the exact fraction of the double *)
Definition run_learn_full_f := run_learn_full_gen FAcc float_fraction.

(* g.opf_accuracy alone, in binary64: [numerator; denominator] of the double *)
Definition run_acc_f (labels preds : list Z) : list Z :=
  let fr := float_fraction (opf_accuracy_ops Base.NumOps.FOps (map zn labels) (map zn preds)) in
  [fst fr; snd fr].

(* output rows:
     0      [rows left; rounds run (n_iterations + 1)]
     1-2    ids and labels of the final training set
     3-9    node table of the classifier left in the object
     10     training-set size of every round
     11     per round: 1 iff fit found a prototype
     12     per round: 1 iff every prediction is <= max(Y_val) (rounds >= 1 call opf_accuracy) *)
Definition run_prune_full (zero top : Z) (N : Z) (wflat : list Z) (n_iterations : Z)
           (Xt Yt Xv Yv : list Z) : list (list Z) :=
  let w := wfun (zn N) wflat in
  let st := mkL (map zn Xt) (map zn Yt) (map zn Xv) (map zn Yv) in
  let rounds := prune_rounds Z.ltb zero top w (zn n_iterations) (l_Xt st) (l_Yt st) (l_Xv st) in
  let fin := prune_full Z.ltb zero top w (zn n_iterations) st in
  [ [nz (length (pr_X fin)); nz (length rounds)]; map nz (pr_X fin); map nz (pr_Y fin) ]
  ++ nodes_rows (pr_nodes fin)
  ++ [ map (fun r => nz (length (pr_X r))) rounds;
       map (fun r => bool_code (fit_ok (pr_nodes r))) rounds;
       map (fun r => bool_code (acc_ok (map zn Yv) (pr_preds r))) rounds ].
