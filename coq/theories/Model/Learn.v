(* Model of SupervisedOPF.learn and SupervisedOPF.prune (opfython/models/supervised.py)
   over abstract feature rows.

   learn / prune call fit, predict and opf_accuracy, which are modelled elsewhere
   (Model/Sup.v, C20).  What those calls produce in iteration t enters this model as input:
     it_acc    the value returned by g.opf_accuracy (order-encoded as an integer),
     it_errs   np.argwhere(Y_val != preds).ravel(): the misclassified validation positions,
     it_proto  for every training position j: subgraph.nodes[j].status == PROTOTYPE,
     it_small  the numeric stop test  np.fabs(acc - previous_acc) < 0.0001.
   The random draws  int(r.generate_uniform_random_number(0, len(X_train))[0])  are one
   stream consumed in call order.  Rows are of an abstract type [R]: learn and prune only move
   rows, they never look inside one. *)
From Coq Require Import ZArith List Arith Bool.
From OPF Require Import Base.Lists.
Import ListNotations.

Section Learn.
  Context {R : Type}.

  (* the caller's four arrays X_train, Y_train, X_val, Y_val (mutated in place by learn) *)
  Record lstate := mkL { l_Xt : list R; l_Yt : list nat; l_Xv : list R; l_Yv : list nat }.

  (* a[j], b[e] = b[e].copy(), a[j].copy()  - a true exchange.
     (an index outside an array raises IndexError in the code; the model leaves both unchanged) *)
  Definition swap_at {A} (a b : list A) (j e : nat) : list A * list A :=
    match nth_error a j, nth_error b e with
    | Some x, Some y => (upd a j y, upd b e x)
    | _, _ => (a, b)
    end.

  (* X_train[j,:], X_val[err,:] = X_val[err,:].copy(), X_train[j,:].copy()
     Y_train[j], Y_val[err] = Y_val[err], Y_train[j] *)
  Definition swap_rows (st : lstate) (j e : nat) : lstate :=
    let '(xt, xv) := swap_at (l_Xt st) (l_Xv st) j e in
    let '(yt, yv) := swap_at (l_Yt st) (l_Yv st) j e in
    mkL xt yt xv yv.

  Record iter_in := mkIter { it_acc : Z; it_errs : list nat; it_proto : list bool; it_small : bool }.

  (* while ctr > 0: j = draw; if status[j] != PROTOTYPE: swap; ctr = 0 else: ctr -= 1
     returns (swapped?, remaining draws, state); an exhausted draw stream ends the loop *)
  Fixpoint retry (ctr : nat) (proto : list bool) (draws : list nat) (st : lstate) (err : nat)
    : bool * list nat * lstate :=
    match ctr with
    | 0 => (false, draws, st)
    | S c =>
      match draws with
      | [] => (false, [], st)
      | j :: ds =>
        if nth j proto true then retry c proto ds st err
        else (true, ds, swap_rows st j err)
      end
    end.

  (* for err in errors.ravel(): ctr = non_prototypes; <retry>; non_prototypes -= 1 on a swap *)
  Fixpoint err_loop (proto : list bool) (errs : list nat) (non_prototypes : nat) (draws : list nat)
           (st : lstate) : list nat * lstate :=
    match errs with
    | [] => (draws, st)
    | e :: es =>
      let '(sw, ds, st1) := retry non_prototypes proto draws st e in
      err_loop proto es (if sw then non_prototypes - 1 else non_prototypes) ds st1
    end.

  Definition count_non_prototypes (proto : list bool) : nat := length (filter negb proto).

  Record lresult := mkRes {
    r_best : nat;                       (* best_t: iteration whose classifier is left in the object *)
    r_iters : nat;                      (* number of iterations run *)
    r_snap : list R * list nat;         (* training set the kept classifier (deepcopy) was fitted on *)
    r_draws : list nat;                 (* draws not consumed *)
    r_state : lstate                    (* the caller's arrays afterwards *)
  }.

  (* the while True loop; [its] = the inputs of the iterations still to run, [t] the counter *)
  Fixpoint learn_loop (its : list iter_in) (t n_iterations : nat) (max_acc : Z) (best : nat)
           (snap : list R * list nat) (draws : list nat) (st : lstate) : lresult :=
    match its with
    | [] => mkRes best t snap draws st
    | it :: rest =>
      (* fit(X_train, Y_train); preds = predict(X_val); acc = opf_accuracy(Y_val, preds) *)
      let upd_best := Nat.eqb t 0 || Z.ltb max_acc (it_acc it) in
      let max_acc1 := if upd_best then it_acc it else max_acc in
      let best1 := if upd_best then t else best in
      let snap1 := if upd_best then (l_Xt st, l_Yt st) else snap in
      let '(draws1, st1) :=
        err_loop (it_proto it) (it_errs it) (count_non_prototypes (it_proto it)) draws st in
      let t1 := S t in
      if it_small it || Nat.eqb t1 n_iterations
      then mkRes best1 t1 snap1 draws1 st1          (* self.__dict__.update(best_opf.__dict__) *)
      else learn_loop rest t1 n_iterations max_acc1 best1 snap1 draws1 st1
    end.

  Definition learn (its : list iter_in) (n_iterations : nat) (draws : list nat) (st : lstate) : lresult :=
    learn_loop its 0 n_iterations 0%Z 0 (l_Xt st, l_Yt st) draws st.

  (* ---------------- prune ---------------- *)

  (* for j, n in enumerate(nodes): if n.relevant != IRRELEVANT: append(row j) *)
  Fixpoint keep {A} (flags : list bool) (l : list A) : list A :=
    match flags, l with
    | f :: fs, x :: xs => if f then x :: keep fs xs else keep fs xs
    | _, _ => []
    end.

  Definition prune_round (tr : list R * list nat) (flags : list bool) : list R * list nat :=
    (keep flags (fst tr), keep flags (snd tr)).

  (* [flagss]: the relevance flags after the fit/predict preceding each of the n_iterations rounds *)
  Definition prune (flagss : list (list bool)) (Xt : list R) (Yt : list nat) : list R * list nat :=
    fold_left prune_round flagss (Xt, Yt).
End Learn.

Arguments lstate R : clear implicits.
Arguments lresult R : clear implicits.
