(* Effect programs extracted by the translator (syntax only in this file).

   [dstmt] is the statement language of the wrapper inside
   opfython/utils/decorator.py:avoid_zero_division.
     AugAdd p c       `p += c.<c>`     numpy in-place add: writes through to the caller's buffer
     Rebind p c       `p = p + c.<c>`  binds p to a fresh array, the caller's buffer is untouched
     ReturnCall ps    `return f(ps)`   the call of the wrapped function, arguments in order
   Both AugAdd and Rebind give the callee the same *values*; they differ only in the store. *)
From Coq Require Import String List.
From OPF Require Import Model.Consts.

Inductive dstmt :=
| AugAdd (p : string) (c : cname)
| Rebind (p : string) (c : cname)
| ReturnCall (ps : list string).

(* ---------- store-site table (translator/stores.py) ---------- *)
Inductive sroot := RSelf | RLocal | RCaller.
Record store_site := mkSite {
  s_file : string; s_func : string; s_line : nat; s_kind : string; s_root : string; s_class : sroot }.

Definition is_caller_store (s : store_site) : bool :=
  match s_class s with RCaller => true | _ => false end.

(* ---------- semantics of the decorator's effect programs ----------
   A store is a list of array buffers; a parameter is bound to a *reference* (index) into the
   store, as numpy arrays are.  [AugAdd] writes through the reference (numpy `x += c`);
   [Rebind] allocates a fresh buffer and rebinds the local name (`x = x + c`). *)
From Coq Require Import QArith.

Definition buffer := list Q.
Definition store := list buffer.
Definition env := list (string * nat).

Fixpoint lookup (e : env) (p : string) : option nat :=
  match e with
  | nil => None
  | (k, r) :: t => if String.eqb p k then Some r else lookup t p
  end.

Fixpoint rebind (e : env) (p : string) (r : nat) : env :=
  match e with
  | nil => nil
  | (k, r0) :: t => if String.eqb p k then (k, r) :: t else (k, r0) :: rebind t p r
  end.

Fixpoint set_buf (st : store) (i : nat) (b : buffer) : store :=
  match st, i with
  | nil, _ => nil
  | _ :: t, O => b :: t
  | x :: t, S j => x :: set_buf t j b
  end.

Definition shiftq (c : Q) (b : buffer) : buffer := map (fun v => Qplus v c) b.

Section Exec.
  Variable cval : cname -> Q.                       (* value of c.EPSILON etc. *)
  Variable callee : list buffer -> Q.                (* the wrapped (store-free) metric body *)

  (* runs the wrapper body; returns the final store and the returned value (if a ReturnCall was reached) *)
  Fixpoint exec (prog : list dstmt) (e : env) (st : store) : store * option Q :=
    match prog with
    | nil => (st, None)
    | AugAdd p c :: rest =>
        match lookup e p with
        | Some r => exec rest e (set_buf st r (shiftq (cval c) (nth r st nil)))
        | None => (st, None)
        end
    | Rebind p c :: rest =>
        match lookup e p with
        | Some r => exec rest (rebind e p (length st)) (st ++ (shiftq (cval c) (nth r st nil) :: nil))
        | None => (st, None)
        end
    | ReturnCall ps :: _ =>
        (st, Some (callee (map (fun p => match lookup e p with Some r => nth r st nil | None => nil end) ps)))
    end.

  (* a call of a decorated metric: the caller owns buffers [st]; arguments are references into it *)
  Definition call_metric (params : list string) (prog : list dstmt) (st : store) (args : list nat)
    : store * option Q := exec prog (combine params args) st.
End Exec.

Definition no_augadd (prog : list dstmt) : bool :=
  forallb (fun s => match s with AugAdd _ _ => false | _ => true end) prog.
