(* Effect programs extracted by the translator (syntax only in this file).

   [dstmt] is the statement language of the wrapper inside
   opfython/utils/decorator.py:avoid_zero_division.
     AugAdd p c       `p += c.<c>`     numpy in-place add: writes through to the caller's buffer
     Rebind p c       `p = p + c.<c>`  binds p to a fresh array, the caller's buffer is untouched
     ReturnCall ps    `return f(ps)`   the call of the wrapped function, arguments in order
   Both AugAdd and Rebind give the callee the same *values*; they differ only in the store. *)
From Coq Require Import String List.
From OPF Require Import Model.Consts.

Inductive dstmt :=
| AugAdd (p : string) (c : cname)
| Rebind (p : string) (c : cname)
| ReturnCall (ps : list string).
