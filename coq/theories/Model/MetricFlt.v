(* A bit-exact binary64 evaluator of the metric expression language (Model/MetricIR.v) on Coq's primitive floats.

   [evalSF]/[evalVF] have the structure of the rounded-real evaluator [evalSR]/[evalVR] of Model/MetricRnd.v, node by
   node, with the primitive IEEE-754 operations in place of "exact operation, then [rnd]":

     + - * /          PrimFloat.add / sub / mul / div
     np.sqrt, ** 0.5  PrimFloat.sqrt      (measured: numba's `v ** 0.5` on float64 is bit-identical to sqrt(v))
     ** 2             v * v               (measured: numba's `v ** 2` on float64 is bit-identical to v * v)
     fabs, unary -    PrimFloat.abs / opp (exact)
     minimum/maximum  [fmin a b = if a <= b then a else b], [fmax a b = if b <= a then a else b]: the FIRST argument on
                      ties (minimum(-0.0, 0.0) = -0.0, minimum(0.0, -0.0) = 0.0: measured); a NaN operand is returned
                      (np.minimum / np.maximum propagate NaN: measured; every min/max of distance.py is one of these two)
     np.amax          fold from the first entry, replaced only by a strictly larger one (amax [-0.0, 0.0] = -0.0: measured),
                      NaN if any entry is NaN (measured); None on the empty vector (numpy/numba raise ValueError)
     np.sum           a LEFT FOLD STARTING AT +0.0 (numba's np.sum: `acc = 0.0; for v in a.flat: acc += v`; sum [-0.0] = +0.0:
                      measured).  [rsum] starts at the first entry; 0.0 + v has the real value of v, only the sign of a zero
                      can differ.
     count_nonzero    number of positions where [PrimFloat.eqb] is false, converted by [float_ofZ]
     x.shape[0]       [float_ofZ] of the length
     VSel             PrimFloat.leb / ltb on the two operands, then only the selected branch
     literals         the double of Gen/ConstsFlt_gen.v [lit_floats] (None for a literal that is not in the table)
     c.<NAME>         Gen/ConstsFlt_gen.v [cvalF]
     the decorator    `p = p + c.EPSILON`: a float addition of [cvalF CEpsilon] to every entry
     sibling calls    through the regenerated table with fuel, as [call_fuelR]
     log, exp         None: there is no logarithm/exponential on primitive floats; bodies that contain them (directly or in a
                      callee) are OUTSIDE THE FRAGMENT ([in_fragment] below computes which)

   Scalar division: inside an @njit function numba's default error model raises ZeroDivisionError on a SCALAR float division
   by +-0.0 (measured: bray_curtis, cosine, dice, soergel, gower on suitable inputs), whereas an ARRAY division follows numpy
   (inf / nan, no exception).  [binF] therefore takes [zd]: None on a zero divisor iff [zd = true]; the scalar evaluator
   passes [m_njit] of the enclosing function, the vector evaluator passes false.

   The parameter [ck] selects the CHECKED evaluator: with [ck = true] every produced float (arithmetic result, literal,
   constant, partial sum, shifted entry) must be finite, else the result is None.  [metric_flt = ... false],
   [metric_fltc = ... true]; [metric_fltc m x y = Some f -> metric_flt m x y = Some f] (Proofs/MetricFltRefine.v).

   Definitions only. *)
From Coq Require Import ZArith QArith String List Floats.
From OPF Require Import Base.NumOps Model.Consts Model.Effects Spec.MetricSpec Model.MetricIR Model.MetricRnd
     Gen.Consts_gen Gen.ConstsFlt_gen Gen.Metrics_gen Gen.Decorator_gen.
Import ListNotations.

(* ---- literals ---- *)
Definition Q_same (p q : Q) : bool := (Z.eqb (Qnum p) (Qnum q) && Pos.eqb (Qden p) (Qden q))%bool.

Fixpoint lit_lookup (t : list (Q * float)) (q : Q) : option float :=
  match t with
  | [] => None
  | (k, f) :: r => if Q_same q k then Some f else lit_lookup r q
  end.

Definition litF (q : Q) : option float := lit_lookup lit_floats q.

(* ---- environments of float vectors (the decorator) ---- *)
Definition fenv := list (string * list float).

Fixpoint flookup (p : string) (e : fenv) : option (list float) :=
  match e with
  | [] => None
  | (k, v) :: r => if String.eqb p k then Some v else flookup p r
  end.

Fixpoint fset (p : string) (v : list float) (e : fenv) : fenv :=
  match e with
  | [] => []
  | (k, w) :: r => if String.eqb p k then (k, v) :: r else (k, w) :: fset p v r
  end.

Fixpoint flookups (ps : list string) (e : fenv) : option (list (list float)) :=
  match ps with
  | [] => Some []
  | p :: r => match flookup p e, flookups r e with
              | Some v, Some vs => Some (v :: vs)
              | _, _ => None
              end
  end.

Definition fmin (a b : float) : float := if PrimFloat.leb a b then a else if PrimFloat.is_nan a then a else b.
Definition fmax (a b : float) : float := if PrimFloat.leb b a then a else if PrimFloat.is_nan a then a else b.

(* one step of np.amax: a strictly larger entry replaces the accumulator; a NaN on either side is kept *)
Definition famax_step (acc e : float) : float :=
  if PrimFloat.ltb acc e then e
  else if PrimFloat.is_nan e then (if PrimFloat.is_nan acc then acc else e) else acc.

Definition cmpF (c : cmpop) (l r : float) : bool :=
  match c with
  | CGe => PrimFloat.leb r l
  | CGt => PrimFloat.ltb r l
  | CLe => PrimFloat.leb l r
  | CLt => PrimFloat.ltb l r
  end.

Section Flt.
  Variable ck : bool.          (* true: every produced float must be finite *)

  Definition ret (f : float) : option float :=
    if ck then (if PrimFloat.is_finite f then Some f else None) else Some f.

  (* [zd]: a zero divisor raises (scalar division inside an @njit function) *)
  Definition binF (zd : bool) (o : binop) (a b : float) : option float :=
    match o with
    | BAdd => ret (a + b)%float
    | BSub => ret (a - b)%float
    | BMul => ret (a * b)%float
    | BDiv => if (zd && PrimFloat.eqb b PrimFloat.zero)%bool then None else ret (a / b)%float
    | BMin => Some (fmin a b)
    | BMax => Some (fmax a b)
    end.

  Definition unF (o : unop) (a : float) : option float :=
    match o with
    | UNeg => Some (- a)%float
    | UFabs => Some (PrimFloat.abs a)
    | ULog => None
    | UExp => None
    | USqrt => ret (PrimFloat.sqrt a)
    end.

  Definition powF (c : pconst) (a : float) : option float :=
    match c with
    | PTwo => ret (a * a)%float
    | PHalf => ret (PrimFloat.sqrt a)
    end.

  (* np.sum under numba: acc = 0.0; acc = acc + v0; acc = acc + v1; ... *)
  Fixpoint fsum_from (acc : float) (l : list float) : option float :=
    match l with
    | [] => Some acc
    | e :: t => obind (ret (acc + e)%float) (fun a => fsum_from a t)
    end.

  Definition fsum (l : list float) : option float := fsum_from PrimFloat.zero l.

  Definition famax (l : list float) : option float :=
    match l with
    | [] => None
    | a :: t => Some (fold_left famax_step t a)
    end.

  Definition fcountne (l : list (float * float)) : float :=
    float_ofZ (Z.of_nat (List.length (filter (fun p => negb (PrimFloat.eqb (fst p) (snd p))) l))).

  Definition flen (x : list float) : float := float_ofZ (Z.of_nat (List.length x)).

  Section Eval.
    Variable call : string -> list float -> list float -> option float.   (* meaning of sibling metrics *)
    Variable pe : string -> option float.                                 (* values of the extra scalar parameters *)
    Variable zd : bool.                                                   (* the enclosing function is @njit *)

    Fixpoint evalSF (s : sexpr) (x y : list float) {struct s} : option float :=
      match s with
      | SSum v => obind (oseq (map2 (fun a b => evalVF v x y a b) x y)) fsum
      | SAmax v => obind (oseq (map2 (fun a b => evalVF v x y a b) x y)) famax
      | SCountNe u v =>
          obind (oseq (map2 (fun a b => obind2 (evalVF u x y a b) (evalVF v x y a b)
                                               (fun p q => Some (p, q))) x y))
                (fun l => Some (fcountne l))
      | SLen => Some (flen x)
      | SConstQ q => obind (litF q) ret
      | SConstName n => obind (cvalF n) ret
      | SParam p => obind (pe p) ret
      | SBin o s1 s2 => obind2 (evalSF s1 x y) (evalSF s2 x y) (binF zd o)
      | SUn o s1 => obind (evalSF s1 x y) (unF o)
      | SPowC s1 c => obind (evalSF s1 x y) (powF c)
      | SCall f u v =>
          obind2 (oseq (map2 (fun a b => evalVF u x y a b) x y))
                 (oseq (map2 (fun a b => evalVF v x y a b) x y))
                 (call f)
      end
    with evalVF (v : vexpr) (x y : list float) (a b : float) {struct v} : option float :=
      match v with
      | VX => Some a
      | VY => Some b
      | VConstS s => evalSF s x y
      | VBin o v1 v2 => obind2 (evalVF v1 x y a b) (evalVF v2 x y a b) (binF false o)
      | VUn o v1 => obind (evalVF v1 x y a b) (unF o)
      | VPowC v1 c => obind (evalVF v1 x y a b) (powF c)
      | VSel c l r v1 v2 =>
          obind2 (evalVF l x y a b) (evalVF r x y a b)
                 (fun p q => if cmpF c p q then evalVF v1 x y a b else evalVF v2 x y a b)
      end.
  End Eval.

  (* ---- the decorator: `p = p + c.<c>` is a float addition on every entry ---- *)
  Definition add_constF (c : cname) (v : list float) : option (list float) :=
    match cvalF c with
    | Some e => oseq (map (fun a => ret (a + e)%float) v)
    | None => None
    end.

  Fixpoint dec_runF (prog : list dstmt) (e : fenv) : option (list (list float)) :=
    match prog with
    | [] => None
    | AugAdd p c :: r | Rebind p c :: r =>
        match flookup p e with
        | Some v => match add_constF c v with
                    | Some v' => dec_runF r (fset p v' e)
                    | None => None
                    end
        | None => None
        end
    | ReturnCall ps :: _ => flookups ps e
    end.

  Definition dec_applyF (params : list string) (prog : list dstmt) (args : list (list float))
    : option (list (list float)) := dec_runF prog (combine params args).

  (* ---- a whole metric ---- *)
  Fixpoint param_defaultF (ps : list (string * option Q)) (p : string) : option float :=
    match ps with
    | [] => None
    | (k, d) :: r => if String.eqb p k then match d with Some q => litF q | None => None end
                     else param_defaultF r p
    end.

  Definition eval_bodyF (call : string -> list float -> list float -> option float) (pe : string -> option float)
             (m : metric_ir) (x y : list float) : option float := evalSF call pe (m_njit m) (m_body m) x y.

  Definition wrapF (call : string -> list float -> list float -> option float) (dparams : list string)
             (dprog : list dstmt) (pe : string -> option float) (m : metric_ir) (x y : list float) : option float :=
    if m_avoid_zero m then
      match dec_applyF dparams dprog [x; y] with
      | Some [x'; y'] => eval_bodyF call pe m x' y'
      | _ => None
      end
    else eval_bodyF call pe m x y.

  Fixpoint call_fuelF (t : mtable) (dparams : list string) (dprog : list dstmt) (fuel : nat)
           (f : string) (x y : list float) : option float :=
    match fuel with
    | O => None
    | S n => match lookup_ir f t with
             | Some m => wrapF (call_fuelF t dparams dprog n) dparams dprog (param_defaultF (m_params m)) m x y
             | None => None
             end
    end.

  Definition evalFlt_wrapped (t : mtable) (dparams : list string) (dprog : list dstmt)
             (m : metric_ir) (x y : list float) : option float :=
    wrapF (call_fuelF t dparams dprog call_depth) dparams dprog (param_defaultF (m_params m)) m x y.
End Flt.

(* ---- at the generated tables: `DISTANCES[k](x, y)` in binary64 ---- *)
Definition metric_flt (m : metric_ir) (x y : list float) : option float :=
  evalFlt_wrapped false all_metrics_ir decorator_params decorator_body m x y.

(* ... None as soon as an intermediate result is not finite *)
Definition metric_fltc (m : metric_ir) (x y : list float) : option float :=
  evalFlt_wrapped true all_metrics_ir decorator_params decorator_body m x y.

(* ---- the fragment: no log / exp anywhere in the call tree, every literal in the table, every callee resolves ---- *)
Section Frag.
  Variable callok : string -> bool.

  Fixpoint fragS (s : sexpr) : bool :=
    match s with
    | SSum v | SAmax v => fragV v
    | SCountNe u v => (fragV u && fragV v)%bool
    | SLen => true
    | SConstQ q => match litF q with Some _ => true | None => false end
    | SConstName n => match cvalF n with Some _ => true | None => false end
    | SParam _ => true
    | SBin _ a b => (fragS a && fragS b)%bool
    | SUn o a => (match o with ULog | UExp => false | _ => true end && fragS a)%bool
    | SPowC a _ => fragS a
    | SCall f u v => (callok f && fragV u && fragV v)%bool
    end
  with fragV (v : vexpr) : bool :=
    match v with
    | VX | VY => true
    | VConstS s => fragS s
    | VBin _ a b => (fragV a && fragV b)%bool
    | VUn o a => (match o with ULog | UExp => false | _ => true end && fragV a)%bool
    | VPowC a _ => fragV a
    | VSel _ l r a b => (fragV l && fragV r && fragV a && fragV b)%bool
    end.
End Frag.

Fixpoint frag_fuel (t : mtable) (fuel : nat) (f : string) : bool :=
  match fuel with
  | O => false
  | S n => match lookup_ir f t with
           | Some m => fragS (frag_fuel t n) (m_body m)
           | None => false
           end
  end.

Definition in_fragment (m : metric_ir) : bool := fragS (frag_fuel all_metrics_ir call_depth) (m_body m).

(* Python function names inside / outside the fragment, in table order *)
Definition fragment_names : list string :=
  map fst (filter (fun km => in_fragment (snd km)) all_metrics_ir).

Definition outside_fragment_names : list string :=
  map fst (filter (fun km => negb (in_fragment (snd km))) all_metrics_ir).
