(* Entry point for the C06 bit-exact correspondence (harness/c06_flt.py): `DISTANCES[k](x, y)` on primitive floats.
   Output: [1; v] when [metric_flt] returns [Some v]; [0] when it returns None (log/exp in the call tree, a scalar division
   by zero inside an @njit function, np.amax of an empty vector); [2] when the identifier does not resolve through the
   generated registry.  [run_metric_fltc] is the same for the checked evaluator [metric_fltc].  Definitions only. *)
From Coq Require Import String List Floats.
From OPF Require Import Model.MetricIR Model.MetricEval Model.MetricFlt.
Import ListNotations.

Definition two_f : float := (PrimFloat.one + PrimFloat.one)%float.

Definition run_with (ev : metric_ir -> list float -> list float -> option float) (k : string) (x y : list float)
  : list float :=
  match resolve k with
  | Some m => match ev m x y with
              | Some v => [PrimFloat.one; v]
              | None => [PrimFloat.zero]
              end
  | None => [two_f]
  end.

Definition run_metric_flt (k : string) (x y : list float) : list float := run_with metric_flt k x y.
Definition run_metric_fltc (k : string) (x y : list float) : list float := run_with metric_fltc k x y.

(* registry identifiers inside the fragment (no log / exp in the call tree) *)
Definition fragment_keys : list string :=
  map fst (filter (fun kf => match resolve (fst kf) with Some m => in_fragment m | None => false end)
                  Gen.Registry_gen.registry).
