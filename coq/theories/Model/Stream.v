(* Executable model of opfython/stream/splitter.py and opfython/stream/parser.py.

   splitter: [idx = np.random.permutation(n)] is an input of the model ([perm]); so is
   [halt = int(len(X) * percentage)] ([h]).  [X[idx[:halt], :]] is [gather X (firstn h perm)].
   parser: a loaded array is a list of rows [id; label; f_1 .. f_nf]; every cell is a [Z]
   (ids and labels as integers, features as opaque float32 bit patterns). *)
From Coq Require Import List Arith ZArith Floats.
Import ListNotations.

Section Split.
  Context {A B : Type} (dX : A) (dY : B).

  (* fancy indexing  a[idx]  *)
  Definition gather {T} (d : T) (a : list T) (idx : list nat) : list T :=
    map (fun i => nth i a d) idx.

  Definition split_with_index (perm : list nat) (h : nat) (X : list A) (Y : list B)
    : list A * list A * list B * list B * list nat * list nat :=
    let I1 := firstn h perm in                       (* idx[:halt] *)
    let I2 := skipn h perm in                        (* idx[halt:] *)
    (gather dX X I1, gather dX X I2, gather dY Y I1, gather dY Y I2, I1, I2).

  Definition split (perm : list nat) (h : nat) (X : list A) (Y : list B)
    : list A * list A * list B * list B :=
    (gather dX X (firstn h perm), gather dX X (skipn h perm),
     gather dY Y (firstn h perm), gather dY Y (skipn h perm)).

  (* np.vstack((X_1, X_2)), np.hstack((Y_1, Y_2)) *)
  Definition merge (X1 X2 : list A) (Y1 Y2 : list B) : list A * list B :=
    (X1 ++ X2, Y1 ++ Y2).
End Split.

(* [halt = int(len(X) * percentage)]: binary64 product (round to nearest even), truncated towards 0.
   (infinite / NaN products make Python raise; they are mapped to 0 here and never generated.) *)
Definition trunc_float (f : float) : Z :=
  match Prim2SF f with
  | S754_finite s m e =>
      let a := if Z.leb 0 e then (Zpos m * 2 ^ e)%Z else (Zpos m / 2 ^ (- e))%Z in
      if s then (- a)%Z else a
  | _ => 0%Z
  end.

Definition halt (n : nat) (percentage : float) : nat :=
  Z.to_nat (trunc_float (PrimFloat.mul (PrimFloat.of_uint63 (Uint63.of_Z (Z.of_nat n))) percentage)).

(* samples paired with their label and original row index *)
Definition combine3 {A B C} (X : list A) (Y : list B) (I : list C) : list (A * (B * C)) :=
  combine X (combine Y I).

(* ------------------------------------------------------------------------------------ *)
(* parse_loader *)

Definition zmax (l : list Z) : Z := fold_right Z.max (hd 0%Z l) l.        (* np.max(Y) *)
Definition n_distinct (l : list Z) : nat := length (nodup Z.eq_dec l).    (* len(np.unique(Y)) *)

Definition labels_of (data : list (list Z)) : list Z := map (fun r => nth 1 r 0%Z) data.  (* data[:, 1] *)
Definition features_of (data : list (list Z)) : list (list Z) := map (skipn 2) data.      (* data[:, 2:] *)

(* None = raises e.ValueError("Parsed data should have sequential labels ...") *)
Definition parse_loader (data : list (list Z)) : option (list (list Z) * list Z) :=
  let X := features_of data in
  let Y := labels_of data in
  if Z.eqb (Z.of_nat (n_distinct Y)) (zmax Y + 1) then Some (X, Y) else None.

(* "sequential labels": the label set is exactly {0, .., max} *)
Definition sequential (Y : list Z) : Prop :=
  forall k, (0 <= k <= zmax Y)%Z -> In k Y.
