(* Arithmetic kernels of opfython/subgraphs/knn.py (calculate_pdf, eliminate_maxima_height)
   and of the query-density computation in both KNN predicts, written once over [NumOps].

   The terms [np.exp(-distance / constant)] are supplied as a function [e] (per node, per
   neighbour rank): over R they are instantiated with [exp (- d / constant)], in the
   PrimFloat run with the values numpy computed (Coq has no float exp). *)
From Coq Require Import List ZArith Bool.
From OPF Require Import Base.Lists Base.NumOps.
Import ListNotations.

Section Pdf.
  Context {F : Type} (O : NumOps F).
  Variable fmax : F.                          (* c.FLOAT_MAX *)
  Variable maxd : Z.                          (* c.MAX_DENSITY = 1000 *)

  Definition fsum (l : list F) : F := fold_left (nadd O) l (nofZ O 0).

  (* self.constant = 2 * self.density / 9 *)
  Definition pdf_constant (gdens : F) : F := ndiv O (nmul O (nofZ O 2) gdens) (nofZ O 9).

  (* pdf[i] = (sum_{l<k} e i l) / (k + 1) *)
  Definition pdf_value (k : nat) (e : nat -> F) : F :=
    ndiv O (fsum (map e (seq 0 k))) (nofZ O (Z.of_nat (S k))).

  Definition pdf_minmax (pdf : list F) : F * F :=
    fold_left (fun st v => let '(mn, mx) := st in
                           (if nltb O v mn then v else mn, if nltb O mx v then v else mx))
              pdf (fmax, nsub O (nofZ O 0) fmax).

  (* returns per-node (density, cost) *)
  Definition pdf_scale (mn mx : F) (pdf : list F) : list (F * F) :=
    if neqb O mn mx then
      map (fun _ => (nofZ O maxd, nofZ O (maxd - 1))) pdf
    else
      map (fun v =>
             let d := nadd O (ndiv O (nmul O (nofZ O (maxd - 1)) (nsub O v mn)) (nsub O mx mn)) (nofZ O 1) in
             (d, nsub O d (nofZ O 1))) pdf.

  (* calculate_pdf: [e i l] for node i and neighbour rank l; result (constant, min, max, [(density, cost)]) *)
  Definition calculate_pdf (n k : nat) (gdens : F) (e : nat -> nat -> F) : F * F * F * list (F * F) :=
    let pdf := map (fun i => pdf_value k (e i)) (seq 0 n) in
    let '(mn, mx) := pdf_minmax pdf in
    (pdf_constant gdens, mn, mx, pdf_scale mn mx pdf).

  (* eliminate_maxima_height *)
  Definition eliminate_maxima (h : F) (dens cost : list F) : list F :=
    if nltb O (nofZ O 0) h then
      map (fun d => let v := nsub O d h in if nltb O v (nofZ O 0) then nofZ O 0 else v) dens
    else cost.

  (* query density in both predicts: density = (sum_{l<k} e l)/k scaled with (max - min + EPSILON) *)
  Definition query_density (eps mn mx : F) (k : nat) (e : nat -> F) : F :=
    let s := ndiv O (fsum (map e (seq 0 k))) (nofZ O (Z.of_nat k)) in
    nadd O (ndiv O (nmul O (nofZ O (maxd - 1)) (nsub O s mn)) (nadd O (nsub O mx mn) eps)) (nofZ O 1).
End Pdf.
