(* The evaluator of Model/MetricIR instantiated at the generated tables: the real-number value of
   `opfython.math.distance.DISTANCES[k](x, y)` for the metric [m] (decorator included). *)
From Coq Require Import Reals String List.
From OPF Require Import Model.MetricIR Gen.Metrics_gen Gen.Decorator_gen Gen.Registry_gen.

(* extra parameters (gaussian's gamma) at their defaults: the way every model calls `distance_fn(x, y)` *)
Definition metric_value (m : metric_ir) (x y : list R) : R :=
  evalR_wrapped all_metrics_ir decorator_params decorator_body m x y.

(* extra parameters supplied by [pe] *)
Definition metric_value_with (pe : string -> R) (m : metric_ir) (x y : list R) : R :=
  evalR_wrapped_with all_metrics_ir decorator_params decorator_body pe m x y.

(* the meaning of a sibling call `f(x, y)` inside a metric body *)
Definition sibling (f : string) (x y : list R) : R :=
  call_fuel all_metrics_ir decorator_params decorator_body call_depth f x y.

(* `d.DISTANCES[k]`: the registry maps the identifier to a function name, the function name to
   the definition of that name in opfython/math/distance.py *)
Fixpoint assoc (k : string) (t : list (string * string)) : option string :=
  match t with
  | nil => None
  | (a, f) :: r => if String.eqb k a then Some f else assoc k r
  end.

Definition resolve (k : string) : option metric_ir :=
  match assoc k registry with
  | Some f => lookup_ir f all_metrics_ir
  | None => None
  end.
