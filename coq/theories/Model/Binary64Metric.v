(* The statements [rounding_bound] (Model/MetricRdepth.v) and [rounding_bound_shift] (Model/MetricRdepthQ.v)
   at ONE unit roundoff and ONE rounding function instead of "for every rounding of the standard model".
   Used at u = u64 = 2^-53, rnd = rnd64x (Model/Binary64.v) by Props/C06_binary64.v.  Definitions only. *)
From Coq Require Import Reals List.
From OPF Require Import Model.MetricIR Model.MetricRnd Model.MetricRdepth Model.MetricRdepthQ.
Open Scope R_scope.

Definition rounding_bound_at (u : R) (rnd : R -> R)
    (m : metric_ir) (sp : list R -> list R -> R) (k : nat -> nat) : Prop :=
  forall x y, length x = length y -> (1 <= length x)%nat ->
  exists fl, metric_rnd rnd m x y = Some fl
             /\ (1 - u) ^ k (length x) * sp x y <= fl <= (1 + u) ^ k (length x) * sp x y
             /\ Rabs (fl - sp x y) <= ((1 + u) ^ k (length x) - 1) * sp x y.

Definition rounding_bound_shift_at (u : R) (rnd : R -> R)
    (c : cls) (m : metric_ir) (sp : list R -> list R -> R) (p q : nat -> nat) : Prop :=
  forall x y, length x = length y -> (1 <= length x)%nat -> Forall (in_cls c) x -> Forall (in_cls c) y ->
  exists fl, metric_rnd rnd m x y = Some fl
             /\ lo_f u (p (length x)) (q (length x)) * sp (rshift rnd x) (rshift rnd y) <= fl
                <= up_f u (p (length x)) (q (length x)) * sp (rshift rnd x) (rshift rnd y)
             /\ Rabs (fl - sp (rshift rnd x) (rshift rnd y))
                <= (up_f u (p (length x)) (q (length x)) - 1) * sp (rshift rnd x) (rshift rnd y).
