(* The rounding-aware evaluator of the metric expression language (Model/MetricIR.v).

   [evalSR]/[evalVR] have the structure of the exact evaluator [evalS]/[evalV], with two differences:

   (a) an arbitrary function [rnd : R -> R] is applied to the result of EVERY arithmetic node:
       `+ - * /`, `sqrt`, `log`, `exp`, `** 2`, `** 0.5`, and each partial sum of `np.sum`
       ([rsum]: a left fold, the accumulator starts at the first entry, as `0.0 + v` is exact).
       `np.amax`, `fabs`, unary minus, `minimum`, `maximum`, `count_nonzero`, `shape[0]` and the
       literals/constants are exact.  The decorator's shift is itself a rounded addition.
   (b) the result is an [option R]: [None] as soon as the computation meets the square root
       (`np.sqrt` or `** 0.5`) of a negative value, the logarithm of a value <= 0, or a division
       whose divisor is = 0.  Vectors are evaluated pointwise; a failing entry makes the whole
       vector (hence the whole result) [None].  hassanat's per-index `if` evaluates the two
       operands of the comparison and then only the selected branch (the source is a scalar loop).

   The class of admissible [rnd] is the record [rounding] (hypotheses, not axioms): monotone,
   [rnd 0 = 0], strict sign preserved (no underflow to zero).  Overflow is outside the model: values
   stay real.  Round-to-nearest binary64 satisfies [rounding] on the normal range.

   No proofs here; see Proofs/RobustSign*.v. *)
From Coq Require Import Reals QArith Qreals String List.
From OPF Require Import Model.Consts Model.Effects Spec.MetricSpec Gen.Consts_gen Model.MetricIR
     Gen.Metrics_gen Gen.Decorator_gen.
Import ListNotations.
Open Scope R_scope.

(* ---- the rounding model ---- *)
Record rounding (rnd : R -> R) : Prop := {
  rnd_mono : forall a b, a <= b -> rnd a <= rnd b;
  rnd_zero : rnd 0 = 0;
  rnd_pos : forall a, 0 < a -> 0 < rnd a;
  rnd_neg : forall a, a < 0 -> rnd a < 0
}.

(* ---- option plumbing ---- *)
Definition obind {A B} (o : option A) (f : A -> option B) : option B :=
  match o with Some a => f a | None => None end.

Definition obind2 {A B C} (o1 : option A) (o2 : option B) (f : A -> B -> option C) : option C :=
  match o1, o2 with Some a, Some b => f a b | _, _ => None end.

(* all entries defined, or None *)
Fixpoint oseq {A} (l : list (option A)) : option (list A) :=
  match l with
  | [] => Some []
  | o :: t => match o, oseq t with Some a, Some r => Some (a :: r) | _, _ => None end
  end.

Section Rnd.
  Variable rnd : R -> R.

  (* ---- operators ---- *)
  Definition binRnd (o : binop) (a b : R) : option R :=
    match o with
    | BAdd => Some (rnd (a + b))
    | BSub => Some (rnd (a - b))
    | BMul => Some (rnd (a * b))
    | BDiv => if Req_EM_T b 0 then None else Some (rnd (a / b))
    | BMin => Some (Rmin a b)
    | BMax => Some (Rmax a b)
    end.

  Definition unRnd (o : unop) (a : R) : option R :=
    match o with
    | UNeg => Some (- a)
    | UFabs => Some (Rabs a)
    | ULog => if Rlt_dec 0 a then Some (rnd (ln a)) else None
    | UExp => Some (rnd (exp a))
    | USqrt => if Rlt_dec a 0 then None else Some (rnd (sqrt a))
    end.

  Definition powRnd (c : pconst) (a : R) : option R :=
    match c with
    | PTwo => Some (rnd (a ^ 2))
    | PHalf => if Rlt_dec a 0 then None else Some (rnd (sqrt a))
    end.

  (* np.sum: acc = v0; acc = rnd (acc + v1); ... *)
  Definition rsum (l : list R) : R :=
    match l with [] => 0 | a :: t => fold_left (fun acc e => rnd (acc + e)) t a end.

  (* np.count_nonzero(u != v): an exact integer *)
  Definition countne (l : list (R * R)) : R :=
    sum (map (fun p => if Rneqb (fst p) (snd p) then 1 else 0) l).

  Section Eval.
    Variable call : string -> list R -> list R -> option R.   (* meaning of sibling metrics *)
    Variable pe : string -> R.                                (* values of the extra scalar parameters *)

    Fixpoint evalSR (s : sexpr) (x y : list R) {struct s} : option R :=
      match s with
      | SSum v => obind (oseq (map2 (fun a b => evalVR v x y a b) x y)) (fun l => Some (rsum l))
      | SAmax v => obind (oseq (map2 (fun a b => evalVR v x y a b) x y)) (fun l => Some (lmax l))
      | SCountNe u v =>
          obind (oseq (map2 (fun a b => obind2 (evalVR u x y a b) (evalVR v x y a b)
                                               (fun p q => Some (p, q))) x y))
                (fun l => Some (countne l))
      | SLen => Some (len x)
      | SConstQ q => Some (Q2R q)
      | SConstName n => Some (cvalR n)
      | SParam p => Some (pe p)
      | SBin o s1 s2 => obind2 (evalSR s1 x y) (evalSR s2 x y) (binRnd o)
      | SUn o s1 => obind (evalSR s1 x y) (unRnd o)
      | SPowC s1 c => obind (evalSR s1 x y) (powRnd c)
      | SCall f u v =>
          obind2 (oseq (map2 (fun a b => evalVR u x y a b) x y))
                 (oseq (map2 (fun a b => evalVR v x y a b) x y))
                 (call f)
      end
    with evalVR (v : vexpr) (x y : list R) (a b : R) {struct v} : option R :=
      match v with
      | VX => Some a
      | VY => Some b
      | VConstS s => evalSR s x y
      | VBin o v1 v2 => obind2 (evalVR v1 x y a b) (evalVR v2 x y a b) (binRnd o)
      | VUn o v1 => obind (evalVR v1 x y a b) (unRnd o)
      | VPowC v1 c => obind (evalVR v1 x y a b) (powRnd c)
      | VSel c l r v1 v2 =>
          obind2 (evalVR l x y a b) (evalVR r x y a b)
                 (fun p q => if cmpR c p q then evalVR v1 x y a b else evalVR v2 x y a b)
      end.
  End Eval.

  (* ---- the decorator: `p = p + c.<c>` is a rounded addition ---- *)
  Definition add_constR (c : cname) (v : list R) : list R := map (fun a => rnd (a + cvalR c)) v.

  Fixpoint dec_runR (prog : list dstmt) (e : venv) : option (list (list R)) :=
    match prog with
    | [] => None
    | AugAdd p c :: r | Rebind p c :: r =>
        match vlookup p e with
        | Some v => dec_runR r (vset p (add_constR c v) e)
        | None => None
        end
    | ReturnCall ps :: _ => vlookups ps e
    end.

  Definition dec_applyR (params : list string) (prog : list dstmt) (args : list (list R))
    : option (list (list R)) := dec_runR prog (combine params args).

  (* ---- a whole metric ---- *)
  Definition eval_bodyR (call : string -> list R -> list R -> option R) (pe : string -> R)
             (m : metric_ir) (x y : list R) : option R := evalSR call pe (m_body m) x y.

  Definition wrapR (call : string -> list R -> list R -> option R) (dparams : list string)
             (dprog : list dstmt) (pe : string -> R) (m : metric_ir) (x y : list R) : option R :=
    if m_avoid_zero m then
      match dec_applyR dparams dprog [x; y] with
      | Some [x'; y'] => eval_bodyR call pe m x' y'
      | _ => None
      end
    else eval_bodyR call pe m x y.

  (* sibling calls resolve through the table, as in [call_fuel] *)
  Fixpoint call_fuelR (t : mtable) (dparams : list string) (dprog : list dstmt) (fuel : nat)
           (f : string) (x y : list R) : option R :=
    match fuel with
    | O => None
    | S n => match lookup_ir f t with
             | Some m => wrapR (call_fuelR t dparams dprog n) dparams dprog (param_default (m_params m)) m x y
             | None => None
             end
    end.

  Definition evalRnd_wrapped_with (t : mtable) (dparams : list string) (dprog : list dstmt)
             (pe : string -> R) (m : metric_ir) (x y : list R) : option R :=
    wrapR (call_fuelR t dparams dprog call_depth) dparams dprog pe m x y.

  Definition evalRnd_wrapped (t : mtable) (dparams : list string) (dprog : list dstmt)
             (m : metric_ir) (x y : list R) : option R :=
    evalRnd_wrapped_with t dparams dprog (param_default (m_params m)) m x y.
End Rnd.

(* ---- at the generated tables: `DISTANCES[k](x, y)` computed with rounding [rnd] ---- *)
Definition metric_rnd (rnd : R -> R) (m : metric_ir) (x y : list R) : option R :=
  evalRnd_wrapped rnd all_metrics_ir decorator_params decorator_body m x y.

Definition metric_rnd_with (rnd : R -> R) (pe : string -> R) (m : metric_ir) (x y : list R) : option R :=
  evalRnd_wrapped_with rnd all_metrics_ir decorator_params decorator_body pe m x y.

(* ---- sign classes ---- *)
Inductive cls := Pos | NonNeg | Neg | Any.

Definition in_cls (c : cls) (r : R) : Prop :=
  match c with Pos => 0 < r | NonNeg => 0 <= r | Neg => r < 0 | Any => True end.

Definition cls_eqb (a b : cls) : bool :=
  match a, b with Pos, Pos | NonNeg, NonNeg | Neg, Neg | Any, Any => true | _, _ => false end.

(* least upper bound: Pos <= NonNeg <= Any, Neg <= Any *)
Definition cls_join (a b : cls) : cls :=
  match a, b with
  | Pos, Pos => Pos
  | Pos, NonNeg | NonNeg, Pos | NonNeg, NonNeg => NonNeg
  | Neg, Neg => Neg
  | _, _ => Any
  end.

(* transfer functions; each is sound for the ROUNDED operation under [rounding] *)
Definition cls_opp (a : cls) : cls := match a with Pos => Neg | Neg => Pos | _ => Any end.

Definition cls_add (a b : cls) : cls :=
  match a, b with
  | Pos, (Pos | NonNeg) | NonNeg, Pos => Pos
  | NonNeg, NonNeg => NonNeg
  | Neg, Neg => Neg
  | _, _ => Any
  end.

Definition cls_sub (a b : cls) : cls := cls_add a (cls_opp b).   (* Pos - Pos = Any etc. *)

Definition cls_mul (a b : cls) : cls :=
  match a, b with
  | Pos, Pos | Neg, Neg => Pos
  | Pos, Neg | Neg, Pos => Neg
  | Pos, NonNeg | NonNeg, Pos | NonNeg, NonNeg => NonNeg
  | _, _ => Any
  end.

(* None: the divisor is not provably non-zero *)
Definition cls_div (a b : cls) : option cls :=
  match b with Pos | Neg => Some (cls_mul a b) | _ => None end.

Definition cls_min (a b : cls) : cls :=
  match a, b with
  | Neg, _ | _, Neg => Neg
  | Pos, Pos => Pos
  | Pos, NonNeg | NonNeg, Pos | NonNeg, NonNeg => NonNeg
  | _, _ => Any
  end.

Definition cls_max (a b : cls) : cls :=
  match a, b with
  | Pos, _ | _, Pos => Pos
  | NonNeg, _ | _, NonNeg => NonNeg
  | Neg, Neg => Neg
  | _, _ => Any
  end.

Definition cls_abs (a : cls) : cls := match a with Pos | Neg => Pos | _ => NonNeg end.

(* None: the radicand may be negative *)
Definition cls_sqrt (a : cls) : option cls :=
  match a with Pos => Some Pos | NonNeg => Some NonNeg | _ => None end.

Definition cls_bin (o : binop) (a b : cls) : option cls :=
  match o with
  | BAdd => Some (cls_add a b)
  | BSub => Some (cls_sub a b)
  | BMul => Some (cls_mul a b)
  | BDiv => cls_div a b
  | BMin => Some (cls_min a b)
  | BMax => Some (cls_max a b)
  end.

Definition cls_un (o : unop) (a : cls) : option cls :=
  match o with
  | UNeg => Some (cls_opp a)
  | UFabs => Some (cls_abs a)
  | ULog => match a with Pos => Some Any | _ => None end    (* None: the argument may be <= 0 *)
  | UExp => Some Pos
  | USqrt => cls_sqrt a
  end.

Definition cls_pow (c : pconst) (a : cls) : option cls :=
  match c with PTwo => Some (cls_abs a) | PHalf => cls_sqrt a end.

Definition cls_Q (q : Q) : cls :=
  if (0 <? Qnum q)%Z then Pos else if (Qnum q =? 0)%Z then NonNeg else Neg.

Definition cls_cname (n : cname) : cls :=
  match cvalQ n with Some q => cls_Q q | None => NonNeg end.

(* the literal 0 *)
Definition is_zero_const (v : vexpr) : bool :=
  match v with VConstS (SConstQ q) => (Qnum q =? 0)%Z | _ => false end.

(* ---- the abstract interpreter ----
   [clsS c s] / [clsV c v]: the arguments (hence every pair of entries) are in class [c];
   [Some c'] = every sqrt/log/division inside is defined and the value is in class [c'];
   [None] = some sqrt argument is not NonNeg-or-better, some log argument is not Pos, some
   divisor is neither Pos nor Neg, or a sibling call does not resolve.
   [ext = true] adds one rule: `count_nonzero(u != 0)` with [u] Pos or Neg is the length, Pos. *)
Section Check.
  Variable ext : bool.
  Variable callc : string -> cls -> option cls.

  Fixpoint clsS (c : cls) (s : sexpr) {struct s} : option cls :=
    match s with
    | SSum v => clsV c v                        (* length >= 1 *)
    | SAmax v => clsV c v
    | SCountNe u v =>
        obind2 (clsV c u) (clsV c v)
               (fun cu _ => if ext && is_zero_const v && (cls_eqb cu Pos || cls_eqb cu Neg)
                            then Some Pos else Some NonNeg)
    | SLen => Some Pos                          (* length >= 1 *)
    | SConstQ q => Some (cls_Q q)
    | SConstName n => Some (cls_cname n)
    | SParam _ => Some Any
    | SBin o s1 s2 => obind2 (clsS c s1) (clsS c s2) (cls_bin o)
    | SUn o s1 => obind (clsS c s1) (cls_un o)
    | SPowC s1 p => obind (clsS c s1) (cls_pow p)
    | SCall f u v => obind2 (clsV c u) (clsV c v) (fun cu cv => callc f (cls_join cu cv))
    end
  with clsV (c : cls) (v : vexpr) {struct v} : option cls :=
    match v with
    | VX | VY => Some c
    | VConstS s => clsS c s
    | VBin o v1 v2 => obind2 (clsV c v1) (clsV c v2) (cls_bin o)
    | VUn o v1 => obind (clsV c v1) (cls_un o)
    | VPowC v1 p => obind (clsV c v1) (cls_pow p)
    | VSel _ l r v1 v2 =>
        obind2 (clsV c l) (clsV c r)
               (fun _ _ => obind2 (clsV c v1) (clsV c v2) (fun c1 c2 => Some (cls_join c1 c2)))
    end.
End Check.

(* the decorator program on classes (mirrors [dec_runR]) *)
Definition cenv := list (string * cls).

Fixpoint clookup (p : string) (e : cenv) : option cls :=
  match e with
  | [] => None
  | (k, v) :: r => if String.eqb p k then Some v else clookup p r
  end.

Fixpoint cset (p : string) (v : cls) (e : cenv) : cenv :=
  match e with
  | [] => []
  | (k, w) :: r => if String.eqb p k then (k, v) :: r else (k, w) :: cset p v r
  end.

Fixpoint clookups (ps : list string) (e : cenv) : option (list cls) :=
  match ps with
  | [] => Some []
  | p :: r => match clookup p e, clookups r e with
              | Some v, Some vs => Some (v :: vs)
              | _, _ => None
              end
  end.

Fixpoint dec_run_cls (prog : list dstmt) (e : cenv) : option (list cls) :=
  match prog with
  | [] => None
  | AugAdd p c :: r | Rebind p c :: r =>
      match clookup p e with
      | Some v => dec_run_cls r (cset p (cls_add v (cls_cname c)) e)
      | None => None
      end
  | ReturnCall ps :: _ => clookups ps e
  end.

Definition dec_apply_cls (params : list string) (prog : list dstmt) (args : list cls)
  : option (list cls) := dec_run_cls prog (combine params args).

(* [c] is the class of the USER's vectors; a decorated metric sees the shifted class *)
Definition wrap_cls (ext : bool) (callc : string -> cls -> option cls) (dparams : list string)
           (dprog : list dstmt) (m : metric_ir) (c : cls) : option cls :=
  if m_avoid_zero m then
    match dec_apply_cls dparams dprog [c; c] with
    | Some [cx; cy] => clsS ext callc (cls_join cx cy) (m_body m)
    | _ => None
    end
  else clsS ext callc c (m_body m).

Fixpoint call_cls (ext : bool) (t : mtable) (dparams : list string) (dprog : list dstmt) (fuel : nat)
         (f : string) (c : cls) : option cls :=
  match fuel with
  | O => None
  | S n => match lookup_ir f t with
           | Some m => wrap_cls ext (call_cls ext t dparams dprog n) dparams dprog m c
           | None => None
           end
  end.

Definition robust_class_gen (ext : bool) (t : mtable) (dparams : list string) (dprog : list dstmt)
           (c : cls) (m : metric_ir) : option cls :=
  wrap_cls ext (call_cls ext t dparams dprog call_depth) dparams dprog m c.

(* ---- the checker, at the generated tables ---- *)
Definition robust_class (c : cls) (m : metric_ir) : option cls :=
  robust_class_gen false all_metrics_ir decorator_params decorator_body c m.

Definition robust_check (c : cls) (m : metric_ir) : bool :=
  match robust_class c m with Some _ => true | None => false end.

(* ... with the extra `count_nonzero(u != 0)` rule *)
Definition robust_class_cnt (c : cls) (m : metric_ir) : option cls :=
  robust_class_gen true all_metrics_ir decorator_params decorator_body c m.

Definition robust_check_cnt (c : cls) (m : metric_ir) : bool :=
  match robust_class_cnt c m with Some _ => true | None => false end.

(* by Python function name *)
Definition robust_check_name (nc : string * cls) : bool :=
  match lookup_ir (fst nc) all_metrics_ir with
  | Some m => robust_check (snd nc) m
  | None => false
  end.

(* the user's vectors *)
Definition in_dom (c : cls) (x y : list R) : Prop :=
  length x = length y /\ (1 <= length x)%nat /\ Forall (in_cls c) x /\ Forall (in_cls c) y.
