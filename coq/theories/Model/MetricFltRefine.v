(* Definitions for the refinement of the binary64 evaluator (Model/MetricFlt.v) to the rounded-real evaluator
   (Model/MetricRnd.v) at [rnd64]; proofs in Proofs/MetricFltRefine.v.

   [metric_rnd] hard-wires the exact rationals of Gen/Consts_gen.v: the decorator adds [cvalR CEpsilon] = 1/10^20, which
   is not a double; the code adds the double nearest to it ([cf_EPSILON] of Gen/ConstsFlt_gen.v).
   [metric_rnd_shift eps rnd] is [metric_rnd rnd] with the decorator's addend [cvalR c] replaced by [eps c] (nothing else
   changes; [metric_rnd_shift cvalR rnd = metric_rnd rnd], Proofs/MetricFltRefine.v).  The refinement theorem is stated
   at [eps = cvalD], the real values of the doubles.

   [flt_is_Q f q]: the float [f] is finite and its real value is exactly the rational [q] (decided on the decoded
   sign / mantissa / exponent).  [consts_exactS s]: every named constant occurring in the body [s] has a double whose value
   is exactly its rational (true of MAX_ARC_WEIGHT = 100000, false of EPSILON = 1e-20; no body mentions EPSILON). *)
From Coq Require Import Reals ZArith QArith String List Floats.
From OPF Require Import Model.Consts Model.Effects Spec.MetricSpec Model.MetricIR Model.MetricRnd
     Gen.Consts_gen Gen.ConstsFlt_gen Gen.Metrics_gen Gen.Decorator_gen Model.Binary64 Model.MetricFlt.
Import ListNotations.

(* ---- metric_rnd with the decorator's addend as a parameter ---- *)
Section Shift.
  Variable eps : cname -> R.
  Variable rnd : R -> R.

  Definition add_constRs (c : cname) (v : list R) : list R := map (fun a => rnd (a + eps c)%R) v.

  Fixpoint dec_runRs (prog : list dstmt) (e : venv) : option (list (list R)) :=
    match prog with
    | [] => None
    | AugAdd p c :: r | Rebind p c :: r =>
        match vlookup p e with
        | Some v => dec_runRs r (vset p (add_constRs c v) e)
        | None => None
        end
    | ReturnCall ps :: _ => vlookups ps e
    end.

  Definition dec_applyRs (params : list string) (prog : list dstmt) (args : list (list R))
    : option (list (list R)) := dec_runRs prog (combine params args).

  Definition wrapRs (call : string -> list R -> list R -> option R) (dparams : list string)
             (dprog : list dstmt) (pe : string -> R) (m : metric_ir) (x y : list R) : option R :=
    if m_avoid_zero m then
      match dec_applyRs dparams dprog [x; y] with
      | Some [x'; y'] => eval_bodyR rnd call pe m x' y'
      | _ => None
      end
    else eval_bodyR rnd call pe m x y.

  Fixpoint call_fuelRs (t : mtable) (dparams : list string) (dprog : list dstmt) (fuel : nat)
           (f : string) (x y : list R) : option R :=
    match fuel with
    | O => None
    | S n => match lookup_ir f t with
             | Some m => wrapRs (call_fuelRs t dparams dprog n) dparams dprog (param_default (m_params m)) m x y
             | None => None
             end
    end.

  Definition evalRnd_wrapped_shift (t : mtable) (dparams : list string) (dprog : list dstmt)
             (m : metric_ir) (x y : list R) : option R :=
    wrapRs (call_fuelRs t dparams dprog call_depth) dparams dprog (param_default (m_params m)) m x y.
End Shift.

Definition metric_rnd_shift (eps : cname -> R) (rnd : R -> R) (m : metric_ir) (x y : list R) : option R :=
  evalRnd_wrapped_shift eps rnd all_metrics_ir decorator_params decorator_body m x y.

(* the real value of the double the code uses for a named constant *)
Definition cvalD (n : cname) : R := match cvalF n with Some e => f2r e | None => 0%R end.

(* ---- exactness checks ---- *)
Definition flt_is_Q (f : float) (q : Q) : bool :=
  match Prim2SF f with
  | S754_zero _ => Z.eqb (Qnum q) 0
  | S754_finite s m e =>
      let z := if s then Zneg m else Zpos m in
      if (0 <=? e)%Z then Z.eqb (Qnum q) (z * 2 ^ e * Zpos (Qden q))
      else Z.eqb (Qnum q * 2 ^ (- e)) (z * Zpos (Qden q))
  | _ => false
  end.

Definition lits_exact : bool := forallb (fun qf => flt_is_Q (snd qf) (fst qf)) lit_floats.

Definition const_exact (n : cname) : bool :=
  match cvalF n, cvalQ n with
  | Some f, Some q => flt_is_Q f q
  | _, _ => false
  end.

Fixpoint consts_exactS (s : sexpr) : bool :=
  match s with
  | SSum v | SAmax v => consts_exactV v
  | SCountNe u v => (consts_exactV u && consts_exactV v)%bool
  | SLen | SConstQ _ | SParam _ => true
  | SConstName n => const_exact n
  | SBin _ a b => (consts_exactS a && consts_exactS b)%bool
  | SUn _ a => consts_exactS a
  | SPowC a _ => consts_exactS a
  | SCall _ u v => (consts_exactV u && consts_exactV v)%bool
  end
with consts_exactV (v : vexpr) : bool :=
  match v with
  | VX | VY => true
  | VConstS s => consts_exactS s
  | VBin _ a b => (consts_exactV a && consts_exactV b)%bool
  | VUn _ a => consts_exactV a
  | VPowC a _ => consts_exactV a
  | VSel _ l r a b => (consts_exactV l && consts_exactV r && consts_exactV a && consts_exactV b)%bool
  end.

Definition table_consts_exact (t : mtable) : bool := forallb (fun km => consts_exactS (m_body (snd km))) t.

(* every entry finite *)
Definition all_fin (x : list float) : Prop := Forall (fun a => ffin a = true) x.

(* ---- metrics that never reach the decorator: there [metric_rnd_shift eps rnd = metric_rnd rnd] for every [eps] ---- *)
Fixpoint callsS (s : sexpr) : list string :=
  match s with
  | SSum v | SAmax v => callsV v
  | SCountNe u v => callsV u ++ callsV v
  | SLen | SConstQ _ | SConstName _ | SParam _ => []
  | SBin _ a b => callsS a ++ callsS b
  | SUn _ a => callsS a
  | SPowC a _ => callsS a
  | SCall f u v => f :: callsV u ++ callsV v
  end
with callsV (v : vexpr) : list string :=
  match v with
  | VX | VY => []
  | VConstS s => callsS s
  | VBin _ a b => callsV a ++ callsV b
  | VUn _ a => callsV a
  | VPowC a _ => callsV a
  | VSel _ l r a b => callsV l ++ callsV r ++ callsV a ++ callsV b
  end.

(* the function named [f] is undecorated, and so is everything it calls (to depth [fuel]) *)
Fixpoint plain_fuel (t : mtable) (fuel : nat) (f : string) : bool :=
  match fuel with
  | O => true
  | S n => match lookup_ir f t with
           | Some m => (negb (m_avoid_zero m) && forallb (plain_fuel t n) (callsS (m_body m)))%bool
           | None => true
           end
  end.

Definition plain_metric (m : metric_ir) : bool :=
  (negb (m_avoid_zero m) && forallb (plain_fuel all_metrics_ir call_depth) (callsS (m_body m)))%bool.

Definition plain_names : list string :=
  map fst (filter (fun km => plain_metric (snd km)) all_metrics_ir).
