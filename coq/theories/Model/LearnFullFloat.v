(* opf_accuracy and the two accuracy comparisons of SupervisedOPF.learn as the code evaluates
   them: in floating point.  One definition over the record of operations of Base/NumOps.v,
   instantiated at PrimFloat (binary64: what numpy computes, compared bit for bit by the
   correspondence) - the instance [FAcc] of Model/LearnFull.v's accuracy domain.

   Why this exists: the exact-rational instance [QAcc] decides [acc > max_acc] on the rationals.
   numpy computes  1 - sum_c (e0[c]/(N - n_c) + e1[c]/n_c) / (2K)  with a rounding after every
   operation, and two validation outcomes with the SAME rational accuracy can come out one ulp
   apart (7/12 as 0.5833333333333333 and 0.5833333333333334), in which case the real loop moves
   its best classifier to the later iteration.  See findings/C17_learnfull_float_tie.json. *)
From Coq Require Import ZArith List Arith Bool Floats.
From OPF Require Import Base.Lists Model.Measures Model.LearnFull.
From OPF Require Import Base.NumOps.
Import ListNotations.
Local Open Scope nat_scope.

Section AccOps.
  Context {F : Type}.
  Variable o : Base.NumOps.NumOps F.

  Definition f0 : F := nofZ o 0%Z.
  Definition fnat (n : nat) : F := nofZ o (Z.of_nat n).

  (* np.nansum: a NaN term (0/0: a class absent from the labels) counts as 0 *)
  Definition nan_to_zero (x : F) : F := if neqb o x x then x else f0.

  (* np.sum on a contiguous 1-d array of doubles = numpy's pairwise_sum:
       n < 8      a plain left-to-right loop;
       n <= 128   eight running sums over the blocks of 8, combined as a balanced tree, then the
                  remaining n mod 8 entries added one by one;
       n > 128    split at (n/2 rounded down to a multiple of 8), both halves summed recursively. *)
  Fixpoint pw_blocks (fuel : nat) (r rest : list F) : list F * list F :=
    match fuel with
    | 0 => (r, rest)
    | S f =>
      if Nat.leb 8 (length rest)
      then pw_blocks f (zipw (nadd o) r (firstn 8 rest)) (skipn 8 rest)
      else (r, rest)
    end.

  Definition pw_combine (r : list F) : F :=
    let g i := nth i r f0 in
    nadd o (nadd o (nadd o (g 0) (g 1)) (nadd o (g 2) (g 3)))
           (nadd o (nadd o (g 4) (g 5)) (nadd o (g 6) (g 7))).

  Fixpoint pairwise_sum (fuel : nat) (l : list F) : F :=
    match fuel with
    | 0 => f0
    | S f =>
      let n := length l in
      if Nat.ltb n 8 then fold_left (nadd o) l f0
      else if Nat.leb n 128 then
        let br := pw_blocks n (firstn 8 l) (skipn 8 l) in
        fold_left (nadd o) (snd br) (pw_combine (fst br))
      else
        let h := n / 2 in
        let n2 := h - h mod 8 in
        nadd o (pairwise_sum f (firstn n2 l)) (pairwise_sum f (skipn n2 l))
    end.

  Definition np_sum (l : list F) : F := pairwise_sum (S (length l)) l.

  (* g.opf_accuracy(labels, preds) *)
  Definition opf_accuracy_ops (labels preds : list nat) : F :=
    let K := n_class labels in
    let e := errors labels preds in
    let counts := bincount labels in
    let N := list_sum counts in
    let e1 := zipw (fun x c => ndiv o (fnat x) (fnat c)) (snd e) counts in          (* errors[:, 1] /= counts *)
    let e0 := zipw (fun x c => ndiv o (fnat x) (fnat (N - c))) (fst e) counts in    (* errors[:, 0] /= N - counts *)
    let rows := zipw (fun a b => nadd o (nan_to_zero a) (nan_to_zero b)) e0 e1 in   (* np.nansum(errors, axis=1) *)
    nsub o (fnat 1) (ndiv o (np_sum rows) (fnat (2 * K))).                          (* 1 - np.sum(errors) / (2 * n_class) *)

  Definition nabs (x : F) : F := if nltb o x f0 then nsub o f0 x else x.            (* np.fabs *)

  (* [thr]: the literal 0.0001 *)
  Definition acc_ops_of (thr : F) : acc_ops F :=
    mkAccOps F opf_accuracy_ops
             (fun acc max_acc => nltb o max_acc acc)
             (fun acc prev => nltb o (nabs (nsub o acc prev)) thr)
             f0.
End AccOps.

(* binary64 *)
Definition FAcc : acc_ops float := acc_ops_of FOps 0x1.a36e2eb1c432dp-14%float.

(* a binary64 value as an exact fraction (numerator, denominator); denominator 0 for NaN / infinities *)
Definition float_fraction (f : float) : Z * Z :=
  match Prim2SF f with
  | S754_zero _ => (0, 1)%Z
  | S754_finite s m e =>
      let mz := if s then Zneg m else Zpos m in
      if Z.leb 0 e then (mz * 2 ^ e, 1)%Z else (mz, 2 ^ (- e))%Z
  | _ => (0, 0)%Z
  end.
