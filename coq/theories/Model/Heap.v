(* Model of opfython/core/heap.py (class Heap), transcribed statement by statement.

   Carrier: costs live in an arbitrary type [W] compared only through [ltb]
   (the code uses only [<] and [>] on costs).  Executed at [W := Z].

   Representation choices (see DESIGN.md 3.4):
   - [hn] is [last + 1] (number of queued elements);
   - [hp] keeps stale entries where the Python code writes the sentinel -1
     ([p[last] = -1]); the code never reads entries beyond [last] before rewriting them;
   - [hpos] is a list of [option nat], [None] standing for the sentinel -1
     ([go_up(-1)] is a no-op: [while i > 0 ...] fails at once);
   - [dad i = int((i-1)/2)]: natural-number division, [dad 0 = 0] as [int(-0.5) = 0]. *)
From Coq Require Import List Arith Bool.
From OPF Require Import Base.Lists.
Import ListNotations.

Inductive color := White | Gray | Black.
Inductive policy := PMin | PMax.

Definition color_eqb (a b : color) : bool :=
  match a, b with White, White | Gray, Gray | Black, Black => true | _, _ => false end.

Record heap (W : Type) := mkHeap {
  hsize : nat; hpol : policy;
  hcost : list W; hcolor : list color; hp : list nat; hpos : list (option nat);
  hn : nat }.
Arguments mkHeap {W}. Arguments hsize {W}. Arguments hpol {W}. Arguments hcost {W}.
Arguments hcolor {W}. Arguments hp {W}. Arguments hpos {W}. Arguments hn {W}.

Section HeapOps.
  Context {W : Type}.
  Variable ltb : W -> W -> bool.
  Variable top : W.                       (* c.FLOAT_MAX *)

  (* [better pol a b]: a is strictly better than b under the policy *)
  Definition better (pol : policy) (a b : W) : bool :=
    match pol with PMin => ltb a b | PMax => ltb b a end.

  Definition h_init (size : nat) (pol : policy) : heap W :=
    mkHeap size pol (repeat top size) (repeat White size) (repeat 0 size) (repeat None size) 0.

  Definition is_full (h : heap W) : bool := Nat.eqb (hn h) (hsize h).
  Definition is_empty (h : heap W) : bool := Nat.eqb (hn h) 0.

  Definition dad (i : nat) : nat := (i - 1) / 2.
  Definition left_son (i : nat) : nat := 2 * i + 1.
  Definition right_son (i : nat) : nat := 2 * i + 2.

  Definition pcost (h : heap W) (i : nat) : W := nth (nth i (hp h) 0) (hcost h) top.

  (* p[j], p[i] = p[i], p[j]; pos[p[i]] = i; pos[p[j]] = j *)
  Definition swap (h : heap W) (i j : nat) : heap W :=
    let pi := nth i (hp h) 0 in
    let pj := nth j (hp h) 0 in
    let p1 := upd (hp h) j pi in
    let p2 := upd p1 i pj in
    let pos1 := upd (hpos h) (nth i p2 0) (Some i) in
    let pos2 := upd pos1 (nth j p2 0) (Some j) in
    mkHeap (hsize h) (hpol h) (hcost h) (hcolor h) p2 pos2 (hn h).

  Fixpoint go_up (fuel : nat) (h : heap W) (i : nat) : heap W :=
    match fuel with
    | 0 => h
    | S f =>
      let j := dad i in
      if Nat.ltb 0 i && better (hpol h) (pcost h i) (pcost h j)
      then go_up f (swap h i j) j
      else h
    end.

  Fixpoint go_down (fuel : nat) (h : heap W) (i : nat) : heap W :=
    match fuel with
    | 0 => h
    | S f =>
      let l := left_son i in
      let r := right_son i in
      let j1 := if Nat.ltb l (hn h) && better (hpol h) (pcost h l) (pcost h i) then l else i in
      let j2 := if Nat.ltb r (hn h) && better (hpol h) (pcost h r) (pcost h j1) then r else j1 in
      if Nat.eqb j2 i then h else go_down f (swap h i j2) j2
    end.

  Definition set_cost (h : heap W) (p : nat) (c : W) : heap W :=
    mkHeap (hsize h) (hpol h) (upd (hcost h) p c) (hcolor h) (hp h) (hpos h) (hn h).

  Definition insert (h : heap W) (p : nat) : heap W * bool :=
    if is_full h then (h, false)
    else
      let last := hn h in
      let h1 := mkHeap (hsize h) (hpol h) (hcost h) (upd (hcolor h) p Gray)
                       (upd (hp h) last p) (upd (hpos h) p (Some last)) (S last) in
      (go_up (S last) h1 last, true).

  Definition remove (h : heap W) : heap W * option nat :=
    if is_empty h then (h, None)
    else
      let p := nth 0 (hp h) 0 in
      let last := hn h - 1 in
      let col := upd (hcolor h) p Black in
      let p1 := upd (hp h) 0 (nth last (hp h) 0) in
      let pos0 := upd (hpos h) p None in
      let pos1 := upd pos0 (nth 0 p1 0) (Some 0) in
      let h1 := mkHeap (hsize h) (hpol h) (hcost h) col p1 pos1 last in
      (go_down (hsize h) h1 0, Some p).

  Definition update (h : heap W) (p : nat) (c : W) : heap W :=
    let h1 := set_cost h p c in
    match nth p (hcolor h1) White with
    | White => fst (insert h1 p)
    | _ => match nth p (hpos h1) None with
           | Some i => go_up (S i) h1 i
           | None => h1
           end
    end.

  (* the queued elements, in array order *)
  Definition queued (h : heap W) : list nat := firstn (hn h) (hp h).

  (* Operation language for histories (C05) *)
  Inductive op := OIns (p : nat) | OUpd (p : nat) (c : W) | ORem | OIsEmpty | OIsFull.
  Inductive out := RBool (b : bool) | RElem (p : nat) | RFalse | RUnit.

  Definition step (h : heap W) (o : op) : heap W * out :=
    match o with
    | OIns p => let '(h', b) := insert h p in (h', RBool b)
    | OUpd p c => (update h p c, RUnit)
    | ORem => match remove h with (h', Some p) => (h', RElem p) | (h', None) => (h', RFalse) end
    | OIsEmpty => (h, RBool (is_empty h))
    | OIsFull => (h, RBool (is_full h))
    end.

  Fixpoint run (h : heap W) (ops : list op) : heap W * list out :=
    match ops with
    | [] => (h, [])
    | o :: os => let '(h1, r) := step h o in
                 let '(h2, rs) := run h1 os in (h2, r :: rs)
    end.
End HeapOps.
