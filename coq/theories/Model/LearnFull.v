(* Closed-loop model of SupervisedOPF.learn and SupervisedOPF.prune (opfython/models/supervised.py).

   Model/Learn.v models the two loops over abstract rows and is FED, per iteration, what fit /
   predict / opf_accuracy produced in the real run.  Here nothing is fed but the random draws:
   the loops CALL the models of fit (Model/Sup.v: sup_fit), predict (predict_batch, which also
   marks relevance) and opf_accuracy (Model/Measures.v).

   Rows are point ids: indices into a fixed universe of points with a weight function
     w : nat -> nat -> W        w a b = distance_fn(features of point a, features of point b)
   (first argument = first argument of the call, no symmetry assumed; rank-encoded for execution
   exactly as in the supervised correspondence).  A training set is a list of ids + a list of
   labels, a validation set likewise; the caller's four arrays are an [lstate nat] of Model/Learn.v.

   Accuracies: the code compares binary64 values ([acc > max_acc],
   [np.fabs(acc - previous_acc) < 0.0001]).  The loop is written over a small record of
   operations [acc_ops]; the instance the theorems are about, [QAcc], computes opf_accuracy as an
   EXACT rational and decides both comparisons on the rationals (threshold = the exact value of
   the binary64 literal 0.0001). *)
From Coq Require Import ZArith QArith Qabs List Arith Bool.
From OPF Require Import Base.Lists Model.Heap Model.Sup Model.Learn Model.Measures.
Import ListNotations.
Local Open Scope nat_scope.

(* ------------------------------------------------------------------------------------ *)
(* the accuracy domain *)

Record acc_ops (A : Type) := mkAccOps {
  ao_acc : list nat -> list nat -> A;      (* g.opf_accuracy(Y_val, preds) *)
  ao_gt : A -> A -> bool;                  (* ao_gt acc max_acc   =  acc > max_acc *)
  ao_small : A -> A -> bool;               (* ao_small acc prev   =  np.fabs(acc - prev) < 0.0001 *)
  ao_zero : A                              (* max_acc = 0; previous_acc = 0 *)
}.
Arguments ao_acc {A}. Arguments ao_gt {A}. Arguments ao_small {A}. Arguments ao_zero {A}.

Definition Qltb (a b : Q) : bool := negb (Qle_bool b a).

(* the binary64 number written 0.0001 in the source: 7378697629483821 / 2^66 *)
Definition stop_threshold : Q := 7378697629483821 # 73786976294838206464.

Definition QAcc : acc_ops Q :=
  mkAccOps Q opf_accuracy
           (fun acc max_acc => Qltb max_acc acc)
           (fun acc prev => Qltb (Qabs (acc - prev)) stop_threshold)
           0%Q.

(* np.argwhere(Y_val != preds).ravel() *)
Definition err_positions (Yv preds : list nat) : list nat :=
  filter (fun i => negb (Nat.eqb (nth i Yv 0) (nth i preds 0))) (seq 0 (length Yv)).

(* what makes the real code raise instead of returning (the model itself is total):
   - predict reads idx_nodes[0]: IndexError when fit found no prototype (one class only);
   - opf_accuracy writes errors[pred][0]: IndexError when a prediction exceeds max(Y_val). *)
Definition fit_ok {W} (nd : @nodes W) : bool := match n_order nd with [] => false | _ => true end.
Definition acc_ok (Yv preds : list nat) : bool := forallb (fun p => Nat.ltb p (n_class Yv)) preds.

Section LearnFull.
  Context {W : Type}.
  Variable ltb : W -> W -> bool.
  Variables zero top : W.
  Variable w : nat -> nat -> W.            (* distances over the universe of point ids *)
  Context {A : Type}.
  Variable ao : acc_ops A.

  (* self.fit(X_train, Y_train): node p of the subgraph is point [nth p X 0] *)
  Definition fit_on (X Y : list nat) : @nodes W :=
    sup_fit ltb zero top Y (fun p q => w (nth p X 0) (nth q X 0)).

  (* self.predict(X_val) on the classifier [nd] fitted on the ids X: the distance of training
     node s to validation point v is w (id of s) v.  Returns the node table (relevance marked)
     and the predictions. *)
  Definition predict_on (X : list nat) (nd : @nodes W) (Xv : list nat) : @nodes W * list nat :=
    predict_batch ltb zero nd (map (fun v => fun s => w (nth s X 0) v) Xv).

  (* ---------------- learn ---------------- *)

  (* everything one pass of the while loop computes before the exchanges *)
  Record fiter := mkFIter {
    fi_X : list nat; fi_Y : list nat;      (* the training set this iteration fitted on *)
    fi_Xv : list nat; fi_Yv : list nat;    (* the validation set as it stood *)
    fi_nodes : @nodes W;                   (* self.subgraph after fit and predict *)
    fi_preds : list nat;                   (* preds *)
    fi_acc : A;                            (* acc *)
    fi_errs : list nat;                    (* errors.ravel() *)
    fi_small : bool                        (* delta < 0.0001 *)
  }.

  Definition iterate (prev : A) (st : lstate nat) : fiter :=
    let r := predict_on (l_Xt st) (fit_on (l_Xt st) (l_Yt st)) (l_Xv st) in
    let acc := ao_acc ao (l_Yv st) (snd r) in
    mkFIter (l_Xt st) (l_Yt st) (l_Xv st) (l_Yv st) (fst r) (snd r) acc
            (err_positions (l_Yv st) (snd r)) (ao_small ao acc prev).

  Record fresult := mkFRes {
    fr_res : lresult nat;                  (* best_t, iterations run, snapshot ids/labels, draws left, arrays *)
    fr_nodes : @nodes W;                   (* the subgraph left in the object (best_opf's) *)
    fr_trace : list fiter                  (* the iterations that were run, in order *)
  }.

  (* the while True loop.  [fuel]: the loop ends at the latest when t == n_iterations, so
     n_iterations - t is enough (n_iterations = 0 never satisfies that test in the code; it is
     outside this model, whose fuel then is 0). *)
  Fixpoint learn_full_loop (fuel t n_iterations : nat) (max_acc prev : A) (best : nat)
           (snap : list nat * list nat) (bnd : @nodes W) (draws : list nat) (st : lstate nat) : fresult :=
    match fuel with
    | 0 => mkFRes (mkRes best t snap draws st) bnd []
    | S f =>
      let it := iterate prev st in
      let upd_best := Nat.eqb t 0 || ao_gt ao (fi_acc it) max_acc in
      let max_acc1 := if upd_best then fi_acc it else max_acc in
      let best1 := if upd_best then t else best in
      let snap1 := if upd_best then (l_Xt st, l_Yt st) else snap in
      let bnd1 := if upd_best then fi_nodes it else bnd in           (* copy.deepcopy(self) *)
      let proto := n_status (fi_nodes it) in
      let ds := err_loop proto (fi_errs it) (count_non_prototypes proto) draws st in
      let t1 := S t in
      if fi_small it || Nat.eqb t1 n_iterations
      then mkFRes (mkRes best1 t1 snap1 (fst ds) (snd ds)) bnd1 [it]
      else
        let r := learn_full_loop f t1 n_iterations max_acc1 (fi_acc it) best1 snap1 bnd1 (fst ds) (snd ds) in
        mkFRes (fr_res r) (fr_nodes r) (it :: fr_trace r)
    end.

  Definition learn_full (n_iterations : nat) (draws : list nat) (st : lstate nat) : fresult :=
    learn_full_loop n_iterations 0 n_iterations (ao_zero ao) (ao_zero ao) 0 (l_Xt st, l_Yt st)
                    (nodes_init zero []) draws st.

  (* ---------------- prune ---------------- *)

  Record pround := mkPR {
    pr_X : list nat; pr_Y : list nat;      (* training set of this round *)
    pr_nodes : @nodes W;                   (* self.subgraph after fit and predict *)
    pr_preds : list nat
  }.

  (* self.fit(X_train, Y_train); self.predict(X_val) *)
  Definition prune_fit (X Y Xv : list nat) : pround :=
    let r := predict_on X (fit_on X Y) Xv in mkPR X Y (fst r) (snd r).

  (* round 0 = the fit/predict before the loop; then n_iterations rounds of
     "keep the rows whose node is flagged relevant; fit; predict" *)
  Fixpoint prune_rounds (k : nat) (X Y Xv : list nat) : list pround :=
    let r := prune_fit X Y Xv in
    match k with
    | 0 => [r]
    | S k' =>
      let fl := n_relevant (pr_nodes r) in
      r :: prune_rounds k' (keep fl X) (keep fl Y) Xv
    end.

  (* the last round: final training set and the classifier left in the object *)
  Definition prune_full (n_iterations : nat) (st : lstate nat) : pround :=
    last (prune_rounds n_iterations (l_Xt st) (l_Yt st) (l_Xv st))
         (prune_fit (l_Xt st) (l_Yt st) (l_Xv st)).
End LearnFull.

Arguments fiter W A : clear implicits.
Arguments fresult W A : clear implicits.
Arguments pround W : clear implicits.
