(* Model of OPF.save / OPF.load (opfython/core/opf.py).
   An object is its attribute dictionary: a finite map from attribute names to values,
   represented as an association list (first binding wins).
     save:  pickle.dump(self, f)                       -> the file holds an encoding of the dictionary
     load:  opf = pickle.load(f); self.__dict__.update(opf.__dict__)
   pickle is an uninterpreted encoding: Section variables [enc]/[dec] with the round-trip
   HYPOTHESIS [dec (enc m) = Some m] (recorded in the trusted base; never an Axiom). *)
From Coq Require Import String List.
Import ListNotations.

Section Persist.
  Variable V : Type.                           (* attribute values *)
  Definition dict := list (string * V).

  Fixpoint get (m : dict) (k : string) : option V :=
    match m with
    | [] => None
    | (k', v) :: t => if String.eqb k k' then Some v else get t k
    end.

  Definition keys (m : dict) : list string := map fst m.

  (* dict.update(other): every binding of [other] overrides / extends [m] *)
  Definition update (m other : dict) : dict := other ++ m.

  Variable file : Type.
  Variable enc : dict -> file.
  Variable dec : file -> option dict.

  (* save returns the file and leaves the object as it is *)
  Definition save (m : dict) : file * dict := (enc m, m).

  Definition load (fresh : dict) (f : file) : option dict :=
    match dec f with
    | Some other => Some (update fresh other)
    | None => None
    end.

  (* predict as a function of the attribute dictionary and the input only *)
  Variable In_ Out_ : Type.
  Variable predict_of_state : (string -> option V) -> In_ -> Out_.
  Definition predict (m : dict) (x : In_) : Out_ := predict_of_state (get m) x.
End Persist.
