(* KNNSupervisedOPF.predict / UnsupervisedOPF.predict against a FITTED model, as one definition over
   [NumOps]: the order-only scan and arg-max of Model/Knn.v ([knn_predict_one], [knn_predict_batch])
   composed with the query density of Model/Pdf.v ([query_density]) and fed with the result
   (graph, (constant, min, max)) of Model/KnnFit.v ([knn_sup_final] / [unsup_final]).

       density = 0.0
       for k in range(best_k): density += np.exp(-distances[k] / self.subgraph.constant)
       density /= best_k
       density = ((MAX_DENSITY - 1) * (density - min_density) / (max_density - min_density + EPSILON)) + 1

   The term of slot l is a function of distances[l] alone; [E] stands for x |-> exp(-x/constant)
   (over R it is instantiated with exactly that, Proofs/KnnPredictPipeline.v).  Only definitions
   here; the PrimFloat entry points of Model/RunKnn.v feed the same components with a table of
   numpy's exp values instead of [E]. *)
From Coq Require Import List ZArith Bool.
From OPF Require Import Base.Lists Base.NumOps Model.Heap Model.Knn Model.Pdf Model.KnnFit.
Import ListNotations.

Section KnnPredict.
  Context {F : Type} (O : NumOps F).
  Variables fmax eps : F.                     (* c.FLOAT_MAX, c.EPSILON *)
  Variable maxd : Z.                          (* c.MAX_DENSITY *)
  Variable E : F -> F.                        (* x |-> exp(-x / constant) *)

  (* the query density computed from the scan result: reads the k selected distances only *)
  Definition query_densx (mn mx : F) (k : nat) (ds : list F) (ns : list nat) : F :=
    query_density O maxd eps mn mx k (fun l => E (nth l ds fmax)).

  (* one query; [dq j] = distance between the query and training sample j.  Result: the training
     sample the query takes its predicted label (and, unsupervised, its cluster label) from *)
  Definition knn_query (fit : @knn F * (F * F * F)) (k : nat) (dq : nat -> F) : option nat :=
    let '(g, (_, mn, mx)) := fit in
    knn_predict_one (nltb O) (fzero O) fmax (fbot O fmax) g k (length (k_label g))
                    (query_densx mn mx k) dq.

  (* a whole predict call: the scratch array neighbours_idx is threaded from query to query *)
  Definition knn_query_batch (fit : @knn F * (F * F * F)) (k : nat) (qs : list (nat -> F))
    : list (option nat) :=
    let '(g, (_, mn, mx)) := fit in
    knn_predict_batch (nltb O) (fzero O) fmax (fbot O fmax) g k (length (k_label g))
                      (query_densx mn mx k) qs.

  (* what the caller gets for one query: predicted label and cluster label, both 0 (the value a
     fresh Node carries) when no neighbour was selected *)
  Definition label_of (g : @knn F) (o : option nat) : nat :=
    match o with Some s => nth s (k_plabel g) 0 | None => 0 end.
  Definition cluster_of (g : @knn F) (o : option nat) : nat :=
    match o with Some s => nth s (k_clabel g) 0 | None => 0 end.

  (* UnsupervisedOPF: fit; propagate_labels(); predict *)
  Definition with_propagated_labels (fit : @knn F * (F * F * F)) : @knn F * (F * F * F) :=
    (propagate_labels (fst fit), snd fit).
End KnnPredict.
