(* Model of opfython/subgraphs/knn.py (KNNSubgraph.create_arcs - order-only part),
   the two _clustering routines (models/knn_supervised.py, models/unsupervised.py),
   the order-only part of both KNN predicts, and the two k-selection loops.

   Everything here touches weights/densities only through comparisons, min and max,
   so it is polymorphic in [W] with [ltb].  The arithmetic kernels (pdf, density) are in
   Model/Pdf.v. *)
From Coq Require Import List Arith Bool.
From OPF Require Import Base.Lists Model.Heap.
Import ListNotations.

Section Knn.
  Context {W : Type}.
  Variable ltb : W -> W -> bool.
  Variables zero top bot : W.             (* 0.0, c.FLOAT_MAX, -c.FLOAT_MAX *)

  Definition weqb (a b : W) : bool := negb (ltb a b) && negb (ltb b a).
  Definition wmin (a b : W) : W := if ltb b a then b else a.     (* np.minimum *)
  Definition wmaxk (a b : W) : W := if ltb a b then b else a.    (* np.maximum *)

  Definition swapl {A} (l : list A) (i j : nat) (d : A) : list A :=
    upd (upd l i (nth j l d)) j (nth i l d).

  (* while cur_k > 0 and distances[cur_k] < distances[cur_k - 1]: swap both arrays; cur_k -= 1 *)
  Fixpoint bubble (cur : nat) (ds : list W) (ns : list nat) : list W * list nat :=
    match cur with
    | 0 => (ds, ns)
    | S c =>
      if ltb (nth cur ds top) (nth c ds top)
      then bubble c (swapl ds cur c top) (swapl ns cur c 0)
      else (ds, ns)
    end.

  (* one step of the insertion scan: candidate [j] at distance [dj] enters slot [k] *)
  Definition scan_step (k : nat) (dist : nat -> W) (skip : option nat) (st : list W * list nat) (j : nat)
    : list W * list nat :=
    let '(ds, ns) := st in
    if match skip with Some i => Nat.eqb j i | None => false end then (ds, ns)
    else bubble k (upd ds k (dist j)) (upd ns k j).

  (* distances.fill(FLOAT_MAX); for j in range(n): ...   ([ns] is NOT reset by the code) *)
  Definition knn_scan (k n : nat) (dist : nat -> W) (skip : option nat) (ns : list nat) : list W * list nat :=
    fold_left (scan_step k dist skip) (seq 0 n) (repeat top (S k), ns).

  Record knn := mkKnn {
    k_label : list nat;
    k_adj : list (list nat);
    k_radius : list W;
    k_nplat : list nat;
    k_dens : list W;                (* node density *)
    k_cost : list W;                (* node cost *)
    k_pred : list (option nat);
    k_root : list nat;
    k_plabel : list nat;            (* predicted_label *)
    k_clabel : list nat;            (* cluster_label *)
    k_order : list nat;             (* idx_nodes *)
    k_gdens : W;                    (* subgraph.density *)
    k_nclusters : nat }.

  Definition knn_init (labels : list nat) : knn :=
    let n := length labels in
    mkKnn labels (repeat [] n) (repeat zero n) (repeat 0 n) (repeat zero n) (repeat zero n)
          (repeat None n) (repeat 0 n) (repeat 0 n) (repeat 0 n) [] zero 0.

  Definition set_adj (g : knn) (adj : list (list nat)) (np : list nat) : knn :=
    mkKnn (k_label g) adj (k_radius g) np (k_dens g) (k_cost g) (k_pred g) (k_root g)
          (k_plabel g) (k_clabel g) (k_order g) (k_gdens g) (k_nclusters g).

  (* ---------------- create_arcs ---------------- *)

  (* for l in range(k-1, -1, -1): ... ; state = (gdens, radius_i, maxd, adj_i) *)
  Definition arcs_collect (ds : list W) (ns : list nat)
             (st : W * W * list W * list nat) (l : nat) : W * W * list W * list nat :=
    let '(gd, rad, maxd, adj) := st in
    let d := nth l ds top in
    if weqb d top then st
    else
      (if ltb gd d then d else gd,
       if ltb rad d then d else rad,
       if ltb (nth l maxd zero) d then upd maxd l d else maxd,
       nth l ns 0 :: adj).

  Definition arcs_node (k n : nat) (w : nat -> nat -> W)
             (st : knn * list W * list nat) (i : nat) : knn * list W * list nat :=
    let '(g, maxd, ns0) := st in
    let '(ds, ns) := knn_scan k n (w i) (Some i) ns0 in
    let '(gd, rad, maxd', adj) :=
        fold_left (arcs_collect ds ns) (rev (seq 0 k)) (k_gdens g, zero, maxd, nth i (k_adj g) []) in
    (mkKnn (k_label g) (upd (k_adj g) i adj) (upd (k_radius g) i rad) (upd (k_nplat g) i 0)
           (k_dens g) (k_cost g) (k_pred g) (k_root g) (k_plabel g) (k_clabel g) (k_order g) gd (k_nclusters g),
     maxd', ns).

  (* [thr] = 0.00001 and [one] = 1 as elements of W.
     [create_arcs_acc] is the body of the method after its first statement: the bound found in the graph is only raised. *)
  Definition create_arcs_acc (thr one : W) (k n : nat) (w : nat -> nat -> W) (g : knn) : knn * list W :=
    let '(g1, maxd, _) := fold_left (arcs_node k n w) (seq 0 n) (g, repeat zero k, repeat 0 (S k)) in
    let gd := if ltb (k_gdens g1) thr then one else k_gdens g1 in
    (mkKnn (k_label g1) (k_adj g1) (k_radius g1) (k_nplat g1) (k_dens g1) (k_cost g1) (k_pred g1) (k_root g1)
           (k_plabel g1) (k_clabel g1) (k_order g1) gd (k_nclusters g1), maxd).

  (* `self.density = 0.0` *)
  Definition reset_gdens (g : knn) : knn :=
    mkKnn (k_label g) (k_adj g) (k_radius g) (k_nplat g) (k_dens g) (k_cost g) (k_pred g) (k_root g)
          (k_plabel g) (k_clabel g) (k_order g) zero (k_nclusters g).

  (* KNNSubgraph.create_arcs: the density bound is that of the arcs being created *)
  Definition create_arcs (thr one : W) (k n : nat) (w : nat -> nat -> W) (g : knn) : knn * list W :=
    create_arcs_acc thr one k n w (reset_gdens g).

  Definition destroy_arcs (g : knn) : knn :=
    set_adj g (repeat [] (length (k_adj g))) (repeat 0 (length (k_adj g))).

  (* ---------------- plateau step, KNN-supervised flavour ---------------- *)

  Definition plateau_sup_inner (dens : list W) (i : nat) (adj : list (list nat)) (j : nat) : list (list nat) :=
    if weqb (nth i dens zero) (nth j dens zero) then
      if existsb (Nat.eqb i) (nth j adj []) then adj
      else upd adj j (i :: nth j adj [])
    else adj.

  (* for i: for j in adjacency[i] (the list object as it is when the loop over i reaches it) *)
  Definition plateau_sup (n : nat) (dens : list W) (adj : list (list nat)) : list (list nat) :=
    fold_left (fun a i => fold_left (plateau_sup_inner dens i) (nth i a []) a) (seq 0 n) adj.

  (* ---------------- plateau step, unsupervised flavour ---------------- *)

  (* for l in range(k): adj = adjacency[j][l]; if i == adj: insert = False; if insert: adjacency[j].insert(0, i); n_plateaus += 1 *)
  Definition plateau_unsup_l (i : nat) (st : list nat * nat * bool) (l : nat) : list nat * nat * bool :=
    let '(aj, np, ins) := st in
    let ins' := if Nat.eqb i (nth l aj 0) then false else ins in
    if ins' then (i :: aj, S np, ins') else (aj, np, ins').

  Definition plateau_unsup_k (k : nat) (dens : list W) (i : nat) (st : list (list nat) * list nat) (kk : nat)
    : list (list nat) * list nat :=
    let '(adj, nps) := st in
    let j := nth kk (nth i adj []) 0 in
    if weqb (nth i dens zero) (nth j dens zero) then
      let '(aj, np, _) := fold_left (plateau_unsup_l i) (seq 0 k) (nth j adj [], nth j nps 0, true) in
      (upd adj j aj, upd nps j np)
    else (adj, nps).

  Definition plateau_unsup (k n : nat) (dens : list W) (adj : list (list nat)) (nps : list nat)
    : list (list nat) * list nat :=
    fold_left (fun st i => fold_left (plateau_unsup_k k dens i) (seq 0 k) st) (seq 0 n) (adj, nps).

  (* ---------------- the competition under a max-heap ---------------- *)

  Definition hcostk (h : heap W) (q : nat) : W := nth q (hcost h) top.
  Definition is_blackk (h : heap W) (q : nat) : bool :=
    match nth q (hcolor h) White with Black => true | _ => false end.

  Definition cl_seed (st : heap W * knn) (i : nat) : heap W * knn :=
    let '(h, g) := st in
    let h1 := fst (insert ltb top (set_cost h i (nth i (k_cost g) zero)) i) in
    (h1, mkKnn (k_label g) (k_adj g) (k_radius g) (k_nplat g) (k_dens g) (k_cost g)
               (upd (k_pred g) i None) (upd (k_root g) i i) (k_plabel g) (k_clabel g) (k_order g)
               (k_gdens g) (k_nclusters g)).

  (* [force]: cross-label offers are sent to -FLOAT_MAX (KNN-supervised final clustering);
     [sup = true]: propagate predicted_label; [sup = false]: propagate cluster_label *)
  Definition cl_relax (sup force : bool) (p : nat) (st : heap W * knn) (q : nat) : heap W * knn :=
    let '(h, g) := st in
    if is_blackk h q then (h, g)
    else
      let cur0 := wmin (hcostk h p) (nth q (k_dens g) zero) in
      let cur := if force && negb (Nat.eqb (nth p (k_label g) 0) (nth q (k_label g) 0)) then bot else cur0 in
      if ltb (hcostk h q) cur then
        (update ltb top h q cur,
         mkKnn (k_label g) (k_adj g) (k_radius g) (k_nplat g) (k_dens g) (k_cost g)
               (upd (k_pred g) q (Some p)) (upd (k_root g) q (nth p (k_root g) 0))
               (if sup then upd (k_plabel g) q (nth p (k_plabel g) 0) else k_plabel g)
               (if sup then k_clabel g else upd (k_clabel g) q (nth p (k_clabel g) 0))
               (k_order g) (k_gdens g) (k_nclusters g))
      else (h, g).

  (* [nbrs g p] = the list of q's the inner loop visits for p *)
  Fixpoint cl_loop (fuel : nat) (sup force : bool) (nbrs : knn -> nat -> list nat)
           (h : heap W) (g : knn) (lcount : nat) : heap W * knn * nat :=
    match fuel with
    | 0 => (h, g, lcount)
    | S f =>
      match remove ltb top h with
      | (_, None) => (h, g, lcount)
      | (h1, Some p) =>
        let isroot := match nth p (k_pred g) None with None => true | Some _ => false end in
        let h2 := if isroot then set_cost h1 p (nth p (k_dens g) zero) else h1 in
        let g1 := mkKnn (k_label g) (k_adj g) (k_radius g) (k_nplat g) (k_dens g)
                        (upd (k_cost g) p (hcostk h2 p)) (k_pred g) (k_root g)
                        (if sup && isroot then upd (k_plabel g) p (nth p (k_label g) 0) else k_plabel g)
                        (if negb sup && isroot then upd (k_clabel g) p lcount else k_clabel g)
                        (k_order g ++ [p]) (k_gdens g) (k_nclusters g) in
        let lcount' := if negb sup && isroot then S lcount else lcount in
        let '(h3, g2) := fold_left (cl_relax sup force p) (nbrs g1 p) (h2, g1) in
        cl_loop f sup force nbrs h3 g2 lcount'
      end
    end.

  Definition cl_run (sup force : bool) (nbrs : knn -> nat -> list nat) (n : nat) (g : knn) : knn * nat :=
    let '(h, g1) := fold_left cl_seed (seq 0 n) (h_init top n PMax, g) in
    let '(_, g2, l) := cl_loop n sup force nbrs h g1 0 in
    (g2, l).

  (* KNNSupervisedOPF._clustering(force_prototype) *)
  Definition clustering_sup (force : bool) (g : knn) : knn :=
    let n := length (k_label g) in
    let g1 := set_adj g (plateau_sup n (k_dens g) (k_adj g)) (k_nplat g) in
    fst (cl_run true force (fun g p => nth p (k_adj g) []) n g1).

  (* UnsupervisedOPF._clustering(k) *)
  Definition clustering_unsup (k : nat) (g : knn) : knn :=
    let n := length (k_label g) in
    let '(adj, nps) := plateau_unsup k n (k_dens g) (k_adj g) (k_nplat g) in
    let g1 := set_adj g adj nps in
    let '(g2, l) := cl_run false false
                      (fun g p => firstn (nth p (k_nplat g) 0 + k) (nth p (k_adj g) [])) n g1 in
    mkKnn (k_label g2) (k_adj g2) (k_radius g2) (k_nplat g2) (k_dens g2) (k_cost g2) (k_pred g2) (k_root g2)
          (k_plabel g2) (k_clabel g2) (k_order g2) (k_gdens g2) l.

  (* UnsupervisedOPF.propagate_labels *)
  Definition propagate_labels (g : knn) : knn :=
    let n := length (k_label g) in
    mkKnn (k_label g) (k_adj g) (k_radius g) (k_nplat g) (k_dens g) (k_cost g) (k_pred g) (k_root g)
          (map (fun i => nth (nth i (k_root g) 0) (k_label g) 0) (seq 0 n))
          (k_clabel g) (k_order g) (k_gdens g) (k_nclusters g).

  (* ---------------- prediction: neighbour scan + arg-max (order-only part) ---------------- *)

  (* for k in range(best_k): if distances[k] != FLOAT_MAX: temp = min(cost[nb], density); if temp > cost: take nb *)
  Definition pick_step (g : knn) (densx : W) (ds : list W) (ns : list nat)
             (st : W * option nat) (l : nat) : W * option nat :=
    let '(best, who) := st in
    if weqb (nth l ds top) top then st
    else
      let nb := nth l ns 0 in
      let tmp := wmin (nth nb (k_cost g) zero) densx in
      if ltb best tmp then (tmp, Some nb) else st.

  (* returns the chosen training neighbour (None: no label assignment happened - the node keeps 0) *)
  Definition knn_pick (g : knn) (k : nat) (densx : W) (ds : list W) (ns : list nat) : option nat :=
    snd (fold_left (pick_step g densx ds ns) (seq 0 k) (bot, None)).

  (* one query of KNNSupervisedOPF.predict / UnsupervisedOPF.predict: scan over ALL training samples,
     query density [densx_of ds ns] from the k selected distances/neighbours (arithmetic: Model/Pdf.v),
     arg-max.  The code allocates [neighbours_idx] once per predict call, so the batch version threads it. *)
  Definition knn_predict_one (g : knn) (k n : nat) (densx_of : list W -> list nat -> W) (dist : nat -> W) : option nat :=
    let '(ds, ns) := knn_scan k n dist None (repeat 0 (S k)) in
    knn_pick g k (densx_of ds ns) ds ns.

  Definition knn_predict_step (g : knn) (k n : nat) (densx_of : list W -> list nat -> W)
             (st : list nat * list (option nat)) (dist : nat -> W) : list nat * list (option nat) :=
    let '(ns0, out) := st in
    let '(ds, ns) := knn_scan k n dist None ns0 in
    (ns, out ++ [knn_pick g k (densx_of ds ns) ds ns]).

  Definition knn_predict_batch (g : knn) (k n : nat) (densx_of : list W -> list nat -> W)
             (qs : list (nat -> W)) : list (option nat) :=
    snd (fold_left (knn_predict_step g k n densx_of) qs (repeat 0 (S k), [])).

  (* ---------------- k selection ---------------- *)

  (* KNNSupervisedOPF._learn: max_acc = 0.0; best_k = 1; for k: if acc > max_acc: max_acc = acc; best_k = k *)
  Definition knn_select (accs : list W) : option nat :=
    snd (fold_left (fun st ka => let '(mx, best) := st in
                                 if ltb mx (snd ka) then (snd ka, Some (fst ka)) else st)
                   (combine (seq 1 (length accs)) accs) (zero, Some 1)).

  (* UnsupervisedOPF._best_minimum_cut: min_cut = FLOAT_MAX; for k: if min_cut != 0.0: cut = ...; if cut < min_cut: ...
     [cuts] lists the cut of every k in min_k..; the fold ignores entries after an exact 0 was recorded *)
  Definition cut_select (min_k : nat) (cuts : list W) : option nat * nat :=
    let '(_, best, evaluated) :=
      fold_left (fun st kc => let '(mn, best, ev) := st in
                              if weqb mn zero then st
                              else if ltb (snd kc) mn then (snd kc, Some (fst kc), S ev) else (mn, best, S ev))
                (combine (seq min_k (length cuts)) cuts) (top, None, 0) in
    (best, evaluated).
End Knn.
