(* Which (idx, features) pairs the nodes of a subgraph carry.

   opfython/core/subgraph.py, Subgraph._build:
       for i, (feature, label) in enumerate(zip(X, Y)):
           if I is not None: node = Node(I[i].item(), label.item(), feature)
           else:             node = Node(i, label.item(), feature)
   opfython/models/semi_supervised.py, fit (after the labeled subgraph has been built):
       current_n_nodes = self.subgraph.n_nodes
       for i, feature in enumerate(X_unlabeled):
           if I_unlabeled is not None: node = Node(I_unlabeled[i].item(), 0, feature)
           else:                       node = Node(current_n_nodes + i, 0, feature)
   Node.__init__ stores [idx] and [np.asarray(features)] unchanged.

   Generic in the row type [Row].  Labels are not part of this model (they do not take part
   in the index/feature correspondence); [zip(X, Y)] is taken with [len(Y) = len(X)].
   An index array shorter than [X] makes the code raise IndexError; [combine] truncates
   instead, and all statements are made for index arrays of the right length. *)
From Coq Require Import List Arith.
From OPF Require Import Model.Stream.
Import ListNotations.

Section Build.
  Context {Row : Type}.

  (* the idx column: the index array if given, else the positions start, start+1, ... *)
  Definition index_column (I : option (list nat)) (start n : nat) : list nat :=
    match I with
    | Some J => J
    | None => seq start n
    end.

  (* Subgraph._build *)
  Definition build (X : list Row) (I : option (list nat)) : list (nat * Row) :=
    combine (index_column I 0 (length X)) X.

  (* the nodes SemiSupervisedOPF.fit appends for X_unlabeled; [nl] = current_n_nodes *)
  Definition unlabeled_nodes (nl : nat) (Xu : list Row) (Iu : option (list nat)) : list (nat * Row) :=
    combine (index_column Iu nl (length Xu)) Xu.

  (* labeled nodes first, then the unlabeled ones *)
  Definition semi_build (Xl : list Row) (Il : option (list nat)) (Xu : list Row) (Iu : option (list nat))
    : list (nat * Row) :=
    build Xl Il ++ unlabeled_nodes (length Xl) Xu Iu.

  (* nodes[a].idx and nodes[a].features as functions of the node number [a] *)
  Definition node_idx (nodes : list (nat * Row)) (a : nat) : nat := nth a (map fst nodes) 0.
  Definition node_feat (d : Row) (nodes : list (nat * Row)) (a : nat) : Row := nth a (map snd nodes) d.

  (* the feature / index outputs of opfython.stream.splitter.split_with_index
     (X_1, X_2, I_1, I_2); [perm] = np.random.permutation(n), [h] = halt.
     It is the projection of [Stream.split_with_index] (which also carries the labels). *)
  Definition split_with_index_rows (d : Row) (perm : list nat) (h : nat) (X : list Row)
    : list Row * list Row * list nat * list nat :=
    (gather d X (firstn h perm), gather d X (skipn h perm), firstn h perm, skipn h perm).
End Build.
