(* Z-level entry points for the generated case files of C18 and C20 (stream / converter /
   measures).  Every function takes and returns [Z] / [list Z] / [list (list Z)] so that case
   files contain only Z literals. *)
From Coq Require Import ZArith List Bool QArith Floats.
From OPF Require Import Base.Lists Model.Measures Model.Stream Model.Converter.
Import ListNotations.
Open Scope Z_scope.

Definition nats (l : list Z) : list nat := map Z.to_nat l.
Definition zs (l : list nat) : list Z := map Z.of_nat l.

(* a rational as [numerator; denominator] in lowest terms *)
Definition qpair (q : Q) : list Z := let r := Qred q in [Qnum r; Zpos (Qden r)].

(* ---------------- C20: general.py ---------------- *)

(* [oob; K] ++ confusion matrix (row major) ++ accuracy ++ per-label (-1 | len, pairs..) ++ purity.
   oob = 1 when some prediction is >= K (Python: IndexError in confusion_matrix / opf_accuracy). *)
Definition run_c20 (labels preds : list Z) : list Z :=
  let l := nats labels in
  let p := nats preds in
  let K := n_class l in
  let oob := if existsb (fun x => Nat.leb K x) p then 1 else 0 in
  [oob; Z.of_nat K]
  ++ zs (concat (confusion_matrix l p))
  ++ qpair (opf_accuracy l p)
  ++ match opf_accuracy_per_label l p with
     | None => [-1]
     | Some r => Z.of_nat (length r) :: flat_map qpair r
     end
  ++ qpair (purity l p).

(* normalize under binary64 (round to nearest even), the interpretation that is run *)
Definition FOps : NumOps float :=
  mkOps float 0%float PrimFloat.add PrimFloat.sub PrimFloat.mul PrimFloat.div PrimFloat.sqrt
        (fun n => PrimFloat.of_uint63 (Uint63.of_Z (Z.of_nat n))).

(* a double is passed as [kind; sign; mantissa; exponent]: kind 0 zero, 1 infinity, 2 nan,
   3 finite = (-1)^sign * mantissa * 2^exponent *)
Definition float_in (c : list Z) : float :=
  match c with
  | [k; s; m; e] =>
      let sg := negb (Z.eqb s 0) in
      if Z.eqb k 0 then SF2Prim (S754_zero sg)
      else if Z.eqb k 1 then SF2Prim (S754_infinity sg)
      else if Z.eqb k 2 then SF2Prim S754_nan
      else SF2Prim (S754_finite sg (Z.to_pos m) e)
  | _ => SF2Prim S754_nan
  end.

Definition float_out (f : float) : list Z :=
  match Prim2SF f with
  | S754_zero s => [0; if s then 1 else 0; 0; 0]
  | S754_infinity s => [1; if s then 1 else 0; 0; 0]
  | S754_nan => [2; 0; 0; 0]
  | S754_finite s m e => [3; if s then 1 else 0; Zpos m; e]
  end.

(* matrix given as rows of encoded doubles; result: rows of encoded doubles, flattened per row *)
Definition run_normalize (a : list (list (list Z))) : list (list Z) :=
  map (fun row => flat_map float_out row) (normalize FOps (map (map float_in) a)).

(* ---------------- C18: splitter.py ---------------- *)

Definition run_split (perm : list Z) (h : Z) (X : list (list Z)) (Y : list Z) : list Z :=
  let '(X1, X2, Y1, Y2, I1, I2) := split_with_index [] 0 (nats perm) (Z.to_nat h) X Y in
  [Z.of_nat (length X1); Z.of_nat (length X2)]
  ++ concat X1 ++ concat X2 ++ Y1 ++ Y2 ++ zs I1 ++ zs I2.

Definition run_split_merge (perm : list Z) (h : Z) (X : list (list Z)) (Y : list Z) : list Z :=
  let '(X1, X2, Y1, Y2) := split [] 0 (nats perm) (Z.to_nat h) X Y in
  let '(Xm, Ym) := merge X1 X2 Y1 Y2 in
  Z.of_nat (length Xm) :: concat Xm ++ Ym.

(* ---------------- C18: converter.py, loader.py, parser.py ---------------- *)

Definition rows_fmt (fmt : Z) (ws : list Z) : option (list (list Z)) :=
  if Z.eqb fmt 0 then rows_txt ws else if Z.eqb fmt 1 then rows_csv ws else rows_json ws.

Definition flat_rows (rows : list (list Z)) : list Z :=
  concat (map (fun r => Z.of_nat (length r) :: r) rows).

(* [0] = struct.error (file too short) ; 1 :: n_rows :: (len, cells..)* *)
Definition run_convert (fmt : Z) (ws : list Z) : list Z :=
  match rows_fmt fmt ws with
  | None => [0]
  | Some rows => 1 :: Z.of_nat (length rows) :: flat_rows rows
  end.

(* [0] = e.ValueError (labels not sequential) ; 1 :: n :: X rows (len, cells..)* ++ Y *)
Definition run_parse (rows : list (list Z)) : list Z :=
  match parse_loader rows with
  | None => [0]
  | Some (X, Y) => 1 :: Z.of_nat (length Y) :: flat_rows X ++ Y
  end.

(* convert -> load -> parse_loader, i.e. what Subgraph(from_file=...) gets *)
Definition run_pipeline (fmt : Z) (ws : list Z) : list Z :=
  match rows_fmt fmt ws with
  | None => [-1]
  | Some rows => run_parse rows
  end.

(* one term per dataset: the three conversions, then the three convert-load-parse pipelines *)
Definition run_c18 (ws : list Z) : list Z :=
  run_convert 0 ws ++ run_convert 1 ws ++ run_convert 2 ws
  ++ run_pipeline 0 ws ++ run_pipeline 1 ws ++ run_pipeline 2 ws.

Definition run_c18_split (perm : list Z) (h : Z) (X : list (list Z)) (Y : list Z) : list Z :=
  run_split perm h X Y ++ run_split_merge perm h X Y.

(* the same with halt computed by the model from the percentage (an encoded double, see [float_in]) *)
Definition run_c18_split_p (perm : list Z) (pct : list Z) (X : list (list Z)) (Y : list Z) : list Z :=
  let h := Z.of_nat (halt (length X) (float_in pct)) in
  h :: run_split perm h X Y ++ run_split_merge perm h X Y.
