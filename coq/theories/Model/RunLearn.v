(* Z-level entry points for the learn / prune correspondence cases (rows are integer ids). *)
From Coq Require Import ZArith List Bool.
From OPF Require Import Base.Lists Model.Run Model.Learn.
Import ListNotations.
Open Scope Z_scope.

Definition zflag (z : Z) : bool := Z.eqb z 1.

(* iteration i: accuracy accs[i], stop flag smalls[i], error positions errss[i], prototype flags protos[i] *)
Definition mk_iters (accs smalls : list Z) (errss protos : list (list Z)) : list iter_in :=
  map (fun i => mkIter (nth i accs 0) (map zn (nth i errss [])) (map zflag (nth i protos []))
                       (zflag (nth i smalls 0)))
      (seq 0 (length accs)).

(* output: best_t, iterations run, draws left, then X_train, Y_train, X_val, Y_val afterwards,
   then the training set (ids, labels) of the classifier kept in the object *)
Definition run_learn (n_iterations : Z) (Xt Yt Xv Yv : list Z) (accs smalls : list Z)
           (errss protos : list (list Z)) (draws : list Z) : list Z :=
  let res := learn (mk_iters accs smalls errss protos) (zn n_iterations) (map zn draws)
                   (mkL Xt (map zn Yt) Xv (map zn Yv)) in
  let st := r_state res in
  [nz (r_best res); nz (r_iters res); nz (length (r_draws res))]
  ++ l_Xt st ++ map nz (l_Yt st) ++ l_Xv st ++ map nz (l_Yv st)
  ++ fst (r_snap res) ++ map nz (snd (r_snap res)).

(* output: number of rows left, then the row ids and labels of the final training set *)
Definition run_prune (Xt Yt : list Z) (flagss : list (list Z)) : list Z :=
  let '(X, Y) := prune (map (map zflag) flagss) Xt (map zn Yt) in
  [nz (length X)] ++ X ++ map nz Y.
