(* Z-level entry points used by the generated case files of the correspondence check.
   Every function takes and returns [Z] / [list Z] so that case files contain only
   Z literals.  [W := Z], [ltb := Z.ltb]. *)
From Coq Require Import ZArith List Bool.
From OPF Require Import Base.Lists Model.Heap.
Import ListNotations.
Open Scope Z_scope.

Definition zn (z : Z) : nat := Z.to_nat z.
Definition nz (n : nat) : Z := Z.of_nat n.

(* ---------------- Heap ---------------- *)

Definition pol_of (z : Z) : policy := if Z.eqb z 0 then PMin else PMax.

Fixpoint ops_of (l : list Z) (fuel : nat) : list (@op Z) :=
  match fuel, l with
  | S f, t :: a :: b :: r =>
      (if Z.eqb t 0 then OIns (zn a) else
       if Z.eqb t 1 then OUpd (zn a) b else
       if Z.eqb t 2 then ORem else
       if Z.eqb t 3 then OIsEmpty else OIsFull) :: ops_of r f
  | _, _ => []
  end.

Definition out_code (o : out) : Z :=
  match o with RBool true => 1 | RBool false => 0 | RElem p => 100 + nz p | RFalse => -1 | RUnit => -2 end.

Definition color_code (c : color) : Z := match c with White => 0 | Gray => 1 | Black => 2 end.

Definition dump_heap (h : heap Z) : list Z :=
  let idx := seq 0 (hsize h) in
  [nz (hn h)]
  ++ map (fun i => if Nat.ltb i (hn h) then nz (nth i (hp h) 0%nat) else -1) idx
  ++ map (fun i => nth i (hcost h) 0) idx
  ++ map (fun i => color_code (nth i (hcolor h) White)) idx
  ++ map (fun i => match nth i (hpos h) None with Some k => nz k | None => -1 end) idx.

Fixpoint run_dump (top : Z) (h : heap Z) (ops : list (@op Z)) : list Z :=
  match ops with
  | [] => []
  | o :: os => let '(h1, r) := step Z.ltb top h o in
               out_code r :: dump_heap h1 ++ run_dump top h1 os
  end.

Definition run_heap (size pol top : Z) (ops : list Z) : list Z :=
  run_dump top (h_init top (zn size) (pol_of pol)) (ops_of ops (length ops)).

(* Large histories: only the answer of every operation, then the full state once at the end. *)
Fixpoint run_codes (top : Z) (h : heap Z) (ops : list (@op Z)) : list Z * heap Z :=
  match ops with
  | [] => ([], h)
  | o :: os => let '(h1, r) := step Z.ltb top h o in
               let '(cs, hf) := run_codes top h1 os in (out_code r :: cs, hf)
  end.

Definition run_heap_lite (size pol top : Z) (ops : list Z) : list Z :=
  let '(cs, hf) := run_codes top (h_init top (zn size) (pol_of pol)) (ops_of ops (length ops)) in
  cs ++ dump_heap hf.
