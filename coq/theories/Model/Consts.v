(* Names of the constants of opfython/utils/constants.py that the modelled code refers to.
   Their values are generated (Gen/Consts_gen.v) from the source on every run. *)
Inductive cname := CEpsilon | CMaxArcWeight | CMaxDensity | CFloatMax.

Definition cname_eqb (a b : cname) : bool :=
  match a, b with
  | CEpsilon, CEpsilon | CMaxArcWeight, CMaxArcWeight
  | CMaxDensity, CMaxDensity | CFloatMax, CFloatMax => true
  | _, _ => false
  end.
