(* Entry points for the KNN-family correspondence cases.
   Order-only parts run at [W := Z] on rank-encoded values; arithmetic parts and the
   mixed predict run at [W := float] (PrimFloat, binary64) on the actual values. *)
From Coq Require Import ZArith List Bool PrimFloat.
From OPF Require Import Base.Lists Base.NumOps Model.Heap Model.Knn Model.Pdf Model.KnnFit Model.Run Model.RunSup.
Import ListNotations.
Open Scope Z_scope.

Definition flatten_adj (adj : list (list nat)) : list Z :=
  concat (map (fun l => nz (length l) :: map nz l) adj).

(* create_arcs on a fresh subgraph. codes: zero top thr one (ranks); output:
   adjacency (length-prefixed) ++ radius ++ [gdens] ++ maxd *)
Definition run_create_arcs (zero top thr one : Z) (n k : Z) (wflat : list Z) : list Z :=
  let nn := zn n in
  let '(g, maxd) := create_arcs Z.ltb zero top thr one (zn k) nn (wfun nn wflat)
                                (knn_init zero (repeat 0%nat nn)) in
  flatten_adj (k_adj g) ++ k_radius g ++ [k_gdens g] ++ maxd.

(* create_arcs called twice without destroy_arcs in between (the non-fresh general form) *)
Definition run_create_arcs_twice (zero top thr one : Z) (destroy : Z) (n k1 k2 : Z) (wflat : list Z) : list Z :=
  let nn := zn n in
  let '(g1, _) := create_arcs Z.ltb zero top thr one (zn k1) nn (wfun nn wflat)
                              (knn_init zero (repeat 0%nat nn)) in
  let g1' := if Z.eqb destroy 0 then g1 else destroy_arcs g1 in
  let '(g, maxd) := create_arcs Z.ltb zero top thr one (zn k2) nn (wfun nn wflat) g1' in
  flatten_adj (k_adj g) ++ k_radius g ++ [k_gdens g] ++ maxd.

Fixpoint unflatten_adj (fuel : nat) (l : list Z) : list (list nat) :=
  match fuel, l with
  | S f, len :: r => map zn (firstn (zn len) r) :: unflatten_adj f (skipn (zn len) r)
  | _, _ => []
  end.

Definition mk_knn (zero : Z) (labels : list Z) (adjflat : list Z) (nplat dens cost : list Z) : @knn Z :=
  let n := length labels in
  mkKnn (map zn labels) (unflatten_adj n adjflat) (repeat zero n) (map zn nplat) dens cost
        (repeat None n) (repeat 0%nat n) (repeat 0%nat n) (repeat 0%nat n) [] zero 0%nat.

Definition dump_cluster (g : @knn Z) : list Z :=
  flatten_adj (k_adj g) ++ map nz (k_nplat g) ++ k_cost g ++ map opt_code (k_pred g) ++ map nz (k_root g)
  ++ map nz (k_plabel g) ++ map nz (k_clabel g) ++ map nz (k_order g) ++ [nz (k_nclusters g)].

Definition run_cluster_sup (zero top bot : Z) (force : Z) (labels adjflat dens cost : list Z) : list Z :=
  dump_cluster (clustering_sup Z.ltb zero top bot (negb (Z.eqb force 0))
                               (mk_knn zero labels adjflat (repeat 0 (length labels)) dens cost)).

Definition run_cluster_unsup (zero top bot : Z) (k : Z) (labels adjflat nplat dens cost : list Z) : list Z :=
  let g := clustering_unsup Z.ltb zero top bot (zn k) (mk_knn zero labels adjflat nplat dens cost) in
  dump_cluster g ++ map nz (k_plabel (propagate_labels g)).

Definition sel_code (o : option nat) : Z := match o with Some k => nz k | None => -1 end.
Definition run_knn_select (zero : Z) (accs : list Z) : list Z := [sel_code (knn_select Z.ltb zero accs)].
Definition run_cut_select (zero top : Z) (min_k : Z) (cuts : list Z) : list Z :=
  let '(b, ev) := cut_select Z.ltb zero top (zn min_k) cuts in [sel_code b; nz ev].

(* ---------------- PrimFloat runs ---------------- *)

Definition fmaxF : float := 0x1.fffffffffffffp+1023%float.

(* calculate_pdf: eflat = n rows of k exp-terms; output [constant; min; max] ++ densities ++ costs *)
Definition run_pdf (n k : Z) (gdens : float) (eflat : list float) : list float :=
  let kk := zn k in
  let '(c, mn, mx, dc) := calculate_pdf FOps fmaxF 1000 (zn n) kk gdens
                            (fun i l => nth (i * kk + l)%nat eflat 0%float) in
  [c; mn; mx] ++ map fst dc ++ map snd dc.

Definition run_eliminate (h : float) (dens cost : list float) : list float :=
  eliminate_maxima FOps h dens cost.

(* one query of KNNSupervisedOPF.predict / UnsupervisedOPF.predict:
   d, e: distance and exp(-d/constant) for every training node; cost: training costs;
   skip = -1 for none, else the batch position the code compares j against.
   output: chosen training node (-1 if none) *)
Definition run_knn_predict (k n skip : Z) (eps mn mx : float) (d e cost : list float) : Z :=
  let kk := zn k in
  let nn := zn n in
  let '(ds, ns) := knn_scan PrimFloat.ltb fmaxF kk nn (fun j => nth j d 0%float)
                            (if Z.ltb skip 0 then None else Some (zn skip)) (repeat 0%nat (S kk)) in
  (* exp terms of the selected neighbours, by rank; empty slots use exp(-FLOAT_MAX/constant) = 0 *)
  let ee := fun l => if PrimFloat.eqb (nth l ds fmaxF) fmaxF then 0%float else nth (nth l ns 0%nat) e 0%float in
  let densx := query_density FOps 1000 eps mn mx kk ee in
  let g := mkKnn [] [] [] [] [] cost [] [] [] [] [] 0%float 0%nat in
  sel_code (knn_pick PrimFloat.ltb 0%float fmaxF (PrimFloat.opp fmaxF) g kk densx ds ns).

(* a whole batch, threading neighbours_idx as the code does; each query = (distances, exp terms) over the training nodes *)
Definition run_knn_predict_batch (k n : Z) (eps mn mx : float) (cost : list float)
           (qs : list (list float * list float)) : list Z :=
  let kk := zn k in
  let nn := zn n in
  let g := mkKnn [] [] [] [] [] cost [] [] [] [] [] 0%float 0%nat in
  let step := fun (st : list nat * list Z) (q : list float * list float) =>
    let '(ns0, out) := st in
    let '(d, e) := q in
    let '(ds, ns) := knn_scan PrimFloat.ltb fmaxF kk nn (fun j => nth j d 0%float) None ns0 in
    let ee := fun l => if PrimFloat.eqb (nth l ds fmaxF) fmaxF then 0%float else nth (nth l ns 0%nat) e 0%float in
    let densx := query_density FOps 1000 eps mn mx kk ee in
    (ns, out ++ [sel_code (knn_pick PrimFloat.ltb 0%float fmaxF (PrimFloat.opp fmaxF) g kk densx ds ns)]) in
  snd (fold_left step qs (repeat 0%nat (S kk), [])).

(* ---------------- the final stage of KNNSupervisedOPF.fit / UnsupervisedOPF.fit, end to end at W := float --------------
   destroy_arcs; create_arcs(best_k) on a subgraph whose density bound is [gdens0] (it survives destroy_arcs);
   calculate_pdf(best_k); _clustering(force_prototype=True) resp. _clustering(best_k).
   [d] = n*n distances, [e] = n*n terms exp(-d/constant) computed by numpy with the model's final constant.
   Output (all as floats): [constant; min; max; n_clusters] ++ radius ++ density ++ cost ++ pred ++ root ++ predicted_label ++ cluster_label *)
Definition fz (z : Z) : float := float_ofZ z.

Definition run_knn_fit_final (sup : Z) (n k : Z) (gdens0 : float) (labels : list Z) (d e : list float) : list float :=
  let nn := zn n in
  let dm := fun i j => nth (i * nn + j)%nat d 0%float in
  let em := fun i j => nth (i * nn + j)%nat e 0%float in
  let '(g3, (c, mn, mx)) :=
      if Z.eqb sup 0
      then unsup_final FOps fmaxF 0x1.4f8b588e368f1p-17%float 1%float 1000 (zn k) (map zn labels) gdens0 dm em
      else knn_sup_final FOps fmaxF 0x1.4f8b588e368f1p-17%float 1%float 1000 (zn k) (map zn labels) gdens0 dm em in
  [c; mn; mx; fz (nz (k_nclusters g3))] ++ k_radius g3 ++ k_dens g3 ++ k_cost g3
  ++ map (fun o => fz (opt_code o)) (k_pred g3) ++ map (fun r => fz (nz r)) (k_root g3)
  ++ map (fun r => fz (nz r)) (k_plabel g3) ++ map (fun r => fz (nz r)) (k_clabel g3).
