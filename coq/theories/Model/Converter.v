(* Executable model of opfython/utils/converter.py (opf2txt, opf2csv, opf2json) and of
   loader.load_json's row assembly.

   The OPF binary file is a list of 32-bit words (what [struct.unpack] with the formats
   "<iii" and "<ii" + "f"*n_features yields): integers as [Z], float32 fields as their bit
   patterns, also [Z] (opaque: the converters never compute with them).
   Layout written by LibOPF:  [n_samples; n_classes; n_features] then per sample
   [id; label; f_1 .. f_nf], labels starting at 1. *)
From Coq Require Import List Arith ZArith.
Import ListNotations.

(* [struct.unpack(fmt, f.read(size))] of k words: raises when fewer than k words are left *)
Definition unpack (k : nat) (ws : list Z) : option (list Z * list Z) :=
  if Nat.ltb (length ws) k then None else Some (firstn k ws, skipn k ws).

(* [for _ in range(n_samples): data = struct.unpack(...); out.append(mk data)] *)
Fixpoint read_loop {T} (mk : list Z -> T) (n rec_len : nat) (ws : list Z) : option (list T) :=
  match n with
  | O => Some []
  | S n' => match unpack rec_len ws with
            | None => None
            | Some (data, rest) =>
                match read_loop mk n' rec_len rest with
                | None => None
                | Some out => Some (mk data :: out)
                end
            end
  end.

(* (data[0], data[1] - 1, *data[2:]) *)
Definition mk_tuple (data : list Z) : list Z :=
  nth 0 data 0%Z :: (nth 1 data 0 - 1)%Z :: skipn 2 data.

(* opf2txt: the list [samples] handed to np.savetxt(.., delimiter=" ") *)
Definition opf2txt_samples (ws : list Z) : option (list (list Z)) :=
  match unpack 3 ws with
  | None => None
  | Some (header_data, rest) =>
      let n_samples := nth 0 header_data 0%Z in
      let n_features := nth 2 header_data 0%Z in
      let data_size := 2 + Z.to_nat n_features in           (* "<ii" + "f" * n_features *)
      read_loop mk_tuple (Z.to_nat n_samples) data_size rest
  end.

(* opf2csv: the list [samples] handed to np.savetxt(.., delimiter=",") *)
Definition opf2csv_samples (ws : list Z) : option (list (list Z)) :=
  match unpack 3 ws with
  | None => None
  | Some (header_data, rest) =>
      let n_samples := nth 0 header_data 0%Z in
      let n_features := nth 2 header_data 0%Z in
      let data_size := 2 + Z.to_nat n_features in
      read_loop mk_tuple (Z.to_nat n_samples) data_size rest
  end.

(* opf2json: json["data"], a list of {"id":, "label":, "features":} *)
Record jrec := mk_jrec { jid : Z; jlabel : Z; jfeatures : list Z }.

Definition mk_json (data : list Z) : jrec :=
  mk_jrec (nth 0 data 0%Z) (nth 1 data 0 - 1)%Z (skipn 2 data).

Definition opf2json_data (ws : list Z) : option (list jrec) :=
  match unpack 3 ws with
  | None => None
  | Some (header_data, rest) =>
      let n_samples := nth 0 header_data 0%Z in
      let n_features := nth 2 header_data 0%Z in
      let data_size := 2 + Z.to_nat n_features in
      read_loop mk_json (Z.to_nat n_samples) data_size rest
  end.

(* loader.load_json: np.hstack(([d["id"], d["label"]], d["features"])) per record *)
Definition load_json_rows (data : list jrec) : list (list Z) :=
  map (fun d => [jid d; jlabel d] ++ jfeatures d) data.

(* the rows np.loadtxt / load_json give back when the text round trip is exact *)
Definition rows_txt (ws : list Z) : option (list (list Z)) := opf2txt_samples ws.
Definition rows_csv (ws : list Z) : option (list (list Z)) := opf2csv_samples ws.
Definition rows_json (ws : list Z) : option (list (list Z)) := option_map load_json_rows (opf2json_data ws).

(* ------------------------------------------------------------------------------------ *)
(* specification of the file layout (what the LibOPF writer produces) *)

Record sample := mk_sample { sid : Z; slabel : Z; sfeat : list Z }.
Record dataset := mk_dataset { ds_classes : Z; ds_nfeat : nat; ds_samples : list sample }.

Definition wf_dataset (ds : dataset) : Prop :=
  Forall (fun s => length (sfeat s) = ds_nfeat ds) (ds_samples ds).

Definition encode_sample (s : sample) : list Z := sid s :: slabel s :: sfeat s.

Definition encode_dat (ds : dataset) : list Z :=
  [Z.of_nat (length (ds_samples ds)); ds_classes ds; Z.of_nat (ds_nfeat ds)]
  ++ flat_map encode_sample (ds_samples ds).

(* the rows the dataset is expected to become: same id, label - 1, same feature words *)
Definition rows_of (ds : dataset) : list (list Z) :=
  map (fun s => sid s :: (slabel s - 1)%Z :: sfeat s) (ds_samples ds).
