(* Rounding depth: a syntactic relative-error analysis of the metric expression language.

   THE STANDARD MODEL of floating-point arithmetic.  [rnd_rel u rnd]: every rounded result is the exact
   result times (1 + d) with |d| <= u.  Round-to-nearest binary64 satisfies it with u = 2^-53 as long as
   no operation underflows (result in the subnormal range) or overflows; both are OUTSIDE this model
   (values stay real, relative accuracy is assumed at every magnitude).  Nothing else is assumed about
   [rnd]: not monotone, not odd, not deterministic in any structured way.

   [within u k t t']: the computed value t' is the exact value t times a factor between (1-u)^k and
   (1+u)^k  ("k roundings deep").  For t >= 0 this is (1-u)^k t <= t' <= (1+u)^k t, hence
   |t' - t| <= ((1+u)^k - 1) |t| (closed form, not linearised: no side condition k u < 1).

   [rdS n c s] / [rdV n c v]: [n] is the vector length, [c] the sign class of the arguments
   (Model/MetricRnd.v: Pos / NonNeg / Neg / Any).  [Some (k, c')]: on such arguments the evaluation with a
   rounding after every arithmetic node ([evalSR]) is defined, its value is [within u k] of the exact
   value ([evalS]), and the exact value is in class [c'].  [None]: outside the fragment.  The fragment:

     x, y, literals, constants, shape[0]        exact                                      k = 0
     a - b,  a + b   with a, b exact            one rounding                               k = 1
     a + b           with a, b >= 0             max(ka, kb) + 1   (no cancellation)
     a * b                                      ka + kb + 1
     a / b           with b exact, b <> 0       ka + 1
     a ** 2                                     2 ka + 1
     sqrt a, a ** 0.5  with a >= 0              ceil(ka / 2) + 1   (the square root halves a relative error)
     fabs a, -a                                 ka                 (exact operations)
     np.sum(v)       with v >= 0, length n      kv + (n - 1)       (left fold, Model/MetricRnd.v: rsum)
     np.amax(v)      with v >= 0 or v exact     kv
     count_nonzero(a != b), minimum, maximum    operands exact                             k = 0
     f(a, b)         sibling call, a, b exact   depth of f's body (f not decorated)

   Rejected on purpose (no relative bound holds in the standard model): a subtraction, or an addition of
   terms of unknown sign, whose operands are already rounded (cancellation: squared_chord, matusita,
   hellinger subtract rounded square roots); log and exp (they turn a relative error of the argument into
   an absolute one); every body behind @avoid_zero_division (its `+ EPSILON` is a rounded addition, so the
   body's inputs are already rounded and its first subtraction cancels); division by a rounded divisor
   (the factor 1/(1+d) is bounded by 1/(1-u), not by 1+u).

   No proofs here; soundness is Proofs/RdepthSound.v. *)
From Coq Require Import Reals QArith String List Bool Arith.
From OPF Require Import Model.Consts Model.Effects Spec.MetricSpec Gen.Consts_gen Model.MetricIR
     Gen.Metrics_gen Gen.Decorator_gen Model.MetricRnd.
Import ListNotations.
Open Scope R_scope.

(* ---- the standard model ---- *)
Definition rnd_rel (u : R) (rnd : R -> R) : Prop :=
  forall t, exists d, Rabs d <= u /\ rnd t = t * (1 + d).

Definition within (u : R) (k : nat) (t t' : R) : Prop :=
  exists rho, t' = t * rho /\ (1 - u) ^ k <= rho <= (1 + u) ^ k.

(* ---- classes ---- *)
Definition cls_nonneg (c : cls) : bool := match c with Pos | NonNeg => true | _ => false end.

Definition half_up (k : nat) : nat := (S k / 2)%nat.        (* ceil (k / 2) *)

Definition rd := (nat * cls)%type.

Definition rd_bin (o : binop) (p1 p2 : rd) : option rd :=
  let (k1, c1) := p1 in
  let (k2, c2) := p2 in
  let exact2 := (k1 =? 0)%nat && (k2 =? 0)%nat in
  match o with
  | BAdd => if cls_nonneg c1 && cls_nonneg c2 then Some (S (Nat.max k1 k2), cls_add c1 c2)
            else if exact2 then Some (1%nat, cls_add c1 c2) else None
  | BSub => if exact2 then Some (1%nat, cls_sub c1 c2) else None
  | BMul => Some (S (k1 + k2), cls_mul c1 c2)
  | BDiv => if (k2 =? 0)%nat
            then match cls_div c1 c2 with Some c => Some (S k1, c) | None => None end
            else None
  | BMin => if exact2 then Some (0%nat, cls_min c1 c2) else None
  | BMax => if exact2 then Some (0%nat, cls_max c1 c2) else None
  end.

Definition rd_sqrt (p : rd) : option rd :=
  let (k, c) := p in
  match cls_sqrt c with Some c' => Some (S (half_up k), c') | None => None end.

Definition rd_un (o : unop) (p : rd) : option rd :=
  match o with
  | UNeg => Some (fst p, cls_opp (snd p))
  | UFabs => Some (fst p, cls_abs (snd p))
  | ULog => None
  | UExp => None
  | USqrt => rd_sqrt p
  end.

Definition rd_pow (pc : pconst) (p : rd) : option rd :=
  match pc with
  | PTwo => Some (S (2 * fst p), cls_abs (snd p))
  | PHalf => rd_sqrt p
  end.

Section Depth.
  Variable n : nat.                                  (* the vector length *)
  Variable callk : string -> cls -> option rd.       (* depth of sibling metrics *)

  Fixpoint rdS (c : cls) (s : sexpr) {struct s} : option rd :=
    match s with
    | SSum v =>
        match rdV c v with
        | Some (k, c') => if cls_nonneg c' then Some ((k + Nat.pred n)%nat, c') else None
        | None => None
        end
    | SAmax v =>
        match rdV c v with
        | Some (k, c') => if cls_nonneg c' || (k =? 0)%nat then Some (k, c') else None
        | None => None
        end
    | SCountNe a b =>
        match rdV c a, rdV c b with
        | Some (ka, _), Some (kb, _) => if (ka =? 0)%nat && (kb =? 0)%nat then Some (0%nat, NonNeg) else None
        | _, _ => None
        end
    | SLen => Some (0%nat, Pos)
    | SConstQ q => Some (0%nat, cls_Q q)
    | SConstName nm => Some (0%nat, cls_cname nm)
    | SParam _ => Some (0%nat, Any)
    | SBin o s1 s2 => obind2 (rdS c s1) (rdS c s2) (rd_bin o)
    | SUn o s1 => obind (rdS c s1) (rd_un o)
    | SPowC s1 pc => obind (rdS c s1) (rd_pow pc)
    | SCall f a b =>
        match rdV c a, rdV c b with
        | Some (ka, ca), Some (kb, cb) =>
            if (ka =? 0)%nat && (kb =? 0)%nat then callk f (cls_join ca cb) else None
        | _, _ => None
        end
    end
  with rdV (c : cls) (v : vexpr) {struct v} : option rd :=
    match v with
    | VX | VY => Some (0%nat, c)
    | VConstS s => rdS c s
    | VBin o v1 v2 => obind2 (rdV c v1) (rdV c v2) (rd_bin o)
    | VUn o v1 => obind (rdV c v1) (rd_un o)
    | VPowC v1 pc => obind (rdV c v1) (rd_pow pc)
    | VSel _ _ _ _ _ => None
    end.
End Depth.

(* a whole metric: decorated bodies are outside the fragment *)
Definition wrap_rd (n : nat) (callk : string -> cls -> option rd) (m : metric_ir) (c : cls) : option rd :=
  if m_avoid_zero m then None else rdS n callk c (m_body m).

Fixpoint call_rd (n : nat) (t : mtable) (fuel : nat) (f : string) (c : cls) : option rd :=
  match fuel with
  | O => None
  | S g => match lookup_ir f t with
           | Some m => wrap_rd n (call_rd n t g) m c
           | None => None
           end
  end.

Definition rdepth_gen (t : mtable) (c : cls) (m : metric_ir) (n : nat) : option rd :=
  wrap_rd n (call_rd n t call_depth) m c.

(* ---- at the generated table ---- *)
(* arguments of class [c], vectors of length [n]: the exponent k(n) *)
Definition rdepth_in (c : cls) (m : metric_ir) (n : nat) : option nat :=
  option_map fst (rdepth_gen all_metrics_ir c m n).

(* arbitrary real vectors *)
Definition rdepth (m : metric_ir) (n : nat) : option nat := rdepth_in Any m n.

(* by Python function name *)
Definition rdepth_name (f : string) (n : nat) : option nat :=
  match lookup_ir f all_metrics_ir with
  | Some m => rdepth m n
  | None => None
  end.

(* ---- the statement proved for each covered identifier ----
   [sp] the published closed form (Spec/MetricSpec.v), [k n] the exponent for vectors of length n:
   for every rounding of the standard model the rounded evaluation of the generated term is defined and
   lies between (1-u)^k sp and (1+u)^k sp; in particular |fl - sp| <= ((1+u)^k - 1) sp. *)
Definition rounding_bound (m : metric_ir) (sp : list R -> list R -> R) (k : nat -> nat) : Prop :=
  forall u rnd, 0 <= u < 1 -> rnd_rel u rnd ->
  forall x y, length x = length y -> (1 <= length x)%nat ->
  exists fl, metric_rnd rnd m x y = Some fl
             /\ (1 - u) ^ k (length x) * sp x y <= fl <= (1 + u) ^ k (length x) * sp x y
             /\ Rabs (fl - sp x y) <= ((1 + u) ^ k (length x) - 1) * sp x y.
