(* Two more syntactic analyses of the metric expression language, over the rounding-aware evaluator
   [metric_rnd] of Model/MetricRnd.v (an arbitrary [rnd] after every arithmetic node).

   A. [swap_sym m]: the body of [m], read with the two arguments exchanged, is the same rounded
      computation up to
        - commutativity of `+`, `*`, `minimum`, `maximum` (NEVER associativity: rounded addition is
          not associative; `np.sum` is compared term by term, in the same order),
        - sign flips: [symV v1 v2 = Some s] tracks whether the swapped value is the same ([s = false])
          or the exact opposite ([s = true]); `a - b` against `b - a` is an opposite; opposites are
          absorbed by `fabs` and `** 2`, cancel in products and quotients of two opposites, and pass
          through `+`, `-`, unary minus and `np.sum` (this needs [rnd (- t) = - rnd t]),
        - sibling calls `f(u, v)` against `f(v', u')` when [f] is itself accepted (fuel/table as in
          [call_cls]),
      and the decorator treats both arguments identically ([dec_uniform], a symbolic run of the
      generated decorator program).
      Sound for every ODD rounding (Proofs/FloatSym.v): [metric_rnd rnd m x y = metric_rnd rnd m y x].

   B. [zero_self c m] / [zero_self_one c m]: a constant analysis on the diagonal x = y.  [avS]/[avV]
      compute [Some CZero] / [Some COne] when the node evaluates to exactly 0 / exactly 1 whenever both
      arguments are the same vector.  `u - v` is 0 when [u] and [v] have the same diagonal normal form
      ([diagV]: VY -> VX, min(a,a) = max(a,a) = a, a + a = 2 * a, a ** 2 = a * a, all exact identities
      of the ROUNDED operations) and [u] is defined; `0 * e`, `0 / e` need [e] defined / non-zero, which
      is read off the sign-class analysis [clsV] (with the count rule); `fabs 0`, `0 ** 2`, `sqrt 0`,
      sums and maxima of zeros, `min/max`, unary minus.
      The rules that produce or consume an exact 1 (`e / e`, `1 + 0`, `log 1`, `1 * 1`, `exp 0`) need
      [rnd 1 = 1] and are only enabled by the flag [lg] ([zero_self_one]); [zero_self] is sound for
      every [rounding rnd].
      Sound (Proofs/FloatZero.v): [metric_rnd rnd m x x = Some 0] on class-[c] vectors of length >= 1.

   No proofs here. *)
From Coq Require Import Reals QArith Qreals String List Bool ZArith.
From OPF Require Import Model.Consts Model.Effects Spec.MetricSpec Gen.Consts_gen Model.MetricIR
     Gen.Metrics_gen Gen.Decorator_gen Model.MetricRnd.
Import ListNotations.
Open Scope R_scope.

(* ---------- syntactic equality ---------- *)
Definition Q_eqb (p q : Q) : bool := (Qnum p =? Qnum q)%Z && (Qden p =? Qden q)%positive.

Definition binop_eqb (a b : binop) : bool :=
  match a, b with
  | BAdd, BAdd | BSub, BSub | BMul, BMul | BDiv, BDiv | BMin, BMin | BMax, BMax => true
  | _, _ => false
  end.

Definition unop_eqb (a b : unop) : bool :=
  match a, b with
  | UNeg, UNeg | UFabs, UFabs | ULog, ULog | UExp, UExp | USqrt, USqrt => true
  | _, _ => false
  end.

Definition pconst_eqb (a b : pconst) : bool :=
  match a, b with PTwo, PTwo | PHalf, PHalf => true | _, _ => false end.

Definition cmpop_eqb (a b : cmpop) : bool :=
  match a, b with CGe, CGe | CGt, CGt | CLe, CLe | CLt, CLt => true | _, _ => false end.

Fixpoint vexpr_eqb (v1 v2 : vexpr) {struct v1} : bool :=
  match v1, v2 with
  | VX, VX | VY, VY => true
  | VConstS s1, VConstS s2 => sexpr_eqb s1 s2
  | VBin o a b, VBin o' a' b' => binop_eqb o o' && vexpr_eqb a a' && vexpr_eqb b b'
  | VUn o a, VUn o' a' => unop_eqb o o' && vexpr_eqb a a'
  | VPowC a p, VPowC a' p' => pconst_eqb p p' && vexpr_eqb a a'
  | VSel c l r a b, VSel c' l' r' a' b' =>
      cmpop_eqb c c' && vexpr_eqb l l' && vexpr_eqb r r' && vexpr_eqb a a' && vexpr_eqb b b'
  | _, _ => false
  end
with sexpr_eqb (s1 s2 : sexpr) {struct s1} : bool :=
  match s1, s2 with
  | SSum v1, SSum v2 | SAmax v1, SAmax v2 => vexpr_eqb v1 v2
  | SCountNe a b, SCountNe a' b' => vexpr_eqb a a' && vexpr_eqb b b'
  | SLen, SLen => true
  | SConstQ p, SConstQ q => Q_eqb p q
  | SConstName n, SConstName n' => cname_eqb n n'
  | SParam p, SParam q => String.eqb p q
  | SBin o a b, SBin o' a' b' => binop_eqb o o' && sexpr_eqb a a' && sexpr_eqb b b'
  | SUn o a, SUn o' a' => unop_eqb o o' && sexpr_eqb a a'
  | SPowC a p, SPowC a' p' => pconst_eqb p p' && sexpr_eqb a a'
  | SCall f a b, SCall f' a' b' => String.eqb f f' && vexpr_eqb a a' && vexpr_eqb b b'
  | _, _ => false
  end.

(* ---------- the decorator, run symbolically ----------
   A parameter holds (which argument it came from: false = first, true = second; the constants
   added so far, in order). *)
Definition sval : Type := bool * list cname.
Definition senv := list (string * sval).

Fixpoint slookup (p : string) (e : senv) : option sval :=
  match e with
  | [] => None
  | (k, v) :: r => if String.eqb p k then Some v else slookup p r
  end.

Fixpoint sset (p : string) (v : sval) (e : senv) : senv :=
  match e with
  | [] => []
  | (k, w) :: r => if String.eqb p k then (k, v) :: r else (k, w) :: sset p v r
  end.

Fixpoint slookups (ps : list string) (e : senv) : option (list sval) :=
  match ps with
  | [] => Some []
  | p :: r => match slookup p e, slookups r e with
              | Some v, Some vs => Some (v :: vs)
              | _, _ => None
              end
  end.

Fixpoint dec_run_sym (prog : list dstmt) (e : senv) : option (list sval) :=
  match prog with
  | [] => None
  | AugAdd p c :: r | Rebind p c :: r =>
      match slookup p e with
      | Some (i, cs) => dec_run_sym r (sset p (i, app cs [c]) e)
      | None => None
      end
  | ReturnCall ps :: _ => slookups ps e
  end.

Fixpoint cnames_eqb (a b : list cname) : bool :=
  match a, b with
  | [], [] => true
  | c :: a', d :: b' => cname_eqb c d && cnames_eqb a' b'
  | _, _ => false
  end.

(* the shift sequence the wrapped function's two arguments both receive, if it is the same one
   and the arguments are handed over in order *)
Definition dec_shifts (dparams : list string) (dprog : list dstmt) : option (list cname) :=
  match dparams with
  | [p1; p2] =>
      match dec_run_sym dprog [(p1, (false, [])); (p2, (true, []))] with
      | Some [(false, c1); (true, c2)] => if cnames_eqb c1 c2 then Some c1 else None
      | _ => None
      end
  | _ => None
  end.

Definition dec_uniform (dparams : list string) (dprog : list dstmt) : bool :=
  match dec_shifts dparams dprog with Some _ => true | None => false end.

(* the value-level meaning of a shift sequence *)
Definition shiftsR (rnd : R -> R) (cs : list cname) (v : list R) : list R :=
  fold_left (fun w c => add_constR rnd c w) cs v.

(* ====================================================================== *)
(* A. symmetry under rounding                                              *)
(* ====================================================================== *)

(* [false]: same value; [true]: opposite value *)
Definition sg (s : bool) (a : R) : R := if s then - a else a.

Definition omap {A B} (f : A -> B) (o : option A) : option B :=
  match o with Some a => Some (f a) | None => None end.

Definition orelse {A} (a b : option A) : option A := match a with Some _ => a | None => b end.

(* both known and equal *)
Definition agree (a b : option bool) : option bool :=
  match a, b with Some s, Some t => if Bool.eqb s t then Some s else None | _, _ => None end.

(* both known: the sign of a product / quotient *)
Definition oxor (a b : option bool) : option bool :=
  match a, b with Some s, Some t => Some (xorb s t) | _, _ => None end.

(* known to be the same value *)
Definition same_only (a : option bool) : option bool :=
  match a with Some false => Some false | _ => None end.

Definition both_same (a b : option bool) : option bool :=
  match a, b with Some false, Some false => Some false | _, _ => None end.

(* any known sign is absorbed *)
Definition absorbed (a : option bool) : option bool :=
  match a with Some _ => Some false | None => None end.

(* `a o b` against `c o d`: st1 = (a ~ c), st2 = (b ~ d), cr1 = (a ~ d), cr2 = (b ~ c) *)
Definition sym_bin (o : binop) (st1 st2 cr1 cr2 : option bool) : option bool :=
  match o with
  | BAdd => orelse (agree st1 st2) (agree cr1 cr2)
  | BSub => orelse (agree st1 st2) (omap negb (agree cr1 cr2))
  | BMul => orelse (oxor st1 st2) (oxor cr1 cr2)
  | BDiv => oxor st1 st2
  | BMin | BMax => orelse (both_same st1 st2) (both_same cr1 cr2)
  end.

Definition sym_un (o : unop) (s : option bool) : option bool :=
  match o with
  | UNeg => s
  | UFabs => absorbed s
  | ULog | UExp | USqrt => same_only s
  end.

Definition sym_pow (p : pconst) (s : option bool) : option bool :=
  match p with PTwo => absorbed s | PHalf => same_only s end.

Section SymCheck.
  Variable callsym : string -> bool.          (* the sibling metric is itself accepted *)

  (* [symV v1 v2 = Some s]: the value of [v2] with the arguments exchanged is [sg s] of the value
     of [v1] (and both are defined or both undefined) *)
  Fixpoint symV (v1 v2 : vexpr) {struct v1} : option bool :=
    match v1, v2 with
    | VX, VY | VY, VX => Some false
    | VConstS s1, VConstS s2 => symS s1 s2
    | VBin o a b, VBin o' c d =>
        if binop_eqb o o' then sym_bin o (symV a c) (symV b d) (symV a d) (symV b c) else None
    | VUn o a, VUn o' c => if unop_eqb o o' then sym_un o (symV a c) else None
    | VPowC a p, VPowC c p' => if pconst_eqb p p' then sym_pow p (symV a c) else None
    | VSel c l r a b, VSel c' l' r' a' b' =>
        if cmpop_eqb c c' then
          match both_same (symV l l') (symV r r') with
          | Some _ => agree (symV a a') (symV b b')
          | None => None
          end
        else None
    | _, _ => None
    end
  with symS (s1 s2 : sexpr) {struct s1} : option bool :=
    match s1, s2 with
    | SSum v1, SSum v2 => symV v1 v2
    | SAmax v1, SAmax v2 => same_only (symV v1 v2)
    | SCountNe a b, SCountNe c d =>
        absorbed (orelse (agree (symV a c) (symV b d)) (agree (symV a d) (symV b c)))
    | SLen, SLen => Some false
    | SConstQ p, SConstQ q => if Q_eqb p q then Some false else None
    | SConstName n, SConstName n' => if cname_eqb n n' then Some false else None
    | SParam p, SParam q => if String.eqb p q then Some false else None
    | SBin o a b, SBin o' c d =>
        if binop_eqb o o' then sym_bin o (symS a c) (symS b d) (symS a d) (symS b c) else None
    | SUn o a, SUn o' c => if unop_eqb o o' then sym_un o (symS a c) else None
    | SPowC a p, SPowC c p' => if pconst_eqb p p' then sym_pow p (symS a c) else None
    | SCall f a b, SCall f' c d =>
        if String.eqb f f' then
          orelse (both_same (symV a c) (symV b d))
                 (if callsym f then both_same (symV a d) (symV b c) else None)
        else None
    | _, _ => None
    end.
End SymCheck.

Definition is_same (s : option bool) : bool := match s with Some false => true | _ => false end.

Definition wrap_sym (callsym : string -> bool) (dparams : list string) (dprog : list dstmt)
           (m : metric_ir) : bool :=
  (if m_avoid_zero m then dec_uniform dparams dprog else true)
  && is_same (symS callsym (m_body m) (m_body m)).

Fixpoint call_sym (t : mtable) (dparams : list string) (dprog : list dstmt) (fuel : nat)
         (f : string) : bool :=
  match fuel with
  | O => false
  | S n => match lookup_ir f t with
           | Some m => wrap_sym (call_sym t dparams dprog n) dparams dprog m
           | None => false
           end
  end.

Definition swap_sym_gen (t : mtable) (dparams : list string) (dprog : list dstmt) (m : metric_ir) : bool :=
  wrap_sym (call_sym t dparams dprog call_depth) dparams dprog m.

(* the checker, at the generated tables *)
Definition swap_sym (m : metric_ir) : bool :=
  swap_sym_gen all_metrics_ir decorator_params decorator_body m.

Definition swap_sym_name (n : string) : bool :=
  match lookup_ir n all_metrics_ir with Some m => swap_sym m | None => false end.

(* the extra hypothesis on the rounding: symmetric around 0 (round-to-nearest, toward zero, away from zero) *)
Definition rnd_odd (rnd : R -> R) : Prop := forall t, rnd (- t) = - rnd t.

(* ====================================================================== *)
(* B. exact zero self-distance under rounding                              *)
(* ====================================================================== *)

Definition q_two : Q := Qmake 2 1.

(* diagonal normal form: equal normal forms => equal rounded values when both arguments are the
   same vector (and the two entries at hand are the same number) *)
Fixpoint diagV (v : vexpr) : vexpr :=
  match v with
  | VX | VY => VX
  | VConstS s => VConstS (diagS s)
  | VBin o a b =>
      match o with
      | BMin | BMax => if vexpr_eqb (diagV a) (diagV b) then diagV a else VBin o (diagV a) (diagV b)
      | BAdd => if vexpr_eqb (diagV a) (diagV b) then VBin BMul (VConstS (SConstQ q_two)) (diagV a)
                else VBin o (diagV a) (diagV b)
      | _ => VBin o (diagV a) (diagV b)
      end
  | VUn o a => VUn o (diagV a)
  | VPowC a p => match p with PTwo => VBin BMul (diagV a) (diagV a) | PHalf => VPowC (diagV a) PHalf end
  | VSel c l r a b => VSel c (diagV l) (diagV r) (diagV a) (diagV b)
  end
with diagS (s : sexpr) : sexpr :=
  match s with
  | SSum v => SSum (diagV v)
  | SAmax v => SAmax (diagV v)
  | SCountNe a b => SCountNe (diagV a) (diagV b)
  | SLen => SLen
  | SConstQ q => SConstQ q
  | SConstName n => SConstName n
  | SParam p => SParam p
  | SBin o a b =>
      match o with
      | BMin | BMax => if sexpr_eqb (diagS a) (diagS b) then diagS a else SBin o (diagS a) (diagS b)
      | BAdd => if sexpr_eqb (diagS a) (diagS b) then SBin BMul (SConstQ q_two) (diagS a)
                else SBin o (diagS a) (diagS b)
      | _ => SBin o (diagS a) (diagS b)
      end
  | SUn o a => SUn o (diagS a)
  | SPowC a p => match p with PTwo => SBin BMul (diagS a) (diagS a) | PHalf => SPowC (diagS a) PHalf end
  | SCall f a b => SCall f (diagV a) (diagV b)
  end.

Definition same_diagV (a b : vexpr) : bool := vexpr_eqb (diagV a) (diagV b).
Definition same_diagS (a b : sexpr) : bool := sexpr_eqb (diagS a) (diagS b).

(* the tracked exact constants *)
Inductive cv := CZero | COne.
Definition cvR (k : cv) : R := match k with CZero => 0 | COne => 1 end.
Definition cv_eqb (a b : cv) : bool := match a, b with CZero, CZero | COne, COne => true | _, _ => false end.

Definition cv_Q (q : Q) : option cv :=
  if (Qnum q =? 0)%Z then Some CZero
  else if (Qnum q =? 1)%Z && (Qden q =? 1)%positive then Some COne else None.

Definition is_known (k : option cv) : bool := match k with Some _ => true | None => false end.
Definition cls_defined (d : option cls) : bool := match d with Some _ => true | None => false end.
Definition cls_nonzero (d : option cls) : bool := match d with Some Pos | Some Neg => true | _ => false end.

Section ZeroCheck.
  Variable lg : bool.                                (* rules that need rnd 1 = 1 *)
  Variable callc : string -> cls -> option cls.      (* sign class of a sibling call *)
  Variable callz : string -> cls -> bool.            (* zero self-distance of a sibling *)

  Definition one_if_lg : option cv := if lg then Some COne else None.

  (* [ka kb]: exact constants of the operands if known; [da db]: their sign classes if they are
     provably defined; [same]: equal diagonal normal forms *)
  Definition cv_bin (o : binop) (ka kb : option cv) (da db : option cls) (same : bool) : option cv :=
    let defa := is_known ka || cls_defined da in
    let defb := is_known kb || cls_defined db in
    match o with
    | BAdd =>
        match ka, kb with
        | Some CZero, Some CZero => Some CZero
        | Some CZero, Some COne | Some COne, Some CZero => one_if_lg
        | _, _ => None
        end
    | BSub =>
        if same && defa then Some CZero
        else match ka, kb with
             | Some CZero, Some CZero | Some COne, Some COne => Some CZero
             | Some COne, Some CZero => one_if_lg
             | _, _ => None
             end
    | BMul =>
        match ka, kb with
        | Some COne, Some COne => one_if_lg
        | Some CZero, _ => if defb then Some CZero else None
        | _, Some CZero => if defa then Some CZero else None
        | _, _ => None
        end
    | BDiv =>
        if same && cls_nonzero da then one_if_lg
        else match ka, kb with
             | Some CZero, Some COne => Some CZero
             | Some COne, Some COne => one_if_lg
             | Some CZero, None => if cls_nonzero db then Some CZero else None
             | _, _ => None
             end
    | BMin =>
        match ka, kb with
        | Some CZero, Some _ | Some _, Some CZero => Some CZero
        | Some COne, Some COne => Some COne
        | _, _ => None
        end
    | BMax =>
        match ka, kb with
        | Some COne, Some _ | Some _, Some COne => Some COne
        | Some CZero, Some CZero => Some CZero
        | _, _ => None
        end
    end.

  Definition cv_sqrt (k : option cv) : option cv :=
    match k with Some CZero => Some CZero | Some COne => one_if_lg | None => None end.

  Definition cv_un (o : unop) (k : option cv) : option cv :=
    match o with
    | UNeg => match k with Some CZero => Some CZero | _ => None end
    | UFabs => k
    | ULog => match k with Some COne => Some CZero | _ => None end
    | UExp => match k with Some CZero => one_if_lg | _ => None end
    | USqrt => cv_sqrt k
    end.

  Definition cv_pow (p : pconst) (k : option cv) : option cv :=
    match p with
    | PTwo => match k with Some CZero => Some CZero | Some COne => one_if_lg | None => None end
    | PHalf => cv_sqrt k
    end.

  Fixpoint avV (c : cls) (v : vexpr) {struct v} : option cv :=
    match v with
    | VX | VY => None
    | VConstS s => avS c s
    | VBin o a b =>
        cv_bin o (avV c a) (avV c b) (clsV true callc c a) (clsV true callc c b) (same_diagV a b)
    | VUn o a => cv_un o (avV c a)
    | VPowC a p => cv_pow p (avV c a)
    | VSel _ l r a b =>
        if (is_known (avV c l) || cls_defined (clsV true callc c l))
           && (is_known (avV c r) || cls_defined (clsV true callc c r))
        then match avV c a, avV c b with
             | Some k1, Some k2 => if cv_eqb k1 k2 then Some k1 else None
             | _, _ => None
             end
        else None
    end
  with avS (c : cls) (s : sexpr) {struct s} : option cv :=
    match s with
    | SSum v => match avV c v with Some CZero => Some CZero | _ => None end
    | SAmax v => avV c v                               (* length >= 1 *)
    | SCountNe a b =>
        if same_diagV a b && (is_known (avV c a) || cls_defined (clsV true callc c a))
        then Some CZero else None
    | SLen => None
    | SConstQ q => cv_Q q
    | SConstName _ => None
    | SParam _ => None
    | SBin o a b =>
        cv_bin o (avS c a) (avS c b) (clsS true callc c a) (clsS true callc c b) (same_diagS a b)
    | SUn o a => cv_un o (avS c a)
    | SPowC a p => cv_pow p (avS c a)
    | SCall f a b =>
        if same_diagV a b then
          match clsV true callc c a, clsV true callc c b with
          | Some ca, Some cb => if callz f (cls_join ca cb) then Some CZero else None
          | _, _ => None
          end
        else None
    end.
End ZeroCheck.

Definition is_zero (k : option cv) : bool := match k with Some CZero => true | _ => false end.

(* [c] is the class of the USER's vector, as in [wrap_cls] *)
Definition wrap_zero (lg : bool) (callc : string -> cls -> option cls) (callz : string -> cls -> bool)
           (dparams : list string) (dprog : list dstmt) (m : metric_ir) (c : cls) : bool :=
  if m_avoid_zero m then
    dec_uniform dparams dprog
    && match dec_apply_cls dparams dprog [c; c] with
       | Some [cx; cy] => is_zero (avS lg callc callz (cls_join cx cy) (m_body m))
       | _ => false
       end
  else is_zero (avS lg callc callz c (m_body m)).

Fixpoint call_zero (lg : bool) (t : mtable) (dparams : list string) (dprog : list dstmt) (fuel : nat)
         (f : string) (c : cls) : bool :=
  match fuel with
  | O => false
  | S n => match lookup_ir f t with
           | Some m => wrap_zero lg (call_cls true t dparams dprog n) (call_zero lg t dparams dprog n)
                                 dparams dprog m c
           | None => false
           end
  end.

Definition zero_self_gen (lg : bool) (t : mtable) (dparams : list string) (dprog : list dstmt)
           (c : cls) (m : metric_ir) : bool :=
  wrap_zero lg (call_cls true t dparams dprog call_depth) (call_zero lg t dparams dprog call_depth)
            dparams dprog m c.

(* the checkers, at the generated tables: for every [rounding rnd] / for those with [rnd 1 = 1] *)
Definition zero_self (c : cls) (m : metric_ir) : bool :=
  zero_self_gen false all_metrics_ir decorator_params decorator_body c m.

Definition zero_self_one (c : cls) (m : metric_ir) : bool :=
  zero_self_gen true all_metrics_ir decorator_params decorator_body c m.

Definition zero_self_name (nc : string * cls) : bool :=
  match lookup_ir (fst nc) all_metrics_ir with Some m => zero_self (snd nc) m | None => false end.

Definition zero_self_one_name (nc : string * cls) : bool :=
  match lookup_ir (fst nc) all_metrics_ir with Some m => zero_self_one (snd nc) m | None => false end.
