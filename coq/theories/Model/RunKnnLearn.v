(* Entry points for the "whole fit" correspondence cases (harness/knnfull.py): Model/KnnLearn.v at [FOps]
   (PrimFloat, binary64).  Lists of Z / float literals in, one flat list of floats out. *)
From Coq Require Import ZArith List Bool PrimFloat.
From OPF Require Import Base.Lists Base.NumOps Model.Heap Model.Knn Model.Pdf Model.KnnFit Model.KnnLearn
  Model.Run Model.RunSup Model.RunKnn.
Import ListNotations.
Open Scope Z_scope.

Definition thrF : float := 0x1.4f8b588e368f1p-17%float.      (* 0.00001 *)
Definition epsF : float := 0x1.79ca10c924223p-67%float.      (* c.EPSILON = 1e-20 *)

(* np.sum of a contiguous float64 vector *)
Definition run_np_sum (l : list float) : list float := [np_sum FOps l].

(* opf_accuracy(labels, preds) *)
Definition run_accuracy (labels preds : list Z) : list float :=
  [accuracy_F FOps (map zn labels) (map zn preds)].

Definition fzl (l : list nat) : list float := map (fun r => fz (nz r)) l.

(* graph dump: [constant; min; max; n_clusters; density bound] ++ radius ++ density ++ cost ++ pred ++ root
   ++ predicted_label ++ cluster_label ++ [len idx_nodes] ++ idx_nodes ++ adjacency (length-prefixed) ++ n_plateaus *)
Definition dump_fit (g : @knn float) (cmm : float * float * float) : list float :=
  let '(c, mn, mx) := cmm in
  [c; mn; mx; fz (nz (k_nclusters g)); k_gdens g] ++ k_radius g ++ k_dens g ++ k_cost g
  ++ map (fun o => fz (opt_code o)) (k_pred g) ++ fzl (k_root g) ++ fzl (k_plabel g) ++ fzl (k_clabel g)
  ++ [fz (nz (length (k_order g)))] ++ fzl (k_order g)
  ++ map fz (flatten_adj (k_adj g)) ++ fzl (k_nplat g).

(* KNNSupervisedOPF.fit.  n training rows, m validation rows;
   d: n*n, dq: m*n, ep: max_k tables of n*n, eq: max_k tables of m*n, efin: n*n.
   Output: [best_k; number of accuracies] ++ accuracies ++ dump_fit *)
Definition run_knn_sup_fit (n m max_k : Z) (labels vlabels : list Z) (d dq ep eq efin : list float) : list float :=
  let nn := zn n in
  let mm := zn m in
  let dm := fun i j => nth (i * nn + j)%nat d 0%float in
  let dqs := map (fun v => fun j => nth (v * nn + j)%nat dq 0%float) (seq 0 mm) in
  let epm := fun c i j => nth (c * (nn * nn) + (i * nn + j))%nat ep 0%float in
  let eqm := fun c v j => nth (c * (mm * nn) + (v * nn + j))%nat eq 0%float in
  let efm := fun i j => nth (i * nn + j)%nat efin 0%float in
  let '(accs, best, g, cmm) :=
      knn_sup_fit FOps fmaxF thrF 1%float epsF 1000 dm dqs (map zn vlabels) epm eqm (map zn labels) (zn max_k) efm in
  [fz (nz best); fz (nz (length accs))] ++ accs ++ dump_fit g cmm.

(* UnsupervisedOPF.fit.  d: n*n, ep: (max_k - min_k + 1) tables of n*n (unevaluated candidates: anything), efin: n*n.
   Output: [best_k; number of cuts] ++ cuts ++ dump_fit, or [-1] when best_k stays unbound *)
Definition run_unsup_fit (n min_k max_k : Z) (labels : list Z) (d ep efin : list float) : list float :=
  let nn := zn n in
  let dm := fun i j => nth (i * nn + j)%nat d 0%float in
  let epm := fun c i j => nth (c * (nn * nn) + (i * nn + j))%nat ep 0%float in
  let efm := fun i j => nth (i * nn + j)%nat efin 0%float in
  match unsup_fit FOps fmaxF thrF 1%float 1000 dm epm (map zn labels) (zn min_k) (zn max_k) efm with
  | None => [fz (-1)]
  | Some (cuts, best, g, cmm) => [fz (nz best); fz (nz (length cuts))] ++ cuts ++ dump_fit g cmm
  end.
