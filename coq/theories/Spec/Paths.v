(* Abstract graph vocabulary shared by C01, C02, C04, C11, C15: paths in the complete graph
   on nodes 0..n-1 with arc weights [w : nat -> nat -> Z], and the max-arc (bottleneck) value
   of a path.  Weights are rank/IEEE-order encoded floats, i.e. integers (DESIGN.md 3.1). *)
From Coq Require Import ZArith List.
Import ListNotations.
Open Scope Z_scope.

(* largest arc weight along the consecutive pairs of [pi]; [zero] for a path with no arc *)
Fixpoint pathmax (w : nat -> nat -> Z) (zero : Z) (pi : list nat) : Z :=
  match pi with
  | a :: ((b :: _) as t) => Z.max (w a b) (pathmax w zero t)
  | _ => zero
  end.

(* a path through the complete graph on 0..n-1: a non-empty list of nodes < n *)
Definition is_path (n : nat) (pi : list nat) : Prop :=
  pi <> [] /\ Forall (fun v => (v < n)%nat) pi.

Definition path_from_to (n : nat) (s t : nat) (pi : list nat) : Prop :=
  is_path n pi /\ hd_error pi = Some s /\ last pi s = t.

(* following predecessor links: [reaches pred q r k] - r is reached from q in k steps *)
Inductive reaches (pred : nat -> option nat) : nat -> nat -> nat -> Prop :=
| reaches_here q : reaches pred q q 0
| reaches_step q p r k : pred q = Some p -> reaches pred p r k -> reaches pred q r (S k).

Definition root_of (pred : nat -> option nat) (q r : nat) : Prop :=
  exists k, reaches pred q r k /\ pred r = None.
