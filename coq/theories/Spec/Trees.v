(* Tree-path vocabulary for C02 (prototype selection = minimum spanning tree):
   trees are given by parent maps [pred : nat -> option nat] on the nodes 0..n-1 of the
   complete graph of Spec/Paths.v; arcs are used in either direction. *)
From Coq Require Import ZArith List Arith.
From OPF Require Import Spec.Paths.
Import ListNotations.
Open Scope nat_scope.

(* every consecutive pair of [pi] is related by [R] *)
Fixpoint chain (R : nat -> nat -> Prop) (pi : list nat) : Prop :=
  match pi with
  | a :: ((b :: _) as t) => R a b /\ chain R t
  | _ => True
  end.

(* (a, b) is an arc of the tree given by the parent map, in either direction *)
Definition tree_arc (pred : nat -> option nat) (a b : nat) : Prop :=
  pred a = Some b \/ pred b = Some a.

(* [pi] is a simple path from [u] to [v] all of whose arcs are [R]-arcs *)
Definition simple_path_in (n : nat) (R : nat -> nat -> Prop) (u v : nat) (pi : list nat) : Prop :=
  path_from_to n u v pi /\ NoDup pi /\ chain R pi.

(* [pi] is a path between [u] and [v] inside the tree [pred]: simple, tree arcs only *)
Definition tree_path_rel (n : nat) (pred : nat -> option nat) (u v : nat) (pi : list nat) : Prop :=
  simple_path_in n (tree_arc pred) u v pi.

(* (a, b) is an arc traversed by [pi] *)
Definition arc_on (pi : list nat) (a b : nat) : Prop :=
  exists l1 l2, pi = l1 ++ a :: b :: l2.

(* [p] occurs strictly before [q] in [ord] *)
Definition before (ord : list nat) (p q : nat) : Prop :=
  exists l1 l2 l3, ord = l1 ++ p :: l2 ++ q :: l3.

(* any two nodes are joined by a simple [R]-path *)
Definition connected_by (n : nat) (R : nat -> nat -> Prop) : Prop :=
  forall u v, u < n -> v < n -> exists pi, simple_path_in n R u v pi.

(* bottleneck optimality: every simple [R]-path is a minimax path of the complete graph *)
Definition minimax_paths (n : nat) (w : nat -> nat -> Z) (R : nat -> nat -> Prop) : Prop :=
  forall (m : Z) u v tp pi,
    simple_path_in n R u v tp -> path_from_to n u v pi ->
    (pathmax w m tp <= pathmax w m pi)%Z.

(* weights are pairwise distinct on unordered pairs of distinct nodes *)
Definition distinct_weights (n : nat) (w : nat -> nat -> Z) : Prop :=
  forall a b c d, a < n -> b < n -> c < n -> d < n -> a <> b -> c <> d ->
    w a b = w c d -> (a = c /\ b = d) \/ (a = d /\ b = c).

(* (u, v) is the only minimax connection between u and v: every other simple path
   traverses a strictly heavier arc.  Does not mention any tree. *)
Definition sole_minimax_arc (n : nat) (w : nat -> nat -> Z) (u v : nat) : Prop :=
  forall pi, path_from_to n u v pi -> NoDup pi -> pi <> [u; v] ->
    exists a b, arc_on pi a b /\ (w u v < w a b)%Z.

(* ------------------------------------------------------------------ *)
(* Total weight of a tree given by a parent map (integer weights).     *)

(* f 0 + ... + f (n-1) *)
Fixpoint zsum (f : nat -> Z) (n : nat) : Z :=
  match n with
  | 0 => 0%Z
  | S k => (zsum f k + f k)%Z
  end.

(* weight of the arc (pred q, q); the root carries no arc *)
Definition arc_weight (w : nat -> nat -> Z) (pred : nat -> option nat) (q : nat) : Z :=
  match pred q with Some p => w p q | None => 0%Z end.

Definition tree_weight (n : nat) (w : nat -> nat -> Z) (pred : nat -> option nat) : Z :=
  zsum (arc_weight w pred) n.

(* [pred] is a rooted spanning tree of the complete graph on 0..n-1: parents are nodes,
   and following [pred] from any node reaches one common root [r] *)
Definition spanning_parent_map (n : nat) (pred : nat -> option nat) : Prop :=
  exists r, r < n /\ pred r = None /\
    forall q, q < n -> root_of pred q r /\ forall p, pred q = Some p -> p < n.
