(* The published closed forms of the 47 dissimilarities (fixed, hand-written, never generated).
   Names follow Prasath et al., "Distance and Similarity Measures Effect on the Performance of
   K-Nearest Neighbor Classifier - A Review" (2017) and Cha, "Comprehensive Survey on
   Distance/Similarity Measures between Probability Density Functions" (2007), the sources of
   opfython's identifiers.  Vectors are [list R]; [x_i], [y_i] range over paired entries.

   This file is the *specification* side of C06/C08: Gen/Metrics_gen.v (regenerated from
   opfython/math/distance.py on every run) is proved equal to these definitions, and the
   metric axioms are proved about these definitions. *)
From Coq Require Import Reals List.
Import ListNotations.
Open Scope R_scope.

Fixpoint map2 {A B C} (f : A -> B -> C) (x : list A) (y : list B) : list C :=
  match x, y with
  | a :: x', b :: y' => f a b :: map2 f x' y'
  | _, _ => []
  end.

Definition sum (l : list R) : R := fold_right Rplus 0 l.

(* Σ_i f(x_i, y_i) *)
Definition sum2 (f : R -> R -> R) (x y : list R) : R := sum (map2 f x y).

(* max_i of a list (0 for the empty list; every use is on a list of length >= 1) *)
Definition lmax (l : list R) : R :=
  match l with [] => 0 | a :: t => fold_left Rmax t a end.

Definition len (x : list R) : R := INR (length x).

(* number of positions where the predicate on paired entries holds *)
Definition count2 (p : R -> R -> bool) (x y : list R) : R :=
  sum (map2 (fun a b => if p a b then 1 else 0) x y).

Definition Rneqb (a b : R) : bool := if Req_EM_T a b then false else true.

(* constants of opfython/utils/constants.py *)
Definition EPSILON : R := / 10 ^ 20.
Definition MAX_ARC_WEIGHT : R := 100000.

(* the decorator @avoid_zero_division: both arguments shifted by EPSILON *)
Definition shift (x : list R) : list R := map (fun a => a + EPSILON) x.

(* ----- L_p / Minkowski family ----- *)
Definition sp_squared_euclidean x y := sum2 (fun a b => (a - b) ^ 2) x y.
Definition sp_euclidean x y := sqrt (sp_squared_euclidean x y).
Definition sp_average_euclidean x y := sqrt (sp_squared_euclidean x y / len x).
Definition sp_manhattan x y := sum2 (fun a b => Rabs (a - b)) x y.
Definition sp_chebyshev x y := lmax (map2 (fun a b => Rabs (a - b)) x y).
Definition sp_gower x y := sp_manhattan x y / len x.
Definition sp_non_intersection x y := / 2 * sp_manhattan x y.
Definition sp_hamming x y := count2 Rneqb x y.
Definition sp_mean_censored_euclidean x y :=
  sqrt (sp_squared_euclidean x y / count2 (fun a b => Rneqb (a + b) 0) x y).
Definition sp_log_euclidean x y := MAX_ARC_WEIGHT * ln (sp_euclidean x y + 1).
Definition sp_log_squared_euclidean x y := MAX_ARC_WEIGHT * ln (sp_squared_euclidean x y + 1).
Definition sp_gaussian (gamma : R) x y := exp (- gamma * sp_euclidean x y).

(* ----- L1 family ----- *)
Definition sp_bray_curtis x y := sum2 (fun a b => Rabs (a - b)) x y / sum2 (fun a b => a + b) x y.
Definition sp_canberra x y := sum2 (fun a b => Rabs (a - b) / (Rabs a + Rabs b)) x y.
Definition sp_lorentzian x y := sum2 (fun a b => ln (1 + Rabs (a - b))) x y.
Definition sp_kulczynski x y := sum2 (fun a b => Rabs (a - b)) x y / sum2 Rmin x y.
Definition sp_soergel x y := sum2 (fun a b => Rabs (a - b)) x y / sum2 Rmax x y.

(* ----- inner-product family ----- *)
Definition dot x y := sum2 Rmult x y.
Definition sp_cosine x y := 1 - dot x y / (sqrt (dot x x) * sqrt (dot y y)).
Definition sp_chord x y := sqrt (2 - 2 * (dot x y / (sqrt (dot x x) * sqrt (dot y y)))).
Definition sp_dice x y := 1 - 2 * dot x y / (dot x x + dot y y).
Definition sp_jaccard x y := sp_squared_euclidean x y / (dot x x + dot y y - dot x y).

(* ----- squared-chord / fidelity family ----- *)
Definition sp_squared_chord x y := sum2 (fun a b => (sqrt a - sqrt b) ^ 2) x y.
Definition sp_matusita x y := sqrt (sp_squared_chord x y).
Definition sp_hellinger x y := sqrt (2 * sp_squared_chord x y).
Definition sp_bhattacharyya x y := - ln (sum2 (fun a b => sqrt (a * b)) x y).

(* ----- chi-squared family ----- *)
Definition sp_squared x y := sum2 (fun a b => (a - b) ^ 2 / (a + b)) x y.
Definition sp_chi_squared x y := / 2 * sp_squared x y.
Definition sp_sangvi x y := 2 * sp_squared x y.
Definition sp_neyman x y := sum2 (fun a b => (a - b) ^ 2 / a) x y.
Definition sp_pearson x y := sum2 (fun a b => (a - b) ^ 2 / b) x y.
Definition sp_divergence x y := 2 * sum2 (fun a b => (a - b) ^ 2 / (a + b) ^ 2) x y.
Definition sp_clark x y := sqrt (sum2 (fun a b => ((a - b) / Rabs (a + b)) ^ 2) x y).
Definition sp_additive_symmetric x y := 2 * sum2 (fun a b => (a - b) ^ 2 * (a + b) / (a * b)) x y.
Definition sp_max_symmetric x y := Rmax (sp_neyman x y) (sp_pearson x y).
Definition sp_min_symmetric x y := Rmin (sp_neyman x y) (sp_pearson x y).

(* ----- Shannon-entropy family ----- *)
Definition sp_kullback_leibler x y := sum2 (fun a b => a * ln (a / b)) x y.
Definition sp_jeffreys x y := sum2 (fun a b => (a - b) * ln (a / b)) x y.
Definition sp_k_divergence x y := sum2 (fun a b => a * ln (2 * a / (a + b))) x y.
Definition sp_topsoe x y := sp_k_divergence x y + sp_k_divergence y x.
Definition sp_jensen_shannon x y := / 2 * sp_topsoe x y.
Definition sp_jensen x y :=
  / 2 * sum2 (fun a b => (a * ln a + b * ln b) / 2 - (a + b) / 2 * ln ((a + b) / 2)) x y.

(* ----- Vicissitude family and others ----- *)
Definition sp_vicis_wave_hedges x y := sum2 (fun a b => Rabs (a - b) / Rmin a b) x y.
Definition sp_vicis_symmetric1 x y := sum2 (fun a b => (a - b) ^ 2 / (Rmin a b) ^ 2) x y.
Definition sp_vicis_symmetric2 x y := sum2 (fun a b => (a - b) ^ 2 / Rmin a b) x y.
Definition sp_vicis_symmetric3 x y := sum2 (fun a b => (a - b) ^ 2 / Rmax a b) x y.
Definition sp_statistic x y := sum2 (fun a b => (a - (a + b) / 2) / ((a + b) / 2)) x y.
Definition hassanat1 (a b : R) : R :=
  if Rle_dec 0 (Rmin a b)
  then 1 - (1 + Rmin a b) / (1 + Rmax a b)
  else 1 - (1 + Rmin a b + Rabs (Rmin a b)) / (1 + Rmax a b + Rabs (Rmin a b)).
Definition sp_hassanat x y := sum2 hassanat1 x y.

(* ----- domains ----- *)
Definition same_len (x y : list R) : Prop := length x = length y /\ (1 <= length x)%nat.
Definition all_pos (x : list R) : Prop := Forall (fun a => 0 < a) x.
Definition all_nonneg (x : list R) : Prop := Forall (fun a => 0 <= a) x.
Definition prob (x : list R) : Prop := all_pos x /\ sum x = 1.
