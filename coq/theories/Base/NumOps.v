(* One definition, two interpretations (DESIGN.md 3.2): numeric kernels are written over a
   record of operations and instantiated at R (theorems) and at PrimFloat (bit-exact runs). *)
From Coq Require Import Reals ZArith PrimFloat Uint63.

Record NumOps (F : Type) := mkNumOps {
  nadd : F -> F -> F; nsub : F -> F -> F; nmul : F -> F -> F; ndiv : F -> F -> F;
  nltb : F -> F -> bool; neqb : F -> F -> bool;
  nofZ : Z -> F }.
Arguments mkNumOps {F}. Arguments nadd {F}. Arguments nsub {F}. Arguments nmul {F}. Arguments ndiv {F}.
Arguments nltb {F}. Arguments neqb {F}. Arguments nofZ {F}.

Definition Rltb (a b : R) : bool := if Rlt_dec a b then true else false.
Definition Reqb (a b : R) : bool := if Req_EM_T a b then true else false.

Definition ROps : NumOps R := mkNumOps Rplus Rminus Rmult Rdiv Rltb Reqb IZR.

Definition float_ofZ (z : Z) : float :=
  match z with
  | Z0 => PrimFloat.zero
  | Zpos _ => PrimFloat.of_uint63 (Uint63.of_Z z)
  | Zneg p => PrimFloat.opp (PrimFloat.of_uint63 (Uint63.of_Z (Zpos p)))
  end.

Definition FOps : NumOps float :=
  mkNumOps PrimFloat.add PrimFloat.sub PrimFloat.mul PrimFloat.div PrimFloat.ltb PrimFloat.eqb float_ofZ.
