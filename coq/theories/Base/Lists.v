(* Shared list vocabulary: Python lists / numpy arrays are modelled as [list];
   [a[i] = v] is [upd a i v]; reads are [nth i a d]. *)
From Coq Require Import List Arith Lia.
Import ListNotations.

Fixpoint upd {A} (l : list A) (i : nat) (v : A) : list A :=
  match l, i with
  | [], _ => []
  | _ :: t, 0 => v :: t
  | x :: t, S j => x :: upd t j v
  end.

Lemma upd_length {A} (l : list A) i v : length (upd l i v) = length l.
Proof. revert i; induction l as [|x l IH]; intros [|i]; simpl; auto. Qed.

Lemma nth_upd_eq {A} (l : list A) i v d : i < length l -> nth i (upd l i v) d = v.
Proof. revert i; induction l as [|x l IH]; intros [|i] H; simpl in *; try lia; auto.
  apply IH; lia. Qed.

Lemma nth_upd_neq {A} (l : list A) i j v d : i <> j -> nth j (upd l i v) d = nth j l d.
Proof. revert i j; induction l as [|x l IH]; intros [|i] [|j] H; simpl; auto; try lia. Qed.

Lemma nth_upd {A} (l : list A) i j v d :
  nth j (upd l i v) d = if Nat.eqb i j then (if Nat.ltb i (length l) then v else nth j l d) else nth j l d.
Proof.
  destruct (Nat.eqb_spec i j) as [->|Hne].
  - destruct (Nat.ltb_spec j (length l)) as [Hlt|Hge].
    + apply nth_upd_eq; auto.
    + rewrite !nth_overflow; auto; rewrite ?upd_length; lia.
  - apply nth_upd_neq; auto.
Qed.

Lemma upd_overflow {A} (l : list A) i v : length l <= i -> upd l i v = l.
Proof. revert i; induction l as [|x l IH]; intros [|i] H; simpl in *; auto; try lia.
  f_equal; apply IH; lia. Qed.

(* [tabulate f n] = [f 0; ...; f (n-1)] *)
Definition tabulate {A} (f : nat -> A) (n : nat) : list A := map f (seq 0 n).

Lemma tabulate_length {A} (f : nat -> A) n : length (tabulate f n) = n.
Proof. unfold tabulate; now rewrite map_length, seq_length. Qed.

Lemma nth_tabulate {A} (f : nat -> A) n i d : i < n -> nth i (tabulate f n) d = f i.
Proof. intros H; unfold tabulate.
  rewrite nth_indep with (d':= f 0) by (rewrite map_length, seq_length; lia).
  rewrite map_nth, seq_nth; auto. Qed.

(* insert at front of list: Python [l.insert(0, x)] *)
Definition insert0 {A} (x : A) (l : list A) : list A := x :: l.
