(* A third interpretation of the numeric record of Base/NumOps.v (DESIGN.md 3.2): "reals with a
   rounding after every arithmetic operation".

   [RndOps rnd] is [ROps] with an arbitrary function [rnd : R -> R] applied to the result of each of
   the four arithmetic operations `+ - * /`.  It stands between [ROps] (exact reals, no rounding) and
   [FOps] (binary64, one particular rounding, plus overflow/NaN): every statement proved about a kernel
   instantiated at [RndOps rnd] for ALL [rnd] of a class (Model/MetricRnd.v: [rounding] = monotone,
   [rnd 0 = 0], strict sign kept) holds in particular for round-to-nearest-even on the range where
   binary64 neither overflows nor underflows to zero.

   Decisions:
   - comparisons are exact ([Rltb], [Reqb]): a float comparison never rounds;
   - [nofZ z := IZR z] is exact: binary64 represents every integer |z| <= 2^53, and the kernels of
     Model/Pdf.v only inject the literals 0, 1, 2, 9, MAX_DENSITY - 1 = 999, MAX_DENSITY = 1000 and the
     neighbourhood sizes k, k + 1 (bounded by the number of samples, a Python int far below 2^53).
     (Rounding the injection instead would need [rnd (IZR z) = IZR z] as a side condition of every
     theorem that mentions a literal, for no gain in fidelity.)
   - a division by zero is the real `a * / 0` rounded; the theorems about the density map only divide
     by values they prove positive.
   Only definitions here; see Proofs/PdfRnd*.v. *)
From Coq Require Import Reals ZArith.
From OPF Require Import Base.NumOps.
Local Open Scope R_scope.

Definition RndOps (rnd : R -> R) : NumOps R :=
  mkNumOps (fun a b => rnd (a + b)) (fun a b => rnd (a - b))
           (fun a b => rnd (a * b)) (fun a b => rnd (a / b))
           Rltb Reqb IZR.

(* extra properties of a rounding function used (and named) by individual theorems; round-to-nearest
   has all of them *)
Definition rnd_idem (rnd : R -> R) : Prop := forall t, rnd (rnd t) = rnd t.
Definition rnd_one (rnd : R -> R) : Prop := rnd 1 = 1.
