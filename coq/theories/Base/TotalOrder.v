(* Decidable strict total orders given by a boolean comparison [ltb : W -> W -> bool].

   This is the only interface through which the models (Model/Heap.v, Sup.v, Knn.v) see their
   weights.  [so_total] states trichotomy with Leibniz equality: two elements neither of which
   is below the other are EQUAL.  That is adequate for the integers, naturals, the binary64
   numbers taken as bit patterns with NaN and one of the two zeros excluded, or any finite rank
   encoding; it is not satisfied by [PrimFloat.ltb] on all of [float] (NaN is incomparable to
   everything, -0 and +0 are incomparable and distinct) nor by [Qlt_bool]-style comparisons on
   unreduced fractions (1/2 and 2/4 are incomparable and distinct). *)
From Coq Require Import Bool List.
Import ListNotations.

Record strict_total_order {W : Type} (ltb : W -> W -> bool) : Prop := {
  so_irrefl : forall a, ltb a a = false;
  so_trans : forall a b c, ltb a b = true -> ltb b c = true -> ltb a c = true;
  so_total : forall a b, ltb a b = false -> ltb b a = false -> a = b
}.

(* the derived non-strict comparison, maximum and minimum ([omax] is [Model.Sup.wmax] and
   [Model.Knn.wmaxk], [omin] is [Model.Knn.wmin], by definition) *)
Definition leb {W} (ltb : W -> W -> bool) (a b : W) : bool := negb (ltb b a).
Definition omax {W} (ltb : W -> W -> bool) (a b : W) : W := if ltb a b then b else a.
Definition omin {W} (ltb : W -> W -> bool) (a b : W) : W := if ltb b a then b else a.

(* largest arc weight along the consecutive pairs of [pi]; [zero] for a path with no arc.
   The [W]-version of [Spec.Paths.pathmax]. *)
Fixpoint pathmaxW {W} (ltb : W -> W -> bool) (w : nat -> nat -> W) (zero : W) (pi : list nat) : W :=
  match pi with
  | a :: ((b :: _) as t) => omax ltb (w a b) (pathmaxW ltb w zero t)
  | _ => zero
  end.

Section Facts.
  Context {W : Type} (ltb : W -> W -> bool).
  Hypothesis O : strict_total_order ltb.

  Lemma so_asym a b : ltb a b = true -> ltb b a = false.
  Proof.
    intros H. destruct (ltb b a) eqn:E; [|reflexivity].
    rewrite <- (so_irrefl ltb O a). symmetry. exact (so_trans ltb O a b a H E).
  Qed.

  (* exactly one of a < b, a = b, b < a *)
  Lemma so_trichotomy a b : ltb a b = true \/ a = b \/ ltb b a = true.
  Proof.
    destruct (ltb a b) eqn:E1; [now left|]. destruct (ltb b a) eqn:E2; [now right; right|].
    right; left. now apply (so_total ltb O).
  Qed.

  Lemma leb_refl a : leb ltb a a = true.
  Proof. unfold leb. now rewrite (so_irrefl ltb O). Qed.

  Lemma leb_antisym a b : leb ltb a b = true -> leb ltb b a = true -> a = b.
  Proof.
    unfold leb. intros H1 H2. apply negb_true_iff in H1, H2. now apply (so_total ltb O).
  Qed.

  Lemma leb_total a b : leb ltb a b = true \/ leb ltb b a = true.
  Proof.
    unfold leb. destruct (ltb b a) eqn:E; [|now left]. right. now rewrite (so_asym _ _ E).
  Qed.

  (* a < b <= c  ->  a < c     and     a <= b < c  ->  a < c *)
  Lemma so_lt_le_trans a b c : ltb a b = true -> ltb c b = false -> ltb a c = true.
  Proof.
    intros H1 H2. destruct (so_trichotomy b c) as [H|[<-|H]]; auto.
    - exact (so_trans ltb O a b c H1 H).
    - congruence.
  Qed.

  Lemma so_le_lt_trans a b c : ltb b a = false -> ltb b c = true -> ltb a c = true.
  Proof.
    intros H1 H2. destruct (so_trichotomy a b) as [H|[->|H]]; auto.
    - exact (so_trans ltb O a b c H H2).
    - congruence.
  Qed.

  Lemma leb_trans a b c : leb ltb a b = true -> leb ltb b c = true -> leb ltb a c = true.
  Proof.
    unfold leb. intros H1 H2. apply negb_true_iff in H1, H2. apply negb_true_iff.
    destruct (ltb c a) eqn:E; [|reflexivity].
    rewrite <- H2. symmetry. now apply (so_lt_le_trans c a b).
  Qed.

  Lemma omax_case a b : omax ltb a b = a \/ omax ltb a b = b.
  Proof. unfold omax. destruct (ltb a b); auto. Qed.

  Lemma omin_case a b : omin ltb a b = a \/ omin ltb a b = b.
  Proof. unfold omin. destruct (ltb b a); auto. Qed.

  (* [omax a b] is the least upper bound of a and b *)
  Lemma omax_ub_l a b : ltb (omax ltb a b) a = false.
  Proof. unfold omax. destruct (ltb a b) eqn:E; [now apply so_asym | apply (so_irrefl ltb O)]. Qed.

  Lemma omax_ub_r a b : ltb (omax ltb a b) b = false.
  Proof. unfold omax. destruct (ltb a b) eqn:E; [apply (so_irrefl ltb O) | exact E]. Qed.

  Lemma omax_least a b c : ltb c a = false -> ltb c b = false -> ltb c (omax ltb a b) = false.
  Proof. unfold omax. destruct (ltb a b); auto. Qed.

  Lemma omin_lb_l a b : ltb a (omin ltb a b) = false.
  Proof. unfold omin. destruct (ltb b a) eqn:E; [now apply so_asym | apply (so_irrefl ltb O)]. Qed.

  Lemma omin_lb_r a b : ltb b (omin ltb a b) = false.
  Proof. unfold omin. destruct (ltb b a) eqn:E; [apply (so_irrefl ltb O) | exact E]. Qed.

  Lemma omin_greatest a b c : ltb a c = false -> ltb b c = false -> ltb (omin ltb a b) c = false.
  Proof. unfold omin. destruct (ltb b a); auto. Qed.
End Facts.
