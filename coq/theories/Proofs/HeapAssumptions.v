(* Assumption audit of the heap development: every line must print
   "Closed under the global context". *)
From OPF Require Import Proofs.HeapPrelude Model.Heap Proofs.HeapInv Proofs.HeapHist Props.C05.

Print Assumptions inv_init.
Print Assumptions insert_spec.
Print Assumptions insert_full.
Print Assumptions remove_spec.
Print Assumptions remove_empty.
Print Assumptions update_gray_spec.
Print Assumptions update_white_spec.
Print Assumptions update_white_full.
Print Assumptions update_black_spec.
Print Assumptions set_cost_nonqueued_inv.
Print Assumptions is_empty_spec.
Print Assumptions is_full_spec.
Print Assumptions reachable_iff_hist.
Print Assumptions ex_valid.
Print Assumptions ex_outputs.
Print Assumptions ex_refines.
Print Assumptions C05_inv_reachable.
Print Assumptions C05_inv_step.
Print Assumptions C05_remove_extremal.
Print Assumptions C05_histories_refine_pq.
Print Assumptions C05_step_refines_pq.
Print Assumptions C05_conservation.
Print Assumptions C05_failures_leave_state.
Print Assumptions C05_empty_full_truthful.
Print Assumptions C05_valid_prefix.
Print Assumptions C05_run_prefix.
Print Assumptions go_up_fuel.
Print Assumptions go_down_fuel.
