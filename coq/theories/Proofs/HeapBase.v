(* Auxiliary facts for the heap proofs: index arithmetic ([dad], sons), list facts about
   [firstn]/[nth], the order [ord] induced by [better] at [W := Z], and the order-theoretic
   core of the sift-up / sift-down loops stated on plain key functions [nat -> Z]. *)
From Coq Require Import List Arith Bool ZArith Lia ZifyBool Permutation.
From OPF Require Import Base.Lists Model.Heap.
Import ListNotations.

(* ------------------------------------------------------------------ *)
(* Index arithmetic                                                    *)

Lemma half_spec x : x = 2 * (x / 2) \/ x = 2 * (x / 2) + 1.
Proof.
  pose proof (Nat.div_mod x 2 ltac:(lia)) as Hdm.
  pose proof (Nat.mod_upper_bound x 2 ltac:(lia)) as Hub. lia.
Qed.

Lemma dad_spec k : (k = 0 /\ dad k = 0) \/ k = 2 * dad k + 1 \/ k = 2 * dad k + 2.
Proof.
  unfold dad. destruct k as [|k].
  - left; split; auto.
  - right. pose proof (half_spec (S k - 1)) as Hh. lia.
Qed.

Lemma dad_lt i : 0 < i -> dad i < i.
Proof. intros Hi. pose proof (dad_spec i) as Hd. lia. Qed.

Lemma dad_0 : dad 0 = 0.
Proof. reflexivity. Qed.

Lemma dad_left_son i : dad (left_son i) = i.
Proof. pose proof (dad_spec (left_son i)) as Hd. unfold left_son in *. lia. Qed.

Lemma dad_right_son i : dad (right_son i) = i.
Proof. pose proof (dad_spec (right_son i)) as Hd. unfold right_son in *. lia. Qed.

Lemma dad_inv k i : 0 < k -> dad k = i -> k = left_son i \/ k = right_son i.
Proof.
  intros Hk Hd. pose proof (dad_spec k) as Hs. unfold left_son, right_son. lia.
Qed.

(* ------------------------------------------------------------------ *)
(* Lists                                                               *)

Lemma nth_firstn_lt {A} (l : list A) n i d : i < n -> nth i (firstn n l) d = nth i l d.
Proof.
  revert l i; induction n as [|n IH]; intros l i Hi; [lia|].
  destruct l as [|x l]; [destruct i; reflexivity|].
  destruct i as [|i]; cbn; [reflexivity|]. apply IH; lia.
Qed.

Lemma In_firstn_nth (l : list nat) n q :
  n <= length l -> (In q (firstn n l) <-> exists i, i < n /\ nth i l 0 = q).
Proof.
  intros Hn. split.
  - intros Hin. destruct (In_nth _ _ 0 Hin) as [i [Hi Hq]].
    rewrite firstn_length_le in Hi by exact Hn.
    exists i; split; [exact Hi|]. rewrite <- Hq. symmetry; apply nth_firstn_lt; exact Hi.
  - intros [i [Hi Hq]]. rewrite <- Hq, <- (nth_firstn_lt l n i 0 Hi).
    apply nth_In. rewrite firstn_length_le by exact Hn. exact Hi.
Qed.

Lemma NoDup_firstn_nth (l : list nat) n :
  n <= length l ->
  (NoDup (firstn n l) <-> forall i j, i < n -> j < n -> nth i l 0 = nth j l 0 -> i = j).
Proof.
  intros Hn. rewrite (NoDup_nth (firstn n l) 0). rewrite firstn_length_le by exact Hn.
  split; intros H i j Hi Hj Heq; apply H; auto.
  - rewrite !nth_firstn_lt by assumption. exact Heq.
  - rewrite !nth_firstn_lt in Heq by assumption. exact Heq.
Qed.

Lemma nth_repeat_any {A} (x : A) n i d : i < n -> nth i (repeat x n) d = x.
Proof.
  revert i; induction n as [|n IH]; intros i Hi; [lia|].
  destruct i as [|i]; cbn; [reflexivity|]. apply IH; lia.
Qed.

(* ------------------------------------------------------------------ *)
(* The order induced by [better] on Z                                  *)

Definition ord (pol : policy) (a b : Z) : Prop := better Z.ltb pol b a = false.

Lemma ord_refl pol a : ord pol a a.
Proof. unfold ord, better; destruct pol; lia. Qed.

Lemma ord_trans pol a b c : ord pol a b -> ord pol b c -> ord pol a c.
Proof. unfold ord, better; destruct pol; lia. Qed.

Lemma better_ord pol a b : better Z.ltb pol a b = true -> ord pol a b.
Proof. unfold ord, better; destruct pol; lia. Qed.

Lemma not_better_ord pol a b : better Z.ltb pol a b = false -> ord pol b a.
Proof. intros H; exact H. Qed.

(* ------------------------------------------------------------------ *)
(* Order-theoretic core of go_up / go_down                             *)

Section Sift.
  Variable pol : policy.
  Variable n : nat.

  Definition HOrd (key : nat -> Z) : Prop :=
    forall k, 0 < k < n -> ord pol (key (dad k)) (key k).

  (* heap order except possibly between [i] and [dad i]; grandparent no worse than
     the children of [i] *)
  Definition UpI (key : nat -> Z) (i : nat) : Prop :=
    (forall k, 0 < k < n -> k <> i -> ord pol (key (dad k)) (key k)) /\
    (forall k, 0 < k < n -> dad k = i -> 0 < i -> ord pol (key (dad i)) (key k)).

  (* heap order except possibly between [i] and its sons *)
  Definition DownI (key : nat -> Z) (i : nat) : Prop :=
    (forall k, 0 < k < n -> dad k <> i -> ord pol (key (dad k)) (key k)) /\
    (forall k, 0 < k < n -> dad k = i -> 0 < i -> ord pol (key (dad i)) (key k)).

  Definition swapped (key key' : nat -> Z) (i j : nat) : Prop :=
    forall k, key' k = if Nat.eqb k i then key j else if Nat.eqb k j then key i else key k.

  Lemma HOrd_root key : HOrd key -> forall k, k < n -> ord pol (key 0) (key k).
  Proof.
    intros HO k. induction k as [k IH] using lt_wf_ind. intros Hk.
    destruct (Nat.eq_dec k 0) as [->|Hne]; [apply ord_refl|].
    pose proof (dad_lt k ltac:(lia)) as Hd.
    eapply ord_trans; [apply (IH (dad k)); lia|]. apply HO; lia.
  Qed.

  Lemma up_done key i :
    UpI key i -> (i = 0 \/ better Z.ltb pol (key i) (key (dad i)) = false) -> HOrd key.
  Proof.
    intros [Ha _] Hstop k Hk. destruct (Nat.eq_dec k i) as [->|Hne].
    - destruct Hstop as [->|Hb]; [lia|]. exact Hb.
    - apply Ha; assumption.
  Qed.

  Lemma up_step key key' i :
    UpI key i -> 0 < i < n -> better Z.ltb pol (key i) (key (dad i)) = true ->
    swapped key key' i (dad i) -> UpI key' (dad i).
  Proof.
    intros [Ha Hb] Hi Hbet Hsw.
    pose proof (dad_lt i ltac:(lia)) as Hdi.
    assert (Hij : ord pol (key i) (key (dad i))) by (apply better_ord; exact Hbet).
    split.
    - intros k Hk Hne. rewrite (Hsw k), (Hsw (dad k)).
      pose proof (dad_lt k ltac:(lia)) as Hdk.
      destruct (Nat.eqb_spec k i) as [->|Hki].
      + (* k = i *)
        rewrite Nat.eqb_refl.
        destruct (Nat.eqb_spec (dad i) i) as [E|_]; [lia|]. exact Hij.
      + destruct (Nat.eqb_spec k (dad i)) as [E|Hkj]; [contradiction|].
        destruct (Nat.eqb_spec (dad k) i) as [E|Hdki].
        * (* dad k = i *) apply Hb; auto; lia.
        * destruct (Nat.eqb_spec (dad k) (dad i)) as [E|Hdkj].
          -- (* sibling of i *)
             eapply ord_trans; [exact Hij|]. rewrite <- E. apply Ha; auto.
          -- apply Ha; auto.
    - intros k Hk Hdk Hj. rewrite (Hsw k), (Hsw (dad (dad i))).
      pose proof (dad_lt (dad i) Hj) as Hddi.
      destruct (Nat.eqb_spec (dad (dad i)) i) as [E|_]; [lia|].
      destruct (Nat.eqb_spec (dad (dad i)) (dad i)) as [E|_]; [lia|].
      assert (Hgp : ord pol (key (dad (dad i))) (key (dad i))) by (apply Ha; lia).
      destruct (Nat.eqb_spec k i) as [->|Hki]; [exact Hgp|].
      destruct (Nat.eqb_spec k (dad i)) as [E|Hkj].
      { pose proof (dad_lt k ltac:(lia)). lia. }
      eapply ord_trans; [exact Hgp|]. rewrite <- Hdk. apply Ha; auto.
  Qed.

  Lemma down_done_leaf key i : DownI key i -> n <= i -> HOrd key.
  Proof.
    intros [Ha _] Hi k Hk. apply Ha; [exact Hk|].
    pose proof (dad_lt k ltac:(lia)). lia.
  Qed.

  Lemma down_done key i :
    DownI key i ->
    (left_son i < n -> better Z.ltb pol (key (left_son i)) (key i) = false) ->
    (right_son i < n -> better Z.ltb pol (key (right_son i)) (key i) = false) ->
    HOrd key.
  Proof.
    intros [Ha _] Hl Hr k Hk. destruct (Nat.eq_dec (dad k) i) as [E|Hne].
    - destruct (dad_inv k i ltac:(lia) E) as [->| ->].
      + rewrite dad_left_son. apply Hl; lia.
      + rewrite dad_right_son. apply Hr; lia.
    - apply Ha; assumption.
  Qed.

  (* [j] is the selected son: strictly better than [i], no worse than its sibling *)
  Lemma down_step key key' i j :
    DownI key i -> j < n -> dad j = i -> 0 < j ->
    better Z.ltb pol (key j) (key i) = true ->
    (forall k, 0 < k < n -> dad k = i -> ord pol (key j) (key k)) ->
    swapped key key' i j -> DownI key' j.
  Proof.
    intros [Ha Hb] Hj Hdj Hj0 Hbet Hbest Hsw.
    pose proof (dad_lt j Hj0) as Hij. rewrite Hdj in Hij.
    assert (Hji : ord pol (key j) (key i)) by (apply better_ord; exact Hbet).
    split.
    - intros k Hk Hne. rewrite (Hsw k), (Hsw (dad k)).
      pose proof (dad_lt k ltac:(lia)) as Hdk.
      destruct (Nat.eqb_spec k i) as [->|Hki].
      + (* k = i, i > 0 *)
        destruct (Nat.eqb_spec (dad i) i) as [E|_]; [lia|].
        destruct (Nat.eqb_spec (dad i) j) as [E|_]; [lia|].
        apply Hb; auto; lia.
      + destruct (Nat.eqb_spec k j) as [->|Hkj].
        * rewrite Hdj, Nat.eqb_refl. exact Hji.
        * destruct (Nat.eqb_spec (dad k) i) as [E|Hdki].
          -- apply Hbest; auto.
          -- destruct (Nat.eqb_spec (dad k) j) as [E|_]; [contradiction|].
             apply Ha; auto.
    - intros k Hk Hdk _. rewrite (Hsw k), (Hsw (dad j)), Hdj, Nat.eqb_refl.
      pose proof (dad_lt k ltac:(lia)) as Hdk'.
      destruct (Nat.eqb_spec k i) as [E|_]; [lia|].
      destruct (Nat.eqb_spec k j) as [E|_]; [lia|].
      rewrite <- Hdk. apply Ha; [lia|]. lia.
  Qed.
End Sift.

(* ------------------------------------------------------------------ *)
(* Son selection of go_down                                            *)

Definition sel (pol : policy) (n : nat) (key : nat -> Z) (i : nat) : nat :=
  let j1 := if Nat.ltb (left_son i) n && better Z.ltb pol (key (left_son i)) (key i)
            then left_son i else i in
  if Nat.ltb (right_son i) n && better Z.ltb pol (key (right_son i)) (key j1)
  then right_son i else j1.

Lemma better_trans pol a b c :
  better Z.ltb pol a b = true -> better Z.ltb pol b c = true -> better Z.ltb pol a c = true.
Proof. unfold better; destruct pol; lia. Qed.

Lemma sel_spec pol n key i :
  let j := sel pol n key i in
  (j = i /\ (left_son i < n -> better Z.ltb pol (key (left_son i)) (key i) = false)
         /\ (right_son i < n -> better Z.ltb pol (key (right_son i)) (key i) = false))
  \/ (j <> i /\ i < j /\ j < n /\ dad j = i /\
      better Z.ltb pol (key j) (key i) = true /\
      (forall k, 0 < k < n -> dad k = i -> ord pol (key j) (key k))).
Proof.
  unfold sel.
  assert (Hsons : forall k, 0 < k -> dad k = i -> k = left_son i \/ k = right_son i)
    by (intros k Hk Hd; apply dad_inv; assumption).
  pose proof (dad_left_son i) as Hdl. pose proof (dad_right_son i) as Hdr.
  assert (Hli : i < left_son i) by (unfold left_son; lia).
  assert (Hri : i < right_son i) by (unfold right_son; lia).
  assert (Hlr : left_son i < right_son i) by (unfold left_son, right_son; lia).
  destruct (Nat.ltb_spec (left_son i) n) as [Hl|Hl];
  destruct (Nat.ltb_spec (right_son i) n) as [Hr|Hr]; cbn [andb]; try lia.
  - destruct (better Z.ltb pol (key (left_son i)) (key i)) eqn:Hbl.
    + destruct (better Z.ltb pol (key (right_son i)) (key (left_son i))) eqn:Hbr.
      * right. split; [lia|]. split; [lia|]. split; [lia|]. split; [exact Hdr|].
        split; [eapply better_trans; eassumption|].
        intros k Hk Hd. destruct (Hsons k ltac:(lia) Hd) as [->| ->].
        -- apply better_ord; exact Hbr.
        -- apply ord_refl.
      * right. split; [lia|]. split; [lia|]. split; [lia|]. split; [exact Hdl|].
        split; [exact Hbl|].
        intros k Hk Hd. destruct (Hsons k ltac:(lia) Hd) as [->| ->].
        -- apply ord_refl.
        -- exact Hbr.
    + destruct (better Z.ltb pol (key (right_son i)) (key i)) eqn:Hbr.
      * right. split; [lia|]. split; [lia|]. split; [lia|]. split; [exact Hdr|].
        split; [exact Hbr|].
        intros k Hk Hd. destruct (Hsons k ltac:(lia) Hd) as [->| ->].
        -- eapply ord_trans; [apply better_ord; exact Hbr|exact Hbl].
        -- apply ord_refl.
      * left. split; [reflexivity|]. split; intros _; auto.
  - destruct (better Z.ltb pol (key (left_son i)) (key i)) eqn:Hbl.
    + right. split; [lia|]. split; [lia|]. split; [lia|]. split; [exact Hdl|].
      split; [exact Hbl|].
      intros k Hk Hd. destruct (Hsons k ltac:(lia) Hd) as [->| ->].
      * apply ord_refl.
      * lia.
    + left. split; [reflexivity|]. split; intros Hx; [auto|lia].
Qed.
