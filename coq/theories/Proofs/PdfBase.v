(* Reflection lemmas for the boolean comparisons of [ROps], and the relation between the
   model's [fsum] (a [fold_left] from [IZR 0]) and a plain recursive sum. *)
From Coq Require Import Reals List ZArith Bool Lia Lra.
From OPF Require Import Base.Lists Base.NumOps Model.Pdf.
Import ListNotations.
Local Open Scope R_scope.

(* ---------- boolean comparisons ---------- *)

Lemma Rltb_true_iff a b : Rltb a b = true <-> a < b.
Proof. unfold Rltb. destruct (Rlt_dec a b) as [Hlt|Hnlt]; split; intro H; auto; discriminate. Qed.

Lemma Rltb_false_iff a b : Rltb a b = false <-> b <= a.
Proof.
  unfold Rltb. destruct (Rlt_dec a b) as [Hlt|Hnlt]; split; intro H; auto; try discriminate.
  - lra.
  - lra.
Qed.

Lemma Reqb_true_iff a b : Reqb a b = true <-> a = b.
Proof. unfold Reqb. destruct (Req_EM_T a b) as [He|Hne]; split; intro H; auto; discriminate. Qed.

Lemma Reqb_false_iff a b : Reqb a b = false <-> a <> b.
Proof.
  unfold Reqb. destruct (Req_EM_T a b) as [He|Hne]; split; intro H; auto; try discriminate.
  contradiction.
Qed.

(* the record projections of [ROps] compute *)
Lemma ROps_add a b : nadd ROps a b = a + b.  Proof. reflexivity. Qed.
Lemma ROps_sub a b : nsub ROps a b = a - b.  Proof. reflexivity. Qed.
Lemma ROps_mul a b : nmul ROps a b = a * b.  Proof. reflexivity. Qed.
Lemma ROps_div a b : ndiv ROps a b = a / b.  Proof. reflexivity. Qed.
Lemma ROps_ltb a b : nltb ROps a b = Rltb a b. Proof. reflexivity. Qed.
Lemma ROps_eqb a b : neqb ROps a b = Reqb a b. Proof. reflexivity. Qed.
Lemma ROps_ofZ z : nofZ ROps z = IZR z. Proof. reflexivity. Qed.

Ltac rops :=
  change (nadd ROps) with Rplus; change (nsub ROps) with Rminus;
  change (nmul ROps) with Rmult; change (ndiv ROps) with Rdiv;
  change (nltb ROps) with Rltb; change (neqb ROps) with Reqb;
  change (nofZ ROps) with IZR.

(* ---------- sums ---------- *)

(* sum_{l < k} f l *)
Fixpoint Rsum_upto (k : nat) (f : nat -> R) : R :=
  match k with
  | O => 0
  | S k' => Rsum_upto k' f + f k'
  end.

Lemma Rsum_upto_ext k f g :
  (forall l, (l < k)%nat -> f l = g l) -> Rsum_upto k f = Rsum_upto k g.
Proof.
  induction k as [|k IH]; intro H; cbn [Rsum_upto]; [reflexivity|].
  rewrite IH by (intros l Hl; apply H; lia). rewrite (H k) by lia. reflexivity.
Qed.

Lemma Rsum_upto_pos k f :
  (1 <= k)%nat -> (forall l, (l < k)%nat -> 0 < f l) -> 0 < Rsum_upto k f.
Proof.
  induction k as [|k IH]; intros Hk H; [lia|]. cbn [Rsum_upto].
  destruct k as [|k'].
  - cbn [Rsum_upto]. specialize (H 0%nat ltac:(lia)). lra.
  - assert (H1 : 0 < Rsum_upto (S k') f) by (apply IH; [lia|intros l Hl; apply H; lia]).
    specialize (H (S k') ltac:(lia)). lra.
Qed.

Lemma Rsum_upto_le k f g :
  (forall l, (l < k)%nat -> f l <= g l) -> Rsum_upto k f <= Rsum_upto k g.
Proof.
  induction k as [|k IH]; intro H; cbn [Rsum_upto]; [lra|].
  assert (H1 : Rsum_upto k f <= Rsum_upto k g) by (apply IH; intros l Hl; apply H; lia).
  specialize (H k ltac:(lia)). lra.
Qed.

Lemma fold_left_Rplus_acc (l : list R) (a : R) :
  fold_left Rplus l a = a + fold_left Rplus l 0.
Proof.
  revert a. induction l as [|x l IH]; intro a; cbn [fold_left].
  - lra.
  - rewrite (IH (a + x)), (IH (0 + x)). lra.
Qed.

Lemma fsum_ROps_nil : fsum ROps [] = 0.
Proof. reflexivity. Qed.

Lemma fsum_ROps_app (l1 l2 : list R) : fsum ROps (l1 ++ l2) = fsum ROps l1 + fsum ROps l2.
Proof.
  unfold fsum. change (nadd ROps) with Rplus. change (nofZ ROps 0) with 0.
  rewrite fold_left_app. apply fold_left_Rplus_acc.
Qed.

Lemma fsum_ROps_seq (e : nat -> R) (k : nat) :
  fsum ROps (map e (seq 0 k)) = Rsum_upto k e.
Proof.
  induction k as [|k IH].
  - reflexivity.
  - rewrite seq_S, map_app, fsum_ROps_app, IH. cbn [Rsum_upto Nat.add map].
    unfold fsum. cbn [fold_left]. change (nadd ROps) with Rplus. change (nofZ ROps 0) with 0. lra.
Qed.

Lemma IZR_of_nat (k : nat) : IZR (Z.of_nat k) = INR k.
Proof. symmetry. apply INR_IZR_INZ. Qed.
