(* What the density-estimation arithmetic of opfython/subgraphs/knn.py (calculate_pdf,
   eliminate_maxima_height) and of the query density in the KNN predicts means over the
   real numbers: theorems about the model Model/Pdf.v instantiated at [ROps]. *)
From Coq Require Import Reals List ZArith Bool Lia Lra.
From OPF Require Import Base.Lists Base.NumOps Model.Pdf Proofs.PdfBase.
Import ListNotations.
Local Open Scope R_scope.

(* pdf i = (sum_{l<k} e i l) / (k + 1) *)
Definition pdfR (k : nat) (e : nat -> nat -> R) (i : nat) : R :=
  Rsum_upto k (e i) / INR (k + 1).

(* ---------- 1. the constant ---------- *)

Lemma pdf_constant_ROps gdens : pdf_constant ROps gdens = 2 * gdens / 9.
Proof. reflexivity. Qed.

(* ---------- 2. one pdf value ---------- *)

Theorem pdf_value_spec (k : nat) (e : nat -> R) :
  pdf_value ROps k e = Rsum_upto k e / INR (k + 1).
Proof.
  unfold pdf_value. rewrite fsum_ROps_seq, ROps_div, ROps_ofZ, IZR_of_nat.
  replace (S k) with (k + 1)%nat by lia. reflexivity.
Qed.

Theorem pdf_formula (k : nat) (c : R) (d : nat -> R) :
  pdf_value ROps k (fun l => exp (- d l / c)) =
  Rsum_upto k (fun l => exp (- d l / c)) / INR (k + 1).
Proof. apply pdf_value_spec. Qed.

Lemma INR_k1_pos k : 0 < INR (k + 1).
Proof. apply lt_0_INR. lia. Qed.

(* with exponential terms every pdf value is positive (k >= 1) and at most k/(k+1) < 1
   when the distances are non-negative and the constant positive *)
Lemma pdf_exp_pos k c (d : nat -> R) :
  (1 <= k)%nat -> 0 < Rsum_upto k (fun l => exp (- d l / c)) / INR (k + 1).
Proof.
  intro Hk. apply Rdiv_lt_0_compat; [|apply INR_k1_pos].
  apply Rsum_upto_pos; [exact Hk|]. intros l _. apply exp_pos.
Qed.

Lemma Rsum_upto_const k x : Rsum_upto k (fun _ => x) = INR k * x.
Proof.
  induction k as [|k IH]; [cbn; lra|].
  cbn [Rsum_upto]. rewrite IH, S_INR. lra.
Qed.

Lemma pdf_exp_lt_1 k c (d : nat -> R) :
  0 < c -> (forall l, (l < k)%nat -> 0 <= d l) ->
  Rsum_upto k (fun l => exp (- d l / c)) / INR (k + 1) < 1.
Proof.
  intros Hc Hd.
  assert (Hs : Rsum_upto k (fun l => exp (- d l / c)) <= INR k * 1).
  { rewrite <- Rsum_upto_const. apply Rsum_upto_le. intros l Hl.
    rewrite <- exp_0. destruct (Req_dec (- d l / c) 0) as [E|E].
    - rewrite E. lra.
    - left. apply exp_increasing.
      assert (H0 : 0 <= d l / c) by (apply Rle_mult_inv_pos; [apply Hd; exact Hl|exact Hc]).
      unfold Rdiv in *. rewrite Ropp_mult_distr_l_reverse in *. lra. }
  pose proof (INR_k1_pos k) as Hp. rewrite plus_INR in *. cbn [INR] in *.
  apply Rmult_lt_reg_r with (INR k + 1); [exact Hp|].
  unfold Rdiv. rewrite Rmult_assoc, Rinv_l by lra. lra.
Qed.

(* ---------- 3. minimum and maximum ---------- *)

Lemma pdf_minmax_gen (l : list R) (fm a b mn mx : R) :
  fold_left (fun st v => let '(mn, mx) := st in
                         (if nltb ROps v mn then v else mn, if nltb ROps mx v then v else mx))
            l (a, b) = (mn, mx) ->
  (mn <= a /\ (forall v, In v l -> mn <= v) /\ (mn = a \/ In mn l)) /\
  (b <= mx /\ (forall v, In v l -> v <= mx) /\ (mx = b \/ In mx l)).
Proof.
  clear fm. revert a b. induction l as [|x l IH]; intros a b Hf.
  - cbn [fold_left] in Hf. inversion Hf; subst. cbn [In]. repeat split; try lra; auto; intros v [].
  - cbn [fold_left] in Hf. apply IH in Hf. change (nltb ROps) with Rltb in Hf.
    assert (Ea : (if Rltb x a then x else a) <= a /\ (if Rltb x a then x else a) <= x /\
                 ((if Rltb x a then x else a) = a \/ (if Rltb x a then x else a) = x)).
    { destruct (Rltb x a) eqn:E; [apply Rltb_true_iff in E | apply Rltb_false_iff in E];
        repeat split; auto; lra. }
    assert (Eb : b <= (if Rltb b x then x else b) /\ x <= (if Rltb b x then x else b) /\
                 ((if Rltb b x then x else b) = b \/ (if Rltb b x then x else b) = x)).
    { destruct (Rltb b x) eqn:E; [apply Rltb_true_iff in E | apply Rltb_false_iff in E];
        repeat split; auto; lra. }
    revert Hf Ea Eb. generalize (if Rltb x a then x else a) (if Rltb b x then x else b).
    intros a' b' [[Ha [Hla Hia]] [Hb [Hlb Hib]]] [Ea1 [Ea2 Ea3]] [Eb1 [Eb2 Eb3]].
    cbn [In]. split; (split; [lra|split]).
    + intros v [Hv|Hv]; [subst v; lra | auto].
    + destruct Hia as [Hia|Hia]; [|auto]. destruct Ea3 as [E|E]; [left|right; left]; congruence.
    + intros v [Hv|Hv]; [subst v; lra | auto].
    + destruct Hib as [Hib|Hib]; [|auto]. destruct Eb3 as [E|E]; [left|right; left]; congruence.
Qed.

Lemma pdf_minmax_fst_snd {A B} (p : A * B) : p = (fst p, snd p).
Proof. destruct p; reflexivity. Qed.

Lemma in_pdf_list k e n v :
  In v (map (pdfR k e) (seq 0 n)) <-> exists i, (i < n)%nat /\ v = pdfR k e i.
Proof.
  rewrite in_map_iff. split.
  - intros [i [Hv Hi]]. apply in_seq in Hi. exists i. split; [lia|auto].
  - intros [i [Hi Hv]]. exists i. split; [auto|]. apply in_seq. lia.
Qed.

Lemma calculate_pdf_unfold fmax maxd n k gdens e :
  calculate_pdf ROps fmax maxd n k gdens e =
  let pdf := map (pdfR k e) (seq 0 n) in
  let mm := pdf_minmax ROps fmax pdf in
  (2 * gdens / 9, fst mm, snd mm, pdf_scale ROps maxd (fst mm) (snd mm) pdf).
Proof.
  unfold calculate_pdf.
  rewrite (map_ext (fun i => pdf_value ROps k (e i)) (pdfR k e))
    by (intro i; apply pdf_value_spec).
  cbv zeta. destruct (pdf_minmax ROps fmax (map (pdfR k e) (seq 0 n))) as [mn mx].
  reflexivity.
Qed.

Section CalculatePdf.
  Variables (fmax : R) (n k : nat) (gdens : R) (e : nat -> nat -> R).
  Variables (c mn mx : R) (dc : list (R * R)).
  Hypothesis Hn : (1 <= n)%nat.
  Hypothesis Hcalc : calculate_pdf ROps fmax 1000 n k gdens e = (c, mn, mx, dc).

  Let pdf := pdfR k e.
  Let dens (i : nat) : R := fst (nth i dc (0, 0)).
  Let cost (i : nat) : R := snd (nth i dc (0, 0)).

  Theorem pdf_constant_spec : c = 2 * gdens / 9.
  Proof. rewrite calculate_pdf_unfold in Hcalc. cbv zeta in Hcalc. inversion Hcalc. reflexivity. Qed.

  Lemma calc_minmax : pdf_minmax ROps fmax (map pdf (seq 0 n)) = (mn, mx).
  Proof.
    rewrite calculate_pdf_unfold in Hcalc. cbv zeta in Hcalc. inversion Hcalc.
    apply pdf_minmax_fst_snd.
  Qed.

  Lemma calc_scale : dc = pdf_scale ROps 1000 mn mx (map pdf (seq 0 n)).
  Proof.
    pose proof calc_minmax as Hmm.
    rewrite calculate_pdf_unfold in Hcalc. cbv zeta in Hcalc. fold pdf in Hcalc.
    rewrite Hmm in Hcalc. cbn [fst snd] in Hcalc. inversion Hcalc. reflexivity.
  Qed.

  (* lower/upper bounds hold unconditionally (even without the fmax hypothesis) *)
  Lemma pdf_min_lower : forall i, (i < n)%nat -> mn <= pdf i.
  Proof.
    intros i Hi. pose proof calc_minmax as Hmm. unfold pdf_minmax in Hmm.
    apply (pdf_minmax_gen _ 0) in Hmm. destruct Hmm as [[_ [H _]] _].
    apply H. apply in_pdf_list. exists i. auto.
  Qed.

  Lemma pdf_max_upper : forall i, (i < n)%nat -> pdf i <= mx.
  Proof.
    intros i Hi. pose proof calc_minmax as Hmm. unfold pdf_minmax in Hmm.
    apply (pdf_minmax_gen _ 0) in Hmm. destruct Hmm as [_ [_ [H _]]].
    apply H. apply in_pdf_list. exists i. auto.
  Qed.

  Lemma dc_length : length dc = n.
  Proof.
    rewrite calc_scale. unfold pdf_scale.
    destruct (neqb ROps mn mx); rewrite !map_length, seq_length; reflexivity.
  Qed.

  Section Bounded.
    (* c.FLOAT_MAX bounds every pdf value *)
    Hypothesis Hfmax : forall i, (i < n)%nat -> - fmax <= pdf i <= fmax.

    Lemma pdf_min_attained : exists i, (i < n)%nat /\ mn = pdf i.
    Proof.
      pose proof calc_minmax as Hmm. unfold pdf_minmax in Hmm.
      apply (pdf_minmax_gen _ 0) in Hmm. destruct Hmm as [[Ha [Hl Hi]] _].
      destruct Hi as [Hi|Hi].
      - exists 0%nat. split; [lia|]. pose proof (Hfmax 0%nat ltac:(lia)) as H0.
        pose proof (pdf_min_lower 0%nat ltac:(lia)) as H1. lra.
      - apply in_pdf_list in Hi. exact Hi.
    Qed.

    Lemma pdf_max_attained : exists i, (i < n)%nat /\ mx = pdf i.
    Proof.
      pose proof calc_minmax as Hmm. unfold pdf_minmax in Hmm.
      apply (pdf_minmax_gen _ 0) in Hmm. destruct Hmm as [_ [Hb [Hl Hi]]].
      destruct Hi as [Hi|Hi].
      - exists 0%nat. split; [lia|]. pose proof (Hfmax 0%nat ltac:(lia)) as H0.
        pose proof (pdf_max_upper 0%nat ltac:(lia)) as H1.
        rewrite ROps_sub, ROps_ofZ in Hi. lra.
      - apply in_pdf_list in Hi. exact Hi.
    Qed.

    Theorem pdf_minmax_spec :
      (exists i, (i < n)%nat /\ mn = pdf i) /\ (forall i, (i < n)%nat -> mn <= pdf i) /\
      (exists i, (i < n)%nat /\ mx = pdf i) /\ (forall i, (i < n)%nat -> pdf i <= mx).
    Proof.
      split; [exact pdf_min_attained|]. split; [exact pdf_min_lower|].
      split; [exact pdf_max_attained|exact pdf_max_upper].
    Qed.

    Lemma pdf_min_le_max : mn <= mx.
    Proof.
      pose proof (pdf_min_lower 0%nat ltac:(lia)). pose proof (pdf_max_upper 0%nat ltac:(lia)). lra.
    Qed.

    (* mn = mx exactly when all pdf values coincide *)
    Lemma pdf_flat_iff : mn = mx <-> (forall i j, (i < n)%nat -> (j < n)%nat -> pdf i = pdf j).
    Proof.
      split.
      - intros E i j Hi Hj.
        pose proof (pdf_min_lower i Hi). pose proof (pdf_max_upper i Hi).
        pose proof (pdf_min_lower j Hj). pose proof (pdf_max_upper j Hj). lra.
      - intro H. destruct pdf_min_attained as [i [Hi Ei]]. destruct pdf_max_attained as [j [Hj Ej]].
        rewrite Ei, Ej. apply H; assumption.
    Qed.
  End Bounded.

  (* ---------- 4. the affine map ---------- *)

  Lemma nth_dc_lt i :
    mn <> mx -> (i < n)%nat ->
    nth i dc (0, 0) = (999 * (pdf i - mn) / (mx - mn) + 1, 999 * (pdf i - mn) / (mx - mn) + 1 - 1).
  Proof.
    intros Hne Hi. rewrite calc_scale. unfold pdf_scale. rewrite ROps_eqb.
    apply Reqb_false_iff in Hne. rewrite Hne. rewrite map_map.
    change (map ?f (seq 0 n)) with (tabulate f n). rewrite nth_tabulate by exact Hi.
    reflexivity.
  Qed.

  Lemma nth_dc_eq i :
    mn = mx -> (i < n)%nat -> nth i dc (0, 0) = (1000, 999).
  Proof.
    intros He Hi. rewrite calc_scale. unfold pdf_scale. rewrite ROps_eqb.
    apply Reqb_true_iff in He. rewrite He. rewrite map_map.
    change (map ?f (seq 0 n)) with (tabulate f n). rewrite nth_tabulate by exact Hi.
    reflexivity.
  Qed.

  Theorem density_affine i :
    mn < mx -> (i < n)%nat ->
    dens i = 1 + (1000 - 1) * (pdf i - mn) / (mx - mn) /\ cost i = dens i - 1.
  Proof.
    intros Hlt Hi. unfold dens, cost. rewrite nth_dc_lt by (auto; lra). cbn [fst snd].
    split; [|reflexivity]. replace (1000 - 1) with 999 by lra. lra.
  Qed.

  Theorem density_flat i :
    mn = mx -> (i < n)%nat -> dens i = 1000 /\ cost i = 999.
  Proof.
    intros He Hi. unfold dens, cost. rewrite nth_dc_eq by auto. cbn [fst snd]. auto.
  Qed.

  Theorem cost_density i : (i < n)%nat -> cost i = dens i - 1.
  Proof.
    intro Hi. destruct (Req_dec mn mx) as [He|Hne].
    - destruct (density_flat i He Hi) as [Hd Hc]. rewrite Hd, Hc. lra.
    - unfold dens, cost. rewrite nth_dc_lt by auto. reflexivity.
  Qed.

  Theorem cost_lt_density i : (i < n)%nat -> cost i < dens i.
  Proof. intro Hi. rewrite cost_density by exact Hi. lra. Qed.

  Lemma dens_diff i j :
    mn < mx -> (i < n)%nat -> (j < n)%nat ->
    dens j - dens i = 999 * (pdf j - pdf i) * / (mx - mn).
  Proof.
    intros Hlt Hi Hj.
    destruct (density_affine i Hlt Hi) as [Ei _]. destruct (density_affine j Hlt Hj) as [Ej _].
    rewrite Ei, Ej. field. lra.
  Qed.

  Theorem density_strict_mono i j :
    mn < mx -> (i < n)%nat -> (j < n)%nat -> pdf i < pdf j -> dens i < dens j.
  Proof.
    intros Hlt Hi Hj Hp. pose proof (dens_diff i j Hlt Hi Hj) as Hd.
    assert (Hr : 0 < / (mx - mn)) by (apply Rinv_0_lt_compat; lra).
    assert (H0 : 0 < 999 * (pdf j - pdf i) * / (mx - mn)).
    { apply Rmult_lt_0_compat; [lra|exact Hr]. }
    lra.
  Qed.

  Theorem density_eq_compat i j :
    (i < n)%nat -> (j < n)%nat -> pdf i = pdf j -> dens i = dens j.
  Proof.
    intros Hi Hj Hp. destruct (Req_dec mn mx) as [He|Hne].
    - destruct (density_flat i He Hi) as [Ei _]. destruct (density_flat j He Hj) as [Ej _]. lra.
    - unfold dens. rewrite !nth_dc_lt by auto. cbn [fst]. rewrite Hp. reflexivity.
  Qed.

  Theorem density_mono i j :
    (i < n)%nat -> (j < n)%nat -> pdf i <= pdf j -> dens i <= dens j.
  Proof.
    intros Hi Hj [Hp|Hp].
    - destruct (Req_dec mn mx) as [He|Hne].
      + destruct (density_flat i He Hi) as [Ei _]. destruct (density_flat j He Hj) as [Ej _]. lra.
      + pose proof (pdf_min_lower i Hi). pose proof (pdf_max_upper j Hj).
        left. apply density_strict_mono; auto. lra.
    - right. apply density_eq_compat; auto.
  Qed.

  (* order is reflected as well: the map is an order embedding when mn < mx *)
  Theorem density_lt_iff i j :
    mn < mx -> (i < n)%nat -> (j < n)%nat -> (dens i < dens j <-> pdf i < pdf j).
  Proof.
    intros Hlt Hi Hj. split; [|apply density_strict_mono; auto].
    intro Hd. destruct (Rlt_le_dec (pdf i) (pdf j)) as [H|H]; [exact H|].
    pose proof (density_mono j i Hj Hi H). lra.
  Qed.

  Theorem density_eq_iff i j :
    mn < mx -> (i < n)%nat -> (j < n)%nat -> (dens i = dens j <-> pdf i = pdf j).
  Proof.
    intros Hlt Hi Hj. split; [|apply density_eq_compat; auto].
    intro Hd. destruct (Rtotal_order (pdf i) (pdf j)) as [H|[H|H]]; [|exact H|].
    - pose proof (density_strict_mono i j Hlt Hi Hj H). lra.
    - pose proof (density_strict_mono j i Hlt Hj Hi H). lra.
  Qed.

  Theorem density_min_to_1 i :
    mn < mx -> (i < n)%nat -> pdf i = mn -> dens i = 1.
  Proof.
    intros Hlt Hi Hp. destruct (density_affine i Hlt Hi) as [Ei _]. rewrite Ei, Hp. field. lra.
  Qed.

  Theorem density_max_to_maxd i :
    mn < mx -> (i < n)%nat -> pdf i = mx -> dens i = 1000.
  Proof.
    intros Hlt Hi Hp. destruct (density_affine i Hlt Hi) as [Ei _]. rewrite Ei, Hp. field. lra.
  Qed.

  Theorem density_range i : (i < n)%nat -> 1 <= dens i <= 1000.
  Proof.
    intro Hi. destruct (Req_dec mn mx) as [He|Hne].
    - destruct (density_flat i He Hi) as [Ei _]. lra.
    - pose proof (pdf_min_lower i Hi) as Hlo. pose proof (pdf_max_upper i Hi) as Hhi.
      assert (Hlt : mn < mx) by lra.
      destruct (density_affine i Hlt Hi) as [Ei _].
      assert (Hr : 0 < / (mx - mn)) by (apply Rinv_0_lt_compat; lra).
      assert (H0 : 0 <= (pdf i - mn) * / (mx - mn)).
      { apply Rmult_le_pos; lra. }
      assert (H1 : (mx - pdf i) * / (mx - mn) >= 0).
      { apply Rle_ge. apply Rmult_le_pos; lra. }
      assert (H2 : (mx - mn) * / (mx - mn) = 1) by (apply Rinv_r; lra).
      rewrite Ei. unfold Rdiv. lra.
  Qed.

  Theorem cost_range i : (i < n)%nat -> 0 <= cost i <= 999.
  Proof. intro Hi. rewrite cost_density by exact Hi. pose proof (density_range i Hi). lra. Qed.
End CalculatePdf.

(* ---------- 5. eliminate_maxima_height ---------- *)

Theorem eliminate_spec_pos (h : R) (dens cost : list R) :
  0 < h -> eliminate_maxima ROps h dens cost = map (fun d => Rmax (d - h) 0) dens.
Proof.
  intro Hh. unfold eliminate_maxima. rops.
  apply Rltb_true_iff in Hh. rewrite Hh. apply map_ext. intro d.
  cbv zeta.
  destruct (Rltb (d - h) 0) eqn:E; [apply Rltb_true_iff in E | apply Rltb_false_iff in E].
  - rewrite Rmax_right by lra. reflexivity.
  - rewrite Rmax_left by lra. reflexivity.
Qed.

Theorem eliminate_spec_nonpos (h : R) (dens cost : list R) :
  h <= 0 -> eliminate_maxima ROps h dens cost = cost.
Proof.
  intro Hh. unfold eliminate_maxima. rops.
  apply Rltb_false_iff in Hh. rewrite Hh. reflexivity.
Qed.

Theorem eliminate_spec (h : R) (dens cost : list R) :
  (0 < h -> eliminate_maxima ROps h dens cost = map (fun d => Rmax (d - h) 0) dens) /\
  (h <= 0 -> eliminate_maxima ROps h dens cost = cost).
Proof. split; [apply eliminate_spec_pos|apply eliminate_spec_nonpos]. Qed.

(* consequences used by clustering: new costs are non-negative, at most the density, and
   strictly below it *)
Lemma eliminate_nth (h : R) (dens cost : list R) i :
  0 < h -> (i < length dens)%nat ->
  nth i (eliminate_maxima ROps h dens cost) 0 = Rmax (nth i dens 0 - h) 0.
Proof.
  intros Hh Hi. rewrite eliminate_spec_pos by exact Hh.
  rewrite (nth_indep _ 0 (Rmax (0 - h) 0)) by (rewrite map_length; exact Hi).
  exact (map_nth (fun d => Rmax (d - h) 0) dens 0 i).
Qed.

Lemma eliminate_cost_lt_density (h : R) (dens cost : list R) i :
  0 < h -> (i < length dens)%nat -> 0 < nth i dens 0 ->
  0 <= nth i (eliminate_maxima ROps h dens cost) 0 < nth i dens 0.
Proof.
  intros Hh Hi Hd. rewrite eliminate_nth by auto. split; [apply Rmax_r|].
  apply Rmax_lub_lt; lra.
Qed.

(* ---------- 6. query density ---------- *)

(* the affine map applied to a query's mean exp-term [s] *)
Definition qdens (eps mn mx s : R) : R := (s - mn) * (1000 - 1) / (mx - mn + eps) + 1.

Theorem query_density_spec (eps mn mx : R) (k : nat) (e : nat -> R) :
  query_density ROps 1000 eps mn mx k e =
  (Rsum_upto k e / INR k - mn) * (1000 - 1) / (mx - mn + eps) + 1.
Proof.
  unfold query_density. cbv zeta.
  rewrite fsum_ROps_seq. rops. rewrite IZR_of_nat.
  change (IZR (1000 - 1)) with 999.
  unfold Rdiv. ring.
Qed.

(* exactly the expression tree that is evaluated, without reassociation *)
Theorem query_density_tree (eps mn mx : R) (k : nat) (e : nat -> R) :
  query_density ROps 1000 eps mn mx k e =
  999 * (Rsum_upto k e / INR k - mn) / ((mx - mn) + eps) + 1.
Proof.
  unfold query_density. cbv zeta.
  rewrite fsum_ROps_seq. rops. rewrite IZR_of_nat.
  reflexivity.
Qed.

Lemma query_density_qdens (eps mn mx : R) (k : nat) (e : nat -> R) :
  query_density ROps 1000 eps mn mx k e = qdens eps mn mx (Rsum_upto k e / INR k).
Proof. rewrite query_density_spec. reflexivity. Qed.

Theorem query_denominator_pos (eps mn mx : R) : 0 < eps -> mn <= mx -> 0 < mx - mn + eps.
Proof. intros; lra. Qed.

Theorem qdens_strict_mono (eps mn mx s t : R) :
  0 < eps -> mn <= mx -> s < t -> qdens eps mn mx s < qdens eps mn mx t.
Proof.
  intros He Hm Hst. unfold qdens.
  assert (Hr : 0 < / (mx - mn + eps)) by (apply Rinv_0_lt_compat; lra).
  assert (H0 : 0 < (t - s) * / (mx - mn + eps)) by (apply Rmult_lt_0_compat; lra).
  unfold Rdiv. lra.
Qed.

Theorem qdens_lt_iff (eps mn mx s t : R) :
  0 < eps -> mn <= mx -> (qdens eps mn mx s < qdens eps mn mx t <-> s < t).
Proof.
  intros He Hm. split; [|apply qdens_strict_mono; auto].
  intro H. destruct (Rtotal_order s t) as [Hst|[Hst|Hst]]; [exact Hst| |].
  - subst t. lra.
  - pose proof (qdens_strict_mono eps mn mx t s He Hm Hst). lra.
Qed.

Theorem qdens_range (eps mn mx s : R) :
  0 < eps -> mn <= s <= mx -> 1 <= qdens eps mn mx s < 1000.
Proof.
  intros He [Hlo Hhi]. unfold qdens.
  assert (Hr : 0 < / (mx - mn + eps)) by (apply Rinv_0_lt_compat; lra).
  assert (H0 : 0 <= (s - mn) * / (mx - mn + eps)) by (apply Rmult_le_pos; lra).
  assert (H1 : 0 < (mx - s + eps) * / (mx - mn + eps)) by (apply Rmult_lt_0_compat; lra).
  assert (H2 : (mx - mn + eps) * / (mx - mn + eps) = 1) by (apply Rinv_r; lra).
  unfold Rdiv. lra.
Qed.

(* a query whose mean falls outside the fitted range leaves [1, 1000) accordingly *)
Theorem qdens_below (eps mn mx s : R) :
  0 < eps -> mn <= mx -> s < mn -> qdens eps mn mx s < 1.
Proof.
  intros He Hm Hs. pose proof (qdens_strict_mono eps mn mx s mn He Hm Hs) as H.
  replace (qdens eps mn mx mn) with 1 in H; [exact H|].
  unfold qdens. field. lra.
Qed.

Theorem query_density_props (eps mn mx : R) (k : nat) (e e' : nat -> R) :
  0 < eps -> mn <= mx ->
  let s := Rsum_upto k e / INR k in
  let s' := Rsum_upto k e' / INR k in
  0 < mx - mn + eps /\
  (s < s' -> query_density ROps 1000 eps mn mx k e < query_density ROps 1000 eps mn mx k e') /\
  (mn <= s <= mx -> 1 <= query_density ROps 1000 eps mn mx k e < 1000).
Proof.
  intros He Hm s s'. rewrite !query_density_qdens. fold s s'.
  split; [lra|]. split.
  - apply qdens_strict_mono; auto.
  - apply qdens_range; auto.
Qed.

(* C14: the query density is computed from the k distances with the constant, minimum
   and maximum stored by calculate_pdf *)
Theorem query_density_of_fit fmax n k gdens e c mn mx dc eps kq (d : nat -> R) :
  (1 <= n)%nat ->
  calculate_pdf ROps fmax 1000 n k gdens e = (c, mn, mx, dc) ->
  0 < eps ->
  let s := Rsum_upto kq (fun l => exp (- d l / c)) / INR kq in
  let q := query_density ROps 1000 eps mn mx kq (fun l => exp (- d l / c)) in
  c = 2 * gdens / 9 /\
  q = (s - mn) * (1000 - 1) / (mx - mn + eps) + 1 /\
  0 < mx - mn + eps /\
  (mn <= s <= mx -> 1 <= q < 1000) /\
  (s < mn -> q < 1) /\
  (mx < s -> (1000 - 1) * (mx - mn) / (mx - mn + eps) + 1 < q).
Proof.
  intros Hn Hcalc He s q.
  assert (Hm : mn <= mx).
  { pose proof (pdf_min_lower fmax n k gdens e c mn mx dc Hcalc 0%nat ltac:(lia)).
    pose proof (pdf_max_upper fmax n k gdens e c mn mx dc Hcalc 0%nat ltac:(lia)). lra. }
  split; [eapply pdf_constant_spec; eassumption|].
  unfold q. rewrite query_density_qdens. fold s.
  split; [reflexivity|]. split; [lra|]. split; [apply qdens_range; auto|].
  split; [apply qdens_below; auto|].
  intro Hs. pose proof (qdens_strict_mono eps mn mx mx s He Hm Hs) as H.
  unfold qdens in H. unfold qdens.
  replace ((1000 - 1) * (mx - mn) / (mx - mn + eps)) with ((mx - mn) * (1000 - 1) / (mx - mn + eps))
    by (unfold Rdiv; ring).
  exact H.
Qed.

(* ---------- calculate_pdf followed by eliminate_maxima_height ---------- *)

Theorem fit_eliminate_spec fmax n k gdens e c mn mx dc h i :
  (1 <= n)%nat ->
  calculate_pdf ROps fmax 1000 n k gdens e = (c, mn, mx, dc) ->
  (i < n)%nat ->
  let dens := map fst dc in
  let cost := map snd dc in
  let cost' := eliminate_maxima ROps h dens cost in
  nth i dens 0 = fst (nth i dc (0, 0)) /\
  (0 < h -> nth i cost' 0 = Rmax (nth i dens 0 - h) 0 /\ 0 <= nth i cost' 0 < nth i dens 0) /\
  (h <= 0 -> nth i cost' 0 = nth i dens 0 - 1 /\ 0 <= nth i cost' 0 < nth i dens 0).
Proof.
  intros Hn Hcalc Hi dens cost cost'.
  pose proof (dc_length fmax n k gdens e c mn mx dc Hcalc) as Hlen.
  assert (Hd : nth i dens 0 = fst (nth i dc (0, 0))).
  { unfold dens. change 0 with (fst (0, 0)) at 1. apply map_nth. }
  assert (Hc : nth i cost 0 = snd (nth i dc (0, 0))).
  { unfold cost. change 0 with (snd (0, 0)) at 1. apply map_nth. }
  pose proof (density_range fmax n k gdens e c mn mx dc Hcalc i Hi) as Hr.
  pose proof (cost_density fmax n k gdens e c mn mx dc Hcalc i Hi) as Hcd.
  split; [exact Hd|]. split; intro Hh.
  - assert (Hl : (i < length dens)%nat) by (unfold dens; rewrite map_length; lia).
    split; [apply eliminate_nth; auto|].
    apply eliminate_cost_lt_density; auto. rewrite Hd. lra.
  - unfold cost'. rewrite eliminate_spec_nonpos by exact Hh. rewrite Hc, Hd, Hcd. lra.
Qed.
