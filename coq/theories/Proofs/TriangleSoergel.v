(* Triangle inequality: soergel on strictly positive vectors.
   With D = L1 distance, N = sum of entries:  2 * sum2 Rmax x y = N x + N y + D x y, hence
   sp_soergel x y = 2 D / (N x + N y + D), the Steinhaus transform of L1 with base point 0. *)
From Coq Require Import Reals List Lra Lia.
From OPF Require Import Spec.MetricSpec Proofs.TriangleLemmas Proofs.TriangleL1.
Import ListNotations.
Open Scope R_scope.

Lemma Rmax_abs a b : 2 * Rmax a b = a + b + Rabs (a - b).
Proof.
  unfold Rmax, Rabs. destruct (Rle_dec a b) as [H | H]; destruct (Rcase_abs (a - b)) as [H' | H']; lra.
Qed.

Lemma sum2_Rmax_abs : forall x y, length x = length y ->
  2 * sum2 Rmax x y = sum x + sum y + sp_manhattan x y.
Proof.
  unfold sp_manhattan.
  apply (list2_ind (fun x y => 2 * sum2 Rmax x y = sum x + sum y + sum2 (fun a b => Rabs (a - b)) x y)).
  - rewrite !sum2_nil_nil. cbv [sum fold_right]. lra.
  - intros a b x y _ IH. rewrite !sum2_cons, !sum_cons. pose proof (Rmax_abs a b). lra.
Qed.

Lemma sum_le_manhattan : forall x y, length x = length y ->
  sum y <= sum x + sp_manhattan x y /\ sum x <= sum y + sp_manhattan x y.
Proof.
  unfold sp_manhattan.
  apply (list2_ind (fun x y => sum y <= sum x + sum2 (fun a b => Rabs (a - b)) x y /\
                               sum x <= sum y + sum2 (fun a b => Rabs (a - b)) x y)).
  - rewrite !sum2_nil_nil. cbv [sum fold_right]. lra.
  - intros a b x y _ [IH1 IH2]. rewrite !sum2_cons, !sum_cons.
    assert (b <= a + Rabs (a - b) /\ a <= b + Rabs (a - b)) as [H1 H2].
    { unfold Rabs. destruct (Rcase_abs (a - b)); lra. }
    lra.
Qed.

Lemma manhattan_nonneg x y : 0 <= sp_manhattan x y.
Proof. apply sum2_nonneg. intros a b. apply Rabs_pos. Qed.

(* scalar core: a, b, c = N x, N y, N z;  p, q, r = D x y, D y z, D x z *)
Lemma soergel_scalar a b c p q r M1 M2 M3 :
  0 < a -> 0 < b -> 0 < c -> 0 <= p -> 0 <= q -> 0 <= r ->
  r <= p + q -> b <= c + q -> b <= a + p ->
  2 * M1 = a + b + p -> 2 * M2 = b + c + q -> 2 * M3 = a + c + r ->
  r / M3 <= p / M1 + q / M2.
Proof.
  intros Ha Hb Hc Hp Hq Hr Hrpq Hbc Hba HM1 HM2 HM3.
  set (s := a + c + p + q).
  assert (0 < s) as Hs by (unfold s; lra).
  assert (r / M3 <= 2 * (p + q) / s) as H1.
  { replace (r / M3) with (2 * r / (a + c + r)) by (rewrite <- HM3; field; lra).
    (* 2r/(a+c+r) <= 2(p+q)/s  <=>  r (a+c) <= (p+q)(a+c) *)
    assert (2 * (p + q) / s - 2 * r / (a + c + r) =
            2 * ((p + q - r) * (a + c)) / (s * (a + c + r))) as E by (unfold s; field; lra).
    assert (0 <= 2 * ((p + q - r) * (a + c)) / (s * (a + c + r))) as Hq0.
    { apply Rmult_le_pos.
      - apply Rmult_le_pos; [lra|]. apply Rmult_le_pos; lra.
      - left. apply Rinv_0_lt_compat. apply Rmult_lt_0_compat; lra. }
    lra. }
  assert (2 * p / s <= p / M1) as H2.
  { replace (p / M1) with (2 * p / (a + b + p)) by (rewrite <- HM1; field; lra).
    assert (2 * p / (a + b + p) - 2 * p / s = 2 * (p * (c + q - b)) / (s * (a + b + p))) as E
      by (unfold s; field; lra).
    assert (0 <= 2 * (p * (c + q - b)) / (s * (a + b + p))) as Hq0.
    { apply Rmult_le_pos.
      - apply Rmult_le_pos; [lra|]. apply Rmult_le_pos; lra.
      - left. apply Rinv_0_lt_compat. apply Rmult_lt_0_compat; lra. }
    lra. }
  assert (2 * q / s <= q / M2) as H3.
  { replace (q / M2) with (2 * q / (b + c + q)) by (rewrite <- HM2; field; lra).
    assert (2 * q / (b + c + q) - 2 * q / s = 2 * (q * (a + p - b)) / (s * (b + c + q))) as E
      by (unfold s; field; lra).
    assert (0 <= 2 * (q * (a + p - b)) / (s * (b + c + q))) as Hq0.
    { apply Rmult_le_pos.
      - apply Rmult_le_pos; [lra|]. apply Rmult_le_pos; lra.
      - left. apply Rinv_0_lt_compat. apply Rmult_lt_0_compat; lra. }
    lra. }
  assert (2 * (p + q) / s = 2 * p / s + 2 * q / s) as E by (field; lra).
  lra.
Qed.

Lemma triangle_soergel : forall x y z,
  length x = length y -> length y = length z -> (1 <= length x)%nat ->
  all_pos x -> all_pos y -> all_pos z ->
  sp_soergel x z <= sp_soergel x y + sp_soergel y z.
Proof.
  intros x y z Hxy Hyz Hl Hx Hy Hz. unfold sp_soergel.
  assert (length x = length z) as Hxz by lia.
  fold (sp_manhattan x z). fold (sp_manhattan x y). fold (sp_manhattan y z).
  apply (soergel_scalar (sum x) (sum y) (sum z)).
  - apply sum_pos; auto.
  - apply sum_pos; auto; lia.
  - apply sum_pos; auto; lia.
  - apply manhattan_nonneg.
  - apply manhattan_nonneg.
  - apply manhattan_nonneg.
  - apply triangle_manhattan; auto.
  - apply (sum_le_manhattan y z Hyz).
  - apply (sum_le_manhattan x y Hxy).
  - apply sum2_Rmax_abs; auto.
  - apply sum2_Rmax_abs; auto.
  - apply sum2_Rmax_abs; auto.
Qed.
