(* Negative controls, dedicated lemmas and the limits of the sign analysis (C08, robustness part).

   1. Negative control: the pre-fix chord body `sqrt (2 - 2 * r)` (hand-written IR, [old_chord_ir]) is
      REJECTED by the checker, and a concrete admissible rounding [rndP] (it rounds the cosine ratio
      1 up to 2) makes its rounded evaluation undefined: sqrt of -2.  The fixed body
      `np.maximum(dist, 0) ** 0.5` is accepted (Proofs/RobustSignTable.v, [robust_defined_chord]).
   2. Dedicated results for the two metrics of the `real` domain the checker rejects:
      - mean_censored_euclidean divides by `count_nonzero(x + y != 0)`.  On the real domain this IS a
        division by zero, already in exact arithmetic ([mean_censored_refuted], rnd = identity,
        x = [0], y = [-2 EPSILON]; in binary64 x = [1.], y = [-1.] raises ZeroDivisionError).
        On non-negative user vectors the shifted entries are > 0, the count is the length: accepted
        by the checker extended with the count rule ([robust_check_cnt]).
      - hassanat: on non-negative user vectors the generic checker accepts it.  On the real domain
        the divisor `rnd (rnd (1 + max) + |min|)` is not sign-determined by the rounding model:
        [hassanat_model_limit] exhibits an admissible rounding (negatives doubled) and an input for
        which it is 0.  (In binary64 the same happens by absorption: x = y = [-1e17] raises
        ZeroDivisionError, 1 + -1e17 = -1e17.)
   3. jaccard: the divisor `rnd (rnd (Sx2 + Sy2) - Sxy)` is a rounded subtraction; it is positive in
      exact arithmetic (AM-GM) but [jaccard_model_limit] exhibits an admissible (plateau) rounding for
      which it is 0.  jaccard is NOT covered by this analysis; a proof needs a relative-error model. *)
From Coq Require Import Reals QArith Qreals String List Lra Lia Bool ZArith.
From OPF Require Import Model.Consts Model.Effects Spec.MetricSpec Gen.Consts_gen Model.MetricIR
     Gen.Metrics_gen Gen.Decorator_gen Model.MetricRnd Proofs.IRLemmas Proofs.RobustSign Proofs.RobustSignTable.
Import ListNotations.
Open Scope R_scope.

Lemma EPS_pos : 0 < EPSILON.
Proof. unfold EPSILON. apply Rinv_0_lt_compat. apply pow_lt. lra. Qed.

Lemma dec_okR rnd x y :
  dec_applyR rnd decorator_params decorator_body [x; y]
  = Some [map (fun a => rnd (a + EPSILON)) x; map (fun a => rnd (a + EPSILON)) y].
Proof. cbn. unfold add_constR. rewrite cval_eps. reflexivity. Qed.

Ltac ev_open m :=
  unfold metric_rnd, evalRnd_wrapped, evalRnd_wrapped_with, wrapR, m;
  cbn [m_avoid_zero]; rewrite ?dec_okR; cbv beta iota; unfold eval_bodyR; cbn [m_body m_params map].

Ltac ev_step :=
  cbn [evalSR evalVR map2 oseq obind obind2 binRnd unRnd powRnd rsum fold_left lmax countne map fst snd].

Definition old_chord_ir : metric_ir :=
  {| m_name := "chord_distance"; m_avoid_zero := true; m_njit := true;
     m_params := [("x"%string, None); ("y"%string, None)];
     m_body :=
       SPowC (SBin BSub (SConstQ (2 # 1))
                (SBin BMul (SConstQ (2 # 1))
                   (SBin BDiv (SSum (VBin BMul VX VY))
                      (SBin BMul (SPowC (SSum (VPowC VX PTwo)) PHalf)
                                 (SPowC (SSum (VPowC VY PTwo)) PHalf))))) PHalf |}.

Definition rndP (a : R) : R :=
  if Rle_dec (/ 2) a then (if Rle_dec a 2 then 2 else a) else a.

Lemma rndP_rounding : rounding rndP.
Proof.
  unfold rndP. constructor.
  - intros a b H. destruct (Rle_dec (/2) a), (Rle_dec a 2), (Rle_dec (/2) b), (Rle_dec b 2); lra.
  - destruct (Rle_dec (/2) 0), (Rle_dec 0 2); lra.
  - intros a H. destruct (Rle_dec (/2) a), (Rle_dec a 2); lra.
  - intros a H. destruct (Rle_dec (/2) a), (Rle_dec a 2); lra.
Qed.

Lemma rndP_big a : 2 < a -> rndP a = a.
Proof. intros H. unfold rndP. destruct (Rle_dec (/2) a), (Rle_dec a 2); lra. Qed.
Lemma rndP_small a : a < /2 -> rndP a = a.
Proof. intros H. unfold rndP. destruct (Rle_dec (/2) a), (Rle_dec a 2); lra. Qed.
Lemma rndP_one : rndP 1 = 2.
Proof. unfold rndP. destruct (Rle_dec (/2) 1), (Rle_dec 1 2); lra. Qed.

Lemma old_chord_undefined : metric_rnd rndP old_chord_ir [3] [3] = None.
Proof.
  ev_open old_chord_ir.
  pose proof EPS_pos as HE.
  rewrite (rndP_big (3 + EPSILON)) by lra.
  set (t := 3 + EPSILON). assert (Ht : 3 < t) by (unfold t; lra). clearbody t.
  ev_step.
  assert (H2 : 2 < t ^ 2) by nra. assert (H3 : 2 < t * t) by nra.
  rewrite (rndP_big (t ^ 2) H2), (rndP_big (t * t) H3).
  destruct (Rlt_dec (t ^ 2) 0) as [Hn|_]; [lra|].
  rewrite (sqrt_pow2 t) by lra. rewrite (rndP_big t) by lra.
  ev_step. rewrite (rndP_big (t * t) H3).
  destruct (Req_EM_T (t * t) 0) as [Hz|_]; [lra|].
  replace (t * t / (t * t)) with 1 by (field; lra).
  rewrite rndP_one, Q2R_Z. replace (2 * 2) with 4 by ring. rewrite (rndP_big 4) by lra.
  replace (2 - 4) with (-2) by ring. rewrite (rndP_small (-2)) by lra.
  ev_step. destruct (Rlt_dec (-2) 0) as [_|Hn]; [reflexivity | lra].
Qed.


(* ---- mean_censored on the real domain ---- *)
Definition rndI (a : R) : R := a.
Lemma rndI_rounding : rounding rndI.
Proof. unfold rndI. constructor; intros; lra. Qed.

Lemma call_sqeR rnd x y :
  call_fuelR rnd all_metrics_ir decorator_params decorator_body call_depth "squared_euclidean_distance" x y
  = evalSR rnd (call_fuelR rnd all_metrics_ir decorator_params decorator_body 2)
           (param_default (m_params ir_squared_euclidean)) (m_body ir_squared_euclidean) x y.
Proof.
  unfold call_depth. cbn [call_fuelR]. rewrite lookup_sqe. unfold wrapR, eval_bodyR, ir_squared_euclidean.
  cbn [m_avoid_zero]. reflexivity.
Qed.

Lemma mean_censored_undefined :
  metric_rnd rndI ir_mean_censored_euclidean [0] [- (2 * EPSILON)] = None.
Proof.
  ev_open ir_mean_censored_euclidean. ev_step. rewrite call_sqeR. unfold ir_squared_euclidean. cbn [m_body].
  ev_step. unfold countne, sum. cbn [map fst snd fold_right]. unfold rndI, Rneqb. rewrite Q2R_Z.
  destruct (Req_EM_T (0 + EPSILON + (- (2 * EPSILON) + EPSILON)) 0) as [_|Hn]; [|exfalso; apply Hn; ring].
  destruct (Req_EM_T (0 + 0) 0) as [_|Hn]; [reflexivity | exfalso; apply Hn; ring].
Qed.

(* ---- hassanat: limit of the model ---- *)
Definition rndN (a : R) : R := if Rlt_dec a 0 then 2 * a else a.
Lemma rndN_rounding : rounding rndN.
Proof.
  unfold rndN. constructor.
  - intros a b H. destruct (Rlt_dec a 0), (Rlt_dec b 0); lra.
  - destruct (Rlt_dec 0 0); lra.
  - intros a H. destruct (Rlt_dec a 0); lra.
  - intros a H. destruct (Rlt_dec a 0); lra.
Qed.
Lemma rndN_neg a : a < 0 -> rndN a = 2 * a.
Proof. intros H. unfold rndN. destruct (Rlt_dec a 0); lra. Qed.
Lemma rndN_nonneg a : 0 <= a -> rndN a = a.
Proof. intros H. unfold rndN. destruct (Rlt_dec a 0); lra. Qed.

Lemma hassanat_model_undefined :
  metric_rnd rndN ir_hassanat [- 1 - EPSILON] [- 1 - EPSILON] = None.
Proof.
  ev_open ir_hassanat.
  replace (- 1 - EPSILON + EPSILON) with (- 1) by ring.
  rewrite (rndN_neg (- 1)) by lra. replace (2 * - 1) with (- 2) by ring.
  ev_step. rewrite !Q2R_Z.
  assert (Em : Rmin (- 2) (- 2) = - 2) by (unfold Rmin; destruct (Rle_dec (- 2) (- 2)); lra).
  assert (EM : Rmax (- 2) (- 2) = - 2) by (unfold Rmax; destruct (Rle_dec (- 2) (- 2)); lra).
  rewrite Em, EM. unfold cmpR. destruct (Rle_dec 0 (- 2)) as [Hle|_]; [lra|].
  rewrite (Rabs_left (- 2)) by lra.
  replace (1 + - 2) with (- 1) by ring. rewrite (rndN_neg (- 1)) by lra.
  replace (2 * - 1 + - - 2) with 0 by ring. rewrite (rndN_nonneg 0) by lra.
  destruct (Req_EM_T 0 0) as [_|Hn]; [reflexivity | exfalso; apply Hn; reflexivity].
Qed.

(* ---- jaccard: limit of the model ---- *)
Definition rndJ (a : R) : R := if Rlt_dec a 1 then a else if Rle_dec a 4 then 1 else a / 4.
Lemma rndJ_rounding : rounding rndJ.
Proof.
  unfold rndJ. constructor.
  - intros a b H. destruct (Rlt_dec a 1), (Rle_dec a 4), (Rlt_dec b 1), (Rle_dec b 4); lra.
  - destruct (Rlt_dec 0 1), (Rle_dec 0 4); lra.
  - intros a H. destruct (Rlt_dec a 1), (Rle_dec a 4); lra.
  - intros a H. destruct (Rlt_dec a 1), (Rle_dec a 4); lra.
Qed.
Lemma rndJ_mid a : 1 <= a <= 4 -> rndJ a = 1.
Proof. intros H. unfold rndJ. destruct (Rlt_dec a 1), (Rle_dec a 4); lra. Qed.
Lemma rndJ_small a : a < 1 -> rndJ a = a.
Proof. intros H. unfold rndJ. destruct (Rlt_dec a 1), (Rle_dec a 4); lra. Qed.

Lemma jaccard_model_undefined : metric_rnd rndJ ir_jaccard [1] [1] = None.
Proof.
  ev_open ir_jaccard. pose proof EPS_pos as HE.
  assert (HE1 : EPSILON < 1).
  { assert (H10 : 1 < 10 ^ 20) by (simpl; lra).
    assert (H : / 10 ^ 20 < / 1) by (apply Rinv_lt_contravar; lra).
    rewrite Rinv_1 in H. exact H. }
  rewrite (rndJ_mid (1 + EPSILON)) by lra.
  ev_step.
  replace (1 ^ 2) with 1 by ring. replace (1 * 1) with 1 by ring. rewrite (rndJ_mid 1) by lra.
  rewrite (rndJ_mid (1 + 1)) by lra. replace (1 - 1) with 0 by ring. rewrite !(rndJ_small 0) by lra.
  destruct (Req_EM_T 0 0) as [_|Hn]; [reflexivity | exfalso; apply Hn; reflexivity].
Qed.

(* ---------- packaged statements ---------- *)
Lemma old_chord_rejected :
  robust_check Pos old_chord_ir = false /\ robust_check NonNeg old_chord_ir = false
  /\ robust_check Any old_chord_ir = false.
Proof. vm_compute. repeat split; reflexivity. Qed.

Lemma old_chord_refuted :
  rounding rndP /\ all_pos [3] /\ metric_rnd rndP old_chord_ir [3] [3] = None.
Proof.
  split; [exact rndP_rounding|]. split; [|exact old_chord_undefined].
  constructor; [lra | constructor].
Qed.

Lemma mean_censored_refuted :
  rounding (fun a : R => a)
  /\ metric_rnd (fun a : R => a) ir_mean_censored_euclidean [0] [- (2 * EPSILON)] = None.
Proof. split; [exact rndI_rounding | exact mean_censored_undefined]. Qed.

Lemma hassanat_model_limit :
  exists rnd, rounding rnd /\ metric_rnd rnd ir_hassanat [- 1 - EPSILON] [- 1 - EPSILON] = None.
Proof. exists rndN. split; [exact rndN_rounding | exact hassanat_model_undefined]. Qed.

Lemma jaccard_model_limit :
  exists rnd, rounding rnd /\ all_pos [1] /\ metric_rnd rnd ir_jaccard [1] [1] = None.
Proof.
  exists rndJ. split; [exact rndJ_rounding|]. split; [|exact jaccard_model_undefined].
  constructor; [lra | constructor].
Qed.

(* ---------- dedicated lemmas on the restricted (non-negative) domain ---------- *)
Lemma robust_defined_cnt_mean_censored_euclidean :
  robust_check_cnt NonNeg ir_mean_censored_euclidean = true.
Proof. vm_compute. reflexivity. Qed.

Lemma robust_sound_mean_censored_euclidean_nonneg :
  forall rnd, rounding rnd -> forall x y, length x = length y -> (1 <= length x)%nat ->
  all_nonneg x -> all_nonneg y -> metric_rnd rnd ir_mean_censored_euclidean x y <> None.
Proof.
  intros rnd RND x y HL H1 HX HY.
  apply (robust_check_cnt_sound NonNeg _ robust_defined_cnt_mean_censored_euclidean rnd RND x y HL H1 HX HY).
Qed.

Lemma robust_defined_hassanat_nonneg : robust_check NonNeg ir_hassanat = true.
Proof. vm_compute. reflexivity. Qed.

Lemma robust_sound_hassanat_nonneg :
  forall rnd, rounding rnd -> forall x y, length x = length y -> (1 <= length x)%nat ->
  all_nonneg x -> all_nonneg y -> metric_rnd rnd ir_hassanat x y <> None.
Proof.
  intros rnd RND x y HL H1 HX HY.
  apply (robust_check_sound NonNeg _ robust_defined_hassanat_nonneg rnd RND x y HL H1 HX HY).
Qed.

(* the count rule does not change any other verdict of the table *)
Lemma robust_cnt_rule_conservative :
  map (fun nc => match lookup_ir (fst nc) all_metrics_ir with
                 | Some m => robust_check_cnt (snd nc) m | None => false end) robust_table
  = map robust_check_name robust_table.
Proof. vm_compute. reflexivity. Qed.
