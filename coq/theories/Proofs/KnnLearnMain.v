(* C16 for the WHOLE training routines, over the real numbers: the terms [knn_sup_fit_core] / [unsup_fit] of
   Model/KnnLearn.v at [ROps] - the same terms the harness runs at PrimFloat bit for bit against
   KNNSupervisedOPF.fit / UnsupervisedOPF.fit.  No hypothesis about recorded criteria: the accuracies / cuts are
   the ones the model computes from the distances.

     - the kept k is the one Knn.knn_select / Knn.cut_select picks from the model-computed criteria, and has the
       arg-max / arg-min properties of Props/C16*.v;
     - the graph returned by the whole fit is the graph of the final training stage [knn_sup_final] /
       [unsup_final] (Model/KnnFit.v) at the kept k, started from the density bound left by the search - up to
       the removal order, which additionally carries the removals of the candidates as a prefix.  So
       Props/C13_pipeline.v applies to the result of the whole fit. *)
From Coq Require Import Reals List Arith Bool ZArith Lia Lra Permutation.
From OPF Require Import Base.Lists Base.NumOps Base.TotalOrder Model.Heap Model.Knn Model.Pdf Model.KnnFit Model.KnnLearn
  Spec.Paths Spec.Trees Proofs.PdfBase Proofs.KnnPipeline Proofs.KnnPipelineMain Proofs.Lift2Select
  Proofs.KnnLearnFrame Proofs.KnnLearnStages Proofs.KnnLearnLoop Proofs.KnnLearnReal Proofs.KnnLearnAccuracy.
Import ListNotations.
Local Open Scope R_scope.

Lemma perm_seq_all (l : list nat) n : Permutation l (seq 0 n) -> forall q, (q < n)%nat -> In q l.
Proof. intros H q Hq. apply (Permutation_in _ (Permutation_sym H)). apply in_seq. lia. Qed.

(* the final stage on the graph left by the KNN-supervised search *)
Lemma sup_final_graph fmax thr one d labels gL best efin gdens0 :
  0 < fmax ->
  (forall i j, (i < length labels)%nat -> (j < length labels)%nat -> i <> j -> 0 <= d i j < fmax) ->
  sup_state labels gL ->
  forall g2 cmm2, arcs_and_pdf ROps fmax thr one 1000 best d efin gL = (g2, cmm2) ->
  exists g', knn_sup_final ROps fmax thr one 1000 best labels gdens0 d efin = (g', cmm2) /\
             clustering_sup (nltb ROps) (fzero ROps) fmax (fbot ROps fmax) true g2
             = with_order g' (k_order gL ++ k_order g').
Proof.
  intros Hfmax Hd HS g2 cmm2 HA.
  pose proof (sup_final_sim ROps fmax thr one 1000 d labels gL best efin gdens0 HS) as HF. cbv zeta in HF.
  rewrite HA in HF.
  pose proof (knn_sup_final_forest fmax thr one gdens0 best labels d efin Hfmax Hd) as T.
  unfold knn_sup_final in *.
  destruct (arcs_and_pdf ROps fmax thr one 1000 best d efin (fit_start ROps labels gdens0)) as [gb cmmb].
  cbn [fst snd] in HF. destruct HF as (Ecmm & Encl & Hlp & rem & C). subst cmmb.
  set (gB := clustering_sup (nltb ROps) (fzero ROps) fmax (fbot ROps fmax) true gb) in *.
  exists gB. split; [reflexivity|].
  destruct cmm2 as [[c mn] mx].
  specialize (T gB c mn mx eq_refl). cbv zeta in T. destruct T as (_ & Hperm & _).
  apply (csim_all_eq true (k_order gL) rem (length labels)); try assumption.
  intros q Hq. pose proof (cs_o2 _ _ _ _ _ _ C) as Ho. cbn [app] in Ho. rewrite <- Ho.
  now apply (perm_seq_all _ (length labels)).
Qed.

(* the final stage on the graph left by the unsupervised search *)
Lemma unsup_final_graph fmax thr one d labels g best efin gdens0 :
  (best <= length labels - 1)%nat ->
  0 < fmax ->
  (forall i j, (i < length labels)%nat -> (j < length labels)%nat -> i <> j -> 0 <= d i j < fmax) ->
  unsup_state labels g ->
  forall g2 cmm2, arcs_and_pdf ROps fmax thr one 1000 best d efin (destroy_arcs g) = (g2, cmm2) ->
  exists g', unsup_final ROps fmax thr one 1000 best labels gdens0 d efin = (g', cmm2) /\
             clustering_unsup (nltb ROps) (fzero ROps) fmax (fbot ROps fmax) best g2
             = with_order g' (k_order g ++ k_order g').
Proof.
  intros Hk Hfmax Hd HS g2 cmm2 HA.
  pose proof (unsup_final_sim ROps fmax thr one 1000 labels g best d efin gdens0 HS) as HF. cbv zeta in HF.
  rewrite HA in HF.
  pose proof (unsup_final_forest fmax thr one gdens0 best labels d efin Hk Hfmax Hd) as T.
  unfold unsup_final in *.
  destruct (arcs_and_pdf ROps fmax thr one 1000 best d efin (fit_start ROps labels gdens0)) as [gb cmmb].
  cbn [fst snd] in HF. destruct HF as (Ecmm & Encl & Hlp & rem & C). subst cmmb.
  set (gB := clustering_unsup (nltb ROps) (fzero ROps) fmax (fbot ROps fmax) best gb) in *.
  exists gB. split; [reflexivity|].
  destruct cmm2 as [[c mn] mx].
  specialize (T gB c mn mx eq_refl). cbv zeta in T. destruct T as (_ & Hperm & _).
  apply (csim_all_eq false (k_order g) rem (length labels)); try assumption.
  intros q Hq. pose proof (cs_o2 _ _ _ _ _ _ C) as Ho. cbn [app] in Ho. rewrite <- Ho.
  now apply (perm_seq_all _ (length labels)).
Qed.

(* ------------------------------------------------------------------------------------------------ *)
(* KNNSupervisedOPF.fit                                                                               *)
(* ------------------------------------------------------------------------------------------------ *)

Theorem knn_sup_fit_selects :
  forall (fmax thr one eps : R) (d : nat -> nat -> R) (dq : list (nat -> R)) (vlabels : list nat)
         (ep eq : nat -> nat -> nat -> R) (labels : list nat) (max_k : nat) (efin : nat -> nat -> R),
    let n := length labels in
    0 < fmax ->
    (forall i j, (i < n)%nat -> (j < n)%nat -> i <> j -> 0 <= d i j < fmax) ->
    length vlabels = length dq ->
    (1 <= max_k)%nat ->
    forall (accs : list R) (best : nat) (g : @knn R) (cmm : R * R * R),
    knn_sup_fit_core ROps fmax thr one eps 1000 d dq vlabels ep eq labels max_k efin = (accs, best, g, cmm) ->
    let acc := fun k => nth (k - 1) accs 0 in
    length accs = max_k /\
    knn_select Rltb 0 accs = Some best /\
    (1 <= best <= max_k)%nat /\
    (forall k, (1 <= k <= max_k)%nat -> 0 <= acc k <= 1) /\
    (forall k, (1 <= k <= max_k)%nat -> acc k <= acc best) /\
    (forall k, (1 <= k < best)%nat -> acc k < acc best) /\
    forall gdens0 : R, exists (pre : list nat) (g' : @knn R),
      knn_sup_final ROps fmax thr one 1000 best labels gdens0 d efin = (g', cmm) /\
      g = with_order g' (pre ++ k_order g').
Proof.
  intros fmax thr one eps d dq vlabels ep eq labels max_k efin n Hfmax Hd Hlen Hmk accs best g cmm Hfit. cbv zeta.
  unfold knn_sup_fit_core in Hfit.
  destruct (knn_sup_learn ROps fmax thr one eps 1000 d dq vlabels ep eq labels max_k) as [[[gL accs'] mx] best'] eqn:HL.
  assert (HPa : forall k g0, 0 <= fst (sup_candidate ROps fmax thr one eps 1000 d dq vlabels ep eq k g0) <= 1).
  { intros k g0. unfold sup_candidate.
    destruct (arcs_and_pdf ROps fmax thr one 1000 k d (ep (k - 1)%nat) g0) as [g1 [[c mn] mx0]]. cbn [fst].
    apply accuracy_F_bounds. rewrite predict_batch_length, combine_length, map_length, seq_length, Nat.min_id. exact Hlen. }
  destruct (knn_sup_learn_spec ROps fmax thr one eps 1000 d dq vlabels ep eq labels (fun a => 0 <= a <= 1) HPa
              max_k gL accs' mx best' HL) as (HS & Hla & Hpa & Hsel & Hb).
  destruct (arcs_and_pdf ROps fmax thr one 1000 best' d efin gL) as [g2 cmm2] eqn:HA.
  injection Hfit as <- <- <- <-.
  change (knn_select (nltb ROps) (fzero ROps) accs' = Some best') with (knn_select Rltb 0 accs' = Some best') in Hsel.
  split; [exact Hla|]. split; [exact Hsel|].
  assert (Hacc : forall k, (1 <= k <= max_k)%nat -> 0 <= nth (k - 1) accs' 0 <= 1).
  { intros k Hk. apply Hpa, nth_In. lia. }
  assert (Hbest : (1 <= best' <= max_k)%nat) by (destruct Hb as [->|Hb]; lia).
  split; [exact Hbest|]. split; [exact Hacc|].
  assert (Hfin : forall gdens0 : R, exists (pre : list nat) (g' : @knn R),
             knn_sup_final ROps fmax thr one 1000 best' labels gdens0 d efin = (g', cmm2) /\
             clustering_sup (nltb ROps) (fzero ROps) fmax (fbot ROps fmax) true g2 = with_order g' (pre ++ k_order g')).
  { intros gdens0.
    destruct (sup_final_graph fmax thr one d labels gL best' efin gdens0 Hfmax Hd HS g2 cmm2 HA) as (g' & E1 & E2).
    exists (k_order gL), g'. split; assumption. }
  destruct (knn_select_R accs' best' Hsel) as [(B1 & B2 & B3 & B4)|(B1 & B2)].
  - rewrite Hla in B3. split; [exact B3|]. split; [exact B4|exact Hfin].
  - subst best'. rewrite Hla in B2.
    assert (Hz : forall k, (1 <= k <= max_k)%nat -> nth (k - 1) accs' 0 = 0).
    { intros k Hk. specialize (B2 k Hk). specialize (Hacc k Hk). lra. }
    split; [intros k Hk; rewrite (Hz k Hk), (Hz 1%nat) by lia; lra|]. split; [intros k Hk; lia|exact Hfin].
Qed.

(* ------------------------------------------------------------------------------------------------ *)
(* UnsupervisedOPF.fit                                                                                *)
(* ------------------------------------------------------------------------------------------------ *)

Theorem unsup_fit_selects :
  forall (fmax thr one : R) (d : nat -> nat -> R) (ep : nat -> nat -> nat -> R) (labels : list nat)
         (min_k max_k : nat) (efin : nat -> nat -> R),
    let n := length labels in
    0 < fmax -> INR n < fmax ->
    (forall i j, (i < n)%nat -> (j < n)%nat -> i <> j -> 0 <= d i j < fmax) ->
    (1 <= min_k <= max_k)%nat -> (max_k <= n - 1)%nat ->
    exists (cuts : list R) (best : nat) (g : @knn R) (cmm : R * R * R),
      unsup_fit ROps fmax thr one 1000 d ep labels min_k max_k efin = Some (cuts, best, g, cmm) /\
      let e := length cuts in
      let cut := fun k => nth (k - min_k) cuts 0 in
      cut_select Rltb 0 fmax min_k cuts = (Some best, e) /\
      (1 <= e <= max_k - min_k + 1)%nat /\
      (forall k, (min_k <= k < min_k + e)%nat -> 0 <= cut k <= INR n) /\
      (forall k, (min_k <= k)%nat -> (S k < min_k + e)%nat -> cut k <> 0) /\
      (e = (max_k - min_k + 1)%nat \/ cut (min_k + e - 1)%nat = 0) /\
      (min_k <= best < min_k + e)%nat /\
      (forall k, (min_k <= k < min_k + e)%nat -> cut best <= cut k) /\
      (forall k, (min_k <= k < best)%nat -> cut best < cut k) /\
      forall gdens0 : R, exists (pre : list nat) (g' : @knn R),
        unsup_final ROps fmax thr one 1000 best labels gdens0 d efin = (g', cmm) /\
        g = with_order g' (pre ++ k_order g').
Proof.
  intros fmax thr one d ep labels min_k max_k efin n Hfmax Hn Hd Hk Hmk.
  unfold unsup_fit.
  destruct (unsup_search ROps fmax thr one 1000 d ep labels min_k max_k) as [[[g cuts] mn] best] eqn:HS.
  assert (HP : forall k gc, (k_nclusters gc <= length labels)%nat -> 0 <= normalized_cut ROps k d gc <= INR n).
  { intros k gc Hc. pose proof (normalized_cut_bounds k d gc) as [B1 B2]. apply le_INR in Hc. fold n in Hc. lra. }
  destruct (unsup_search_spec ROps fmax thr one 1000 ROps_eq_weqb d ep labels min_k max_k
              (fun c => 0 <= c <= INR n) g cuts mn best HP HS) as (US & L & CS & D & PC & B & Z).
  change (nltb ROps) with Rltb in CS. change (fzero ROps) with 0 in CS, D, Z. change (neqb ROps) with Reqb in D, Z.
  assert (Hne : cuts <> []).
  { intros ->. cbn [length] in D. destruct D as [D|D]; [lia|].
    destruct (Z D) as [Z1|[pre Z1]].
    - apply Reqb_true_iff in Z1. lra.
    - destruct pre; discriminate. }
  assert (Hc : forall c, In c cuts -> Rltb c 0 = false /\ Rltb c fmax = true).
  { intros c Hin. specialize (PC c Hin). cbv beta in PC. split; [apply Rltb_false_iff|apply Rltb_true_iff]; lra. }
  destruct (cut_select_argmin_anyorder Rltb Rltb_order 0 fmax min_k cuts Hne Hc)
    as (e & i & E1 & E2 & E3 & E4 & E5 & E6 & E7).
  rewrite CS in E1. injection E1 as -> <-.
  destruct (arcs_and_pdf ROps fmax thr one 1000 (min_k + i) d efin (destroy_arcs g)) as [g2 cmm2] eqn:HA.
  exists cuts, (min_k + i)%nat, (clustering_unsup (nltb ROps) (fzero ROps) fmax (fbot ROps fmax) (min_k + i) g2), cmm2.
  split; [reflexivity|]. cbv zeta.
  split; [exact CS|]. split; [lia|].
  split.
  { intros k Hkk. apply PC, nth_In. lia. }
  split.
  { intros k H1 H2. apply E3. lia. }
  split.
  { destruct D as [D|D]; [left; lia|right].
    destruct (Z D) as [Z1|[pre Z1]]; [apply Reqb_true_iff in Z1; lra|].
    apply Reqb_true_iff in D. subst mn.
    replace (min_k + length cuts - 1 - min_k)%nat with (length cuts - 1)%nat by lia.
    rewrite Z1, app_length. cbn [length]. replace (length pre + 1 - 1)%nat with (length pre) by lia.
    rewrite app_nth2, Nat.sub_diag by lia. reflexivity. }
  split; [lia|].
  replace (min_k + i - min_k)%nat with i by lia.
  split.
  { intros k Hkk. apply Rltb_false_iff. apply E6. lia. }
  split.
  { intros k Hkk. apply Rltb_true_iff. apply E7. lia. }
  assert (Hb : (min_k + i <= length labels - 1)%nat) by (fold n; lia).
  intros gdens0.
  destruct (unsup_final_graph fmax thr one d labels g (min_k + i) efin gdens0 Hb Hfmax Hd US g2 cmm2 HA) as (g' & F1 & F2).
  exists (k_order g), g'. split; assumption.
Qed.

(* ------------------------------------------------------------------------------------------------ *)
(* C13 / C04 for the result of the whole fit                                                          *)
(* ------------------------------------------------------------------------------------------------ *)

(* the forest clauses of Props/C13_pipeline.v, for a graph [g] whose final competition removed [ord] *)
Definition sup_forest_clauses (fmax : R) (k : nat) (labels : list nat) (d e : nat -> nat -> R)
           (g : @knn R) (ord : list nat) (mn mx : R) : Prop :=
  let n := length labels in
  let pred := fun q => nth q (k_pred g) None in
  let root := fun q => nth q (k_root g) 0%nat in
  let cost := fun q => nth q (k_cost g) 0 in
  let dens := fun q => nth q (k_dens g) 0 in
  let plabel := fun q => nth q (k_plabel g) 0%nat in
  let label := fun q => nth q labels 0%nat in
  let adj := fun q => nth q (k_adj g) [] in
  k_label g = labels /\
  Permutation ord (seq 0 n) /\
  (forall q, (q < n)%nat -> 1 <= dens q <= 1000) /\
  (exists adj0 : list (list nat),
     knn_graph fmax k n d e dens mn mx adj0 /\
     k_adj g = plateau_sup Rltb 0 n (k_dens g) adj0) /\
  (forall q, (q < n)%nat ->
     match pred q with
     | None => root q = q /\ cost q = dens q /\ plabel q = label q
     | Some p => (p < n)%nat /\ before ord p q /\ In q (adj p) /\
                 root q = root p /\ cost q = Rmin (cost p) (dens q) /\
                 dens q - 1 < cost q /\ plabel q = plabel p /\ label p = label q
     end) /\
  (forall q, (q < n)%nat ->
     exists r j, (j < n)%nat /\ (r < n)%nat /\ reaches pred q r j /\ pred r = None /\
       (forall r', root_of pred q r' -> r' = r) /\
       root q = r /\ dens q - 1 < cost q /\ cost q <= cost r /\ cost r = dens r /\
       dens q < dens r + 1 /\
       plabel q = label r /\ label q = label r) /\
  (forall q, (q < n)%nat -> plabel q = label q).

Definition unsup_forest_clauses (fmax : R) (k : nat) (labels : list nat) (d e : nat -> nat -> R)
           (g : @knn R) (ord : list nat) (mn mx : R) : Prop :=
  let n := length labels in
  let pred := fun q => nth q (k_pred g) None in
  let root := fun q => nth q (k_root g) 0%nat in
  let cost := fun q => nth q (k_cost g) 0 in
  let dens := fun q => nth q (k_dens g) 0 in
  let clabel := fun q => nth q (k_clabel g) 0%nat in
  let adj := fun q => nth q (k_adj g) [] in
  let nplat := fun q => nth q (k_nplat g) 0%nat in
  let isroot := fun q => match pred q with None => true | Some _ => false end in
  k_label g = labels /\
  Permutation ord (seq 0 n) /\
  (forall q, (q < n)%nat -> 1 <= dens q <= 1000) /\
  (exists adj0 : list (list nat),
     knn_graph fmax k n d e dens mn mx adj0 /\
     (forall i, (i < n)%nat -> length (nth i adj0 []) = k) /\
     (k_adj g, k_nplat g) = plateau_unsup Rltb 0 k n (k_dens g) adj0 (repeat 0%nat n)) /\
  (forall q, (q < n)%nat ->
     match pred q with
     | None => root q = q /\ cost q = dens q
     | Some p => (p < n)%nat /\ before ord p q /\ In q (firstn (nplat p + k) (adj p)) /\
                 root q = root p /\ cost q = Rmin (cost p) (dens q) /\
                 dens q - 1 < cost q /\ clabel q = clabel p
     end) /\
  (forall q, (q < n)%nat ->
     exists r j, (j < n)%nat /\ (r < n)%nat /\ reaches pred q r j /\ pred r = None /\
       (forall r', root_of pred q r' -> r' = r) /\
       root q = r /\ dens q - 1 < cost q /\ cost q <= cost r /\ cost r = dens r /\
       dens q < dens r + 1 /\
       clabel q = clabel r) /\
  k_nclusters g = length (filter isroot (seq 0 n)) /\
  length (filter isroot ord) = k_nclusters g /\
  (forall i, (i < k_nclusters g)%nat -> clabel (nth i (filter isroot ord) 0%nat) = i) /\
  (forall r, (r < n)%nat -> pred r = None -> (clabel r < k_nclusters g)%nat) /\
  (forall r r', (r < n)%nat -> (r' < n)%nat -> pred r = None -> pred r' = None ->
     clabel r = clabel r' -> r = r') /\
  (forall i, (i < k_nclusters g)%nat -> exists r, (r < n)%nat /\ pred r = None /\ clabel r = i) /\
  (forall q, (q < n)%nat -> (clabel q < k_nclusters g)%nat).

Theorem knn_sup_fit_forest :
  forall (fmax thr one eps : R) (d : nat -> nat -> R) (dq : list (nat -> R)) (vlabels : list nat)
         (ep eq : nat -> nat -> nat -> R) (labels : list nat) (max_k : nat) (efin : nat -> nat -> R),
    let n := length labels in
    0 < fmax ->
    (forall i j, (i < n)%nat -> (j < n)%nat -> i <> j -> 0 <= d i j < fmax) ->
    length vlabels = length dq ->
    (1 <= max_k)%nat ->
    forall (accs : list R) (best : nat) (g : @knn R) (c mn mx : R),
    knn_sup_fit_core ROps fmax thr one eps 1000 d dq vlabels ep eq labels max_k efin = (accs, best, g, (c, mn, mx)) ->
    exists pre ord, k_order g = pre ++ ord /\ sup_forest_clauses fmax best labels d efin g ord mn mx.
Proof.
  intros fmax thr one eps d dq vlabels ep eq labels max_k efin n Hfmax Hd Hlen Hmk accs best g c mn mx Hfit.
  destruct (knn_sup_fit_selects fmax thr one eps d dq vlabels ep eq labels max_k efin Hfmax Hd Hlen Hmk
              accs best g (c, mn, mx) Hfit) as (_ & _ & _ & _ & _ & _ & Hfin).
  destruct (Hfin 0) as (pre & g' & E1 & E2).
  pose proof (knn_sup_final_forest fmax thr one 0 best labels d efin Hfmax Hd g' c mn mx E1) as T.
  exists pre, (k_order g'). subst g. unfold with_order, sup_forest_clauses. knn_cbn. split; [reflexivity|exact T].
Qed.

Theorem unsup_fit_forest :
  forall (fmax thr one : R) (d : nat -> nat -> R) (ep : nat -> nat -> nat -> R) (labels : list nat)
         (min_k max_k : nat) (efin : nat -> nat -> R),
    let n := length labels in
    0 < fmax -> INR n < fmax ->
    (forall i j, (i < n)%nat -> (j < n)%nat -> i <> j -> 0 <= d i j < fmax) ->
    (1 <= min_k <= max_k)%nat -> (max_k <= n - 1)%nat ->
    exists (cuts : list R) (best : nat) (g : @knn R) (c mn mx : R) (pre ord : list nat),
      unsup_fit ROps fmax thr one 1000 d ep labels min_k max_k efin = Some (cuts, best, g, (c, mn, mx)) /\
      (min_k <= best <= max_k)%nat /\
      k_order g = pre ++ ord /\ unsup_forest_clauses fmax best labels d efin g ord mn mx.
Proof.
  intros fmax thr one d ep labels min_k max_k efin n Hfmax Hn Hd Hk Hmk.
  destruct (unsup_fit_selects fmax thr one d ep labels min_k max_k efin Hfmax Hn Hd Hk Hmk)
    as (cuts & best & g & [[c mn] mx] & Hfit & H). cbv zeta in H.
  destruct H as (_ & He & _ & _ & _ & Hb & _ & _ & Hfin).
  destruct (Hfin 0) as (pre & g' & E1 & E2).
  assert (Hbk : (best <= n - 1)%nat) by lia.
  pose proof (unsup_final_forest fmax thr one 0 best labels d efin Hbk Hfmax Hd g' c mn mx E1) as T.
  exists cuts, best, g, c, mn, mx, pre, (k_order g'). split; [exact Hfit|]. split; [lia|].
  subst g. unfold with_order, unsup_forest_clauses. knn_cbn. split; [reflexivity|exact T].
Qed.
