(* C08 at the code level (support): the EPSILON shift of the decorator `avoid_zero_division` maps the
   USER's domain (non-negative vectors, equal sums) into the domain of the closed-form axioms
   (positive vectors, equal sums), plus the tactics that compose
       closed_form_<name>  (Proofs/ClosedForms.v:  metric_value ir_<name> x y = sp_<name> (shift x) (shift y))
   with
       sym_/nonneg_/zero_self_/triangle_<name>  (Proofs/MetricAxioms.v, Proofs/Triangle*.v)
   into statements about the regenerated code terms ir_<name> of Gen/Metrics_gen.v. *)
From Coq Require Import Reals List Lra Lia.
From OPF Require Import Spec.MetricSpec Proofs.IRLemmas Proofs.MetricLemmas.
Import ListNotations.
Open Scope R_scope.

Lemma EPSILON_pos : 0 < EPSILON.
Proof. unfold EPSILON. apply Rinv_0_lt_compat. apply pow_lt. lra. Qed.

(* a non-negative user vector is positive once shifted *)
Lemma all_nonneg_shift_pos x : all_nonneg x -> all_pos (shift x).
Proof.
  intros H. unfold all_pos, shift. apply Forall_forall. intros b Hb.
  apply in_map_iff in Hb. destruct Hb as [a [<- Ha]].
  pose proof (proj1 (Forall_forall _ _) H a Ha) as H0. cbv beta in H0.
  pose proof EPSILON_pos. lra.
Qed.

Lemma all_nonneg_shift_nonneg x : all_nonneg x -> all_nonneg (shift x).
Proof. intros H. apply all_pos_nonneg. now apply all_nonneg_shift_pos. Qed.

Lemma all_pos_shift_pos x : all_pos x -> all_pos (shift x).
Proof. intros H. apply all_nonneg_shift_pos. now apply all_pos_nonneg. Qed.

(* the shift adds EPSILON once per coordinate *)
Lemma sum_shift x : sum (shift x) = sum x + INR (length x) * EPSILON.
Proof.
  unfold shift. induction x as [|a x IH].
  - cbn. ring.
  - change (sum (map (fun a0 => a0 + EPSILON) (a :: x)))
      with (a + EPSILON + sum (map (fun a0 => a0 + EPSILON) x)).
    change (sum (a :: x)) with (a + sum x).
    change (length (a :: x)) with (S (length x)).
    rewrite IH, S_INR. ring.
Qed.

(* equal sums stay equal (vectors of the same length) *)
Lemma sum_shift_eq x y : length x = length y -> sum x = sum y -> sum (shift x) = sum (shift y).
Proof. intros Hl Hs. rewrite !sum_shift, Hl, Hs. reflexivity. Qed.

(* ... but a unit sum does not stay a unit sum *)
Lemma sum_shift_prob x : sum x = 1 -> sum (shift x) = 1 + INR (length x) * EPSILON.
Proof. intros Hs. rewrite sum_shift, Hs. reflexivity. Qed.

(* ------------------------------------------------------------------ *)
(* transfer tactics: [cf] is closed_form_<name>, [ax] the axiom of sp_<name>                *)
(* ------------------------------------------------------------------ *)
Ltac ca_len := first [ assumption | symmetry; assumption | reflexivity | congruence ].

Ltac ca_side :=
  rewrite ?shift_length;
  first [ assumption
        | symmetry; assumption
        | congruence
        | solve [ auto using all_nonneg_shift_pos, all_nonneg_shift_nonneg, sum_shift_eq ] ].

Ltac ca_transfer cf ax := intros; rewrite !cf by ca_len; apply ax; ca_side.
