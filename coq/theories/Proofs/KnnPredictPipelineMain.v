(* KNNSupervisedOPF.predict / UnsupervisedOPF.predict on top of the final training stage, over the reals.

   Part 2 of 2: the graph, minimum and maximum of KnnPredictPipeline.query_core are those returned
   by [knn_sup_final] / [unsup_final] (Model/KnnFit.v); the facts needed about them - costs above
   density - 1 >= 0, 0 <= mn <= mx < 1, labels - are read off Props/C13_pipeline.v
   (KnnPipelineMain.knn_sup_final_forest / unsup_final_forest).  The batch theorem is
   KnnPredictPipelineBatch.knn_batch_pointwise_anyorder at Rltb: the query density reads the
   distance array only, so its locality premise holds trivially. *)
From Coq Require Import Reals List Arith Bool ZArith Lia Lra Permutation.
From OPF Require Import Base.Lists Base.NumOps Base.TotalOrder Model.Heap Model.Knn Model.Pdf Model.KnnFit
  Model.KnnPredict Spec.Paths Spec.Trees Proofs.PdfBase Proofs.PdfReal Proofs.KnnSort Proofs.Lift2Knn
  Proofs.KnnBatch Proofs.KnnPipeline Proofs.KnnPipelineMain Proofs.KnnPredictPipeline
  Proofs.KnnPredictPipelineBatch.
Import ListNotations.
Local Open Scope R_scope.

(* the rule for one query against a graph [g] with recorded density range [mn, mx]:
   [N] = the k nearest of ALL n training samples; the query density is the affine image of the mean
   of their exp terms (divided by k); the answer is the FIRST entry of N maximising
   min(cost, query density) *)
Definition query_rule_R (fmax eps : R) (k n : nat) (E : R -> R) (mn mx : R) (g : @knn R)
           (dq : nat -> R) (answer : option nat) : Prop :=
  let N := firstn k (isortW Rltb dq (seq 0 n)) in
  let pdfq := query_pdf E dq k N in
  let qd := query_dens eps mn mx pdfq in
  let val s := Rmin (nth s (k_cost g) 0) qd in
  k_nearest dq n k N /\
  (0 <= pdfq <= 1 /\ 0 <= mn /\ mn <= mx /\ mx < 1 /\ 0 < mx - mn + eps /\ - fmax < qd /\
   (mn <= pdfq <= mx -> 1 <= qd < 1000) /\ (pdfq < mn -> qd < 1) /\
   (mx < pdfq -> 999 * (mx - mn) / (mx - mn + eps) + 1 < qd)) /\
  (forall ds ns, knn_scan Rltb fmax k n dq None (repeat 0%nat (S k)) = (ds, ns) ->
     firstn k ns = N /\ firstn k ds = map dq N /\
     query_densx ROps fmax eps 1000 E mn mx k ds ns = qd) /\
  exists r, (r < k)%nat /\ answer = Some (nth r N 0%nat) /\
    (forall r', (r' < k)%nat -> val (nth r' N 0%nat) <= val (nth r N 0%nat)) /\
    (forall r', (r' < r)%nat -> val (nth r' N 0%nat) < val (nth r N 0%nat)).

Lemma query_rule_from_core fmax eps k n E mn mx g dq :
  (1 <= k)%nat -> (k <= n)%nat -> 0 < fmax ->
  (forall j, (j < n)%nat -> 0 <= dq j < fmax) ->
  (forall x, 0 <= x -> 0 <= E x <= 1) ->
  0 < eps -> 999 <= eps * fmax -> 0 <= mn -> mn <= mx -> mx < 1 ->
  (forall j, (j < n)%nat -> - fmax < nth j (k_cost g) 0) ->
  query_rule_R fmax eps k n E mn mx g dq
    (knn_predict_one Rltb 0 fmax (fbot ROps fmax) g k n (query_densx ROps fmax eps 1000 E mn mx k) dq).
Proof.
  intros Hk1 Hkn Hfm Hdq HE Heps Hbig Hmn Hmm Hmx Hcost.
  pose proof (query_core fmax eps k n E mn mx g dq Hk1 Hkn Hfm Hdq HE Heps Hbig Hmm Hmx Hcost) as H.
  cbv zeta in H. destruct H as (A & (B1 & B2) & C & D).
  unfold query_rule_R. cbv zeta.
  split; [exact A|]. split; [|split; [exact C | exact D]].
  destruct (query_dens_props eps mn mx Heps Hmm
              (query_pdf E dq k (firstn k (isortW Rltb dq (seq 0 n))))) as (P1 & P2 & P3 & P4 & _).
  repeat (split; [assumption|]). exact P4.
Qed.

(* ---------- batch = map of one, position-free (C09) at Rltb, for any graph ---------- *)

Lemma query_densx_reads_ds fmax eps E mn mx k ds ns ns' :
  query_densx ROps fmax eps 1000 E mn mx k ds ns = query_densx ROps fmax eps 1000 E mn mx k ds ns'.
Proof. reflexivity. Qed.

Theorem knn_query_batch_pointwise fmax eps E (fit : @knn R * (R * R * R)) k (qs : list (nat -> R)) :
  (forall dq, In dq qs -> forall j, (j < length (k_label (fst fit)))%nat -> dq j < fmax) ->
  knn_query_batch ROps fmax eps 1000 E fit k qs = map (knn_query ROps fmax eps 1000 E fit k) qs.
Proof.
  destruct fit as [g [[c mn] mx]]. cbn [fst]. intros Hqs. unfold knn_query_batch, knn_query.
  apply (knn_batch_pointwise_anyorder Rltb Rltb_order).
  - intros dq Hin j Hj. apply Rltb_true_iff. exact (Hqs dq Hin j Hj).
  - intros ds ns ns' _ _ _ _. reflexivity.
Qed.

Theorem knn_query_position_free fmax eps E (fit : @knn R * (R * R * R)) k
        (qs qs' : list (nat -> R)) (i i' : nat) (d0 : nat -> R) :
  (forall dq, In dq qs -> forall j, (j < length (k_label (fst fit)))%nat -> dq j < fmax) ->
  (forall dq, In dq qs' -> forall j, (j < length (k_label (fst fit)))%nat -> dq j < fmax) ->
  (i < length qs)%nat -> (i' < length qs')%nat ->
  (forall j, (j < length (k_label (fst fit)))%nat -> nth i qs d0 j = nth i' qs' d0 j) ->
  nth i (knn_query_batch ROps fmax eps 1000 E fit k qs) None
  = nth i' (knn_query_batch ROps fmax eps 1000 E fit k qs') None /\
  nth i (knn_query_batch ROps fmax eps 1000 E fit k qs) None
  = knn_query ROps fmax eps 1000 E fit k (nth i qs d0).
Proof.
  destruct fit as [g [[c mn] mx]]. cbn [fst]. intros Hqs Hqs' Hi Hi' Hsame.
  unfold knn_query_batch, knn_query.
  assert (T : forall l : list (nat -> R),
            (forall dq, In dq l -> forall j, (j < length (k_label g))%nat -> dq j < fmax) ->
            forall dist, In dist l -> forall j, (j < length (k_label g))%nat -> Rltb (dist j) fmax = true).
  { intros l Hl dq Hin j Hj. apply Rltb_true_iff. exact (Hl dq Hin j Hj). }
  split.
  - apply (knn_position_free_anyorder Rltb Rltb_order) with (d0 := d0);
      [exact (T qs Hqs) | exact (T qs' Hqs') | intros ds ns ns' _ _ _ _; reflexivity
      | exact Hi | exact Hi' | exact Hsame].
  - apply (knn_batch_nth_anyorder Rltb Rltb_order);
      [exact (T qs Hqs) | intros ds ns ns' _ _ _ _; reflexivity | exact Hi].
Qed.

(* ---------- KNNSupervisedOPF ---------- *)

Section Fitted.
  Variables (fmax thr one gdens0 eps : R) (k : nat) (labels : list nat) (d e : nat -> nat -> R)
            (E : R -> R).
  Let n := length labels.
  Hypothesis Hk1 : (1 <= k)%nat.
  Hypothesis Hkn : (k <= n)%nat.
  Hypothesis Hf1 : 1 <= fmax.
  Hypothesis Hd : forall i j, (i < n)%nat -> (j < n)%nat -> i <> j -> 0 <= d i j < fmax.
  Hypothesis He : forall i j, (i < n)%nat -> (j < n)%nat -> 0 <= e i j <= 1.
  Hypothesis Heps : 0 < eps.
  Hypothesis Hbig : 999 <= eps * fmax.
  Hypothesis HE : forall x, 0 <= x -> 0 <= E x <= 1.

  Lemma Hfm : 0 < fmax. Proof. lra. Qed.
  Lemma Hn1 : (1 <= n)%nat. Proof. lia. Qed.

  Theorem knn_sup_query_rule (g' : @knn R) (c mn mx : R) :
    knn_sup_final ROps fmax thr one 1000 k labels gdens0 d e = (g', (c, mn, mx)) ->
    forall dq : nat -> R, (forall j, (j < n)%nat -> 0 <= dq j < fmax) ->
    let answer := knn_query ROps fmax eps 1000 E (g', (c, mn, mx)) k dq in
    query_rule_R fmax eps k n E mn mx g' dq answer /\
    exists s, answer = Some s /\ (s < n)%nat /\
      label_of g' answer = nth s labels 0%nat.
  Proof.
    intros Hfin dq Hdq answer.
    pose proof (knn_sup_final_forest fmax thr one gdens0 k labels d e Hfm Hd g' c mn mx Hfin) as T.
    cbv zeta in T. fold n in T.
    destruct T as (T1 & _ & T3 & (adj0 & KG & _) & _ & T6 & T7).
    unfold knn_graph in KG. cbv zeta in KG. destruct KG as (_ & _ & _ & _ & _ & Hc).
    destruct (Hc Hn1 Hf1 He) as (_ & _ & M1 & M2 & M3).
    assert (Hcost : forall j, (j < n)%nat -> - fmax < nth j (k_cost g') 0).
    { intros j Hj. destruct (T6 j Hj) as (r & i & _ & _ & _ & _ & _ & _ & F7 & _).
      pose proof (T3 j Hj). pose proof Hfm. lra. }
    assert (Hans : answer = knn_predict_one Rltb 0 fmax (fbot ROps fmax) g' k n
                             (query_densx ROps fmax eps 1000 E mn mx k) dq).
    { unfold answer, knn_query. rewrite T1. reflexivity. }
    pose proof (query_rule_from_core fmax eps k n E mn mx g' dq Hk1 Hkn Hfm Hdq HE Heps Hbig
                  M1 M2 M3 Hcost) as Q.
    rewrite <- Hans in Q. split; [exact Q|].
    unfold query_rule_R in Q. cbv zeta in Q.
    destruct Q as ((_ & _ & Lt & _) & _ & _ & r & Hr & Ea & _).
    set (N := firstn k (isortW Rltb dq (seq 0 n))) in *.
    assert (Hs : (nth r N 0%nat < n)%nat).
    { apply Lt. apply nth_In. destruct (query_rule_from_core fmax eps k n E mn mx g' dq Hk1 Hkn Hfm Hdq
                                          HE Heps Hbig M1 M2 M3 Hcost) as ((L & _) & _). fold N in L.
      rewrite L. exact Hr. }
    exists (nth r N 0%nat). split; [exact Ea|]. split; [exact Hs|].
    rewrite Ea. unfold label_of. exact (T7 _ Hs).
  Qed.

  (* ---------- UnsupervisedOPF ---------- *)

  Lemma propagated_same_answer (g' : @knn R) (c mn mx : R) dq :
    knn_query ROps fmax eps 1000 E (with_propagated_labels (g', (c, mn, mx))) k dq
    = knn_query ROps fmax eps 1000 E (g', (c, mn, mx)) k dq.
  Proof. reflexivity. Qed.

  Lemma nth_map_seq0 (f : nat -> nat) m s : (s < m)%nat -> nth s (map f (seq 0 m)) 0%nat = f s.
  Proof.
    intros Hs. rewrite (nth_indep _ 0%nat (f 0%nat)) by (rewrite map_length, seq_length; exact Hs).
    rewrite map_nth, seq_nth by exact Hs. reflexivity.
  Qed.

  Theorem unsup_query_rule (g' : @knn R) (c mn mx : R) :
    (k <= n - 1)%nat ->
    unsup_final ROps fmax thr one 1000 k labels gdens0 d e = (g', (c, mn, mx)) ->
    forall dq : nat -> R, (forall j, (j < n)%nat -> 0 <= dq j < fmax) ->
    let answer := knn_query ROps fmax eps 1000 E (g', (c, mn, mx)) k dq in
    let g'' := propagate_labels g' in
    query_rule_R fmax eps k n E mn mx g' dq answer /\
    knn_query ROps fmax eps 1000 E (with_propagated_labels (g', (c, mn, mx))) k dq = answer /\
    exists s, answer = Some s /\ (s < n)%nat /\
      let r := nth s (k_root g') 0%nat in
      (r < n)%nat /\ nth r (k_pred g') None = None /\
      label_of g'' answer = nth r labels 0%nat /\
      cluster_of g'' answer = nth s (k_clabel g') 0%nat /\
      nth s (k_clabel g') 0%nat = nth r (k_clabel g') 0%nat /\
      (nth s (k_clabel g') 0%nat < k_nclusters g')%nat.
  Proof.
    intros Hk Hfin dq Hdq answer g''.
    pose proof (unsup_final_forest fmax thr one gdens0 k labels d e Hk Hfm Hd g' c mn mx Hfin) as T.
    cbv zeta in T. fold n in T.
    destruct T as (T1 & _ & T3 & (adj0 & KG & _) & _ & T6 & _ & _ & _ & _ & _ & _ & T13).
    unfold knn_graph in KG. cbv zeta in KG. destruct KG as (_ & _ & _ & _ & _ & Hc).
    destruct (Hc Hn1 Hf1 He) as (_ & _ & M1 & M2 & M3).
    assert (Hcost : forall j, (j < n)%nat -> - fmax < nth j (k_cost g') 0).
    { intros j Hj. destruct (T6 j Hj) as (r & i & _ & _ & _ & _ & _ & _ & F7 & _).
      pose proof (T3 j Hj). pose proof Hfm. lra. }
    assert (Hans : answer = knn_predict_one Rltb 0 fmax (fbot ROps fmax) g' k n
                             (query_densx ROps fmax eps 1000 E mn mx k) dq).
    { unfold answer, knn_query. rewrite T1. reflexivity. }
    pose proof (query_rule_from_core fmax eps k n E mn mx g' dq Hk1 Hkn Hfm Hdq HE Heps Hbig
                  M1 M2 M3 Hcost) as Q.
    rewrite <- Hans in Q. split; [exact Q|]. split; [reflexivity|].
    unfold query_rule_R in Q. cbv zeta in Q.
    destruct Q as ((L & _ & Lt & _) & _ & _ & r & Hr & Ea & _).
    set (N := firstn k (isortW Rltb dq (seq 0 n))) in *.
    assert (Hs : (nth r N 0%nat < n)%nat) by (apply Lt, nth_In; rewrite L; exact Hr).
    exists (nth r N 0%nat). split; [exact Ea|]. split; [exact Hs|]. cbv zeta.
    destruct (T6 _ Hs) as (rt & i & _ & F2 & _ & F4 & _ & F6 & _ & _ & _ & _ & F11).
    rewrite F6. split; [exact F2|]. split; [exact F4|].
    rewrite Ea. unfold label_of, cluster_of, g'', propagate_labels. cbn [k_plabel k_clabel].
    rewrite T1. fold n. rewrite (nth_map_seq0 _ n _ Hs), F6.
    split; [reflexivity|]. split; [reflexivity|]. split; [exact F11 | exact (T13 _ Hs)].
  Qed.
  (* ---------- the batch on the fitted graphs ---------- *)

  Theorem knn_sup_batch_pointwise (g' : @knn R) (c mn mx : R) (qs : list (nat -> R)) :
    knn_sup_final ROps fmax thr one 1000 k labels gdens0 d e = (g', (c, mn, mx)) ->
    (forall dq, In dq qs -> forall j, (j < n)%nat -> dq j < fmax) ->
    knn_query_batch ROps fmax eps 1000 E (g', (c, mn, mx)) k qs
    = map (knn_query ROps fmax eps 1000 E (g', (c, mn, mx)) k) qs.
  Proof.
    intros Hfin Hqs. apply knn_query_batch_pointwise. cbn [fst].
    rewrite (proj1 (knn_sup_final_forest fmax thr one gdens0 k labels d e Hfm Hd g' c mn mx Hfin)).
    exact Hqs.
  Qed.

  Theorem unsup_batch_pointwise (g' : @knn R) (c mn mx : R) (qs : list (nat -> R)) :
    (k <= n - 1)%nat ->
    unsup_final ROps fmax thr one 1000 k labels gdens0 d e = (g', (c, mn, mx)) ->
    (forall dq, In dq qs -> forall j, (j < n)%nat -> dq j < fmax) ->
    knn_query_batch ROps fmax eps 1000 E (with_propagated_labels (g', (c, mn, mx))) k qs
    = map (knn_query ROps fmax eps 1000 E (g', (c, mn, mx)) k) qs /\
    knn_query_batch ROps fmax eps 1000 E (g', (c, mn, mx)) k qs
    = map (knn_query ROps fmax eps 1000 E (g', (c, mn, mx)) k) qs.
  Proof.
    intros Hk Hfin Hqs.
    assert (A : knn_query_batch ROps fmax eps 1000 E (g', (c, mn, mx)) k qs
                = map (knn_query ROps fmax eps 1000 E (g', (c, mn, mx)) k) qs).
    { apply knn_query_batch_pointwise. cbn [fst].
      rewrite (proj1 (unsup_final_forest fmax thr one gdens0 k labels d e Hk Hfm Hd g' c mn mx Hfin)).
      exact Hqs. }
    split; [|exact A]. rewrite <- A. reflexivity.
  Qed.
End Fitted.

(* the intended [E]: x |-> exp(-x / constant) lies in (0, 1] on non-negative distances *)
Lemma exp_term_01 (c : R) : 0 < c -> forall x, 0 <= x -> 0 <= exp (- x / c) <= 1.
Proof.
  intros Hc x Hx. split; [left; apply exp_pos|].
  rewrite <- exp_0. assert (H : - x / c <= 0).
  { unfold Rdiv. assert (0 < / c) by now apply Rinv_0_lt_compat.
    assert (0 <= x * / c) by (apply Rmult_le_pos; lra). lra. }
  destruct H as [H|H]; [left; now apply exp_increasing | rewrite H; lra].
Qed.

(* ---------- the actual exp terms: E x = exp(-x / constant) with the constant recorded by training ---------- *)

Theorem knn_sup_query_rule_exp (fmax thr one gdens0 eps : R) (k : nat) (labels : list nat)
        (d e : nat -> nat -> R) :
  let n := length labels in
  (1 <= k)%nat -> (k <= n)%nat -> 1 <= fmax ->
  (forall i j, (i < n)%nat -> (j < n)%nat -> i <> j -> 0 <= d i j < fmax) ->
  (forall i j, (i < n)%nat -> (j < n)%nat -> 0 <= e i j <= 1) ->
  0 < eps -> 999 <= eps * fmax ->
  forall (g' : @knn R) (c mn mx : R),
  knn_sup_final ROps fmax thr one 1000 k labels gdens0 d e = (g', (c, mn, mx)) ->
  0 < c ->
  forall dq : nat -> R, (forall j, (j < n)%nat -> 0 <= dq j < fmax) ->
  let E := fun x => exp (- x / c) in
  let answer := knn_query ROps fmax eps 1000 E (g', (c, mn, mx)) k dq in
  query_rule_R fmax eps k n E mn mx g' dq answer /\
  exists s, answer = Some s /\ (s < n)%nat /\ label_of g' answer = nth s labels 0%nat.
Proof.
  intros n Hk1 Hkn Hf1 Hd He Heps Hbig g' c mn mx Hfin Hc dq Hdq.
  exact (knn_sup_query_rule fmax thr one gdens0 eps k labels d e (fun x => exp (- x / c))
           Hk1 Hkn Hf1 Hd He Heps Hbig (exp_term_01 c Hc) g' c mn mx Hfin dq Hdq).
Qed.

Theorem unsup_query_rule_exp (fmax thr one gdens0 eps : R) (k : nat) (labels : list nat)
        (d e : nat -> nat -> R) :
  let n := length labels in
  (1 <= k)%nat -> (k <= n)%nat -> 1 <= fmax ->
  (forall i j, (i < n)%nat -> (j < n)%nat -> i <> j -> 0 <= d i j < fmax) ->
  (forall i j, (i < n)%nat -> (j < n)%nat -> 0 <= e i j <= 1) ->
  0 < eps -> 999 <= eps * fmax ->
  forall (g' : @knn R) (c mn mx : R),
  (k <= n - 1)%nat ->
  unsup_final ROps fmax thr one 1000 k labels gdens0 d e = (g', (c, mn, mx)) ->
  0 < c ->
  forall dq : nat -> R, (forall j, (j < n)%nat -> 0 <= dq j < fmax) ->
  let E := fun x => exp (- x / c) in
  let answer := knn_query ROps fmax eps 1000 E (g', (c, mn, mx)) k dq in
  let g'' := propagate_labels g' in
  query_rule_R fmax eps k n E mn mx g' dq answer /\
  knn_query ROps fmax eps 1000 E (with_propagated_labels (g', (c, mn, mx))) k dq = answer /\
  exists s, answer = Some s /\ (s < n)%nat /\
    let r := nth s (k_root g') 0%nat in
    (r < n)%nat /\ nth r (k_pred g') None = None /\
    label_of g'' answer = nth r labels 0%nat /\
    cluster_of g'' answer = nth s (k_clabel g') 0%nat /\
    nth s (k_clabel g') 0%nat = nth r (k_clabel g') 0%nat /\
    (nth s (k_clabel g') 0%nat < k_nclusters g')%nat.
Proof.
  intros n Hk1 Hkn Hf1 Hd He Heps Hbig g' c mn mx Hk Hfin Hc dq Hdq.
  exact (unsup_query_rule fmax thr one gdens0 eps k labels d e (fun x => exp (- x / c))
           Hk1 Hkn Hf1 Hd He Heps Hbig (exp_term_01 c Hc) g' c mn mx Hk Hfin dq Hdq).
Qed.
