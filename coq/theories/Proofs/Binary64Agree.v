(* When do binary64 with gradual underflow ([rnd64]) and binary64 without underflow ([rnd64x]) compute the same thing?
   Additions and subtractions of binary64 numbers NEVER differ (a result below 2^-1022 is a multiple of 2^-1074 and
   hence exact in both formats); neither do products of a binary64 number by an integer.  Only divisions (and
   general products) can: whenever the exact quotient is a non-zero number below 2^-1022.

   Consequence: calculate_pdf at [RndOps rnd64] equals calculate_pdf at [RndOps rnd64x] unless one of its 2 n + 1
   divisions underflows; so every theorem of Props/C12_binary64.v (proved for rnd64x, which is in the class
   [rounding]) holds for the run on primitive floats (Proofs/Binary64Pdf.v). *)
From Coq Require Import Reals List ZArith Bool Lia Lra Floats.
From Flocq Require Import Core.
From OPF Require Import Base.Lists Base.NumOps Base.NumOpsRnd Model.Pdf Model.MetricRnd
  Proofs.PdfBase Proofs.PdfReal Proofs.PdfRndBase Proofs.PdfRnd Model.Binary64 Proofs.Binary64 Proofs.Binary64Ops
  Proofs.Binary64Knn Proofs.Binary64Pdf.
Import ListNotations.
Local Open Scope R_scope.

Local Instance prec53 : Prec_gt_0 53 := eq_refl.

Definition fmt64 (t : R) : Prop := rnd64 t = t.                       (* t is a binary64 number (any magnitude) *)
Definition agree64 (t : R) : Prop := rnd64 t = rnd64x t.
Definition normal64 (t : R) : Prop := t = 0 \/ / 2 ^ 1022 <= Rabs t.  (* no underflow at t *)
Definition fix64 (t : R) : Prop := generic_format radix2 (FIX_exp (-1074)) t.   (* a multiple of 2^-1074 *)

Lemma fmt64_generic t : fmt64 t <-> generic_format radix2 (FLT_exp (-1074) 53) t.
Proof.
  split; intros H.
  - rewrite <- H. apply generic_format_round; auto with typeclass_instances.
  - apply round_generic; auto with typeclass_instances.
Qed.

Lemma fmt64_rnd64 t : fmt64 (rnd64 t).
Proof. apply rnd64_idem. Qed.

Lemma fmt64_f2r x : fmt64 (f2r x).
Proof. apply f2r_format. Qed.

Lemma fmt64_int z : (Z.abs z <= 2 ^ 53)%Z -> fmt64 (IZR z).
Proof. apply rnd64_int. Qed.

Lemma agree64_normal t : normal64 t -> agree64 t.
Proof.
  intros [->|H]; unfold agree64.
  - now rewrite rnd64_zero, rnd64x_zero.
  - apply rnd64_eq_rnd64x. now rewrite bpow_m1022.
Qed.

Lemma agree64_format t : fmt64 t -> agree64 t.
Proof.
  intros H. unfold agree64. rewrite H. symmetry. apply round_generic; [auto with typeclass_instances|].
  apply generic_format_FLX_FLT with (emin := (-1074)%Z). now apply fmt64_generic.
Qed.

Lemma fix64_of_fmt64 t : fmt64 t -> fix64 t.
Proof. intros H. apply generic_format_FIX_FLT with (prec := 53%Z). now apply fmt64_generic. Qed.

Lemma fix64_repr t : fix64 t <-> exists m : Z, t = IZR m * bpow radix2 (-1074).
Proof.
  split.
  - intros H. apply FIX_format_generic in H. destruct H as [[m e] E1 E2]. cbn [Fexp] in E2. subst e.
    exists m. exact E1.
  - intros [m ->]. apply generic_format_FIX. now apply FIX_spec with (Float radix2 m (-1074)).
Qed.

Lemma fix64_plus a b : fix64 a -> fix64 b -> fix64 (a + b).
Proof.
  rewrite !fix64_repr. intros [m ->] [m' ->]. exists (m + m')%Z. rewrite plus_IZR. ring.
Qed.

Lemma fix64_opp a : fix64 a -> fix64 (- a).
Proof. rewrite !fix64_repr. intros [m ->]. exists (- m)%Z. rewrite opp_IZR. ring. Qed.

Lemma fix64_mulZ z a : fix64 a -> fix64 (IZR z * a).
Proof. rewrite !fix64_repr. intros [m ->]. exists (z * m)%Z. rewrite mult_IZR. ring. Qed.

(* a multiple of 2^-1074 is rounded identically by both formats *)
Lemma agree64_fix t : fix64 t -> agree64 t.
Proof.
  intros H. destruct (Rle_or_lt (bpow radix2 (-1022)) (Rabs t)) as [L|L].
  - apply agree64_normal. right. now rewrite <- bpow_m1022.
  - apply agree64_format. apply fmt64_generic. apply generic_format_FLT_FIX; [auto with typeclass_instances | | exact H].
    apply Rlt_le. apply Rlt_le_trans with (1 := L). apply bpow_le. lia.
Qed.

Lemma agree64_add a b : fmt64 a -> fmt64 b -> agree64 (a + b).
Proof. intros Ha Hb. apply agree64_fix. apply fix64_plus; now apply fix64_of_fmt64. Qed.

Lemma agree64_sub a b : fmt64 a -> fmt64 b -> agree64 (a - b).
Proof.
  intros Ha Hb. apply agree64_fix. apply fix64_plus; [now apply fix64_of_fmt64|].
  apply fix64_opp. now apply fix64_of_fmt64.
Qed.

Lemma agree64_mulZ z a : fmt64 a -> agree64 (IZR z * a).
Proof. intros Ha. apply agree64_fix. apply fix64_mulZ. now apply fix64_of_fmt64. Qed.

(* ---------- the kernels ---------- *)
Lemma rsum_agree (l : list R) : Forall fmt64 l -> forall a, fmt64 a ->
  fold_left (fun s t => rnd64 (s + t)) l a = fold_left (fun s t => rnd64x (s + t)) l a.
Proof.
  induction 1 as [|x l Hx Hl IH]; intros a Ha; [reflexivity|].
  cbn [fold_left]. rewrite <- (agree64_add a x Ha Hx). apply IH. apply fmt64_rnd64.
Qed.

Lemma pdfv_agree k (e : nat -> R) :
  (forall l, (l < k)%nat -> fmt64 (e l)) ->
  agree64 (PdfRndBase.rsum rnd64 (map e (seq 0 k)) / IZR (Z.of_nat (S k))) ->
  pdfv rnd64 k e = pdfv rnd64x k e.
Proof.
  intros He Ha. unfold pdfv.
  assert (E : PdfRndBase.rsum rnd64 (map e (seq 0 k)) = PdfRndBase.rsum rnd64x (map e (seq 0 k))).
  { unfold PdfRndBase.rsum. apply rsum_agree; [apply Forall_map_seq; exact He|].
    unfold fmt64. exact rnd64_zero. }
  rewrite <- E. exact Ha.
Qed.

Lemma dmap_agree mn mx v :
  fmt64 mn -> fmt64 mx -> fmt64 v ->
  agree64 (rnd64 (999 * rnd64 (v - mn)) / rnd64 (mx - mn)) ->
  dmap rnd64 mn mx v = dmap rnd64x mn mx v /\ cmap rnd64 (dmap rnd64 mn mx v) = cmap rnd64x (dmap rnd64x mn mx v).
Proof.
  intros Hmn Hmx Hv Hq. unfold dmap, amap, cmap.
  rewrite <- (agree64_sub mx mn Hmx Hmn), <- (agree64_sub v mn Hv Hmn).
  rewrite <- (agree64_mulZ 999 (rnd64 (v - mn)) (fmt64_rnd64 _)).
  rewrite <- Hq.
  rewrite <- (agree64_add (rnd64 (rnd64 (999 * rnd64 (v - mn)) / rnd64 (mx - mn))) 1 (fmt64_rnd64 _) rnd64_one).
  split; [reflexivity|].
  apply agree64_sub; [apply fmt64_rnd64 | exact rnd64_one].
Qed.

Lemma minmax_fmt (l : list R) (a b mn mx : R) :
  fold_left (fun st v => let '(mn, mx) := st in (if Rltb v mn then v else mn, if Rltb mx v then v else mx)) l (a, b)
  = (mn, mx) ->
  fmt64 a -> fmt64 b -> Forall fmt64 l -> fmt64 mn /\ fmt64 mx.
Proof.
  intros H Ha Hb Hl.
  destruct (pdf_minmax_gen l 0 a b mn mx H) as [[_ [_ G3]] [_ [_ G6]]].
  rewrite Forall_forall in Hl. split.
  - destruct G3 as [->|G3]; [exact Ha | exact (Hl _ G3)].
  - destruct G6 as [->|G6]; [exact Hb | exact (Hl _ G6)].
Qed.

Theorem calculate_pdf_agree (fmax : R) (n k : nat) (gdens : R) (e : nat -> nat -> R) :
  fmt64 fmax -> fmt64 gdens ->
  (forall i l, (i < n)%nat -> (l < k)%nat -> fmt64 (e i l)) ->
  agree64 (rnd64 (2 * gdens) / 9) ->
  (forall i, (i < n)%nat -> agree64 (PdfRndBase.rsum rnd64 (map (e i) (seq 0 k)) / IZR (Z.of_nat (S k)))) ->
  (forall c mn mx dc, calculate_pdf (RndOps rnd64) fmax 1000 n k gdens e = (c, mn, mx, dc) -> mn <> mx ->
     forall i, (i < n)%nat ->
       agree64 (rnd64 (999 * rnd64 (pdf_value (RndOps rnd64) k (e i) - mn)) / rnd64 (mx - mn))) ->
  calculate_pdf (RndOps rnd64) fmax 1000 n k gdens e = calculate_pdf (RndOps rnd64x) fmax 1000 n k gdens e.
Proof.
  intros Hf Hg He Hc Hp Hq.
  destruct (calculate_pdf (RndOps rnd64) fmax 1000 n k gdens e) as [[[c mn] mx] dc] eqn:HC.
  specialize (Hq c mn mx dc eq_refl).
  rewrite calculate_pdf_RndOps in HC |- *. cbv zeta in HC |- *.
  assert (EP : map (fun i => pdfv rnd64 k (e i)) (seq 0 n) = map (fun i => pdfv rnd64x k (e i)) (seq 0 n)).
  { apply map_ext_in. intros i Hi. apply in_seq in Hi. apply pdfv_agree; [intros l Hl; apply He; lia | apply Hp; lia]. }
  rewrite <- EP.
  set (pdf := map (fun i => pdfv rnd64 k (e i)) (seq 0 n)) in *.
  assert (EM : pdf_minmax (RndOps rnd64) fmax pdf = pdf_minmax (RndOps rnd64x) fmax pdf).
  { rewrite !pdf_minmax_RndOps. rewrite <- (agree64_sub 0 fmax rnd64_zero Hf). reflexivity. }
  rewrite <- EM.
  destruct (pdf_minmax (RndOps rnd64) fmax pdf) as [mn0 mx0] eqn:MM. cbn [fst snd] in *.
  inversion HC as [[E1 E2 E3 E4]]. subst mn0 mx0. clear HC.
  assert (Fpdf : Forall fmt64 pdf).
  { apply Forall_forall. intros v Hv. apply in_map_iff in Hv. destruct Hv as [i [<- _]]. unfold pdfv. apply fmt64_rnd64. }
  assert (Fmm : fmt64 mn /\ fmt64 mx).
  { rewrite pdf_minmax_RndOps in MM. apply (minmax_fmt pdf _ _ _ _ MM Hf (fmt64_rnd64 _) Fpdf). }
  destruct Fmm as [Fmn Fmx].
  apply f_equal2.
  - apply f_equal2; [|reflexivity]. apply f_equal2; [|reflexivity].
    rewrite <- (agree64_mulZ 2 gdens Hg). exact Hc.
  - rewrite !pdf_scale_RndOps. destruct (Reqb mn mx) eqn:E; [reflexivity|].
    assert (Hne : mn <> mx).
    { intros Heq. unfold Reqb in E. destruct (Req_EM_T mn mx); [discriminate | contradiction]. }
    unfold pdf. rewrite !map_map. apply map_ext_in. intros i Hi. apply in_seq in Hi.
    destruct (dmap_agree mn mx (pdfv rnd64 k (e i)) Fmn Fmx (fmt64_rnd64 _) (Hq Hne i ltac:(lia))) as [D1 D2].
    now rewrite D2, D1.
Qed.

(* ---------- capstone: facts about the floats the PrimFloat run returns ---------- *)
Definition fzz : PrimFloat.float * PrimFloat.float := (PrimFloat.zero, PrimFloat.zero).

Theorem calculate_pdf_float_facts (fmax gdens : PrimFloat.float) (n k : nat) (e : nat -> nat -> PrimFloat.float)
    (c mn mx : PrimFloat.float) (dc : list (PrimFloat.float * PrimFloat.float)) :
  ffin fmax = true -> 1 <= f2r fmax ->
  ffin gdens = true -> fits64 (2 * f2r gdens) ->
  (Z.of_nat (S k) <= 2 ^ 53)%Z ->
  (forall i l, (i < n)%nat -> (l < k)%nat -> ffin (e i l) = true /\ 0 <= f2r (e i l) <= 1) ->
  calculate_pdf FOps fmax 1000 n k gdens e = (c, mn, mx, dc) ->
  (* no division underflows *)
  normal64 (rnd64 (2 * f2r gdens) / 9) ->
  (forall i, (i < n)%nat ->
     normal64 (PdfRndBase.rsum rnd64 (map (fun l => f2r (e i l)) (seq 0 k)) / IZR (Z.of_nat (S k)))) ->
  (f2r mn <> f2r mx -> forall i, (i < n)%nat ->
     normal64 (rnd64 (999 * rnd64 (f2r (pdf_value FOps k (e i)) - f2r mn)) / rnd64 (f2r mx - f2r mn))) ->
  calculate_pdf (RndOps rnd64x) (f2r fmax) 1000 n k (f2r gdens) (fun i l => f2r (e i l))
  = (f2r c, f2r mn, f2r mx, map pair2r dc) /\
  length dc = n /\
  (forall i, (i < n)%nat ->
     f2r (pdf_value FOps k (e i)) = pdf_value (RndOps rnd64x) k (fun l => f2r (e i l))) /\
  ((1 <= n)%nat -> forall i, (i < n)%nat ->
     1 <= f2r (fst (nth i dc fzz)) <= 7994 /\ 0 <= f2r (snd (nth i dc fzz)) /\
     PrimFloat.ltb (snd (nth i dc fzz)) (fst (nth i dc fzz)) = true) /\
  ((1 <= n)%nat -> forall i j, (i < n)%nat -> (j < n)%nat ->
     PrimFloat.ltb (fst (nth i dc fzz)) (fst (nth j dc fzz)) = true ->
     PrimFloat.ltb (pdf_value FOps k (e i)) (pdf_value FOps k (e j)) = true).
Proof.
  intros Ff Hf1 Fg Hg Hk He H U1 U2 U3.
  destruct (calculate_pdf_refines fmax gdens n k e c mn mx dc Ff Hf1 Fg Hg Hk He H) as (Fc & Fmn & Fmx & Fdc & E).
  (* unmapped values *)
  assert (PV : forall i, (i < n)%nat ->
            ffin (pdf_value FOps k (e i)) = true /\
            f2r (pdf_value FOps k (e i)) = pdf_value (RndOps rnd64) k (fun l => f2r (e i l))).
  { intros i Hi. exact (proj1 (pdf_value_refines k (e i) Hk (fun l Hl => He i l Hi Hl))). }
  assert (AG : calculate_pdf (RndOps rnd64) (f2r fmax) 1000 n k (f2r gdens) (fun i l => f2r (e i l))
               = calculate_pdf (RndOps rnd64x) (f2r fmax) 1000 n k (f2r gdens) (fun i l => f2r (e i l))).
  { apply calculate_pdf_agree.
    - apply fmt64_f2r.
    - apply fmt64_f2r.
    - intros i l _ _. apply fmt64_f2r.
    - apply agree64_normal. exact U1.
    - intros i Hi. apply agree64_normal. exact (U2 i Hi).
    - intros c' mn' mx' dc' H' Hne i Hi. rewrite E in H'. inversion H'; subst c' mn' mx' dc'.
      apply agree64_normal. rewrite <- (proj2 (PV i Hi)). exact (U3 Hne i Hi). }
  rewrite AG in E.
  assert (PVx : forall i, (i < n)%nat ->
            f2r (pdf_value FOps k (e i)) = pdf_value (RndOps rnd64x) k (fun l => f2r (e i l))).
  { intros i Hi. rewrite (proj2 (PV i Hi)), !pdf_value_RndOps. apply pdfv_agree.
    - intros l _. apply fmt64_f2r.
    - apply agree64_normal. exact (U2 i Hi). }
  split; [exact E|].
  assert (Hlen : (1 <= n)%nat -> length dc = n).
  { intros Hn. pose proof (b64_calculate_pdf _ _ _ _ _ _ _ _ _ Hn E) as S. cbv zeta in S.
    destruct S as (_ & S2 & _). now rewrite map_length in S2. }
  assert (Hlen0 : length dc = n).
  { clear -H. unfold calculate_pdf in H.
    destruct (pdf_minmax FOps fmax (map (fun i => pdf_value FOps k (e i)) (seq 0 n))) as [a b].
    apply (f_equal snd) in H. cbn [snd] in H. rewrite <- H. unfold pdf_scale.
    destruct (neqb FOps a b); rewrite !map_length; apply seq_length. }
  split; [exact Hlen0|]. split; [exact PVx|].
  assert (NTH : forall i, (i < n)%nat -> nth i (map pair2r dc) (0, 0) = pair2r (nth i dc fzz)).
  { intros i Hi. rewrite (nth_indep _ (0, 0) (pair2r fzz)) by (rewrite map_length; lia). apply map_nth. }
  assert (FIN : forall i, (i < n)%nat -> pairfin (nth i dc fzz)).
  { intros i Hi. rewrite Forall_forall in Fdc. apply Fdc. apply nth_In. lia. }
  split.
  - intros Hn i Hi. pose proof (b64_calculate_pdf _ _ _ _ _ _ _ _ _ Hn E) as S. cbv zeta in S.
    destruct S as (_ & _ & _ & _ & _ & _ & _ & _ & _ & _ & S11 & _).
    specialize (S11 i Hi). rewrite (NTH i Hi) in S11. unfold pair2r in S11. cbn [fst snd] in S11.
    destruct S11 as [S11a [S11b S11c]]. split; [exact S11a|]. split; [exact S11b|].
    destruct (FIN i Hi) as [F1 F2]. rewrite (f2r_ltb _ _ F2 F1). apply Rltb_true_iff. exact S11c.
  - intros Hn i j Hi Hj L. pose proof (b64_calculate_pdf _ _ _ _ _ _ _ _ _ Hn E) as S. cbv zeta in S.
    destruct S as (_ & _ & _ & _ & _ & _ & _ & _ & S9 & _).
    destruct (S9 i j Hi Hj) as (_ & _ & S9c).
    rewrite (NTH i Hi), (NTH j Hj) in S9c. unfold pair2r in S9c. cbn [fst snd] in S9c.
    destruct (FIN i Hi) as [Fi _]. destruct (FIN j Hj) as [Fj _].
    rewrite (f2r_ltb _ _ Fi Fj) in L. apply Rltb_true_iff in L. specialize (S9c L).
    rewrite (f2r_ltb _ _ (proj1 (PV i Hi)) (proj1 (PV j Hj))). apply Rltb_true_iff.
    rewrite (PVx i Hi), (PVx j Hj). exact S9c.
Qed.
