(* C02 for an arbitrary strict total order: the prototype-selection pass (Prim) computes a
   minimax spanning tree and marks exactly the endpoints of its class-crossing arcs.  Lifted
   from Props/C02.v (W := Z) along the rank map of
   [vals := zero :: top :: extra ++ weights below n] (method: see LiftSup.v). *)
From Coq Require Import List Arith Bool ZArith Lia Permutation.
From OPF Require Import Base.Lists Base.TotalOrder Model.Heap Model.Sup Spec.Paths Spec.Trees.
From OPF Require Import Proofs.ParamBase Proofs.ParamSup Proofs.Rescale Proofs.WeightsExtBounded
  Proofs.OrderEmbed Proofs.LiftSup Props.C02.
Import ListNotations.
Close Scope Z_scope.

(* the nodes of an arc on a path are nodes of the path *)
Lemma arc_on_lt n pi a b : Forall (fun v => v < n) pi -> arc_on pi a b -> a < n /\ b < n.
Proof.
  intros H (l1 & l2 & ->). rewrite Forall_forall in H.
  split; apply H; apply in_or_app; right; [now left | right; now left].
Qed.

Section Rank.
  Context {W : Type} (ltb : W -> W -> bool).
  Hypothesis O : strict_total_order ltb.
  Variables (zero top : W) (n : nat) (w : nat -> nat -> W) (labels : list nat).
  Variable extra : list W.

  Local Notation vals := (zero :: top :: extra ++ weight_vals n w).
  Local Notation r := (rk ltb vals).
  Local Notation wZ := (fun p q => rk ltb vals (clip2 n zero w p q)).

  Lemma prim_in_zero : In zero vals.
  Proof. now left. Qed.
  Lemma prim_in_top : In top vals.
  Proof. right; now left. Qed.
  Lemma prim_in_extra m : In m extra -> In m vals.
  Proof. intros H. right; right. apply in_or_app. now left. Qed.
  Lemma prim_in_w p q : p < n -> q < n -> In (w p q) vals.
  Proof. intros Hp Hq. right; right. apply in_or_app. right. now apply weight_vals_in. Qed.

  Lemma prim_wZ p q : p < n -> q < n -> wZ p q = r (w p q).
  Proof. intros Hp Hq. cbv beta. now rewrite clip2_below. Qed.

  (* the run at Z on the ranked weights is the ranked run *)
  Lemma prim_rank :
    find_prototypes Z.ltb (r top) n wZ (nodes_init (r zero) labels)
    = map_nodes r (find_prototypes ltb top n w (nodes_init zero labels)).
  Proof.
    assert (Hwc : forall p q, In (clip2 n zero w p q) vals).
    { intros p q. apply clip2_in; [apply prim_in_zero | apply prim_in_w]. }
    assert (Hinit : Forall (fun a => In a vals) (n_cost (nodes_init zero labels))).
    { unfold nodes_init; cbn [n_cost]. apply Forall_forall. intros a Ha.
      apply repeat_spec in Ha. subst. apply prim_in_zero. }
    destruct (rescale_find_prototypes_on (fun a => In a vals) r ltb Z.ltb (rk_ltb ltb O vals)
                top n (clip2 n zero w) (nodes_init zero labels) prim_in_top Hwc Hinit) as [_ E].
    rewrite <- (find_prototypes_ext_bounded ltb top n w (clip2 n zero w)) in E
      by (intros p q Hp Hq; symmetry; now apply clip2_below).
    rewrite <- E. f_equal.
    unfold map_nodes, nodes_init; cbn [n_cost n_pred n_label n_plabel n_status n_relevant n_order].
    now rewrite map_repeat_eq.
  Qed.

  Lemma prim_wZ_top :
    (forall p q, p < n -> q < n -> p <> q -> ltb (w p q) top = true) ->
    forall p q, p < n -> q < n -> p <> q -> (wZ p q < r top)%Z.
  Proof.
    intros Hw p q Hp Hq Hpq. cbv beta. rewrite (prim_wZ p q Hp Hq).
    exact (proj2 (rk_lt_iff ltb O vals _ _ (prim_in_w p q Hp Hq) prim_in_top) (Hw p q Hp Hq Hpq)).
  Qed.

  Lemma prim_wZ_sym :
    (forall p q, p < n -> q < n -> w p q = w q p) ->
    forall p q, p < n -> q < n -> wZ p q = wZ q p.
  Proof. intros Hs p q Hp Hq. cbv beta. rewrite (prim_wZ p q Hp Hq), (prim_wZ q p Hq Hp). now rewrite Hs. Qed.
End Rank.

Section LiftPrim.
  Context {W : Type} (ltb : W -> W -> bool).
  Hypothesis O : strict_total_order ltb.
  Variables (zero top : W) (n : nat) (w : nat -> nat -> W) (labels : list nat).
  Hypothesis n_pos : 1 <= n.
  Hypothesis labels_len : length labels = n.
  Hypothesis w_top : forall p q, p < n -> q < n -> p <> q -> ltb (w p q) top = true.

  Let nd := find_prototypes ltb top n w (nodes_init zero labels).
  Let pred := fun q => nth q (n_pred nd) None.

  (* instantiate a theorem of Props/C02.v at the ranked run and rewrite it to the run on W *)
  Local Notation valsE extra := (zero :: top :: extra ++ weight_vals n w).
  Local Notation wZE extra := (fun p q => rk ltb (valsE extra) (clip2 n zero w p q)).

  Local Ltac at_rank lemma H extra :=
    pose proof (lemma (rk ltb (valsE extra) zero) (rk ltb (valsE extra) top) n (wZE extra) labels
                      n_pos labels_len (prim_wZ_top ltb O zero top n w extra w_top)) as H;
    cbv zeta in H; rewrite (prim_rank ltb O zero top n w labels extra) in H.

  Theorem prim_spanning_tree_anyorder :
    pred 0 = None /\
    (exists ord, Permutation ord (seq 0 n) /\
       forall q, 0 < q < n -> exists p, pred q = Some p /\ p < n /\ before ord p q) /\
    (forall q, q < n -> root_of pred q 0).
  Proof.
    at_rank C02_prim_spanning_tree H (@nil W). exact H.
  Qed.

  Theorem prim_tree_connected_anyorder :
    forall u v, u < n -> v < n -> exists tp, tree_path_rel n pred u v tp.
  Proof.
    at_rank C02_prim_tree_connected H (@nil W). exact H.
  Qed.

  Theorem prototypes_exact_anyorder :
    forall q, q < n ->
      (nth q (n_status nd) false = true <->
       exists r, (pred q = Some r \/ pred r = Some q) /\ r < n /\
                 nth q labels 0 <> nth r labels 0).
  Proof.
    at_rank C02_prototypes_exact H (@nil W). exact H.
  Qed.

  Theorem every_class_has_prototype_anyorder :
    (exists a b, a < n /\ b < n /\ nth a labels 0 <> nth b labels 0) ->
    forall q, q < n ->
      exists s, s < n /\ nth s (n_status nd) false = true /\ nth s labels 0 = nth q labels 0.
  Proof.
    at_rank C02_every_class_has_prototype H (@nil W). exact H.
  Qed.

  Theorem prototypes_nonempty_anyorder :
    (exists a b, a < n /\ b < n /\ nth a labels 0 <> nth b labels 0) ->
    exists s, s < n /\ nth s (n_status nd) false = true.
  Proof.
    at_rank C02_prototypes_nonempty H (@nil W). exact H.
  Qed.

  Theorem prim_spanning_parent_map_anyorder : spanning_parent_map n pred.
  Proof.
    at_rank C02_prim_spanning_parent_map H (@nil W). exact H.
  Qed.

  Theorem find_prototypes_lengths_anyorder :
    length (n_cost nd) = n /\ length (n_pred nd) = n /\ length (n_status nd) = n /\
    n_label nd = labels /\ n_plabel nd = repeat 0 n /\
    n_relevant nd = repeat false n /\ n_order nd = [].
  Proof.
    at_rank C02_find_prototypes_lengths H (@nil W).
    unfold map_nodes in H; cbn [n_cost n_pred n_label n_plabel n_status n_relevant n_order] in H.
    rewrite map_length in H. exact H.
  Qed.

  (* minimum spanning tree, order-only form: every tree path is a minimax path *)
  Theorem prim_minimax_tree_anyorder :
    (forall p q, p < n -> q < n -> w p q = w q p) ->
    forall (m : W) u v tp pi,
      tree_path_rel n pred u v tp -> path_from_to n u v pi ->
      ltb (pathmaxW ltb w m pi) (pathmaxW ltb w m tp) = false.
  Proof.
    intros Hsym m u v tp pi Htp Hpi.
    at_rank C02_prim_minimax_tree H [m].
    specialize (H (prim_wZ_sym ltb zero top n w [m] Hsym) (rk ltb (valsE [m]) m) u v tp pi Htp Hpi).
    assert (Hm : In m (valsE [m])) by (apply prim_in_extra; now left).
    destruct (pathmax_transfer ltb O (valsE [m]) n w (wZE [m]) m tp Hm
                (prim_in_w zero top n w [m]) (prim_wZ ltb zero top n w [m])) as [T1 T2].
    { destruct Htp as (((_ & Hall) & _) & _). exact Hall. }
    destruct (pathmax_transfer ltb O (valsE [m]) n w (wZE [m]) m pi Hm
                (prim_in_w zero top n w [m]) (prim_wZ ltb zero top n w [m])) as [P1 P2].
    { destruct Hpi as ((_ & Hall) & _). exact Hall. }
    rewrite T2, P2 in H.
    exact (proj1 (rk_le_iff ltb O (valsE [m]) _ _ T1 P1) H).
  Qed.

  (* cycle property: no arc on the tree path between u and v is heavier than the arc (u, v) *)
  Theorem prim_cycle_optimal_anyorder :
    (forall p q, p < n -> q < n -> w p q = w q p) ->
    forall u v tp, u < n -> v < n -> tree_path_rel n pred u v tp ->
    forall a b, arc_on tp a b -> ltb (w u v) (w a b) = false.
  Proof.
    intros Hsym u v tp Hu Hv Htp a b Hab.
    at_rank C02_prim_cycle_optimal H (@nil W).
    specialize (H (prim_wZ_sym ltb zero top n w [] Hsym) u v tp Hu Hv Htp a b Hab).
    destruct (arc_on_lt n tp a b) as [Ha Hb]; [|exact Hab|].
    { destruct Htp as (((_ & Hall) & _) & _). exact Hall. }
    rewrite (prim_wZ ltb zero top n w [] a b Ha Hb), (prim_wZ ltb zero top n w [] u v Hu Hv) in H.
    exact (proj1 (rk_le_iff ltb O _ _ _ (prim_in_w zero top n w [] a b Ha Hb)
                            (prim_in_w zero top n w [] u v Hu Hv)) H).
  Qed.

  (* uniqueness: with pairwise distinct weights the tree arcs, hence the prototypes, are
     characterised by the weights and labels alone *)
  Definition distinct_weightsW : Prop :=
    forall a b c d, a < n -> b < n -> c < n -> d < n -> a <> b -> c <> d ->
      w a b = w c d -> (a = c /\ b = d) \/ (a = d /\ b = c).

  Definition sole_minimax_arcW (u v : nat) : Prop :=
    forall pi, path_from_to n u v pi -> NoDup pi -> pi <> [u; v] ->
      exists a b, arc_on pi a b /\ ltb (w u v) (w a b) = true.

  Lemma distinct_weights_rank :
    distinct_weightsW ->
    distinct_weights n (fun p q => rk ltb (zero :: top :: [] ++ weight_vals n w) (clip2 n zero w p q)).
  Proof.
    intros Hd a b c d Ha Hb Hc Hd' Hab Hcd E. cbv beta in E.
    rewrite !clip2_below in E by assumption.
    apply (rk_inj ltb O) in E; [|apply prim_in_w; assumption|apply prim_in_w; assumption].
    now apply Hd.
  Qed.

  Lemma sole_minimax_arc_rank u v : u < n -> v < n ->
    (sole_minimax_arc n (fun p q => rk ltb (zero :: top :: [] ++ weight_vals n w) (clip2 n zero w p q)) u v
     <-> sole_minimax_arcW u v).
  Proof.
    intros Hu Hv. split; intros H pi Hpi Hnd Hne; destruct (H pi Hpi Hnd Hne) as (a & b & Hab & Hlt);
      exists a, b; (split; [exact Hab|]);
      (destruct (arc_on_lt n pi a b) as [Ha Hb];
        [destruct Hpi as ((_ & Hall) & _); exact Hall | exact Hab |]).
    - rewrite (prim_wZ ltb zero top n w [] a b Ha Hb), (prim_wZ ltb zero top n w [] u v Hu Hv) in Hlt.
      exact (proj1 (rk_lt_iff ltb O _ _ _ (prim_in_w zero top n w [] u v Hu Hv)
                              (prim_in_w zero top n w [] a b Ha Hb)) Hlt).
    - rewrite (prim_wZ ltb zero top n w [] a b Ha Hb), (prim_wZ ltb zero top n w [] u v Hu Hv).
      exact (proj2 (rk_lt_iff ltb O _ _ _ (prim_in_w zero top n w [] u v Hu Hv)
                              (prim_in_w zero top n w [] a b Ha Hb)) Hlt).
  Qed.

  Theorem prim_tree_characterised_anyorder :
    (forall p q, p < n -> q < n -> w p q = w q p) ->
    distinct_weightsW ->
    forall u v, u < n -> v < n -> u <> v ->
      (tree_arc pred u v <-> sole_minimax_arcW u v).
  Proof.
    intros Hsym Hd u v Hu Hv Huv.
    at_rank C02_prim_tree_characterised H (@nil W).
    specialize (H (prim_wZ_sym ltb zero top n w [] Hsym) (distinct_weights_rank Hd) u v Hu Hv Huv).
    rewrite <- (sole_minimax_arc_rank u v Hu Hv). exact H.
  Qed.

  Theorem prototypes_characterised_anyorder :
    (forall p q, p < n -> q < n -> w p q = w q p) ->
    distinct_weightsW ->
    forall q, q < n ->
      (nth q (n_status nd) false = true <->
       exists r, r < n /\ nth q labels 0 <> nth r labels 0 /\ sole_minimax_arcW q r).
  Proof.
    intros Hsym Hd q Hq.
    at_rank C02_prototypes_characterised H (@nil W).
    specialize (H (prim_wZ_sym ltb zero top n w [] Hsym) (distinct_weights_rank Hd) q Hq).
    destruct H as [H1 H2]. split.
    - intros Hs. destruct (H1 Hs) as (x & Hx & Hl & Hsole). exists x.
      split; [exact Hx|]. split; [exact Hl|]. now apply (sole_minimax_arc_rank q x Hq Hx).
    - intros (x & Hx & Hl & Hsole). apply H2. exists x.
      split; [exact Hx|]. split; [exact Hl|]. now apply (sole_minimax_arc_rank q x Hq Hx).
  Qed.
End LiftPrim.

(* C02 feeds C01: two classes present suffice for the premise "some prototype exists" of
   [sup_fit_anyorder] *)
Theorem sup_fit_anyorder_two_classes {W : Type} (ltb : W -> W -> bool) :
  strict_total_order ltb ->
  forall (zero top : W) (labels : list nat) (w : nat -> nat -> W),
  let n := length labels in
  let fp := find_prototypes ltb top n w (nodes_init zero labels) in
  let isproto q := nth q (n_status fp) false = true in
  ltb zero top = true ->
  (forall p q, p < n -> q < n -> p <> q -> ltb (w p q) zero = false /\ ltb (w p q) top = true) ->
  (exists a b, a < n /\ b < n /\ nth a labels 0 <> nth b labels 0) ->
  let nd := sup_fit ltb zero top labels w in
  opf_spec_W ltb n w zero nd isproto labels /\
  n_status nd = n_status fp /\ n_label nd = labels.
Proof.
  intros O zero top labels w n fp isproto Hzt Hw Hcls nd.
  apply (sup_fit_anyorder ltb O zero top labels w Hzt Hw).
  apply (prototypes_nonempty_anyorder ltb O zero top n w labels); auto.
  - destruct Hcls as (a & _ & Ha & _). lia.
  - intros p q Hp Hq Hpq. apply (Hw p q Hp Hq Hpq).
Qed.
