(* C08, non-negativity and zero self-distance: the metrics whose proof is pointwise
   (the analytic ones are in MetricAnalytic.v). *)
From Coq Require Import Reals List Lra Lia.
From OPF Require Import Spec.MetricSpec Proofs.MetricLemmas.
Import ListNotations.
Open Scope R_scope.

Ltac pointwise_on Hx Hy :=
  apply (sum2_nonneg_on _ _ _ _ _ Hx Hy); cbv beta; intros a b Ha Hb.

Lemma Rabs_diag a : Rabs (a - a) = 0.
Proof. rewrite Rminus_diag_eq by reflexivity. apply Rabs_R0. Qed.

Lemma MAX_ARC_WEIGHT_pos : 0 < MAX_ARC_WEIGHT.
Proof. unfold MAX_ARC_WEIGHT; lra. Qed.

Lemma len_pos x : (1 <= length x)%nat -> 0 < len x.
Proof. intros H. unfold len. apply lt_0_INR. lia. Qed.

Lemma map2_Forall_diag (T : R -> Prop) (f : R -> R -> R) x :
  (forall a, T (f a a)) -> Forall T (map2 f x x).
Proof. intros H; induction x as [|a x IH]; simpl; constructor; auto. Qed.

(* ================================================================== *)
(* L_p family (domain: all reals)                                      *)
(* ================================================================== *)
Lemma nonneg_squared_euclidean : forall x y, length x = length y -> (1 <= length x)%nat -> 0 <= sp_squared_euclidean x y.
Proof. intros x y _ _. apply sum2_nonneg. intros; apply pow2_ge_0. Qed.

Lemma zero_self_squared_euclidean : forall x, (1 <= length x)%nat -> sp_squared_euclidean x x = 0.
Proof. intros x _. apply sum2_diag_zero. intros; ring. Qed.

Lemma nonneg_euclidean : forall x y, length x = length y -> (1 <= length x)%nat -> 0 <= sp_euclidean x y.
Proof. intros x y _ _. apply sqrt_pos. Qed.

Lemma zero_self_euclidean : forall x, (1 <= length x)%nat -> sp_euclidean x x = 0.
Proof. intros x H. unfold sp_euclidean. rewrite (zero_self_squared_euclidean x H). apply sqrt_0. Qed.

Lemma nonneg_average_euclidean : forall x y, length x = length y -> (1 <= length x)%nat -> 0 <= sp_average_euclidean x y.
Proof. intros x y _ _. apply sqrt_pos. Qed.

Lemma zero_self_average_euclidean : forall x, (1 <= length x)%nat -> sp_average_euclidean x x = 0.
Proof.
  intros x H. unfold sp_average_euclidean.
  rewrite (zero_self_squared_euclidean x H), zero_div. apply sqrt_0.
Qed.

Lemma nonneg_manhattan : forall x y, length x = length y -> (1 <= length x)%nat -> 0 <= sp_manhattan x y.
Proof. intros x y _ _. apply sum2_nonneg. intros; apply Rabs_pos. Qed.

Lemma zero_self_manhattan : forall x, (1 <= length x)%nat -> sp_manhattan x x = 0.
Proof. intros x _. apply sum2_diag_zero. apply Rabs_diag. Qed.

Lemma nonneg_chebyshev : forall x y, length x = length y -> (1 <= length x)%nat -> 0 <= sp_chebyshev x y.
Proof.
  intros x y _ _. apply lmax_nonneg.
  apply (map2_Forall (fun c => 0 <= c)). intros; apply Rabs_pos.
Qed.

Lemma zero_self_chebyshev : forall x, (1 <= length x)%nat -> sp_chebyshev x x = 0.
Proof.
  intros x _. apply lmax_zeros.
  apply (map2_Forall_diag (fun c => c = 0)). apply Rabs_diag.
Qed.

Lemma nonneg_gower : forall x y, length x = length y -> (1 <= length x)%nat -> 0 <= sp_gower x y.
Proof.
  intros x y Hl H1. apply div_nonneg; [now apply nonneg_manhattan | now apply len_pos].
Qed.

Lemma zero_self_gower : forall x, (1 <= length x)%nat -> sp_gower x x = 0.
Proof. intros x H. unfold sp_gower. rewrite (zero_self_manhattan x H). apply zero_div. Qed.

Lemma nonneg_non_intersection : forall x y, length x = length y -> (1 <= length x)%nat -> 0 <= sp_non_intersection x y.
Proof.
  intros x y Hl H1. unfold sp_non_intersection.
  pose proof (nonneg_manhattan x y Hl H1). lra.
Qed.

Lemma zero_self_non_intersection : forall x, (1 <= length x)%nat -> sp_non_intersection x x = 0.
Proof. intros x H. unfold sp_non_intersection. rewrite (zero_self_manhattan x H). ring. Qed.

Lemma nonneg_hamming : forall x y, length x = length y -> (1 <= length x)%nat -> 0 <= sp_hamming x y.
Proof.
  intros x y _ _. unfold sp_hamming. rewrite count2_sum2.
  apply sum2_nonneg. intros a b. destruct (Rneqb a b); lra.
Qed.

Lemma zero_self_hamming : forall x, (1 <= length x)%nat -> sp_hamming x x = 0.
Proof.
  intros x _. unfold sp_hamming. rewrite count2_sum2.
  apply sum2_diag_zero. intros a. now rewrite Rneqb_refl.
Qed.

Lemma nonneg_mean_censored_euclidean : forall x y, length x = length y -> (1 <= length x)%nat -> 0 <= sp_mean_censored_euclidean x y.
Proof. intros x y _ _. apply sqrt_pos. Qed.

Lemma zero_self_mean_censored_euclidean : forall x, (1 <= length x)%nat -> sp_mean_censored_euclidean x x = 0.
Proof.
  intros x H. unfold sp_mean_censored_euclidean.
  rewrite (zero_self_squared_euclidean x H), zero_div. apply sqrt_0.
Qed.

Lemma nonneg_log_euclidean : forall x y, length x = length y -> (1 <= length x)%nat -> 0 <= sp_log_euclidean x y.
Proof.
  intros x y Hl H1. unfold sp_log_euclidean.
  apply Rmult_le_pos; [left; apply MAX_ARC_WEIGHT_pos|].
  apply ln_nonneg. pose proof (nonneg_euclidean x y Hl H1). lra.
Qed.

Lemma zero_self_log_euclidean : forall x, (1 <= length x)%nat -> sp_log_euclidean x x = 0.
Proof.
  intros x H. unfold sp_log_euclidean.
  rewrite (zero_self_euclidean x H), Rplus_0_l, ln_1. ring.
Qed.

Lemma nonneg_log_squared_euclidean : forall x y, length x = length y -> (1 <= length x)%nat -> 0 <= sp_log_squared_euclidean x y.
Proof.
  intros x y Hl H1. unfold sp_log_squared_euclidean.
  apply Rmult_le_pos; [left; apply MAX_ARC_WEIGHT_pos|].
  apply ln_nonneg. pose proof (nonneg_squared_euclidean x y Hl H1). lra.
Qed.

Lemma zero_self_log_squared_euclidean : forall x, (1 <= length x)%nat -> sp_log_squared_euclidean x x = 0.
Proof.
  intros x H. unfold sp_log_squared_euclidean.
  rewrite (zero_self_squared_euclidean x H), Rplus_0_l, ln_1. ring.
Qed.

(* gaussian is a similarity: 1 at identity, positive, at most 1 for gamma >= 0 *)
Lemma gaussian_self : forall g x, sp_gaussian g x x = 1.
Proof.
  intros g x. unfold sp_gaussian, sp_euclidean, sp_squared_euclidean.
  rewrite sum2_diag_zero by (intros; ring).
  rewrite sqrt_0, Rmult_0_r. apply exp_0.
Qed.

Lemma gaussian_pos : forall g x y, 0 < sp_gaussian g x y.
Proof. intros g x y. apply exp_pos. Qed.

Lemma gaussian_le_1 : forall g x y, 0 <= g -> sp_gaussian g x y <= 1.
Proof.
  intros g x y Hg. unfold sp_gaussian. rewrite <- exp_0.
  assert (H : - g * sp_euclidean x y <= 0).
  { pose proof (sqrt_pos (sp_squared_euclidean x y)). unfold sp_euclidean. nra. }
  destruct H as [H|H]; [left; now apply exp_increasing | rewrite H; lra].
Qed.

(* ================================================================== *)
(* L1 family                                                           *)
(* ================================================================== *)
Lemma nonneg_lorentzian : forall x y, length x = length y -> (1 <= length x)%nat -> 0 <= sp_lorentzian x y.
Proof.
  intros x y _ _. apply sum2_nonneg. intros a b.
  apply ln_nonneg. pose proof (Rabs_pos (a - b)). lra.
Qed.

Lemma zero_self_lorentzian : forall x, (1 <= length x)%nat -> sp_lorentzian x x = 0.
Proof.
  intros x _. apply sum2_diag_zero. intros a.
  rewrite Rabs_diag, Rplus_0_r. apply ln_1.
Qed.

Lemma nonneg_bray_curtis : forall x y, length x = length y -> (1 <= length x)%nat -> all_pos x -> all_pos y -> 0 <= sp_bray_curtis x y.
Proof.
  intros x y Hl H1 Hx Hy. apply div_nonneg.
  - apply sum2_nonneg. intros; apply Rabs_pos.
  - apply (sum2_pos_on _ _ _ _ _ Hl H1 Hx Hy). intros; lra.
Qed.

Lemma zero_self_bray_curtis : forall x, (1 <= length x)%nat -> sp_bray_curtis x x = 0.
Proof.
  intros x _. unfold sp_bray_curtis.
  rewrite (sum2_diag_zero (fun a b => Rabs (a - b))) by apply Rabs_diag. apply zero_div.
Qed.

(* holds for all reals: a zero denominator forces a zero numerator *)
Lemma nonneg_canberra : forall x y, length x = length y -> (1 <= length x)%nat -> 0 <= sp_canberra x y.
Proof.
  intros x y _ _. apply sum2_nonneg. intros a b.
  pose proof (Rabs_pos a). pose proof (Rabs_pos b).
  destruct (Req_dec (Rabs a + Rabs b) 0) as [E|E].
  - rewrite E. unfold Rdiv. rewrite Rinv_0. lra.
  - apply div_nonneg; [apply Rabs_pos | lra].
Qed.

Lemma zero_self_canberra : forall x, (1 <= length x)%nat -> sp_canberra x x = 0.
Proof.
  intros x _. apply sum2_diag_zero. intros a. rewrite Rabs_diag. apply zero_div.
Qed.

Lemma nonneg_kulczynski : forall x y, length x = length y -> (1 <= length x)%nat -> all_pos x -> all_pos y -> 0 <= sp_kulczynski x y.
Proof.
  intros x y Hl H1 Hx Hy. apply div_nonneg.
  - apply sum2_nonneg. intros; apply Rabs_pos.
  - apply (sum2_pos_on _ _ _ _ _ Hl H1 Hx Hy). intros; now apply Rmin_pos.
Qed.

Lemma zero_self_kulczynski : forall x, (1 <= length x)%nat -> sp_kulczynski x x = 0.
Proof.
  intros x _. unfold sp_kulczynski.
  rewrite (sum2_diag_zero (fun a b => Rabs (a - b))) by apply Rabs_diag. apply zero_div.
Qed.

Lemma nonneg_soergel : forall x y, length x = length y -> (1 <= length x)%nat -> all_pos x -> all_pos y -> 0 <= sp_soergel x y.
Proof.
  intros x y Hl H1 Hx Hy. apply div_nonneg.
  - apply sum2_nonneg. intros; apply Rabs_pos.
  - apply (sum2_pos_on _ _ _ _ _ Hl H1 Hx Hy). intros; now apply Rmax_pos.
Qed.

Lemma zero_self_soergel : forall x, (1 <= length x)%nat -> sp_soergel x x = 0.
Proof.
  intros x _. unfold sp_soergel.
  rewrite (sum2_diag_zero (fun a b => Rabs (a - b))) by apply Rabs_diag. apply zero_div.
Qed.

(* ================================================================== *)
(* squared-chord family (no sign constraint is needed: sqrt is total)  *)
(* ================================================================== *)
Lemma nonneg_squared_chord : forall x y, length x = length y -> (1 <= length x)%nat -> 0 <= sp_squared_chord x y.
Proof. intros x y _ _. apply sum2_nonneg. intros; apply pow2_ge_0. Qed.

Lemma zero_self_squared_chord : forall x, (1 <= length x)%nat -> sp_squared_chord x x = 0.
Proof. intros x _. apply sum2_diag_zero. intros; ring. Qed.

Lemma nonneg_matusita : forall x y, length x = length y -> (1 <= length x)%nat -> 0 <= sp_matusita x y.
Proof. intros x y _ _. apply sqrt_pos. Qed.

Lemma zero_self_matusita : forall x, (1 <= length x)%nat -> sp_matusita x x = 0.
Proof. intros x H. unfold sp_matusita. rewrite (zero_self_squared_chord x H). apply sqrt_0. Qed.

Lemma nonneg_hellinger : forall x y, length x = length y -> (1 <= length x)%nat -> 0 <= sp_hellinger x y.
Proof. intros x y _ _. apply sqrt_pos. Qed.

Lemma zero_self_hellinger : forall x, (1 <= length x)%nat -> sp_hellinger x x = 0.
Proof.
  intros x H. unfold sp_hellinger.
  rewrite (zero_self_squared_chord x H), Rmult_0_r. apply sqrt_0.
Qed.

(* ================================================================== *)
(* chi-squared family (domain: positive entries)                       *)
(* ================================================================== *)
Lemma nonneg_squared : forall x y, length x = length y -> (1 <= length x)%nat -> all_pos x -> all_pos y -> 0 <= sp_squared x y.
Proof.
  intros x y _ _ Hx Hy. pointwise_on Hx Hy.
  apply div_nonneg; [apply pow2_ge_0 | lra].
Qed.

Lemma zero_self_squared : forall x, (1 <= length x)%nat -> sp_squared x x = 0.
Proof. intros x _. apply sum2_diag_zero. intros a. unfold Rdiv; ring. Qed.

Lemma nonneg_chi_squared : forall x y, length x = length y -> (1 <= length x)%nat -> all_pos x -> all_pos y -> 0 <= sp_chi_squared x y.
Proof.
  intros x y Hl H1 Hx Hy. unfold sp_chi_squared.
  pose proof (nonneg_squared x y Hl H1 Hx Hy). lra.
Qed.

Lemma zero_self_chi_squared : forall x, (1 <= length x)%nat -> sp_chi_squared x x = 0.
Proof. intros x H. unfold sp_chi_squared. rewrite (zero_self_squared x H). ring. Qed.

Lemma nonneg_sangvi : forall x y, length x = length y -> (1 <= length x)%nat -> all_pos x -> all_pos y -> 0 <= sp_sangvi x y.
Proof.
  intros x y Hl H1 Hx Hy. unfold sp_sangvi.
  pose proof (nonneg_squared x y Hl H1 Hx Hy). lra.
Qed.

Lemma zero_self_sangvi : forall x, (1 <= length x)%nat -> sp_sangvi x x = 0.
Proof. intros x H. unfold sp_sangvi. rewrite (zero_self_squared x H). ring. Qed.

Lemma nonneg_neyman : forall x y, length x = length y -> (1 <= length x)%nat -> all_pos x -> all_pos y -> 0 <= sp_neyman x y.
Proof.
  intros x y _ _ Hx Hy. pointwise_on Hx Hy.
  apply div_nonneg; [apply pow2_ge_0 | lra].
Qed.

Lemma zero_self_neyman : forall x, (1 <= length x)%nat -> sp_neyman x x = 0.
Proof. intros x _. apply sum2_diag_zero. intros a. unfold Rdiv; ring. Qed.

Lemma nonneg_pearson : forall x y, length x = length y -> (1 <= length x)%nat -> all_pos x -> all_pos y -> 0 <= sp_pearson x y.
Proof.
  intros x y _ _ Hx Hy. pointwise_on Hx Hy.
  apply div_nonneg; [apply pow2_ge_0 | lra].
Qed.

Lemma zero_self_pearson : forall x, (1 <= length x)%nat -> sp_pearson x x = 0.
Proof. intros x _. apply sum2_diag_zero. intros a. unfold Rdiv; ring. Qed.

Lemma nonneg_divergence : forall x y, length x = length y -> (1 <= length x)%nat -> all_pos x -> all_pos y -> 0 <= sp_divergence x y.
Proof.
  intros x y _ _ Hx Hy. unfold sp_divergence.
  apply Rmult_le_pos; [lra|]. pointwise_on Hx Hy.
  apply div_nonneg; [apply pow2_ge_0 | apply pow_lt; lra].
Qed.

Lemma zero_self_divergence : forall x, (1 <= length x)%nat -> sp_divergence x x = 0.
Proof.
  intros x _. unfold sp_divergence.
  rewrite sum2_diag_zero; [ring|]. intros a. unfold Rdiv; ring.
Qed.

Lemma nonneg_clark : forall x y, length x = length y -> (1 <= length x)%nat -> 0 <= sp_clark x y.
Proof. intros x y _ _. apply sqrt_pos. Qed.

Lemma zero_self_clark : forall x, (1 <= length x)%nat -> sp_clark x x = 0.
Proof.
  intros x _. unfold sp_clark.
  rewrite sum2_diag_zero; [apply sqrt_0|]. intros a. unfold Rdiv; ring.
Qed.

Lemma nonneg_additive_symmetric : forall x y, length x = length y -> (1 <= length x)%nat -> all_pos x -> all_pos y -> 0 <= sp_additive_symmetric x y.
Proof.
  intros x y _ _ Hx Hy. unfold sp_additive_symmetric.
  apply Rmult_le_pos; [lra|]. pointwise_on Hx Hy.
  apply div_nonneg; [|now apply Rmult_lt_0_compat].
  apply Rmult_le_pos; [apply pow2_ge_0 | lra].
Qed.

Lemma zero_self_additive_symmetric : forall x, (1 <= length x)%nat -> sp_additive_symmetric x x = 0.
Proof.
  intros x _. unfold sp_additive_symmetric.
  rewrite sum2_diag_zero; [ring|]. intros a. unfold Rdiv; ring.
Qed.

Lemma nonneg_max_symmetric : forall x y, length x = length y -> (1 <= length x)%nat -> all_pos x -> all_pos y -> 0 <= sp_max_symmetric x y.
Proof.
  intros x y Hl H1 Hx Hy. unfold sp_max_symmetric.
  eapply Rle_trans; [apply (nonneg_neyman x y Hl H1 Hx Hy) | apply Rmax_l].
Qed.

Lemma zero_self_max_symmetric : forall x, (1 <= length x)%nat -> sp_max_symmetric x x = 0.
Proof.
  intros x H. unfold sp_max_symmetric.
  rewrite (zero_self_neyman x H), (zero_self_pearson x H). apply Rmax_diag.
Qed.

Lemma nonneg_min_symmetric : forall x y, length x = length y -> (1 <= length x)%nat -> all_pos x -> all_pos y -> 0 <= sp_min_symmetric x y.
Proof.
  intros x y Hl H1 Hx Hy. unfold sp_min_symmetric.
  apply Rmin_glb; [apply (nonneg_neyman x y Hl H1 Hx Hy) | apply (nonneg_pearson x y Hl H1 Hx Hy)].
Qed.

Lemma zero_self_min_symmetric : forall x, (1 <= length x)%nat -> sp_min_symmetric x x = 0.
Proof.
  intros x H. unfold sp_min_symmetric.
  rewrite (zero_self_neyman x H), (zero_self_pearson x H). apply Rmin_diag.
Qed.

(* ================================================================== *)
(* Vicissitude family (domain: positive entries)                       *)
(* ================================================================== *)
Lemma nonneg_vicis_wave_hedges : forall x y, length x = length y -> (1 <= length x)%nat -> all_pos x -> all_pos y -> 0 <= sp_vicis_wave_hedges x y.
Proof.
  intros x y _ _ Hx Hy. pointwise_on Hx Hy.
  apply div_nonneg; [apply Rabs_pos | now apply Rmin_pos].
Qed.

Lemma zero_self_vicis_wave_hedges : forall x, (1 <= length x)%nat -> sp_vicis_wave_hedges x x = 0.
Proof. intros x _. apply sum2_diag_zero. intros a. rewrite Rabs_diag. apply zero_div. Qed.

Lemma nonneg_vicis_symmetric1 : forall x y, length x = length y -> (1 <= length x)%nat -> all_pos x -> all_pos y -> 0 <= sp_vicis_symmetric1 x y.
Proof.
  intros x y _ _ Hx Hy. pointwise_on Hx Hy.
  apply div_nonneg; [apply pow2_ge_0 | apply pow_lt; now apply Rmin_pos].
Qed.

Lemma zero_self_vicis_symmetric1 : forall x, (1 <= length x)%nat -> sp_vicis_symmetric1 x x = 0.
Proof. intros x _. apply sum2_diag_zero. intros a. unfold Rdiv; ring. Qed.

Lemma nonneg_vicis_symmetric2 : forall x y, length x = length y -> (1 <= length x)%nat -> all_pos x -> all_pos y -> 0 <= sp_vicis_symmetric2 x y.
Proof.
  intros x y _ _ Hx Hy. pointwise_on Hx Hy.
  apply div_nonneg; [apply pow2_ge_0 | now apply Rmin_pos].
Qed.

Lemma zero_self_vicis_symmetric2 : forall x, (1 <= length x)%nat -> sp_vicis_symmetric2 x x = 0.
Proof. intros x _. apply sum2_diag_zero. intros a. unfold Rdiv; ring. Qed.

Lemma nonneg_vicis_symmetric3 : forall x y, length x = length y -> (1 <= length x)%nat -> all_pos x -> all_pos y -> 0 <= sp_vicis_symmetric3 x y.
Proof.
  intros x y _ _ Hx Hy. pointwise_on Hx Hy.
  apply div_nonneg; [apply pow2_ge_0 | now apply Rmax_pos].
Qed.

Lemma zero_self_vicis_symmetric3 : forall x, (1 <= length x)%nat -> sp_vicis_symmetric3 x x = 0.
Proof. intros x _. apply sum2_diag_zero. intros a. unfold Rdiv; ring. Qed.

(* ================================================================== *)
(* hassanat (domain: all reals)                                        *)
(* ================================================================== *)
Lemma hassanat1_nonneg a b : 0 <= hassanat1 a b.
Proof.
  unfold hassanat1.
  assert (Hmm : Rmin a b <= Rmax a b)
    by (eapply Rle_trans; [apply Rmin_l | apply Rmax_l]).
  destruct (Rle_dec 0 (Rmin a b)) as [H|H].
  - assert ((1 + Rmin a b) / (1 + Rmax a b) <= 1) by (apply div_le_1; lra). lra.
  - rewrite Rabs_left by lra.
    assert ((1 + Rmin a b + - Rmin a b) / (1 + Rmax a b + - Rmin a b) <= 1)
      by (apply div_le_1; lra).
    lra.
Qed.

Lemma hassanat1_diag a : hassanat1 a a = 0.
Proof.
  unfold hassanat1. rewrite Rmin_diag, Rmax_diag.
  destruct (Rle_dec 0 a) as [H|H].
  - rewrite div_self; lra.
  - rewrite div_self; [lra|]. rewrite Rabs_left; lra.
Qed.

Lemma nonneg_hassanat : forall x y, length x = length y -> (1 <= length x)%nat -> 0 <= sp_hassanat x y.
Proof. intros x y _ _. apply sum2_nonneg. apply hassanat1_nonneg. Qed.

Lemma zero_self_hassanat : forall x, (1 <= length x)%nat -> sp_hassanat x x = 0.
Proof. intros x _. apply sum2_diag_zero. apply hassanat1_diag. Qed.
