(* Operation-level lemmas for the refinement of Model/MetricFlt.v to Model/MetricRnd.v at rnd64: when the operands AND the
   result of a primitive binary64 operation are finite, no overflow occurred ([fits64] of the exact result), hence the
   result is [rnd64] of the exact real result (Proofs/Binary64Ops.v).  Also: abs, min, max, the amax step, comparisons,
   conversions of small integers, and the soundness of the exactness check [flt_is_Q]. *)
From Coq Require Import Reals ZArith QArith Qreals Lia Lra Floats Uint63 List Bool.
From Flocq Require Import Core BinarySingleNaN.
From Flocq Require PrimFloat.
From OPF Require Import Base.NumOps Spec.MetricSpec Model.MetricIR Model.MetricRnd Model.Binary64 Proofs.Binary64 Proofs.Binary64Ops
     Model.MetricFlt Model.MetricFltRefine.
Import ListNotations.
Local Open Scope R_scope.

Local Instance prec53' : Prec_gt_0 53 := eq_refl.

Lemma Rlt_bool_true_inv a b : Rlt_bool a b = true -> a < b.
Proof. intros E. pose proof (Rlt_bool_spec a b) as S. rewrite E in S. now inversion S. Qed.

Lemma overflow_not_finite (z : binary_float prec emax) s :
  B2SF z = binary_overflow prec emax mode_NE s -> is_finite z = false.
Proof. intros H. rewrite <- is_finite_SF_B2SF, H. reflexivity. Qed.

(* ---- finite result => no overflow ---- *)
Lemma fin_add_fits (x y : pfloat) :
  ffin x = true -> ffin y = true -> ffin (x + y)%float = true -> fits64 (f2r x + f2r y).
Proof.
  rewrite !ffin_Prim2B. unfold f2r, fits64. intros Fx Fy. rewrite FP.add_equiv. intros Fz.
  pose proof (Bplus_correct prec emax FP.Hprec FP.Hmax mode_NE (FP.Prim2B x) (FP.Prim2B y) Fx Fy) as H.
  match type of H with (if ?c then _ else _) => destruct c eqn:E end.
  - apply Rlt_bool_true_inv in E. exact E.
  - destruct H as [H _]. rewrite (overflow_not_finite _ _ H) in Fz. discriminate.
Qed.

Lemma fin_sub_fits (x y : pfloat) :
  ffin x = true -> ffin y = true -> ffin (x - y)%float = true -> fits64 (f2r x - f2r y).
Proof.
  rewrite !ffin_Prim2B. unfold f2r, fits64. intros Fx Fy. rewrite FP.sub_equiv. intros Fz.
  pose proof (Bminus_correct prec emax FP.Hprec FP.Hmax mode_NE (FP.Prim2B x) (FP.Prim2B y) Fx Fy) as H.
  match type of H with (if ?c then _ else _) => destruct c eqn:E end.
  - apply Rlt_bool_true_inv in E. exact E.
  - destruct H as [H _]. rewrite (overflow_not_finite _ _ H) in Fz. discriminate.
Qed.

Lemma fin_mul_fits (x y : pfloat) :
  ffin (x * y)%float = true -> fits64 (f2r x * f2r y).
Proof.
  rewrite !ffin_Prim2B. unfold f2r, fits64. rewrite FP.mul_equiv. intros Fz.
  pose proof (Bmult_correct prec emax FP.Hprec FP.Hmax mode_NE (FP.Prim2B x) (FP.Prim2B y)) as H.
  match type of H with (if ?c then _ else _) => destruct c eqn:E end.
  - apply Rlt_bool_true_inv in E. exact E.
  - rewrite (overflow_not_finite _ _ H) in Fz. discriminate.
Qed.

Lemma fin_div_nonzero (x y : pfloat) :
  ffin x = true -> ffin y = true -> ffin (x / y)%float = true -> f2r y <> 0.
Proof.
  rewrite !ffin_Prim2B. unfold f2r. rewrite FP.div_equiv. intros Fx Fy Fz E.
  destruct (FP.Prim2B y) as [sy|sy| |sy my ey By]; try discriminate Fy.
  - destruct (FP.Prim2B x) as [sx|sx| |sx mx ex Bx]; try discriminate Fx; discriminate Fz.
  - cbn [B2R] in E. apply eq_0_F2R in E. cbn [Fnum cond_Zopp] in E. destruct sy; discriminate E.
Qed.

Lemma fin_div_fits (x y : pfloat) :
  ffin x = true -> ffin y = true -> ffin (x / y)%float = true -> f2r y <> 0 /\ fits64 (f2r x / f2r y).
Proof.
  intros Fx Fy Fz. pose proof (fin_div_nonzero x y Fx Fy Fz) as Hy. split; [exact Hy|].
  revert Fx Fy Fz Hy. rewrite !ffin_Prim2B. unfold f2r, fits64. rewrite FP.div_equiv. intros Fx Fy Fz Hy.
  pose proof (Bdiv_correct prec emax FP.Hprec FP.Hmax mode_NE (FP.Prim2B x) (FP.Prim2B y) Hy) as H.
  match type of H with (if ?c then _ else _) => destruct c eqn:E end.
  - apply Rlt_bool_true_inv in E. exact E.
  - rewrite (overflow_not_finite _ _ H) in Fz. discriminate.
Qed.

Lemma fin_sqrt_nonneg (x : pfloat) : ffin x = true -> ffin (PrimFloat.sqrt x) = true -> 0 <= f2r x.
Proof.
  rewrite !ffin_Prim2B. unfold f2r. rewrite FP.sqrt_equiv. intros Fx Fz.
  pose proof (Bsqrt_correct prec emax FP.Hprec FP.Hmax mode_NE (FP.Prim2B x)) as [_ [H2 _]].
  rewrite H2 in Fz.
  destruct (FP.Prim2B x) as [s|s| |s m e B]; try discriminate Fx; cbn [B2R]; try lra.
  destruct s; [discriminate Fz|]. apply F2R_ge_0. cbn [Fnum cond_Zopp]. lia.
Qed.

(* ---- the checked operations ---- *)
Lemma ret_true f v : ret true f = Some v -> v = f /\ ffin f = true.
Proof. unfold ret, ffin. destruct (PrimFloat.is_finite f); [intros [= <-]; auto | discriminate]. Qed.

Lemma fadd_ok (x y : pfloat) : ffin x = true -> ffin y = true -> ffin (x + y)%float = true ->
  f2r (x + y)%float = rnd64 (f2r x + f2r y).
Proof. intros Fx Fy Fz. apply f2r_add; auto using fin_add_fits. Qed.

Lemma fsub_ok (x y : pfloat) : ffin x = true -> ffin y = true -> ffin (x - y)%float = true ->
  f2r (x - y)%float = rnd64 (f2r x - f2r y).
Proof. intros Fx Fy Fz. apply f2r_sub; auto using fin_sub_fits. Qed.

Lemma fmul_ok (x y : pfloat) : ffin x = true -> ffin y = true -> ffin (x * y)%float = true ->
  f2r (x * y)%float = rnd64 (f2r x * f2r y).
Proof. intros Fx Fy Fz. apply f2r_mul; auto using fin_mul_fits. Qed.

Lemma fdiv_ok (x y : pfloat) : ffin x = true -> ffin y = true -> ffin (x / y)%float = true ->
  f2r y <> 0 /\ f2r (x / y)%float = rnd64 (f2r x / f2r y).
Proof.
  intros Fx Fy Fz. destruct (fin_div_fits x y Fx Fy Fz) as [Hy Hf]. split; [exact Hy|].
  apply f2r_div; auto.
Qed.

Lemma fsqrt_ok (x : pfloat) : ffin x = true -> ffin (PrimFloat.sqrt x) = true ->
  0 <= f2r x /\ f2r (PrimFloat.sqrt x) = rnd64 (R_sqrt.sqrt (f2r x)).
Proof.
  intros Fx Fz. pose proof (fin_sqrt_nonneg x Fx Fz) as H. split; [exact H|]. now apply f2r_sqrt.
Qed.

Lemma fabs_ok (x : pfloat) : ffin (PrimFloat.abs x) = ffin x /\ f2r (PrimFloat.abs x) = Rabs (f2r x).
Proof.
  rewrite !ffin_Prim2B. unfold f2r. rewrite FP.abs_equiv. split; [apply is_finite_Babs | apply B2R_Babs].
Qed.

Lemma fin_not_nan (x : pfloat) : ffin x = true -> PrimFloat.is_nan x = false.
Proof.
  intros Fx. unfold PrimFloat.is_nan. rewrite (f2r_eqb x x Fx Fx). unfold Reqb.
  destruct (Req_EM_T (f2r x) (f2r x)) as [_|N]; [reflexivity | now elim N].
Qed.

Lemma f2r_leb_iff (x y : pfloat) : ffin x = true -> ffin y = true ->
  (PrimFloat.leb x y = true <-> f2r x <= f2r y).
Proof.
  intros Fx Fy. rewrite (f2r_leb x y Fx Fy). destruct (Rle_bool_spec (f2r x) (f2r y)) as [L|L]; split; intros H; auto; try discriminate; lra.
Qed.

Lemma f2r_ltb_iff (x y : pfloat) : ffin x = true -> ffin y = true ->
  (PrimFloat.ltb x y = true <-> f2r x < f2r y).
Proof.
  intros Fx Fy. rewrite (f2r_ltb x y Fx Fy). unfold Rltb. destruct (Rlt_dec (f2r x) (f2r y)) as [L|L]; split; intros H; auto; try discriminate; lra.
Qed.

Lemma fmin_ok (x y : pfloat) : ffin x = true -> ffin y = true ->
  ffin (fmin x y) = true /\ f2r (fmin x y) = Rmin (f2r x) (f2r y).
Proof.
  intros Fx Fy. unfold fmin. pose proof (f2r_leb_iff x y Fx Fy) as I.
  destruct (PrimFloat.leb x y).
  - split; [exact Fx|]. rewrite Rmin_left; [reflexivity | now apply I].
  - rewrite (fin_not_nan x Fx). split; [exact Fy|].
    rewrite Rmin_right; [reflexivity|]. destruct (Rle_dec (f2r x) (f2r y)) as [L|L]; [apply I in L; discriminate | lra].
Qed.

Lemma fmax_ok (x y : pfloat) : ffin x = true -> ffin y = true ->
  ffin (fmax x y) = true /\ f2r (fmax x y) = Rmax (f2r x) (f2r y).
Proof.
  intros Fx Fy. unfold fmax. pose proof (f2r_leb_iff y x Fy Fx) as I.
  destruct (PrimFloat.leb y x).
  - split; [exact Fx|]. rewrite Rmax_left; [reflexivity | now apply I].
  - rewrite (fin_not_nan x Fx). split; [exact Fy|].
    rewrite Rmax_right; [reflexivity|]. destruct (Rle_dec (f2r y) (f2r x)) as [L|L]; [apply I in L; discriminate | lra].
Qed.

Lemma famax_step_ok (x y : pfloat) : ffin x = true -> ffin y = true ->
  ffin (famax_step x y) = true /\ f2r (famax_step x y) = Rmax (f2r x) (f2r y).
Proof.
  intros Fx Fy. unfold famax_step. pose proof (f2r_ltb_iff x y Fx Fy) as I.
  destruct (PrimFloat.ltb x y).
  - split; [exact Fy|]. rewrite Rmax_right; [reflexivity|]. assert (f2r x < f2r y) by now apply I. lra.
  - rewrite (fin_not_nan y Fy). split; [exact Fx|].
    rewrite Rmax_left; [reflexivity|]. destruct (Rlt_dec (f2r x) (f2r y)) as [L|L]; [apply I in L; discriminate | lra].
Qed.

Lemma cmpF_ok c (x y : pfloat) : ffin x = true -> ffin y = true -> cmpF c x y = cmpR c (f2r x) (f2r y).
Proof.
  intros Fx Fy. destruct c; cbn [cmpF cmpR].
  - pose proof (f2r_leb_iff y x Fy Fx) as I. destruct (Rle_dec (f2r y) (f2r x)) as [L|L]; destruct (PrimFloat.leb y x); auto; [apply I in L; discriminate | elim L; now apply I].
  - pose proof (f2r_ltb_iff y x Fy Fx) as I. destruct (Rlt_dec (f2r y) (f2r x)) as [L|L]; destruct (PrimFloat.ltb y x); auto; [apply I in L; discriminate | elim L; now apply I].
  - pose proof (f2r_leb_iff x y Fx Fy) as I. destruct (Rle_dec (f2r x) (f2r y)) as [L|L]; destruct (PrimFloat.leb x y); auto; [apply I in L; discriminate | elim L; now apply I].
  - pose proof (f2r_ltb_iff x y Fx Fy) as I. destruct (Rlt_dec (f2r x) (f2r y)) as [L|L]; destruct (PrimFloat.ltb x y); auto; [apply I in L; discriminate | elim L; now apply I].
Qed.

Lemma fneqb_ok (x y : pfloat) : ffin x = true -> ffin y = true ->
  negb (PrimFloat.eqb x y) = Rneqb (f2r x) (f2r y).
Proof.
  intros Fx Fy. rewrite (f2r_eqb x y Fx Fy). unfold Reqb, Rneqb. destruct (Req_EM_T (f2r x) (f2r y)); reflexivity.
Qed.

Lemma f2r_ofnat (n : nat) : (Z.of_nat n <= 2 ^ 53)%Z ->
  ffin (float_ofZ (Z.of_nat n)) = true /\ f2r (float_ofZ (Z.of_nat n)) = INR n.
Proof.
  intros H. destruct (f2r_float_ofZ (Z.of_nat n)) as [F E]; [lia|]. split; [exact F|]. rewrite E. symmetry. apply INR_IZR_INZ.
Qed.

(* ---- the exactness check ---- *)
Lemma flt_is_Q_sound (f : pfloat) (q : Q) : flt_is_Q f q = true -> ffin f = true /\ f2r f = Q2R q.
Proof.
  unfold flt_is_Q. rewrite ffin_Prim2B. unfold f2r. rewrite <- FP.B2SF_Prim2B.
  destruct (FP.Prim2B f) as [s|s| |s m e B]; cbn [B2SF is_finite B2R]; try discriminate.
  - intros H. apply Z.eqb_eq in H. split; [reflexivity|]. unfold Q2R. rewrite H. lra.
  - intros H. split; [reflexivity|].
    assert (Dn : IZR (Zpos (Qden q)) <> 0) by (apply IZR_neq; lia).
    unfold Q2R, F2R. cbn [Fnum Fexp].
    replace (cond_Zopp s (Zpos m)) with (if s then Zneg m else Zpos m) by (destruct s; reflexivity).
    destruct (Z.leb_spec 0 e) as [L|L]; apply Z.eqb_eq in H.
    + assert (P : bpow radix2 e = IZR (2 ^ e)) by (rewrite <- (IZR_Zpower radix2); [reflexivity | lia]).
      rewrite H, !mult_IZR, P. field. exact Dn.
    + assert (P : bpow radix2 (- e) = IZR (2 ^ (- e))) by (rewrite <- (IZR_Zpower radix2); [reflexivity | lia]).
      assert (Pn : IZR (2 ^ (- e)) <> 0) by (rewrite <- P; apply Rgt_not_eq, bpow_gt_0).
      replace e with (- - e)%Z at 1 by lia. rewrite bpow_opp, P.
      apply (f_equal IZR) in H. rewrite !mult_IZR in H.
      apply (Rmult_eq_reg_r (IZR (2 ^ (- e)))); [|exact Pn].
      apply (Rmult_eq_reg_r (IZR (Zpos (Qden q)))); [|exact Dn].
      transitivity (IZR (if s then Zneg m else Zpos m) * IZR (Z.pos (Qden q))); [field; exact Pn|].
      rewrite <- H. field. exact Dn.
Qed.
