(* The final training stage of KNNSupervisedOPF.fit / UnsupervisedOPF.fit (Model/KnnFit.v) at the reals.

   Part 2 of 2: the premises established in KnnPipeline.v ([fit_graph_holds]) are fed to the
   order-only clustering theorems of LiftCluster.v at [W := R], [ltb := Rltb] ([Rltb_order]); the
   conclusions are read back as statements about [<], [<=] and [Rmin], and the arithmetic corollaries
   ("density gap", "every training sample keeps its label") are added.

   [knn_graph] collects what is known about the adjacency lists [adj0] that create_arcs produced (before
   the plateau step of the clustering routine modified them) and about the densities computed from them. *)
From Coq Require Import Reals List Arith Bool ZArith Lia Lra Permutation.
From OPF Require Import Base.Lists Base.NumOps Base.TotalOrder Model.Heap Model.Knn Model.Pdf Model.KnnFit
  Spec.Paths Spec.Trees Proofs.PdfBase Proofs.LiftCluster Proofs.KnnPipeline.
Import ListNotations.
Local Open Scope R_scope.

Definition knn_graph (fmax : R) (k n : nat) (d e : nat -> nat -> R) (dens : nat -> R) (mn mx : R)
           (adj0 : list (list nat)) : Prop :=
  length adj0 = n /\
  (forall i, (i < n)%nat ->
     let a := nth i adj0 [] in
     length a = Nat.min k (n - 1) /\ NoDup a /\ ~ In i a /\ (forall j, In j a -> (j < n)%nat) /\
     (forall x y, (x <= y)%nat -> (y < length a)%nat -> d i (nth x a 0%nat) <= d i (nth y a 0%nat)) /\
     (forall j, (j < n)%nat -> j <> i -> ~ In j a -> forall x, In x a -> d i x <= d i j)) /\
  let pdf := fun i => Rsum_upto k (fun l => e i (nth l (nth i adj0 []) 0%nat)) / INR (k + 1) in
  (forall i, (i < n)%nat -> mn <= pdf i <= mx) /\
  (mn = mx -> forall i, (i < n)%nat -> dens i = 1000) /\
  (mn < mx -> forall i, (i < n)%nat -> dens i = 1 + 999 * (pdf i - mn) / (mx - mn)) /\
  ((1 <= n)%nat -> 1 <= fmax ->
   (forall i j, (i < n)%nat -> (j < n)%nat -> 0 <= e i j <= 1) ->
   (exists i, (i < n)%nat /\ mn = pdf i) /\ (exists i, (i < n)%nat /\ mx = pdf i) /\
   0 <= mn /\ mn <= mx /\ mx < 1).

Lemma fit_graph_knn_graph fmax k labels d e g2 mn mx :
  fit_graph fmax k labels d e g2 mn mx ->
  knn_graph fmax k (length labels) d e (fun q => nth q (k_dens g2) 0) mn mx (k_adj g2).
Proof.
  intros FG. destruct FG. unfold knn_graph.
  split; [assumption|]. split; [assumption|]. exact fg_pdf.
Qed.

(* the premises of the clustering theorems *)
Lemma fit_graph_cost_lt_dens fmax k labels d e g2 mn mx :
  fit_graph fmax k labels d e g2 mn mx ->
  forall i, (i < length labels)%nat -> Rltb (nth i (k_cost g2) 0) (nth i (k_dens g2) 0) = true.
Proof. intros FG i Hi. apply Rltb_true_iff. rewrite (fg_cost _ _ _ _ _ _ _ _ FG i Hi). lra. Qed.

Lemma fit_graph_bot_lt_cost fmax k labels d e g2 mn mx :
  0 < fmax -> fit_graph fmax k labels d e g2 mn mx ->
  forall i, (i < length labels)%nat -> Rltb (fbot ROps fmax) (nth i (k_cost g2) 0) = true.
Proof.
  intros Hf FG i Hi. apply Rltb_true_iff. rewrite (fg_cost _ _ _ _ _ _ _ _ FG i Hi).
  pose proof (fg_dens _ _ _ _ _ _ _ _ FG i Hi). unfold fbot. rops. lra.
Qed.

(* ------------------------------------------------------------------ *)
(* KNNSupervisedOPF                                                     *)
(* ------------------------------------------------------------------ *)

Theorem knn_sup_final_forest :
  forall (fmax thr one gdens0 : R) (k : nat) (labels : list nat) (d e : nat -> nat -> R),
    let n := length labels in
    0 < fmax ->
    (forall i j, (i < n)%nat -> (j < n)%nat -> i <> j -> 0 <= d i j < fmax) ->
    forall (g' : @knn R) (c mn mx : R),
    knn_sup_final ROps fmax thr one 1000 k labels gdens0 d e = (g', (c, mn, mx)) ->
    let pred := fun q => nth q (k_pred g') None in
    let root := fun q => nth q (k_root g') 0%nat in
    let cost := fun q => nth q (k_cost g') 0 in
    let dens := fun q => nth q (k_dens g') 0 in
    let plabel := fun q => nth q (k_plabel g') 0%nat in
    let label := fun q => nth q labels 0%nat in
    let adj := fun q => nth q (k_adj g') [] in
    k_label g' = labels /\
    Permutation (k_order g') (seq 0 n) /\
    (forall q, (q < n)%nat -> 1 <= dens q <= 1000) /\
    (exists adj0 : list (list nat),
       knn_graph fmax k n d e dens mn mx adj0 /\
       k_adj g' = plateau_sup Rltb 0 n (k_dens g') adj0) /\
    (forall q, (q < n)%nat ->
       match pred q with
       | None => root q = q /\ cost q = dens q /\ plabel q = label q
       | Some p => (p < n)%nat /\ before (k_order g') p q /\ In q (adj p) /\
                   root q = root p /\ cost q = Rmin (cost p) (dens q) /\
                   dens q - 1 < cost q /\ plabel q = plabel p /\ label p = label q
       end) /\
    (forall q, (q < n)%nat ->
       exists r j, (j < n)%nat /\ (r < n)%nat /\ reaches pred q r j /\ pred r = None /\
         (forall r', root_of pred q r' -> r' = r) /\
         root q = r /\ dens q - 1 < cost q /\ cost q <= cost r /\ cost r = dens r /\
         dens q < dens r + 1 /\
         plabel q = label r /\ label q = label r) /\
    (forall q, (q < n)%nat -> plabel q = label q).
Proof.
  intros fmax thr one gdens0 k labels d e n Hfmax Hd g' c mn mx Hfin. subst n. cbv zeta.
  unfold knn_sup_final in Hfin.
  destruct (arcs_and_pdf ROps fmax thr one 1000 k d e (fit_start ROps labels gdens0))
    as [g2 [[c' mn'] mx']] eqn:Hfit.
  injection Hfin as Hg0 Hc Hmn Hmx. subst c' mn' mx'.
  assert (Hg : clustering_sup Rltb 0 fmax (fbot ROps fmax) true g2 = g') by exact Hg0. clear Hg0.
  pose proof (fit_graph_holds fmax thr one gdens0 k labels d e g2 c mn mx Hd Hfit) as FG.
  pose proof (fit_graph_knn_graph _ _ _ _ _ _ _ _ FG) as KG.
  pose proof (fit_graph_cost_lt_dens _ _ _ _ _ _ _ _ FG) as Hcd.
  pose proof (fit_graph_bot_lt_cost _ _ _ _ _ _ _ _ Hfmax FG) as Hbot.
  destruct FG as [Glab Gdl Gcl Gpl Grl Gql Gel Gord Gnp Gal Gadj Galt Gdens Gcost _].
  assert (Hlab : length (k_label g2) = length labels) by now rewrite Glab.
  pose proof (clustering_sup_links_anyorder Rltb Rltb_order 0 fmax (fbot ROps fmax) g2 (length labels)
                Hlab Gcl Gpl Grl Gql Gel Galt Hcd true (fun _ => Hbot)) as HL.
  pose proof (clustering_sup_forest_anyorder Rltb Rltb_order 0 fmax (fbot ROps fmax) g2 (length labels)
                Hlab Gcl Gpl Grl Gql Gel Galt Hcd true (fun _ => Hbot)) as HF.
  cbv zeta in HL, HF. rewrite Hg in HL, HF. rewrite Glab in HL, HF.
  destruct HL as (Elab & Edens & Eadj & ord & Eord & Hperm & Hlinks).
  rewrite Gord in Eord. cbn [app] in Eord. subst ord.
  rewrite Edens.
  assert (Hlow : forall q, (q < length labels)%nat -> nth q (k_dens g2) 0 - 1 < nth q (k_cost g') 0).
  { intros q Hq. specialize (Hlinks q Hq). destruct (nth q (k_pred g') None) as [p|].
    - destruct Hlinks as (_ & _ & _ & _ & _ & A6 & _). apply Rltb_true_iff in A6.
      rewrite (Gcost q Hq) in A6. exact A6.
    - destruct Hlinks as (_ & A2 & _). rewrite A2. lra. }
  assert (Hforest : forall q, (q < length labels)%nat ->
            exists r j, (j < length labels)%nat /\ (r < length labels)%nat /\
              reaches (fun q => nth q (k_pred g') None) q r j /\ nth r (k_pred g') None = None /\
              (forall r', root_of (fun q => nth q (k_pred g') None) q r' -> r' = r) /\
              nth q (k_root g') 0%nat = r /\ nth q (k_dens g2) 0 - 1 < nth q (k_cost g') 0 /\
              nth q (k_cost g') 0 <= nth r (k_cost g') 0 /\ nth r (k_cost g') 0 = nth r (k_dens g2) 0 /\
              nth q (k_dens g2) 0 < nth r (k_dens g2) 0 + 1 /\
              nth q (k_plabel g') 0%nat = nth r labels 0%nat /\ nth q labels 0%nat = nth r labels 0%nat).
  { intros q Hq. destruct (HF q Hq) as (r & j & F1 & F2 & F3 & F4 & F5 & F6 & F7 & F8 & F9 & F10 & F11 & F12).
    exists r, j. apply Rltb_false_iff in F7. apply Rltb_true_iff in F9. rewrite (Gcost q Hq) in F9.
    repeat (split; [first [assumption | now apply Hlow | lra | congruence]|]). exact (F12 eq_refl). }
  split; [now rewrite Elab|]. split; [exact Hperm|]. split; [exact Gdens|].
  split; [exists (k_adj g2); split; [exact KG | exact Eadj]|].
  split; [|split; [exact Hforest|]].
  - intros q Hq. pose proof (Hlow q Hq) as Hl. specialize (Hlinks q Hq).
    destruct (nth q (k_pred g') None) as [p|]; [|exact Hlinks].
    destruct Hlinks as (A1 & A2 & A3 & A4 & A5 & A6 & A7 & A8).
    rewrite wmin_Rmin in A5.
    split; [exact A1|]. split; [exact A2|]. split; [exact A3|]. split; [exact A4|]. split; [exact A5|].
    split; [exact Hl|]. split; [exact A7 | exact (A8 eq_refl)].
  - intros q Hq. destruct (Hforest q Hq) as (r & j & _ & _ & _ & _ & _ & _ & _ & _ & _ & _ & P1 & P2).
    congruence.
Qed.

(* ------------------------------------------------------------------ *)
(* UnsupervisedOPF                                                      *)
(* ------------------------------------------------------------------ *)

Theorem unsup_final_forest :
  forall (fmax thr one gdens0 : R) (k : nat) (labels : list nat) (d e : nat -> nat -> R),
    let n := length labels in
    (k <= n - 1)%nat ->
    0 < fmax ->
    (forall i j, (i < n)%nat -> (j < n)%nat -> i <> j -> 0 <= d i j < fmax) ->
    forall (g' : @knn R) (c mn mx : R),
    unsup_final ROps fmax thr one 1000 k labels gdens0 d e = (g', (c, mn, mx)) ->
    let pred := fun q => nth q (k_pred g') None in
    let root := fun q => nth q (k_root g') 0%nat in
    let cost := fun q => nth q (k_cost g') 0 in
    let dens := fun q => nth q (k_dens g') 0 in
    let clabel := fun q => nth q (k_clabel g') 0%nat in
    let adj := fun q => nth q (k_adj g') [] in
    let nplat := fun q => nth q (k_nplat g') 0%nat in
    let isroot := fun q => match pred q with None => true | Some _ => false end in
    k_label g' = labels /\
    Permutation (k_order g') (seq 0 n) /\
    (forall q, (q < n)%nat -> 1 <= dens q <= 1000) /\
    (exists adj0 : list (list nat),
       knn_graph fmax k n d e dens mn mx adj0 /\
       (forall i, (i < n)%nat -> length (nth i adj0 []) = k) /\
       (k_adj g', k_nplat g') = plateau_unsup Rltb 0 k n (k_dens g') adj0 (repeat 0%nat n)) /\
    (forall q, (q < n)%nat ->
       match pred q with
       | None => root q = q /\ cost q = dens q
       | Some p => (p < n)%nat /\ before (k_order g') p q /\ In q (firstn (nplat p + k) (adj p)) /\
                   root q = root p /\ cost q = Rmin (cost p) (dens q) /\
                   dens q - 1 < cost q /\ clabel q = clabel p
       end) /\
    (forall q, (q < n)%nat ->
       exists r j, (j < n)%nat /\ (r < n)%nat /\ reaches pred q r j /\ pred r = None /\
         (forall r', root_of pred q r' -> r' = r) /\
         root q = r /\ dens q - 1 < cost q /\ cost q <= cost r /\ cost r = dens r /\
         dens q < dens r + 1 /\
         clabel q = clabel r) /\
    k_nclusters g' = length (filter isroot (seq 0 n)) /\
    length (filter isroot (k_order g')) = k_nclusters g' /\
    (forall i, (i < k_nclusters g')%nat -> clabel (nth i (filter isroot (k_order g')) 0%nat) = i) /\
    (forall r, (r < n)%nat -> pred r = None -> (clabel r < k_nclusters g')%nat) /\
    (forall r r', (r < n)%nat -> (r' < n)%nat -> pred r = None -> pred r' = None ->
       clabel r = clabel r' -> r = r') /\
    (forall i, (i < k_nclusters g')%nat -> exists r, (r < n)%nat /\ pred r = None /\ clabel r = i) /\
    (forall q, (q < n)%nat -> (clabel q < k_nclusters g')%nat).
Proof.
  intros fmax thr one gdens0 k labels d e n Hk Hfmax Hd g' c mn mx Hfin. subst n. cbv zeta.
  unfold unsup_final in Hfin.
  destruct (arcs_and_pdf ROps fmax thr one 1000 k d e (fit_start ROps labels gdens0))
    as [g2 [[c' mn'] mx']] eqn:Hfit.
  injection Hfin as Hg0 Hc Hmn Hmx. subst c' mn' mx'.
  assert (Hg : clustering_unsup Rltb 0 fmax (fbot ROps fmax) k g2 = g') by exact Hg0. clear Hg0.
  pose proof (fit_graph_holds fmax thr one gdens0 k labels d e g2 c mn mx Hd Hfit) as FG.
  pose proof (fit_graph_knn_graph _ _ _ _ _ _ _ _ FG) as KG.
  pose proof (fit_graph_cost_lt_dens _ _ _ _ _ _ _ _ FG) as Hcd.
  destruct FG as [Glab Gdl Gcl Gpl Grl Gql Gel Gord Gnp Gal Gadj Galt Gdens Gcost _].
  assert (Hlab : length (k_label g2) = length labels) by now rewrite Glab.
  pose proof (clustering_unsup_links_anyorder Rltb Rltb_order 0 fmax (fbot ROps fmax) g2 (length labels)
                Hlab Gcl Gpl Grl Gql Gel Galt Hcd k) as HL.
  pose proof (clustering_unsup_forest_anyorder Rltb Rltb_order 0 fmax (fbot ROps fmax) g2 (length labels)
                Hlab Gcl Gpl Grl Gql Gel Galt Hcd k) as HF.
  pose proof (clustering_unsup_ids_anyorder Rltb Rltb_order 0 fmax (fbot ROps fmax) g2 (length labels)
                Hlab Gcl Gpl Grl Gql Gel Galt Hcd k) as HI.
  cbv zeta in HL, HF, HI. rewrite Hg in HL, HF, HI.
  destruct HL as (Elab & Edens & Eadj & ord & Eord & Hperm & Hlinks).
  rewrite Gord in Eord. cbn [app] in Eord. subst ord.
  destruct HI as (I1 & (ord & Eord & _ & I2 & I3) & I4 & I5 & I6 & I7).
  rewrite Gord in Eord. cbn [app] in Eord. subst ord.
  rewrite Edens.
  assert (Hlow : forall q, (q < length labels)%nat -> nth q (k_dens g2) 0 - 1 < nth q (k_cost g') 0).
  { intros q Hq. specialize (Hlinks q Hq). destruct (nth q (k_pred g') None) as [p|].
    - destruct Hlinks as (_ & _ & _ & _ & _ & A6 & _). apply Rltb_true_iff in A6.
      rewrite (Gcost q Hq) in A6. exact A6.
    - destruct Hlinks as (_ & A2). rewrite A2. lra. }
  split; [now rewrite Elab|]. split; [exact Hperm|]. split; [exact Gdens|].
  split.
  { exists (k_adj g2). split; [exact KG|]. split.
    - intros i Hi. rewrite (proj1 (Gadj i Hi)). apply Nat.min_l. exact Hk.
    - rewrite Eadj, Gnp. reflexivity. }
  split; [|split].
  - intros q Hq. pose proof (Hlow q Hq) as Hl. specialize (Hlinks q Hq).
    destruct (nth q (k_pred g') None) as [p|]; [|exact Hlinks].
    destruct Hlinks as (A1 & A2 & A3 & A4 & A5 & A6 & A7).
    rewrite wmin_Rmin in A5.
    split; [exact A1|]. split; [exact A2|]. split; [exact A3|]. split; [exact A4|]. split; [exact A5|].
    split; [exact Hl | exact A7].
  - intros q Hq. destruct (HF q Hq) as (r & j & F1 & F2 & F3 & F4 & F5 & F6 & F7 & F8 & F9 & F10).
    exists r, j. apply Rltb_false_iff in F7. apply Rltb_true_iff in F9. rewrite (Gcost q Hq) in F9.
    repeat (split; [first [assumption | now apply Hlow | lra]|]). exact F10.
  - repeat (split; [assumption|]). exact I7.
Qed.
