(* OPF.get_distances(normalize=True)  (opfython/core/opf.py):
       return (distances - distances.min()) / (distances.max() - distances.min())
   with the GLOBAL minimum / maximum of the n x n matrix.  Over the reals: when min < max the
   result lies in [0,1], 0 is attained exactly at the minima, 1 exactly at the maxima, and the
   map is strictly increasing, so the order of any two entries is preserved.
   (When all entries are equal -- e.g. a single node -- the code divides 0 by 0.) *)
From Coq Require Import List Reals Lra.
Import ListNotations.
Local Open Scope R_scope.

(* ---------- minimum and maximum of a list, by folds ---------- *)

Definition lmin (l : list R) : R := fold_right Rmin (hd 0 l) l.
Definition lmax_l (l : list R) : R := fold_right Rmax (hd 0 l) l.

Lemma fold_min_le a l : fold_right Rmin a l <= a /\ forall v, In v l -> fold_right Rmin a l <= v.
Proof.
  induction l as [|x l [IHa IHl]]; cbn [fold_right In].
  - split; [lra | tauto].
  - split.
    + eapply Rle_trans; [apply Rmin_r | exact IHa].
    + intros v [<- | Hv]; [apply Rmin_l|]. eapply Rle_trans; [apply Rmin_r | now apply IHl].
Qed.

Lemma fold_min_in a l : fold_right Rmin a l = a \/ In (fold_right Rmin a l) l.
Proof.
  induction l as [|x l IH]; cbn [fold_right In]; [now left|].
  set (m := fold_right Rmin a l) in *. unfold Rmin. destruct (Rle_dec x m) as [_|_]; [right; now left|].
  destruct IH as [E | H]; [left; exact E | right; right; exact H].
Qed.

Lemma fold_max_ge a l : a <= fold_right Rmax a l /\ forall v, In v l -> v <= fold_right Rmax a l.
Proof.
  induction l as [|x l [IHa IHl]]; cbn [fold_right In].
  - split; [lra | tauto].
  - split.
    + eapply Rle_trans; [exact IHa | apply Rmax_r].
    + intros v [<- | Hv]; [apply Rmax_l|]. eapply Rle_trans; [now apply IHl | apply Rmax_r].
Qed.

Lemma fold_max_in a l : fold_right Rmax a l = a \/ In (fold_right Rmax a l) l.
Proof.
  induction l as [|x l IH]; cbn [fold_right In]; [now left|].
  set (m := fold_right Rmax a l) in *. unfold Rmax. destruct (Rle_dec x m) as [_|_].
  - destruct IH as [E | H]; [left; exact E | right; right; exact H].
  - right; now left.
Qed.

(* attained bounds *)
Lemma lmin_le l v : In v l -> lmin l <= v.
Proof. intros H. now apply fold_min_le. Qed.

Lemma lmax_ge l v : In v l -> v <= lmax_l l.
Proof. intros H. now apply fold_max_ge. Qed.

Lemma lmin_in l : l <> [] -> In (lmin l) l.
Proof.
  intros Hne. unfold lmin. destruct (fold_min_in (hd 0 l) l) as [E | H]; [|exact H].
  rewrite E. destruct l as [|x l]; [contradiction | now left].
Qed.

Lemma lmax_in l : l <> [] -> In (lmax_l l) l.
Proof.
  intros Hne. unfold lmax_l. destruct (fold_max_in (hd 0 l) l) as [E | H]; [|exact H].
  rewrite E. destruct l as [|x l]; [contradiction | now left].
Qed.

Lemma lmin_attained_bound l : l <> [] -> In (lmin l) l /\ forall v, In v l -> lmin l <= v.
Proof. intros H. split; [now apply lmin_in | apply lmin_le]. Qed.

Lemma lmax_attained_bound l : l <> [] -> In (lmax_l l) l /\ forall v, In v l -> v <= lmax_l l.
Proof. intros H. split; [now apply lmax_in | apply lmax_ge]. Qed.

Lemma lmin_lt_lmax_nonempty l : lmin l < lmax_l l -> l <> [].
Proof. intros H ->. unfold lmin, lmax_l in H. cbn in H. lra. Qed.

(* ---------- the affine rescaling ---------- *)

Definition scale (mn mx v : R) : R := (v - mn) / (mx - mn).

Lemma scale_mono mn mx u v : mn < mx -> (u < v <-> scale mn mx u < scale mn mx v).
Proof.
  intros H. assert (Hi : 0 < / (mx - mn)) by (apply Rinv_0_lt_compat; lra).
  unfold scale, Rdiv. split.
  - intros Huv. apply Rmult_lt_compat_r; [exact Hi | lra].
  - intros Hs. apply Rmult_lt_reg_r in Hs; [lra | exact Hi].
Qed.

Lemma scale_inj mn mx u v : mn < mx -> scale mn mx u = scale mn mx v -> u = v.
Proof.
  intros H E. destruct (Rtotal_order u v) as [L | [E' | G]]; [|exact E'|].
  - apply (scale_mono mn mx) in L; [lra | exact H].
  - apply (scale_mono mn mx) in G; [lra | exact H].
Qed.

Lemma scale_min mn mx : mn < mx -> scale mn mx mn = 0.
Proof. intros H. unfold scale. field. lra. Qed.

Lemma scale_max mn mx : mn < mx -> scale mn mx mx = 1.
Proof. intros H. unfold scale. field. lra. Qed.

Lemma scale_le mn mx u v : mn < mx -> (u <= v <-> scale mn mx u <= scale mn mx v).
Proof.
  intros H. split; intros Hl.
  - destruct Hl as [L | ->]; [left; now apply scale_mono | right; reflexivity].
  - destruct Hl as [L | E]; [left; now apply (scale_mono mn mx) | right; now apply (scale_inj mn mx)].
Qed.

(* ---------- the normalised matrix ---------- *)

(* on the flattened matrix *)
Definition normalize_flat (l : list R) : list R := map (scale (lmin l) (lmax_l l)) l.

(* on the matrix: distances.min() / distances.max() are taken over all entries *)
Definition normalize_matrix (M : list (list R)) : list (list R) :=
  let l := concat M in map (map (scale (lmin l) (lmax_l l))) M.

(* get_distances: distances[i][j] = distance_fn(nodes[i].features, nodes[j].features) *)
Definition get_distances {F} (dist : F -> F -> R) (feats : list F) (normalize : bool) : list (list R) :=
  let M := map (fun x => map (fun y => dist x y) feats) feats in
  if normalize then normalize_matrix M else M.

Lemma normalize_matrix_flat M : concat (normalize_matrix M) = normalize_flat (concat M).
Proof. unfold normalize_matrix, normalize_flat. cbv zeta. symmetry. apply concat_map. Qed.

Lemma normalize_flat_length l : length (normalize_flat l) = length l.
Proof. apply map_length. Qed.

Lemma normalize_flat_nth l i :
  (i < length l)%nat -> nth i (normalize_flat l) 0 = scale (lmin l) (lmax_l l) (nth i l 0).
Proof.
  intros Hi. unfold normalize_flat.
  rewrite (nth_indep _ 0 (scale (lmin l) (lmax_l l) 0)) by now rewrite map_length.
  apply map_nth.
Qed.

Theorem normalize_range (l : list R) :
  lmin l < lmax_l l ->
  let f := scale (lmin l) (lmax_l l) in
  (* every entry lies in [0,1] *)
  (forall y, In y (normalize_flat l) -> 0 <= y <= 1) /\
  (* 0 and 1 are attained: at the entries equal to the minimum / maximum, and only there *)
  In (lmin l) l /\ In (lmax_l l) l /\
  In 0 (normalize_flat l) /\ In 1 (normalize_flat l) /\
  (forall v, f v = 0 <-> v = lmin l) /\
  (forall v, f v = 1 <-> v = lmax_l l) /\
  (* strictly increasing: the order of the entries is preserved *)
  (forall u v, u < v <-> f u < f v) /\
  (forall i j, (i < length l)%nat -> (j < length l)%nat ->
     (nth i l 0 < nth j l 0 <-> nth i (normalize_flat l) 0 < nth j (normalize_flat l) 0)).
Proof.
  intros H f. pose proof (lmin_lt_lmax_nonempty l H) as Hne.
  pose proof (lmin_in l Hne) as Hmin. pose proof (lmax_in l Hne) as Hmax.
  assert (E0 : f (lmin l) = 0) by (apply scale_min; exact H).
  assert (E1 : f (lmax_l l) = 1) by (apply scale_max; exact H).
  assert (Hin : forall y, In y (normalize_flat l) -> exists v, In v l /\ y = f v).
  { intros y Hy. unfold normalize_flat in Hy. apply in_map_iff in Hy.
    destruct Hy as (v & <- & Hv). now exists v. }
  split; [|split; [exact Hmin|split; [exact Hmax|split; [|split; [|split; [|split; [|split]]]]]]].
  - intros y Hy. destruct (Hin y Hy) as (v & Hv & ->). split.
    + rewrite <- E0. apply scale_le; [exact H | now apply lmin_le].
    + rewrite <- E1. apply scale_le; [exact H | now apply lmax_ge].
  - rewrite <- E0. now apply in_map.
  - rewrite <- E1. now apply in_map.
  - intros v. split.
    + intros Hv. apply (scale_inj (lmin l) (lmax_l l)); [exact H|]. fold f. now rewrite E0.
    + intros ->. exact E0.
  - intros v. split.
    + intros Hv. apply (scale_inj (lmin l) (lmax_l l)); [exact H|]. fold f. now rewrite E1.
    + intros ->. exact E1.
  - intros u v. now apply scale_mono.
  - intros i j Hi Hj. rewrite !normalize_flat_nth by assumption. now apply scale_mono.
Qed.

(* the same, stated on the matrix [get_distances] returns *)
Corollary normalize_matrix_range (M : list (list R)) :
  lmin (concat M) < lmax_l (concat M) ->
  (forall row y, In row (normalize_matrix M) -> In y row -> 0 <= y <= 1) /\
  (exists row, In row (normalize_matrix M) /\ In 0 row) /\
  (exists row, In row (normalize_matrix M) /\ In 1 row).
Proof.
  intros H. destruct (normalize_range (concat M) H) as (Hr & _ & _ & H0 & H1 & _).
  rewrite <- normalize_matrix_flat in Hr, H0, H1. split; [|split].
  - intros row y Hrow Hy. apply Hr. apply in_concat. exists row. auto.
  - apply in_concat in H0. destruct H0 as (row & Hrow & Hin). now exists row.
  - apply in_concat in H1. destruct H1 as (row & Hrow & Hin). now exists row.
Qed.
