(* The pieces of Proofs/FloatOrder.v put to work:

     - [PrimFloat.ltb] is a [strict_weak_order_on] the non-NaN floats (Proofs/WeakOrder.v), hence
       every finite list of non-NaN floats has a rank map into Z that preserves and reflects
       [ltb] and identifies exactly the [eqb]-equal values ([float_rank_embedding]);
     - [ranker]: the dense rank of the IEEE code [fenc] among the codes of the list - the
       definition of harness/common.py: Ranker - is such a map ([ranker_embedding]);
     - supervised training run on float weights through [PrimFloat.ltb] and run on the ranks
       (or on the IEEE codes, or on the counting ranks [rk]) give the same predecessors, labels,
       prototype flags, conquest order, and coded costs ([sup_fit_float_*]); no
       canonicalisation of -0 is needed for that, because the abstraction theorem only asks the
       two comparisons to agree;
     - the run on floats and the run on the canonical floats [nfloat] (a [strict_total_order], to
       which every Cxx_anyorder theorem applies) are related by [canon] ([sup_fit_float_canonical]);
     - the accuracy comparison of the binary64 accuracy domain [FAcc] is a strict weak order on
       non-NaN accuracies: the hypothesis of [learn_full_refines_weak_order] is discharged. *)
From Coq Require Import List Arith Bool ZArith Lia PrimFloat.
From OPF Require Import Base.Lists Base.TotalOrder Base.NumOps Model.Heap Model.Sup Model.Learn
  Model.LearnFull Model.LearnFullFloat.
From OPF Require Import Proofs.ParamBase Proofs.ParamSup Proofs.Rescale Proofs.OrderEmbed Proofs.LiftSup
  Proofs.WeakOrder Proofs.LiftSupWeak Proofs.FloatOrder Proofs.LearnFull.
Import ListNotations.

(* [fnn x]: x is not a NaN *)
Definition fnn (x : float) : Prop := is_nan x = false.

Theorem float_weak_order : strict_weak_order_on fnn PrimFloat.ltb.
Proof.
  constructor.
  - intros a _. apply ltb_irrefl.
  - intros a b c _ _ _. apply ltb_trans.
  - intros a b c _ Hb _. now apply ltb_ntrans.
Qed.

Lemma Forall_fnn_in vals x : Forall fnn vals -> In x vals -> is_nan x = false.
Proof. intros H Hx. exact (proj1 (Forall_forall fnn vals) H x Hx). Qed.

(* ---------- rank maps on a finite list of non-NaN floats ---------- *)

Theorem float_rank_embedding (vals : list float) :
  Forall fnn vals ->
  let r := rk PrimFloat.ltb vals in
  (forall x y, In x vals -> In y vals -> PrimFloat.ltb x y = Z.ltb (r x) (r y)) /\
  (forall x y, In x vals -> In y vals -> (r x = r y <-> PrimFloat.eqb x y = true)) /\
  (forall x, (0 <= r x <= Z.of_nat (length vals))%Z).
Proof.
  intros Hv r. split; [|split].
  - intros x y Hx Hy. symmetry. now apply (rk_ltb_w fnn PrimFloat.ltb float_weak_order vals Hv).
  - intros x y Hx Hy. unfold r. rewrite (rk_eq_w fnn PrimFloat.ltb float_weak_order vals Hv x y Hx Hy).
    symmetry. apply eqb_iff_incomparable; now apply (Forall_fnn_in vals).
  - intros x. split; [apply rk_nonneg | apply rk_bound].
Qed.

(* harness/common.py: Ranker(values).r(x) = index of enc(x) in sorted(set(enc(v) for v in values)) *)
Definition ranker (vals : list float) (x : float) : Z := drank (map fenc vals) (fenc x).

Theorem ranker_embedding (vals : list float) :
  Forall fnn vals ->
  let r := ranker vals in
  (forall x y, In x vals -> In y vals -> PrimFloat.ltb x y = Z.ltb (r x) (r y)) /\
  (forall x y, In x vals -> In y vals -> (r x = r y <-> PrimFloat.eqb x y = true)) /\
  (forall x, In x vals -> (0 <= r x < Z.of_nat (length (nodup Z.eq_dec (map fenc vals))))%Z).
Proof.
  intros Hv r.
  assert (A : forall x y, In x vals -> In y vals -> PrimFloat.ltb x y = Z.ltb (r x) (r y)).
  { intros x y Hx Hy. unfold r, ranker. rewrite drank_ltb by now apply in_map.
    apply fenc_ltb; now apply (Forall_fnn_in vals). }
  split; [exact A|]. split.
  - intros x y Hx Hy.
    pose proof (Forall_fnn_in vals x Hv Hx) as Nx. pose proof (Forall_fnn_in vals y Hv Hy) as Ny.
    rewrite (eqb_iff_incomparable x y Nx Ny), (A x y Hx Hy), (A y x Hy Hx), !Z.ltb_ge. lia.
  - intros x Hx. unfold r, ranker. apply drank_range. now apply in_map.
Qed.

(* ---------- supervised training on float weights = training on integer codes ---------- *)

Section SupFitFloat.
  Variables (zero top : float) (labels : list nat) (w : nat -> nat -> float).
  Let n := length labels.
  Let vals := zero :: top :: weight_vals n w.
  Hypothesis Hv : Forall fnn vals.

  (* any coding that orders the occurring values as [ltb] does *)
  Theorem sup_fit_float_coded (f : float -> Z) :
    (forall a b, In a vals -> In b vals -> Z.ltb (f a) (f b) = PrimFloat.ltb a b) ->
    nodes_rel (fun a z => In a vals /\ z = f a)
              (sup_fit PrimFloat.ltb zero top labels w)
              (sup_fit Z.ltb (f zero) (f top) labels (fun p q => f (w p q))).
  Proof. apply (sup_fit_embedding_related PrimFloat.ltb Z.ltb f zero top labels w). Qed.

  (* the dense ranks of the harness *)
  Theorem sup_fit_float_ranker :
    let r := ranker vals in
    nodes_rel (fun a z => In a vals /\ z = r a)
              (sup_fit PrimFloat.ltb zero top labels w)
              (sup_fit Z.ltb (r zero) (r top) labels (fun p q => r (w p q))).
  Proof.
    intros r. apply sup_fit_float_coded. intros a b Ha Hb. symmetry.
    now apply (proj1 (ranker_embedding vals Hv)).
  Qed.

  (* the counting ranks of Proofs/OrderEmbed.v: C01_sup_fit_rank_related for floats *)
  Theorem sup_fit_float_rk :
    let r := rk PrimFloat.ltb vals in
    nodes_rel (rank_rel PrimFloat.ltb vals)
              (sup_fit PrimFloat.ltb zero top labels w)
              (sup_fit Z.ltb (r zero) (r top) labels (fun p q => r (w p q))).
  Proof. exact (sup_fit_rank_related_w fnn PrimFloat.ltb float_weak_order zero top labels w Hv). Qed.

  (* the IEEE codes themselves *)
  Theorem sup_fit_float_enc :
    nodes_rel (fun a z => In a vals /\ z = fenc a)
              (sup_fit PrimFloat.ltb zero top labels w)
              (sup_fit Z.ltb (fenc zero) (fenc top) labels (fun p q => fenc (w p q))).
  Proof.
    apply sup_fit_float_coded. intros a b Ha Hb. symmetry.
    apply fenc_ltb; now apply (Forall_fnn_in vals).
  Qed.
End SupFitFloat.

(* ---------- C01 on floats: the optimum-path forest, cost equalities up to == ---------- *)

Lemma eqv_float_eqb a b :
  is_nan a = false -> is_nan b = false -> (eqv PrimFloat.ltb a b <-> PrimFloat.eqb a b = true).
Proof. intros Ha Hb. unfold eqv. symmetry. now apply eqb_iff_incomparable. Qed.

Theorem sup_fit_float_opf (zero top : float) (labels : list nat) (w : nat -> nat -> float) :
  let n := length labels in
  let vals := zero :: top :: weight_vals n w in
  let fp := find_prototypes PrimFloat.ltb top n w (nodes_init zero labels) in
  let isproto q := nth q (n_status fp) false = true in
  Forall fnn vals ->
  PrimFloat.ltb zero top = true ->
  (forall p q, p < n -> q < n -> p <> q ->
     PrimFloat.ltb (w p q) zero = false /\ PrimFloat.ltb (w p q) top = true) ->
  (exists s, s < n /\ isproto s) ->
  let nd := sup_fit PrimFloat.ltb zero top labels w in
  opf_spec_Ww PrimFloat.ltb n w zero nd isproto labels /\
  n_status nd = n_status fp /\ n_label nd = labels.
Proof. exact (sup_fit_weak_order fnn PrimFloat.ltb float_weak_order zero top labels w). Qed.

(* ---------- floats versus canonical floats ---------- *)

Definition nf_zero : nfloat := exist _ PrimFloat.zero eq_refl.

(* total version of [to_nfloat]: NaN (outside every domain) is sent to 0 *)
Definition nf (x : float) : nfloat :=
  match bool_dec (nfok (canon x)) true with
  | left H => exist _ (canon x) H
  | right _ => nf_zero
  end.

Lemma nf_val x : is_nan x = false -> nfval (nf x) = canon x.
Proof.
  intros Hx. unfold nf. destruct (bool_dec (nfok (canon x)) true) as [H|H]; [reflexivity|].
  exfalso. apply H. now apply nfok_canon.
Qed.

Lemma nf_ltb x y : is_nan x = false -> is_nan y = false -> nfltb (nf x) (nf y) = PrimFloat.ltb x y.
Proof. intros Hx Hy. unfold nfltb. rewrite !nf_val by assumption. now apply canon_ltb. Qed.

(* [nf] is the identity on the values of canonical floats *)
Lemma nf_nfval a : nf (nfval a) = a.
Proof.
  apply nfloat_ext. destruct a as [x Hx]. cbn [nfval proj1_sig].
  rewrite nf_val by now apply nfok_nn. now apply nfok_canon_fix.
Qed.

Theorem sup_fit_float_canonical (zero top : float) (labels : list nat) (w : nat -> nat -> float) :
  let n := length labels in
  let vals := zero :: top :: weight_vals n w in
  Forall fnn vals ->
  nodes_rel (fun a b => In a vals /\ b = nf a)
            (sup_fit PrimFloat.ltb zero top labels w)
            (sup_fit nfltb (nf zero) (nf top) labels (fun p q => nf (w p q))).
Proof.
  intros n vals Hv. apply (sup_fit_embedding_related PrimFloat.ltb nfltb nf zero top labels w).
  intros a b Ha Hb. apply nf_ltb; now apply (Forall_fnn_in vals).
Qed.

(* ---------- C17: the binary64 accuracy comparison ---------- *)

Lemma FAcc_gt a b : ao_gt FAcc a b = PrimFloat.ltb b a.
Proof. reflexivity. Qed.

Theorem FAcc_weak_order (accs : list float) :
  Forall fnn accs -> weak_order_on (ao_gt FAcc) accs.
Proof.
  intros Hv. unfold weak_order_on. split; [|split].
  - intros a _. rewrite FAcc_gt. apply ltb_irrefl.
  - intros a b c _ _ _. rewrite !FAcc_gt. intros H1 H2. exact (ltb_trans c b a H2 H1).
  - intros a b c _ Hb _. rewrite !FAcc_gt. intros H1 H2.
    exact (ltb_ntrans c b a (Forall_fnn_in accs b Hv Hb) H2 H1).
Qed.

Section LearnFloat.
  Context {W : Type}.
  Variable ltb : W -> W -> bool.
  Variables zero top : W.
  Variable w : nat -> nat -> W.

  (* the closed loop with binary64 accuracies IS Model/Learn.learn on its own records, the
     accuracies coded by their counting ranks ... *)
  Theorem learn_full_refines_float n draws st :
    let r := learn_full ltb zero top w FAcc n draws st in
    let accs := map (@fi_acc W float) (fr_trace r) in
    Forall fnn accs ->
    fr_res r = learn (map (enc_iter (grank (ao_gt FAcc) accs)) (fr_trace r)) n draws st.
  Proof.
    intros r accs Hv. apply learn_full_refines_weak_order. now apply FAcc_weak_order.
  Qed.

  (* ... or by their IEEE bit patterns *)
  Theorem learn_full_refines_float_enc n draws st :
    let r := learn_full ltb zero top w FAcc n draws st in
    let accs := map (@fi_acc W float) (fr_trace r) in
    Forall fnn accs ->
    fr_res r = learn (map (enc_iter fenc) (fr_trace r)) n draws st.
  Proof.
    intros r accs Hv. apply learn_full_refines_gen.
    intros it it' Hi Hi'. rewrite FAcc_gt. symmetry.
    apply fenc_ltb; apply (Forall_fnn_in accs); try exact Hv; unfold accs; now apply in_map.
  Qed.
End LearnFloat.
