(* The rank embedding of Proofs/OrderEmbed.v for STRICT WEAK orders.

   [strict_total_order] (Base/TotalOrder.v) asks that incomparable elements be Leibniz-equal.
   The comparisons the code actually performs do not all satisfy that: [PrimFloat.ltb] leaves
   -0 and +0 incomparable and distinct, a comparison of unreduced fractions leaves 1/2 and 2/4
   incomparable.  They are strict weak orders: irreflexive, transitive, and "not below" is
   transitive (equivalently: incomparability is an equivalence compatible with the order) - on
   the subset [P] of the carrier that excludes NaN.

   For the rank map  rk a = #{v in vals | v < a}  that is all that is needed:

       Z.ltb (rk a) (rk b) = ltb a b             for a, b in vals          (rk_ltb_w)
       rk a = rk b  <->  a, b incomparable        for a, b in vals          (rk_eq_w)

   (only injectivity degrades: equal ranks mean "same class", not "same element"), and the
   abstraction theorems of ParamSup.v need nothing but the first line, so the run of an
   order-only algorithm on (W, ltb) and its run on the ranks produce the same discrete results
   ([sup_fit_rank_related_w]). *)
From Coq Require Import List Arith Bool ZArith Lia.
From OPF Require Import Base.Lists Base.TotalOrder Model.Heap Model.Sup.
From OPF Require Import Proofs.ParamBase Proofs.ParamSup Proofs.WeightsExtBounded Proofs.OrderEmbed
  Proofs.LiftSup.
Import ListNotations.

Record strict_weak_order_on {W : Type} (P : W -> Prop) (ltb : W -> W -> bool) : Prop := {
  swo_irrefl : forall a, P a -> ltb a a = false;
  swo_trans : forall a b c, P a -> P b -> P c -> ltb a b = true -> ltb b c = true -> ltb a c = true;
  swo_ntrans : forall a b c, P a -> P b -> P c -> ltb a b = false -> ltb b c = false -> ltb a c = false
}.

(* a strict total order is a strict weak order on the whole carrier *)
Lemma total_is_weak {W} (ltb : W -> W -> bool) :
  strict_total_order ltb -> strict_weak_order_on (fun _ => True) ltb.
Proof.
  intros O. constructor.
  - intros a _. apply (so_irrefl ltb O).
  - intros a b c _ _ _. apply (so_trans ltb O).
  - intros a b c _ _ _ H1 H2. destruct (ltb a c) eqn:E; [|reflexivity].
    destruct (so_trichotomy ltb O a b) as [H|[H|H]]; [congruence | subst; congruence |].
    rewrite <- H2. symmetry. exact (so_trans ltb O b a c H E).
Qed.

Section WeakRank.
  Context {W : Type} (P : W -> Prop) (ltb : W -> W -> bool).
  Hypothesis O : strict_weak_order_on P ltb.

  Lemma swo_asym a b : P a -> P b -> ltb a b = true -> ltb b a = false.
  Proof.
    intros Ha Hb H. destruct (ltb b a) eqn:E; [|reflexivity].
    rewrite <- (swo_irrefl P ltb O a Ha). symmetry. exact (swo_trans P ltb O a b a Ha Hb Ha H E).
  Qed.

  Lemma cnt_mono_w l a b : Forall P l -> P a -> P b -> ltb a b = true -> cnt ltb l a <= cnt ltb l b.
  Proof.
    intros Hl Ha Hb Hab. induction Hl as [|x l Hx _ IH]; [apply Nat.le_refl|].
    rewrite !cnt_cons. destruct (ltb x a) eqn:Exa.
    - rewrite (swo_trans P ltb O x a b Hx Ha Hb Exa Hab). lia.
    - destruct (ltb x b); lia.
  Qed.

  Lemma cnt_strict_w l a b :
    Forall P l -> P a -> P b -> ltb a b = true -> In a l -> cnt ltb l a < cnt ltb l b.
  Proof.
    intros Hl Ha Hb Hab. induction Hl as [|x l Hx Hl IH]; intros Hin; [destruct Hin|].
    rewrite !cnt_cons. destruct Hin as [->|Hin].
    - rewrite (swo_irrefl P ltb O a Ha), Hab. pose proof (cnt_mono_w l a b Hl Ha Hb Hab). lia.
    - specialize (IH Hin). destruct (ltb x a) eqn:Exa.
      + rewrite (swo_trans P ltb O x a b Hx Ha Hb Exa Hab). lia.
      + destruct (ltb x b); lia.
  Qed.

  (* incomparable elements have the same elements below them *)
  Lemma below_incomparable x a b :
    P x -> P a -> P b -> ltb a b = false -> ltb b a = false -> ltb x a = ltb x b.
  Proof.
    intros Hx Ha Hb H1 H2. destruct (ltb x a) eqn:Ea, (ltb x b) eqn:Eb; try reflexivity.
    - rewrite (swo_ntrans P ltb O x b a Hx Hb Ha Eb H2) in Ea. discriminate Ea.
    - rewrite (swo_ntrans P ltb O x a b Hx Ha Hb Ea H1) in Eb. discriminate Eb.
  Qed.

  Lemma cnt_eq_w l a b :
    Forall P l -> P a -> P b -> ltb a b = false -> ltb b a = false -> cnt ltb l a = cnt ltb l b.
  Proof.
    intros Hl Ha Hb H1 H2. induction Hl as [|x l Hx _ IH]; [reflexivity|].
    rewrite !cnt_cons, (below_incomparable x a b Hx Ha Hb H1 H2), IH. reflexivity.
  Qed.

  Variable vals : list W.
  Hypothesis Hvals : Forall P vals.

  Local Notation r := (rk ltb vals).

  Lemma vals_P a : In a vals -> P a.
  Proof. intros Ha. exact (proj1 (Forall_forall P vals) Hvals a Ha). Qed.

  (* the embedding: on [vals] the two comparisons agree *)
  Theorem rk_ltb_w a b : In a vals -> In b vals -> Z.ltb (r a) (r b) = ltb a b.
  Proof.
    intros Ha Hb. pose proof (vals_P a Ha) as Pa. pose proof (vals_P b Hb) as Pb. unfold rk.
    destruct (ltb a b) eqn:E1.
    - apply Z.ltb_lt. pose proof (cnt_strict_w vals a b Hvals Pa Pb E1 Ha). lia.
    - apply Z.ltb_ge. destruct (ltb b a) eqn:E2.
      + pose proof (cnt_strict_w vals b a Hvals Pb Pa E2 Hb). lia.
      + rewrite (cnt_eq_w vals a b Hvals Pa Pb E1 E2). lia.
  Qed.

  (* equal ranks = same class *)
  Theorem rk_eq_w a b :
    In a vals -> In b vals -> (r a = r b <-> (ltb a b = false /\ ltb b a = false)).
  Proof.
    intros Ha Hb. rewrite <- (rk_ltb_w a b Ha Hb), <- (rk_ltb_w b a Hb Ha).
    rewrite !Z.ltb_ge. lia.
  Qed.

  Theorem rank_rel_compat_w a z :
    rank_rel ltb vals a z -> forall a' z', rank_rel ltb vals a' z' -> ltb a a' = Z.ltb z z'.
  Proof. intros [Ha ->] a' z' [Ha' ->]. symmetry. now apply rk_ltb_w. Qed.

  Lemma rk_omax_w a b : In a vals -> In b vals -> r (omax ltb a b) = Z.max (r a) (r b).
  Proof.
    intros Ha Hb. unfold omax. pose proof (rk_ltb_w a b Ha Hb) as E. destruct (ltb a b).
    - apply Z.ltb_lt in E. lia.
    - apply Z.ltb_ge in E. lia.
  Qed.

  Lemma rk_omin_w a b : In a vals -> In b vals -> r (omin ltb a b) = Z.min (r a) (r b).
  Proof.
    intros Ha Hb. unfold omin. pose proof (rk_ltb_w b a Hb Ha) as E. destruct (ltb b a).
    - apply Z.ltb_lt in E. lia.
    - apply Z.ltb_ge in E. lia.
  Qed.
End WeakRank.

(* the existence statement, free of the construction *)
Theorem finite_weak_order_embedding {W} (P : W -> Prop) (ltb : W -> W -> bool) :
  strict_weak_order_on P ltb ->
  forall vals : list W, Forall P vals -> exists f : W -> Z,
    (forall a b, In a vals -> In b vals -> Z.ltb (f a) (f b) = ltb a b) /\
    (forall a b, In a vals -> In b vals -> (f a = f b <-> (ltb a b = false /\ ltb b a = false))) /\
    (forall a, (0 <= f a <= Z.of_nat (length vals))%Z).
Proof.
  intros O vals Hv. exists (rk ltb vals). repeat split.
  - now apply (rk_ltb_w P ltb O vals Hv).
  - now apply (rk_eq_w P ltb O vals Hv).
  - now apply (rk_eq_w P ltb O vals Hv).
  - intros [A B]. apply (rk_eq_w P ltb O vals Hv); auto.
  - apply rk_nonneg.
  - apply rk_bound.
Qed.

(* ---------- supervised training on any weight type = training on integer codes ---------- *)

(* No order law is needed for this: if [f] maps the finitely many weights that the run can read
   to integers so that the two comparisons agree, the run on (W, ltb) and the run on (W2, ltb2)
   with the coded weights produce the same predecessors / labels / flags / conquest order, and
   coded costs.  (The order laws are what makes such an [f] exist.) *)
Theorem sup_fit_embedding_related {W W2} (ltb : W -> W -> bool) (ltb2 : W2 -> W2 -> bool) (f : W -> W2)
        (zero top : W) (labels : list nat) (w : nat -> nat -> W) :
  let n := length labels in
  let vals := zero :: top :: weight_vals n w in
  (forall a b, In a vals -> In b vals -> ltb2 (f a) (f b) = ltb a b) ->
  nodes_rel (fun a z => In a vals /\ z = f a)
            (sup_fit ltb zero top labels w)
            (sup_fit ltb2 (f zero) (f top) labels (fun p q => f (w p q))).
Proof.
  intros n vals Hf.
  destruct (sup_fit_ext_bounded ltb zero top labels w (clip2 n zero w)) as [E _].
  { intros p q Hp Hq. symmetry. now apply clip2_below. }
  destruct (sup_fit_ext_bounded ltb2 (f zero) (f top) labels
              (fun p q => f (w p q)) (fun p q => f (clip2 n zero w p q))) as [EZ _].
  { intros p q Hp Hq. now rewrite clip2_below. }
  rewrite E, EZ.
  apply (param_sup_fit (fun a z => In a vals /\ z = f a) ltb ltb2).
  - intros a z [Ha ->] a' z' [Ha' ->]. symmetry. now apply Hf.
  - split; [now left | reflexivity].
  - split; [right; now left | reflexivity].
  - intros p q. split; [|reflexivity]. apply clip2_in; [now left|].
    intros a b Ha Hb. right; right. now apply weight_vals_in.
Qed.

Lemma nodes_init_related {W W2} (R : W -> W2 -> Prop) zero zero2 labels :
  R zero zero2 -> nodes_rel R (nodes_init zero labels) (nodes_init zero2 labels).
Proof.
  intros Hz. unfold nodes_rel, nodes_init.
  cbn [n_cost n_pred n_label n_plabel n_status n_relevant n_order]. repeat split.
  induction (length labels) as [|k IH]; cbn [repeat]; constructor; assumption.
Qed.

(* the prototype search alone *)
Theorem find_prototypes_embedding_related {W W2} (ltb : W -> W -> bool) (ltb2 : W2 -> W2 -> bool) (f : W -> W2)
        (zero top : W) (labels : list nat) (w : nat -> nat -> W) :
  let n := length labels in
  let vals := zero :: top :: weight_vals n w in
  (forall a b, In a vals -> In b vals -> ltb2 (f a) (f b) = ltb a b) ->
  nodes_rel (fun a z => In a vals /\ z = f a)
            (find_prototypes ltb top n w (nodes_init zero labels))
            (find_prototypes ltb2 (f top) n (fun p q => f (w p q)) (nodes_init (f zero) labels)).
Proof.
  intros n vals Hf.
  rewrite (find_prototypes_ext_bounded ltb top n w (clip2 n zero w))
    by (intros p q Hp Hq; symmetry; now apply clip2_below).
  rewrite (find_prototypes_ext_bounded ltb2 (f top) n (fun p q => f (w p q))
             (fun p q => f (clip2 n zero w p q)))
    by (intros p q Hp Hq; now rewrite clip2_below).
  apply (param_find_prototypes (fun a z => In a vals /\ z = f a) ltb ltb2).
  - intros a z [Ha ->] a' z' [Ha' ->]. symmetry. now apply Hf.
  - split; [right; now left | reflexivity].
  - intros p q. split; [|reflexivity]. apply clip2_in; [now left|].
    intros a b Ha Hb. right; right. now apply weight_vals_in.
  - apply nodes_init_related. split; [now left | reflexivity].
Qed.

Section LiftedWeak.
  Context {W : Type} (P : W -> Prop) (ltb : W -> W -> bool).
  Hypothesis O : strict_weak_order_on P ltb.

  Theorem sup_fit_rank_related_w (zero top : W) (labels : list nat) (w : nat -> nat -> W) :
    let n := length labels in
    let vals := zero :: top :: weight_vals n w in
    let r := rk ltb vals in
    Forall P vals ->
    nodes_rel (rank_rel ltb vals)
              (sup_fit ltb zero top labels w)
              (sup_fit Z.ltb (r zero) (r top) labels (fun p q => r (w p q))).
  Proof.
    intros n vals r Hv. apply (sup_fit_embedding_related ltb Z.ltb r zero top labels w).
    intros a b Ha Hb. now apply (rk_ltb_w P ltb O vals Hv).
  Qed.
End LiftedWeak.

(* ---------- dense ranks of integer codes (harness/common.py: Ranker) ---------- *)

(* [Ranker] sorts the SET of codes and maps a code to its index: the number of distinct codes
   strictly below it. *)
Definition drank (l : list Z) (z : Z) : Z :=
  Z.of_nat (length (nodup Z.eq_dec (filter (fun v => Z.ltb v z) l))).

Lemma drank_le l a b : (a <= b)%Z -> (drank l a <= drank l b)%Z.
Proof.
  intros Hab. unfold drank. apply Nat2Z.inj_le. apply NoDup_incl_length; [apply NoDup_nodup|].
  intros x Hx. apply nodup_In in Hx. apply nodup_In. apply filter_In in Hx. apply filter_In.
  destruct Hx as [Hx Hlt]. split; [exact Hx|]. apply Z.ltb_lt in Hlt. apply Z.ltb_lt. lia.
Qed.

Lemma drank_lt l a b : In a l -> (a < b)%Z -> (drank l a < drank l b)%Z.
Proof.
  intros Ha Hab. unfold drank. apply Nat2Z.inj_lt.
  set (Sa := nodup Z.eq_dec (filter (fun v => Z.ltb v a) l)).
  set (Sb := nodup Z.eq_dec (filter (fun v => Z.ltb v b) l)).
  assert (Hn : NoDup (a :: Sa)).
  { constructor; [|apply NoDup_nodup]. unfold Sa. intros Hin. apply nodup_In, filter_In in Hin.
    destruct Hin as [_ Hlt]. apply Z.ltb_lt in Hlt. lia. }
  assert (Hi : incl (a :: Sa) Sb).
  { intros x [<-|Hx]; unfold Sb; apply nodup_In, filter_In.
    - split; [exact Ha | now apply Z.ltb_lt].
    - unfold Sa in Hx. apply nodup_In, filter_In in Hx. destruct Hx as [Hx Hlt].
      split; [exact Hx|]. apply Z.ltb_lt in Hlt. apply Z.ltb_lt. lia. }
  pose proof (NoDup_incl_length Hn Hi) as H. cbn [length] in H. lia.
Qed.

(* the dense rank is an order embedding of the listed codes, with values in 0 .. #codes - 1 *)
Theorem drank_ltb l a b : In a l -> In b l -> Z.ltb (drank l a) (drank l b) = Z.ltb a b.
Proof.
  intros Ha Hb. destruct (Z.ltb a b) eqn:E.
  - apply Z.ltb_lt. apply Z.ltb_lt in E. now apply drank_lt.
  - apply Z.ltb_ge. apply Z.ltb_ge in E. now apply drank_le.
Qed.

Theorem drank_range l a : In a l -> (0 <= drank l a < Z.of_nat (length (nodup Z.eq_dec l)))%Z.
Proof.
  intros Ha. split; [unfold drank; lia|]. unfold drank. apply Nat2Z.inj_lt.
  set (Sa := nodup Z.eq_dec (filter (fun v => Z.ltb v a) l)).
  assert (Hn : NoDup (a :: Sa)).
  { constructor; [|apply NoDup_nodup]. unfold Sa. intros Hin. apply nodup_In, filter_In in Hin.
    destruct Hin as [_ Hlt]. apply Z.ltb_lt in Hlt. lia. }
  assert (Hi : incl (a :: Sa) (nodup Z.eq_dec l)).
  { intros x [<-|Hx]; apply nodup_In; [exact Ha|].
    unfold Sa in Hx. apply nodup_In, filter_In in Hx. tauto. }
  pose proof (NoDup_incl_length Hn Hi) as H. cbn [length] in H. lia.
Qed.
