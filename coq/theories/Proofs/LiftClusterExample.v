(* Non-vacuity of the order-generic C13 theorems at W := nat: the 5-node instance of
   ClusterExample.v with every weight shifted by one (so that [bot := 0] lies below the
   initial costs). *)
From Coq Require Import List Arith Bool Lia Permutation.
From OPF Require Import Base.Lists Base.TotalOrder Model.Heap Model.Knn Spec.Paths Spec.Trees
  Proofs.LiftCluster Proofs.LiftInst.
Import ListNotations.
Open Scope nat_scope.

Definition exn_g : @knn nat :=
  mkKnn [0; 0; 1; 1; 1] [[1; 2]; [0; 2]; [1; 0]; [4; 2]; [3; 2]] [1; 1; 1; 1; 1] [0; 0; 0; 0; 0]
        [6; 6; 4; 5; 4] [5; 5; 3; 4; 3] [None; None; None; None; None]
        [0; 0; 0; 0; 0] [0; 0; 0; 0; 0] [0; 0; 0; 0; 0] [] 1 0.

Definition exn_sup (force : bool) : @knn nat := clustering_sup Nat.ltb 1 1000 0 force exn_g.
Definition exn_unsup : @knn nat := clustering_unsup Nat.ltb 1 1000 0 2 exn_g.

Example exn_sup_false :
  k_pred (exn_sup false) = [None; Some 0; Some 0; None; Some 3] /\
  k_root (exn_sup false) = [0; 0; 0; 3; 3] /\
  k_cost (exn_sup false) = [6; 6; 4; 5; 4] /\
  k_plabel (exn_sup false) = [0; 0; 0; 1; 1] /\
  k_order (exn_sup false) = [0; 1; 3; 2; 4].
Proof. vm_compute. repeat split; reflexivity. Qed.

Example exn_sup_true :
  k_pred (exn_sup true) = [None; Some 0; Some 3; None; Some 3] /\
  k_root (exn_sup true) = [0; 0; 3; 3; 3] /\
  k_cost (exn_sup true) = [6; 6; 4; 5; 4] /\
  k_plabel (exn_sup true) = k_label exn_g /\
  k_order (exn_sup true) = [0; 1; 3; 4; 2].
Proof. vm_compute. repeat split; reflexivity. Qed.

Example exn_unsup_result :
  k_pred exn_unsup = [None; Some 0; Some 0; None; Some 3] /\
  k_root exn_unsup = [0; 0; 0; 3; 3] /\
  k_cost exn_unsup = [6; 6; 4; 5; 4] /\
  k_clabel exn_unsup = [0; 0; 0; 1; 1] /\
  k_order exn_unsup = [0; 1; 3; 2; 4] /\
  k_nclusters exn_unsup = 2 /\
  k_plabel (propagate_labels exn_unsup) = [0; 0; 0; 1; 1].
Proof. vm_compute. repeat split; reflexivity. Qed.

(* the premises of the theorems of LiftCluster.v hold for the instance *)
Example exn_cluster_premises :
  strict_total_order Nat.ltb /\
  length (k_label exn_g) = 5 /\ length (k_cost exn_g) = 5 /\ length (k_pred exn_g) = 5 /\
  length (k_root exn_g) = 5 /\ length (k_plabel exn_g) = 5 /\ length (k_clabel exn_g) = 5 /\
  (forall p q, In q (nth p (k_adj exn_g) []) -> q < 5) /\
  (forall i, i < 5 -> Nat.ltb (nth i (k_cost exn_g) 1) (nth i (k_dens exn_g) 1) = true) /\
  (forall force : bool, force = true ->
     forall i, i < 5 -> Nat.ltb 0 (nth i (k_cost exn_g) 1) = true).
Proof.
  split; [exact nat_order|]. do 6 (split; [reflexivity|]). split; [|split].
  - intros p q H.
    destruct p as [|[|[|[|[|p]]]]]; cbn in H; try (destruct p; contradiction); intuition lia.
  - intros i Hi. destruct i as [|[|[|[|[|i]]]]]; try reflexivity. lia.
  - intros _ _ i Hi. destruct i as [|[|[|[|[|i]]]]]; try reflexivity. lia.
Qed.

(* hence the conclusions; e.g. the forest theorem *)
Example exn_forest_sup : forall force q, q < 5 ->
  let pred := fun q => nth q (k_pred (exn_sup force)) None in
  exists r j, j < 5 /\ r < 5 /\ reaches pred q r j /\ pred r = None /\
    (forall r', root_of pred q r' -> r' = r) /\
    nth q (k_root (exn_sup force)) 0 = r /\
    Nat.ltb (nth r (k_cost (exn_sup force)) 1) (nth q (k_cost (exn_sup force)) 1) = false /\
    nth r (k_cost (exn_sup force)) 1 = nth r (k_dens exn_g) 1.
Proof.
  intros force q Hq pred.
  destruct exn_cluster_premises as (O & L1 & L2 & L3 & L4 & L5 & L6 & A & B & C).
  destruct (clustering_sup_forest_anyorder Nat.ltb O 1 1000 0 exn_g 5 L1 L2 L3 L4 L5 L6 A B force
              (C force) q Hq) as (r & j & H1 & H2 & H3 & H4 & H5 & H6 & H7 & H8 & _).
  exists r, j. repeat split; assumption.
Qed.

(* the same result, stated without the auxiliary definition (form used in Props/C13_anyorder.v) *)
Example exn_unsup_result_explicit :
  let g' := clustering_unsup Nat.ltb 1 1000 0 2 exn_g in
  k_pred g' = [None; Some 0; Some 0; None; Some 3] /\
  k_root g' = [0; 0; 0; 3; 3] /\
  k_cost g' = [6; 6; 4; 5; 4] /\
  k_clabel g' = [0; 0; 0; 1; 1] /\
  k_order g' = [0; 1; 3; 2; 4] /\
  k_nclusters g' = 2 /\
  k_plabel (propagate_labels g') = [0; 0; 0; 1; 1].
Proof. vm_compute. repeat split; reflexivity. Qed.
