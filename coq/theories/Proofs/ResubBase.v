(* C04 / C11 (permutation half), abstract part: everything that follows from the facts
   delivered by C01 (optimum-path forest) and C02 (Prim's tree, prototypes = endpoints of
   the class-crossing tree arcs), without looking at the algorithms again.

   [opf_facts] packages those facts for arbitrary functions [cost], [pred], [plabel],
   [proto] and an arbitrary parent map [tpred] of the tree.  Proofs/Resub.v shows that
   [sup_fit] on tie-free data satisfies them. *)
From Coq Require Import List Arith Bool ZArith Lia.
From OPF Require Import Spec.Paths Spec.Trees Proofs.PrimLists Proofs.PrimGraph.
Import ListNotations.
Open Scope nat_scope.

(* Tie-free data: symmetric weights, pairwise distinct on unordered pairs of distinct
   nodes, strictly between [zero] (the self-distance) and [top] (FLOAT_MAX). *)
Definition tie_free (n : nat) (w : nat -> nat -> Z) (zero top : Z) : Prop :=
  (forall p q, p < n -> q < n -> w p q = w q p) /\
  distinct_weights n w /\
  (forall p q, p < n -> q < n -> p <> q -> (zero < w p q < top)%Z).

(* at least two classes occur among the first n labels *)
Definition two_classes (n : nat) (lab : nat -> nat) : Prop :=
  exists a b, a < n /\ b < n /\ lab a <> lab b.

Lemma tie_free_def :
  forall (n : nat) (w : nat -> nat -> Z) (zero top : Z),
    tie_free n w zero top <->
    (forall p q, p < n -> q < n -> w p q = w q p) /\
    (forall a b c d, a < n -> b < n -> c < n -> d < n -> a <> b -> c <> d ->
       w a b = w c d -> (a = c /\ b = d) \/ (a = d /\ b = c)) /\
    (forall p q, p < n -> q < n -> p <> q -> (zero < w p q < top)%Z).
Proof. exact (fun n w zero top => iff_refl _). Qed.

Lemma NoDup_app_disjoint {A} (l1 l2 : list A) a : NoDup (l1 ++ l2) -> In a l1 -> In a l2 -> False.
Proof.
  induction l1 as [|x l1 IH]; intros Hnd H1 H2; [destruct H1|].
  cbn [app] in Hnd. apply NoDup_cons_iff in Hnd. destruct Hnd as [Hx Hnd].
  destruct H1 as [->|H1].
  - apply Hx. apply in_or_app. right; exact H2.
  - exact (IH Hnd H1 H2).
Qed.

Lemma arc_on_app_l l1 l2 a b : arc_on l1 a b -> arc_on (l1 ++ l2) a b.
Proof.
  intros [m1 [m2 ->]]. exists m1, (m2 ++ l2). rewrite <- app_assoc. reflexivity.
Qed.

Section Forest.
  Variables (n : nat) (w : nat -> nat -> Z) (zero : Z) (lab : nat -> nat).
  Variables (cost : nat -> Z) (pred : nat -> option nat) (plabel : nat -> nat) (proto : nat -> bool).
  Variable tpred : nat -> option nat.

  Record opf_facts : Prop := mkFacts {
    of_sym : forall p q, p < n -> q < n -> w p q = w q p;
    of_dist : distinct_weights n w;
    of_pos : forall p q, p < n -> q < n -> p <> q -> (zero < w p q)%Z;
    (* C01: the forest *)
    of_root : forall q, q < n -> proto q = true ->
      pred q = None /\ cost q = zero /\ plabel q = lab q;
    of_link : forall q, q < n -> proto q = false ->
      exists p, pred q = Some p /\ p < n /\ p <> q /\
        cost q = Z.max (cost p) (w p q) /\ plabel q = plabel p;
    of_reach : forall q, q < n -> exists r k, r < n /\ proto r = true /\ reaches pred q r k;
    (* C01: optimality *)
    of_lb : forall q s pi, q < n -> s < n -> proto s = true -> path_from_to n s q pi ->
      (cost q <= pathmax w zero pi)%Z;
    of_att : forall q, q < n -> exists s pi, s < n /\ proto s = true /\ path_from_to n s q pi /\
      pathmax w zero pi = cost q;
    (* C02: the tree and the prototypes *)
    of_conn : forall u v, u < n -> v < n -> exists tp, tree_path_rel n tpred u v tp;
    of_cyc : forall u v tp, u < n -> v < n -> tree_path_rel n tpred u v tp ->
      forall a b, arc_on tp a b -> (w a b <= w u v)%Z;
    of_proto : forall q, q < n ->
      (proto q = true <->
       exists r, (tpred q = Some r \/ tpred r = Some q) /\ r < n /\ lab q <> lab r) }.

  Hypothesis F : opf_facts.

  Lemma cost_nonneg q : q < n -> (zero <= cost q)%Z.
  Proof.
    intros Hq. destruct (of_att F q Hq) as (s & pi & _ & _ & _ & E). rewrite <- E.
    apply pathmax_ge.
  Qed.

  (* Key lemma: every sample is reached from a prototype strictly below its distance to any
     sample of another class. *)
  Lemma cost_lt_cross a b : a < n -> b < n -> lab a <> lab b -> (cost b < w a b)%Z.
  Proof.
    intros Ha Hb Hlab.
    assert (Hab : a <> b) by (intros ->; apply Hlab; reflexivity).
    destruct (of_conn F b a Hb Ha) as [tp Htp].
    pose proof Htp as (Hpath & Hnd & Hch).
    pose proof Hpath as ((Hne & Hfa) & Hhd & Hlast).
    rewrite Forall_forall in Hfa.
    destruct (crossing (fun x => lab x = lab b) (fun x => match Nat.eq_dec (lab x) (lab b) with
                 | left E => or_introl E | right E => or_intror E end) tp b Hhd eq_refl)
      as (x & y & Hxy & Hx & Hy).
    { rewrite Hlast. exact Hlab. }
    pose proof (chain_arc _ _ _ _ Hch Hxy) as Harc.
    destruct (arc_on_In _ _ _ Hxy) as [Hxin Hyin].
    pose proof (Hfa x Hxin) as Hxn. pose proof (Hfa y Hyin) as Hyn.
    assert (Hpx : proto x = true).
    { apply (of_proto F x Hxn). exists y. split; [exact Harc|]. split; [exact Hyn|]. congruence. }
    destruct Hxy as (l1 & l2 & Etp).
    set (P := l1 ++ [x]).
    assert (EtpP : tp = P ++ y :: l2).
    { unfold P. rewrite <- app_assoc. exact Etp. }
    assert (HPne : P <> []).
    { unfold P. intros E. apply app_eq_nil in E. destruct E as [_ E]. discriminate. }
    assert (HPin : forall z, In z P -> In z tp).
    { intros z Hz. rewrite EtpP. apply in_or_app. left; exact Hz. }
    assert (HhdP : hd_error P = Some b).
    { unfold P. rewrite Etp in Hhd. destruct l1 as [|c l1]; exact Hhd. }
    assert (HlastP : forall d, last P d = x) by (intros d; unfold P; apply last_last).
    (* the reversed prefix is a path from the prototype x to b *)
    assert (HpathP : path_from_to n x b (rev P)).
    { split; [split|split].
      - intros E. apply HPne. apply (f_equal (@rev nat)) in E. rewrite rev_involutive in E. exact E.
      - apply Forall_rev. rewrite Forall_forall. intros z Hz. apply Hfa, HPin, Hz.
      - rewrite <- (HlastP x). apply hd_error_rev. exact HPne.
      - apply last_rev. exact HhdP. }
    pose proof (of_lb F b x (rev P) Hb Hxn Hpx HpathP) as Hle.
    rewrite pathmax_rev in Hle.
    2:{ intros c d Hc Hd. apply (of_sym F); apply Hfa, HPin; assumption. }
    (* a, the far end of the tree path, is not on the prefix *)
    assert (Hanot : ~ In a P).
    { intros HaP. rewrite EtpP in Hnd. apply (NoDup_app_disjoint P (y :: l2) a Hnd HaP).
      rewrite <- Hlast. rewrite EtpP. rewrite (last_app_cons P y l2). apply last_In. discriminate. }
    assert (Hpos : (zero < w b a)%Z) by (apply (of_pos F); auto).
    assert (Hbound : (pathmax w zero P <= w b a - 1)%Z).
    { apply pathmax_le_iff; [lia|]. intros c d Hcd.
      assert (Hcd' : arc_on tp c d) by (rewrite EtpP; apply arc_on_app_l; exact Hcd).
      pose proof (of_cyc F b a tp Hb Ha Htp c d Hcd') as Hwle.
      destruct (Z.eq_dec (w c d) (w b a)) as [E|E]; [exfalso|lia].
      destruct (arc_on_In _ _ _ Hcd) as [Hcin Hdin].
      assert (Hcne : c <> d).
      { intros ->. destruct Hcd' as (m1 & m2 & E'). rewrite E' in Hnd.
        apply NoDup_app_r in Hnd. apply NoDup_cons_iff in Hnd. apply Hnd. left; reflexivity. }
      destruct (of_dist F c d b a (Hfa c (HPin c Hcin)) (Hfa d (HPin d Hdin)) Hb Ha Hcne
                  (fun E' => Hab (eq_sym E')) E) as [[_ ->]|[-> _]]; apply Hanot; assumption. }
    rewrite (of_sym F a b Ha Hb). lia.
  Qed.

  (* no forest arc joins two classes *)
  Lemma link_same_label q p : q < n -> proto q = false -> pred q = Some p -> lab p = lab q.
  Proof.
    intros Hq Hnp Hp.
    destruct (of_link F q Hq Hnp) as (p' & Hp' & Hpn & Hne & Hcost & _).
    assert (p' = p) by congruence. subst p'.
    destruct (Nat.eq_dec (lab p) (lab q)) as [E|E]; [exact E|exfalso].
    pose proof (cost_lt_cross p q Hpn Hq E). lia.
  Qed.

  Lemma proto_pred_none q p : q < n -> pred q = Some p -> proto q = false.
  Proof.
    intros Hq Hp. destruct (proto q) eqn:E; [|reflexivity].
    destruct (of_root F q Hq E) as (Hn & _). congruence.
  Qed.

  Lemma reach_label : forall k q r, reaches pred q r k -> q < n -> proto r = true ->
    plabel q = lab q.
  Proof.
    induction k as [|k IH]; intros q r Hr Hq Hpr.
    - inversion Hr; subst. apply (of_root F r Hq Hpr).
    - inversion Hr as [|? p ? ? Hp Hr']; subst.
      pose proof (proto_pred_none q p Hq Hp) as Hnp.
      destruct (of_link F q Hq Hnp) as (p' & Hp' & Hpn & _ & _ & Hpl).
      assert (p' = p) by congruence. subst p'.
      rewrite Hpl, (IH p r Hr' Hpn Hpr). apply (link_same_label q p Hq Hnp Hp).
  Qed.

  (* C04, part 1 *)
  Theorem labels_own q : q < n -> plabel q = lab q.
  Proof.
    intros Hq. destruct (of_reach F q Hq) as (r & k & _ & Hpr & Hr).
    exact (reach_label k q r Hr Hq Hpr).
  Qed.

  (* C04, part 2: on the distances of training row t (self-distance [zero]) every minimiser
     of max(cost, d) has t's class *)
  Theorem self_query_label (d : nat -> Z) t ts :
    t < n -> d t = zero -> (forall s, s < n -> s <> t -> d s = w s t) ->
    ts < n -> (forall s, s < n -> (Z.max (cost ts) (d ts) <= Z.max (cost s) (d s))%Z) ->
    lab ts = lab t.
  Proof.
    intros Ht Hdt Hd Hts Hmin.
    destruct (Nat.eq_dec (lab ts) (lab t)) as [E|E]; [exact E|exfalso].
    assert (Hne : ts <> t) by (intros ->; apply E; reflexivity).
    pose proof (cost_lt_cross ts t Hts Ht E) as Hlt.
    pose proof (Hmin t Ht) as Hle. rewrite Hdt, (Hd ts Hts Hne) in Hle.
    pose proof (cost_nonneg t Ht). lia.
  Qed.

  (* ---------------------------------------------------------------- *)
  (* equal positive costs: same bottleneck arc, same tree of the forest *)

  Lemma climb : forall k q r c, reaches pred q r k -> q < n -> proto r = true ->
    cost q = c -> (zero < c)%Z ->
    exists u v, u < n /\ v < n /\ u <> v /\ pred v = Some u /\ (cost u < c)%Z /\ w u v = c /\
                cost v = c /\ plabel q = plabel v.
  Proof.
    induction k as [|k IH]; intros q r c Hr Hq Hpr Hc Hpos.
    - inversion Hr; subst. destruct (of_root F r Hq Hpr) as (_ & E & _). lia.
    - inversion Hr as [|? p ? ? Hp Hr']; subst.
      pose proof (proto_pred_none q p Hq Hp) as Hnp.
      destruct (of_link F q Hq Hnp) as (p' & Hp' & Hpn & Hne & Hcost & Hpl).
      assert (p' = p) by congruence. subst p'.
      destruct (Z.eq_dec (cost p) (cost q)) as [E|E].
      + destruct (IH p r (cost q) Hr' Hpn Hpr E Hpos) as (u & v & H1 & H2 & H3 & H4 & H5 & H6 & H7 & H8).
        exists u, v. repeat split; try assumption. congruence.
      + exists p, q. repeat split; try assumption; lia.
  Qed.

  Lemma climb_q q : q < n -> (zero < cost q)%Z ->
    exists u v, u < n /\ v < n /\ u <> v /\ pred v = Some u /\ (cost u < cost q)%Z /\
                w u v = cost q /\ cost v = cost q /\ plabel q = plabel v.
  Proof.
    intros Hq Hpos. destruct (of_reach F q Hq) as (r & k & _ & Hpr & Hr).
    exact (climb k q r (cost q) Hr Hq Hpr eq_refl Hpos).
  Qed.

  Theorem equal_cost_same_class s s' :
    s < n -> s' < n -> cost s = cost s' -> (zero < cost s)%Z -> lab s = lab s'.
  Proof.
    intros Hs Hs' E Hpos.
    destruct (climb_q s Hs Hpos) as (u & v & Hu & Hv & Huv & _ & Hcu & Hw & Hcv & Hpl).
    destruct (climb_q s' Hs' ltac:(lia)) as (u' & v' & Hu' & Hv' & Huv' & _ & Hcu' & Hw' & Hcv' & Hpl').
    rewrite <- (labels_own s Hs), <- (labels_own s' Hs'), Hpl, Hpl'.
    destruct (of_dist F u v u' v' Hu Hv Hu' Hv' Huv Huv' ltac:(congruence)) as [[_ ->]|[-> _]].
    - reflexivity.
    - exfalso. lia.
  Qed.

  (* a recorded cost is [zero] or the weight of an arc *)
  Lemma cost_zero_or_weight q : q < n ->
    cost q = zero \/ exists u v, u < n /\ v < n /\ u <> v /\ cost q = w u v.
  Proof.
    intros Hq. pose proof (cost_nonneg q Hq) as Hge.
    destruct (Z.eq_dec (cost q) zero) as [E|E]; [left; exact E|right].
    destruct (climb_q q Hq ltac:(lia)) as (u & v & Hu & Hv & Huv & _ & _ & Hw & _).
    exists u, v. auto.
  Qed.

  (* query distances in general position: pairwise distinct, distinct from every training
     weight, not below [zero] *)
  Definition generic_query (d : nat -> Z) : Prop :=
    (forall s, s < n -> (zero <= d s)%Z) /\
    (forall s s', s < n -> s' < n -> s <> s' -> d s <> d s') /\
    (forall s a b, s < n -> a < n -> b < n -> a <> b -> d s <> w a b).

  (* all samples offering the same value max(cost, d) carry one label *)
  Theorem equal_val_same_label (d : nat -> Z) s s' :
    generic_query d -> s < n -> s' < n ->
    Z.max (cost s) (d s) = Z.max (cost s') (d s') -> lab s = lab s'.
  Proof.
    intros (Hd0 & Hdd & Hdw) Hs Hs' E.
    destruct (Nat.eq_dec s s') as [->|Hne]; [reflexivity|].
    pose proof (Hdd s s' Hs Hs' Hne) as Hd1.
    pose proof (Hd0 s Hs) as Hds. pose proof (Hd0 s' Hs') as Hds'.
    pose proof (cost_nonneg s Hs) as Hcs. pose proof (cost_nonneg s' Hs') as Hcs'.
    assert (Hx : forall x, x < n -> forall y, y < n -> (zero < cost x)%Z -> d y <> cost x).
    { intros x Hx y Hy Hpos. destruct (climb_q x Hx Hpos) as (u & v & Hu & Hv & Huv & _ & _ & Hw & _).
      rewrite <- Hw. apply Hdw; assumption. }
    destruct (Z.eq_dec (cost s) zero) as [Ez|Ez]; destruct (Z.eq_dec (cost s') zero) as [Ez'|Ez'].
    - exfalso. lia.
    - exfalso. pose proof (Hx s' Hs' s Hs ltac:(lia)). lia.
    - exfalso. pose proof (Hx s Hs s' Hs' ltac:(lia)). lia.
    - pose proof (Hx s Hs s' Hs' ltac:(lia)). pose proof (Hx s' Hs' s Hs ltac:(lia)).
      pose proof (Hx s Hs s Hs ltac:(lia)). pose proof (Hx s' Hs' s' Hs' ltac:(lia)).
      apply equal_cost_same_class; try assumption; lia.
  Qed.
End Forest.
