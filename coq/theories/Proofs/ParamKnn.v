(* Abstraction theorems for the order-only KNN layer (Model/Knn.v): the insertion scan,
   create_arcs, both clusterings and the arg-max of the KNN predicts.  Same scheme as ParamSup.v. *)
From Coq Require Import List Arith Bool.
From OPF Require Import Base.Lists Model.Heap Model.Knn Proofs.ParamBase.
From Param Require Import Param.
Import ListNotations.

Global Parametricity Tactic := ((param_destruct_reflexivity; fail) || auto).

Parametricity Recursive knn_scan.
Parametricity Recursive create_arcs.
Parametricity Recursive clustering_sup.
Parametricity Recursive clustering_unsup.
Parametricity Recursive knn_pick.

Definition knn_rel {W1 W2} (R : W1 -> W2 -> Prop) (a : @knn W1) (b : @knn W2) : Prop :=
  k_label a = k_label b /\ k_adj a = k_adj b /\ Forall2 R (k_radius a) (k_radius b) /\
  k_nplat a = k_nplat b /\ Forall2 R (k_dens a) (k_dens b) /\ Forall2 R (k_cost a) (k_cost b) /\
  k_pred a = k_pred b /\ k_root a = k_root b /\ k_plabel a = k_plabel b /\
  k_clabel a = k_clabel b /\ k_order a = k_order b /\ R (k_gdens a) (k_gdens b) /\
  k_nclusters a = k_nclusters b.

Lemma knn_R_rel {W1 W2} (R : W1 -> W2 -> Prop) a b : knn_R W1 W2 R a b -> knn_rel R a b.
Proof.
  intros H.
  destruct H as [l1 l2 Hl a1 a2 Ha r1 r2 Hr n1 n2 Hn d1 d2 Hd c1 c2 Hc p1 p2 Hp ro1 ro2 Hro
                 pl1 pl2 Hpl cl1 cl2 Hcl o1 o2 Ho g1 g2 Hg nc1 nc2 Hnc].
  unfold knn_rel; cbn [k_label k_adj k_radius k_nplat k_dens k_cost k_pred k_root k_plabel
                                k_clabel k_order k_gdens k_nclusters].
  repeat split.
  - now apply list_nat_R_eq.
  - now apply list_list_nat_R_eq.
  - now apply list_R_Forall2.
  - now apply list_nat_R_eq.
  - now apply list_R_Forall2.
  - now apply list_R_Forall2.
  - now apply list_optnat_R_eq.
  - now apply list_nat_R_eq.
  - now apply list_nat_R_eq.
  - now apply list_nat_R_eq.
  - now apply list_nat_R_eq.
  - exact Hg.
  - now apply nat_R_eq.
Qed.

Lemma knn_rel_R {W1 W2} (R : W1 -> W2 -> Prop) a b : knn_rel R a b -> inhabited (knn_R W1 W2 R a b).
Proof.
  destruct a as [l1 a1 r1 n1 d1 c1 p1 ro1 pl1 cl1 o1 g1 nc1],
           b as [l2 a2 r2 n2 d2 c2 p2 ro2 pl2 cl2 o2 g2 nc2].
  unfold knn_rel; cbn [k_label k_adj k_radius k_nplat k_dens k_cost k_pred k_root k_plabel
                                k_clabel k_order k_gdens k_nclusters].
  intros (Hl & Ha & Hr & Hn & Hd & Hc & Hp & Hro & Hpl & Hcl & Ho & Hg & Hnc). subst.
  destruct (Forall2_list_R R _ _ Hr) as [Hr'].
  destruct (Forall2_list_R R _ _ Hd) as [Hd'].
  destruct (Forall2_list_R R _ _ Hc) as [Hc'].
  constructor. constructor; try assumption.
  - apply list_nat_R_refl.
  - apply list_list_nat_R_refl.
  - apply list_nat_R_refl.
  - apply list_optnat_R_refl.
  - apply list_nat_R_refl.
  - apply list_nat_R_refl.
  - apply list_nat_R_refl.
  - apply list_nat_R_refl.
  - apply nat_R_refl.
Qed.

Section Abstraction.
  Context {W1 W2 : Type} (R : W1 -> W2 -> Prop).
  Variables (ltb1 : W1 -> W1 -> bool) (ltb2 : W2 -> W2 -> bool).
  Hypothesis Hltb : forall a b, R a b -> forall a' b', R a' b' -> ltb1 a a' = ltb2 b b'.
  Variables (zero1 top1 bot1 : W1) (zero2 top2 bot2 : W2).
  Hypothesis Hzero : R zero1 zero2.
  Hypothesis Htop : R top1 top2.
  Hypothesis Hbot : R bot1 bot2.

  Let ltb_R : forall a b, R a b -> forall a' b', R a' b' -> bool_R (ltb1 a a') (ltb2 b b').
  Proof. intros a b Hab a' b' Hab'. apply bool_R_of_eq. now apply Hltb. Defined.

  (* same neighbour lists, related distance slots *)
  Theorem param_knn_scan k n d1 d2 skip ns :
    (forall j, R (d1 j) (d2 j)) ->
    Forall2 R (fst (knn_scan ltb1 top1 k n d1 skip ns)) (fst (knn_scan ltb2 top2 k n d2 skip ns)) /\
    snd (knn_scan ltb1 top1 k n d1 skip ns) = snd (knn_scan ltb2 top2 k n d2 skip ns).
  Proof.
    intros Hd.
    pose proof (knn_scan_R W1 W2 R ltb1 ltb2 ltb_R top1 top2 Htop k k (nat_R_refl k) n n (nat_R_refl n)
                           d1 d2 (fun1_R R d1 d2 Hd) skip skip (optnat_R_refl skip)
                           ns ns (list_nat_R_refl ns)) as H.
    destruct H as [a a' Ha b b' Hb]. cbn [fst snd]. split.
    - now apply list_R_Forall2.
    - now apply list_nat_R_eq.
  Qed.

  Theorem param_create_arcs thr1 thr2 one1 one2 k n w1 w2 g1 g2 :
    R thr1 thr2 -> R one1 one2 -> (forall p q, R (w1 p q) (w2 p q)) -> knn_rel R g1 g2 ->
    knn_rel R (fst (create_arcs ltb1 zero1 top1 thr1 one1 k n w1 g1))
              (fst (create_arcs ltb2 zero2 top2 thr2 one2 k n w2 g2)) /\
    Forall2 R (snd (create_arcs ltb1 zero1 top1 thr1 one1 k n w1 g1))
              (snd (create_arcs ltb2 zero2 top2 thr2 one2 k n w2 g2)).
  Proof.
    intros Hthr Hone Hw Hg. destruct (knn_rel_R R _ _ Hg) as [HG].
    pose proof (create_arcs_R W1 W2 R ltb1 ltb2 ltb_R zero1 zero2 Hzero top1 top2 Htop
                              thr1 thr2 Hthr one1 one2 Hone k k (nat_R_refl k) n n (nat_R_refl n)
                              w1 w2 (fun2_R R w1 w2 Hw) g1 g2 HG) as H.
    destruct H as [a a' Ha b b' Hb]. cbn [fst snd]. split.
    - now apply knn_R_rel.
    - now apply list_R_Forall2.
  Qed.

  Theorem param_clustering_sup force g1 g2 :
    knn_rel R g1 g2 ->
    knn_rel R (clustering_sup ltb1 zero1 top1 bot1 force g1) (clustering_sup ltb2 zero2 top2 bot2 force g2).
  Proof.
    intros Hg. destruct (knn_rel_R R _ _ Hg) as [HG]. apply knn_R_rel.
    apply (clustering_sup_R W1 W2 R ltb1 ltb2 ltb_R zero1 zero2 Hzero top1 top2 Htop bot1 bot2 Hbot
                            force force (bool_R_refl force) g1 g2 HG).
  Qed.

  Theorem param_clustering_unsup k g1 g2 :
    knn_rel R g1 g2 ->
    knn_rel R (clustering_unsup ltb1 zero1 top1 bot1 k g1) (clustering_unsup ltb2 zero2 top2 bot2 k g2).
  Proof.
    intros Hg. destruct (knn_rel_R R _ _ Hg) as [HG]. apply knn_R_rel.
    apply (clustering_unsup_R W1 W2 R ltb1 ltb2 ltb_R zero1 zero2 Hzero top1 top2 Htop bot1 bot2 Hbot
                              k k (nat_R_refl k) g1 g2 HG).
  Qed.

  Theorem param_knn_pick g1 g2 k x1 x2 ds1 ds2 ns :
    knn_rel R g1 g2 -> R x1 x2 -> Forall2 R ds1 ds2 ->
    knn_pick ltb1 zero1 top1 bot1 g1 k x1 ds1 ns = knn_pick ltb2 zero2 top2 bot2 g2 k x2 ds2 ns.
  Proof.
    intros Hg Hx Hds. destruct (knn_rel_R R _ _ Hg) as [HG]. destruct (Forall2_list_R R _ _ Hds) as [HD].
    apply optnat_R_eq.
    apply (knn_pick_R W1 W2 R ltb1 ltb2 ltb_R zero1 zero2 Hzero top1 top2 Htop bot1 bot2 Hbot
                      g1 g2 HG k k (nat_R_refl k) x1 x2 Hx ds1 ds2 HD ns ns (list_nat_R_refl ns)).
  Qed.
End Abstraction.
